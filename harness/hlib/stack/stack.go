// Package stack builds the production middleware stack (dnssvc.NewHandlers)
// with scriptable fakes at every external edge, and counts every downstream
// effect.  It is shared by the harnesses that must observe the nested-internal
// middlewares (ratelimitmw, devicefinder, mainmw, preservice, initial).
package stack

import (
	"context"
	"fmt"
	"net"
	"net/netip"
	"sync"
	"sync/atomic"
	"time"

	"github.com/AdguardTeam/AdGuardDNS/internal/access"
	"github.com/AdguardTeam/AdGuardDNS/internal/agd"
	"github.com/AdguardTeam/AdGuardDNS/internal/agdcache"
	"github.com/AdguardTeam/AdGuardDNS/internal/agdtest"
	"github.com/AdguardTeam/AdGuardDNS/internal/dnsmsg"
	"github.com/AdguardTeam/AdGuardDNS/internal/dnsserver"
	"github.com/AdguardTeam/AdGuardDNS/internal/dnsserver/ratelimit"
	"github.com/AdguardTeam/AdGuardDNS/internal/dnssvc"
	"github.com/AdguardTeam/AdGuardDNS/internal/filter"
	"github.com/AdguardTeam/AdGuardDNS/internal/filter/hashprefix"
	"github.com/AdguardTeam/AdGuardDNS/internal/geoip"
	"github.com/AdguardTeam/AdGuardDNS/internal/profiledb"
	"github.com/AdguardTeam/AdGuardDNS/internal/querylog"
	"github.com/AdguardTeam/golibs/logutil/slogutil"
	"github.com/AdguardTeam/golibs/netutil"
	"github.com/miekg/dns"
	"github.com/prometheus/client_golang/prometheus"
)

// Names used by the fixture.
const (
	FilteringGroupID agd.FilteringGroupID = "verif_fg"
	ServerGroupName  agd.ServerGroupName  = "verif_sg"
	DeviceDomain                          = "d.dns.example"
)

// Effects counts what reached the stages behind the rate-limit/access
// middleware.
type Effects struct {
	Upstream   atomic.Int64
	QueryLog   atomic.Int64
	BillStat   atomic.Int64
	RuleStat   atomic.Int64
	DNSDB      atomic.Int64
	FilterReq  atomic.Int64
	FilterResp atomic.Int64
	GeoIP      atomic.Int64

	mu         sync.Mutex
	LogEntries []*querylog.Entry
	BillRecs   []BillRec
	LastRI     *agd.RequestInfo
}

// BillRec is one billing record.
type BillRec struct {
	Dev   agd.DeviceID
	Ctry  geoip.Country
	ASN   geoip.ASN
	Proto agd.Protocol
}

// Snapshot returns the counters as a comparable array.
func (e *Effects) Snapshot() [8]int64 {
	return [8]int64{e.Upstream.Load(), e.QueryLog.Load(), e.BillStat.Load(), e.RuleStat.Load(),
		e.DNSDB.Load(), e.FilterReq.Load(), e.FilterResp.Load(), e.GeoIP.Load()}
}

// TakeLog returns and clears the recorded query-log entries and billing records.
func (e *Effects) TakeLog() (l []*querylog.Entry, b []BillRec) {
	e.mu.Lock()
	defer e.mu.Unlock()
	l, b = e.LogEntries, e.BillRecs
	e.LogEntries, e.BillRecs = nil, nil

	return l, b
}

// Config configures the fixture; nil fields get permissive defaults.
type Config struct {
	// Upstream is the ultimate handler.  Default: answers A 192.0.2.99 TTL 100.
	Upstream dnsserver.Handler
	// ProfileDB.  Default: everything not found.
	ProfileDB profiledb.Interface
	// FilterStorage.  Default: a storage whose filters never match.
	FilterStorage filter.Storage
	// Access.  Default: nothing blocked.
	Access access.Interface
	// RateLimit.  Default: never limits.
	RateLimit ratelimit.Interface
	// GeoData returns the location for an address.  Default: AD / AS42.
	GeoData func(host string, ip netip.Addr) (*geoip.Location, error)
	// GeoSubnet maps locations to subnets (ECS cache).
	GeoSubnet func(l *geoip.Location, fam netutil.AddrFamily) (netip.Prefix, error)
	// Cache selects the response cache.  Default: none.
	Cache *dnssvc.CacheConfig
	// Servers to create; default: one plain-DNS server.
	Servers []*agd.Server
	// DeviceDomains of the server group.
	DeviceDomains []string
	// ProfilesEnabled on the server group (default true).
	ProfilesDisabled bool
	// Messages is the global message constructor.
	Messages *dnsmsg.Constructor
	// Cloner; default: a fresh production cloner.
	Cloner *dnsmsg.Cloner
	// HashMatcher for TXT safe-browsing queries.
	HashMatcher filter.HashMatcher
	// FilteringGroup config; default: everything off.
	GroupFilterConfig *filter.ConfigGroup
	// QueryLog overrides the recording query log.
	QueryLog querylog.Interface
}

// Stack is a built fixture.
type Stack struct {
	Effects  *Effects
	Handlers dnssvc.Handlers
	Group    *agd.ServerGroup
	Servers  []*agd.Server
}

// NewServer builds an *agd.Server the way the configuration loader does.
func NewServer(name string, proto agd.Protocol, linkedIP bool, bind ...*agd.ServerBindData) (srv *agd.Server) {
	srv = &agd.Server{
		Name:            agd.ServerName(name),
		Protocol:        proto,
		ReadTimeout:     time.Second,
		WriteTimeout:    time.Second,
		LinkedIPEnabled: linkedIP,
	}
	switch proto {
	case agd.ProtoDoH, agd.ProtoDoQ:
		srv.QUICConf = &agd.QUICConfig{}
	case agd.ProtoDNS, agd.ProtoDoT:
		srv.TCPConf = &agd.TCPConfig{IdleTimeout: time.Second}
		srv.UDPConf = &agd.UDPConfig{MaxRespSize: dns.MaxMsgSize}
	case agd.ProtoDNSCrypt:
		srv.DNSCrypt = &agd.DNSCryptConfig{}
	}
	if len(bind) == 0 {
		bind = []*agd.ServerBindData{{AddrPort: netip.MustParseAddrPort("192.0.2.2:53")}}
	}
	srv.SetBindData(bind)

	return srv
}

// DefaultUpstream answers every question with one A/AAAA/TXT record.
func DefaultUpstream(eff *Effects) dnsserver.Handler {
	return dnsserver.HandlerFunc(func(ctx context.Context, rw dnsserver.ResponseWriter, req *dns.Msg) error {
		if eff != nil {
			eff.Upstream.Add(1)
		}
		resp := (&dns.Msg{}).SetReply(req)
		resp.RecursionAvailable = true
		q := req.Question[0]
		hdr := dns.RR_Header{Name: q.Name, Rrtype: q.Qtype, Class: dns.ClassINET, Ttl: 100}
		switch q.Qtype {
		case dns.TypeA:
			resp.Answer = append(resp.Answer, &dns.A{Hdr: hdr, A: net.IP{192, 0, 2, 99}})
		case dns.TypeAAAA:
			resp.Answer = append(resp.Answer, &dns.AAAA{Hdr: hdr, AAAA: net.ParseIP("2001:db8::99")})
		case dns.TypeTXT:
			resp.Answer = append(resp.Answer, &dns.TXT{Hdr: hdr, Txt: []string{"upstream"}})
		}

		return rw.WriteMsg(ctx, req, resp)
	})
}

// NotFoundProfileDB is a profile DB without profiles.
func NotFoundProfileDB() *agdtest.ProfileDB {
	nf := func() (*agd.Profile, *agd.Device, error) { return nil, nil, profiledb.ErrDeviceNotFound }

	return &agdtest.ProfileDB{
		OnCreateAutoDevice: func(context.Context, agd.ProfileID, agd.HumanID, agd.DeviceType) (*agd.Profile, *agd.Device, error) {
			return nf()
		},
		OnProfileByDedicatedIP: func(context.Context, netip.Addr) (*agd.Profile, *agd.Device, error) { return nf() },
		OnProfileByDeviceID:    func(context.Context, agd.DeviceID) (*agd.Profile, *agd.Device, error) { return nf() },
		OnProfileByHumanID: func(context.Context, agd.ProfileID, agd.HumanIDLower) (*agd.Profile, *agd.Device, error) {
			return nf()
		},
		OnProfileByLinkedIP: func(context.Context, netip.Addr) (*agd.Profile, *agd.Device, error) { return nf() },
	}
}

var nsCounter atomic.Int64

// New builds the stack.
func New(c *Config) (s *Stack) {
	eff := &Effects{}
	s = &Stack{Effects: eff}
	if c.Upstream == nil {
		c.Upstream = DefaultUpstream(eff)
	}
	if c.ProfileDB == nil {
		c.ProfileDB = NotFoundProfileDB()
	}
	if c.Access == nil {
		c.Access = &agdtest.AccessManager{
			OnIsBlockedHost: func(string, uint16) bool { return false },
			OnIsBlockedIP:   func(netip.Addr) bool { return false },
		}
	}
	if c.RateLimit == nil {
		c.RateLimit = &agdtest.RateLimit{
			OnIsRateLimited:  func(context.Context, *dns.Msg, netip.Addr) (bool, bool, error) { return false, false, nil },
			OnCountResponses: func(context.Context, *dns.Msg, netip.Addr) {},
		}
	}
	if c.GeoData == nil {
		loc := &geoip.Location{Country: geoip.CountryAD, Continent: geoip.ContinentEU, ASN: 42}
		c.GeoData = func(string, netip.Addr) (*geoip.Location, error) { return loc, nil }
	}
	if c.GeoSubnet == nil {
		c.GeoSubnet = func(_ *geoip.Location, fam netutil.AddrFamily) (netip.Prefix, error) {
			if fam == netutil.AddrFamilyIPv6 {
				return netip.MustParsePrefix("2001:db8::/48"), nil
			}

			return netip.MustParsePrefix("198.51.100.0/24"), nil
		}
	}
	if c.Cache == nil {
		c.Cache = &dnssvc.CacheConfig{Type: dnssvc.CacheTypeNone}
	}
	if c.Cloner == nil {
		c.Cloner = agdtest.NewCloner()
	}
	if c.Messages == nil {
		var err error
		c.Messages, err = dnsmsg.NewConstructor(&dnsmsg.ConstructorConfig{
			Cloner:              c.Cloner,
			BlockingMode:        &dnsmsg.BlockingModeNullIP{},
			StructuredErrors:    agdtest.NewSDEConfig(true),
			FilteredResponseTTL: 10 * time.Second,
			EDEEnabled:          true,
		})
		if err != nil {
			panic(err)
		}
	}
	if c.FilterStorage == nil {
		empty := &agdtest.Filter{
			OnFilterRequest: func(context.Context, *filter.Request) (filter.Result, error) {
				eff.FilterReq.Add(1)

				return nil, nil
			},
			OnFilterResponse: func(context.Context, *filter.Response) (filter.Result, error) {
				eff.FilterResp.Add(1)

				return nil, nil
			},
		}
		c.FilterStorage = &agdtest.FilterStorage{
			OnForConfig: func(context.Context, filter.Config) filter.Interface { return empty },
			OnHasListID: func(filter.ID) bool { return true },
		}
	}
	if c.HashMatcher == nil {
		c.HashMatcher = hashprefix.NewMatcher(nil)
	}
	if c.GroupFilterConfig == nil {
		c.GroupFilterConfig = &filter.ConfigGroup{
			Parental:     &filter.ConfigParental{},
			RuleList:     &filter.ConfigRuleList{},
			SafeBrowsing: &filter.ConfigSafeBrowsing{},
		}
	}
	if len(c.Servers) == 0 {
		c.Servers = []*agd.Server{NewServer("verif_dns", agd.ProtoDNS, false)}
	}
	if c.DeviceDomains == nil {
		c.DeviceDomains = []string{DeviceDomain}
	}
	geo := agdtest.NewGeoIP()
	geo.OnData = func(host string, ip netip.Addr) (*geoip.Location, error) {
		eff.GeoIP.Add(1)

		return c.GeoData(host, ip)
	}
	geo.OnSubnetByLocation = c.GeoSubnet

	ql := c.QueryLog
	if ql == nil {
		ql = &agdtest.QueryLog{OnWrite: func(_ context.Context, e *querylog.Entry) error {
			eff.QueryLog.Add(1)
			eff.mu.Lock()
			cp := *e
			eff.LogEntries = append(eff.LogEntries, &cp)
			eff.mu.Unlock()

			return nil
		}}
	}

	s.Group = &agd.ServerGroup{
		DDR:             &agd.DDR{},
		DeviceDomains:   c.DeviceDomains,
		Name:            ServerGroupName,
		FilteringGroup:  FilteringGroupID,
		Servers:         c.Servers,
		ProfilesEnabled: !c.ProfilesDisabled,
	}
	s.Servers = c.Servers
	hc := &dnssvc.HandlersConfig{
		BaseLogger:       slogutil.NewDiscardLogger(),
		Cache:            c.Cache,
		StructuredErrors: agdtest.NewSDEConfig(true),
		Cloner:           c.Cloner,
		HumanIDParser:    agd.NewHumanIDParser(),
		Messages:         c.Messages,
		AccessManager:    c.Access,
		BillStat: &agdtest.BillStatRecorder{OnRecord: func(_ context.Context, id agd.DeviceID, ctry geoip.Country,
			asn geoip.ASN, _ time.Time, proto agd.Protocol) {
			eff.BillStat.Add(1)
			eff.mu.Lock()
			eff.BillRecs = append(eff.BillRecs, BillRec{Dev: id, Ctry: ctry, ASN: asn, Proto: proto})
			eff.mu.Unlock()
		}},
		CacheManager: agdcache.EmptyManager{},
		DNSCheck: &agdtest.DNSCheck{OnCheck: func(context.Context, *dns.Msg, *agd.RequestInfo) (*dns.Msg, error) {
			return nil, nil
		}},
		DNSDB: &agdtest.DNSDB{OnRecord: func(_ context.Context, _ *dns.Msg, ri *agd.RequestInfo) {
			eff.DNSDB.Add(1)
		}},
		ErrColl:              &agdtest.ErrorCollector{OnCollect: func(context.Context, error) {}},
		FilterStorage:        c.FilterStorage,
		GeoIP:                geo,
		Handler:              c.Upstream,
		HashMatcher:          c.HashMatcher,
		ProfileDB:            c.ProfileDB,
		PrometheusRegisterer: prometheus.NewRegistry(),
		QueryLog:             ql,
		RateLimit:            c.RateLimit,
		RuleStat: &agdtest.RuleStat{OnCollect: func(context.Context, filter.ID, filter.RuleText) {
			eff.RuleStat.Add(1)
		}},
		MetricsNamespace: fmt.Sprintf("verif%d", nsCounter.Add(1)),
		FilteringGroups: map[agd.FilteringGroupID]*agd.FilteringGroup{
			FilteringGroupID: {FilterConfig: c.GroupFilterConfig, ID: FilteringGroupID},
		},
		ServerGroups: []*agd.ServerGroup{s.Group},
		EDEEnabled:   true,
	}
	var err error
	s.Handlers, err = dnssvc.NewHandlers(context.Background(), hc)
	if err != nil {
		panic(err)
	}

	return s
}

// Req describes one request as the transport layer would hand it over.
type Req struct {
	Server        *agd.Server
	Msg           *dns.Msg
	Remote        netip.AddrPort
	Local         netip.AddrPort
	TLSServerName string
	// URL and Userinfo are set for DoH.
	ReqInfo *dnsserver.RequestInfo
}

// Outcome is what the caller of the stack observes.
type Outcome struct {
	Resp *dns.Msg
	Err  error
}

// Serve runs one request through the handler of its server.
func (s *Stack) Serve(ctx context.Context, r *Req) (o Outcome) {
	h, ok := s.Handlers[dnssvc.HandlerKey{Server: r.Server, ServerGroup: s.Group}]
	if !ok {
		panic("no handler for server")
	}
	ri := r.ReqInfo
	if ri == nil {
		ri = &dnsserver.RequestInfo{}
	}
	if ri.StartTime.IsZero() {
		ri.StartTime = time.Now()
	}
	if r.TLSServerName != "" {
		ri.TLSServerName = r.TLSServerName
	}
	ctx = dnsserver.ContextWithServerInfo(ctx, &dnsserver.ServerInfo{
		Name:  string(r.Server.Name),
		Addr:  r.Local.String(),
		Proto: r.Server.Protocol,
	})
	ctx = dnsserver.ContextWithRequestInfo(ctx, ri)
	var laddr, raddr net.Addr
	if r.Server.Protocol == agd.ProtoDNS {
		laddr, raddr = net.UDPAddrFromAddrPort(r.Local), net.UDPAddrFromAddrPort(r.Remote)
	} else {
		laddr, raddr = net.TCPAddrFromAddrPort(r.Local), net.TCPAddrFromAddrPort(r.Remote)
	}
	rw := dnsserver.NewNonWriterResponseWriter(laddr, raddr)
	o.Err = h.ServeDNS(ctx, rw, r.Msg)
	o.Resp = rw.Msg()

	return o
}
