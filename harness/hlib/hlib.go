// Package hlib is the shared part of the correspondence harness: the model
// driver pipe, the PRNG, result accounting and the JSON result file.
package hlib

import (
	"bufio"
	"encoding/json"
	"flag"
	"fmt"
	"hash/fnv"
	"io"
	"math/rand/v2"
	"os"
	"os/exec"
	"sort"
	"strings"
	"time"
)

// Opts are the common command-line options of every per-property harness.
type Opts struct {
	Seed   uint64
	Tier   string
	Model  string
	Out    string
	Replay string
}

// ParseFlags parses the common flags.
func ParseFlags() (o *Opts) {
	o = &Opts{}
	flag.Uint64Var(&o.Seed, "seed", 1, "PRNG seed")
	flag.StringVar(&o.Tier, "tier", "quick", "quick|thorough")
	flag.StringVar(&o.Model, "model", "/verif/lean/.lake/build/bin/agdmodel", "model driver")
	flag.StringVar(&o.Out, "out", "", "result JSON path")
	flag.StringVar(&o.Replay, "replay", "", "replay file")
	flag.Parse()

	return o
}

// Thorough reports whether the thorough tier was requested.
func (o *Opts) Thorough() bool { return o.Tier == "thorough" }

// Rand returns the PRNG for a named sub-campaign, derived from the one seed.
func (o *Opts) Rand(stream string) *rand.Rand {
	h := fnv.New64a()
	_, _ = io.WriteString(h, stream)

	return rand.New(rand.NewPCG(o.Seed, h.Sum64()))
}

// Model is a running model driver.
type Model struct {
	cmd *exec.Cmd
	in  *bufio.Writer
	out *bufio.Reader
	// Log holds the op lines sent since the last Reset, for replays.
	Log []string
}

// StartModel starts the model driver for prop.
func StartModel(path, prop string) (m *Model) {
	cmd := exec.Command(path, prop)
	stdin, err := cmd.StdinPipe()
	Must(err)
	stdout, err := cmd.StdoutPipe()
	Must(err)
	cmd.Stderr = os.Stderr
	Must(cmd.Start())

	return &Model{cmd: cmd, in: bufio.NewWriter(stdin), out: bufio.NewReader(stdout)}
}

// Ask sends one op line and returns the model's one-line answer.
func (m *Model) Ask(format string, args ...any) (ans string) {
	line := fmt.Sprintf(format, args...)
	m.Log = append(m.Log, line)
	_, err := m.in.WriteString(line + "\n")
	Must(err)
	Must(m.in.Flush())
	ans, err = m.out.ReadString('\n')
	if err != nil {
		panic(fmt.Errorf("model driver died after %q: %w", line, err))
	}

	return strings.TrimRight(ans, "\n")
}

// Batch sends all lines, then reads one answer per line.  Far fewer context
// switches than Ask per line; use it whenever the model's input does not
// depend on its earlier answers.
func (m *Model) Batch(lines []string) (answers []string) {
	m.Log = append(m.Log, lines...)
	done := make(chan error, 1)
	go func() {
		for _, l := range lines {
			if _, err := m.in.WriteString(l + "\n"); err != nil {
				done <- err

				return
			}
		}
		done <- m.in.Flush()
	}()
	answers = make([]string, 0, len(lines))
	for range lines {
		ans, err := m.out.ReadString('\n')
		if err != nil {
			panic(fmt.Errorf("model driver died during a batch of %d lines: %w", len(lines), err))
		}
		answers = append(answers, strings.TrimRight(ans, "\n"))
	}
	Must(<-done)

	return answers
}

// ResetLog forgets the op log (call at the start of a case).
func (m *Model) ResetLog() { m.Log = m.Log[:0] }

// Close stops the driver.
func (m *Model) Close() {
	_ = m.in.Flush()
	_ = m.cmd.Process.Kill()
	_, _ = m.cmd.Process.Wait()
}

// Finding is a disagreement (model vs implementation) or a property violation
// (implementation vs the property's own oracle).
type Finding struct {
	// Signature identifies the failing input class; compared with
	// known_findings.json by the check script.
	Signature string `json:"signature"`
	What      string `json:"what"`
	Replay    any    `json:"replay,omitempty"`
}

// Result is what a harness run reports.
type Result struct {
	Property      string         `json:"property"`
	Seed          uint64         `json:"seed"`
	Tier          string         `json:"tier"`
	Evaluations   int            `json:"evaluations"`
	Distinct      int            `json:"distinct_nontrivial"`
	ModelOps      int            `json:"model_ops"`
	Traces        int            `json:"traces_validated_against_impl"`
	Rule          string         `json:"rule"`
	Samples       []any          `json:"samples"`
	Distribution  map[string]int `json:"distribution"`
	Disagreements []Finding      `json:"disagreements"`
	Violations    []Finding      `json:"violations"`
	Exhaustive    bool           `json:"exhaustive,omitempty"`
	Notes         []string       `json:"notes,omitempty"`
	WallS         float64        `json:"wall_s"`

	distinct map[uint64]struct{}
	start    time.Time
	out      string
}

// NewResult starts the accounting for a run.
func NewResult(prop string, o *Opts) (r *Result) {
	return &Result{
		Property:     prop,
		Seed:         o.Seed,
		Tier:         o.Tier,
		Distribution: map[string]int{},
		distinct:     map[uint64]struct{}{},
		start:        time.Now(),
		out:          o.Out,
	}
}

// Count bumps a distribution bucket.
func (r *Result) Count(bucket string) { r.Distribution[bucket]++ }

// Case records one evaluated case.  canon is its canonical text; nontrivial
// says whether it reached a non-default branch.
func (r *Result) Case(canon string, nontrivial bool) {
	r.Evaluations++
	if nontrivial {
		h := fnv.New64a()
		_, _ = io.WriteString(h, canon)
		r.distinct[h.Sum64()] = struct{}{}
	}
}

// Sample keeps up to n sample cases.
func (r *Result) Sample(s any, n int) {
	if len(r.Samples) < n {
		r.Samples = append(r.Samples, s)
	}
}

// Disagree records a model/implementation disagreement (at most 20 kept).
func (r *Result) Disagree(sig, what string, replay any) {
	if len(r.Disagreements) < 20 {
		r.Disagreements = append(r.Disagreements, Finding{Signature: sig, What: what, Replay: replay})
	}
}

// Violate records a violation of the property itself on the implementation.
// Findings with the same signature are reported once.
func (r *Result) Violate(sig, what string, replay any) {
	for _, v := range r.Violations {
		if v.Signature == sig {
			return
		}
	}
	if len(r.Violations) < 50 {
		r.Violations = append(r.Violations, Finding{Signature: sig, What: what, Replay: replay})
	}
}

// Finish writes the result file.
func (r *Result) Finish() {
	r.Distinct = len(r.distinct)
	r.WallS = time.Since(r.start).Seconds()
	if r.Disagreements == nil {
		r.Disagreements = []Finding{}
	}
	if r.Violations == nil {
		r.Violations = []Finding{}
	}
	if r.Samples == nil {
		r.Samples = []any{}
	}
	b, err := json.MarshalIndent(r, "", " ")
	Must(err)
	if r.out == "" {
		_, _ = os.Stdout.Write(append(b, '\n'))

		return
	}
	Must(os.WriteFile(r.out, b, 0o644))
}

// Must panics on error.
func Must(err error) {
	if err != nil {
		panic(err)
	}
}

// SortedKeys returns the sorted keys of m.
func SortedKeys[V any](m map[string]V) (keys []string) {
	for k := range m {
		keys = append(keys, k)
	}
	sort.Strings(keys)

	return keys
}

// Shrink is delta debugging on an op list: fails must report whether the
// (sub)sequence still fails.  It returns a 1-minimal failing subsequence.
func Shrink[T any](ops []T, fails func([]T) bool) []T {
	n := 2
	for len(ops) >= 2 {
		chunk := (len(ops) + n - 1) / n
		reduced := false
		for i := 0; i < len(ops); i += chunk {
			end := min(i+chunk, len(ops))
			cand := append(append([]T{}, ops[:i]...), ops[end:]...)
			if len(cand) > 0 && fails(cand) {
				ops = cand
				n = max(n-1, 2)
				reduced = true

				break
			}
		}
		if !reduced {
			if n >= len(ops) {
				break
			}
			n = min(n*2, len(ops))
		}
	}

	return ops
}
