// Command c05 is the correspondence harness and property oracle for C05
// (client subnets stay private; ECS-dependent answers stay in their region).
//
// It drives the production handler stack (dnssvc.NewHandlers: ratelimitmw's
// location/FORMERR logic in front, ecscache.Middleware behind it) with a
// table-driven fake GeoIP and a scripted, recording upstream.
package main

import (
	"context"
	"encoding/binary"
	"encoding/json"
	"fmt"
	"math/big"
	"math/rand/v2"
	"net"
	"net/netip"
	"strings"

	"github.com/AdguardTeam/AdGuardDNS/internal/agd"
	"github.com/AdguardTeam/AdGuardDNS/internal/agdnet"
	"github.com/AdguardTeam/AdGuardDNS/internal/dnsmsg"
	"github.com/AdguardTeam/AdGuardDNS/internal/dnsserver"
	"github.com/AdguardTeam/AdGuardDNS/internal/ecscache"
	"github.com/AdguardTeam/AdGuardDNS/internal/geoip"
	"github.com/AdguardTeam/AdGuardDNS/verifh/hlib"
	"github.com/AdguardTeam/AdGuardDNS/verifh/hlib/stack"
	"github.com/AdguardTeam/golibs/netutil"
	"github.com/miekg/dns"
)

// ---------------------------------------------------------------------------
// Scenario description (pure data; everything the run depends on).

// optDesc is one EDNS option of a message.
type optDesc struct {
	ECS    bool   `json:"ecs"`
	Code   uint16 `json:"code,omitempty"`
	Family uint16 `json:"family,omitempty"`
	Addr   []byte `json:"addr,omitempty"` // nil allowed
	Mask   uint8  `json:"mask,omitempty"`
	Scope  uint8  `json:"scope,omitempty"`
}

// optRR is one OPT RR.
type optRR struct {
	DO   bool      `json:"do"`
	Opts []optDesc `json:"opts"`
}

// upDesc scripts what the upstream does if it is consulted for this request.
type upDesc struct {
	// Kind: 0 = writes a response, 1 = writes nothing, 2 = returns an error.
	Kind int `json:"kind"`
	// Ans: 0 NOERROR ttl 300, 1 NOERROR ttl 0, 2 REFUSED, 3 SERVFAIL, 4 truncated, 5 NXDOMAIN+SOA.
	Ans    int       `json:"ans"`
	HasOPT bool      `json:"has_opt"`
	Opts   []optDesc `json:"opts,omitempty"`
}

func (u upDesc) cacheable() bool { return u.Ans == 0 || u.Ans == 3 || u.Ans == 5 }

type reqDesc struct {
	Remote netip.Addr `json:"remote"`
	Host   int        `json:"host"`
	QType  uint16     `json:"qtype"`
	QClass uint16     `json:"qclass"`
	RRs    []optRR    `json:"opt_rrs"`
	Up     upDesc     `json:"upstream"`
}

type locIdx struct{ Ctry, Subdiv, ASN int }

type subKey struct {
	Loc locIdx
	Fam int // 4 or 6
}

type subVal struct {
	Err bool
	P   netip.Prefix
}

// geoTab is the GeoIP database of one case.
type geoTab struct {
	Data map[netip.Addr]locIdx // absent = no location (nil)
	Sub  map[subKey]subVal     // absent = zero prefix of the family

	// liveData/liveSubnet, when set, are what the stack under test is given as
	// GeoIP (a real geoip.File); the tables above then describe what is
	// expected of it and are used by the oracle and the model run only.
	liveData   func(a netip.Addr) *geoip.Location
	liveSubnet func(l *geoip.Location, fam netutil.AddrFamily) (netip.Prefix, error)
	// ctryNames/subdivNames override the default name pools; asnIsValue says
	// that locIdx.ASN is the ASN itself, not an index into asnVals.
	ctryNames   []geoip.Country
	subdivNames []string
	asnIsValue  bool
}

func (g *geoTab) ctrys() []geoip.Country {
	if g.ctryNames != nil {
		return g.ctryNames
	}

	return ctryNames
}

func (g *geoTab) subdivs() []string {
	if g.subdivNames != nil {
		return g.subdivNames
	}

	return subdivNames
}

func (g *geoTab) asnOf(i int) geoip.ASN {
	if g.asnIsValue {
		return geoip.ASN(i)
	}

	return asnVals[i]
}

func (g *geoTab) asnIdx(a geoip.ASN) int {
	if g.asnIsValue {
		return int(a)
	}

	return idxOf(asnVals, a)
}

type scenario struct {
	Geo  geoTab
	Reqs []reqDesc
	// Geo2, if set, replaces Geo from request RefreshAt on (a refresh of the
	// GeoIP databases in the middle of the history; the caches live on).
	Geo2      *geoTab `json:",omitempty"`
	RefreshAt int     `json:",omitempty"`
	// onRefresh is run right before request RefreshAt (real geoip.File:
	// rewrite the database files and call Refresh).
	onRefresh func()
	// onRefreshRn is the same with access to the runner, so that requests can
	// be served while Refresh is running (race.go).
	onRefreshRn func(rn *runner)
}

// geoAt is the GeoIP table in force for request i.
func (sc *scenario) geoAt(i int) *geoTab {
	if sc.Geo2 != nil && i >= sc.RefreshAt {
		return sc.Geo2
	}

	return &sc.Geo
}

// MarshalJSON renders the tables as readable lists (replay files).
func (g geoTab) MarshalJSON() ([]byte, error) {
	var ds, ss []string
	for a, l := range g.Data {
		ds = append(ds, fmt.Sprintf("%s -> country %q subdivision %q asn %d", a, g.ctrys()[l.Ctry], g.subdivs()[l.Subdiv], g.asnOf(l.ASN)))
	}
	for k, v := range g.Sub {
		val := "error"
		if !v.Err {
			val = v.P.String()
		}
		ss = append(ss, fmt.Sprintf("country %q subdivision %q asn %d ipv%d -> %s", g.ctrys()[k.Loc.Ctry], g.subdivs()[k.Loc.Subdiv],
			g.asnOf(k.Loc.ASN), k.Fam, val))
	}
	sortStrings(ds)
	sortStrings(ss)

	return json.Marshal(map[string][]string{"data": ds, "subnet_by_location (absent: zero prefix)": ss})
}

var (
	ctryNames   = []geoip.Country{geoip.CountryNone, geoip.CountryAD, geoip.CountryUS}
	subdivNames = []string{"", "CA"}
	asnVals     = []geoip.ASN{0, 7, 42}
	// hostNames[3] is in ecscache.FakeECSFQDNs.  Indices 4.. are other spellings
	// of the first four names (DNS names are case-insensitive: the cache keys
	// use the normalised host, the fake-ECS list is asked about the name as
	// spelled); spellingsOf maps a base name to them.
	hostNames   = []string{"a.example.", "b.example.", "c.example.", "0cf.io.", "A.Example.", "B.EXAMPLE.", "0CF.IO.", "0cf.Io.", "a.EXAMPLE."}
	spellingsOf = map[int][]int{0: {4, 8}, 1: {5}, 3: {6, 7}}
)

func init() {
	if !ecscache.FakeECSFQDNs.Has(hostNames[3]) {
		panic("fixture: " + hostNames[3] + " is expected to be in FakeECSFQDNs")
	}
}

func (g *geoTab) loc(a netip.Addr) *geoip.Location {
	li, ok := g.Data[a]
	if !ok {
		return nil
	}

	return &geoip.Location{Country: g.ctrys()[li.Ctry], TopSubdivision: g.subdivs()[li.Subdiv], ASN: g.asnOf(li.ASN)}
}

// sameName is the oracle's own reading of "the same question name": DNS names
// are compared case-insensitively (RFC 4343).
func sameName(a, b int) bool { return strings.EqualFold(hostNames[a], hostNames[b]) }

// onFakeList: the name, in any spelling, is on the published fake-ECS list.
func onFakeList(h int) bool { return ecscache.FakeECSFQDNs.Has(strings.ToLower(hostNames[h])) }

func idxOf[T comparable](xs []T, x T) int {
	for i, y := range xs {
		if x == y {
			return i
		}
	}

	return -1
}

func (g *geoTab) subnet(l *geoip.Location, fam netutil.AddrFamily) (netip.Prefix, error) {
	k := subKey{Loc: locIdx{idxOf(g.ctrys(), l.Country), idxOf(g.subdivs(), l.TopSubdivision), g.asnIdx(l.ASN)}, Fam: 4}
	if fam == netutil.AddrFamilyIPv6 {
		k.Fam = 6
	}
	v, ok := g.Sub[k]
	if !ok {
		return netutil.ZeroPrefix(fam), nil
	}
	if v.Err {
		return netip.Prefix{}, fmt.Errorf("fake geoip: no subnet")
	}

	return v.P, nil
}

// ---------------------------------------------------------------------------
// Building messages.

func (o optDesc) toEDNS() dns.EDNS0 {
	if !o.ECS {
		if o.Code == dns.EDNS0EDE {
			return &dns.EDNS0_EDE{InfoCode: dns.ExtendedErrorCodeOther, ExtraText: "x"}
		}

		return &dns.EDNS0_LOCAL{Code: o.Code, Data: []byte{1}}
	}
	var ip net.IP
	if o.Addr != nil {
		ip = append(net.IP{}, o.Addr...)
	}

	return &dns.EDNS0_SUBNET{Code: dns.EDNS0SUBNET, Family: o.Family, SourceNetmask: o.Mask, SourceScope: o.Scope, Address: ip}
}

func optRRToRR(rr optRR) *dns.OPT {
	o := &dns.OPT{Hdr: dns.RR_Header{Name: ".", Rrtype: dns.TypeOPT, Class: 1232}}
	if rr.DO {
		o.SetDo()
	}
	for _, od := range rr.Opts {
		o.Option = append(o.Option, od.toEDNS())
	}

	return o
}

func (rd *reqDesc) msg(id uint16) *dns.Msg {
	m := &dns.Msg{}
	m.Id = id
	m.RecursionDesired = true
	m.Question = []dns.Question{{Name: hostNames[rd.Host], Qtype: rd.QType, Qclass: rd.QClass}}
	for _, rr := range rd.RRs {
		m.Extra = append(m.Extra, optRRToRR(rr))
	}

	return m
}

// answer builds the upstream's answer for req carrying token.
func (u upDesc) answer(req *dns.Msg, token int) *dns.Msg {
	resp := (&dns.Msg{}).SetReply(req)
	resp.RecursionAvailable = true
	q := req.Question[0]
	ttl := uint32(300)
	switch u.Ans {
	case 1:
		ttl = 0
	case 2:
		resp.Rcode = dns.RcodeRefused
	case 3:
		resp.Rcode = dns.RcodeServerFailure
	case 4:
		resp.Truncated = true
	case 5:
		resp.Rcode = dns.RcodeNameError
	}
	hdr := dns.RR_Header{Name: q.Name, Rrtype: q.Qtype, Class: q.Qclass, Ttl: ttl}
	var tok [4]byte
	binary.BigEndian.PutUint32(tok[:], uint32(token))
	switch q.Qtype {
	case dns.TypeA:
		resp.Answer = append(resp.Answer, &dns.A{Hdr: hdr, A: net.IP{10, tok[1], tok[2], tok[3]}})
	case dns.TypeAAAA:
		ip := net.ParseIP("2001:db8:ffff::")
		copy(ip[12:], tok[:])
		resp.Answer = append(resp.Answer, &dns.AAAA{Hdr: hdr, AAAA: ip})
	case dns.TypeCAA:
		resp.Answer = append(resp.Answer, &dns.CAA{Hdr: hdr, Tag: "issue", Value: fmt.Sprintf("tok=%d", token)})
	default:
		hdr.Rrtype = dns.TypeTXT
		resp.Answer = append(resp.Answer, &dns.TXT{Hdr: hdr, Txt: []string{fmt.Sprintf("tok=%d", token)}})
	}
	if u.Ans == 5 {
		resp.Ns = append(resp.Ns, &dns.SOA{Hdr: dns.RR_Header{Name: q.Name, Rrtype: dns.TypeSOA, Class: q.Qclass, Ttl: ttl},
			Ns: "ns.example.", Mbox: "m.example.", Minttl: 300})
	}
	if u.HasOPT {
		resp.Extra = append(resp.Extra, optRRToRR(optRR{Opts: u.Opts}))
	}

	return resp
}

// tokenOf extracts the token from a response (or -1).
func tokenOf(resp *dns.Msg) int {
	for _, rr := range resp.Answer {
		switch v := rr.(type) {
		case *dns.A:
			if ip := v.A.To4(); ip != nil {
				return int(ip[1])<<16 | int(ip[2])<<8 | int(ip[3])
			}
		case *dns.AAAA:
			return int(binary.BigEndian.Uint32(v.AAAA[12:]))
		case *dns.TXT:
			var t int
			if _, err := fmt.Sscanf(strings.Join(v.Txt, ""), "tok=%d", &t); err == nil {
				return t
			}
		case *dns.CAA:
			var t int
			if _, err := fmt.Sscanf(v.Value, "tok=%d", &t); err == nil {
				return t
			}
		}
	}

	return -1
}

// ---------------------------------------------------------------------------
// Running a scenario on the real code.

type obs struct {
	UpCalled bool
	UpReq    *dns.Msg
	Resp     *dns.Msg
	Err      error
	Panic    any
	// TwinUp is what a cold middleware (same GeoIP, nothing cached) sends
	// upstream for the same request; nil if it does not reach the upstream.
	TwinUp *dns.Msg
}

type runner struct {
	geo        *geoTab
	st, twin   *stack.Stack
	cur        *reqDesc
	curTok     int
	lastUp     *dns.Msg
	lastTwinUp *dns.Msg
}

func newRunner(g *geoTab, ecsCount, noECSCount int) (rn *runner) {
	rn = &runner{geo: g}
	// The tables are read through rn.geo, so that a scenario can replace them
	// in the middle of a history.
	geoData := func(_ string, ip netip.Addr) (*geoip.Location, error) {
		if rn.geo.liveData != nil {
			return rn.geo.liveData(ip), nil
		}

		return rn.geo.loc(ip), nil
	}
	geoSubnet := func(l *geoip.Location, fam netutil.AddrFamily) (netip.Prefix, error) {
		if rn.geo.liveData != nil {
			return rn.geo.liveSubnet(l, fam)
		}

		return rn.geo.subnet(l, fam)
	}
	rn.st = stack.New(&stack.Config{
		Cache:     cacheConfFromYAML(ecsCount, noECSCount),
		GeoData:   geoData,
		GeoSubnet: geoSubnet,
		Upstream: dnsserver.HandlerFunc(func(ctx context.Context, rw dnsserver.ResponseWriter, req *dns.Msg) error {
			rn.lastUp = req.Copy()
			switch rn.cur.Up.Kind {
			case 1:
				return nil
			case 2:
				return fmt.Errorf("scripted upstream failure")
			}

			return rw.WriteMsg(ctx, req, rn.cur.Up.answer(req, rn.curTok))
		}),
	})
	rn.twin = stack.New(&stack.Config{
		Cache:     cacheConfFromYAML(10, 10),
		GeoData:   geoData,
		GeoSubnet: geoSubnet,
		Upstream: dnsserver.HandlerFunc(func(ctx context.Context, rw dnsserver.ResponseWriter, req *dns.Msg) error {
			rn.lastTwinUp = req.Copy()

			// TTL 0: never cached, so the twin is always cold.
			return rw.WriteMsg(ctx, req, upDesc{Ans: 1}.answer(req, 0))
		}),
	})

	return rn
}

func (rn *runner) serve(i int, rd *reqDesc) (o obs) {
	rn.cur, rn.curTok, rn.lastUp, rn.lastTwinUp = rd, i, nil, nil
	remote := netip.AddrPortFrom(rd.Remote, 12345)
	local := netip.MustParseAddrPort("192.0.2.2:53")
	func() {
		defer func() { o.Panic = recover() }()
		out := rn.st.Serve(context.Background(), &stack.Req{Server: rn.st.Servers[0], Msg: rd.msg(uint16(i + 1)), Remote: remote, Local: local})
		o.Resp, o.Err = out.Resp, out.Err
	}()
	o.UpCalled, o.UpReq = rn.lastUp != nil, rn.lastUp
	func() {
		defer func() { _ = recover() }()
		rn.twin.Serve(context.Background(), &stack.Req{Server: rn.twin.Servers[0], Msg: rd.msg(uint16(i + 1)), Remote: remote, Local: local})
	}()
	o.TwinUp = rn.lastTwinUp

	return o
}

func runScenario(sc *scenario, ecsCount, noECSCount int) (os []obs) {
	rn := newRunner(&sc.Geo, ecsCount, noECSCount)
	os = make([]obs, len(sc.Reqs))
	for i := range sc.Reqs {
		if sc.Geo2 != nil && i == sc.RefreshAt {
			if sc.onRefresh != nil {
				sc.onRefresh()
			}
			if sc.onRefreshRn != nil {
				sc.onRefreshRn(rn)
			}
			rn.geo = sc.Geo2
		}
		os[i] = rn.serve(i, &sc.Reqs[i])
	}

	return os
}

// ---------------------------------------------------------------------------
// Canonical text.

func natOf(b []byte) string { return new(big.Int).SetBytes(b).String() }

func parseBig(s string) *big.Int {
	v, ok := new(big.Int).SetString(s, 10)
	if !ok {
		return new(big.Int)
	}

	return v
}

func addrNat(a netip.Addr) string { return natOf(a.AsSlice()) }

func famOf(a netip.Addr) int {
	if a.Is4() {
		return 4
	}

	return 6
}

func (o optDesc) token() string {
	if !o.ECS {
		return fmt.Sprintf("o:%d", o.Code)
	}

	return fmt.Sprintf("e:%d:%d:%s:%d:%d", o.Family, len(o.Addr), natOf(o.Addr), o.Mask, o.Scope)
}

func descOfEDNS(e dns.EDNS0) optDesc {
	if s, ok := e.(*dns.EDNS0_SUBNET); ok {
		return optDesc{ECS: true, Family: s.Family, Addr: []byte(s.Address), Mask: s.SourceNetmask, Scope: s.SourceScope}
	}

	return optDesc{Code: e.Option()}
}

// optRRsOf returns the OPT RRs of m in Extra order.
func optRRsOf(m *dns.Msg) (rrs []optRR) {
	for _, rr := range m.Extra {
		if o, ok := rr.(*dns.OPT); ok {
			d := optRR{DO: o.Do()}
			for _, e := range o.Option {
				d.Opts = append(d.Opts, descOfEDNS(e))
			}
			rrs = append(rrs, d)
		}
	}

	return rrs
}

func canonRRs(rrs []optRR, onlyECS bool) string {
	var sb strings.Builder
	for _, rr := range rrs {
		sb.WriteByte('[')
		first := true
		for _, o := range rr.Opts {
			if onlyECS && !o.ECS {
				continue
			}
			if !first {
				sb.WriteByte(',')
			}
			first = false
			sb.WriteString(o.token())
		}
		sb.WriteByte(']')
	}
	if sb.Len() == 0 {
		return "-"
	}

	return sb.String()
}

// ecsOnly returns all ECS options of all OPT RRs.
func ecsOnly(rrs []optRR) (es []optDesc) {
	for _, rr := range rrs {
		for _, o := range rr.Opts {
			if o.ECS {
				es = append(es, o)
			}
		}
	}

	return es
}

func canonECS(es []optDesc) string {
	if len(es) == 0 {
		return "-"
	}
	s := make([]string, len(es))
	for i, e := range es {
		s[i] = e.token()
	}

	return strings.Join(s, ",")
}

// canonObs renders what the real code did in the model driver's output format.
func canonObs(o *obs) string {
	kind, tok, ecs := "none", "-", "-"
	switch {
	case o.Panic != nil:
		kind = "panic"
	case o.Resp != nil && o.Resp.Rcode == dns.RcodeFormatError && !o.UpCalled:
		kind = "formerr"
	case o.Resp != nil:
		kind = "ok"
		tok = fmt.Sprint(tokenOf(o.Resp))
		ecs = canonECS(ecsOnly(optRRsOf(o.Resp)))
	case o.Err != nil:
		kind = "err"
	}
	up := "-"
	if o.UpCalled {
		up = canonRRs(optRRsOf(o.UpReq), false)
	}

	return fmt.Sprintf("%s up=%s tok=%s ecs=%s", kind, up, tok, ecs)
}

func (rd *reqDesc) line(token int) string {
	var sb strings.Builder
	fmt.Fprintf(&sb, "req %d %s %s %d %d %d", famOf(rd.Remote), addrNat(rd.Remote), hostNames[rd.Host], rd.QType, rd.QClass, len(rd.RRs))
	for _, rr := range rd.RRs {
		fmt.Fprintf(&sb, " %s %d", b01(rr.DO), len(rr.Opts))
		for _, o := range rr.Opts {
			sb.WriteByte(' ')
			sb.WriteString(o.token())
		}
	}
	fmt.Fprintf(&sb, " %d %s %d %s %d", rd.Up.Kind, b01(rd.Up.cacheable()), token, b01(rd.Up.HasOPT), len(rd.Up.Opts))
	for _, o := range rd.Up.Opts {
		sb.WriteByte(' ')
		sb.WriteString(o.token())
	}

	return sb.String()
}

func b01(b bool) string {
	if b {
		return "1"
	}

	return "0"
}

// modelLines are the driver ops describing the tables of g.
func (g *geoTab) modelLines() (ls []string) {
	// Sorted for a canonical text.
	var ds, ss []string
	for a, l := range g.Data {
		ds = append(ds, fmt.Sprintf("data %d %s %d %d %d", famOf(a), addrNat(a), l.Ctry, l.Subdiv, g.asnOf(l.ASN)))
	}
	for k, v := range g.Sub {
		pf, pa, pb := 0, "0", 0
		if !v.Err {
			pf, pa, pb = famOf(v.P.Addr()), addrNat(v.P.Addr()), v.P.Bits()
		}
		ss = append(ss, fmt.Sprintf("sub %d %d %d %d %d %s %d", k.Loc.Ctry, k.Loc.Subdiv, g.asnOf(k.Loc.ASN), k.Fam, pf, pa, pb))
	}
	sortStrings(ds)
	sortStrings(ss)

	return append(ds, ss...)
}

func (sc *scenario) lines() (ls []string) {
	ls = append(ls, "reset", "fake "+hostNames[3])
	ls = append(ls, sc.Geo.modelLines()...)
	for i := range sc.Reqs {
		if sc.Geo2 != nil && i == sc.RefreshAt {
			// The GeoIP tables are replaced; the caches of the model live on.
			ls = append(ls, "regeo")
			ls = append(ls, sc.Geo2.modelLines()...)
		}
		ls = append(ls, sc.Reqs[i].line(i))
	}

	return ls
}

func sortStrings(s []string) {
	for i := 1; i < len(s); i++ {
		for j := i; j > 0 && s[j] < s[j-1]; j-- {
			s[j], s[j-1] = s[j-1], s[j]
		}
	}
}

// ---------------------------------------------------------------------------
// The property oracle.  It looks only at the scenario (inputs) and at what the
// real code did (upstream requests seen, responses written); it never consults
// the model.

// ecsClass classifies the client's ECS data by the first ECS option of the
// last OPT RR (the OPT RR miekg/dns and the code regard as "the" OPT).
type ecsClass int

const (
	ecsAbsent ecsClass = iota
	ecsValid
	ecsMalformed
	// ecsAmbiguous: shapes that cannot come from the wire decoder and whose
	// validity the property does not define (family 2 with a 4-byte address).
	ecsAmbiguous
)

// classify is the oracle's own RFC 7871 validation.
func classify(rd *reqDesc) (c ecsClass, p netip.Prefix) {
	if len(rd.RRs) == 0 {
		return ecsAbsent, p
	}
	for _, o := range rd.RRs[len(rd.RRs)-1].Opts {
		if !o.ECS {
			continue
		}
		var a netip.Addr
		switch {
		case o.Family == 1 && len(o.Addr) == 4:
			a = netip.AddrFrom4([4]byte(o.Addr))
		case o.Family == 1 && len(o.Addr) == 16 && net.IP(o.Addr).To4() != nil:
			a = netip.AddrFrom4([4]byte(net.IP(o.Addr).To4()))
		case o.Family == 2 && len(o.Addr) == 16:
			a = netip.AddrFrom16([16]byte(o.Addr))
		case o.Family == 2 && len(o.Addr) == 4:
			return ecsAmbiguous, p
		default:
			return ecsMalformed, p
		}
		if int(o.Mask) > a.BitLen() {
			return ecsMalformed, p
		}
		p = netip.PrefixFrom(a, int(o.Mask))
		if p.Masked() != p {
			return ecsMalformed, netip.Prefix{}
		}

		return ecsValid, p
	}

	return ecsAbsent, p
}

// asPrefix interprets an ECS option seen on the wire towards the upstream or
// the client as (family, prefix).
func (o optDesc) asPrefix() (p netip.Prefix, ok bool) {
	var a netip.Addr
	switch {
	case o.Family == 1 && len(o.Addr) == 4:
		a = netip.AddrFrom4([4]byte(o.Addr))
	case o.Family == 1 && len(o.Addr) == 16 && net.IP(o.Addr).To4() != nil:
		a = netip.AddrFrom4([4]byte(net.IP(o.Addr).To4()))
	case o.Family == 2 && len(o.Addr) == 16:
		a = netip.AddrFrom16([16]byte(o.Addr))
	default:
		return p, false
	}

	return netip.PrefixFrom(a, int(o.Mask)), true
}

// allowedUpstream is the set of subnets the property allows towards the
// upstream for rd: the zero prefix of the family, or what the GeoIP database
// assigns to the location of the client or of its ECS address.
func allowedUpstream(g *geoTab, rd *reqDesc) (fam netutil.AddrFamily, set map[netip.Prefix]bool) {
	cls, p := classify(rd)
	a := rd.Remote
	if cls == ecsValid {
		a = p.Addr()
	}
	fam = netutil.AddrFamilyIPv4
	if !a.Is4() {
		fam = netutil.AddrFamilyIPv6
	}
	set = map[netip.Prefix]bool{netutil.ZeroPrefix(fam): true}
	var locs []*geoip.Location
	cl := g.loc(rd.Remote)
	if cl != nil {
		locs = append(locs, &geoip.Location{Country: cl.Country, ASN: cl.ASN})
	}
	if cls == ecsValid {
		if el := g.loc(p.Addr()); el != nil {
			locs = append(locs, el)
			if el.Country == geoip.CountryNone && cl != nil {
				locs = append(locs, &geoip.Location{Country: cl.Country, TopSubdivision: el.TopSubdivision, ASN: cl.ASN})
			}
		}
	}
	locs = append(locs, &geoip.Location{})
	for _, l := range locs {
		if sp, err := g.subnet(l, fam); err == nil {
			set[sp] = true
		}
	}

	return fam, set
}

type violation struct{ sig, what string }

// oracle checks the property on the observations of one scenario.
func oracle(sc *scenario, os []obs, count func(string)) (vs []violation) {
	add := func(sig, format string, a ...any) { vs = append(vs, violation{sig, fmt.Sprintf(format, a...)}) }
	// exch[i] describes the upstream exchange made for request i, if any.
	type exch struct {
		called bool
		up     netip.Prefix // the (single) ECS subnet sent upstream
		upOK   bool
		scoped bool // the upstream's answer was ECS-dependent
	}
	ex := make([]exch, len(os))
	for i := range os {
		rd, o := &sc.Reqs[i], &os[i]
		cls, cp := classify(rd)
		declined := cls == ecsValid && cp.Bits() == 0
		if o.Panic != nil {
			add("panic", "request %d panicked: %v", i, o.Panic)

			continue
		}
		// --- the server around the handler (round 4): it answers every error of
		// the handler with a SERVFAIL, which follows (plain DNS, DoT, DNSCrypt) or
		// replaces (DoH, DoQ) whatever the handler has written: a response that
		// comes with an error is not what the client gets.
		if o.Resp != nil && o.Err != nil {
			if o.Resp.Rcode == dns.RcodeFormatError {
				add("formerr-followed-by-servfail", "request %d: FORMERR written and error %q returned: the server adds a SERVFAIL", i, o.Err)
			} else {
				add("response-followed-by-servfail", "request %d: %s written and error %q returned: the server adds a SERVFAIL", i, rcodeOf(o.Resp), o.Err)
			}
		}
		if cls == ecsAmbiguous {
			// The property does not say whether this shape is valid; it is
			// covered by the model comparison only.
			continue
		}

		// --- privacy of what leaves towards the upstream (hot and cold path).
		for pass, up := range []*dns.Msg{o.UpReq, o.TwinUp} {
			if up == nil {
				continue
			}
			rrs := optRRsOf(up)
			fam, allowed := allowedUpstream(sc.geoAt(i), rd)
			es := ecsOnly(rrs)
			if len(es) == 0 {
				add("upstream-without-ecs", "request %d: upstream query carries no ECS option at all", i)
			}
			for j, rr := range rrs {
				for _, e := range rr.Opts {
					if !e.ECS {
						continue
					}
					p, ok := e.asPrefix()
					in := ok && allowed[p]
					if in && declined && p != netutil.ZeroPrefix(fam) {
						in = false
					}
					if in {
						continue
					}
					sig := "upstream-ecs-not-geo-subnet"
					switch {
					case j < len(rrs)-1:
						sig = "ecs-in-extra-opt-rr-forwarded"
					case len(ecsOnly(rrs[j:])) > 1:
						sig = "dup-ecs-option-forwarded"
					case declined:
						sig = "declined-but-subnet-sent"
					}
					add(sig, "request %d (pass %d): upstream saw ECS option %s in OPT RR %d of %d, allowed are %v (client %s, client ECS class %d %v)",
						i, pass, e.token(), j+1, len(rrs), keys(allowed), rd.Remote, cls, cp)
				}
			}
			if pass == 0 && len(es) == 1 {
				if p, ok := es[0].asPrefix(); ok {
					ex[i].up, ex[i].upOK = p, true
				}
			}
		}
		ex[i].called = o.UpCalled
		if o.UpCalled && rd.Up.Kind == 0 {
			ucls, _, scope := classifyOpts(rd.Up)
			ex[i].scoped = ucls == ecsValid && scope != 0 && !onFakeList(rd.Host)
		}

		// --- malformed option => FORMERR, nothing leaves.
		if cls == ecsMalformed {
			count("oracle.malformed")
			if o.Resp == nil || o.Resp.Rcode != dns.RcodeFormatError {
				add("malformed-ecs-not-formerr", "request %d: malformed ECS option answered with %v (err %v)", i, rcodeOf(o.Resp), o.Err)
			}
			if o.UpCalled {
				add("malformed-ecs-reached-upstream", "request %d: malformed ECS option reached the upstream", i)
			}

			continue
		}
		if o.Resp == nil {
			continue
		}

		// --- ECS echo in resolved responses.
		if cls != ecsAmbiguous {
			es := ecsOnly(optRRsOf(o.Resp))
			switch {
			case cls == ecsValid && len(es) != 1:
				add("ecs-echo-missing", "request %d: valid ECS %v in the query, %d ECS options in the response", i, cp, len(es))
			case cls == ecsValid:
				count("oracle.echo_checked")
				p, ok := es[0].asPrefix()
				if !ok || p != cp {
					add("ecs-echo-wrong-prefix", "request %d: query ECS %v, response ECS %s", i, cp, es[0].token())
				} else if int(es[0].Scope) != cp.Bits() {
					add("ecs-echo-wrong-scope", "request %d: query ECS %v, response scope %d", i, cp, es[0].Scope)
				}
			case len(es) != 0:
				add("ecs-echo-unsolicited", "request %d: no ECS in the query, response carries %s", i, canonECS(es))
			}
		}
		if o.Resp.Rcode == dns.RcodeFormatError && !o.UpCalled && cls != ecsAmbiguous {
			add("formerr-for-wellformed", "request %d: FORMERR although the ECS data is class %d", i, cls)
		}

		// --- partition: who may receive which stored answer.
		tok := tokenOf(o.Resp)
		if o.UpCalled || tok < 0 || tok >= i {
			if !o.UpCalled && o.Resp.Rcode != dns.RcodeFormatError && cls != ecsAmbiguous {
				add("answer-of-unknown-origin", "request %d: response token %d without an upstream exchange", i, tok)
			}

			continue
		}
		// Served from the cache: the answer was obtained by exchange `tok`.
		e, src := ex[tok], &sc.Reqs[tok]
		count("oracle.hit")
		if !sameName(src.Host, rd.Host) || src.QType != rd.QType || src.QClass != rd.QClass {
			add("hit-for-other-question", "request %d served the answer of request %d for another question", i, tok)
		}
		if !e.scoped {
			count("oracle.hit_unscoped")
			// An opted-out client is only served what was obtained for an
			// opted-out client (with a /0 query), never an answer that was fetched
			// with some client's subnet in the query, even if the upstream did
			// not scope it.
			if scls, sp := classify(src); declined && scls != ecsAmbiguous && !(scls == ecsValid && sp.Bits() == 0) {
				add("declined-served-answer-fetched-with-subnet", "request %d opted out with /0 but was served the answer of exchange %d, which was fetched for a client that had not opted out (upstream query carried %v)",
					i, tok, e.up)
			}

			continue
		}
		count("oracle.hit_scoped")
		if src.Remote != rd.Remote {
			count("oracle.hit_scoped_other_client")
		}
		if declined {
			add("declined-served-subnet-answer", "request %d opted out with /0 but was served the answer of exchange %d, which the upstream scoped to %v",
				i, tok, e.up)

			continue
		}
		// The subnet this client is mapped to is what a cold middleware sends
		// upstream for it.
		if o.TwinUp == nil {
			// A cold middleware fails for this request (GeoIP answered with a
			// prefix of the other family): its mapping cannot be observed.
			count("oracle.hit_scoped_unmappable")

			continue
		}
		tes := ecsOnly(optRRsOf(o.TwinUp))
		if len(tes) != 1 {
			// Already reported by the privacy check.
			continue
		}
		mine, ok := tes[0].asPrefix()
		if !ok || !e.upOK || mine != e.up {
			add("scoped-answer-crossed-subnets", "request %d (mapped to %v) was served the answer of exchange %d, which the upstream scoped for %v",
				i, mine, tok, e.up)
		}
	}

	return vs
}

// classifyOpts classifies the ECS data of an upstream answer.
func classifyOpts(u upDesc) (c ecsClass, p netip.Prefix, scope uint8) {
	if !u.HasOPT {
		return ecsAbsent, p, 0
	}
	rd := &reqDesc{RRs: []optRR{{Opts: u.Opts}}}
	c, p = classify(rd)
	for _, o := range u.Opts {
		if o.ECS {
			return c, p, o.Scope
		}
	}

	return c, p, 0
}

func rcodeOf(m *dns.Msg) string {
	if m == nil {
		return "no response"
	}

	return dns.RcodeToString[m.Rcode]
}

func keys(m map[netip.Prefix]bool) (s []string) {
	for k := range m {
		s = append(s, k.String())
	}
	sortStrings(s)

	return s
}

// ---------------------------------------------------------------------------
// Generators.

var (
	clients4 = []string{"192.0.2.1", "192.0.2.77", "198.51.100.7", "203.0.113.9"}
	clients6 = []string{"2001:db8::1", "2001:db8:1::2", "2a00:1450::5"}
	// Subnets clients put into their ECS options.  100.64.0.0/16 and
	// 2001:db8:100::/48 are also GeoIP subnets (coincidence is allowed).
	ecs4 = []string{"1.2.3.0/24", "1.2.0.0/16", "5.6.7.8/32", "0.0.0.0/0", "100.64.0.0/16", "192.0.2.77/32", "192.0.2.0/24", "128.0.0.0/1"}
	ecs6 = []string{"2001:db8:aa::/48", "::/0", "2a02::/16", "::ffff:1.2.3.0/120", "2001:db8:100::/48", "2001:db8::1/128", "8000::/1"}
	geo4 = []string{"100.64.0.0/16", "100.64.0.0/10", "0.0.0.0/0", "100.65.1.0/24", "100.66.0.0/15"}
	geo6 = []string{"2001:db8:100::/48", "2001:db8:100::/40", "::/0", "2001:db8:200::/40", "2001:db8:300::/64"}
)

func pick[T any](rng *rand.Rand, xs []T) T { return xs[rng.IntN(len(xs))] }

func genGeo(rng *rand.Rand) (g geoTab) {
	g = geoTab{Data: map[netip.Addr]locIdx{}, Sub: map[subKey]subVal{}}
	genLoc := func() locIdx {
		l := locIdx{Ctry: rng.IntN(3), ASN: rng.IntN(3)}
		if rng.IntN(4) == 0 {
			l.Subdiv = 1
		}

		return l
	}
	var addrs []netip.Addr
	for _, s := range clients4 {
		addrs = append(addrs, netip.MustParseAddr(s))
	}
	for _, s := range clients6 {
		addrs = append(addrs, netip.MustParseAddr(s))
	}
	for _, s := range ecs4 {
		addrs = append(addrs, netip.MustParsePrefix(s).Addr())
	}
	for _, s := range ecs6 {
		addrs = append(addrs, netip.MustParsePrefix(s).Addr())
	}
	known := rng.IntN(4) // 0: few known, 3: most known
	for _, a := range addrs {
		if rng.IntN(4) <= known {
			g.Data[a] = genLoc()
		}
	}
	badGeo := rng.IntN(12) == 0
	// Per case and family: either the fixed pool, or a structured pool of
	// neighbouring subnets (see siblingPool).
	pools := map[int][]string{4: geo4, 6: geo6}
	for _, fam := range []int{4, 6} {
		if rng.IntN(2) == 0 {
			pools[fam] = prefixStrings(siblingPool(rng, fam))
		}
	}
	for c := 0; c < 3; c++ {
		for sd := 0; sd < 2; sd++ {
			for as := 0; as < 3; as++ {
				for _, fam := range []int{4, 6} {
					if rng.IntN(3) == 0 {
						continue
					}
					k := subKey{Loc: locIdx{c, sd, as}, Fam: fam}
					pool := pools[fam]
					switch {
					case badGeo && rng.IntN(6) == 0:
						g.Sub[k] = subVal{Err: true}
					case badGeo && rng.IntN(6) == 0:
						// A database answering with the other family.
						g.Sub[k] = subVal{P: netip.MustParsePrefix(pick(rng, pools[10-fam]))}
					default:
						// Few distinct values, so that different locations share a subnet.
						g.Sub[k] = subVal{P: netip.MustParsePrefix(pool[rng.IntN(1+rng.IntN(len(pool)))])}
					}
				}
			}
		}
	}

	return g
}

// ---------------------------------------------------------------------------
// Structured pools of GeoIP subnets.
//
// MaxMind networks have arbitrary lengths, so the subnets GeoIP assigns to
// countries/ASNs are not byte-aligned in general, and two locations can get
// subnets that are close neighbours.  The pools below are built so that every
// way of looking at only a part of a subnet (leading bytes, the address without
// the length, the length rounded to bytes, the first half of an IPv6 address,
// ...) conflates two members.

func famBits(fam int) int {
	if fam == 4 {
		return 32
	}

	return 128
}

// flipBit returns a with bit i (0 = most significant) inverted.
func flipBit(a netip.Addr, i int) netip.Addr {
	b := a.AsSlice()
	b[i/8] ^= 0x80 >> (i % 8)
	r, _ := netip.AddrFromSlice(b)

	return r
}

// stemAddr returns a random address of the family masked to l bits.
func stemAddr(rng *rand.Rand, fam, l int) netip.Addr {
	b := make([]byte, famBits(fam)/8)
	mode := rng.IntN(4)
	for i := range b {
		switch mode {
		case 0:
			b[i] = 0xff
		case 1:
			b[i] = []byte{0xa5, 0x5a}[i%2]
		default:
			b[i] = byte(rng.IntN(256))
		}
	}
	if b[0] == 0 {
		b[0] = 0x40
	}
	a, _ := netip.AddrFromSlice(b)

	return netip.PrefixFrom(a, l).Masked().Addr()
}

// genLen picks a prefix length in [1, max] with emphasis on byte boundaries and
// their neighbours.
func genLen(rng *rand.Rand, max int) int {
	l := 8*rng.IntN(max/8+1) + []int{0, 0, 1, 4, 7, rng.IntN(8)}[rng.IntN(6)]

	return min(max, l+1)
}

// interestingBits returns the bit positions of a prefix of length l at which
// two neighbouring subnets are most likely to be conflated: the first bit, the
// last bit, the first bit of the last (possibly partial) byte, the last bit of
// the last complete byte, the middle, and the bytes next to the 32- and 64-bit
// boundaries.
func interestingBits(l int) (is []int) {
	cand := []int{0, l - 1, 8 * ((l - 1) / 8), 8*((l-1)/8) - 1, 8 * (l / 8), l / 2, 31, 32, 63, 64}
	seen := map[int]bool{}
	for _, i := range cand {
		if i >= 0 && i < l && !seen[i] {
			seen[i] = true
			is = append(is, i)
		}
	}

	return is
}

// interestingLens returns lengths above l: the next one, the last one of the
// same byte, the next byte boundary and its successor, the maximum.
func interestingLens(l, max int) (ls []int) {
	nb := 8 * (l/8 + 1)
	seen := map[int]bool{}
	for _, x := range []int{l + 1, nb - 1, nb, nb + 1, nb + 8, max} {
		if x > l && x <= max && !seen[x] {
			seen[x] = true
			ls = append(ls, x)
		}
	}

	return ls
}

// siblingPool returns 3-7 distinct masked subnets of one family around a
// random stem: the stem at several lengths (same address, different length,
// both inside one byte and across byte boundaries), and same-length siblings
// that differ from it in exactly one bit.  The order is shuffled.
func siblingPool(rng *rand.Rand, fam int) (ps []netip.Prefix) {
	max := famBits(fam)
	l0 := genLen(rng, max)
	stem := stemAddr(rng, fam, l0)
	lens := []int{l0}
	if more := interestingLens(l0, max); len(more) > 0 {
		for k := rng.IntN(3); k > 0; k-- {
			lens = append(lens, pick(rng, more))
		}
	}
	seen := map[netip.Prefix]bool{}
	add := func(p netip.Prefix) {
		if !seen[p] {
			seen[p] = true
			ps = append(ps, p)
		}
	}
	for _, l := range lens {
		add(netip.PrefixFrom(stem, l))
		bits := interestingBits(l)
		for k := 1 + rng.IntN(2); k > 0; k-- {
			i := pick(rng, bits)
			if rng.IntN(4) == 0 {
				i = rng.IntN(l)
			}
			add(netip.PrefixFrom(flipBit(stem, i), l))
		}
	}
	rng.Shuffle(len(ps), func(i, j int) { ps[i], ps[j] = ps[j], ps[i] })

	return ps
}

func prefixStrings(ps []netip.Prefix) (ss []string) {
	for _, p := range ps {
		ss = append(ss, p.String())
	}

	return ss
}

// genPartitionScenario generates histories aimed at the partition of scoped
// answers: every client and every client-supplied ECS address has its own
// location, the locations are mapped to subnets of one sibling pool per
// family, few questions, and an upstream that mostly scopes its answers.
func genPartitionScenario(rng *rand.Rand) (sc *scenario) {
	g := geoTab{Data: map[netip.Addr]locIdx{}, Sub: map[subKey]subVal{}}
	var locs []locIdx
	for c := 0; c < 3; c++ {
		for as := 0; as < 3; as++ {
			for sd := 0; sd < 2; sd++ {
				locs = append(locs, locIdx{c, sd, as})
			}
		}
	}
	rng.Shuffle(len(locs), func(i, j int) { locs[i], locs[j] = locs[j], locs[i] })
	pools := map[int][]netip.Prefix{4: siblingPool(rng, 4), 6: siblingPool(rng, 6)}
	for _, l := range locs {
		for _, fam := range []int{4, 6} {
			if rng.IntN(8) != 0 {
				g.Sub[subKey{Loc: l, Fam: fam}] = subVal{P: pick(rng, pools[fam])}
			}
		}
	}
	nCl := 2 + rng.IntN(3)
	var cls []netip.Addr
	var ecsP []netip.Prefix
	for _, s := range clients4[:min(nCl, len(clients4))] {
		cls = append(cls, netip.MustParseAddr(s))
	}
	for _, s := range clients6[:min(nCl-1, len(clients6))] {
		cls = append(cls, netip.MustParseAddr(s))
	}
	for _, s := range []string{ecs4[0], ecs4[2], ecs4[4], ecs6[0], ecs6[2]} {
		ecsP = append(ecsP, netip.MustParsePrefix(s))
	}
	k := 0
	for _, a := range cls {
		g.Data[a] = locs[k%len(locs)]
		k++
	}
	for _, p := range ecsP {
		g.Data[p.Addr()] = locs[k%len(locs)]
		k++
	}
	sc = &scenario{Geo: g}
	n := 4 + rng.IntN(12)
	nHosts := 1 + rng.IntN(2)
	qtypes := []uint16{dns.TypeA, dns.TypeA, dns.TypeA, dns.TypeAAAA, dns.TypeCAA}
	for i := 0; i < n; i++ {
		rd := reqDesc{Remote: pick(rng, cls), Host: rng.IntN(nHosts), QType: pick(rng, qtypes), QClass: dns.ClassINET}
		switch rng.IntN(6) {
		case 0:
			// no OPT RR
		case 1, 2:
			rd.RRs = []optRR{{DO: rng.IntN(8) == 0}}
		case 3:
			p := "0.0.0.0/0"
			if rng.IntN(2) == 0 {
				p = "::/0"
			}
			rd.RRs = []optRR{{Opts: []optDesc{ecsOptOf(netip.MustParsePrefix(p), true, 0)}}}
		default:
			rd.RRs = []optRR{{Opts: []optDesc{ecsOptOf(pick(rng, ecsP), true, 0)}}}
		}
		rd.Up = upDesc{HasOPT: true}
		e := ecsOptOf(pick(rng, pools[4+2*rng.IntN(2)]), true, 0)
		if rng.IntN(8) != 0 {
			e.Scope = uint8(1 + rng.IntN(int(e.Mask)+8))
		}
		rd.Up.Opts = []optDesc{e}
		sc.Reqs = append(sc.Reqs, rd)
	}

	return sc
}

// pairScenario is the history "A asks, B asks, A asks, B asks" for one
// question, where GeoIP maps client A to subnet pa and client B to subnet pb
// and the upstream scopes every answer.
func pairScenario(pa, pb netip.Prefix, qtype uint16) (sc *scenario) {
	ca, cb := netip.MustParseAddr(clients4[0]), netip.MustParseAddr(clients4[2])
	if pa.Addr().Is6() {
		ca = netip.MustParseAddr(clients6[0])
	}
	if pb.Addr().Is6() {
		cb = netip.MustParseAddr(clients6[2])
	}
	la, lb := locIdx{Ctry: 1, ASN: 1}, locIdx{Ctry: 2, ASN: 2}
	g := geoTab{
		Data: map[netip.Addr]locIdx{ca: la, cb: lb},
		Sub:  map[subKey]subVal{{Loc: la, Fam: famOf(pa.Addr())}: {P: pa}, {Loc: lb, Fam: famOf(pb.Addr())}: {P: pb}},
	}
	sc = &scenario{Geo: g}
	for _, c := range []struct {
		cl netip.Addr
		p  netip.Prefix
	}{{ca, pa}, {cb, pb}, {ca, pa}, {cb, pb}} {
		sc.Reqs = append(sc.Reqs, reqDesc{Remote: c.cl, QType: qtype, QClass: dns.ClassINET,
			Up: upDesc{HasOPT: true, Opts: []optDesc{ecsOptOf(c.p, true, uint8(max(1, c.p.Bits())))}}})
	}

	return sc
}

// prefixSweep walks over all prefix lengths of both families and runs
// pairScenario for the subnet of that length and (a) its same-length siblings
// differing in one bit, (b) the same address at greater lengths.  The quick
// tier takes the interesting bits/lengths, the thorough tier all of them.
func prefixSweep(r *hlib.Result, m *hlib.Model, all bool) {
	for _, fam := range []int{4, 6} {
		max := famBits(fam)
		b := make([]byte, max/8)
		for i := range b {
			b[i] = []byte{0xa5, 0x5a, 0xc3}[i%3]
		}
		pattern, _ := netip.AddrFromSlice(b)
		for l := 1; l <= max; l++ {
			p := netip.PrefixFrom(pattern, l).Masked()
			bits, lens := interestingBits(l), interestingLens(l, max)
			if all {
				bits, lens = nil, nil
				for i := 0; i < l; i++ {
					bits = append(bits, i)
				}
				for x := l + 1; x <= max; x++ {
					lens = append(lens, x)
				}
			}
			for _, i := range bits {
				runCase(r, m, pairScenario(p, netip.PrefixFrom(flipBit(p.Addr(), i), l), dns.TypeA), 100, 100, true)
				r.Count("sweep.same_length_one_bit")
				if l%8 != 0 && i >= 8*(l/8) {
					r.Count("sweep.differ_in_partial_byte")
				}
			}
			for _, x := range lens {
				runCase(r, m, pairScenario(p, netip.PrefixFrom(p.Addr(), x), dns.TypeA), 100, 100, true)
				r.Count("sweep.same_address_other_length")
			}
			// The zero prefix next to a real subnet whose address is all zeros
			// up to bit l-1 is covered by (b) with the stem 0; add the pair
			// (zero prefix, p) as well.
			runCase(r, m, pairScenario(netip.PrefixFrom(netip.PrefixFrom(pattern, 0).Masked().Addr(), 0), p, dns.TypeA), 100, 100, true)
		}
	}
	// Questions that differ only in the high byte of the type.
	p4 := netip.MustParsePrefix("100.64.0.0/12")
	for _, qt := range []uint16{dns.TypeA, dns.TypeCAA} {
		sc := pairScenario(p4, p4, qt)
		other := pairScenario(p4, p4, qt^0x100)
		sc.Reqs = append(sc.Reqs, other.Reqs...)
		runCase(r, m, sc, 100, 100, true)
	}
	r.Count("sweep.done")
	if all {
		r.Notes = append(r.Notes, "exhaustive: for every prefix length l of IPv4 and IPv6, the pair history for every one-bit sibling (all l bit positions) "+
			"and for the same address at every greater length")
	}
}

func ecsOptOf(p netip.Prefix, wireForm bool, scope uint8) optDesc {
	a := p.Addr()
	o := optDesc{ECS: true, Family: 2, Addr: a.AsSlice(), Mask: uint8(p.Bits()), Scope: scope}
	if a.Is4() {
		o.Family = 1
		if wireForm {
			// What miekg/dns produces when unpacking: the 16-byte form.
			o.Addr = []byte(net.IP(a.AsSlice()).To16())
		}
	}

	return o
}

func genValidECS(rng *rand.Rand, want4 bool) optDesc {
	pool := ecs6
	if want4 {
		pool = ecs4
	}
	var scope uint8
	if rng.IntN(5) == 0 {
		scope = uint8(rng.IntN(33))
	}

	return ecsOptOf(netip.MustParsePrefix(pick(rng, pool)), rng.IntN(2) == 0, scope)
}

func genMalformedECS(rng *rand.Rand) optDesc {
	if rng.IntN(4) == 0 {
		// A stray bit beyond the prefix, at a random distance from it: inside
		// the partial last byte of a prefix that is not byte-aligned, in the
		// next byte, or at the very end of the address.
		fam, n := uint16(1), 4
		if rng.IntN(2) == 0 {
			fam, n = 2, 16
		}
		addr := make([]byte, n)
		for i := range addr {
			addr[i] = byte(rng.IntN(256))
		}
		mask := rng.IntN(n * 8)
		if rng.IntN(3) != 0 && mask%8 == 0 {
			mask += 1 + rng.IntN(7)
		}
		for i := mask; i < n*8; i++ {
			addr[i/8] &^= 0x80 >> (i % 8)
		}
		stray := []int{mask, mask + 1, min(n*8-1, (mask/8)*8+7), min(n*8-1, (mask/8+1)*8), n*8 - 1, mask + rng.IntN(n*8-mask)}[rng.IntN(6)]
		stray = min(stray, n*8-1)
		addr[stray/8] |= 0x80 >> (stray % 8)

		return optDesc{ECS: true, Family: fam, Addr: addr, Mask: uint8(mask)}
	}
	switch rng.IntN(10) {
	case 0:
		return optDesc{ECS: true, Family: 0, Addr: []byte{0, 0, 0, 0}, Mask: 0}
	case 1:
		return optDesc{ECS: true, Family: 3, Addr: []byte{1, 2, 3, 0}, Mask: 24}
	case 2:
		return optDesc{ECS: true, Family: 1, Addr: []byte{1, 2, 3, 4}, Mask: 24} // bits beyond the prefix
	case 3:
		return optDesc{ECS: true, Family: 1, Addr: []byte{1, 2, 3, 0}, Mask: 33}
	case 4:
		return optDesc{ECS: true, Family: 1, Addr: nil, Mask: 0}
	case 5:
		return optDesc{ECS: true, Family: 2, Addr: []byte{1, 2, 3, 4, 5}, Mask: 8}
	case 6:
		a := netip.MustParseAddr("2001:db8::").AsSlice()

		return optDesc{ECS: true, Family: 1, Addr: a, Mask: 16} // IPv6 bytes under family 1
	case 7:
		a := netip.MustParseAddr("2001:db8::1").AsSlice()

		return optDesc{ECS: true, Family: 2, Addr: a, Mask: 64} // bits beyond the prefix
	case 8:
		a := netip.MustParseAddr("2001:db8::").AsSlice()

		return optDesc{ECS: true, Family: 2, Addr: a, Mask: 129}
	default:
		return optDesc{ECS: true, Family: 1, Addr: []byte{128, 0, 0, 1}, Mask: 0} // /0 with a non-zero address
	}
}

func genOpts(rng *rand.Rand, remote4 bool) (opts []optDesc) {
	other := func() optDesc { return optDesc{Code: 65001 + uint16(rng.IntN(2))} }
	if rng.IntN(3) == 0 {
		opts = append(opts, other())
	}
	want4 := remote4
	if rng.IntN(4) == 0 {
		want4 = !want4
	}
	switch r := rng.IntN(20); {
	case r < 5:
		// no ECS
	case r < 13:
		opts = append(opts, genValidECS(rng, want4))
	case r < 15:
		// opt-out
		p := "0.0.0.0/0"
		if !want4 {
			p = "::/0"
		}
		opts = append(opts, ecsOptOf(netip.MustParsePrefix(p), rng.IntN(2) == 0, 0))
	case r < 17:
		opts = append(opts, genMalformedECS(rng))
	case r < 18:
		// family 2 with a 4-byte address (cannot come from the wire).
		opts = append(opts, optDesc{ECS: true, Family: 2, Addr: []byte{1, 2, 3, 0}, Mask: uint8(96 + 8*rng.IntN(5))})
	default:
		// duplicates: two ECS options in one OPT RR.
		opts = append(opts, genValidECS(rng, want4))
		if rng.IntN(2) == 0 {
			opts = append(opts, other())
		}
		if rng.IntN(3) == 0 {
			opts = append(opts, genMalformedECS(rng))
		} else {
			opts = append(opts, genValidECS(rng, rng.IntN(2) == 0))
		}
		if rng.IntN(3) == 0 {
			// Any order: the malformed / second option may come first.
			rng.Shuffle(len(opts), func(i, j int) { opts[i], opts[j] = opts[j], opts[i] })
		}
	}
	if rng.IntN(4) == 0 {
		opts = append(opts, other())
	}

	return opts
}

func genUp(rng *rand.Rand) (u upDesc) {
	// Kind 1 (a handler that neither answers nor fails) is not generated: the
	// forwarder always does one of the two, and mainmw dereferences the answer.
	if rng.IntN(15) == 0 {
		u.Kind = 2
	}
	switch r := rng.IntN(16); {
	case r < 11:
		u.Ans = 0
	default:
		u.Ans = r - 10
	}
	switch r := rng.IntN(10); {
	case r < 2:
		// no OPT
	case r < 4:
		u.HasOPT = true
		if rng.IntN(2) == 0 {
			u.Opts = append(u.Opts, optDesc{Code: dns.EDNS0EDE})
		}
	default:
		u.HasOPT = true
		if rng.IntN(4) == 0 {
			u.Opts = append(u.Opts, optDesc{Code: dns.EDNS0EDE})
		}
		e := genValidECS(rng, rng.IntN(2) == 0)
		switch rng.IntN(6) {
		case 0:
			e.Scope = 0
		case 1:
			e.Scope = e.Mask
		case 2:
			e.Scope = uint8(1 + rng.IntN(2)) // the boundary next to "not scoped"
		default:
			e.Scope = uint8(1 + rng.IntN(48))
		}
		if rng.IntN(25) == 0 {
			e = genMalformedECS(rng)
		}
		u.Opts = append(u.Opts, e)
	}

	return u
}

func genReq(rng *rand.Rand, nClients, nHosts int) (rd reqDesc) {
	var pool []string
	pool = append(pool, clients4[:min(nClients, len(clients4))]...)
	pool = append(pool, clients6[:min(nClients, len(clients6))]...)
	rd.Remote = netip.MustParseAddr(pick(rng, pool))
	rd.Host = rng.IntN(nHosts)
	if rng.IntN(6) == 0 {
		rd.Host = 3
	}
	if sp := spellingsOf[rd.Host]; sp != nil && rng.IntN(5) == 0 {
		// Another spelling of the same name.
		rd.Host = pick(rng, sp)
	}
	rd.QType = dns.TypeA
	switch rng.IntN(8) {
	case 0:
		rd.QType = dns.TypeAAAA
	case 1:
		rd.QType = dns.TypeTXT
	case 2:
		if rng.IntN(2) == 0 {
			// Same low byte as A.
			rd.QType = dns.TypeCAA
		}
	}
	rd.QClass = dns.ClassINET
	if rng.IntN(10) == 0 {
		// Same name and type in another class is another question.
		rd.QClass = dns.ClassCHAOS
	}
	switch r := rng.IntN(24); {
	case r < 4:
		// no OPT RR
	case r == 4:
		// two OPT RRs
		rd.RRs = []optRR{
			{DO: rng.IntN(4) == 0, Opts: genOpts(rng, rd.Remote.Is4())},
			{DO: rng.IntN(4) == 0, Opts: genOpts(rng, rd.Remote.Is4())},
		}
	default:
		rd.RRs = []optRR{{DO: rng.IntN(5) == 0, Opts: genOpts(rng, rd.Remote.Is4())}}
	}
	rd.Up = genUp(rng)

	return rd
}

func genScenario(rng *rand.Rand, maxLen int) (sc *scenario) {
	sc = &scenario{Geo: genGeo(rng)}
	n := 2 + rng.IntN(maxLen-1)
	nClients, nHosts := 1+rng.IntN(4), 1+rng.IntN(3)
	for i := 0; i < n; i++ {
		if i > 0 && rng.IntN(4) == 0 {
			// Same question and options as an earlier request from another client.
			rd := sc.Reqs[rng.IntN(i)]
			other := genReq(rng, nClients, nHosts)
			rd.Remote, rd.Up = other.Remote, other.Up
			sc.Reqs = append(sc.Reqs, rd)

			continue
		}
		sc.Reqs = append(sc.Reqs, genReq(rng, nClients, nHosts))
	}

	return sc
}

// ---------------------------------------------------------------------------

type replay struct {
	Scenario *scenario `json:"scenario"`
	Observed []string  `json:"observed"`
	Model    []string  `json:"model,omitempty"`
	Note     string    `json:"note,omitempty"`
}

func hasSig(vs []violation, sig string) bool {
	for _, v := range vs {
		if v.sig == sig {
			return true
		}
	}

	return false
}

func observedLines(os []obs) (s []string) {
	for i := range os {
		s = append(s, canonObs(&os[i]))
	}

	return s
}

// shrinkGeo drops the GeoIP table entries that are not needed for reqs to
// violate the property with signature sig.
func shrinkGeo(g geoTab, reqs []reqDesc, ecsCount, noECSCount int, sig string) (small geoTab) {
	type ent struct {
		a     netip.Addr
		l     locIdx
		k     subKey
		v     subVal
		isSub bool
	}
	var ents []ent
	var ds, ss []string
	byText := map[string]ent{}
	for a, l := range g.Data {
		t := a.String()
		ds, byText[t] = append(ds, t), ent{a: a, l: l}
	}
	for k, v := range g.Sub {
		t := fmt.Sprintf("%d %d %d %d", k.Loc.Ctry, k.Loc.Subdiv, k.Loc.ASN, k.Fam)
		ss, byText[t] = append(ss, t), ent{k: k, v: v, isSub: true}
	}
	// Deterministic order.
	sortStrings(ds)
	sortStrings(ss)
	for _, t := range append(ds, ss...) {
		ents = append(ents, byText[t])
	}
	build := func(sub []ent) (t geoTab) {
		t = g
		t.Data, t.Sub = map[netip.Addr]locIdx{}, map[subKey]subVal{}
		for _, e := range sub {
			if e.isSub {
				t.Sub[e.k] = e.v
			} else {
				t.Data[e.a] = e.l
			}
		}

		return t
	}
	kept := hlib.Shrink(ents, func(sub []ent) bool {
		s2 := &scenario{Geo: build(sub), Reqs: reqs}

		return hasSig(oracle(s2, runScenario(s2, ecsCount, noECSCount), func(string) {}), sig)
	})

	return build(kept)
}

// runCase runs one scenario: real code, oracle, model comparison.
func runCase(r *hlib.Result, m *hlib.Model, sc *scenario, ecsCount, noECSCount int, withModel bool) {
	runCaseObs(r, m, sc, runScenario(sc, ecsCount, noECSCount), ecsCount, noECSCount, withModel)
}

// runCaseObs is runCase for observations os that were already made.
func runCaseObs(r *hlib.Result, m *hlib.Model, sc *scenario, os []obs, ecsCount, noECSCount int, withModel bool) {
	count := r.Count
	vs := oracle(sc, os, count)
	seen := map[string]bool{}
	for _, v := range vs {
		if seen[v.sig] {
			continue
		}
		seen[v.sig] = true
		if sc.Geo2 != nil {
			// A history with a refresh is reported as it is (positions matter).
			r.Violate(v.sig, v.what, replay{Scenario: sc, Observed: observedLines(os)})

			continue
		}
		// Shrink to a minimal scenario with the same signature.
		small := hlib.Shrink(sc.Reqs, func(sub []reqDesc) bool {
			s2 := &scenario{Geo: sc.Geo, Reqs: sub}

			return hasSig(oracle(s2, runScenario(s2, ecsCount, noECSCount), func(string) {}), v.sig)
		})
		s2 := &scenario{Geo: shrinkGeo(sc.Geo, small, ecsCount, noECSCount, v.sig), Reqs: small}
		os2 := runScenario(s2, ecsCount, noECSCount)
		what := v.what
		for _, v2 := range oracle(s2, os2, func(string) {}) {
			if v2.sig == v.sig {
				what = v2.what

				break
			}
		}
		r.Violate(v.sig, what, replay{Scenario: s2, Observed: observedLines(os2)})
	}

	lines := sc.lines()
	if ecsCount < 1000 || noECSCount < 1000 {
		// Small LRU caches: the driver keeps the recency lists and turns
		// evictions into the model's drop events.
		lines = append([]string{lines[0], fmt.Sprintf("cap %d %d", noECSCount, ecsCount)}, lines[1:]...)
	}
	nontrivial := false
	hits, formerrs, ups := 0, 0, 0
	for i := range os {
		o := &os[i]
		switch {
		case o.Resp != nil && !o.UpCalled && o.Resp.Rcode == dns.RcodeFormatError:
			formerrs++
			r.Count("outcome.formerr")
		case o.Resp != nil && !o.UpCalled:
			hits++
			r.Count("outcome.hit")
		case o.Resp != nil:
			ups++
			r.Count("outcome.miss_answered")
		case o.Err != nil:
			r.Count("outcome.error")
		default:
			r.Count("outcome.silent")
		}
		cls, p := classify(&sc.Reqs[i])
		switch {
		case cls == ecsValid && p.Bits() == 0:
			r.Count("client_ecs.declined")
		case cls == ecsValid:
			r.Count("client_ecs.valid")
		case cls == ecsAbsent:
			r.Count("client_ecs.absent")
		case cls == ecsMalformed:
			r.Count("client_ecs.malformed")
		default:
			r.Count("client_ecs.ambiguous")
		}
		if len(ecsOnly(sc.Reqs[i].RRs)) > 1 {
			r.Count("client_ecs.multiple_options")
		}
		if len(sc.Reqs[i].RRs) > 1 {
			r.Count("client.two_opt_rrs")
		}
		if sc.Reqs[i].Host >= 4 {
			r.Count("question.other_spelling")
		}
		if sc.Reqs[i].Remote.Is4() {
			r.Count("client.v4")
		} else {
			r.Count("client.v6")
		}
	}
	nontrivial = hits > 0 && ups > 0
	r.Case(strings.Join(lines, "\n"), nontrivial)
	r.Traces++
	if !withModel {
		return
	}
	m.ResetLog()
	answers := m.Batch(lines)
	r.ModelOps += len(lines)
	off := len(lines) - len(os)
	var reqIdx []int
	for j, l := range lines {
		if strings.HasPrefix(l, "req ") {
			reqIdx = append(reqIdx, j)
		}
	}
	if sc.Geo2 != nil && sc.RefreshAt < len(reqIdx) {
		off = reqIdx[0]
	}
	for i := range os {
		got, want := canonObs(&os[i]), answers[reqIdx[i]]
		if got != want {
			r.Disagree("model-vs-impl", fmt.Sprintf("request %d: implementation %q, model %q (op %q)", i, got, want, lines[reqIdx[i]]),
				replay{Scenario: sc, Observed: observedLines(os), Model: answers[off:]})

			break
		}
	}
	r.Sample(map[string]any{"ops": lines[off:min(len(lines), off+4)], "observed": observedLines(os)[:min(len(os), 4)]}, 5)
}

func main() {
	o := hlib.ParseFlags()
	r := hlib.NewResult("C05", o)
	r.Rule = "random GeoIP tables and sequences of 2-30 requests (small pools of clients, questions, client ECS options: absent / valid / " +
		"/0 / malformed / duplicated / second OPT RR) through the production handler stack with the ECS cache and a scripted recording upstream; " +
		"GeoIP subnets come from a fixed pool or from a per-case pool of neighbours (one stem at several lengths, byte-aligned or not, and same-length siblings " +
		"differing in one bit); a partition campaign (every client its own location, scoping upstream) and a sweep over every prefix length of both " +
		"families (A asks, B asks, A, B for sibling / same-address-other-length / zero-prefix pairs); every option order (lists of up to 3-4 options over valid / opt-out / malformed, in the query and in the upstream's answer); overlapping requests under a deterministic barrier schedule (started one by one up to the upstream call, completed in another order; random groups and all begin/finish orders of groups of 2-3); the real geoip.File over generated MaxMind databases (SubnetByLocation for every location against the Lean GeoDB model and a database-level oracle; histories through the stack with the real File); every request is also sent through a cold twin; the oracle checks upstream privacy, opt-out, partition of scoped answers, ECS echo and " +
		"FORMERR on the recorded traffic; the same op lines go to the Lean model and outputs are compared; a case is non-trivial when it has " +
		"at least one cache hit and one upstream exchange; distinct = distinct op texts"
	m := hlib.StartModel(o.Model, "C05")
	defer m.Close()

	n, maxLen := 4000, 30
	if o.Thorough() {
		n = 20000
	}
	rng := o.Rand("main")
	for i := 0; i < n; i++ {
		runCase(r, m, genScenario(rng, maxLen), 10000, 10000, true)
	}
	// Tiny caches: LRU eviction happens (drop events of the model).
	rng = o.Rand("small-cache")
	for i := 0; i < n/5; i++ {
		ec, nc := 1+rng.IntN(3), 1+rng.IntN(3)
		if i%2 == 0 {
			runCase(r, m, genScenario(rng, maxLen), ec, nc, true)
		} else {
			runCase(r, m, genPartitionScenario(rng), ec, nc, true)
		}
		r.Count("small_cache.cases")
	}
	// Neighbouring GeoIP subnets, scoping upstream, few questions.
	rng = o.Rand("partition")
	for i := 0; i < n/4; i++ {
		runCase(r, m, genPartitionScenario(rng), 10000, 10000, true)
	}
	// Overlapping requests under a deterministic schedule.
	concCampaign(r, m, o.Rand("overlapping"), n/5)
	exhaustiveConc(r, m, 2)
	if o.Thorough() {
		exhaustiveConc(r, m, 3)
		r.Notes = append(r.Notes, "exhaustive: every group of 2 and of 3 overlapping requests over 2 clients x {no ECS, ECS in AD, /0, ECS in US} for one question, "+
			"under every begin order and every finish order")
	}
	prefixSweep(r, m, o.Thorough())
	orderDepth := 3
	if o.Thorough() {
		orderDepth = 4
		r.Notes = append(r.Notes, "exhaustive: every option list of up to 4 options over {other, valid v4, valid v6, /0, 3 malformed kinds} in the query's OPT RR "+
			"(alone and behind another OPT RR), every list of up to 3 over {EDE, scoped, unscoped, v6 scoped, malformed} in the upstream's answer")
	}
	optionOrderCampaign(r, m, orderDepth)
	// The real geoip.File over generated MaxMind databases.
	nDB := n / 100
	if o.Thorough() {
		nDB = n / 40
	}
	geoFileCampaign(r, m, o.Rand("geoip-file"), nDB, 8)
	geoCacheFinding(r, o.Rand("geoip-cache"), 6)
	// The GeoIP databases are refreshed in the middle of a history.
	refreshCampaign(r, m, o.Rand("refresh"), n/8)
	geoRefreshCampaign(r, m, o.Rand("geoip-refresh"), nDB/2, 6)
	// Wave h: look-ups at definite moments of a running Refresh, a Refresh
	// while a look-up is parked inside Data.
	geoRaceCampaign(r, m, o.Rand("geoip-race"), nDB/2, 10)
	fixedCases(r, m)
	unitCampaign(r, m)
	// Round 4: the configuration file and the wire.
	builderCampaign(r, m)
	transportCampaign(r, m, o.Thorough())
	if o.Thorough() {
		exhaustiveSmall(r, m)
	}

	r.Finish()
}

// fixedCases replays the inputs of the recorded findings, so that the oracle
// signatures stay exercised on every run.
func fixedCases(r *hlib.Result, m *hlib.Model) {
	g := geoTab{Data: map[netip.Addr]locIdx{netip.MustParseAddr("192.0.2.1"): {Ctry: 1, ASN: 2}}, Sub: map[subKey]subVal{
		{Loc: locIdx{Ctry: 1, ASN: 2}, Fam: 4}: {P: netip.MustParsePrefix("100.64.0.0/16")},
	}}
	cl := netip.MustParseAddr("192.0.2.1")
	full := ecsOptOf(netip.MustParsePrefix("198.51.100.77/32"), true, 0)
	sub := ecsOptOf(netip.MustParsePrefix("1.2.3.0/24"), true, 0)
	// S10: duplicate ECS option in one OPT RR.
	runCase(r, m, &scenario{Geo: g, Reqs: []reqDesc{{Remote: cl, QType: dns.TypeA, QClass: dns.ClassINET,
		RRs: []optRR{{Opts: []optDesc{sub, full}}}}}}, 100, 100, true)
	// ECS option in an earlier OPT RR.
	runCase(r, m, &scenario{Geo: g, Reqs: []reqDesc{{Remote: cl, QType: dns.TypeA, QClass: dns.ClassINET,
		RRs: []optRR{{Opts: []optDesc{full}}, {Opts: nil}}}}}, 100, 100, true)
	r.Count("fixed.finding_inputs")
}

// exhaustiveSmall enumerates every history of three requests for one question
// over 2 clients x 4 client-ECS choices x 2 upstream scopes with a fixed GeoIP
// (two countries, two subnets): 16^3 histories.
func exhaustiveSmall(r *hlib.Result, m *hlib.Model) {
	c1, c2 := netip.MustParseAddr("192.0.2.1"), netip.MustParseAddr("198.51.100.7")
	a, b := netip.MustParsePrefix("1.2.3.0/24"), netip.MustParsePrefix("5.6.7.8/32")
	g := geoTab{
		Data: map[netip.Addr]locIdx{c1: {Ctry: 1}, c2: {Ctry: 2}, a.Addr(): {Ctry: 1}, b.Addr(): {Ctry: 2}},
		Sub: map[subKey]subVal{
			{Loc: locIdx{Ctry: 1}, Fam: 4}: {P: netip.MustParsePrefix("100.64.0.0/16")},
			{Loc: locIdx{Ctry: 2}, Fam: 4}: {P: netip.MustParsePrefix("100.65.1.0/24")},
		},
	}
	var choices []reqDesc
	for _, cl := range []netip.Addr{c1, c2} {
		for e := 0; e < 4; e++ {
			for _, scope := range []uint8{0, 24} {
				rd := reqDesc{Remote: cl, QType: dns.TypeA, QClass: dns.ClassINET,
					Up: upDesc{HasOPT: true, Opts: []optDesc{ecsOptOf(netip.MustParsePrefix("100.64.0.0/16"), true, scope)}}}
				switch e {
				case 1:
					rd.RRs = []optRR{{Opts: []optDesc{ecsOptOf(a, true, 0)}}}
				case 2:
					rd.RRs = []optRR{{Opts: []optDesc{ecsOptOf(netip.MustParsePrefix("0.0.0.0/0"), true, 0)}}}
				case 3:
					rd.RRs = []optRR{{Opts: []optDesc{ecsOptOf(b, true, 0)}}}
				}
				choices = append(choices, rd)
			}
		}
	}
	n := len(choices)
	for i := 0; i < n*n*n; i++ {
		sc := &scenario{Geo: g, Reqs: []reqDesc{choices[i%n], choices[i/n%n], choices[i/n/n]}}
		runCase(r, m, sc, 100, 100, true)
	}
	r.Count("exhaustive.three_request_histories_done")
	r.Exhaustive = true
	r.Notes = append(r.Notes, "exhaustive: all 16^3 three-request histories over 2 clients x {no ECS, ECS in AD, /0, ECS in US} x upstream scope {0, 24}; "+
		"setECS over all messages with <= 2 OPT RRs of <= 3 options from a 3-letter alphabet")
}

// unitCampaign compares setECS, locFromReq and respIsECSDependent (reached
// through the verif hooks) with the model over exhaustive small scopes, and
// checks directly that setECS leaves exactly the option being set.
func unitCampaign(r *hlib.Result, m *hlib.Model) {
	var lines, gots []string
	alphabet := []optDesc{
		{Code: 65001},
		ecsOptOf(netip.MustParsePrefix("198.51.100.77/32"), true, 0),
		ecsOptOf(netip.MustParsePrefix("2001:db8:aa::/48"), true, 7),
	}
	var optLists [][]optDesc
	var rec func(cur []optDesc, depth int)
	rec = func(cur []optDesc, depth int) {
		optLists = append(optLists, append([]optDesc{}, cur...))
		if depth == 3 {
			return
		}
		for _, o := range alphabet {
			rec(append(cur, o), depth+1)
		}
	}
	rec(nil, 0)
	var extras [][]optRR
	extras = append(extras, nil)
	for _, a := range optLists {
		extras = append(extras, []optRR{{Opts: a}})
		for _, b := range optLists {
			extras = append(extras, []optRR{{DO: true, Opts: a}, {Opts: b}})
		}
	}
	for _, extra := range extras {
		for _, ps := range []string{"100.64.0.0/16", "2001:db8:100::/48"} {
			for _, isResp := range []bool{false, true} {
				p := netip.MustParsePrefix(ps)
				fam := netutil.AddrFamilyIPv4
				if p.Addr().Is6() {
					fam = netutil.AddrFamilyIPv6
				}
				msg := (&reqDesc{QType: dns.TypeA, QClass: dns.ClassINET, RRs: extra}).msg(1)
				err := ecscache.VerifC05SetECS(msg, p, 3, fam, isResp)
				got := canonRRs(optRRsOf(msg), false)
				if err != nil {
					got = "err"
				}
				var sb strings.Builder
				fmt.Fprintf(&sb, "setecs %s %d %s %d %d", b01(isResp), famOf(p.Addr()), addrNat(p.Addr()), p.Bits(), len(extra))
				for _, rr := range extra {
					fmt.Fprintf(&sb, " %s %d", b01(rr.DO), len(rr.Opts))
					for _, o := range rr.Opts {
						sb.WriteString(" " + o.token())
					}
				}
				lines, gots = append(lines, sb.String()), append(gots, got)
				// Oracle: exactly the option being set remains.
				es := ecsOnly(optRRsOf(msg))
				wantScope := 0
				if isResp {
					wantScope = p.Bits()
				}
				ok := len(es) == 1
				if ok {
					q, valid := es[0].asPrefix()
					ok = valid && q == p && int(es[0].Scope) == wantScope
				}
				if !ok {
					sig := "dup-ecs-option-forwarded"
					if len(extra) > 1 {
						sig = "ecs-in-extra-opt-rr-forwarded"
					}
					if isResp {
						sig = "ecs-echo-wrong-prefix"
					}
					r.Violate(sig, fmt.Sprintf("setECS(%s, isResp=%v) on OPT RRs %s leaves ECS options %s", p, isResp,
						canonRRs(extra, false), canonECS(es)), map[string]any{"op": sb.String(), "observed": got})
				}
				r.Case(sb.String(), len(ecsOnly(extra)) > 0)
			}
		}
	}
	r.Count("unit.setecs_exhaustive_done")
	// locFromReq and ecsFamFromReq.
	cls := []*geoip.Location{nil, {}, {Country: geoip.CountryAD, ASN: 7}, {Country: geoip.CountryNone, ASN: 7}, {Country: geoip.CountryUS, TopSubdivision: "CA"}}
	els := []*geoip.Location{nil, {}, {Country: geoip.CountryUS, TopSubdivision: "CA", ASN: 42}, {Country: geoip.CountryNone, TopSubdivision: "CA", ASN: 42}, {Country: geoip.CountryAD}}
	li := func(l *geoip.Location) string {
		if l == nil {
			return "0 0 0 0"
		}

		return fmt.Sprintf("1 %d %d %d", idxOf(ctryNames, l.Country), idxOf(subdivNames, l.TopSubdivision), l.ASN)
	}
	for _, cl := range cls {
		for _, hasECS := range []bool{false, true} {
			for _, el := range els {
				ri := &agd.RequestInfo{Location: cl, RemoteIP: netip.MustParseAddr("192.0.2.1")}
				line := "locfrom " + li(cl) + " " + li(nil)
				if hasECS {
					ri.ECS = &dnsmsg.ECS{Location: el, Subnet: netip.MustParsePrefix("2001:db8::/32")}
					line = "locfrom " + li(cl) + " " + li(el)
				}
				l := ecscache.VerifC05LocFromReq(ri)
				lines = append(lines, line)
				gots = append(gots, fmt.Sprintf("%d %d %d", idxOf(ctryNames, l.Country), idxOf(subdivNames, l.TopSubdivision), l.ASN))
				wantFam := netutil.AddrFamilyIPv4
				if hasECS {
					wantFam = netutil.AddrFamilyIPv6
				}
				if f := ecscache.VerifC05ECSFamFromReq(ri); f != wantFam {
					r.Violate("ecs-family-not-of-option", fmt.Sprintf("ecsFamFromReq = %v, want %v", f, wantFam), line)
				}
				r.Case(line, hasECS)
			}
		}
	}
	lines, gots = append(lines, "fake "+hostNames[3]), append(gots, "ok")
	for scope := 0; scope < 256; scope++ {
		for _, h := range []int{0, 3, 4, 6, 7} {
			lines = append(lines, fmt.Sprintf("dep %d %s", scope, hostNames[h]))
			gots = append(gots, b01(ecscache.VerifC05RespIsECSDependent(uint8(scope), hostNames[h])))
		}
	}
	// agdnet.NormalizeDomain against the model's normalizeDomain.
	for _, n := range append(append([]string{}, hostNames...), "Xn--Caf-Dma.Example.", "a..", "A", "z.Z.", "@[`{.example.", "\\065\\.b.", "a.example") {
		lines, gots = append(lines, "norm "+n), append(gots, agdnet.NormalizeDomain(n))
	}
	m.ResetLog()
	answers := m.Batch(append([]string{"reset"}, lines...))[1:]
	r.ModelOps += len(lines)
	for i := range lines {
		if gots[i] != answers[i] {
			r.Disagree("model-vs-impl-unit", fmt.Sprintf("op %q: implementation %q, model %q", lines[i], gots[i], answers[i]), lines[i])

			break
		}
	}
}
