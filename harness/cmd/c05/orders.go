package main

import (
	"net/netip"

	"github.com/AdguardTeam/AdGuardDNS/verifh/hlib"
	"github.com/miekg/dns"
)

// optionOrderCampaign enumerates every option list of up to depth options over
// a small alphabet (an unrelated option, a valid IPv4 subnet, a valid IPv6
// subnet, the /0 opt-out, three kinds of malformed option) for
//
//   - the OPT RR of the query (alone, and as the last of two OPT RRs whose
//     first one carries an ECS option of its own), and
//   - the OPT RR of the upstream's answer.
//
// Which ECS option of a list "is" the client's is decided by position, so a
// mistake that only shows for a particular order (a malformed option in front
// of a valid one, an opt-out behind a subnet, ...) needs the whole product.
// Every list is followed by a second client without ECS asking the same
// question, so that what was stored is observed as well.
func optionOrderCampaign(r *hlib.Result, m *hlib.Model, depth int) {
	c1, c2 := netip.MustParseAddr("192.0.2.1"), netip.MustParseAddr("198.51.100.7")
	v4, v6 := netip.MustParsePrefix("1.2.3.0/24"), netip.MustParsePrefix("2001:db8:aa::/48")
	g := geoTab{
		Data: map[netip.Addr]locIdx{c1: {Ctry: 1, ASN: 1}, c2: {Ctry: 1, ASN: 1}, v4.Addr(): {Ctry: 2, ASN: 2}, v6.Addr(): {Ctry: 2}},
		Sub: map[subKey]subVal{
			{Loc: locIdx{Ctry: 1, ASN: 1}, Fam: 4}: {P: netip.MustParsePrefix("100.64.0.0/16")},
			{Loc: locIdx{Ctry: 2, ASN: 2}, Fam: 4}: {P: netip.MustParsePrefix("100.65.1.0/24")},
			{Loc: locIdx{Ctry: 2}, Fam: 6}:         {P: netip.MustParsePrefix("2001:db8:200::/40")},
			{Loc: locIdx{Ctry: 1, ASN: 1}, Fam: 6}: {P: netip.MustParsePrefix("2001:db8:100::/48")},
		},
	}
	alphabet := []optDesc{
		{Code: 65001},
		ecsOptOf(v4, true, 0),
		ecsOptOf(v6, true, 0),
		ecsOptOf(netip.MustParsePrefix("0.0.0.0/0"), true, 0),
		{ECS: true, Family: 1, Addr: []byte{1, 2, 3, 4}, Mask: 24}, // bits beyond the prefix
		{ECS: true, Family: 3, Addr: []byte{1, 2, 3, 0}, Mask: 24}, // unknown family
		{ECS: true, Family: 2, Addr: netip.MustParseAddr("2001:db8::").AsSlice(), Mask: 129},
	}
	lists := optLists(alphabet, depth)
	scoped := upDesc{HasOPT: true, Opts: []optDesc{ecsOptOf(netip.MustParsePrefix("100.64.0.0/16"), true, 16)}}
	for _, l := range lists {
		for _, two := range []bool{false, true} {
			rrs := []optRR{{Opts: l}}
			if two {
				rrs = []optRR{{Opts: []optDesc{ecsOptOf(netip.MustParsePrefix("5.6.7.8/32"), true, 0)}}, {Opts: l}}
			}
			sc := &scenario{Geo: g, Reqs: []reqDesc{
				{Remote: c1, QType: dns.TypeA, QClass: dns.ClassINET, RRs: rrs, Up: scoped},
				{Remote: c2, QType: dns.TypeA, QClass: dns.ClassINET, Up: scoped},
				{Remote: c2, QType: dns.TypeA, QClass: dns.ClassINET, RRs: rrs, Up: scoped},
			}}
			runCase(r, m, sc, 100, 100, true)
			r.Count("orders.query_option_lists")
			if cls, _ := classify(&sc.Reqs[0]); cls == ecsMalformed && len(ecsOnly(rrs[len(rrs)-1:])) > 1 {
				r.Count("orders.malformed_first_among_several")
			}
		}
	}
	// The upstream's answer: the same lists with scopes, plus EDE.
	upAlphabet := []optDesc{
		{Code: dns.EDNS0EDE},
		ecsOptOf(netip.MustParsePrefix("100.64.0.0/16"), true, 16),
		ecsOptOf(netip.MustParsePrefix("100.64.0.0/16"), true, 0),
		ecsOptOf(netip.MustParsePrefix("2001:db8:100::/48"), true, 40),
		{ECS: true, Family: 1, Addr: []byte{1, 2, 3, 4}, Mask: 24, Scope: 24},
	}
	for _, l := range optLists(upAlphabet, 3) {
		up := upDesc{HasOPT: true, Opts: l}
		other := []optRR{{Opts: []optDesc{ecsOptOf(v4, true, 0)}}}
		sc := &scenario{Geo: g, Reqs: []reqDesc{
			{Remote: c1, QType: dns.TypeA, QClass: dns.ClassINET, Up: up},
			{Remote: c2, QType: dns.TypeA, QClass: dns.ClassINET, Up: up},
			{Remote: c1, QType: dns.TypeA, QClass: dns.ClassINET, RRs: other, Up: up},
			{Remote: c2, QType: dns.TypeA, QClass: dns.ClassINET, RRs: other, Up: up},
			{Remote: c1, QType: dns.TypeA, QClass: dns.ClassINET,
				RRs: []optRR{{Opts: []optDesc{ecsOptOf(netip.MustParsePrefix("0.0.0.0/0"), true, 0)}}}, Up: up},
		}}
		runCase(r, m, sc, 100, 100, true)
		r.Count("orders.upstream_option_lists")
	}
	r.Count("orders.done")
}

// optLists returns all lists over alphabet of length <= depth.
func optLists(alphabet []optDesc, depth int) (ls [][]optDesc) {
	var rec func(cur []optDesc, d int)
	rec = func(cur []optDesc, d int) {
		ls = append(ls, append([]optDesc{}, cur...))
		if d == depth {
			return
		}
		for _, o := range alphabet {
			rec(append(cur, o), d+1)
		}
	}
	rec(nil, 0)

	return ls
}
