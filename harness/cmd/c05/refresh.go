package main

// GeoIP refresh in the middle of a history.
//
// geoip.File.Refresh replaces the subnet maps and the readers and clears the
// location cache while the ECS cache middleware (and its two caches) lives on.
// Two campaigns:
//
//   - refreshCampaign: the table-driven GeoIP of the main campaign is replaced
//     at a random position of a history by another table (a fresh one, or the
//     same one with the subnets permuted among the locations, so that subnets
//     change owner);
//
//   - geoRefreshCampaign: the real geoip.File over generated MaxMind databases
//     is refreshed from rewritten database files in the middle of a history
//     through the production stack.
//
// The oracle judges every request against the tables / databases in force
// when it was served; the partition check (a scoped answer is served only to a
// client whose own mapping, observed through the cold twin, is the subnet the
// answer was obtained for) spans the refresh.

import (
	"fmt"
	"math/rand/v2"
	"net/netip"
	"os"

	"github.com/AdguardTeam/AdGuardDNS/internal/geoip"
	"github.com/AdguardTeam/AdGuardDNS/verifh/hlib"
	"github.com/AdguardTeam/golibs/netutil"
	"github.com/miekg/dns"
)

// permuteSubs returns g with the same locations and addresses, the subnets of
// each family rotated among the location keys.
func permuteSubs(rng *rand.Rand, g *geoTab) (g2 geoTab) {
	g2 = *g
	g2.Sub = map[subKey]subVal{}
	for fam := 4; fam <= 6; fam += 2 {
		var ks []subKey
		for k := range g.Sub {
			if k.Fam == fam {
				ks = append(ks, k)
			}
		}
		// Canonical order before the random rotation.
		for i := 1; i < len(ks); i++ {
			for j := i; j > 0 && fmt.Sprint(ks[j]) < fmt.Sprint(ks[j-1]); j-- {
				ks[j], ks[j-1] = ks[j-1], ks[j]
			}
		}
		if len(ks) == 0 {
			continue
		}
		sh := 1 + rng.IntN(len(ks))
		for i, k := range ks {
			g2.Sub[k] = g.Sub[ks[(i+sh)%len(ks)]]
		}
	}

	return g2
}

// refreshCampaign: histories whose GeoIP tables change once.
func refreshCampaign(r *hlib.Result, m *hlib.Model, rng *rand.Rand, n int) {
	for i := 0; i < n; i++ {
		var sc *scenario
		if i%2 == 0 {
			sc = genPartitionScenario(rng)
		} else {
			sc = genScenario(rng, 24)
		}
		if len(sc.Reqs) < 2 {
			continue
		}
		var g2 geoTab
		switch rng.IntN(3) {
		case 0:
			g2 = genGeo(rng)
			r.Count("refresh.fresh_tables")
		default:
			g2 = permuteSubs(rng, &sc.Geo)
			r.Count("refresh.permuted_subnets")
		}
		sc.Geo2, sc.RefreshAt = &g2, 1+rng.IntN(len(sc.Reqs)-1)
		// Ask the questions of the first part again afterwards, so that entries
		// stored before the refresh are looked up after it.
		for j := 0; j < sc.RefreshAt && len(sc.Reqs) < 40; j++ {
			if rng.IntN(2) == 0 {
				sc.Reqs = append(sc.Reqs, sc.Reqs[j])
			}
		}
		ec, nc := 10000, 10000
		if i%7 == 0 {
			ec, nc = 1+rng.IntN(3), 1+rng.IntN(3)
		}
		os := runScenario(sc, ec, nc)
		for j := sc.RefreshAt; j < len(os); j++ {
			if os[j].Resp != nil && !os[j].UpCalled && os[j].Resp.Rcode != dns.RcodeFormatError {
				if t := tokenOf(os[j].Resp); t >= 0 && t < sc.RefreshAt {
					r.Count("refresh.hit_across_refresh")
				}
			}
		}
		runCaseObs(r, m, sc, os, ec, nc, true)
		r.Count("refresh.cases")
	}
}

// relabel returns a copy of db whose networks keep their addresses and lengths
// but have their ASNs resp. countries rotated: every address changes its
// location, every subnet its owner.
func relabel(rng *rand.Rand, db *geoDB) (db2 *geoDB) {
	db2 = &geoDB{Top: db.Top, AllTop: db.AllTop}
	db2.ASNNets = append(db2.ASNNets, db.ASNNets...)
	db2.CtryNets = append(db2.CtryNets, db.CtryNets...)
	if n := len(db2.ASNNets); n > 1 {
		sh := 1 + rng.IntN(n-1)
		for i := range db2.ASNNets {
			db2.ASNNets[i].ASN = db.ASNNets[(i+sh)%n].ASN
		}
	}
	if n := len(db2.CtryNets); n > 1 {
		sh := 1 + rng.IntN(n-1)
		for i := range db2.CtryNets {
			db2.CtryNets[i].Ctry, db2.CtryNets[i].Subdiv = db.CtryNets[(i+sh)%n].Ctry, db.CtryNets[(i+sh)%n].Subdiv
		}
	}
	// Drop some networks: their keys must lose their subnets.
	if rng.IntN(2) == 0 && len(db2.CtryNets) > 2 {
		k := rng.IntN(len(db2.CtryNets))
		db2.CtryNets = append(db2.CtryNets[:k:k], db2.CtryNets[k+1:]...)
	}
	if rng.IntN(2) == 0 && len(db2.ASNNets) > 2 {
		k := rng.IntN(len(db2.ASNNets))
		db2.ASNNets = append(db2.ASNNets[:k:k], db2.ASNNets[k+1:]...)
	}
	if rng.IntN(4) == 0 {
		// A database without any network of one family in the country file.
		var keep []gdbCtryNet
		drop4 := rng.IntN(2) == 0
		for _, n := range db2.CtryNets {
			if n.P.Addr().Is4() != drop4 {
				keep = append(keep, n)
			}
		}
		db2.CtryNets = keep
	}

	return db2
}

// modelSubsOf asks the Lean model of geoip.File for the subnet of every query
// over db.
func modelSubsOf(m *hlib.Model, db *geoDB, queries []gdbQuery) (subs []string) {
	lines := db.modelLines()
	nHead := len(lines)
	for _, q := range queries {
		f6 := 4
		if q.Fam == netutil.AddrFamilyIPv6 {
			f6 = 6
		}
		lines = append(lines, fmt.Sprintf("gsub %d %d %d %d", idxOf(gdbCountries, q.Ctry), idxOf(gdbSubdivs, q.Subdiv), q.ASN, f6))
	}

	return m.Batch(lines)[nHead:]
}

// tabFor is the scenario table for the real File f over db: live look-ups for
// the stack, the Lean model's subnets and the harness's own address look-up
// for the oracle and the model run.
func tabFor(db *geoDB, f *geoip.File, modelSubs []string, queries []gdbQuery) (g *geoTab) {
	g = &geoTab{Data: map[netip.Addr]locIdx{}, Sub: map[subKey]subVal{}}
	g.liveData = func(a netip.Addr) *geoip.Location {
		l, err := f.Data("", a)
		if err != nil {
			return nil
		}

		return l
	}
	g.liveSubnet = f.SubnetByLocation
	g.ctryNames, g.subdivNames = gdbCountries, gdbSubdivs
	g.asnIsValue = true
	for j, q := range queries {
		var fa, bits int
		var an string
		if _, err := fmt.Sscanf(modelSubs[j], "%d %s %d", &fa, &an, &bits); err != nil {
			continue
		}
		k := subKey{Loc: locIdx{idxOf(gdbCountries, q.Ctry), idxOf(gdbSubdivs, q.Subdiv), int(q.ASN)}, Fam: 4}
		if q.Fam == netutil.AddrFamilyIPv6 {
			k.Fam = 6
		}
		g.Sub[k] = subVal{P: netip.PrefixFrom(natAddr(an, fa), bits)}
	}

	return g
}

// geoRefreshCampaign: the real geoip.File is refreshed in the middle of a
// history through the production stack.
func geoRefreshCampaign(r *hlib.Result, m *hlib.Model, rng *rand.Rand, nDB, nHist int) {
	dir, err := os.MkdirTemp("", "c05georefresh")
	hlib.Must(err)
	defer func() { _ = os.RemoveAll(dir) }()
	queries := allGdbQueries()
	for i := 0; i < nDB; i++ {
		db1 := genGeoDB(rng)
		var db2 *geoDB
		if rng.IntN(3) == 0 {
			db2 = genGeoDB(rng)
			db2.Top, db2.AllTop = db1.Top, db1.AllTop
		} else {
			db2 = relabel(rng, db1)
		}
		subs1, subs2 := modelSubsOf(m, db1, queries), modelSubsOf(m, db2, queries)
		r.ModelOps += 2 * len(queries)
		for h := 0; h < nHist; h++ {
			geoRefreshCase(r, m, rng, dir, db1, db2, subs1, subs2, queries)
		}
	}
}

func geoRefreshCase(r *hlib.Result, m *hlib.Model, rng *rand.Rand, dir string, db1, db2 *geoDB, subs1, subs2 []string, queries []gdbQuery) {
	rf, err := openRace(db1, dir)
	if err != nil {
		r.Violate("geoip-refresh-failed", fmt.Sprintf("geoip.File.Refresh: %v", err), gdbReplay{DB: db1, Observed: err.Error()})

		return
	}
	f := rf.f
	dbs := []*geoDB{db1, db2}
	// One address per /24 resp. /56 block wherever either database has a
	// network longer than that (known finding geoip-data-cache-coarser-than-database).
	long := map[netip.Addr]bool{}
	var bases []netip.Addr
	for _, db := range dbs {
		note := func(p netip.Prefix) {
			want := 24
			if p.Addr().Is6() {
				want = 56
			}
			if _, ok := long[p.Addr()]; !ok {
				bases = append(bases, p.Addr())
			}
			long[p.Addr()] = long[p.Addr()] || p.Bits() > want
		}
		for _, n := range db.ASNNets {
			note(n.P)
		}
		for _, n := range db.CtryNets {
			note(n.P)
		}
	}
	var addrs []netip.Addr
	for _, b := range bases {
		a := b.Next()
		if long[b] {
			a = b
		}
		addrs = append(addrs, a)
	}
	addrs = append(addrs, netip.MustParseAddr("203.0.113.9"), netip.MustParseAddr("2001:db8::1"))
	g1, g2 := tabFor(db1, f, subs1, queries), tabFor(db2, f, subs2, queries)
	tabs := []*geoTab{g1, g2}
	sc := &scenario{Geo: *g1, Geo2: g2}
	var refreshErr error
	n := 4 + rng.IntN(8)
	sc.RefreshAt = 1 + rng.IntN(n-1)
	// Few clients, so that the same address is located before and after.
	pool := make([]netip.Addr, 0, 4)
	for len(pool) < 4 {
		pool = append(pool, pick(rng, addrs))
	}
	// Wave h: in two cases of three the refresh does not have the File to
	// itself.  At one to three of its schedule points (race.go) the clients of
	// the pool are looked up, or send a request for a name of their own
	// ("c.example.": its cache entries cannot meet those of the history), as
	// ratelimitmw and ecscache would do for a query arriving at that moment.
	during := map[string][]midAct{}
	var midObs []midObserved
	if rng.IntN(3) != 0 {
		for i, k := 0, 1+rng.IntN(3); i < k; i++ {
			pt := pick(rng, racePoints)
			for j, l := 0, 1+rng.IntN(2); j < l; j++ {
				act := midAct{Addr: pick(rng, pool)}
				if rng.IntN(2) == 0 {
					rd := reqDesc{Remote: act.Addr, Host: 2, QType: dns.TypeA, QClass: dns.ClassINET,
						Up: upDesc{HasOPT: true, Opts: []optDesc{ecsOptOf(netip.MustParsePrefix("11.0.0.0/24"), true, 24)}}}
					if rng.IntN(3) == 0 {
						ea := pick(rng, pool)
						epfx, _ := ea.Prefix(ea.BitLen())
						rd.RRs = []optRR{{Opts: []optDesc{ecsOptOf(epfx, true, 0)}}}
					}
					act.Req = &rd
				}
				during[pt] = append(during[pt], act)
			}
		}
		r.Count("georefresh.with_activity_during_refresh")
	}
	sc.onRefreshRn = func(rn *runner) {
		db2.files(dir)
		refreshErr = rf.refresh(func(pt string, lockFree bool) {
			if !lockFree {
				// The write lock is held: the query would wait for the end of
				// the refresh, where the history goes on anyway.
				return
			}
			for _, act := range during[pt] {
				mo := midObserved{Point: pt, Act: act}
				if act.Req != nil {
					o := rn.serve(900+len(midObs), act.Req)
					mo.obs = &o
					if o.UpReq != nil {
						mo.Upstream = canonRRs(optRRsOf(o.UpReq), true)
					}
				} else {
					l, derr := f.Data("", act.Addr)
					mo.Loc = raceLoc(l)
					if derr != nil {
						mo.Loc = "error: " + derr.Error()
					}
				}
				midObs = append(midObs, mo)
			}
		})
	}
	for i := 0; i < n; i++ {
		ep := 0
		if i >= sc.RefreshAt {
			ep = 1
		}
		note := func(a netip.Addr) {
			// Both tables know every address used anywhere in the history.
			for e, db := range dbs {
				asn, ctry, sd, _ := db.lookup(a)
				tabs[e].Data[a] = locIdx{idxOf(gdbCountries, ctry), idxOf(gdbSubdivs, sd), int(asn)}
			}
		}
		_ = ep
		rd := reqDesc{Remote: pick(rng, pool), Host: rng.IntN(2), QType: dns.TypeA, QClass: dns.ClassINET}
		note(rd.Remote)
		switch rng.IntN(5) {
		case 0, 1, 2:
		case 3:
			rd.RRs = []optRR{{}}
		default:
			ea := pick(rng, pool)
			epfx, _ := ea.Prefix(ea.BitLen())
			note(epfx.Addr())
			rd.RRs = []optRR{{Opts: []optDesc{ecsOptOf(epfx, true, 0)}}}
		}
		rd.Up = upDesc{HasOPT: true, Opts: []optDesc{ecsOptOf(netip.MustParsePrefix("11.0.0.0/24"), true, uint8(rng.IntN(3)*12))}}
		sc.Reqs = append(sc.Reqs, rd)
	}
	// sc.Geo is a copy of *g1 made before the Data entries were added; the maps
	// are shared, so it sees them.
	obs := runScenario(sc, 10000, 10000)
	if refreshErr != nil {
		r.Violate("geoip-refresh-failed", fmt.Sprintf("geoip.File.Refresh (second): %v", refreshErr), gdbReplay{DB: db2, Observed: refreshErr.Error()})

		return
	}
	midReplay := map[string]any{"lookups_and_requests_during_refresh_by_point": during, "observed_during_refresh": midObs}
	// What the clients got and sent while the refresh was running: a location of
	// the old or of the new databases; upstream exactly one ECS option whose
	// subnet the old or the new databases assign to such a location.
	for _, mo := range midObs {
		a := mo.Act.Addr
		if mo.Act.Req == nil {
			if mo.Loc != db1.raceLoc(a) && mo.Loc != db2.raceLoc(a) {
				r.Violate("geoip-location-from-neither-database", fmt.Sprintf("geoip.File.Data(%s) at point %q of a running Refresh answered %s; the old databases say %s, the new ones %s",
					a, mo.Point, mo.Loc, db1.raceLoc(a), db2.raceLoc(a)),
					map[string]any{"databases": db1, "databases_after_refresh": db2, "refresh_at": sc.RefreshAt, "requests": sc.Reqs, "refresh_schedule": midReplay})
			}
			r.Count("georefresh.lookup_during_refresh")

			continue
		}
		r.Count("georefresh.request_during_refresh")
		if mo.obs.UpReq == nil {
			continue
		}
		fam, asns, ctrys := dbCandidates(dbs, mo.Act.Req)
		es := ecsOnly(optRRsOf(mo.obs.UpReq))
		bad := ""
		if len(es) != 1 {
			bad = fmt.Sprintf("%d ECS options", len(es))
		}
		for _, e := range es {
			p, valid := e.asPrefix()
			if !valid {
				bad = "not an address"

				continue
			}
			ok1, why := db1.assignedOracle(p, fam, asns, ctrys)
			ok2, _ := db2.assignedOracle(p, fam, asns, ctrys)
			if !ok1 && !ok2 {
				bad = e.token() + ": " + why
			}
		}
		if bad != "" {
			r.Violate("upstream-ecs-not-assigned-during-refresh", fmt.Sprintf("request of %s at point %q of a running Refresh: upstream saw %s", a, mo.Point, bad),
				map[string]any{"databases": db1, "databases_after_refresh": db2, "refresh_at": sc.RefreshAt, "requests": sc.Reqs, "refresh_schedule": midReplay})
		}
	}
	// Database-level oracle: what reached the upstream is assigned, by the
	// databases in force at that moment, to the location those databases give
	// the client or its ECS address.
	for i := range obs {
		if obs[i].UpReq == nil {
			continue
		}
		db := db1
		if i >= sc.RefreshAt {
			db = db2
		}
		rd := &sc.Reqs[i]
		_, cp := classify(rd)
		fam, asns, ctrys := dbCandidates([]*geoDB{db}, rd)
		for _, e := range ecsOnly(optRRsOf(obs[i].UpReq)) {
			p, valid := e.asPrefix()
			ok, why := valid, "not an address"
			if valid {
				ok, why = db.assignedOracle(p, fam, asns, ctrys)
			}
			if !ok {
				sig := "upstream-ecs-not-assigned-by-database"
				if i >= sc.RefreshAt {
					sig = "upstream-ecs-not-assigned-by-refreshed-database"
				}
				r.Violate(sig, fmt.Sprintf("request %d (client %s, ECS %v; databases refreshed before request %d): upstream saw %s: %s",
					i, rd.Remote, cp, sc.RefreshAt, e.token(), why),
					map[string]any{"databases": db1, "databases_after_refresh": db2, "refresh_at": sc.RefreshAt, "requests": sc.Reqs, "observed": observedLines(obs),
						"refresh_schedule": midReplay})
			}
			if i >= sc.RefreshAt {
				r.Count("georefresh.upstream_after_refresh")
			}
		}
	}
	for j := sc.RefreshAt; j < len(obs); j++ {
		if obs[j].Resp != nil && !obs[j].UpCalled {
			if t := tokenOf(obs[j].Resp); t >= 0 && t < sc.RefreshAt {
				r.Count("georefresh.hit_across_refresh")
			}
		}
	}
	runCaseObs(r, m, sc, obs, 10000, 10000, true)
	r.Count("georefresh.histories")
}

// midAct is what a client does while Refresh is running: a location look-up
// (Req nil) or a whole request through the stack.
type midAct struct {
	Addr netip.Addr `json:"client"`
	Req  *reqDesc   `json:"request,omitempty"`
}

type midObserved struct {
	Point    string `json:"point"`
	Act      midAct `json:"action"`
	Loc      string `json:"location_country_subdivision_asn,omitempty"`
	Upstream string `json:"upstream_ecs,omitempty"`
	obs      *obs
}

// dbCandidates collects, over the given database pairs, the ASNs and countries
// whose subnets may be sent upstream for rd: those of the client and of its
// ECS address, and the top ASNs of those countries; fam is the family of the
// subnet to send.
func dbCandidates(dbs []*geoDB, rd *reqDesc) (fam netutil.AddrFamily, asns []geoip.ASN, ctrys []geoip.Country) {
	cls, cp := classify(rd)
	fam, famAddr := netutil.AddrFamilyIPv4, rd.Remote
	if cls == ecsValid {
		famAddr = cp.Addr()
	}
	if !famAddr.Is4() {
		fam = netutil.AddrFamilyIPv6
	}
	for _, db := range dbs {
		for _, a := range []netip.Addr{rd.Remote, cp.Addr()} {
			if !a.IsValid() {
				continue
			}
			asn, ctry, _, known := db.lookup(a)
			if !known {
				continue
			}
			asns, ctrys = append(asns, asn), append(ctrys, ctry)
			if t, ok := db.Top[ctry]; ok {
				asns = append(asns, t)
			}
		}
	}

	return fam, asns, ctrys
}
