package main

import (
	"context"
	"fmt"
	"math/rand/v2"
	"net/netip"
	"os"
	"path/filepath"
	"strings"

	"github.com/AdguardTeam/AdGuardDNS/internal/agdcache"
	"github.com/AdguardTeam/AdGuardDNS/internal/geoip"
	"github.com/AdguardTeam/AdGuardDNS/verifh/hlib"
	"github.com/AdguardTeam/golibs/container"
	"github.com/AdguardTeam/golibs/logutil/slogutil"
	"github.com/AdguardTeam/golibs/netutil"
	"github.com/miekg/dns"
)

// ---------------------------------------------------------------------------
// geoip.File over generated MaxMind databases.
//
// The databases are written by mmdb.go; geoip.File reads them through its
// public API only (NewFile, Refresh, Data, SubnetByLocation).

var (
	gdbCountries = []geoip.Country{geoip.CountryNone, geoip.CountryUS, geoip.CountryRU, geoip.CountryAD, geoip.CountryDE}
	gdbSubdivs   = []string{"", "CA", "WA"}
	gdbASNs      = []geoip.ASN{7, 42, 100, 25159, 64500}
)

type gdbASNNet struct {
	P   netip.Prefix `json:"net"`
	ASN geoip.ASN    `json:"asn"`
}

type gdbCtryNet struct {
	P      netip.Prefix  `json:"net"`
	Ctry   geoip.Country `json:"country"`
	Subdiv string        `json:"subdivision"`
}

// geoDB is the content of the two databases and the top-ASN configuration.
type geoDB struct {
	ASNNets  []gdbASNNet                 `json:"asn_db"`
	CtryNets []gdbCtryNet                `json:"country_db"`
	Top      map[geoip.Country]geoip.ASN `json:"country_top_asns"`
	AllTop   []geoip.ASN                 `json:"all_top_asns"`
}

// lookup is the harness's own longest-prefix match (networks are disjoint).
func (db *geoDB) lookup(a netip.Addr) (asn geoip.ASN, ctry geoip.Country, subdiv string, known bool) {
	// An IPv4-mapped IPv6 address (possible in an ECS option of family 2) is
	// the IPv4 address.
	a = a.Unmap()
	for _, n := range db.ASNNets {
		if n.P.Contains(a) {
			asn, known = n.ASN, true
		}
	}
	for _, n := range db.CtryNets {
		if n.P.Contains(a) {
			ctry, subdiv, known = n.Ctry, n.Subdiv, true
		}
	}

	return asn, ctry, subdiv, known
}

func (db *geoDB) files(dir string) (asnPath, ctryPath string) {
	var an, cn []mmNet
	for _, n := range db.ASNNets {
		an = append(an, mmNet{P: n.P, Rec: mmMap{{"autonomous_system_number", mmU32(n.ASN)}}})
	}
	for _, n := range db.CtryNets {
		rec := mmMap{{"continent", mmMap{{"code", "EU"}}}, {"country", mmMap{{"iso_code", string(n.Ctry)}}}}
		if n.Subdiv != "" {
			rec = append(rec, mmKV{"subdivisions", mmArray{mmMap{{"iso_code", n.Subdiv}}}})
		}
		cn = append(cn, mmNet{P: n.P, Rec: rec})
	}
	asnPath, ctryPath = filepath.Join(dir, "asn.mmdb"), filepath.Join(dir, "country.mmdb")
	hlib.Must(os.WriteFile(asnPath, mmBuild("GeoIP2-ISP", an), 0o600))
	hlib.Must(os.WriteFile(ctryPath, mmBuild("GeoIP2-City", cn), 0o600))

	return asnPath, ctryPath
}

// open writes the databases and returns a refreshed geoip.File.
func (db *geoDB) open(dir string) (f *geoip.File, err error) {
	asnPath, ctryPath := db.files(dir)
	all := container.NewMapSet(db.AllTop...)
	f = geoip.NewFile(&geoip.FileConfig{
		Logger:         slogutil.NewDiscardLogger(),
		CacheManager:   agdcache.EmptyManager{},
		AllTopASNs:     all,
		CountryTopASNs: db.Top,
		ASNPath:        asnPath,
		CountryPath:    ctryPath,
		HostCacheCount: 0,
		IPCacheCount:   100,
	})

	return f, f.Refresh(context.Background())
}

// genLenIn picks a length in [lo, hi] with emphasis on the desired length and
// its neighbours.
func genLenIn(rng *rand.Rand, lo, hi, desired int) int {
	c := []int{lo, lo + 1, desired - 8, desired - 1, desired, desired + 1, desired + 4, hi, lo + rng.IntN(hi-lo+1)}
	l := c[rng.IntN(len(c))]

	return max(lo, min(hi, l))
}

// genGeoDB builds databases of disjoint networks: IPv4 block i is (11+i).0.0.0/8,
// IPv6 block i is (2a00+i)::/16; a block holds one or two ASN networks (at its
// base and at its upper half) and one or two country networks at the same two
// addresses, so that every ASN network's first address has a well-defined
// country.  Few ASNs and countries, so that one ASN spans countries and one
// key sees several candidate networks.
func genGeoDB(rng *rand.Rand) (db *geoDB) {
	db = &geoDB{Top: map[geoip.Country]geoip.ASN{}}
	for _, a := range gdbASNs {
		if rng.IntN(3) != 0 {
			db.AllTop = append(db.AllTop, a)
		}
	}
	for _, c := range gdbCountries[1:] {
		if len(db.AllTop) > 0 && rng.IntN(2) == 0 {
			db.Top[c] = pick(rng, db.AllTop)
		}
	}
	nb := 3 + rng.IntN(6)
	for fam := 4; fam <= 6; fam += 2 {
		for i := 0; i < nb; i++ {
			var base, upper netip.Addr
			lo, hi, want := 9, 32, 24
			if fam == 4 {
				base = netip.AddrFrom4([4]byte{byte(11 + i), 0, 0, 0})
				upper = netip.AddrFrom4([4]byte{byte(11 + i), 128, 0, 0})
			} else {
				b := [16]byte{0x2a, byte(i)}
				base = netip.AddrFrom16(b)
				b[2] = 0x80
				upper = netip.AddrFrom16(b)
				lo, hi, want = 17, 72, 56
			}
			for h, a := range []netip.Addr{base, upper} {
				if h == 1 && rng.IntN(2) == 0 {
					continue
				}
				if rng.IntN(8) != 0 {
					db.ASNNets = append(db.ASNNets, gdbASNNet{P: netip.PrefixFrom(a, genLenIn(rng, lo, hi, want)), ASN: pick(rng, gdbASNs)})
				}
				if rng.IntN(8) != 0 {
					n := gdbCtryNet{P: netip.PrefixFrom(a, genLenIn(rng, lo, hi, want)), Ctry: gdbCountries[rng.IntN(len(gdbCountries))]}
					if rng.IntN(3) == 0 {
						n.Subdiv = gdbSubdivs[1+rng.IntN(2)]
					}
					db.CtryNets = append(db.CtryNets, n)
				}
			}
		}
	}
	sortNets(db.ASNNets, func(n gdbASNNet) netip.Prefix { return n.P })
	sortNets(db.CtryNets, func(n gdbCtryNet) netip.Prefix { return n.P })

	return db
}

func famNum(a netip.Addr) int {
	if a.Is4() {
		return 4
	}

	return 6
}

// modelLines describes db to the Lean model (driver ops g…); networks in
// traversal order, each ASN network with the country data of its first address.
func (db *geoDB) modelLines() (ls []string) {
	ls = append(ls, "reset",
		fmt.Sprintf("gspecial %d", idxOf(gdbCountries, geoip.CountryUS)),
		fmt.Sprintf("gspecial %d", idxOf(gdbCountries, geoip.CountryRU)))
	for _, a := range db.AllTop {
		ls = append(ls, fmt.Sprintf("gistop %d", a))
	}
	for i, c := range gdbCountries {
		if a, ok := db.Top[c]; ok {
			ls = append(ls, fmt.Sprintf("gtop %d %d", i, a))
		}
	}
	for _, n := range db.ASNNets {
		_, ctry, subdiv, _ := db.lookup(n.P.Addr())
		ls = append(ls, fmt.Sprintf("gasn %d %d %d %d %s %d", idxOf(gdbCountries, ctry), idxOf(gdbSubdivs, subdiv), n.ASN,
			famNum(n.P.Addr()), addrNat(n.P.Addr()), n.P.Bits()))
	}
	for _, n := range db.CtryNets {
		ls = append(ls, fmt.Sprintf("gctry %d %d %s %d", idxOf(gdbCountries, n.Ctry), famNum(n.P.Addr()), addrNat(n.P.Addr()), n.P.Bits()))
	}

	return ls
}

type gdbQuery struct {
	Ctry   geoip.Country
	Subdiv string
	ASN    geoip.ASN
	Fam    netutil.AddrFamily
}

func (q gdbQuery) String() string {
	return fmt.Sprintf("country %q subdivision %q asn %d family %d", q.Ctry, q.Subdiv, q.ASN, q.Fam)
}

func allGdbQueries() (qs []gdbQuery) {
	asns := append([]geoip.ASN{0, 999}, gdbASNs...)
	for _, c := range gdbCountries {
		for _, sd := range gdbSubdivs {
			for _, a := range asns {
				for _, f := range []netutil.AddrFamily{netutil.AddrFamilyIPv4, netutil.AddrFamilyIPv6} {
					qs = append(qs, gdbQuery{c, sd, a, f})
				}
			}
		}
	}

	return qs
}

var megafon = netip.MustParsePrefix("178.176.72.0/24")

// assignedOracle is the statement's "the subnet the GeoIP database assigns to
// the country/ASN, or the zero prefix", read off the database itself: p must be
// the zero prefix of the family, or start at the first address of a database
// network of that family listed for one of the ASNs or for one of the
// countries (or be the one constant subnet the code has for AS25159).
func (db *geoDB) assignedOracle(p netip.Prefix, fam netutil.AddrFamily, asns []geoip.ASN, ctrys []geoip.Country) (ok bool, why string) {
	if !p.IsValid() {
		return false, "invalid prefix"
	}
	if (fam == netutil.AddrFamilyIPv4) != p.Addr().Is4() {
		return false, "prefix of the other family"
	}
	if p == netutil.ZeroPrefix(fam) {
		return true, ""
	}
	want := 24
	if fam == netutil.AddrFamilyIPv6 {
		want = 56
	}
	hasASN := func(a geoip.ASN) bool { return idxOf(asns, a) >= 0 }
	if p == megafon && hasASN(25159) {
		return true, ""
	}
	for _, n := range db.ASNNets {
		if n.P.Addr() == p.Addr() && hasASN(n.ASN) && p.Bits() == max(n.P.Bits(), want) {
			return true, ""
		}
	}
	for _, n := range db.CtryNets {
		if n.P.Addr() == p.Addr() && n.Ctry != geoip.CountryNone && idxOf(ctrys, n.Ctry) >= 0 && p.Bits() == max(n.P.Bits(), want) {
			return true, ""
		}
	}

	return false, "not a network the database lists for these ASNs/countries"
}

func pfxText(p netip.Prefix) string {
	if !p.IsValid() {
		return "invalid"
	}

	return fmt.Sprintf("%d %s %d", famNum(p.Addr()), addrNat(p.Addr()), p.Bits())
}

type gdbReplay struct {
	DB       *geoDB `json:"databases"`
	Query    string `json:"query,omitempty"`
	Observed string `json:"observed"`
	Model    string `json:"model,omitempty"`
}

// geoFileCampaign: random databases; (A) SubnetByLocation of the real
// geoip.File for every location of the pools against the Lean model of
// geoip.File and against the database-level oracle; (B) the production stack
// with the real geoip.File behind it.
func geoFileCampaign(r *hlib.Result, m *hlib.Model, rng *rand.Rand, nDB, nHist int) {
	dir, err := os.MkdirTemp("", "c05geo")
	hlib.Must(err)
	defer func() { _ = os.RemoveAll(dir) }()
	queries := allGdbQueries()
	for i := 0; i < nDB; i++ {
		db := genGeoDB(rng)
		f, err := db.open(dir)
		if err != nil {
			r.Violate("geoip-refresh-failed", fmt.Sprintf("geoip.File.Refresh: %v", err), gdbReplay{DB: db, Observed: err.Error()})

			continue
		}
		lines := db.modelLines()
		nHead := len(lines)
		var gots []string
		for _, q := range queries {
			p, err := f.SubnetByLocation(&geoip.Location{Country: q.Ctry, TopSubdivision: q.Subdiv, ASN: q.ASN}, q.Fam)
			got := pfxText(p)
			if err != nil {
				got = "err"
			}
			gots = append(gots, got)
			f6 := 4
			if q.Fam == netutil.AddrFamilyIPv6 {
				f6 = 6
			}
			lines = append(lines, fmt.Sprintf("gsub %d %d %d %d", idxOf(gdbCountries, q.Ctry), idxOf(gdbSubdivs, q.Subdiv), q.ASN, f6))
			// Oracle (no model): the answer is listed by the database for the
			// location's ASN, the top ASN of its country, or its country.
			asns := []geoip.ASN{q.ASN}
			if a, ok := db.Top[q.Ctry]; ok {
				asns = append(asns, a)
			}
			if ok, why := db.assignedOracle(p, q.Fam, asns, []geoip.Country{q.Ctry}); err == nil && !ok {
				r.Violate("geoip-subnet-not-assigned-to-location", fmt.Sprintf("SubnetByLocation(%s) = %v: %s", q, p, why),
					gdbReplay{DB: db, Query: q.String(), Observed: got})
			}
			switch {
			case p == netutil.ZeroPrefix(q.Fam):
				r.Count("geodb.answer_zero")
			case p.Bits() == 24 || p.Bits() == 56:
				r.Count("geodb.answer_desired_length")
			default:
				r.Count("geodb.answer_longer")
			}
		}
		m.ResetLog()
		answers := m.Batch(lines)
		r.ModelOps += len(lines)
		for j, q := range queries {
			if gots[j] != answers[nHead+j] {
				r.Disagree("model-vs-impl-geoip", fmt.Sprintf("SubnetByLocation(%s): implementation %q, model %q", q, gots[j], answers[nHead+j]),
					gdbReplay{DB: db, Query: q.String(), Observed: gots[j], Model: answers[nHead+j]})

				break
			}
		}
		r.Case(strings.Join(lines[:nHead], "\n"), len(db.ASNNets) > 1 && len(db.CtryNets) > 1)
		r.Count("geodb.databases")

		// (B) end to end.
		for h := 0; h < nHist; h++ {
			geoStackCase(r, m, rng, db, f, answers[nHead:], queries)
		}
	}
	r.Count("geodb.done")
}

// geoStackCase runs a history through the production stack whose GeoIP is the
// real geoip.File f.  The tables of the scenario (used by the standard oracle
// and by the model run) are not taken from f: locations come from the
// harness's own look-up in db, subnets from the Lean model of geoip.File.
func geoStackCase(r *hlib.Result, m *hlib.Model, rng *rand.Rand, db *geoDB, f *geoip.File, modelSubs []string, queries []gdbQuery) {
	// Addresses: inside networks, and one outside.  geoip.File.Data caches
	// locations per /24 resp. /56 block (known finding
	// geoip-data-cache-coarser-than-database, see geoCacheFinding); here only one
	// address per block is used wherever a network of the block is longer than
	// that, so that the look-ups of this campaign do not depend on their order.
	long := map[netip.Addr]bool{}
	var bases []netip.Addr
	noteBase := func(p netip.Prefix) {
		want := 24
		if p.Addr().Is6() {
			want = 56
		}
		if _, ok := long[p.Addr()]; !ok {
			bases = append(bases, p.Addr())
		}
		long[p.Addr()] = long[p.Addr()] || p.Bits() > want
	}
	for _, n := range db.ASNNets {
		noteBase(n.P)
	}
	for _, n := range db.CtryNets {
		noteBase(n.P)
	}
	var addrs4, addrs6 []netip.Addr
	for _, b := range bases {
		a := b.Next()
		if long[b] {
			a = b
		}
		if a.Is4() {
			addrs4 = append(addrs4, a)
		} else {
			addrs6 = append(addrs6, a)
		}
	}
	addrs4 = append(addrs4, netip.MustParseAddr("203.0.113.9"))
	addrs6 = append(addrs6, netip.MustParseAddr("2001:db8::1"))
	g := geoTab{Data: map[netip.Addr]locIdx{}, Sub: map[subKey]subVal{}}
	g.liveData = func(a netip.Addr) *geoip.Location {
		l, err := f.Data("", a)
		if err != nil {
			return nil
		}

		return l
	}
	g.liveSubnet = f.SubnetByLocation
	g.ctryNames, g.subdivNames = gdbCountries, gdbSubdivs
	for j, q := range queries {
		var fa int
		var an string
		var bits int
		if _, err := fmt.Sscanf(modelSubs[j], "%d %s %d", &fa, &an, &bits); err != nil {
			continue
		}
		a := natAddr(an, fa)
		k := subKey{Loc: locIdx{idxOf(gdbCountries, q.Ctry), idxOf(gdbSubdivs, q.Subdiv), int(q.ASN)}, Fam: 4}
		if q.Fam == netutil.AddrFamilyIPv6 {
			k.Fam = 6
		}
		g.Sub[k] = subVal{P: netip.PrefixFrom(a, bits)}
	}
	g.asnIsValue = true
	sc := &scenario{Geo: g}
	n := 3 + rng.IntN(8)
	pickAddr := func() netip.Addr {
		if rng.IntN(2) == 0 {
			return pick(rng, addrs4)
		}

		return pick(rng, addrs6)
	}
	// geoip.File.Data never answers with nil: an address the databases do not
	// know has the empty location.
	note := func(a netip.Addr) {
		asn, ctry, sd, _ := db.lookup(a)
		g.Data[a] = locIdx{idxOf(gdbCountries, ctry), idxOf(gdbSubdivs, sd), int(asn)}
	}
	for i := 0; i < n; i++ {
		rd := reqDesc{Remote: pickAddr(), Host: rng.IntN(2), QType: dns.TypeA, QClass: dns.ClassINET}
		note(rd.Remote)
		switch rng.IntN(5) {
		case 0, 1:
		case 2:
			rd.RRs = []optRR{{}}
		case 3:
			p := "0.0.0.0/0"
			if rng.IntN(2) == 0 {
				p = "::/0"
			}
			rd.RRs = []optRR{{Opts: []optDesc{ecsOptOf(netip.MustParsePrefix(p), true, 0)}}}
		default:
			ea := pickAddr()
			bits := ea.BitLen()
			if _, isBase := long[ea]; !isBase && rng.IntN(2) == 0 {
				bits = 24
				if ea.Is6() {
					bits = 56
				}
			}
			ep, _ := ea.Prefix(bits)
			if ea.Is4() && rng.IntN(4) == 0 {
				// The same subnet as an IPv4-mapped IPv6 one (family 2).
				ep = netip.PrefixFrom(netip.AddrFrom16(ep.Addr().As16()), 96+bits)
				r.Count("geodb.ecs_ipv4_mapped")
			}
			note(ep.Addr())
			rd.RRs = []optRR{{Opts: []optDesc{ecsOptOf(ep, true, 0)}}}
		}
		rd.Up = upDesc{HasOPT: true, Opts: []optDesc{ecsOptOf(netip.MustParsePrefix("11.0.0.0/24"), true, uint8(rng.IntN(3)*12))}}
		sc.Reqs = append(sc.Reqs, rd)
	}
	os := runScenario(sc, 10000, 10000)
	// Database-level oracle on what reached the upstream.
	for i := range os {
		if os[i].UpReq == nil {
			continue
		}
		rd := &sc.Reqs[i]
		cls, cp := classify(rd)
		fam := netutil.AddrFamilyIPv4
		famAddr := rd.Remote
		if cls == ecsValid {
			famAddr = cp.Addr()
		}
		if !famAddr.Is4() {
			fam = netutil.AddrFamilyIPv6
		}
		var asns []geoip.ASN
		var ctrys []geoip.Country
		for _, a := range []netip.Addr{rd.Remote, cp.Addr()} {
			if !a.IsValid() {
				continue
			}
			asn, ctry, _, known := db.lookup(a)
			if !known {
				continue
			}
			asns, ctrys = append(asns, asn), append(ctrys, ctry)
			if t, ok := db.Top[ctry]; ok {
				asns = append(asns, t)
			}
		}
		for _, e := range ecsOnly(optRRsOf(os[i].UpReq)) {
			p, valid := e.asPrefix()
			ok, why := valid, "not an address"
			if valid {
				ok, why = db.assignedOracle(p, fam, asns, ctrys)
			}
			if !ok {
				r.Violate("upstream-ecs-not-assigned-by-database", fmt.Sprintf("request %d (client %s, ECS %v): upstream saw %s: %s", i, rd.Remote, cp, e.token(), why),
					map[string]any{"databases": db, "requests": sc.Reqs, "observed": observedLines(os)})
			}
			if p == netutil.ZeroPrefix(fam) {
				r.Count("geodb.upstream_zero")
			} else {
				r.Count("geodb.upstream_db_subnet")
			}
		}
	}
	runCaseObs(r, m, sc, os, 10000, 10000, true)
	r.Count("geodb.stack_histories")
}

// natAddr converts the decimal text of an address back.
func natAddr(s string, fam int) (a netip.Addr) {
	n := 4
	if fam == 6 {
		n = 16
	}
	b := make([]byte, n)
	v := parseBig(s)
	v.FillBytes(b)
	a, _ = netip.AddrFromSlice(b)

	return a
}

// setBit returns a with bit i (0 = most significant) set.
func setBit(a netip.Addr, i int) netip.Addr {
	b := a.AsSlice()
	b[i/8] |= 0x80 >> (i % 8)
	out, _ := netip.AddrFromSlice(b)

	return out
}

// geoCacheFinding exercises the granularity of geoip.File.Data's location cache
// for EVERY position of the first bit in which two clients differ (below the
// fixed first byte resp. first two bytes of the generated networks): the
// country database puts the two halves lo and hi of a network into different
// countries, one client of each half asks, in either order.
//
//   - split <= 24 (IPv4) / <= 56 (IPv6): the clients are in different /24 resp.
//     /56 blocks, the cache (ipToCacheKey) must keep them apart and each upstream
//     query must carry a subnet of the client's own country; a cache key coarser
//     than the documented one is reported as geoip-location-cache-crossed-blocks;
//
//   - longer splits: the two clients share a block, the second is located where
//     the first is (known finding geoip-data-cache-coarser-than-database).
func geoCacheFinding(r *hlib.Result, rng *rand.Rand, _ int) {
	dir, err := os.MkdirTemp("", "c05geo")
	hlib.Must(err)
	defer func() { _ = os.RemoveAll(dir) }()
	type cse struct {
		v6    bool
		split int
	}
	var cases []cse
	for split := 9; split <= 31; split++ {
		cases = append(cases, cse{false, split})
	}
	for split := 17; split <= 63; split++ {
		cases = append(cases, cse{true, split})
	}
	for i, c := range cases {
		// The network and where it is split.
		split, v6 := c.split, c.v6
		var lo, hi, subA, subB netip.Prefix
		block := 24
		if !v6 {
			b := [4]byte{12, byte(rng.IntN(256)), byte(rng.IntN(256)), byte(rng.IntN(256))}
			base, _ := netip.AddrFrom4(b).Prefix(split - 1)
			lo = netip.PrefixFrom(base.Addr(), split)
			hi = netip.PrefixFrom(setBit(base.Addr(), split-1), split)
			subA, subB = netip.MustParsePrefix("13.0.0.0/16"), netip.MustParsePrefix("14.0.0.0/20")
		} else {
			block = 56
			b := [16]byte{0x2a, 0x0c}
			for j := 2; j < 8; j++ {
				b[j] = byte(rng.IntN(256))
			}
			base, _ := netip.AddrFrom16(b).Prefix(split - 1)
			lo = netip.PrefixFrom(base.Addr(), split)
			hi = netip.PrefixFrom(setBit(base.Addr(), split-1), split)
			subA, subB = netip.MustParsePrefix("2a0d::/32"), netip.MustParsePrefix("2a0e::/40")
		}
		sameBlock := split > block
		db := &geoDB{Top: map[geoip.Country]geoip.ASN{}, CtryNets: []gdbCtryNet{
			{P: lo, Ctry: geoip.CountryAD}, {P: hi, Ctry: geoip.CountryUS},
			{P: subA, Ctry: geoip.CountryAD}, {P: subB, Ctry: geoip.CountryUS},
		}}
		sortNets(db.CtryNets, func(n gdbCtryNet) netip.Prefix { return n.P })
		f, err := db.open(dir)
		if err != nil {
			r.Violate("geoip-refresh-failed", fmt.Sprintf("geoip.File.Refresh: %v", err), gdbReplay{DB: db, Observed: err.Error()})

			continue
		}
		g := geoTab{Data: map[netip.Addr]locIdx{}, Sub: map[subKey]subVal{}}
		g.liveData = func(a netip.Addr) *geoip.Location {
			l, _ := f.Data("", a)

			return l
		}
		g.liveSubnet = f.SubnetByLocation
		// Addresses anywhere in the two halves: the first, the last, a random one.
		inside := func(p netip.Prefix) netip.Addr {
			a := p.Addr()
			switch rng.IntN(3) {
			case 0:
				return a.Next()
			case 1:
				for j := p.Bits(); j < a.BitLen(); j++ {
					a = setBit(a, j)
				}

				return a
			default:
				for j := p.Bits(); j < a.BitLen(); j++ {
					if rng.IntN(2) == 0 {
						a = setBit(a, j)
					}
				}

				return a
			}
		}
		first, second := inside(lo), inside(hi)
		if rng.IntN(2) == 0 {
			first, second = second, first
		}
		up := upDesc{HasOPT: true}
		sc := &scenario{Geo: g, Reqs: []reqDesc{
			{Remote: first, QType: dns.TypeA, QClass: dns.ClassINET, Up: up},
			{Remote: second, Host: 1, QType: dns.TypeA, QClass: dns.ClassINET, Up: up},
		}}
		if i%3 == 0 {
			// The second address arrives as the address of an ECS option.
			bits := second.BitLen()
			ep, _ := second.Prefix(bits)
			sc.Reqs[1].Remote = first
			sc.Reqs[1].RRs = []optRR{{Opts: []optDesc{ecsOptOf(ep, true, 0)}}}
		}
		os := runScenario(sc, 100, 100)
		fam := netutil.AddrFamilyIPv4
		if v6 {
			fam = netutil.AddrFamilyIPv6
		}
		who := []netip.Addr{first, second}
		for j := range os {
			if os[j].UpReq == nil {
				continue
			}
			_, ctry, _, _ := db.lookup(who[j])
			for _, e := range ecsOnly(optRRsOf(os[j].UpReq)) {
				p, _ := e.asPrefix()
				if ok, _ := db.assignedOracle(p, fam, nil, []geoip.Country{ctry}); ok {
					continue
				}
				_, other, _, _ := db.lookup(who[1-j])
				sig := "upstream-ecs-not-assigned-by-database"
				if ok, _ := db.assignedOracle(p, fam, nil, []geoip.Country{other}); ok && j == 1 {
					sig = "geoip-location-cache-crossed-blocks"
					if sameBlock {
						sig = "geoip-data-cache-coarser-than-database"
					}
				}
				r.Violate(sig, fmt.Sprintf("address %s is in %v, which the database puts into country %q, but after a query from %s (country %q; the two share a /%d but not a /%d; documented cache block /%d) "+
					"its upstream query carries %v, the subnet of %q", who[j], map[bool]netip.Prefix{true: lo, false: hi}[lo.Contains(who[j])],
					ctry, who[1-j], other, split-1, split, block, p, other),
					map[string]any{"databases": db, "requests": sc.Reqs, "observed": observedLines(os)})
			}
		}
		r.Case(fmt.Sprintf("geocache %v %v %v %v", lo, hi, first, second), true)
		if sameBlock {
			r.Count("geodb.cache_block_split_cases")
		} else {
			r.Count("geodb.cache_other_block_cases")
		}
	}
}
