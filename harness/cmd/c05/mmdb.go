package main

import (
	"encoding/binary"
	"net/netip"
	"sort"
)

// ---------------------------------------------------------------------------
// A minimal writer for the MaxMind DB format (version 2.0, IPv6 tree with the
// IPv4 space at ::/96, 32-bit records), enough to give geoip.File databases
// with arbitrary networks.  Networks must not overlap.

type mmVal interface{}

type (
	mmMap   []mmKV // ordered
	mmArray []mmVal
	mmU16   uint16
	mmU32   uint32
	mmU64   uint64
)

type mmKV struct {
	K string
	V mmVal
}

func mmCtrl(typ, size int) (b []byte) {
	first := byte(0)
	if typ < 8 {
		first = byte(typ) << 5
	}
	switch {
	case size < 29:
		b = []byte{first | byte(size)}
	case size < 29+256:
		b = []byte{first | 29}
	default:
		panic("mmdb: value too large")
	}
	if typ >= 8 {
		b = append(b, byte(typ-7))
	}
	if size >= 29 {
		b = append(b, byte(size-29))
	}

	return b
}

func mmUint(typ int, v uint64) (b []byte) {
	var raw [8]byte
	binary.BigEndian.PutUint64(raw[:], v)
	i := 0
	for i < 8 && raw[i] == 0 {
		i++
	}

	return append(mmCtrl(typ, 8-i), raw[i:]...)
}

func mmEncode(v mmVal) (b []byte) {
	switch v := v.(type) {
	case string:
		return append(mmCtrl(2, len(v)), v...)
	case mmU16:
		return mmUint(5, uint64(v))
	case mmU32:
		return mmUint(6, uint64(v))
	case mmU64:
		return mmUint(9, uint64(v))
	case mmMap:
		b = mmCtrl(7, len(v))
		for _, kv := range v {
			b = append(b, mmEncode(kv.K)...)
			b = append(b, mmEncode(kv.V)...)
		}

		return b
	case mmArray:
		b = mmCtrl(11, len(v))
		for _, e := range v {
			b = append(b, mmEncode(e)...)
		}

		return b
	default:
		panic("mmdb: unsupported value")
	}
}

type mmNode struct {
	child [2]*mmNode
	data  int // index into records, -1 if none
	id    int
}

type mmNet struct {
	P   netip.Prefix
	Rec mmVal
}

// mmBuild serialises the networks into a database of the given type.
func mmBuild(dbType string, nets []mmNet) (out []byte) {
	root := &mmNode{data: -1}
	var recs [][]byte
	for _, n := range nets {
		a16 := n.P.Addr().As16()
		bits := n.P.Bits()
		if n.P.Addr().Is4() {
			a16 = [16]byte{}
			a4 := n.P.Addr().As4()
			copy(a16[12:], a4[:])
			bits += 96
		}
		cur := root
		for i := 0; i < bits; i++ {
			bit := (a16[i/8] >> (7 - i%8)) & 1
			if cur.child[bit] == nil {
				cur.child[bit] = &mmNode{data: -1}
			}
			cur = cur.child[bit]
			if cur.data >= 0 {
				panic("mmdb: overlapping networks")
			}
		}
		if cur.child[0] != nil || cur.child[1] != nil {
			panic("mmdb: overlapping networks")
		}
		cur.data = len(recs)
		recs = append(recs, mmEncode(n.Rec))
	}
	// Number the internal nodes breadth first.
	var order []*mmNode
	queue := []*mmNode{root}
	for len(queue) > 0 {
		n := queue[0]
		queue = queue[1:]
		n.id = len(order)
		order = append(order, n)
		for _, c := range n.child {
			if c != nil && c.data < 0 {
				queue = append(queue, c)
			}
		}
	}
	nodeCount := len(order)
	offs := make([]int, len(recs))
	var data []byte
	for i, r := range recs {
		offs[i] = len(data)
		data = append(data, r...)
	}
	for _, n := range order {
		for _, c := range n.child {
			v := uint32(nodeCount)
			switch {
			case c == nil:
			case c.data >= 0:
				v = uint32(nodeCount + 16 + offs[c.data])
			default:
				v = uint32(c.id)
			}
			out = binary.BigEndian.AppendUint32(out, v)
		}
	}
	out = append(out, make([]byte, 16)...)
	out = append(out, data...)
	out = append(out, "\xab\xcd\xefMaxMind.com"...)
	out = append(out, mmEncode(mmMap{
		{"binary_format_major_version", mmU16(2)},
		{"binary_format_minor_version", mmU16(0)},
		{"build_epoch", mmU64(1700000000)},
		{"database_type", dbType},
		{"description", mmMap{{"en", "verification fixture"}}},
		{"ip_version", mmU16(6)},
		{"languages", mmArray{"en"}},
		{"node_count", mmU32(nodeCount)},
		{"record_size", mmU16(32)},
	})...)

	return out
}

// sortNets orders networks the way a traversal of the tree yields them: the
// IPv4 space (::/96) first, then IPv6, by address.
func sortNets[T any](xs []T, pfx func(T) netip.Prefix) {
	key := func(p netip.Prefix) (k [16]byte) {
		if p.Addr().Is4() {
			a4 := p.Addr().As4()
			copy(k[12:], a4[:])

			return k
		}

		return p.Addr().As16()
	}
	sort.SliceStable(xs, func(i, j int) bool {
		a, b := key(pfx(xs[i])), key(pfx(xs[j]))
		for x := range a {
			if a[x] != b[x] {
				return a[x] < b[x]
			}
		}

		return false
	})
}
