package main

// geoip.File.Refresh racing with geoip.File.Data (wave h).
//
// The other campaigns refresh a File while nothing else runs.  Here look-ups
// are placed at definite moments of a running Refresh and, the other way
// round, a Refresh is run while a look-up is parked in the middle of Data.
// Nothing depends on timing: the moments are the log records Refresh emits
// (the logger given to geoip.NewFile is ours), the operations on the IP
// location cache (wrapped through the verif hook VerifC05WrapIPCache) and a
// lock probe (VerifC05LockFree: a look-up scheduled where the write lock is
// held would block until Refresh returns, so it is run then).
//
// Schedule points of Refresh, in the order the code reaches them:
//
//	started   "refresh started" (nothing read yet)
//	loc4/loc6 "got ipv4/ipv6 location subnets" (new files scanned; goroutine 1)
//	ctry4/6   "got ipv4/ipv6 country subnets"  (goroutine 2, concurrent)
//	preclear  right before ipCache.Clear
//	postclear right after ipCache.Clear
//	finished  "refresh finished" (deferred; the lock has been released)
//
// Park points of a look-up: after-get (ipCache.Get missed, read lock not yet
// taken) and before-set (ipCache.Set about to run; the look-up is parked there
// only if the probe finds no lock held, i.e. never in the code as written).
//
// Oracle, on the real File only: a look-up that begins after Refresh returned
// is answered with the location the NEW databases give the address
// (geoip-stale-location-after-refresh); any look-up is answered with the
// location of the old or of the new databases (geoip-location-from-neither-
// database); before the refresh with the old one.  Every pool address is the
// only one of its /24 resp. /56 block, so the known block-cache finding does
// not enter.  The same events go to the Lean machine (Model/ECSRefresh.lean:
// rfnew/rfloc/rfstep/rflook/rfget/rffill/rfstate) and are compared.

import (
	"context"
	"fmt"
	"log/slog"
	"math/rand/v2"
	"net/netip"
	"os"
	"runtime"
	"sort"
	"strings"
	"sync"
	"time"

	"github.com/AdguardTeam/AdGuardDNS/internal/agdcache"
	"github.com/AdguardTeam/AdGuardDNS/internal/geoip"
	"github.com/AdguardTeam/AdGuardDNS/verifh/hlib"
	"github.com/AdguardTeam/golibs/container"
)

const (
	ptStarted   = "started"
	ptLoc4      = "loc4"
	ptLoc6      = "loc6"
	ptCtry4     = "ctry4"
	ptCtry6     = "ctry6"
	ptPreClear  = "preclear"
	ptPostClear = "postclear"
	ptFinished  = "finished"

	parkAfterGet  = "after-get"
	parkBeforeSet = "before-set"
)

var (
	racePointOfMsg = map[string]string{
		"refresh started":           ptStarted,
		"got ipv4 location subnets": ptLoc4,
		"got ipv6 location subnets": ptLoc6,
		"got ipv4 country subnets":  ptCtry4,
		"got ipv6 country subnets":  ptCtry6,
		"refresh finished":          ptFinished,
	}
	racePoints = []string{ptStarted, ptLoc4, ptLoc6, ptCtry4, ptCtry6, ptPreClear, ptPostClear, ptFinished}
	// raceStepsAt is how many actions of the refresher program of the model
	// (lock, swap, clear, unlock) have been done when a point is reached.
	raceStepsAt = map[string]int{ptStarted: 0, ptLoc4: 0, ptLoc6: 0, ptCtry4: 0, ptCtry6: 0, ptPreClear: 2, ptPostClear: 3, ptFinished: 4}
)

// raceWatchdog bounds the wait for another goroutine; it is reached only when
// the code under test deadlocks, never on a verdict path.
const raceWatchdog = 30 * time.Second

// raceFile is a geoip.File whose Refresh and Data calls can be interleaved
// deterministically.
type raceFile struct {
	f *geoip.File

	// mu guards the fields below.
	mu      sync.Mutex
	hook    func(pt string, lockFree bool)
	getHook func(hit bool)
	setHook func()
	lastHit bool

	// hookMu serialises the hook runs of the two scanning goroutines.
	hookMu sync.Mutex
}

type raceHandler struct{ rf *raceFile }

func (h raceHandler) Enabled(context.Context, slog.Level) bool { return true }
func (h raceHandler) WithAttrs([]slog.Attr) slog.Handler       { return h }
func (h raceHandler) WithGroup(string) slog.Handler            { return h }
func (h raceHandler) Handle(_ context.Context, r slog.Record) error {
	if pt, ok := racePointOfMsg[r.Message]; ok {
		h.rf.at(pt)
	}

	return nil
}

// raceCache is the IP location cache with the schedule points around its
// operations.
type raceCache struct {
	rf *raceFile
	in agdcache.Interface[any, *geoip.Location]
}

func (c raceCache) Set(k any, v *geoip.Location) {
	c.rf.mu.Lock()
	h := c.rf.setHook
	c.rf.setHook = nil
	c.rf.mu.Unlock()
	if h != nil {
		h()
	}
	c.in.Set(k, v)
}

func (c raceCache) SetWithExpire(k any, v *geoip.Location, d time.Duration) {
	c.in.SetWithExpire(k, v, d)
}

func (c raceCache) Get(k any) (v *geoip.Location, ok bool) {
	v, ok = c.in.Get(k)
	c.rf.mu.Lock()
	c.rf.lastHit = ok
	h := c.rf.getHook
	c.rf.getHook = nil
	c.rf.mu.Unlock()
	if h != nil {
		h(ok)
	}

	return v, ok
}

func (c raceCache) Clear() {
	c.rf.at(ptPreClear)
	c.in.Clear()
	c.rf.at(ptPostClear)
}

func (c raceCache) Len() int { return c.in.Len() }

// at runs the installed hook at a schedule point of Refresh.
func (rf *raceFile) at(pt string) {
	rf.mu.Lock()
	hook := rf.hook
	rf.mu.Unlock()
	if hook == nil {
		return
	}
	rf.hookMu.Lock()
	defer rf.hookMu.Unlock()
	lockFree := true
	if pt == ptPreClear || pt == ptPostClear {
		// In the code as written the caller holds the write lock here: a
		// look-up would wait for the end of Refresh.
		lockFree = geoip.VerifC05LockFree(rf.f)
	}
	hook(pt, lockFree)
}

// openRace writes the databases and returns an instrumented, refreshed File.
func openRace(db *geoDB, dir string) (rf *raceFile, err error) {
	asnPath, ctryPath := db.files(dir)
	rf = &raceFile{}
	rf.f = geoip.NewFile(&geoip.FileConfig{
		Logger:         slog.New(raceHandler{rf: rf}),
		CacheManager:   agdcache.EmptyManager{},
		AllTopASNs:     container.NewMapSet(db.AllTop...),
		CountryTopASNs: db.Top,
		ASNPath:        asnPath,
		CountryPath:    ctryPath,
		HostCacheCount: 0,
		IPCacheCount:   100,
	})
	geoip.VerifC05WrapIPCache(rf.f, func(c agdcache.Interface[any, *geoip.Location]) agdcache.Interface[any, *geoip.Location] {
		return raceCache{rf: rf, in: c}
	})

	return rf, rf.f.Refresh(context.Background())
}

// refresh runs Refresh with hook installed at its schedule points.
func (rf *raceFile) refresh(hook func(pt string, lockFree bool)) (err error) {
	rf.mu.Lock()
	rf.hook = hook
	rf.mu.Unlock()
	defer func() {
		rf.mu.Lock()
		rf.hook = nil
		rf.mu.Unlock()
	}()
	done := make(chan error, 1)
	go func() { done <- rf.f.Refresh(context.Background()) }()
	select {
	case err = <-done:
		return err
	case <-time.After(raceWatchdog):
		return errRaceDeadlock
	}
}

var errRaceDeadlock = fmt.Errorf("geoip.File.Refresh did not return within %s under the schedule", raceWatchdog)

// raceLoc is a location as three indices, the form the model prints.
func raceLoc(l *geoip.Location) string {
	if l == nil {
		return "nil"
	}

	return fmt.Sprintf("%d %d %d", idxOf(gdbCountries, l.Country), idxOf(gdbSubdivs, l.TopSubdivision), l.ASN)
}

func (db *geoDB) raceLoc(a netip.Addr) string {
	asn, ctry, sd, _ := db.lookup(a)

	return fmt.Sprintf("%d %d %d", idxOf(gdbCountries, ctry), idxOf(gdbSubdivs, sd), asn)
}

// raceLocText renders a location triple for a message.
func raceLocText(t string) string {
	var c, sd, asn int
	if _, err := fmt.Sscanf(t, "%d %d %d", &c, &sd, &asn); err != nil || c < 0 || c >= len(gdbCountries) || sd < 0 || sd >= len(gdbSubdivs) {
		return "(" + t + ")"
	}

	return fmt.Sprintf("(country %q, subdivision %q, ASN %d)", gdbCountries[c], gdbSubdivs[sd], asn)
}

// data is one Data call: the location and whether the cache answered.
func (rf *raceFile) data(a netip.Addr) (loc string, hit bool, err error) {
	l, err := rf.f.Data("", a)
	rf.mu.Lock()
	hit = rf.lastHit
	rf.mu.Unlock()

	return raceLoc(l), hit, err
}

// parked is a look-up started on its own goroutine and parked inside Data.
type parked struct {
	addr    netip.Addr
	at      string
	didPark bool
	parkCh  chan struct{}
	release chan struct{}
	done    chan struct{}
	loc     string
	hit     bool
	err     error
}

// startParked starts Data(a) and returns when it has parked at the point or
// has returned without reaching it.
func (rf *raceFile) startParked(a netip.Addr, at string) (p *parked, err error) {
	p = &parked{addr: a, at: at, parkCh: make(chan struct{}), release: make(chan struct{}), done: make(chan struct{})}
	park := func() {
		p.didPark = true
		close(p.parkCh)
		<-p.release
	}
	rf.mu.Lock()
	switch at {
	case parkAfterGet:
		rf.getHook = func(hit bool) {
			if !hit {
				park()
			}
		}
	case parkBeforeSet:
		rf.setHook = func() {
			if geoip.VerifC05LockFree(rf.f) {
				park()
			}
		}
	}
	rf.mu.Unlock()
	go func() {
		p.loc, p.hit, p.err = rf.data(a)
		close(p.done)
	}()
	select {
	case <-p.parkCh:
	case <-p.done:
	case <-time.After(raceWatchdog):
		err = fmt.Errorf("geoip.File.Data(%s) neither returned nor reached %s within %s", a, at, raceWatchdog)
	}
	rf.mu.Lock()
	rf.getHook, rf.setHook = nil, nil
	rf.mu.Unlock()

	return p, err
}

// finish releases a parked look-up and waits for its result.
func (p *parked) finish() (err error) {
	if !p.didPark {
		<-p.done

		return nil
	}
	if p.release != nil {
		close(p.release)
	}
	select {
	case <-p.done:
		// A look-up that parked had missed the cache.
		p.hit = false

		return nil
	case <-time.After(raceWatchdog):
		return fmt.Errorf("geoip.File.Data(%s) did not return within %s after Refresh", p.addr, raceWatchdog)
	}
}

// curGID is the number of the calling goroutine as the runtime prints it.
func curGID() string {
	var b [64]byte
	n := runtime.Stack(b[:], false)
	f := strings.Fields(string(b[:n]))
	if len(f) < 2 {
		return "?"
	}

	return f[1]
}

// waitBlockedInRLock returns true once goroutine gid is waiting inside
// sync.RWMutex.RLock (the wait reason the runtime reports), false if done is
// closed first or the state could not be observed.  Only the duration of the
// wait depends on timing, not its outcome.
func waitBlockedInRLock(gid string, done chan struct{}) (blocked bool) {
	head := "goroutine " + gid + " [sync.RWMutex.RLock"
	buf := make([]byte, 1<<20)
	deadline := time.Now().Add(raceWatchdog / 6)
	for time.Now().Before(deadline) {
		select {
		case <-done:
			return false
		default:
		}
		n := runtime.Stack(buf, true)
		if strings.Contains(string(buf[:n]), head) {
			return true
		}
		runtime.Gosched()
		time.Sleep(20 * time.Microsecond)
	}

	return false
}

// startBlocked starts Data(a) at a moment when the write lock is held.  A
// cache hit returns at once; a miss goes on to the read lock and waits there,
// exactly as a request arriving at that moment would: it is woken by the
// Unlock that ends the critical section, before any later Lock can be taken
// (sync.RWMutex admits the readers that were waiting first).
func (rf *raceFile) startBlocked(a netip.Addr) (w *parked, observed bool, err error) {
	w = &parked{addr: a, at: "read-lock", parkCh: make(chan struct{}), done: make(chan struct{})}
	var gid string
	rf.mu.Lock()
	rf.getHook = func(hit bool) {
		if !hit {
			gid = curGID()
			w.didPark = true
			close(w.parkCh)
		}
	}
	rf.mu.Unlock()
	go func() {
		w.loc, w.hit, w.err = rf.data(a)
		close(w.done)
	}()
	select {
	case <-w.parkCh:
		observed = waitBlockedInRLock(gid, w.done)
	case <-w.done:
	case <-time.After(raceWatchdog):
		err = fmt.Errorf("geoip.File.Data(%s) neither returned nor missed the cache within %s", a, raceWatchdog)
	}
	rf.mu.Lock()
	rf.getHook = nil
	rf.mu.Unlock()

	return w, observed, err
}

// ---------------------------------------------------------------------------
// Schedules.

type raceParkSpec struct {
	Addr netip.Addr `json:"address"`
	At   string     `json:"parked_at"`
}

type raceSchedule struct {
	// FailNew, if not empty, makes the refresh fail: "truncated-asn" /
	// "truncated-country" (the new file is cut in the middle: it cannot be
	// opened) or "bad-country-code" (a network of the new country file has a
	// country code that does not exist: the scan fails after both files have
	// been opened).  Refresh must return an error and Data must go on
	// answering from the old databases.
	FailNew string                  `json:"new_databases_unusable,omitempty"`
	Before  []netip.Addr            `json:"lookups_before_refresh"`
	Parked  *raceParkSpec           `json:"lookup_in_flight_across_refresh,omitempty"`
	During  map[string][]netip.Addr `json:"lookups_during_refresh_by_point"`
	After   []netip.Addr            `json:"lookups_after_refresh"`
}

func (s *raceSchedule) canon() string {
	var b strings.Builder
	if s.FailNew != "" {
		fmt.Fprintf(&b, "new databases %s; ", s.FailNew)
	}
	fmt.Fprintf(&b, "before %v;", s.Before)
	if s.Parked != nil {
		fmt.Fprintf(&b, " parked %s %s;", s.Parked.Addr, s.Parked.At)
	}
	for _, pt := range racePoints {
		if len(s.During[pt]) > 0 {
			fmt.Fprintf(&b, " %s %v;", pt, s.During[pt])
		}
	}
	fmt.Fprintf(&b, " after %v", s.After)

	return b.String()
}

// raceEvent is one observed look-up (or a scheduled one that was blocked).
type raceEvent struct {
	Phase   string     `json:"phase"` // before | during | unblocked | in-flight-start | in-flight-end | after | point
	Point   string     `json:"point,omitempty"`
	Addr    netip.Addr `json:"address"`
	Blocked bool       `json:"blocked_by_write_lock,omitempty"`
	Hit     bool       `json:"cache_hit,omitempty"`
	Loc     string     `json:"location_country_subdivision_asn,omitempty"`
	Err     string     `json:"error,omitempty"`
	// LockFree is what the probe said at preclear/postclear.
	LockFree bool `json:"lock_free,omitempty"`
	// Unobserved: the look-up missed the cache while the lock was held, but the
	// runtime did not show it waiting in RLock (its result is then judged as
	// that of a look-up during the refresh, and not compared with the model).
	Unobserved bool `json:"wait_not_observed,omitempty"`
}

func (e *raceEvent) text() string {
	switch {
	case e.Blocked:
		return "blocked"
	case e.Err != "":
		return "err " + e.Err
	case e.Hit:
		return "hit " + e.Loc
	default:
		return "loc " + e.Loc
	}
}

// blockKey is ipToCacheKey as the documentation has it.
func blockKey(a netip.Addr) netip.Prefix {
	a = a.Unmap()
	bits := 56
	if a.Is4() {
		bits = 24
	}
	p, _ := a.Prefix(bits)

	return p
}

// racePool is one address per /24 resp. /56 block: inside every network of
// either database pair, plus two addresses outside all of them.
func racePool(dbs ...*geoDB) (pool []netip.Addr) {
	seen := map[netip.Prefix]bool{}
	add := func(a netip.Addr) {
		if k := blockKey(a); !seen[k] {
			seen[k] = true
			pool = append(pool, a)
		}
	}
	for _, db := range dbs {
		for _, n := range db.ASNNets {
			add(n.P.Addr())
		}
		for _, n := range db.CtryNets {
			add(n.P.Addr())
		}
	}
	add(netip.MustParseAddr("203.0.113.9"))
	add(netip.MustParseAddr("2001:db8::1"))

	return pool
}

// movedFirst orders pool so that addresses whose location differs between the
// two database pairs come first.
func movedFirst(pool []netip.Addr, db1, db2 *geoDB) (out []netip.Addr, moved int) {
	var rest []netip.Addr
	for _, a := range pool {
		if db1.raceLoc(a) != db2.raceLoc(a) {
			out = append(out, a)
		} else {
			rest = append(rest, a)
		}
	}

	return append(out, rest...), len(out)
}

func genRaceSchedule(rng *rand.Rand, pool []netip.Addr, moved int) (s *raceSchedule) {
	s = &raceSchedule{During: map[string][]netip.Addr{}}
	// Mostly addresses that the refresh moves.
	pickAddr := func() netip.Addr {
		if moved > 0 && rng.IntN(4) != 0 {
			return pool[rng.IntN(moved)]
		}

		return pick(rng, pool)
	}
	for i, n := 0, rng.IntN(4); i < n; i++ {
		s.Before = append(s.Before, pickAddr())
	}
	if rng.IntN(3) == 0 {
		s.Parked = &raceParkSpec{Addr: pickAddr(), At: parkAfterGet}
		if rng.IntN(2) == 0 {
			s.Parked.At = parkBeforeSet
		}
	}
	if rng.IntN(8) == 0 {
		s.FailNew = pick(rng, []string{"truncated-asn", "truncated-country", "bad-country-code"})
	}
	// One to three points with one or two look-ups each; every point is used.
	for i, n := 0, 1+rng.IntN(3); i < n; i++ {
		pt := pick(rng, racePoints)
		for j, k := 0, 1+rng.IntN(2); j < k; j++ {
			s.During[pt] = append(s.During[pt], pickAddr())
		}
	}
	// Afterwards every address that was touched, and some others.
	seen := map[netip.Addr]bool{}
	add := func(a netip.Addr) {
		if !seen[a] {
			seen[a] = true
			s.After = append(s.After, a)
		}
	}
	for _, a := range s.Before {
		add(a)
	}
	if s.Parked != nil {
		add(s.Parked.Addr)
	}
	for _, pt := range racePoints {
		for _, a := range s.During[pt] {
			add(a)
		}
	}
	for i := 0; i < 2; i++ {
		add(pickAddr())
	}
	rng.Shuffle(len(s.After), func(i, j int) { s.After[i], s.After[j] = s.After[j], s.After[i] })

	return s
}

// writeNew writes the files of db, damaged as fail says.
func writeNew(db *geoDB, dir, fail string) {
	switch fail {
	case "":
		db.files(dir)
	case "bad-country-code":
		bad := *db
		bad.CtryNets = append([]gdbCtryNet{}, db.CtryNets...)
		if len(bad.CtryNets) == 0 {
			bad.CtryNets = []gdbCtryNet{{P: netip.MustParsePrefix("99.0.0.0/8")}}
		}
		bad.CtryNets[len(bad.CtryNets)/2].Ctry = "QQQ"
		bad.files(dir)
	default:
		asnPath, ctryPath := db.files(dir)
		path := asnPath
		if fail == "truncated-country" {
			path = ctryPath
		}
		b, err := os.ReadFile(path)
		hlib.Must(err)
		hlib.Must(os.WriteFile(path, b[:len(b)/2], 0o600))
	}
}

// runRaceSchedule performs s on rf (open over the old databases); the new
// databases are written to dir right before Refresh.
func runRaceSchedule(rf *raceFile, db2 *geoDB, dir string, s *raceSchedule) (evs []raceEvent, refreshErr, otherErr error) {
	look := func(phase, pt string, a netip.Addr) {
		loc, hit, err := rf.data(a)
		e := raceEvent{Phase: phase, Point: pt, Addr: a, Hit: hit, Loc: loc}
		if err != nil {
			e.Err, e.Loc = err.Error(), ""
		}
		evs = append(evs, e)
	}
	for _, a := range s.Before {
		look("before", "", a)
	}
	var p *parked
	if s.Parked != nil {
		p, otherErr = rf.startParked(s.Parked.Addr, s.Parked.At)
		if otherErr != nil {
			return evs, nil, otherErr
		}
		e := raceEvent{Phase: "in-flight-start", Point: s.Parked.At, Addr: p.addr}
		if !p.didPark {
			// It ran to completion before the refresh.
			e.Hit, e.Loc = p.hit, p.loc
			if p.err != nil {
				e.Err, e.Loc = p.err.Error(), ""
			}
		}
		evs = append(evs, e)
	}
	writeNew(db2, dir, s.FailNew)
	// A look-up scheduled where the write lock is held runs on its own goroutine
	// (startBlocked); those that wait for the lock are collected when Refresh
	// says it has finished (the lock has been released by then).
	var waiting []*parked
	var hookErr error
	drain := func() {
		for _, w := range waiting {
			if err := w.finish(); err != nil {
				hookErr = err

				continue
			}
			e := raceEvent{Phase: "unblocked", Addr: w.addr, Loc: w.loc}
			if w.err != nil {
				e.Err, e.Loc = w.err.Error(), ""
			}
			evs = append(evs, e)
		}
		waiting = nil
	}
	refreshErr = rf.refresh(func(pt string, lockFree bool) {
		if pt == ptPreClear || pt == ptPostClear {
			evs = append(evs, raceEvent{Phase: "point", Point: pt, LockFree: lockFree})
		}
		if pt == ptFinished {
			drain()
		}
		for _, a := range s.During[pt] {
			if lockFree {
				look("during", pt, a)

				continue
			}
			w, observed, err := rf.startBlocked(a)
			switch {
			case err != nil:
				hookErr = err
			case w.didPark:
				evs = append(evs, raceEvent{Phase: "during", Point: pt, Addr: a, Blocked: true, Unobserved: !observed})
				waiting = append(waiting, w)
			default:
				e := raceEvent{Phase: "during", Point: pt, Addr: a, Hit: w.hit, Loc: w.loc}
				if w.err != nil {
					e.Err, e.Loc = w.err.Error(), ""
				}
				evs = append(evs, e)
			}
		}
	})
	if refreshErr != errRaceDeadlock {
		drain()
	}
	if refreshErr == errRaceDeadlock || hookErr != nil {
		return evs, refreshErr, hookErr
	}
	if refreshErr != nil {
		// The look-ups go on against the File as the failed refresh left it.
		if p != nil && p.didPark {
			if otherErr = p.finish(); otherErr != nil {
				return evs, refreshErr, otherErr
			}
			e := raceEvent{Phase: "in-flight-end", Point: p.at, Addr: p.addr, Loc: p.loc}
			if p.err != nil {
				e.Err, e.Loc = p.err.Error(), ""
			}
			evs = append(evs, e)
		}
		for _, a := range s.After {
			look("after-failed-refresh", "", a)
		}

		return evs, refreshErr, nil
	}
	if p != nil && p.didPark {
		if otherErr = p.finish(); otherErr != nil {
			return evs, nil, otherErr
		}
		e := raceEvent{Phase: "in-flight-end", Point: p.at, Addr: p.addr, Loc: p.loc}
		if p.err != nil {
			e.Err, e.Loc = p.err.Error(), ""
		}
		evs = append(evs, e)
	}
	for _, a := range s.After {
		look("after", "", a)
	}

	return evs, nil, nil
}

type raceReplay struct {
	DB1      *geoDB        `json:"databases_before_refresh"`
	DB2      *geoDB        `json:"databases_after_refresh"`
	Schedule *raceSchedule `json:"schedule"`
	Observed []raceEvent   `json:"observed"`
	Note     string        `json:"note,omitempty"`
}

// raceOracle judges the observed look-ups against the two database pairs; the
// model is not consulted.
func raceOracle(r *hlib.Result, db1, db2 *geoDB, s *raceSchedule, evs []raceEvent) {
	rep := raceReplay{DB1: db1, DB2: db2, Schedule: s, Observed: evs,
		Note: "points: started, loc4/loc6/ctry4/ctry6 (the debug records after the scans), preclear/postclear (around ipCache.Clear), finished"}
	for i := range evs {
		e := &evs[i]
		if e.Phase == "point" || e.Blocked || (e.Phase == "in-flight-start" && e.Loc == "" && e.Err == "") {
			continue
		}
		if e.Err != "" {
			r.Violate("geoip-lookup-failed", fmt.Sprintf("geoip.File.Data(%s) (%s %s): %s", e.Addr, e.Phase, e.Point, e.Err), rep)

			continue
		}
		old, new_ := db1.raceLoc(e.Addr), db2.raceLoc(e.Addr)
		switch {
		case e.Phase == "after" && e.Loc != new_ && e.Loc == old:
			r.Violate("geoip-stale-location-after-refresh", fmt.Sprintf(
				"geoip.File.Data(%s), called after Refresh had returned, answered %s: that is the location in the REPLACED databases; "+
					"the databases in place say %s (look-up number %d of the observed list; cache hit: %v); ratelimitmw puts this location into the request "+
					"and ecscache sends the subnet of that country/ASN upstream", e.Addr, raceLocText(e.Loc), raceLocText(new_), i, e.Hit), rep)
		case e.Phase == "after-failed-refresh" && e.Loc != old:
			r.Violate("geoip-location-changed-by-failed-refresh", fmt.Sprintf(
				"geoip.File.Refresh failed (new databases: %s), yet geoip.File.Data(%s) afterwards answered %s; the databases that are still in force say %s",
				s.FailNew, e.Addr, raceLocText(e.Loc), raceLocText(old)), rep)
		case e.Phase == "before" && e.Loc != old:
			r.Violate("geoip-location-not-from-database", fmt.Sprintf("geoip.File.Data(%s) before the refresh answered %s, the databases say %s", e.Addr, raceLocText(e.Loc), raceLocText(old)), rep)
		case e.Loc != old && e.Loc != new_:
			r.Violate("geoip-location-from-neither-database", fmt.Sprintf("geoip.File.Data(%s) (%s %s) answered %s; the old databases say %s, the new ones %s",
				e.Addr, e.Phase, e.Point, raceLocText(e.Loc), raceLocText(old), raceLocText(new_)), rep)
		}
		if e.Phase == "after" && old != new_ {
			r.Count("georace.after_lookup_of_moved_address")
		}
		if e.Phase == "during" {
			r.Count("georace.during." + e.Point)
		}
		if e.Phase == "unblocked" {
			r.Count("georace.unblocked_by_unlock")
		}
	}
}

// raceModelLines turns the observed events into ops of the Lean machine and
// the answers expected from it.
func raceModelLines(db1, db2 *geoDB, pool []netip.Addr, evs []raceEvent, failedRefresh bool) (lines, want []string, orderBroken string) {
	put := func(l, w string) { lines, want = append(lines, l), append(want, w) }
	put("rfnew 1", "ok")
	for _, a := range pool {
		put(fmt.Sprintf("rfloc old %d %s %s", famOf(a), addrNat(a), db1.raceLoc(a)), "ok")
		put(fmt.Sprintf("rfloc new %d %s %s", famOf(a), addrNat(a), db2.raceLoc(a)), "ok")
	}
	steps, failed := 0, failedRefresh
	if failed {
		// The refresher never reaches its critical section.
		put("rffail", "ok")
	}
	names := []string{"lock", "swap", "clear", "unlock"}
	advance := func(to int, what string) {
		if failed {
			// The failed refresh never enters its critical section.
			to = 0
		}
		if to < steps && orderBroken == "" {
			orderBroken = fmt.Sprintf("%s was reached after %d of the refresher's actions [lock swap clear unlock] were already due", what, steps)
		}
		for steps < to {
			put("rfstep", names[steps])
			steps++
		}
	}
	for i := range evs {
		e := &evs[i]
		key := fmt.Sprintf("%d %s", famOf(e.Addr), addrNat(e.Addr))
		switch e.Phase {
		case "before":
			put("rflook "+key, e.text())
		case "in-flight-start":
			switch {
			case e.Loc != "" || e.Err != "":
				put("rflook "+key, e.text())
			case e.Point == parkAfterGet:
				put("rfget "+key, "miss")
			default:
				// Parked before ipCache.Set with no lock held: the model's Data
				// stores under the lock; let it look the address up here.
				put("rflook "+key, "parked-outside-lock")
			}
		case "point":
			advance(raceStepsAt[e.Point], e.Point)
			put("rfstate", fmt.Sprintf("ver=new locked=%s left=%d", b01(!e.LockFree), 4-raceStepsAt[e.Point]))
		case "during":
			advance(raceStepsAt[e.Point], e.Point)
			put("rflook "+key, e.text())
		case "in-flight-end":
			advance(4, "the end of Refresh")
			put("rffill "+key, e.text())
		case "unblocked":
			// It had missed the cache while the lock was held.
			advance(4, "the end of the critical section")
			put("rffill "+key, e.text())
		case "after":
			advance(4, "the end of Refresh")
			put("rflook "+key, e.text())
		case "after-failed-refresh":
			put("rflook "+key, e.text())
		}
	}

	for _, pt := range []string{ptPreClear, ptPostClear} {
		if failedRefresh {
			break
		}
		n := 0
		for i := range evs {
			if evs[i].Phase == "point" && evs[i].Point == pt {
				n++
			}
		}
		if n != 1 && orderBroken == "" {
			orderBroken = fmt.Sprintf("point %s (ipCache.Clear) was reached %d times while Refresh was running, the model clears once", pt, n)
		}
	}

	return lines, want, orderBroken
}

// geoRaceCase: one pair of database pairs, one schedule.
func geoRaceCase(r *hlib.Result, m *hlib.Model, dir string, db1, db2 *geoDB, pool []netip.Addr, s *raceSchedule) {
	rf, err := openRace(db1, dir)
	if err != nil {
		r.Violate("geoip-refresh-failed", fmt.Sprintf("geoip.File.Refresh: %v", err), gdbReplay{DB: db1, Observed: err.Error()})

		return
	}
	evs, refreshErr, otherErr := runRaceSchedule(rf, db2, dir, s)
	rep := raceReplay{DB1: db1, DB2: db2, Schedule: s, Observed: evs}
	switch {
	case refreshErr == errRaceDeadlock || otherErr != nil:
		what := fmt.Sprint(otherErr)
		if otherErr == nil {
			what = refreshErr.Error()
		}
		r.Violate("geoip-refresh-lookup-deadlock", what, rep)

		return
	case refreshErr != nil && s.FailNew == "":
		r.Violate("geoip-refresh-failed", fmt.Sprintf("geoip.File.Refresh (second): %v", refreshErr), rep)

		return
	case refreshErr == nil && s.FailNew != "":
		r.Violate("geoip-refresh-accepted-unusable-databases", fmt.Sprintf("geoip.File.Refresh returned no error although the new databases are unusable (%s)", s.FailNew), rep)

		return
	}
	if s.FailNew != "" {
		r.Count("georace.failed_refresh." + s.FailNew)
	}
	// Property oracle first, on the observations alone.
	raceOracle(r, db1, db2, s, evs)
	// Correspondence with the machine.
	lines, want, orderBroken := raceModelLines(db1, db2, pool, evs, s.FailNew != "")
	got := m.Batch(lines)
	r.ModelOps += len(lines)
	unobserved := false
	for i := range evs {
		unobserved = unobserved || evs[i].Unobserved
	}
	if unobserved {
		r.Count("georace.wait_in_rlock_not_observed")
	} else if orderBroken != "" {
		r.Disagree("model-vs-impl-refresh-order", "schedule points of Refresh out of the model's order: "+orderBroken, rep)
	} else {
		for i := range lines {
			if got[i] != want[i] {
				r.Disagree("model-vs-impl-refresh-race", fmt.Sprintf("op %d %q: implementation %q, model %q", i, lines[i], want[i], got[i]), rep)

				break
			}
		}
	}
	nontrivial := false
	for i := range evs {
		if evs[i].Phase == "during" || evs[i].Phase == "in-flight-end" || evs[i].Phase == "unblocked" {
			nontrivial = true
		}
	}
	r.Case("georace|"+strings.Join(db1.modelLines(), ";")+"|"+strings.Join(db2.modelLines(), ";")+"|"+s.canon(), nontrivial)
	r.Count("georace.schedules")
	if s.Parked != nil {
		r.Count("georace.parked." + s.Parked.At)
	}
	r.Sample(map[string]any{"campaign": "geoip refresh race", "schedule": s.canon()}, 9)
}

// raceDBPair generates the databases before and after the refresh.
func raceDBPair(rng *rand.Rand) (db1, db2 *geoDB) {
	db1 = genGeoDB(rng)
	if rng.IntN(3) == 0 {
		db2 = genGeoDB(rng)
		db2.Top, db2.AllTop = db1.Top, db1.AllTop
	} else {
		db2 = relabel(rng, db1)
	}

	return db1, db2
}

// geoRaceCampaign: nDB pairs of database pairs, for each the fixed schedules
// (every point on its own, both park points) and nSched random ones.
func geoRaceCampaign(r *hlib.Result, m *hlib.Model, rng *rand.Rand, nDB, nSched int) {
	dir, err := os.MkdirTemp("", "c05georace")
	hlib.Must(err)
	defer func() { _ = os.RemoveAll(dir) }()
	systematic := false
	for i := 0; i < nDB; i++ {
		db1, db2 := raceDBPair(rng)
		pool, moved := movedFirst(racePool(db1, db2), db1, db2)
		sort.SliceStable(pool[:moved], func(a, b int) bool { return pool[a].Less(pool[b]) })
		if moved == 0 {
			r.Count("georace.pair_without_moved_address")
		}
		var scheds []*raceSchedule
		if !systematic && moved > 0 {
			systematic = true
			// Systematic part: a moved address (if any) looked up before, at one
			// point, and after; for every point and both park points.
			a := pool[0]
			for _, pt := range racePoints {
				scheds = append(scheds, &raceSchedule{Before: []netip.Addr{a}, During: map[string][]netip.Addr{pt: {a}}, After: []netip.Addr{a}})
			}
			for _, fail := range []string{"truncated-asn", "truncated-country", "bad-country-code"} {
				scheds = append(scheds, &raceSchedule{FailNew: fail, Before: []netip.Addr{a}, During: map[string][]netip.Addr{ptStarted: {a}, ptCtry4: {a}, ptFinished: {a}},
					After: pool[:min(len(pool), 4)]})
			}
			for _, at := range []string{parkAfterGet, parkBeforeSet} {
				scheds = append(scheds, &raceSchedule{Parked: &raceParkSpec{Addr: a, At: at}, During: map[string][]netip.Addr{}, After: []netip.Addr{a}})
			}
		}
		for j := 0; j < nSched; j++ {
			scheds = append(scheds, genRaceSchedule(rng, pool, moved))
		}
		for _, s := range scheds {
			geoRaceCase(r, m, dir, db1, db2, pool, s)
		}
	}
}
