package main

import (
	"context"
	"fmt"
	"math/rand/v2"
	"net/netip"
	"strings"

	"github.com/AdguardTeam/AdGuardDNS/internal/dnsserver"
	"github.com/AdguardTeam/AdGuardDNS/internal/geoip"
	"github.com/AdguardTeam/AdGuardDNS/verifh/hlib"
	"github.com/AdguardTeam/AdGuardDNS/verifh/hlib/stack"
	"github.com/miekg/dns"
)

// ---------------------------------------------------------------------------
// Overlapping requests.
//
// ServeDNS computes everything about a request (question, DO bit, mapped
// subnet, opt-out flag, family) before the upstream call and stores the answer
// after it.  Requests overlap in production, so whatever is computed before
// the call must belong to the call.  The schedule below is deterministic (no
// clocks): a group of requests is started one by one, each running on its own
// goroutine until it is parked inside the upstream handler (or returns without
// reaching it); then the upstream exchanges are completed one by one in another
// order, each request running to its end before the next is released.  Probe
// requests afterwards show what was stored under which key.

// concSchedule describes one overlapping execution of a scenario: requests
// [0, Prefix) run sequentially, [Prefix, Prefix+len(Begin)) overlap, the rest
// runs sequentially afterwards.  Begin and Finish are permutations of the
// overlapping group (offsets into it).
type concSchedule struct {
	Prefix int   `json:"sequential_prefix"`
	Begin  []int `json:"begin_order"`
	Finish []int `json:"finish_order"`
}

type concRunner struct {
	sc       *scenario
	st, twin *stack.Stack
	ups      []*dns.Msg
	twinUps  []*dns.Msg
	arrived  []chan struct{}
	rel      []chan struct{}
	done     []chan struct{}
	os       []obs
}

func newConcRunner(sc *scenario) (rn *concRunner) {
	n := len(sc.Reqs)
	rn = &concRunner{sc: sc, ups: make([]*dns.Msg, n), twinUps: make([]*dns.Msg, n), os: make([]obs, n)}
	for i := 0; i < n; i++ {
		rn.arrived = append(rn.arrived, make(chan struct{}))
		rn.rel = append(rn.rel, make(chan struct{}))
		rn.done = append(rn.done, make(chan struct{}))
	}
	g := &sc.Geo
	geoData := func(_ string, ip netip.Addr) (*geoip.Location, error) { return g.loc(ip), nil }
	rn.st = stack.New(&stack.Config{
		Cache:     cacheConfFromYAML(10000, 10000),
		GeoData:   geoData,
		GeoSubnet: g.subnet,
		Upstream: dnsserver.HandlerFunc(func(ctx context.Context, rw dnsserver.ResponseWriter, req *dns.Msg) error {
			idx := int(req.Id) - 1
			if idx < 0 || idx >= n {
				return fmt.Errorf("harness: upstream query with unknown id %d", req.Id)
			}
			if rn.ups[idx] == nil {
				rn.ups[idx] = req.Copy()
				close(rn.arrived[idx])
				<-rn.rel[idx]
			}
			switch rn.sc.Reqs[idx].Up.Kind {
			case 1:
				return nil
			case 2:
				return fmt.Errorf("scripted upstream failure")
			}

			return rw.WriteMsg(ctx, req, rn.sc.Reqs[idx].Up.answer(req, idx))
		}),
	})
	rn.twin = stack.New(&stack.Config{
		Cache:     cacheConfFromYAML(10, 10),
		GeoData:   geoData,
		GeoSubnet: g.subnet,
		Upstream: dnsserver.HandlerFunc(func(ctx context.Context, rw dnsserver.ResponseWriter, req *dns.Msg) error {
			if idx := int(req.Id) - 1; idx >= 0 && idx < n {
				rn.twinUps[idx] = req.Copy()
			}

			return rw.WriteMsg(ctx, req, upDesc{Ans: 1}.answer(req, 0))
		}),
	})

	return rn
}

// run serves request i on the calling goroutine and closes done[i].
func (rn *concRunner) run(i int) {
	defer close(rn.done[i])
	rd := &rn.sc.Reqs[i]
	remote := netip.AddrPortFrom(rd.Remote, 12345)
	local := netip.MustParseAddrPort("192.0.2.2:53")
	o := &rn.os[i]
	defer func() { o.Panic = recover() }()
	out := rn.st.Serve(context.Background(), &stack.Req{Server: rn.st.Servers[0], Msg: rd.msg(uint16(i + 1)), Remote: remote, Local: local})
	o.Resp, o.Err = out.Resp, out.Err
}

func (rn *concRunner) sequential(i int) {
	close(rn.rel[i])
	rn.run(i)
}

func runConcurrent(sc *scenario, sch *concSchedule) (os []obs) {
	rn := newConcRunner(sc)
	for i := 0; i < sch.Prefix; i++ {
		rn.sequential(i)
	}
	for _, off := range sch.Begin {
		i := sch.Prefix + off
		go rn.run(i)
		select {
		case <-rn.arrived[i]:
		case <-rn.done[i]:
		}
	}
	for _, off := range sch.Finish {
		i := sch.Prefix + off
		close(rn.rel[i])
		<-rn.done[i]
	}
	for i := sch.Prefix + len(sch.Begin); i < len(sc.Reqs); i++ {
		rn.sequential(i)
	}
	for i := range sc.Reqs {
		o := &rn.os[i]
		o.UpCalled, o.UpReq = rn.ups[i] != nil, rn.ups[i]
		rd := &sc.Reqs[i]
		func() {
			defer func() { _ = recover() }()
			rn.twin.Serve(context.Background(), &stack.Req{Server: rn.twin.Servers[0], Msg: rd.msg(uint16(i + 1)),
				Remote: netip.AddrPortFrom(rd.Remote, 12345), Local: netip.MustParseAddrPort("192.0.2.2:53")})
		}()
		o.TwinUp = rn.twinUps[i]
	}

	return rn.os
}

// concLines renders the execution for the model: sequential requests are
// `req` lines; an overlapping request that reached the upstream is a `fin` line
// (completion of a request that missed earlier) at its position in the finish
// order; one that did not (cache hit, FORMERR, GeoIP error at its start) is a
// `req` line evaluated before any completion.  idx[j] is the request answered
// by line j of the request part.
func concLines(sc *scenario, sch *concSchedule, os []obs) (lines []string, idx []int) {
	all := sc.lines()
	lines = append(lines, all[:len(all)-len(sc.Reqs)]...)
	add := func(i int, op string) {
		lines = append(lines, op+strings.TrimPrefix(sc.Reqs[i].line(i), "req"))
		idx = append(idx, i)
	}
	for i := 0; i < sch.Prefix; i++ {
		add(i, "req")
	}
	for _, off := range sch.Begin {
		if i := sch.Prefix + off; !os[i].UpCalled {
			add(i, "req")
		}
	}
	for _, off := range sch.Finish {
		if i := sch.Prefix + off; os[i].UpCalled {
			add(i, "fin")
		}
	}
	for i := sch.Prefix + len(sch.Begin); i < len(sc.Reqs); i++ {
		add(i, "req")
	}

	return lines, idx
}

type concReplay struct {
	Scenario *scenario     `json:"scenario"`
	Schedule *concSchedule `json:"schedule"`
	Observed []string      `json:"observed"`
	Model    []string      `json:"model,omitempty"`
	Note     string        `json:"note"`
}

const concNote = "requests of the overlapping group are started in begin_order, each parked inside the upstream handler; " +
	"then their upstream exchanges complete in finish_order, one request running to its end at a time"

func runConcCase(r *hlib.Result, m *hlib.Model, sc *scenario, sch *concSchedule) {
	os := runConcurrent(sc, sch)
	seen := map[string]bool{}
	for _, v := range oracle(sc, os, r.Count) {
		if seen[v.sig] {
			continue
		}
		seen[v.sig] = true
		// Shrink the probes and the prefix away where possible; the overlapping
		// group stays.
		small, ssch := shrinkConc(sc, sch, v.sig)
		os2 := runConcurrent(small, ssch)
		what := v.what
		for _, v2 := range oracle(small, os2, func(string) {}) {
			if v2.sig == v.sig {
				what = v2.what

				break
			}
		}
		r.Violate(v.sig, "overlapping requests: "+what, concReplay{Scenario: small, Schedule: ssch, Observed: observedLines(os2), Note: concNote})
	}
	overl, hits := 0, 0
	for i := range os {
		inGroup := i >= sch.Prefix && i < sch.Prefix+len(sch.Begin)
		switch {
		case inGroup && os[i].UpCalled:
			overl++
			r.Count("conc.overlapping_exchange")
		case inGroup:
			r.Count("conc.overlapping_without_exchange")
		case os[i].Resp != nil && !os[i].UpCalled && os[i].Resp.Rcode != dns.RcodeFormatError && i >= sch.Prefix:
			hits++
			r.Count("conc.probe_hit")
		}
	}
	lines, idx := concLines(sc, sch, os)
	r.Case(strings.Join(lines, "\n"), overl >= 2 && hits > 0)
	r.Traces++
	m.ResetLog()
	answers := m.Batch(lines)
	r.ModelOps += len(lines)
	off := len(lines) - len(idx)
	for j, i := range idx {
		got, want := canonObs(&os[i]), answers[off+j]
		if got != want {
			r.Disagree("model-vs-impl-overlapping", fmt.Sprintf("request %d: implementation %q, model %q (op %q)", i, got, want, lines[off+j]),
				concReplay{Scenario: sc, Schedule: sch, Observed: observedLines(os), Model: answers[off:], Note: concNote})

			break
		}
	}
}

// shrinkConc drops sequential requests (prefix and probes) that are not needed
// for the violation sig.
func shrinkConc(sc *scenario, sch *concSchedule, sig string) (*scenario, *concSchedule) {
	k := len(sch.Begin)
	type item struct {
		rd  reqDesc
		pos int // 0 prefix, 1 group, 2 probe
	}
	var seq []item
	for i, rd := range sc.Reqs {
		switch {
		case i < sch.Prefix:
			seq = append(seq, item{rd, 0})
		case i >= sch.Prefix+k:
			seq = append(seq, item{rd, 2})
		}
	}
	build := func(sub []item) (*scenario, *concSchedule) {
		s2 := &scenario{Geo: sc.Geo}
		p := 0
		for _, it := range sub {
			if it.pos == 0 {
				s2.Reqs = append(s2.Reqs, it.rd)
				p++
			}
		}
		s2.Reqs = append(s2.Reqs, sc.Reqs[sch.Prefix:sch.Prefix+k]...)
		for _, it := range sub {
			if it.pos == 2 {
				s2.Reqs = append(s2.Reqs, it.rd)
			}
		}

		return s2, &concSchedule{Prefix: p, Begin: sch.Begin, Finish: sch.Finish}
	}
	kept := hlib.Shrink(seq, func(sub []item) bool {
		s2, sch2 := build(sub)

		return hasSig(oracle(s2, runConcurrent(s2, sch2), func(string) {}), sig)
	})

	return build(kept)
}

func genConcCase(rng *rand.Rand) (sc *scenario, sch *concSchedule) {
	if rng.IntN(4) == 0 {
		sc = genScenario(rng, 12)
	} else {
		sc = genPartitionScenario(rng)
	}
	n := len(sc.Reqs)
	p := rng.IntN(3)
	k := 2 + rng.IntN(3)
	if p+k > n {
		p, k = 0, min(k, n)
	}
	group := sc.Reqs[p : p+k]
	if rng.IntN(3) != 0 {
		// The overlapping requests ask the same question.
		for i := range group {
			group[i].Host, group[i].QType, group[i].QClass = group[0].Host, group[0].QType, group[0].QClass
		}
	}
	for i := range group {
		// Different clients where the pool allows it.
		if i > 0 && group[i].Remote == group[0].Remote && rng.IntN(2) == 0 {
			group[i].Remote = sc.Reqs[rng.IntN(n)].Remote
		}
	}
	// Probes: every overlapping request again, as is and without options.
	var probes []reqDesc
	for _, rd := range group {
		probes = append(probes, rd)
		bare := rd
		bare.RRs = nil
		probes = append(probes, bare)
	}
	rng.Shuffle(len(probes), func(i, j int) { probes[i], probes[j] = probes[j], probes[i] })
	sc.Reqs = append(append(append([]reqDesc{}, sc.Reqs[:p+k]...), probes...), sc.Reqs[p+k:]...)
	sch = &concSchedule{Prefix: p, Begin: rng.Perm(k), Finish: rng.Perm(k)}

	return sc, sch
}

func concCampaign(r *hlib.Result, m *hlib.Model, rng *rand.Rand, n int) {
	for i := 0; i < n; i++ {
		sc, sch := genConcCase(rng)
		runConcCase(r, m, sc, sch)
	}
	r.Count("conc.done")
}

// perms returns all permutations of 0..n-1.
func perms(n int) (ps [][]int) {
	var rec func(cur []int, used uint)
	rec = func(cur []int, used uint) {
		if len(cur) == n {
			ps = append(ps, append([]int{}, cur...))

			return
		}
		for i := 0; i < n; i++ {
			if used&(1<<i) == 0 {
				rec(append(cur, i), used|1<<i)
			}
		}
	}
	rec(nil, 0)

	return ps
}

// exhaustiveConc enumerates, for one question and a fixed GeoIP (two countries,
// two subnets), every group of k overlapping requests over 2 clients x {no ECS,
// ECS in AD, /0, ECS in US} with a scoping upstream, under every begin order and
// every finish order, each followed by the same probes.
func exhaustiveConc(r *hlib.Result, m *hlib.Model, k int) {
	c1, c2 := netip.MustParseAddr("192.0.2.1"), netip.MustParseAddr("198.51.100.7")
	a, b := netip.MustParsePrefix("1.2.3.0/24"), netip.MustParsePrefix("5.6.7.8/32")
	g := geoTab{
		Data: map[netip.Addr]locIdx{c1: {Ctry: 1}, c2: {Ctry: 2}, a.Addr(): {Ctry: 1}, b.Addr(): {Ctry: 2}},
		Sub: map[subKey]subVal{
			{Loc: locIdx{Ctry: 1}, Fam: 4}: {P: netip.MustParsePrefix("100.64.0.0/16")},
			{Loc: locIdx{Ctry: 2}, Fam: 4}: {P: netip.MustParsePrefix("100.65.1.0/24")},
		},
	}
	up := upDesc{HasOPT: true, Opts: []optDesc{ecsOptOf(netip.MustParsePrefix("100.64.0.0/16"), true, 16)}}
	var choices []reqDesc
	for _, cl := range []netip.Addr{c1, c2} {
		for e := 0; e < 4; e++ {
			rd := reqDesc{Remote: cl, QType: dns.TypeA, QClass: dns.ClassINET, Up: up}
			switch e {
			case 1:
				rd.RRs = []optRR{{Opts: []optDesc{ecsOptOf(a, true, 0)}}}
			case 2:
				rd.RRs = []optRR{{Opts: []optDesc{ecsOptOf(netip.MustParsePrefix("0.0.0.0/0"), true, 0)}}}
			case 3:
				rd.RRs = []optRR{{Opts: []optDesc{ecsOptOf(b, true, 0)}}}
			}
			choices = append(choices, rd)
		}
	}
	probes := []reqDesc{choices[0], choices[4], choices[2], choices[6]}
	n := len(choices)
	total := 1
	for i := 0; i < k; i++ {
		total *= n
	}
	ps := perms(k)
	for x := 0; x < total; x++ {
		var group []reqDesc
		for i, y := 0, x; i < k; i, y = i+1, y/n {
			group = append(group, choices[y%n])
		}
		for _, bo := range ps {
			for _, fo := range ps {
				sc := &scenario{Geo: g, Reqs: append(append([]reqDesc{}, group...), probes...)}
				runConcCase(r, m, sc, &concSchedule{Begin: bo, Finish: fo})
			}
		}
	}
	r.Count(fmt.Sprintf("conc.exhaustive_groups_of_%d_done", k))
}
