package main

// Round 4: what lies between the wire / the configuration file and ecscache.
//
//   - builderCampaign: the `cache` object of config.dist.yaml with every
//     combination of type / size / ecs_size through the real
//     cmd.cacheConfig.validate + toInternal (hook VerifC20…) and
//     dnssvc.NewHandlers; the same three clients ask; the oracle looks at what
//     reaches the upstream.  All other campaigns now also take their
//     dnssvc.CacheConfig from that path (cacheConfFromYAML).
//   - transportCampaign: hand-assembled query bytes (ECS option data of every
//     shape) through the real dnsserver.ServerDNS (UDP accept path) and the
//     real DoH handler in front of the production handler chain, with the
//     production cloner as the servers' disposer; the oracle parses the bytes
//     that come back with a parser of its own.

import (
	"bytes"
	"context"
	"fmt"
	"io"
	"net"
	"net/http"
	"net/http/httptest"
	"net/netip"
	"os"
	"path/filepath"
	"regexp"
	"strings"
	"sync"
	"time"

	"github.com/AdguardTeam/AdGuardDNS/internal/agd"
	"github.com/AdguardTeam/AdGuardDNS/internal/agdtest"
	"github.com/AdguardTeam/AdGuardDNS/internal/cmd"
	"github.com/AdguardTeam/AdGuardDNS/internal/dnsserver"
	"github.com/AdguardTeam/AdGuardDNS/internal/dnssvc"
	"github.com/AdguardTeam/AdGuardDNS/verifh/hlib"
	"github.com/AdguardTeam/AdGuardDNS/verifh/hlib/stack"
	"github.com/miekg/dns"
)

// ---------------------------------------------------------------------------
// The configuration file.

var (
	distOnce sync.Once
	distYAML string
	reType   = regexp.MustCompile(`(?m)^(cache:\n(?:.*\n)*?    type: )'[a-z]*'`)
	reSize   = regexp.MustCompile(`(?m)^(cache:\n(?:.*\n)*?    size: )-?\d+`)
	reESize  = regexp.MustCompile(`(?m)^(cache:\n(?:.*\n)*?    ecs_size: )-?\d+`)
	reTTLOv  = regexp.MustCompile(`(?m)^(cache:\n(?:.*\n)*?        enabled: )true`)

	confMu    sync.Mutex
	confCache = map[string]*builtConf{}
)

type builtConf struct {
	parseErr, validErr error
	conf               *dnssvc.CacheConfig
}

// cacheYAML is config.dist.yaml of the tree under test with the three scalars
// of the cache object replaced (TTL override off, as in the other campaigns).
func cacheYAML(typ string, size, ecsSize int) string {
	distOnce.Do(func() {
		b, err := os.ReadFile(filepath.Join(cmd.VerifC20RepoRoot(), "config.dist.yaml"))
		hlib.Must(err)
		distYAML = string(b)
		for _, re := range []*regexp.Regexp{reType, reSize, reESize, reTTLOv} {
			if !re.MatchString(distYAML) {
				panic("fixture: config.dist.yaml has no cache scalar matching " + re.String())
			}
		}
	})
	s := reType.ReplaceAllString(distYAML, "${1}'"+typ+"'")
	s = reSize.ReplaceAllString(s, fmt.Sprintf("${1}%d", size))
	s = reESize.ReplaceAllString(s, fmt.Sprintf("${1}%d", ecsSize))

	return reTTLOv.ReplaceAllString(s, "${1}false")
}

// buildCacheConf runs the real parser, validator and converter.
func buildCacheConf(typ string, size, ecsSize int) (bc *builtConf) {
	key := fmt.Sprintf("%s/%d/%d", typ, size, ecsSize)
	confMu.Lock()
	defer confMu.Unlock()
	if bc = confCache[key]; bc != nil {
		return bc
	}
	bc = &builtConf{}
	confCache[key] = bc
	v, err := cmd.VerifC20Parse([]byte(cacheYAML(typ, size, ecsSize)))
	if err != nil {
		bc.parseErr = err

		return bc
	}
	if bc.validErr = v.VerifC20Validate(); bc.validErr != nil {
		return bc
	}
	bc.conf = v.VerifC20Cache()

	return bc
}

// cacheConfFromYAML is the dnssvc.CacheConfig that the production builder
// derives from `cache: {type: ecs, size: noECSCount, ecs_size: ecsCount}`.
func cacheConfFromYAML(ecsCount, noECSCount int) *dnssvc.CacheConfig {
	bc := buildCacheConf("ecs", noECSCount, ecsCount)
	if bc.conf == nil {
		panic(fmt.Sprintf("fixture: cache {ecs %d %d} rejected: %v %v", noECSCount, ecsCount, bc.parseErr, bc.validErr))
	}
	cp := *bc.conf

	return &cp
}

type builderReplay struct {
	Cache    string   `json:"cache_object"`
	Requests []string `json:"requests"`
	Observed []string `json:"observed"`
	How      string   `json:"how"`
}

func builderCampaign(r *hlib.Result, m *hlib.Model) {
	geoSub := netip.MustParsePrefix("198.51.100.0/24")
	type ask struct {
		ecs string
	}
	asks := []ask{{"203.0.113.77/32"}, {""}, {"203.0.113.0/24"}, {"0.0.0.0/0"}}
	var lines, got, canon []string
	simpleBuilt := false
	for _, typ := range []string{"ecs", "simple", "other"} {
		for _, size := range []int{-1, 0, 1, 2, 100} {
			for _, esize := range []int{-1, 0, 1, 3, 100} {
				bc := buildCacheConf(typ, size, esize)
				tn := map[string]int{"simple": 0, "ecs": 1, "other": 2}[typ]
				lines = append(lines, fmt.Sprintf("wiring %d %d %d", tn, size, esize))
				desc := fmt.Sprintf("cache: {type: %s, size: %d, ecs_size: %d}", typ, size, esize)
				canon = append(canon, desc)
				switch {
				case bc.parseErr != nil:
					got = append(got, "parse-error")
					r.Count("builder.parse_error")

					continue
				case bc.validErr != nil:
					got = append(got, "invalid")
					r.Count("builder.invalid")

					continue
				}
				switch bc.conf.Type {
				case dnssvc.CacheTypeNone:
					got = append(got, "none")
				case dnssvc.CacheTypeSimple:
					got = append(got, fmt.Sprintf("simple %d", bc.conf.NoECSCount))
				case dnssvc.CacheTypeECS:
					got = append(got, fmt.Sprintf("ecs %d %d", bc.conf.NoECSCount, bc.conf.ECSCount))
				}
				r.Count("builder.kind." + strings.Fields(got[len(got)-1])[0])

				// The same clients through the chain built from this object.  (The
				// simple cache registers its metrics in the global registry: it can
				// be built once per process.)
				if bc.conf.Type == dnssvc.CacheTypeSimple {
					if simpleBuilt {
						continue
					}
					simpleBuilt = true
				}
				var ups []*dns.Msg
				cp := *bc.conf
				var st *stack.Stack
				func() {
					defer func() {
						if pv := recover(); pv != nil {
							st = nil
							r.Violate("builder-panic", fmt.Sprintf("%s passes validation, building the handler chain from it panics: %v", desc, pv),
								builderReplay{Cache: desc, How: "config.dist.yaml with these three scalars -> cmd validate + toInternal -> dnssvc.NewHandlers"})
						}
					}()
					st = builderStack(&cp, &ups)
				}()
				if st == nil {
					continue
				}
				var reqs, obsd []string
				var firstTok byte
				for i, a := range asks {
					q := (&dns.Msg{}).SetQuestion("a.example.", dns.TypeA)
					q.Id = uint16(i + 1)
					if a.ecs != "" {
						p := netip.MustParsePrefix(a.ecs)
						q.SetEdns0(1232, false)
						q.IsEdns0().Option = append(q.IsEdns0().Option, &dns.EDNS0_SUBNET{Code: dns.EDNS0SUBNET, Family: 1,
							SourceNetmask: uint8(p.Bits()), Address: p.Addr().AsSlice()})
					}
					reqs = append(reqs, fmt.Sprintf("192.0.2.1 asks a.example. A with ECS %q", a.ecs))
					nUp := len(ups)
					out := st.Serve(context.Background(), &stack.Req{Server: st.Servers[0], Msg: q,
						Remote: netip.MustParseAddrPort("192.0.2.1:1234"), Local: netip.MustParseAddrPort("192.0.2.2:53")})
					o := "no response"
					if out.Resp != nil {
						o = fmt.Sprintf("%s ecs=%s", rcodeOf(out.Resp), canonECS(ecsOnly(optRRsOf(out.Resp))))
						if len(out.Resp.Answer) == 1 {
							tok := out.Resp.Answer[0].(*dns.A).A.To4()[3]
							o += fmt.Sprintf(" answer#%d", tok)
							if i == 0 {
								firstTok = tok
							}
							// The first client's answer was fetched for its own /32.
							if i > 0 && tok == firstTok && len(ups) > 0 && len(ecsOnly(optRRsOf(ups[0]))) == 1 {
								if d := ecsOnly(optRRsOf(ups[0]))[0]; d.Mask == 32 {
									o += " (fetched for the first client's /32)"
								}
							}
						}
					}
					if len(ups) > nUp {
						es := ecsOnly(optRRsOf(ups[nUp]))
						o += " upstream-ecs=" + canonECS(es)
						for _, e := range es {
							p, ok := e.asPrefix()
							if ok && p != geoSub && p.Bits() != 0 {
								r.Count("builder.client_ecs_forwarded")
								if a.ecs != "" && p == netip.MustParsePrefix(a.ecs) {
									o += " (the client's own option)"
								}
							}
						}
					}
					obsd = append(obsd, o)
				}
				bad := false
				for i, o := range obsd {
					if strings.Contains(o, "(the client's own option)") || strings.Contains(o, "(fetched for the first client's /32)") {
						bad = true
					}
					// A valid option must be echoed (requests 0, 2, 3), no option must not be.
					if strings.HasPrefix(o, "NOERROR") && (asks[i].ecs != "") != !strings.Contains(o, "ecs=- ") {
						bad = true
					}
				}
				if bad {
					r.Violate("client-ecs-forwarded-without-ecs-cache",
						desc+" passes validation and builds a handler chain without ecscache: the client's own ECS option goes upstream verbatim"+
							" (and, with the simple cache, the answer fetched for it is served to every other client, valid options are not echoed)",
						builderReplay{Cache: desc, Requests: reqs, Observed: obsd,
							How: "config.dist.yaml with these three scalars -> cmd validate + toInternal -> dnssvc.NewHandlers; four requests for a.example. A from 192.0.2.1"})
				}
			}
		}
	}
	answers := m.Batch(lines)
	r.ModelOps += len(lines)
	for i := range lines {
		if answers[i] != got[i] {
			r.Disagree("builder-model-vs-impl", fmt.Sprintf("%s: builder %q, model %q", canon[i], got[i], answers[i]),
				map[string]any{"cache_object": canon[i], "op": lines[i]})

			break
		}
	}
	r.Case("builder\n"+strings.Join(lines, "\n"), true)
	r.Sample(map[string]any{"ops": lines[:4], "observed": got[:4]}, 6)
}

// builderStack builds the production chain for a cache configuration with a
// recording upstream that scopes its answer to the ECS option it receives.
func builderStack(cp *dnssvc.CacheConfig, upsp *[]*dns.Msg) *stack.Stack {
	return stack.New(&stack.Config{Cache: cp, Upstream: dnsserver.HandlerFunc(
		func(ctx context.Context, rw dnsserver.ResponseWriter, req *dns.Msg) error {
			*upsp = append(*upsp, req.Copy())
			resp := (&dns.Msg{}).SetReply(req)
			resp.Answer = append(resp.Answer, &dns.A{Hdr: dns.RR_Header{Name: req.Question[0].Name, Rrtype: dns.TypeA, Class: 1, Ttl: 300},
				A: net.IP{10, 0, 0, byte(len(*upsp))}})
			if o := req.IsEdns0(); o != nil {
				resp.SetEdns0(1232, false)
				for _, e := range o.Option {
					if sn, ok := e.(*dns.EDNS0_SUBNET); ok {
						c := *sn
						c.SourceScope = sn.SourceNetmask
						resp.IsEdns0().Option = append(resp.IsEdns0().Option, &c)
					}
				}
			}

			return rw.WriteMsg(ctx, req, resp)
		})})
}

// ---------------------------------------------------------------------------
// The wire.

type wirePC struct {
	in     []byte
	read   bool
	writes [][]byte
}

var (
	wireRemote = &net.UDPAddr{IP: net.IPv4(192, 0, 2, 1), Port: 1234}
	wireLocal  = &net.UDPAddr{IP: net.IPv4(192, 0, 2, 2), Port: 53}
)

func (c *wirePC) ReadFrom(p []byte) (int, net.Addr, error) {
	if c.read {
		return 0, nil, io.EOF
	}
	c.read = true

	return copy(p, c.in), wireRemote, nil
}

func (c *wirePC) WriteTo(p []byte, _ net.Addr) (int, error) {
	c.writes = append(c.writes, bytes.Clone(p))

	return len(p), nil
}
func (c *wirePC) Close() error                     { return nil }
func (c *wirePC) LocalAddr() net.Addr              { return wireLocal }
func (c *wirePC) SetDeadline(time.Time) error      { return nil }
func (c *wirePC) SetReadDeadline(time.Time) error  { return nil }
func (c *wirePC) SetWriteDeadline(time.Time) error { return nil }

// wireQuery assembles a query for name (one label + "example") of type A whose
// OPT RR holds one option 8 with the data opt.
func wireQuery(id uint16, label string, opt []byte) (b []byte) {
	b = []byte{byte(id >> 8), byte(id), 1, 0, 0, 1, 0, 0, 0, 0, 0, 1, byte(len(label))}
	b = append(b, label...)
	b = append(b, 7, 'e', 'x', 'a', 'm', 'p', 'l', 'e', 0, 0, 1, 0, 1)
	b = append(b, 0, 0, 41, 0x04, 0xd0, 0, 0, 0, 0, byte((len(opt)+4)>>8), byte(len(opt)+4), 0, 8, byte(len(opt)>>8), byte(len(opt)))

	return append(b, opt...)
}

// wireMsg is what the harness's own parser extracts from a DNS message.
type wireMsg struct {
	ok    bool
	rcode int
	ecs   [][]byte
}

func skipName(b []byte, i int) int {
	for i < len(b) {
		switch l := int(b[i]); {
		case l == 0:
			return i + 1
		case l&0xc0 == 0xc0:
			return i + 2
		default:
			i += 1 + l
		}
	}

	return len(b) + 1
}

func parseWire(b []byte) (w wireMsg) {
	if len(b) < 12 {
		return w
	}
	w.rcode = int(b[3] & 0x0f)
	qd := int(b[4])<<8 | int(b[5])
	rrs := (int(b[6])<<8 | int(b[7])) + (int(b[8])<<8 | int(b[9])) + (int(b[10])<<8 | int(b[11]))
	i := 12
	for ; qd > 0; qd-- {
		i = skipName(b, i) + 4
	}
	for ; rrs > 0; rrs-- {
		i = skipName(b, i)
		if i+10 > len(b) {
			return w
		}
		typ, rdlen := int(b[i])<<8|int(b[i+1]), int(b[i+8])<<8|int(b[i+9])
		if typ == 41 {
			// extended rcode: upper bits in the TTL's first octet
			w.rcode |= int(b[i+4]) << 4
		}
		i += 10
		if i+rdlen > len(b) {
			return w
		}
		if typ == 41 {
			for j := i; j+4 <= i+rdlen; {
				code, l := int(b[j])<<8|int(b[j+1]), int(b[j+2])<<8|int(b[j+3])
				if j+4+l > i+rdlen {
					return w
				}
				if code == 8 {
					w.ecs = append(w.ecs, bytes.Clone(b[j+4:j+4+l]))
				}
				j += 4 + l
			}
		}
		i += rdlen
	}
	w.ok = i == len(b)

	return w
}

// wireClass is the oracle's own reading of RFC 7871, section 6, on option
// data: "strict" (canon is what the echo must be), "lenient" (an address
// field of the wrong length or a non-zero scope in a query whose zero-filled
// address is otherwise fine: FORMERR or the echo of canon are both accepted),
// "malformed".
func wireClass(b []byte) (cls string, canon []byte) {
	if len(b) < 4 || b[0] != 0 || (b[1] != 1 && b[1] != 2) {
		return "malformed", nil
	}
	width := 32
	if b[1] == 2 {
		width = 128
	}
	m, sc, addr := int(b[2]), int(b[3]), b[4:]
	if m > width || sc > width {
		return "malformed", nil
	}
	full := make([]byte, width/8)
	copy(full, addr)
	for bit := m; bit < width; bit++ {
		if full[bit/8]&(0x80>>(bit%8)) != 0 {
			return "malformed", nil
		}
	}
	need := (m + 7) / 8
	canon = append([]byte{0, b[1], b[2], b[2]}, full[:need]...)
	for _, x := range addr[min(len(addr), width/8):] {
		if x != 0 {
			// octets after the end of an address of this family
			return "lenient-garbage", canon
		}
	}
	if len(addr) != need || sc != 0 {
		return "lenient", canon
	}

	return "strict", canon
}

func csv(b []byte) string {
	if len(b) == 0 {
		return "-"
	}
	s := make([]string, len(b))
	for i, x := range b {
		s[i] = fmt.Sprint(x)
	}

	return strings.Join(s, ",")
}

type wireEnv struct {
	st  *stack.Stack
	udp *dnsserver.ServerDNS
	doh http.Handler
	ups []*dns.Msg
}

func newWireEnv() (e *wireEnv) {
	e = &wireEnv{}
	cl := agdtest.NewCloner()
	e.st = stack.New(&stack.Config{
		Cloner:  cl,
		Cache:   cacheConfFromYAML(100, 100),
		Servers: []*agd.Server{stack.NewServer("verif_dns", agd.ProtoDNS, false), stack.NewServer("verif_doh", agd.ProtoDoH, false)},
		Upstream: dnsserver.HandlerFunc(func(ctx context.Context, rw dnsserver.ResponseWriter, req *dns.Msg) error {
			e.ups = append(e.ups, req.Copy())
			resp := (&dns.Msg{}).SetReply(req)
			resp.Answer = append(resp.Answer, &dns.A{Hdr: dns.RR_Header{Name: req.Question[0].Name, Rrtype: dns.TypeA, Class: 1, Ttl: 300}, A: net.IP{10, 0, 0, 1}})
			if o := req.IsEdns0(); o != nil && strings.HasPrefix(req.Question[0].Name, "s") {
				// a scoping authority
				resp.SetEdns0(1232, false)
				for _, x := range o.Option {
					if sn, ok := x.(*dns.EDNS0_SUBNET); ok {
						c := *sn
						c.SourceScope = sn.SourceNetmask
						resp.IsEdns0().Option = append(resp.IsEdns0().Option, &c)
					}
				}
			}

			return rw.WriteMsg(ctx, req, resp)
		}),
	})
	hk := func(i int) dnsserver.Handler {
		return e.st.Handlers[dnssvc.HandlerKey{Server: e.st.Servers[i], ServerGroup: e.st.Group}]
	}
	// As dnssvc.newServers does: the production cloner is the disposer.
	e.udp = dnsserver.NewServerDNS(dnsserver.ConfigDNS{ConfigBase: dnsserver.ConfigBase{Name: "verif_dns", Addr: "192.0.2.2:53", Handler: hk(0), Disposer: cl}})
	e.udp.VerifC01MarkStarted()
	doh := dnsserver.NewServerHTTPS(dnsserver.ConfigHTTPS{ConfigBase: dnsserver.ConfigBase{Name: "verif_doh", Addr: "192.0.2.2:443", Handler: hk(1), Disposer: cl}})
	e.doh = doh.VerifC01HTTPHandler(&net.TCPAddr{IP: net.IPv4(192, 0, 2, 2), Port: 443})

	return e
}

// send delivers one query over transport t and returns the DNS messages that
// came back (raw).
func (e *wireEnv) send(t string, q []byte) (msgs [][]byte, note string) {
	switch t {
	case "udp":
		c := &wirePC{in: q}
		if err := e.udp.VerifC01AcceptUDP(context.Background(), c); err != nil {
			note = "accept error: " + err.Error()
		}

		return c.writes, note
	default:
		rq := httptest.NewRequest(http.MethodPost, "https://dns.example/dns-query", bytes.NewReader(q))
		rq.Header.Set("Content-Type", dnsserver.MimeTypeDoH)
		rq.RemoteAddr = "192.0.2.1:1234"
		w := httptest.NewRecorder()
		e.doh.ServeHTTP(w, rq)
		if w.Code != http.StatusOK {
			return nil, fmt.Sprintf("http %d", w.Code)
		}

		return [][]byte{w.Body.Bytes()}, ""
	}
}

type wireReplay struct {
	Transport string   `json:"transport"`
	Option    string   `json:"ecs_option_data"`
	Query     string   `json:"query_hex"`
	Class     string   `json:"oracle_class"`
	Responses []string `json:"responses"`
	Note      string   `json:"note,omitempty"`
	How       string   `json:"how"`
}

// wireOptions enumerates option data.
func wireOptions(thorough bool) (opts [][]byte) {
	add := func(b ...byte) { opts = append(opts, b) }
	// truncated option data
	add()
	add(0)
	add(0, 1)
	add(0, 1, 0)
	add(0, 0, 0, 0) // dig +subnet=0
	add(0, 0, 8, 0, 1)
	add(0, 3, 24, 0, 1, 2, 3)
	add(1, 1, 24, 0, 1, 2, 3) // family 257
	type famSpec struct {
		fam    byte
		width  int
		masks  []int
		alens  []int
		scopes []int
	}
	specs := []famSpec{
		{1, 32, []int{0, 1, 7, 8, 9, 23, 24, 25, 31, 32, 33, 255}, []int{0, 1, 2, 3, 4, 5, 6}, []int{0, 24, 32, 33}},
		{2, 128, []int{0, 1, 48, 55, 56, 57, 64, 127, 128, 129}, []int{0, 6, 7, 8, 15, 16, 17}, []int{0, 56, 128, 129}},
	}
	if thorough {
		specs[0].masks = nil
		for m := 0; m <= 34; m++ {
			specs[0].masks = append(specs[0].masks, m)
		}
		specs[1].masks = nil
		for m := 0; m <= 130; m++ {
			specs[1].masks = append(specs[1].masks, m)
		}
	}
	for _, sp := range specs {
		for _, m := range sp.masks {
			for _, al := range sp.alens {
				for si, sc := range sp.scopes {
					if si > 0 && !(al == (min(m, sp.width)+7)/8 || al == sp.width/8) {
						continue
					}
					// address patterns: zeros; ones inside the prefix; ones
					// everywhere; one stray bit right after the prefix; one
					// stray bit in the last octet supplied.
					pats := [][]byte{make([]byte, al)}
					in := make([]byte, al)
					all := make([]byte, al)
					for bit := 0; bit < al*8; bit++ {
						all[bit/8] |= 0x80 >> (bit % 8)
						if bit < m {
							in[bit/8] |= 0x80 >> (bit % 8)
						}
					}
					pats = append(pats, in, all)
					if m < al*8 {
						st := bytes.Clone(in)
						st[m/8] |= 0x80 >> (m % 8)
						pats = append(pats, st)
					}
					if al > 0 && m < al*8-1 {
						st := bytes.Clone(in)
						st[al-1] |= 1
						pats = append(pats, st)
					}
					for _, p := range pats {
						opts = append(opts, append([]byte{0, sp.fam, byte(m), byte(sc)}, p...))
					}
				}
			}
		}
	}

	return opts
}

func transportCampaign(r *hlib.Result, m *hlib.Model, thorough bool) {
	e := newWireEnv()
	geo4, geo6 := []byte{0, 1, 24, 0, 198, 51, 100}, []byte{0, 2, 48, 0, 0x20, 1, 0x0d, 0xb8, 0, 0}
	opts := wireOptions(thorough)
	seen := map[string]bool{}
	var lines, want []string
	type rec struct {
		t, got string
		i      int
	}
	var recs []rec
	id := uint16(0)
	for i, opt := range opts {
		k := csv(opt)
		if seen[k] {
			continue
		}
		seen[k] = true
		lines = append(lines, "wire "+k)
		cls, canon := wireClass(opt)
		r.Count("wire.class." + cls)
		for ti, t := range []string{"udp", "doh"} {
			id++
			// Two names: "a…" is answered without ECS, "s…" with a scope; both
			// are asked again and again, so that hits and misses alternate.
			label := []string{"a", "s", "a-long-label-0123456789", "s-long-label-0123456789"}[(i+ti+2*(i/7%2))%4]
			q := wireQuery(id, label, opt)
			nUp := len(e.ups)
			var msgs [][]byte
			var note string
			func() {
				defer func() {
					if p := recover(); p != nil {
						note = fmt.Sprintf("panic: %v", p)
					}
				}()
				msgs, note = e.send(t, q)
			}()
			var texts []string
			var parsed []wireMsg
			for _, b := range msgs {
				w := parseWire(b)
				parsed = append(parsed, w)
				es := make([]string, len(w.ecs))
				for j, x := range w.ecs {
					es[j] = csv(x)
				}
				texts = append(texts, fmt.Sprintf("rcode %d ecs [%s] parsed=%v", w.rcode, strings.Join(es, " "), w.ok))
			}
			rp := wireReplay{Transport: t, Option: k, Query: fmt.Sprintf("%x", q), Class: cls, Responses: texts, Note: note,
				How: "the query bytes through the real dnsserver accept path (udp: ServerDNS.acceptUDPMsg; doh: the https handler, POST application/dns-message) " +
					"in front of dnssvc.NewHandlers with cache type ecs; client 192.0.2.1"}
			if strings.HasPrefix(note, "panic") {
				r.Violate("panic", "option data "+k+" over "+t+": "+note, rp)
			}
			got := "drop"
			switch {
			case len(parsed) == 0:
			case parsed[len(parsed)-1].rcode == dns.RcodeFormatError && len(parsed) == 1:
				got = "formerr"
			case parsed[0].rcode == dns.RcodeSuccess && len(parsed[0].ecs) == 1:
				got = "echo " + csv(parsed[0].ecs[0])
			default:
				got = "other " + strings.Join(texts, " | ")
			}
			recs = append(recs, rec{t, got, len(lines) - 1})
			r.Count("wire.outcome." + t + "." + strings.Fields(got)[0])

			// --- one query, at most one response
			if len(parsed) > 1 {
				r.Violate("formerr-followed-by-servfail", fmt.Sprintf("option data %s over %s: %d responses to one query: %s", k, t, len(parsed), strings.Join(texts, " | ")), rp)
			}
			first := wireMsg{rcode: -1}
			if len(parsed) > 0 {
				first = parsed[len(parsed)-1]
			}
			switch cls {
			case "malformed":
				switch {
				case len(parsed) == 0:
					r.Violate("wire-malformed-ecs-dropped", fmt.Sprintf("option data %s over %s: a malformed ECS option is not answered at all (%s)", k, t, note), rp)
				case first.rcode == dns.RcodeServerFailure && len(parsed) == 1:
					r.Violate("formerr-replaced-by-servfail", fmt.Sprintf("option data %s over %s: a malformed ECS option is answered with SERVFAIL", k, t), rp)
				case first.rcode != dns.RcodeFormatError:
					r.Violate("malformed-ecs-not-formerr", fmt.Sprintf("option data %s over %s: a malformed ECS option is answered with rcode %d", k, t, first.rcode), rp)
				}
				if len(e.ups) > nUp {
					r.Violate("malformed-ecs-reached-upstream", fmt.Sprintf("option data %s over %s: the query went upstream", k, t), rp)
				}
			case "strict":
				if len(parsed) != 1 || first.rcode != dns.RcodeSuccess {
					r.Violate("wellformed-ecs-not-answered", fmt.Sprintf("option data %s over %s: a well-formed ECS option is answered with %s %s", k, t, strings.Join(texts, " | "), note), rp)
				} else if len(first.ecs) != 1 || !bytes.Equal(first.ecs[0], canon) {
					r.Violate("ecs-echo-wrong-prefix", fmt.Sprintf("option data %s over %s: echo must be %s, response carries %s", k, t, csv(canon), strings.Join(texts, " | ")), rp)
				}
			default:
				// lenient: FORMERR, or the echo of the canonical form
				switch {
				case len(parsed) == 1 && first.rcode == dns.RcodeFormatError:
				case len(parsed) == 1 && first.rcode == dns.RcodeSuccess && len(first.ecs) == 1 && bytes.Equal(first.ecs[0], canon):
					r.Count("wire.lenient_accepted." + cls)
				default:
					r.Violate("noncanonical-ecs-answer", fmt.Sprintf("option data %s over %s: neither FORMERR nor the echo of %s: %s %s", k, t, csv(canon), strings.Join(texts, " | "), note), rp)
				}
			}
			// --- what left towards the upstream
			for _, up := range e.ups[nUp:] {
				pb, err := up.Pack()
				if err != nil {
					r.Violate("upstream-query-does-not-pack", err.Error(), rp)

					continue
				}
				uw := parseWire(pb)
				okUp := len(uw.ecs) == 1
				if okUp {
					x := uw.ecs[0]
					zero := len(x) == 4 && x[2] == 0 && x[3] == 0
					declined := len(opt) >= 4 && opt[2] == 0
					switch {
					case declined:
						okUp = zero
					default:
						okUp = zero || bytes.Equal(x, geo4) || bytes.Equal(x, geo6)
					}
				}
				if !okUp {
					es := make([]string, len(uw.ecs))
					for j, x := range uw.ecs {
						es[j] = csv(x)
					}
					r.Violate("upstream-ecs-not-geo-subnet", fmt.Sprintf("option data %s over %s: upstream query carries ECS [%s]", k, t, strings.Join(es, " ")), rp)
				}
				r.Count("wire.upstream_checked")
			}
		}
	}
	want = m.Batch(lines)
	r.ModelOps += len(lines)
	for _, rc := range recs {
		if rc.got != want[rc.i] {
			r.Disagree("wire-model-vs-impl", fmt.Sprintf("%s over %s: implementation %q, model %q", lines[rc.i], rc.t, rc.got, want[rc.i]),
				map[string]any{"op": lines[rc.i], "transport": rc.t, "implementation": rc.got, "model": want[rc.i]})

			break
		}
	}
	r.Case("wire\n"+strings.Join(lines, "\n"), true)
	r.Sample(map[string]any{"ops": lines[8:12], "model": want[8:12]}, 7)
}
