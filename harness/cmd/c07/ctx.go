package main

import (
	"fmt"
	"net/netip"
	"strings"

	"github.com/AdguardTeam/AdGuardDNS/internal/agd"
	"github.com/AdguardTeam/AdGuardDNS/internal/geoip"
	"github.com/AdguardTeam/AdGuardDNS/verifh/hlib"
	"github.com/miekg/dns"
)

// The pooled agd.RequestInfo against the Lean model of the pooled contexts
// (Model/PoolCtx.lean), op by op, on the sequential histories of the held
// campaign: every request is a program Get, fills, read, Put of the model, the
// fill of the message constructor being one with an error branch (BFill: the
// profile's constructor, or the server's when there is no profile or
// dnsmsg.NewConstructor fails).  What the model reads is compared with the
// fields of the RequestInfo that the real stack hands to the filter of the
// request.  The numbers of the fields are those of the struct (layouts_src).

// riFields are the fields compared: device result, location, client subnet,
// message constructor, remote address, host, question type and class.
var riFields = []int{0, 1, 2, 4, 6, 8, 10, 11}

func encLoc(l *geoip.Location) uint32 {
	if l == nil {
		return 0
	}
	for i, c := range geoCountries {
		if c == l.Country {
			return uint32(1+i)*100000 + uint32(l.ASN)
		}
	}

	return 99
}

func encSubnet(p netip.Prefix) uint32 { return 1 + nameHash(p.String())%1000000 }

// riObserved renders the fields of the RequestInfo of a request as the real
// stack has filled them (called at the FilterRequest hook).
func (f *fixture) riObserved(ri *agd.RequestInfo, msg *dns.Msg) (vals []uint32) {
	vals = make([]uint32, 0, len(riFields))
	prof, _ := ri.DeviceData()
	dev := uint32(0)
	if prof != nil {
		var n int
		if _, err := fmt.Sscanf(string(prof.ID), "prof%d", &n); err != nil {
			n = 9999
		}
		dev = uint32(1 + n)
	}
	ecs := uint32(0)
	if ri.ECS != nil {
		ecs = encSubnet(ri.ECS.Subnet)
	}
	ctor := uint32(0)
	if ri.Messages != nil {
		ctor = 1 + ri.Messages.NewAnswerCNAME(msg, "probe.").Hdr.Ttl
	}

	return append(vals, dev, encLoc(ri.Location), ecs, ctor, uint32(1+f.clientOf(ri.RemoteIP)), nameHash(ri.Host)%1000000,
		uint32(ri.QType), uint32(ri.QClass))
}

// riProgram is the program of request q for the model: the values are those of
// the request's own data (request table, fixture tables), nothing of the run.
func (f *fixture) riProgram(q sreq) (lines []string) {
	const r = 1
	set := func(field int, v uint32) { lines = append(lines, fmt.Sprintf("cset %d %d %d", r, field, v)) }
	lines = append(lines, fmt.Sprintf("cget %d 0", r))
	dev := uint32(0)
	if q.Client < nProfiles {
		dev = uint32(1 + q.Client)
	}
	set(0, dev)
	set(1, encLoc(f.geoData(f.ipOf(q.Client))))
	ecs := uint32(0)
	if q.EDNS >= 3 && q.EDNS <= 5 {
		own := q.ecs()
		addr, _ := netip.AddrFromSlice(own.Address)
		ecs = encSubnet(netip.PrefixFrom(addr.Unmap(), int(own.SourceNetmask)).Masked())
	}
	set(2, ecs)
	// The constructor: a fill with an error branch whose fallback is the
	// constructor of the server.
	ok, v := 0, uint32(0)
	if q.Client < nProfiles {
		v = uint32(1 + int64(profSpecs[q.Client].ttl.Seconds()))
		if !profSpecs[q.Client].ctorFails {
			ok = 1
		} else {
			// The value is never used; any number will do for the model.
			v = 0
		}
	}
	lines = append(lines, fmt.Sprintf("cfill %d 4 %d %d 1 %d", r, ok, v, 1+serverTTL))
	set(6, uint32(1+q.Client))
	set(8, nameHash(strings.ToLower(strings.TrimSuffix(q.Name, ".")))%1000000)
	set(10, uint32(q.Qtype))
	qc := uint32(dns.ClassINET)
	if q.Chaos {
		qc = dns.ClassCHAOS
	}
	set(11, qc)
	rd := fmt.Sprintf("cread %d", r)
	for _, fl := range riFields {
		rd += fmt.Sprintf(" %d", fl)
	}

	return append(lines, rd, fmt.Sprintf("cput %d", r))
}

// ctxCorrespondence runs the requests of a sequential history through the
// model and compares what the model reads with what the filters of the real
// stack were handed (f.riSeen).  Requests that never reach a filter (dropped,
// answered by the initial middleware, FORMERR, profile database down) still
// take a RequestInfo from the pool, fill it and put it back, in the model as in
// the code; there is nothing to compare for them.
func ctxCorrespondence(r *hlib.Result, m *hlib.Model, f *fixture, reqs []sreq, replay any) {
	const chunk, limit = 40, 160
	if len(reqs) > limit {
		reqs = reqs[:limit]
	}
	m.ResetLog()
	var lines []string
	readAt := map[int]int{}
	for i, q := range reqs {
		if i%chunk == 0 {
			// The heap of the model is a function table: keep it small.  Under
			// the discipline what a request reads does not depend on the history
			// (context_alone), so nothing is lost.
			lines = append(lines, "creset")
		}
		p := f.riProgram(q)
		readAt[i] = len(lines) + len(p) - 2
		lines = append(lines, p...)
	}
	ans := m.Batch(lines)
	r.ModelOps += len(lines)
	f.mu.Lock()
	seen := f.riSeen
	f.mu.Unlock()
	compared := 0
	for i, q := range reqs {
		obs, ok := seen[q.ID]
		if !ok {
			continue
		}
		compared++
		var sb []string
		for _, v := range obs {
			sb = append(sb, fmt.Sprint(v))
		}
		if got, want := strings.Join(sb, " "), ans[readAt[i]]; got != want {
			r.Disagree("request-info-model", fmt.Sprintf("request %+v (number %d of a sequential history): fields %v of its RequestInfo "+
				"at the filter are [%s], the model of the pooled contexts reads [%s]", q, i, riFields, got, want),
				map[string]any{"replay": replay, "model_ops": lines[:min(len(lines), readAt[i]+2)]})

			break
		}
	}
	r.Distribution["ctx.requests-compared-with-model"] += compared
	r.Distribution["ctx.requests-in-model"] += len(reqs)
}
