package main

import (
	"fmt"
	"hash/fnv"
	"net"
	"reflect"
	"sort"
	"strings"
	"unsafe"

	"github.com/miekg/dns"
)

// Pooling classes ("kinds") of the model; a kind is assigned by RR type AND
// section, because that is how Clone and Dispose decide.
const (
	kNone      = 0
	kBuf       = 1
	kOpt       = 2
	kUnkOpt    = 3
	kCookie    = 4
	kEDE       = 5
	kSubnet    = 6
	kMsg       = 7
	kA         = 10
	kAAAA      = 11
	kCNAME     = 12
	kHTTPS     = 13
	kMX        = 14
	kPTR       = 15
	kSRV       = 16
	kTXT       = 17
	kSOA       = 18
	kAlpn      = 20
	kDoHPath   = 21
	kECH       = 22
	kV4Hint    = 23
	kV6Hint    = 24
	kLocal     = 25
	kMandatory = 26
	kPort      = 27
)

// Kinds of the backing arrays of the slices a struct owns.  Such an array is an
// object of its own: len cells in use out of cap.
const (
	kArrQuestion = 30
	kArrAnswer   = 31
	kArrNs       = 32
	kArrExtra    = 33
	kArrOption   = 34
	kArrValue    = 35
	kArrTxt      = 36
	kArrAlpn     = 37
	kArrECH      = 38
	kArrData     = 39
	kArrCode     = 40
	kArrHint4    = 41
	kArrHint6    = 42
	kArrA        = 43
	kArrAAAA     = 44
	kArrAddr     = 45
)

// isArrKind reports whether k is a backing array whose recycling is not
// compared with the model (see props/C07.json): everything but the address
// buffers of the hints.
func isArrKind(k int) bool { return k >= kArrQuestion && k <= kArrAddr }

// objID names an object independently of where its storage is: the owning
// struct and a slot number.
type objID struct {
	p    uintptr
	slot int
}

// fobj is one object of the flattened message.
type fobj struct {
	kind int
	id   objID
	// addr is the identity of the storage: struct pointer or first byte of the
	// backing array (0 for an array without storage).
	addr uintptr
	// cp is the capacity in model cells.
	cp int
	// esz is the size of one cell in bytes for arrays, 0 for structs.
	esz  uintptr
	vals []uint64
	// poke mutates cell j of the real object so that its value changes.
	poke func(j int)
	// grow appends one element to the slice, the way its holder would.
	grow func(n uint64)
}

// use returns the bytes in use, reach the bytes reachable through the object.
func (o fobj) use() (lo, hi uintptr) {
	if o.addr == 0 {
		return 0, 0
	}
	if o.esz == 0 {
		return o.addr, o.addr + 1
	}

	return o.addr, o.addr + uintptr(len(o.vals))*o.esz
}

func (o fobj) reach() (lo, hi uintptr) {
	if o.addr == 0 {
		return 0, 0
	}
	if o.esz == 0 {
		return o.addr, o.addr + 1
	}

	return o.addr, o.addr + uintptr(o.cp)*o.esz
}

func h32(parts ...any) uint64 {
	h := fnv.New32a()
	_, _ = fmt.Fprint(h, parts...)

	return uint64(h.Sum32())
}

func hdrStr(h *dns.RR_Header) string {
	// Rdlength is bookkeeping of Unpack, not content.
	return fmt.Sprintf("%q/%d/%d/%d", h.Name, h.Rrtype, h.Class, h.Ttl)
}

// noNil removes the difference between a nil and an empty address in the
// text form; they are the same on the wire and dns.Copy does not keep it.
func noNil(s string) string { return strings.ReplaceAll(s, "<nil>", "") }

func ptrOf(p any) uintptr { return reflect.ValueOf(p).Pointer() }

const doBit = 1 << 15

// arr makes the object for the backing array of *sp, a slice field of the
// struct owner.
func arr[T any](kind int, owner any, slot int, sp *[]T, cell func(T) uint64, pokeEl func(*T), newEl func(n uint64) T) fobj {
	s := *sp
	o := fobj{kind: kind, id: objID{ptrOf(owner), slot}, cp: cap(s), esz: unsafe.Sizeof(*new(T)), vals: make([]uint64, len(s))}
	if cap(s) > 0 {
		o.addr = uintptr(unsafe.Pointer(unsafe.SliceData(s)))
	}
	for i, e := range s {
		o.vals[i] = cell(e)
	}
	if pokeEl != nil {
		o.poke = func(j int) { pokeEl(&(*sp)[j]) }
	}
	if newEl != nil {
		o.grow = func(n uint64) { *sp = append(*sp, newEl(n)) }
	}

	return o
}

func typeCell[T any](e T) uint64 { return h32(fmt.Sprintf("%T", e)) }
func byteCell(b byte) uint64     { return uint64(b) }
func strCell(s string) uint64    { return h32(s) }
func pokeByte(b *byte)           { *b ^= 0x5A }
func pokeStr(s *string)          { *s += "~" }
func newByte(n uint64) byte      { return byte(n) }
func newStr(n uint64) string     { return fmt.Sprintf("g%d", n%1000) }

// newRR is a record that somebody appends to a section of a message.
func newRR(section int, n uint64) dns.RR {
	name := names[n%uint64(len(names))]
	switch section*10 + int(n%3) {
	case 10:
		return &dns.A{Hdr: dns.RR_Header{Name: name, Rrtype: dns.TypeA, Class: dns.ClassINET, Ttl: uint32(n % 500)},
			A: net.IP{203, 0, 113, byte(n)}}
	case 11:
		return &dns.CNAME{Hdr: dns.RR_Header{Name: name, Rrtype: dns.TypeCNAME, Class: dns.ClassINET, Ttl: 5}, Target: "grown.example."}
	case 12:
		return &dns.TXT{Hdr: dns.RR_Header{Name: name, Rrtype: dns.TypeTXT, Class: dns.ClassINET, Ttl: 7}, Txt: []string{newStr(n)}}
	case 20, 21:
		return &dns.SOA{Hdr: dns.RR_Header{Name: name, Rrtype: dns.TypeSOA, Class: dns.ClassINET, Ttl: 9}, Ns: "ns.grown.", Mbox: "m.grown.",
			Serial: uint32(n)}
	case 22:
		return &dns.NS{Hdr: dns.RR_Header{Name: name, Rrtype: dns.TypeNS, Class: dns.ClassINET, Ttl: 9}, Ns: "ns.grown."}
	case 30:
		return &dns.A{Hdr: dns.RR_Header{Name: name, Rrtype: dns.TypeA, Class: dns.ClassINET, Ttl: 11}, A: net.IP{203, 0, 113, byte(n)}}
	default:
		// What Msg.SetEdns0 appends.
		opt := &dns.OPT{Hdr: dns.RR_Header{Name: ".", Rrtype: dns.TypeOPT}}
		opt.SetUDPSize(uint16(1200 + n%9))
		if n%2 == 0 {
			opt.SetDo()
		}

		return opt
	}
}

// newOption is an option that somebody appends to an OPT (ecscache.setECS,
// the constructors).
func newOption(n uint64) dns.EDNS0 {
	switch n % 3 {
	case 0:
		return &dns.EDNS0_SUBNET{Code: dns.EDNS0SUBNET, Family: 1, SourceNetmask: 24, SourceScope: uint8(n % 25),
			Address: net.IP{100, 64, byte(n >> 8), byte(n)}}
	case 1:
		return &dns.EDNS0_COOKIE{Code: dns.EDNS0COOKIE, Cookie: fmt.Sprintf("%016x", n)}
	default:
		return &dns.EDNS0_EDE{InfoCode: uint16(n % 30), ExtraText: newStr(n)}
	}
}

func newKV(n uint64) dns.SVCBKeyValue {
	if n%2 == 0 {
		return &dns.SVCBPort{Port: uint16(n)}
	}

	return &dns.SVCBAlpn{Alpn: []string{newStr(n)}}
}

// newHintIP has the capacity of the buffers the cloner itself makes.
func newHintIP(n uint64) net.IP {
	ip := make(net.IP, 4, 16)
	ip[0], ip[1], ip[2], ip[3] = 203, 0, byte(n>>8), byte(n)

	return ip
}

// flatten returns the objects of m in the order in which Clone visits them.
func flatten(m *dns.Msg) (objs []fobj) {
	objs = append(objs, fobj{kind: kMsg, id: objID{ptrOf(m), 0}, addr: ptrOf(m), cp: 1,
		vals: []uint64{h32(fmt.Sprintf("%+v", m.MsgHdr), m.Compress)}, poke: func(int) { m.Id++ }})
	objs = append(objs, arr(kArrQuestion, m, 1, &m.Question,
		func(q dns.Question) uint64 { return h32(fmt.Sprintf("%q/%d/%d", q.Name, q.Qtype, q.Qclass)) },
		func(q *dns.Question) { q.Qtype++ },
		func(n uint64) dns.Question {
			return dns.Question{Name: names[n%uint64(len(names))], Qtype: uint16(n % 70), Qclass: 1}
		}))
	objs = append(objs, arr(kArrAnswer, m, 2, &m.Answer, typeCell[dns.RR], nil, func(n uint64) dns.RR { return newRR(1, n) }))
	for _, rr := range m.Answer {
		objs = append(objs, flattenAnswer(rr)...)
	}
	objs = append(objs, arr(kArrNs, m, 3, &m.Ns, typeCell[dns.RR], nil, func(n uint64) dns.RR { return newRR(2, n) }))
	for _, rr := range m.Ns {
		if soa, ok := rr.(*dns.SOA); ok {
			objs = append(objs, fobj{kind: kSOA, id: objID{ptrOf(soa), 0}, addr: ptrOf(soa), cp: 1, vals: []uint64{h32(soa.String())},
				poke: func(int) { soa.Serial++ }})
		} else {
			objs = append(objs, plain(rr))
		}
	}
	objs = append(objs, arr(kArrExtra, m, 4, &m.Extra, typeCell[dns.RR], nil, func(n uint64) dns.RR { return newRR(3, n) }))
	for _, rr := range m.Extra {
		if opt, ok := rr.(*dns.OPT); ok {
			objs = append(objs, flattenOPT(opt)...)
		} else {
			objs = append(objs, plain(rr))
		}
	}

	return objs
}

// plain is an RR that is cloned with dns.Copy and never put into a pool.
func plain(rr dns.RR) fobj {
	return fobj{kind: kNone, id: objID{ptrOf(rr), 0}, addr: ptrOf(rr), cp: 1,
		vals: []uint64{h32(hdrStr(rr.Header()), noNil(rr.String()))}, poke: func(int) { rr.Header().Ttl++ }}
}

func flattenAnswer(rr dns.RR) (objs []fobj) {
	one := func(k int, parts ...any) []fobj {
		return []fobj{{kind: k, id: objID{ptrOf(rr), 0}, addr: ptrOf(rr), cp: 1,
			vals: []uint64{h32(append([]any{hdrStr(rr.Header())}, parts...)...)}, poke: func(int) { rr.Header().Ttl++ }}}
	}
	switch rr := rr.(type) {
	case *dns.A:
		return append(one(kA), arr(kArrA, rr, 1, (*[]byte)(&rr.A), byteCell, pokeByte, newByte))
	case *dns.AAAA:
		return append(one(kAAAA), arr(kArrAAAA, rr, 1, (*[]byte)(&rr.AAAA), byteCell, pokeByte, newByte))
	case *dns.CNAME:
		return one(kCNAME, rr.Target)
	case *dns.MX:
		return one(kMX, rr.Mx, rr.Preference)
	case *dns.PTR:
		return one(kPTR, rr.Ptr)
	case *dns.SRV:
		return one(kSRV, rr.Target, rr.Priority, rr.Weight, rr.Port)
	case *dns.TXT:
		return append(one(kTXT), arr(kArrTxt, rr, 1, &rr.Txt, strCell, pokeStr, newStr))
	case *dns.HTTPS:
		return flattenHTTPS(rr)
	default:
		return []fobj{plain(rr)}
	}
}

func flattenHTTPS(rr *dns.HTTPS) (objs []fobj) {
	objs = append(objs, fobj{kind: kHTTPS, id: objID{ptrOf(rr), 0}, addr: ptrOf(rr), cp: 1,
		vals: []uint64{h32(hdrStr(&rr.Hdr), rr.Priority, rr.Target)}, poke: func(int) { rr.Priority++ }})
	// The two empty value kinds are shared between original and clone; their
	// presence is in the cells of the value array.
	objs = append(objs, arr(kArrValue, rr, 1, &rr.Value, typeCell[dns.SVCBKeyValue], nil, newKV))
	head := func(k int, p any, v uint64, poke func(int)) fobj {
		return fobj{kind: k, id: objID{ptrOf(p), 0}, addr: ptrOf(p), cp: 1, vals: []uint64{v}, poke: poke}
	}
	for _, kv := range rr.Value {
		switch kv := kv.(type) {
		case *dns.SVCBAlpn:
			objs = append(objs, head(kAlpn, kv, 1, nil), arr(kArrAlpn, kv, 1, &kv.Alpn, strCell, pokeStr, newStr))
		case *dns.SVCBDoHPath:
			objs = append(objs, head(kDoHPath, kv, h32(kv.Template), func(int) { kv.Template += "~" }))
		case *dns.SVCBECHConfig:
			objs = append(objs, head(kECH, kv, 1, nil), arr(kArrECH, kv, 1, &kv.ECH, byteCell, pokeByte, newByte))
		case *dns.SVCBLocal:
			objs = append(objs, head(kLocal, kv, h32(kv.KeyCode), func(int) { kv.KeyCode++ }),
				arr(kArrData, kv, 1, &kv.Data, byteCell, pokeByte, newByte))
		case *dns.SVCBMandatory:
			objs = append(objs, head(kMandatory, kv, 1, nil), arr(kArrCode, kv, 1, &kv.Code,
				func(c dns.SVCBKey) uint64 { return uint64(c) }, func(c *dns.SVCBKey) { *c ^= 0x40 },
				func(n uint64) dns.SVCBKey { return dns.SVCBKey(n % 8) }))
		case *dns.SVCBPort:
			objs = append(objs, head(kPort, kv, h32(kv.Port), func(int) { kv.Port++ }))
		case *dns.SVCBIPv4Hint:
			objs = append(objs, head(kV4Hint, kv, 1, nil))
			objs = append(objs, flattenIPs(kArrHint4, kv, &kv.Hint)...)
		case *dns.SVCBIPv6Hint:
			objs = append(objs, head(kV6Hint, kv, 1, nil))
			objs = append(objs, flattenIPs(kArrHint6, kv, &kv.Hint)...)
		default:
			// SVCBNoDefaultAlpn, SVCBOhttp.
		}
	}

	return objs
}

// flattenIPs returns the array of slice headers of a hint and the address
// buffers.  A cell of the former stands for one header; what it refers to is
// the buffer object.
func flattenIPs(kind int, owner any, ips *[]net.IP) (objs []fobj) {
	objs = append(objs, arr(kind, owner, 1, ips, func(net.IP) uint64 { return 1 }, nil, newHintIP))
	for i := range *ips {
		o := arr(kBuf, owner, 100+i, (*[]byte)(&(*ips)[i]), byteCell, pokeByte, newByte)
		objs = append(objs, o)
	}

	return objs
}

// flattenOPT returns the OPT, its options, and then the arrays: the model
// looks for an unknown option among the objects that follow the OPT directly.
func flattenOPT(opt *dns.OPT) (objs []fobj) {
	objs = append(objs, fobj{kind: kOpt, id: objID{ptrOf(opt), 0}, addr: ptrOf(opt), cp: 2, vals: []uint64{uint64(opt.Hdr.Ttl &^ doBit),
		h32(fmt.Sprintf("%q/%d/%d/%v", opt.Hdr.Name, opt.Hdr.Rrtype, opt.Hdr.Class, opt.Hdr.Ttl&doBit != 0))},
		poke: func(j int) {
			if j == 0 {
				opt.Hdr.Ttl ^= 0x00010000
			} else {
				opt.Hdr.Class++
			}
		}})
	var addrs []fobj
	for _, o := range opt.Option {
		id := objID{ptrOf(o), 0}
		switch o := o.(type) {
		case *dns.EDNS0_COOKIE:
			objs = append(objs, fobj{kind: kCookie, id: id, addr: ptrOf(o), cp: 1, vals: []uint64{h32(o.Code, o.Cookie)},
				poke: func(int) { o.Cookie += "0" }})
		case *dns.EDNS0_EDE:
			objs = append(objs, fobj{kind: kEDE, id: id, addr: ptrOf(o), cp: 1, vals: []uint64{h32(o.InfoCode, o.ExtraText)},
				poke: func(int) { o.InfoCode++ }})
		case *dns.EDNS0_SUBNET:
			objs = append(objs, fobj{kind: kSubnet, id: id, addr: ptrOf(o), cp: 1, vals: []uint64{h32(o.Code, o.Family,
				o.SourceNetmask, o.SourceScope)}, poke: func(int) { o.SourceScope++ }})
			addrs = append(addrs, arr(kArrAddr, o, 1, (*[]byte)(&o.Address), byteCell, pokeByte, newByte))
		default:
			objs = append(objs, fobj{kind: kUnkOpt, id: id, addr: ptrOf(o), cp: 1, vals: []uint64{h32(o.Option(), o.String())}})
		}
	}
	objs = append(objs, arr(kArrOption, opt, 1, &opt.Option, typeCell[dns.EDNS0], nil, newOption))

	return append(objs, addrs...)
}

// showObjs renders objects the way the model driver dumps them.
func showObjs(objs []fobj) string {
	var sb strings.Builder
	for i, o := range objs {
		if i > 0 {
			sb.WriteByte('/')
		}
		fmt.Fprintf(&sb, "%d:", o.kind)
		for j, v := range o.vals {
			if j > 0 {
				sb.WriteByte(',')
			}
			fmt.Fprintf(&sb, "%d", v)
		}
	}

	return sb.String()
}

// newLine renders the `new` op for a message that did not come from the cloner.
// Arrays keep their relative layout: arrays whose reachable bytes overlap
// share cells in the model, too.
func newLine(d int, objs []fobj) string {
	type ext struct {
		lo, hi uintptr
		esz    uintptr
	}
	var arrs []ext
	for _, o := range objs {
		if o.esz > 0 && o.cp > 0 {
			lo, hi := o.reach()
			arrs = append(arrs, ext{lo, hi, o.esz})
		}
	}
	sort.Slice(arrs, func(i, j int) bool { return arrs[i].lo < arrs[j].lo })
	var merged []ext
	for _, a := range arrs {
		if n := len(merged); n > 0 && a.lo < merged[n-1].hi {
			if a.esz != merged[n-1].esz {
				panic("arrays of different element sizes overlap")
			}
			if a.hi > merged[n-1].hi {
				merged[n-1].hi = a.hi
			}
		} else {
			merged = append(merged, a)
		}
	}
	cursor := 0
	arrOff := make([]int, len(merged))
	for i, a := range merged {
		arrOff[i] = cursor
		cursor += int((a.hi - a.lo) / a.esz)
	}
	var sb strings.Builder
	for _, o := range objs {
		off := cursor
		if o.esz > 0 {
			if o.cp > 0 {
				i := sort.Search(len(merged), func(i int) bool { return merged[i].hi > o.addr })
				off = arrOff[i] + int((o.addr-merged[i].lo)/o.esz)
			}
		} else {
			cursor += o.cp
		}
		fmt.Fprintf(&sb, " %d %d %d %d", o.kind, off, o.cp, len(o.vals))
		for _, v := range o.vals {
			fmt.Fprintf(&sb, " %d", v)
		}
	}

	return fmt.Sprintf("new %d %d%s", d, cursor, sb.String())
}

// region is a piece of mutable memory reachable from a message.
type region struct {
	lo, hi uintptr
	at     *pnode
}

// pnode is one step of the path to a region; the text is made only when an
// overlap is reported.
type pnode struct {
	up   *pnode
	name string
	idx  int
}

func (p *pnode) String() string {
	if p == nil {
		return "m"
	}
	if p.name == "" {
		return fmt.Sprintf("%s[%d]", p.up, p.idx)
	}

	return p.up.String() + "." + p.name
}

// regions walks v and collects every struct a pointer leads to and every slice
// backing array: up to the capacity into reach, up to the length into own.
func regions(v reflect.Value, at *pnode, reach, own *[]region) {
	switch v.Kind() {
	case reflect.Pointer:
		if v.IsNil() {
			return
		}
		if sz := v.Type().Elem().Size(); sz > 0 {
			r := region{v.Pointer(), v.Pointer() + sz, at}
			*reach, *own = append(*reach, r), append(*own, r)
		}
		regions(v.Elem(), at, reach, own)
	case reflect.Interface:
		if !v.IsNil() {
			regions(v.Elem(), &pnode{up: at, name: v.Elem().Type().String()}, reach, own)
		}
	case reflect.Slice:
		if sz := v.Type().Elem().Size(); sz > 0 {
			arrAt := &pnode{up: at, name: "[]"}
			if n := v.Cap(); n > 0 {
				*reach = append(*reach, region{v.Pointer(), v.Pointer() + uintptr(n)*sz, arrAt})
			}
			if n := v.Len(); n > 0 {
				*own = append(*own, region{v.Pointer(), v.Pointer() + uintptr(n)*sz, arrAt})
			}
		}
		switch v.Type().Elem().Kind() {
		case reflect.Pointer, reflect.Interface, reflect.Slice, reflect.Struct:
			for i := 0; i < v.Len(); i++ {
				regions(v.Index(i), &pnode{up: at, idx: i}, reach, own)
			}
		default:
		}
	case reflect.Struct:
		t := v.Type()
		for i := 0; i < v.NumField(); i++ {
			switch f := v.Field(i); f.Kind() {
			case reflect.Pointer, reflect.Interface, reflect.Slice, reflect.Struct:
				regions(f, &pnode{up: at, name: t.Field(i).Name}, reach, own)
			default:
			}
		}
	default:
	}
}

// overlap returns a description of the first overlap between a and b (which
// may be the same slice: then distinct elements are compared).
func overlap(a, b []region, same bool) string {
	type ev struct {
		r   region
		src int
	}
	all := make([]ev, 0, len(a)+len(b))
	for _, r := range a {
		all = append(all, ev{r, 0})
	}
	if !same {
		for _, r := range b {
			all = append(all, ev{r, 1})
		}
	}
	sort.Slice(all, func(i, j int) bool { return all[i].r.lo < all[j].r.lo })
	for i := range all {
		for j := i + 1; j < len(all) && all[j].r.lo < all[i].r.hi; j++ {
			if same || all[i].src != all[j].src {
				return all[i].r.at.String() + " overlaps " + all[j].r.at.String()
			}
		}
	}

	return ""
}

// scribble changes every scalar leaf of m in place without changing its shape.
func scribble(v reflect.Value) {
	switch v.Kind() {
	case reflect.Pointer, reflect.Interface:
		if !v.IsNil() {
			if v.Kind() == reflect.Pointer {
				scribble(v.Elem())
			} else {
				// The dynamic value of an interface is not addressable; RRs,
				// options and SVCB values are all pointers.
				if e := v.Elem(); e.Kind() == reflect.Pointer {
					scribble(e)
				}
			}
		}
	case reflect.Slice:
		for i := 0; i < v.Len(); i++ {
			scribble(v.Index(i))
		}
	case reflect.Struct:
		for i := 0; i < v.NumField(); i++ {
			f := v.Field(i)
			if f.CanSet() || f.Kind() == reflect.Struct || f.Kind() == reflect.Slice || f.Kind() == reflect.Pointer ||
				f.Kind() == reflect.Interface {
				scribble(f)
			}
		}
	case reflect.Uint8, reflect.Uint16, reflect.Uint32, reflect.Uint64, reflect.Uint:
		if v.CanSet() {
			v.SetUint(v.Uint() ^ 0x15)
		}
	case reflect.Int, reflect.Int32, reflect.Int64:
		if v.CanSet() {
			v.SetInt(v.Int() ^ 0x3)
		}
	case reflect.Bool:
		if v.CanSet() {
			v.SetBool(!v.Bool())
		}
	case reflect.String:
		if v.CanSet() {
			v.SetString(v.String() + "~")
		}
	default:
	}
}
