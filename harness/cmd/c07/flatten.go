package main

import (
	"fmt"
	"hash/fnv"
	"net"
	"reflect"
	"sort"
	"strings"
	"unsafe"

	"github.com/miekg/dns"
)

// Pooling classes ("kinds") of the model; a kind is assigned by RR type AND
// section, because that is how Clone and Dispose decide.
const (
	kNone      = 0
	kBuf       = 1
	kOpt       = 2
	kUnkOpt    = 3
	kCookie    = 4
	kEDE       = 5
	kSubnet    = 6
	kMsg       = 7
	kA         = 10
	kAAAA      = 11
	kCNAME     = 12
	kHTTPS     = 13
	kMX        = 14
	kPTR       = 15
	kSRV       = 16
	kTXT       = 17
	kSOA       = 18
	kAlpn      = 20
	kDoHPath   = 21
	kECH       = 22
	kV4Hint    = 23
	kV6Hint    = 24
	kLocal     = 25
	kMandatory = 26
	kPort      = 27
)

// fobj is one object of the flattened message.
type fobj struct {
	kind int
	// addr is the identity of the storage: struct pointer or first byte of the
	// buffer (0 for a buffer without storage).
	addr uintptr
	// cp is the capacity in model cells (bytes for buffers).
	cp   int
	vals []uint64
	// poke mutates cell j of the real object so that its value changes.
	poke func(j int)
}

func h32(parts ...any) uint64 {
	h := fnv.New32a()
	_, _ = fmt.Fprint(h, parts...)

	return uint64(h.Sum32())
}

func hdrStr(h *dns.RR_Header) string {
	// Rdlength is bookkeeping of Unpack, not content.
	return fmt.Sprintf("%q/%d/%d/%d", h.Name, h.Rrtype, h.Class, h.Ttl)
}

// noNil removes the difference between a nil and an empty address in the
// text form; they are the same on the wire and dns.Copy does not keep it.
func noNil(s string) string { return strings.ReplaceAll(s, "<nil>", "") }

func ptrOf(p any) uintptr { return reflect.ValueOf(p).Pointer() }

func bufAddr(b []byte) uintptr {
	if cap(b) == 0 {
		return 0
	}

	return uintptr(unsafe.Pointer(unsafe.SliceData(b)))
}

const doBit = 1 << 15

// flatten returns the objects of m in the order in which Clone visits them.
func flatten(m *dns.Msg) (objs []fobj) {
	qs := make([]string, 0, len(m.Question))
	for _, q := range m.Question {
		qs = append(qs, fmt.Sprintf("%q/%d/%d", q.Name, q.Qtype, q.Qclass))
	}
	objs = append(objs, fobj{kind: kMsg, addr: ptrOf(m), cp: 1, vals: []uint64{h32(fmt.Sprintf("%+v", m.MsgHdr), m.Compress,
		qs, len(m.Answer), len(m.Ns), len(m.Extra))}, poke: func(int) { m.Id++ }})
	for _, rr := range m.Answer {
		objs = append(objs, flattenAnswer(rr)...)
	}
	for _, rr := range m.Ns {
		if soa, ok := rr.(*dns.SOA); ok {
			objs = append(objs, fobj{kind: kSOA, addr: ptrOf(soa), cp: 1, vals: []uint64{h32(soa.String())},
				poke: func(int) { soa.Serial++ }})
		} else {
			objs = append(objs, plain(rr))
		}
	}
	for _, rr := range m.Extra {
		if opt, ok := rr.(*dns.OPT); ok {
			objs = append(objs, flattenOPT(opt)...)
		} else {
			objs = append(objs, plain(rr))
		}
	}

	return objs
}

// plain is an RR that is cloned with dns.Copy and never put into a pool.
func plain(rr dns.RR) fobj {
	return fobj{kind: kNone, addr: ptrOf(rr), cp: 1, vals: []uint64{h32(hdrStr(rr.Header()), noNil(rr.String()))},
		poke: func(int) { rr.Header().Ttl++ }}
}

func flattenAnswer(rr dns.RR) (objs []fobj) {
	one := func(k int) []fobj {
		return []fobj{{kind: k, addr: ptrOf(rr), cp: 1, vals: []uint64{h32(hdrStr(rr.Header()), rr.String())},
			poke: func(int) { rr.Header().Ttl++ }}}
	}
	switch rr := rr.(type) {
	case *dns.A:
		o := one(kA)
		o[0].vals[0] = h32(hdrStr(&rr.Hdr), []byte(rr.A))

		return o
	case *dns.AAAA:
		o := one(kAAAA)
		o[0].vals[0] = h32(hdrStr(&rr.Hdr), []byte(rr.AAAA))

		return o
	case *dns.CNAME:
		return one(kCNAME)
	case *dns.MX:
		return one(kMX)
	case *dns.PTR:
		return one(kPTR)
	case *dns.SRV:
		return one(kSRV)
	case *dns.TXT:
		o := one(kTXT)
		o[0].vals[0] = h32(hdrStr(&rr.Hdr), len(rr.Txt), strings.Join(rr.Txt, "\x00"))

		return o
	case *dns.HTTPS:
		return flattenHTTPS(rr)
	default:
		return []fobj{plain(rr)}
	}
}

func flattenHTTPS(rr *dns.HTTPS) (objs []fobj) {
	keys := make([]string, 0, len(rr.Value))
	for _, kv := range rr.Value {
		keys = append(keys, fmt.Sprintf("%T", kv))
	}
	objs = append(objs, fobj{kind: kHTTPS, addr: ptrOf(rr), cp: 1, vals: []uint64{h32(hdrStr(&rr.Hdr), rr.Priority,
		rr.Target, keys)}, poke: func(int) { rr.Priority++ }})
	for _, kv := range rr.Value {
		switch kv := kv.(type) {
		case *dns.SVCBAlpn:
			objs = append(objs, fobj{kind: kAlpn, addr: ptrOf(kv), cp: 1, vals: []uint64{h32(len(kv.Alpn),
				strings.Join(kv.Alpn, "\x00"))}, poke: func(int) { kv.Alpn = append(kv.Alpn[:0:0], "poked") }})
		case *dns.SVCBDoHPath:
			objs = append(objs, fobj{kind: kDoHPath, addr: ptrOf(kv), cp: 1, vals: []uint64{h32(kv.Template)},
				poke: func(int) { kv.Template += "~" }})
		case *dns.SVCBECHConfig:
			objs = append(objs, fobj{kind: kECH, addr: ptrOf(kv), cp: 1, vals: []uint64{h32(kv.ECH)},
				poke: func(int) { kv.ECH = append(kv.ECH[:0:0], 0xEE, byte(len(kv.ECH))) }})
		case *dns.SVCBLocal:
			objs = append(objs, fobj{kind: kLocal, addr: ptrOf(kv), cp: 1, vals: []uint64{h32(kv.KeyCode, kv.Data)},
				poke: func(int) { kv.KeyCode++ }})
		case *dns.SVCBMandatory:
			objs = append(objs, fobj{kind: kMandatory, addr: ptrOf(kv), cp: 1, vals: []uint64{h32(kv.Code)},
				poke: func(int) { kv.Code = append(kv.Code[:0:0], dns.SVCBKey(len(kv.Code)+7)) }})
		case *dns.SVCBPort:
			objs = append(objs, fobj{kind: kPort, addr: ptrOf(kv), cp: 1, vals: []uint64{h32(kv.Port)},
				poke: func(int) { kv.Port++ }})
		case *dns.SVCBIPv4Hint:
			objs = append(objs, fobj{kind: kV4Hint, addr: ptrOf(kv), cp: 1, vals: []uint64{h32(len(kv.Hint))},
				poke: nil})
			objs = append(objs, flattenIPs(kv.Hint)...)
		case *dns.SVCBIPv6Hint:
			objs = append(objs, fobj{kind: kV6Hint, addr: ptrOf(kv), cp: 1, vals: []uint64{h32(len(kv.Hint))},
				poke: nil})
			objs = append(objs, flattenIPs(kv.Hint)...)
		default:
			// SVCBNoDefaultAlpn, SVCBOhttp: empty structs shared between
			// original and clone; their presence is part of the HTTPS head.
		}
	}

	return objs
}

func flattenIPs(ips []net.IP) (objs []fobj) {
	for _, ip := range ips {
		vals := make([]uint64, len(ip))
		for i, b := range ip {
			vals[i] = uint64(b)
		}
		objs = append(objs, fobj{kind: kBuf, addr: bufAddr(ip), cp: cap(ip), vals: vals,
			poke: func(j int) { ip[j] ^= 0x5A }})
	}

	return objs
}

func flattenOPT(opt *dns.OPT) (objs []fobj) {
	objs = append(objs, fobj{kind: kOpt, addr: ptrOf(opt), cp: 2, vals: []uint64{uint64(opt.Hdr.Ttl &^ doBit),
		h32(fmt.Sprintf("%q/%d/%d/%v", opt.Hdr.Name, opt.Hdr.Rrtype, opt.Hdr.Class, opt.Hdr.Ttl&doBit != 0), len(opt.Option))},
		poke: func(j int) {
			if j == 0 {
				opt.Hdr.Ttl ^= 0x00010000
			} else {
				opt.Hdr.Class++
			}
		}})
	for _, o := range opt.Option {
		switch o := o.(type) {
		case *dns.EDNS0_COOKIE:
			objs = append(objs, fobj{kind: kCookie, addr: ptrOf(o), cp: 1, vals: []uint64{h32(o.Code, o.Cookie)},
				poke: func(int) { o.Cookie += "0" }})
		case *dns.EDNS0_EDE:
			objs = append(objs, fobj{kind: kEDE, addr: ptrOf(o), cp: 1, vals: []uint64{h32(o.InfoCode, o.ExtraText)},
				poke: func(int) { o.InfoCode++ }})
		case *dns.EDNS0_SUBNET:
			objs = append(objs, fobj{kind: kSubnet, addr: ptrOf(o), cp: 1, vals: []uint64{h32(o.Code, o.Family,
				o.SourceNetmask, o.SourceScope, []byte(o.Address))}, poke: func(int) { o.SourceScope++ }})
		default:
			objs = append(objs, fobj{kind: kUnkOpt, addr: ptrOf(o), cp: 1, vals: []uint64{h32(o.Option(), o.String())},
				poke: nil})
		}
	}

	return objs
}

// showObjs renders objects the way the model driver dumps them.
func showObjs(objs []fobj) string {
	var sb strings.Builder
	for i, o := range objs {
		if i > 0 {
			sb.WriteByte('/')
		}
		fmt.Fprintf(&sb, "%d:", o.kind)
		for j, v := range o.vals {
			if j > 0 {
				sb.WriteByte(',')
			}
			fmt.Fprintf(&sb, "%d", v)
		}
	}

	return sb.String()
}

// newLine renders the `new` op for a message that did not come from the cloner.
// Buffers keep their relative layout: buffers whose reachable bytes overlap
// share one array in the model, too.
func newLine(d int, objs []fobj) string {
	type arr struct{ lo, hi uintptr }
	var arrs []arr
	for _, o := range objs {
		if o.kind == kBuf && o.cp > 0 {
			arrs = append(arrs, arr{o.addr, o.addr + uintptr(o.cp)})
		}
	}
	sort.Slice(arrs, func(i, j int) bool { return arrs[i].lo < arrs[j].lo })
	var merged []arr
	for _, a := range arrs {
		if n := len(merged); n > 0 && a.lo < merged[n-1].hi {
			if a.hi > merged[n-1].hi {
				merged[n-1].hi = a.hi
			}
		} else {
			merged = append(merged, a)
		}
	}
	cursor := 0
	arrOff := make([]int, len(merged))
	for i, a := range merged {
		arrOff[i] = cursor
		cursor += int(a.hi - a.lo)
	}
	var sb strings.Builder
	for _, o := range objs {
		off := cursor
		if o.kind == kBuf {
			if o.cp > 0 {
				i := sort.Search(len(merged), func(i int) bool { return merged[i].hi > o.addr })
				off = arrOff[i] + int(o.addr-merged[i].lo)
			}
		} else {
			cursor += o.cp
		}
		fmt.Fprintf(&sb, " %d %d %d %d", o.kind, off, o.cp, len(o.vals))
		for _, v := range o.vals {
			fmt.Fprintf(&sb, " %d", v)
		}
	}

	return fmt.Sprintf("new %d %d%s", d, cursor, sb.String())
}

// region is a piece of mutable memory reachable from a message.
type region struct {
	lo, hi uintptr
	what   string
}

// regions walks v and collects every struct a pointer leads to and every slice
// backing array (up to the length when useLen, else up to the capacity).
func regions(v reflect.Value, useLen bool, path string, out *[]region) {
	switch v.Kind() {
	case reflect.Pointer:
		if v.IsNil() {
			return
		}
		if sz := v.Type().Elem().Size(); sz > 0 {
			*out = append(*out, region{v.Pointer(), v.Pointer() + sz, path})
		}
		regions(v.Elem(), useLen, path, out)
	case reflect.Interface:
		if !v.IsNil() {
			regions(v.Elem(), useLen, path+"."+v.Elem().Type().String(), out)
		}
	case reflect.Slice:
		n := v.Cap()
		if useLen {
			n = v.Len()
		}
		if sz := v.Type().Elem().Size(); n > 0 && sz > 0 {
			*out = append(*out, region{v.Pointer(), v.Pointer() + uintptr(n)*sz, path + "[]"})
		}
		for i := 0; i < v.Len(); i++ {
			regions(v.Index(i), useLen, fmt.Sprintf("%s[%d]", path, i), out)
		}
	case reflect.Struct:
		for i := 0; i < v.NumField(); i++ {
			regions(v.Field(i), useLen, path+"."+v.Type().Field(i).Name, out)
		}
	default:
	}
}

// overlap returns a description of the first overlap between a and b (which
// may be the same slice: then distinct elements are compared).
func overlap(a, b []region, same bool) string {
	type ev struct {
		r   region
		src int
	}
	all := make([]ev, 0, len(a)+len(b))
	for _, r := range a {
		all = append(all, ev{r, 0})
	}
	if !same {
		for _, r := range b {
			all = append(all, ev{r, 1})
		}
	}
	sort.Slice(all, func(i, j int) bool { return all[i].r.lo < all[j].r.lo })
	for i := range all {
		for j := i + 1; j < len(all) && all[j].r.lo < all[i].r.hi; j++ {
			if same || all[i].src != all[j].src {
				return all[i].r.what + " overlaps " + all[j].r.what
			}
		}
	}

	return ""
}

// scribble changes every scalar leaf of m in place without changing its shape.
func scribble(v reflect.Value) {
	switch v.Kind() {
	case reflect.Pointer, reflect.Interface:
		if !v.IsNil() {
			if v.Kind() == reflect.Pointer {
				scribble(v.Elem())
			} else {
				// The dynamic value of an interface is not addressable; RRs,
				// options and SVCB values are all pointers.
				if e := v.Elem(); e.Kind() == reflect.Pointer {
					scribble(e)
				}
			}
		}
	case reflect.Slice:
		for i := 0; i < v.Len(); i++ {
			scribble(v.Index(i))
		}
	case reflect.Struct:
		for i := 0; i < v.NumField(); i++ {
			f := v.Field(i)
			if f.CanSet() || f.Kind() == reflect.Struct || f.Kind() == reflect.Slice || f.Kind() == reflect.Pointer ||
				f.Kind() == reflect.Interface {
				scribble(f)
			}
		}
	case reflect.Uint8, reflect.Uint16, reflect.Uint32, reflect.Uint64, reflect.Uint:
		if v.CanSet() {
			v.SetUint(v.Uint() ^ 0x15)
		}
	case reflect.Int, reflect.Int32, reflect.Int64:
		if v.CanSet() {
			v.SetInt(v.Int() ^ 0x3)
		}
	case reflect.Bool:
		if v.CanSet() {
			v.SetBool(!v.Bool())
		}
	case reflect.String:
		if v.CanSet() {
			v.SetString(v.String() + "~")
		}
	default:
	}
}
