package main

import (
	"fmt"
	"math/rand/v2"
	"net"
	"reflect"

	"github.com/miekg/dns"
)

var names = []string{"a.example.", "b.example.", "svc.example.org.", "x.y.z.test.", "."}

func genIP(rng *rand.Rand, want int) net.IP {
	n := want
	switch rng.IntN(12) {
	case 0:
		// Malformed lengths.
		n = []int{0, 1, 5, 15, 17, 20, 33}[rng.IntN(7)]
	case 1:
		n = 16
	case 2:
		n = 4
	}
	ip := make(net.IP, n)
	for i := range ip {
		ip[i] = byte(rng.IntN(256))
	}
	if n == 16 && ip.To4() != nil {
		ip[0] = 0x20
	}

	return ip
}

func genHdr(rng *rand.Rand, t uint16) dns.RR_Header {
	return dns.RR_Header{Name: names[rng.IntN(len(names))], Rrtype: t, Class: dns.ClassINET, Ttl: uint32(rng.IntN(5) * 60)}
}

func genStrs(rng *rand.Rand) []string {
	switch rng.IntN(6) {
	case 0:
		return nil
	case 1:
		return []string{}
	}
	n := 1 + rng.IntN(3)
	s := make([]string, n)
	for i := range s {
		s[i] = fmt.Sprintf("s%d", rng.IntN(1000))
	}

	return s
}

func genHints(rng *rand.Rand, want int) []net.IP {
	switch rng.IntN(10) {
	case 0:
		return nil
	case 1:
		return []net.IP{}
	}
	n := 1 + rng.IntN(3)
	if rng.IntN(3) == 0 {
		n = 4 + rng.IntN(6)
	}
	ips := make([]net.IP, n)
	for i := range ips {
		ips[i] = genIP(rng, want)
	}

	return ips
}

func genHTTPS(rng *rand.Rand, r *counters) *dns.HTTPS {
	rr := &dns.HTTPS{SVCB: dns.SVCB{Hdr: genHdr(rng, dns.TypeHTTPS), Priority: uint16(rng.IntN(3)), Target: names[rng.IntN(len(names))]}}
	if rng.IntN(8) == 0 {
		return rr
	}
	rr.Value = []dns.SVCBKeyValue{}
	// Keys in ascending order, each at most once, as on the wire.
	if rng.IntN(4) == 0 {
		rr.Value = append(rr.Value, &dns.SVCBMandatory{Code: []dns.SVCBKey{dns.SVCB_ALPN}})
		r.n["kv.mandatory"]++
	}
	if rng.IntN(2) == 0 {
		rr.Value = append(rr.Value, &dns.SVCBAlpn{Alpn: genStrs(rng)})
		r.n["kv.alpn"]++
	}
	if rng.IntN(5) == 0 {
		rr.Value = append(rr.Value, &dns.SVCBNoDefaultAlpn{})
		r.n["kv.nodefaultalpn"]++
	}
	if rng.IntN(3) == 0 {
		rr.Value = append(rr.Value, &dns.SVCBPort{Port: uint16(rng.IntN(65536))})
		r.n["kv.port"]++
	}
	if rng.IntN(2) == 0 {
		rr.Value = append(rr.Value, &dns.SVCBIPv4Hint{Hint: genHints(rng, 4)})
		r.n["kv.ipv4hint"]++
	}
	if rng.IntN(4) == 0 {
		rr.Value = append(rr.Value, &dns.SVCBECHConfig{ECH: []byte{1, 2, byte(rng.IntN(256))}})
		r.n["kv.ech"]++
	}
	if rng.IntN(2) == 0 {
		rr.Value = append(rr.Value, &dns.SVCBIPv6Hint{Hint: genHints(rng, 16)})
		r.n["kv.ipv6hint"]++
	}
	if rng.IntN(4) == 0 {
		rr.Value = append(rr.Value, &dns.SVCBDoHPath{Template: "/dns-query{?dns}"})
		r.n["kv.dohpath"]++
	}
	if rng.IntN(6) == 0 {
		rr.Value = append(rr.Value, &dns.SVCBOhttp{})
		r.n["kv.ohttp"]++
	}
	if rng.IntN(4) == 0 {
		rr.Value = append(rr.Value, &dns.SVCBLocal{KeyCode: dns.SVCBKey(65280 + rng.IntN(3)), Data: []byte{byte(rng.IntN(256))}})
		r.n["kv.local"]++
	}

	return rr
}

func genAnswerRR(rng *rand.Rand, r *counters) dns.RR {
	switch k := rng.IntN(13); k {
	case 0, 1:
		r.n["rr.A"]++

		return &dns.A{Hdr: genHdr(rng, dns.TypeA), A: genIP(rng, 4)}
	case 2:
		r.n["rr.AAAA"]++

		return &dns.AAAA{Hdr: genHdr(rng, dns.TypeAAAA), AAAA: genIP(rng, 16)}
	case 3:
		r.n["rr.CNAME"]++

		return &dns.CNAME{Hdr: genHdr(rng, dns.TypeCNAME), Target: names[rng.IntN(len(names))]}
	case 4:
		r.n["rr.MX"]++

		return &dns.MX{Hdr: genHdr(rng, dns.TypeMX), Mx: names[rng.IntN(len(names))], Preference: uint16(rng.IntN(100))}
	case 5:
		r.n["rr.PTR"]++

		return &dns.PTR{Hdr: genHdr(rng, dns.TypePTR), Ptr: names[rng.IntN(len(names))]}
	case 6:
		r.n["rr.SRV"]++

		return &dns.SRV{Hdr: genHdr(rng, dns.TypeSRV), Target: names[rng.IntN(len(names))], Priority: 1, Weight: uint16(rng.IntN(9)), Port: 443}
	case 7:
		r.n["rr.TXT"]++

		return &dns.TXT{Hdr: genHdr(rng, dns.TypeTXT), Txt: genStrs(rng)}
	case 8, 9, 10:
		r.n["rr.HTTPS"]++

		return genHTTPS(rng, r)
	case 11:
		r.n["rr.SVCB(unpooled)"]++
		h := genHTTPS(rng, r)
		h.Hdr.Rrtype = dns.TypeSVCB

		return &dns.SVCB{Hdr: h.Hdr, Priority: h.Priority, Target: h.Target, Value: h.Value}
	default:
		r.n["rr.NS(unpooled)"]++

		return &dns.NS{Hdr: genHdr(rng, dns.TypeNS), Ns: names[rng.IntN(len(names))]}
	}
}

func genSOA(rng *rand.Rand) *dns.SOA {
	return &dns.SOA{Hdr: genHdr(rng, dns.TypeSOA), Ns: "ns.example.", Mbox: "m.example.", Serial: uint32(rng.IntN(1000)),
		Refresh: 1, Retry: 2, Expire: 3, Minttl: uint32(rng.IntN(100))}
}

func genOPT(rng *rand.Rand, r *counters) *dns.OPT {
	opt := &dns.OPT{Hdr: dns.RR_Header{Name: ".", Rrtype: dns.TypeOPT, Class: uint16(512 + rng.IntN(4)*512)}}
	switch rng.IntN(6) {
	case 0:
		opt.Hdr.Ttl = doBit
	case 1:
		// Extended rcode, version, other flag bits.
		opt.Hdr.Ttl = uint32(rng.IntN(3))<<24 | uint32(rng.IntN(2))<<16 | uint32(rng.IntN(4))<<13
		r.n["opt.ttl-bits"]++
	}
	if rng.IntN(5) == 0 {
		return opt
	}
	opt.Option = []dns.EDNS0{}
	for k := rng.IntN(4); k > 0; k-- {
		switch rng.IntN(7) {
		case 0, 1:
			opt.Option = append(opt.Option, &dns.EDNS0_COOKIE{Code: dns.EDNS0COOKIE, Cookie: fmt.Sprintf("%016x", rng.Uint64())})
			r.n["opt.cookie"]++
		case 2, 3:
			opt.Option = append(opt.Option, &dns.EDNS0_EDE{InfoCode: uint16(rng.IntN(30)), ExtraText: fmt.Sprintf("t%d", rng.IntN(9))})
			r.n["opt.ede"]++
		case 4, 5:
			fam, ip := uint16(1), genIP(rng, 4)
			if rng.IntN(2) == 0 {
				fam, ip = 2, genIP(rng, 16)
			}
			opt.Option = append(opt.Option, &dns.EDNS0_SUBNET{Code: dns.EDNS0SUBNET, Family: fam, SourceNetmask: uint8(rng.IntN(33)),
				SourceScope: uint8(rng.IntN(25)), Address: ip})
			r.n["opt.subnet"]++
		default:
			if rng.IntN(2) == 0 {
				opt.Option = append(opt.Option, &dns.EDNS0_NSID{Code: dns.EDNS0NSID, Nsid: "abcd"})
			} else {
				opt.Option = append(opt.Option, &dns.EDNS0_PADDING{Padding: make([]byte, rng.IntN(5))})
			}
			r.n["opt.unknown(dns.Copy)"]++
		}
	}

	return opt
}

type counters struct{ n map[string]int }

// genMsg generates a message as some other component would hand it to the
// cloner.
func genMsg(rng *rand.Rand, r *counters) *dns.Msg {
	m := &dns.Msg{}
	m.Id = uint16(rng.IntN(65536))
	m.Response = rng.IntN(4) > 0
	m.Rcode = []int{0, 0, 0, 2, 3, 5}[rng.IntN(6)]
	m.RecursionAvailable = rng.IntN(2) == 0
	m.Compress = rng.IntN(2) == 0
	switch rng.IntN(8) {
	case 0:
	case 1:
		m.Question = []dns.Question{}
	default:
		m.Question = []dns.Question{{Name: names[rng.IntN(len(names))], Qtype: []uint16{1, 28, 65, 16}[rng.IntN(4)], Qclass: 1}}
	}
	if rng.IntN(6) > 0 {
		m.Answer = []dns.RR{}
		for k := rng.IntN(4); k > 0; k-- {
			m.Answer = append(m.Answer, genAnswerRR(rng, r))
		}
		if rng.IntN(12) == 0 {
			m.Answer = append(m.Answer, genSOA(rng))
			r.n["rr.SOA-in-answer(unpooled)"]++
		}
	}
	if rng.IntN(3) == 0 {
		m.Ns = []dns.RR{}
		for k := rng.IntN(3); k > 0; k-- {
			if rng.IntN(3) > 0 {
				m.Ns = append(m.Ns, genSOA(rng))
				r.n["rr.SOA"]++
			} else {
				m.Ns = append(m.Ns, &dns.NS{Hdr: genHdr(rng, dns.TypeNS), Ns: "ns1.example."})
			}
		}
	}
	if rng.IntN(2) == 0 {
		m.Extra = []dns.RR{}
		if rng.IntN(4) == 0 {
			m.Extra = append(m.Extra, &dns.A{Hdr: genHdr(rng, dns.TypeA), A: genIP(rng, 4)})
			r.n["rr.A-in-extra(unpooled)"]++
		}
		if rng.IntN(5) > 0 {
			m.Extra = append(m.Extra, genOPT(rng, r))
			r.n["rr.OPT"]++
		}
		if rng.IntN(10) == 0 {
			m.Extra = append(m.Extra, genOPT(rng, r))
			r.n["rr.OPT-second"]++
		}
	}

	return m
}

// viaWire packs and unpacks m the way an upstream answer arrives; ok is false
// if the message cannot be packed.
func viaWire(m *dns.Msg) (w *dns.Msg, ok bool) {
	b, err := m.Pack()
	if err != nil {
		return nil, false
	}
	w = &dns.Msg{}
	if err = w.Unpack(b); err != nil {
		return nil, false
	}

	return w, true
}

// respare reshapes the slices of a message the way other components leave
// them: spare capacity behind the elements, elements removed in place
// (ecscache.rmHopToHopRRs, slices.DeleteFunc), empty but allocated.
func respare(rng *rand.Rand, v reflect.Value, r *counters) {
	switch v.Kind() {
	case reflect.Pointer:
		if !v.IsNil() {
			respare(rng, v.Elem(), r)
		}
	case reflect.Interface:
		if !v.IsNil() && v.Elem().Kind() == reflect.Pointer {
			respare(rng, v.Elem(), r)
		}
	case reflect.Struct:
		for i := 0; i < v.NumField(); i++ {
			if f := v.Field(i); f.CanSet() || f.Kind() == reflect.Struct {
				respare(rng, f, r)
			}
		}
	case reflect.Slice:
		if v.CanSet() {
			n := v.Len()
			switch k := rng.IntN(8); {
			case k < 2 && (!v.IsNil() || rng.IntN(3) == 0):
				nv := reflect.MakeSlice(v.Type(), n, n+1+rng.IntN(3)+8*rng.IntN(2))
				reflect.Copy(nv, v)
				v.Set(nv)
				r.n["spare.capacity-behind"]++
				if n == 0 {
					r.n["spare.empty-with-capacity"]++
				}
			case k == 2 && n > 0:
				e := 1 + rng.IntN(n)
				for i := n - e; i < n; i++ {
					v.Index(i).SetZero()
				}
				v.Set(v.Slice(0, n-e))
				r.n["spare.removed-in-place"]++
				if e == n {
					r.n["spare.empty-with-capacity"]++
				}
			}
		}
		for i := 0; i < v.Len(); i++ {
			respare(rng, v.Index(i), r)
		}
	default:
	}
}
