package main

// The wire campaign (round 4): the handler stack behind the PRODUCTION servers.
//
// All other stack campaigns call the handler with a recording response writer
// and emulate what a server does afterwards (normalize, pack, Dispose).  Here
// the service is built by dnssvc.New, as internal/cmd does it: the listeners of
// a server group (plain DNS over UDP and TCP, DNS-over-TLS, DNS-over-HTTPS,
// DNS-over-QUIC) with the production cloner as the Disposer of every one of
// them, the request context of the service, the pooled byte buffers of the
// servers, and the three places that release a response after it was written
// (ServerBase.dispose for the UDP and TCP writers, serveDoH, the DoQ stream
// handler).  Clients with addresses, profiles and transports of their own talk
// to it over real sockets at the same time, pipelining on one connection
// (TCP, DoT), multiplexing (DoH over HTTP/2, DoQ streams) or back to back
// (UDP), and they use the SAME message IDs at the same time (a request is
// told from the others of its client by ID and question, as a resolver does;
// nothing tells the clients apart but their sockets).  Some clients are rude:
// they send and go away without reading, so that writes fail while others are
// served; some names make the upstream fail.  Every response must be what the
// same request gets when it is the only one a new service ever sees (same
// transport, cold cache of the same kind).

import (
	"bytes"
	"context"
	"crypto/ecdsa"
	"crypto/elliptic"
	crand "crypto/rand"
	"crypto/tls"
	"crypto/x509"
	"crypto/x509/pkix"
	"encoding/binary"
	"errors"
	"fmt"
	"io"
	stdlog "log"
	"math/big"
	"math/rand/v2"
	"net"
	"net/http"
	"net/netip"
	"os"
	"runtime"
	"strings"
	"sync"
	"sync/atomic"
	"time"

	"github.com/AdguardTeam/AdGuardDNS/internal/agd"
	"github.com/AdguardTeam/AdGuardDNS/internal/agdtest"
	"github.com/AdguardTeam/AdGuardDNS/internal/dnsserver"
	"github.com/AdguardTeam/AdGuardDNS/internal/dnssvc"
	"github.com/AdguardTeam/AdGuardDNS/verifh/hlib"
	"github.com/AdguardTeam/AdGuardDNS/verifh/hlib/stack"
	golibslog "github.com/AdguardTeam/golibs/log"
	"github.com/miekg/dns"
	"github.com/quic-go/quic-go"
)

const (
	wUDP = iota
	wTCP
	wDoT
	wDoH
	wDoQ
	nWireProtos
)

var wireProtoNames = [nWireProtos]string{"udp", "tcp", "dot", "doh", "doq"}

// wireIP is the address of client c: a loopback address of its own.
func wireIP(c int) netip.Addr {
	return netip.AddrFrom4([4]byte{127, 0, byte(1 + c/200), byte(c%200 + 1)})
}

// wireSNI is the TLS server name of client c: its device ID in front of the
// device domain of the server group, or the public name.
func wireSNI(c int) string {
	if c < nProfiles {
		return fmt.Sprintf("dev%05d.%s", c, stack.DeviceDomain)
	}

	return ddrPublicTarget
}

var (
	wireQuiet    sync.Once
	wireCertOnce sync.Once
	wireCert     tls.Certificate
)

func wireTLS(protos []string) *tls.Config {
	wireCertOnce.Do(func() {
		key, err := ecdsa.GenerateKey(elliptic.P256(), crand.Reader)
		hlib.Must(err)
		tmpl := &x509.Certificate{SerialNumber: big.NewInt(7), Subject: pkix.Name{CommonName: ddrPublicTarget},
			NotBefore: time.Now().Add(-time.Hour), NotAfter: time.Now().Add(24 * time.Hour),
			DNSNames: []string{ddrPublicTarget, "*." + stack.DeviceDomain}, KeyUsage: x509.KeyUsageDigitalSignature,
			ExtKeyUsage: []x509.ExtKeyUsage{x509.ExtKeyUsageServerAuth}}
		der, err := x509.CreateCertificate(crand.Reader, tmpl, tmpl, &key.PublicKey, key)
		hlib.Must(err)
		wireCert = tls.Certificate{Certificate: [][]byte{der}, PrivateKey: key}
	})

	return &tls.Config{Certificates: []tls.Certificate{wireCert}, NextProtos: protos, MinVersion: tls.VersionTLS12}
}

// wireEnv is one running service.
type wireEnv struct {
	f   *fixture
	svc *dnssvc.Service
	lis [nWireProtos]dnsserver.Server
}

// newWireEnv builds the fixture and starts the service with the servers of the
// given transports (UDP and TCP are one server).
func newWireEnv(cache *dnssvc.CacheConfig, protos []int) (e *wireEnv, err error) {
	// The machine is shared: the TCP port with the number of the UDP port that
	// the kernel has picked may be taken.
	for try := 0; try < 20; try++ {
		if e, err = newWireEnvOnce(cache, protos); err == nil || !strings.Contains(err.Error(), "address already in use") {
			break
		}
	}

	return e, err
}

func newWireEnvOnce(cache *dnssvc.CacheConfig, protos []int) (e *wireEnv, err error) {
	wireQuiet.Do(func() { golibslog.SetOutput(io.Discard); stdlog.SetOutput(io.Discard) })
	defer func() {
		if v := recover(); v != nil {
			err = fmt.Errorf("starting the service: %v", v)
		}
	}()
	// A port that is free for TCP (ServerDNS takes the port that the kernel picks
	// for its UDP socket for TCP as well, and fails when a connection of another
	// process on this shared machine has it).
	taken := map[uint16]bool{}
	bindAddr := func() *agd.ServerBindData {
		ap := netip.MustParseAddrPort("127.0.0.1:0")
		for try := 0; try < 50; try++ {
			l, lerr := net.Listen("tcp", "127.0.0.1:0")
			if lerr != nil {
				continue
			}
			cand := l.Addr().(*net.TCPAddr).AddrPort()
			if taken[cand.Port()] {
				// Handed to another server of this service, which has not bound
				// it yet (with SO_REUSEPORT both would get it).
				_ = l.Close()

				continue
			}
			// The servers share their UDP ports (SO_REUSEPORT): a socket that
			// somebody else still has on the port would take some of the
			// datagrams.  A plain bind fails if there is one.
			pc, perr := net.ListenPacket("udp", cand.String())
			_ = l.Close()
			if perr == nil {
				_ = pc.Close()
				ap = cand
				taken[cand.Port()] = true

				break
			}
		}

		return &agd.ServerBindData{AddrPort: ap}
	}
	byName := map[agd.ServerName]int{}
	var servers []*agd.Server
	add := func(name string, proto agd.Protocol, wp int, alpn []string) {
		for _, p := range protos {
			if p != wp && !(wp == wUDP && p == wTCP) {
				continue
			}
			if _, dup := byName[agd.ServerName(name)]; dup {
				return
			}
			srv := stack.NewServer(name, proto, true, bindAddr())
			if alpn != nil {
				srv.TLS = &agd.TLSConfig{Default: wireTLS(alpn)}
				if proto == agd.ProtoDoH {
					srv.TLS.H3 = wireTLS(dnsserver.NextProtoDoH3)
				}
			}
			srv.ReadTimeout, srv.WriteTimeout = 5*time.Second, 5*time.Second
			if srv.TCPConf != nil {
				srv.TCPConf.IdleTimeout = 5 * time.Second
			}
			byName[srv.Name] = wp
			servers = append(servers, srv)
		}
	}
	add("plain", agd.ProtoDNS, wUDP, nil)
	add("dot", agd.ProtoDoT, wDoT, []string{"dot"})
	add("doh", agd.ProtoDoH, wDoH, dnsserver.NextProtoDoH)
	add("doq", agd.ProtoDoQ, wDoQ, dnsserver.NextProtoDoQ)
	e = &wireEnv{}
	e.f = newFixtureOpts(cache, map[uint16]sreq{}, nil, false, fixtureOpts{ipOf: wireIP, servers: servers, noIdent: true})
	e.f.ecsDep = cache == nil || cache.Type != dnssvc.CacheTypeSimple
	e.svc, err = dnssvc.New(&dnssvc.Config{
		Handlers: e.f.st.Handlers,
		NewListener: func(srv *agd.Server, base dnsserver.ConfigBase, nonDNS http.Handler) (dnssvc.Listener, error) {
			l, lerr := dnssvc.NewListener(srv, base, nonDNS)
			if lerr == nil {
				wp := byName[srv.Name]
				e.lis[wp] = l
				if wp == wUDP {
					e.lis[wTCP] = l
				}
			}

			return l, lerr
		},
		Cloner:           e.f.cloner,
		ErrColl:          &agdtest.ErrorCollector{OnCollect: func(context.Context, error) {}},
		MetricsNamespace: fmt.Sprintf("wire%d", wireNS.Add(1)),
		ServerGroups:     []*agd.ServerGroup{e.f.st.Group},
		HandleTimeout:    10 * time.Second,
	})
	if err != nil {
		return nil, err
	}
	if err = e.svc.Start(context.Background()); err != nil {
		return nil, err
	}

	return e, nil
}

func (e *wireEnv) close() {
	ctx, cancel := context.WithTimeout(context.Background(), 3*time.Second)
	defer cancel()
	_ = e.svc.Shutdown(ctx)
}

// wkey tells the responses on one socket apart, as a resolver does.
type wkey struct {
	id     uint16
	name   string
	qt, qc uint16
}

func keyOfReq(q sreq) wkey {
	qc := uint16(dns.ClassINET)
	if q.Chaos {
		qc = dns.ClassCHAOS
	}

	return wkey{q.ID, q.Name, q.Qtype, qc}
}

func keyOfResp(m *dns.Msg) wkey {
	if len(m.Question) != 1 {
		return wkey{id: m.Id, name: fmt.Sprintf("<%d questions>", len(m.Question))}
	}

	return wkey{m.Id, m.Question[0].Name, m.Question[0].Qtype, m.Question[0].Qclass}
}

const wireNone = "<none>"

// wireClient is one client: its sockets, opened once.
type wireClient struct {
	c, proto int
	e        *wireEnv
	pc       net.Conn // udp, tcp, dot
	hc       *http.Client
	qtr      *quic.Transport
	qc       quic.Connection
	closers  []io.Closer
}

func (e *wireEnv) dial(c, proto int) (cl *wireClient, err error) {
	// A handshake may time out on a busy machine.
	for try := 0; try < 3; try++ {
		if cl, err = e.dialOnce(c, proto); err == nil {
			break
		}
	}

	return cl, err
}

func (e *wireEnv) dialOnce(c, proto int) (cl *wireClient, err error) {
	cl = &wireClient{c: c, proto: proto, e: e}
	ip := wireIP(c).AsSlice()
	ctx, cancel := context.WithTimeout(context.Background(), 5*time.Second)
	defer cancel()
	tconf := func(alpn []string) *tls.Config {
		return &tls.Config{InsecureSkipVerify: true, ServerName: wireSNI(c), NextProtos: alpn}
	}
	switch proto {
	case wUDP:
		cl.pc, err = net.DialUDP("udp", &net.UDPAddr{IP: ip}, e.lis[wUDP].LocalUDPAddr().(*net.UDPAddr))
	case wTCP, wDoT:
		d := net.Dialer{LocalAddr: &net.TCPAddr{IP: ip}}
		var conn net.Conn
		conn, err = d.DialContext(ctx, "tcp", e.lis[proto].LocalTCPAddr().String())
		if err == nil && proto == wDoT {
			tc := tls.Client(conn, tconf([]string{"dot"}))
			if err = tc.HandshakeContext(ctx); err == nil {
				conn = tc
			}
		}
		cl.pc = conn
	case wDoH:
		addr := e.lis[wDoH].LocalTCPAddr().String()
		tr := &http.Transport{TLSClientConfig: tconf(nil), ForceAttemptHTTP2: true,
			DialContext: func(ctx context.Context, _, _ string) (net.Conn, error) {
				d := net.Dialer{LocalAddr: &net.TCPAddr{IP: ip}}

				return d.DialContext(ctx, "tcp", addr)
			}}
		cl.hc = &http.Client{Transport: tr, Timeout: 5 * time.Second}
		cl.closers = append(cl.closers, closerFunc(func() error { tr.CloseIdleConnections(); return nil }))
	case wDoQ:
		var uc *net.UDPConn
		if uc, err = net.ListenUDP("udp", &net.UDPAddr{IP: ip}); err != nil {
			return nil, err
		}
		cl.qtr = &quic.Transport{Conn: uc}
		cl.qc, err = cl.qtr.Dial(ctx, e.lis[wDoQ].LocalUDPAddr(), tconf([]string{"doq"}), &quic.Config{})
		cl.closers = append(cl.closers, cl.qtr, uc)
	}
	if err != nil {
		cl.close()

		return nil, fmt.Errorf("client %d over %s: %w", c, wireProtoNames[proto], err)
	}

	return cl, nil
}

type closerFunc func() error

func (f closerFunc) Close() error { return f() }

func (cl *wireClient) close() {
	if cl.pc != nil {
		_ = cl.pc.Close()
	}
	if cl.qc != nil {
		_ = cl.qc.CloseWithError(0, "")
	}
	for _, c := range cl.closers {
		_ = c.Close()
	}
}

// window sends the requests of one window at once and collects what comes back
// for each of them; expectNone[i]: alone, request i gets no response at all (then
// a short wait makes sure that it gets none here either).  rude: send and leave.
func (cl *wireClient) window(reqs []sreq, expectNone []bool, rude bool) (got []string, stray []string) {
	if wireTrace {
		t0 := time.Now()
		defer func() {
			if d := time.Since(t0); d > time.Second {
				fmt.Fprintf(os.Stderr, "SLOW window %v client %d %s rude=%v none=%v reqs=%+v got=%q\n", d, cl.c, wireProtoNames[cl.proto], rude, expectNone, reqs, got)
			}
		}()
	}
	got = make([]string, len(reqs))
	for i := range got {
		got[i] = wireNone
	}
	switch cl.proto {
	case wDoH, wDoQ:
		var wg sync.WaitGroup
		for i, q := range reqs {
			wg.Add(1)
			go func() {
				defer wg.Done()
				if cl.proto == wDoH {
					got[i] = cl.doh(q, rude)
				} else {
					got[i] = cl.doq(q, rude)
				}
			}()
		}
		wg.Wait()

		return got, nil
	}
	stream := cl.proto != wUDP
	var out bytes.Buffer
	for _, q := range reqs {
		b, err := q.msg().Pack()
		hlib.Must(err)
		if stream {
			_ = binary.Write(&out, binary.BigEndian, uint16(len(b)))
			out.Write(b)
		} else if _, err = cl.pc.Write(b); err != nil {
			return got, []string{"WRITE-ERROR " + err.Error()}
		}
	}
	if stream {
		if _, err := cl.pc.Write(out.Bytes()); err != nil {
			return got, []string{"WRITE-ERROR " + err.Error()}
		}
	}
	if rude {
		return got, nil
	}
	want := 0
	for _, n := range expectNone {
		if !n {
			want++
		}
	}
	index := map[wkey]int{}
	for i, q := range reqs {
		index[keyOfReq(q)] = i
	}
	buf := make([]byte, dns.MaxMsgSize+2)
	read := func(d time.Duration) (m *dns.Msg, ok bool) {
		_ = cl.pc.SetReadDeadline(time.Now().Add(d))
		var b []byte
		if stream {
			if _, err := io.ReadFull(cl.pc, buf[:2]); err != nil {
				return nil, false
			}
			n := int(binary.BigEndian.Uint16(buf[:2]))
			if _, err := io.ReadFull(cl.pc, buf[2:2+n]); err != nil {
				return nil, false
			}
			b = buf[2 : 2+n]
		} else {
			n, err := cl.pc.Read(buf)
			if err != nil {
				return nil, false
			}
			b = buf[:n]
		}
		m = &dns.Msg{}
		if err := m.Unpack(b); err != nil {
			stray = append(stray, fmt.Sprintf("UNPARSABLE %x: %v", b, err))

			return nil, true
		}

		return m, true
	}
	take := func(m *dns.Msg) {
		if m == nil {
			return
		}
		i, ok := index[keyOfResp(m)]
		if !ok || got[i] != wireNone {
			stray = append(stray, canon(m))

			return
		}
		got[i] = render(reqs[i], m)
	}
	for n := 0; n < want; n++ {
		m, ok := read(4 * time.Second)
		if !ok {
			break
		}
		take(m)
	}
	if want < len(reqs) {
		// Nothing more must come.
		if m, ok := read(60 * time.Millisecond); ok {
			take(m)
		}
	}

	return got, stray
}

func (cl *wireClient) doh(q sreq, rude bool) string {
	b, err := q.msg().Pack()
	hlib.Must(err)
	ctx, cancel := context.WithTimeout(context.Background(), 4*time.Second)
	defer cancel()
	hr, _ := http.NewRequestWithContext(ctx, http.MethodPost, "https://"+wireSNI(cl.c)+"/dns-query", bytes.NewReader(b))
	hr.Header.Set("Content-Type", "application/dns-message")
	hr.Header.Set("Accept", "application/dns-message")
	if rude {
		// Give up at once: the server writes to a stream that was reset.
		rctx, rcancel := context.WithCancel(ctx)
		hr = hr.WithContext(rctx)
		go func() { time.Sleep(time.Duration(q.Var%3) * 200 * time.Microsecond); rcancel() }()
	}
	resp, err := cl.hc.Do(hr)
	if err != nil {
		return "HTTP-ERROR"
	}
	defer func() { _ = resp.Body.Close() }()
	body, err := io.ReadAll(io.LimitReader(resp.Body, dns.MaxMsgSize))
	if err != nil {
		return "HTTP-ERROR"
	}
	if resp.StatusCode != http.StatusOK {
		// "No response": what DoH makes of a request that the stack drops.
		return fmt.Sprintf("%s (http %d %s)", wireNone, resp.StatusCode, strings.TrimSpace(string(body)))
	}
	m := &dns.Msg{}
	if err = m.Unpack(body); err != nil {
		return fmt.Sprintf("UNPARSABLE %x", body)
	}

	return render(q, m)
}

func (cl *wireClient) doq(q sreq, rude bool) string {
	b, err := q.msg().Pack()
	hlib.Must(err)
	ctx, cancel := context.WithTimeout(context.Background(), 4*time.Second)
	defer cancel()
	st, err := cl.qc.OpenStreamSync(ctx)
	if err != nil {
		return "QUIC-ERROR"
	}
	out := make([]byte, 2+len(b))
	binary.BigEndian.PutUint16(out, uint16(len(b)))
	copy(out[2:], b)
	if _, err = st.Write(out); err != nil {
		return "QUIC-ERROR"
	}
	_ = st.Close()
	if rude {
		st.CancelRead(0)

		return wireNone
	}
	_ = st.SetReadDeadline(time.Now().Add(4 * time.Second))
	in, err := io.ReadAll(io.LimitReader(st, dns.MaxMsgSize+2))
	if err != nil || len(in) < 2 {
		return wireNone
	}
	m := &dns.Msg{}
	if err = m.Unpack(in[2:]); err != nil || int(binary.BigEndian.Uint16(in)) != len(in)-2 {
		return fmt.Sprintf("UNPARSABLE %x", in)
	}

	return render(q, m)
}

type wireAloneKey struct {
	q     sreq
	proto int
	cache dnssvc.CacheType
}

var wireAloneMemo = map[wireAloneKey]string{}

// wireAlone: q is the only request that a new service ever gets.
func wireAlone(q sreq, proto int, cache *dnssvc.CacheConfig) (got string, err error) {
	k := wireAloneKey{q: q, proto: proto}
	if cache != nil {
		k.cache = cache.Type
	}
	if g, ok := wireAloneMemo[k]; ok {
		return g, nil
	}
	e, err := newWireEnv(cache, []int{proto})
	if err != nil {
		return "", err
	}
	defer e.close()
	cl, err := e.dial(q.Client, proto)
	if err != nil {
		return "", err
	}
	defer cl.close()
	// A request that the fixture's access rules or rate limiter drop is waited
	// for briefly only (if a response comes all the same, it is taken).
	g, stray := cl.window([]sreq{q}, []bool{isAccessBlocked(q.Name) || isRateLimited(q.Name)}, false)
	if len(stray) > 0 {
		// A response that the client cannot match with its only request.
		return "", &echoError{fmt.Sprintf("alone, request %+v over %s is answered with %q, which does not echo its ID and question",
			q, wireProtoNames[proto], stray)}
	}
	if g[0] == wireNone && proto <= wDoT && !isAccessBlocked(q.Name) && !isRateLimited(q.Name) {
		return "", fmt.Errorf("alone, request %+v over %s got no response", q, wireProtoNames[proto])
	}
	wireAloneMemo[k] = g[0]

	return g[0], nil
}

var wireNS atomic.Int64

var wireTrace = os.Getenv("C07_WIRETRACE") != ""

// echoError: a response does not echo what identifies its request.
type echoError struct{ what string }

func (e *echoError) Error() string { return e.what }


// wireNames is the pool of the wire campaign: that of the stack campaigns, and
// names for which the upstreams are down.
func genWireReqs(rng *rand.Rand, protos []int, perClient int) (streams [][]sreq) {
	streams = genStackReqs(rng, len(protos), perClient)
	ids := []uint16{4660, 4660, 4660, 0, 65535}
	for c, s := range streams {
		for k := range s {
			q := &s[k]
			// The EDNS data stay a function of a number of the request's own;
			// the message IDs collide between the clients (and within one).
			q.Var, q.ID = q.ID, ids[rng.IntN(len(ids))]
			if protos[c] == wDoQ && rng.IntN(4) > 0 {
				q.ID = 0
			}
			if rng.IntN(12) == 0 {
				q.Name = "fail.example."
			}
			if dropped := isAccessBlocked(q.Name) || isRateLimited(q.Name); dropped &&
				(protos[c] == wTCP || protos[c] == wDoT || protos[c] == wUDP && rng.IntN(3) > 0) {
				// A stream server drops a request by closing the connection:
				// whether the requests pipelined behind it are still answered is a
				// matter of timing, and not of this property.  Over UDP a dropped
				// request costs a wait; keep some.
				q.Name = "one.example."
			}
		}
	}

	return streams
}

const wireWindow = 4

func wireRound(o *hlib.Opts, r *hlib.Result, rng *rand.Rand, round int, cache *dnssvc.CacheConfig, cname string) {
	nClients := 5 + rng.IntN(8)
	perClient := 2 * wireWindow
	if o.Thorough() {
		perClient = 4 * wireWindow
	}
	protos := make([]int, nClients)
	rude := make([]bool, nClients)
	for c := range protos {
		protos[c] = (c + round) % nWireProtos
		if round%3 == 1 && c > 1 {
			// A round of multiplexed streams mostly: the servers of these
			// transports release a response themselves after writing it.
			protos[c] = wDoH + c%2
		}
		rude[c] = c >= nWireProtos && rng.IntN(4) == 0
	}
	streams := genWireReqs(rng, protos, perClient)
	// Within a window of a datagram or pipelined connection the requests differ
	// in ID or question, as those of a resolver do.
	for c, s := range streams {
		if protos[c] > wDoT {
			continue
		}
		for w := 0; w < len(s); w += wireWindow {
			seen := map[wkey]bool{}
			for k := w; k < min(w+wireWindow, len(s)); k++ {
				for try := 0; seen[keyOfReq(s[k])]; try++ {
					s[k].Name = mixCase(s[k].Name, rng.Uint32())
					if try > 8 {
						s[k].ID = uint16(rng.IntN(65536))
					}
				}
				seen[keyOfReq(s[k])] = true
			}
		}
	}
	replay := map[string]any{"campaign": "wire", "cache": cname, "round": round, "window": wireWindow}
	var cdesc []string
	for c := range protos {
		d := fmt.Sprintf("%d:%s", c, wireProtoNames[protos[c]])
		if rude[c] {
			d += ":rude"
		}
		cdesc = append(cdesc, d)
	}
	replay["clients"] = cdesc
	want := make([][]string, nClients)
	for c, s := range streams {
		for _, q := range s {
			if rude[c] {
				want[c] = append(want[c], "")

				continue
			}
			w, err := wireAlone(q, protos[c], cache)
			if ee := (*echoError)(nil); errors.As(err, &ee) {
				r.Violate("response-id-or-question-of-another-request", fmt.Sprintf("cache=%s: %s", cname, ee.what),
					map[string]any{"campaign": "wire", "cache": cname, "transport": wireProtoNames[protos[c]], "alone": true, "request": q})
			} else if err != nil {
				r.Violate("wire-error-solo", err.Error(), q)
			}
			want[c] = append(want[c], w)
			r.Evaluations++
		}
	}
	var used []int
	seenProto := map[int]bool{}
	for _, p := range protos {
		if !seenProto[p] {
			seenProto[p] = true
			used = append(used, p)
		}
	}
	e, err := newWireEnv(cache, used)
	if err != nil {
		r.Violate("wire-error", err.Error(), replay)

		return
	}
	defer e.close()
	clients := make([]*wireClient, nClients)
	for c := range clients {
		if clients[c], err = e.dial(c, protos[c]); err != nil {
			r.Violate("wire-error", err.Error(), replay)

			return
		}
		defer clients[c].close()
	}
	got := make([][]string, nClients)
	strays := make([][]string, nClients)
	start := make(chan struct{})
	var wg sync.WaitGroup
	for c := range clients {
		wg.Add(1)
		go func() {
			defer wg.Done()
			<-start
			s := streams[c]
			width := wireWindow
			if protos[c] > wDoT {
				// Streams of one connection: all of them at once.
				width = 2 * wireWindow
			}
			for w := 0; w < len(s); w += width {
				hi := min(w+width, len(s))
				none := make([]bool, hi-w)
				for k := w; k < hi; k++ {
					none[k-w] = strings.HasPrefix(want[c][k], wireNone)
				}
				g, st := clients[c].window(s[w:hi], none, rude[c])
				got[c] = append(got[c], g...)
				strays[c] = append(strays[c], st...)
				if rude[c] && clients[c].pc != nil {
					// Gone without reading; the next window comes from a new socket.
					clients[c].close()
					nc, derr := e.dial(c, protos[c])
					if derr != nil {
						return
					}
					clients[c] = nc
				}
			}
		}()
	}
	close(start)
	wg.Wait()
	r.Traces++
	nontrivial := false
	var canonCase []string
	for c, s := range streams {
		r.Count("wire.transport=" + wireProtoNames[protos[c]])
		if rude[c] {
			r.Count("wire.rude-client")

			continue
		}
		for _, st := range strays[c] {
			r.Violate("wire-response-matches-no-request", fmt.Sprintf("cache=%s client %d over %s received %q, which answers none of "+
				"the requests it has in flight", cname, c, wireProtoNames[protos[c]], st), replay)
		}
		for k, q := range s {
			canonCase = append(canonCase, fmt.Sprintf("%d/%s/%s/%d/%v/%d/%d", c, wireProtoNames[protos[c]], q.Name, q.Qtype, q.Chaos, q.EDNS, q.ID))
			if k >= len(got[c]) {
				break
			}
			g, w := got[c][k], want[c][k]
			r.Evaluations++
			if strings.HasPrefix(w, wireNone) {
				r.Count("wire.dropped-request")
			}
			if strings.Contains(w, "rc=2") {
				r.Count("wire.servfail")
			}
			if strings.Contains(w, "rc=1 ") {
				r.Count("wire.formerr-for-malformed-client-subnet")
			}
			if c < nProfiles && profSpecs[c].ctorFails {
				r.Count("wire.req.profile-constructor-cannot-be-built")
			}
			if geoFault(c) != 0 {
				r.Count("wire.req.client-without-location")
			}
			if g == w {
				nontrivial = true

				continue
			}
			lo := k - k%wireWindow
			rp := map[string]any{"request": q, "transport": wireProtoNames[protos[c]], "in_flight_on_the_same_socket": s[lo:min(lo+wireWindow, len(s))]}
			for key, v := range replay {
				rp[key] = v
			}
			sig := "wire-response-differs-from-solo"
			switch {
			case strings.HasPrefix(g, "FOREIGN-ECS"):
				sig = "response-client-subnet-of-another-request"
			case strings.HasPrefix(g, "FOREIGN"):
				sig = "response-id-or-question-of-another-request"
			}
			r.Violate(sig, fmt.Sprintf("cache=%s clients=%d, client %d over %s, request %+v: alone %q, with the others %q", cname,
				nClients, c, wireProtoNames[protos[c]], q, w, g), rp)
		}
	}
	r.Case("wire|"+cname+"|"+strings.Join(canonCase, ","), nontrivial)
	if round == 0 {
		r.Sample(map[string]any{"wire_round": round, "cache": cname, "clients": cdesc, "first_request": streams[0][0],
			"first_response_alone": want[0][0]}, 9)
	}
}

func wireCampaign(o *hlib.Opts, r *hlib.Result) {
	defer runtime.GOMAXPROCS(runtime.GOMAXPROCS(max(4, runtime.NumCPU())))
	rng := o.Rand("wire")
	rounds := 18
	if o.Thorough() {
		rounds = 60
	}
	caches := []struct {
		name string
		conf *dnssvc.CacheConfig
	}{
		{"ecs", &dnssvc.CacheConfig{Type: dnssvc.CacheTypeECS, NoECSCount: 16, ECSCount: 16}},
		{"none", nil},
		{"simple", &dnssvc.CacheConfig{Type: dnssvc.CacheTypeSimple, NoECSCount: 16}},
	}
	for round := 0; round < rounds; round++ {
		c := caches[round%len(caches)]
		r.Count("wire.cache=" + c.name)
		wireRound(o, r, rng, round, c.conf, c.name)
	}
}
