package main

import (
	"context"
	"fmt"
	"hash/fnv"
	"math/rand/v2"
	"net"
	"net/netip"
	"sort"
	"strings"
	"sync"
	"time"

	"github.com/AdguardTeam/AdGuardDNS/internal/access"
	"github.com/AdguardTeam/AdGuardDNS/internal/agd"
	"github.com/AdguardTeam/AdGuardDNS/internal/agdpasswd"
	"github.com/AdguardTeam/AdGuardDNS/internal/agdtest"
	"github.com/AdguardTeam/AdGuardDNS/internal/dnsmsg"
	"github.com/AdguardTeam/AdGuardDNS/internal/dnsserver"
	"github.com/AdguardTeam/AdGuardDNS/internal/dnssvc"
	"github.com/AdguardTeam/AdGuardDNS/internal/filter"
	"github.com/AdguardTeam/AdGuardDNS/internal/profiledb"
	"github.com/AdguardTeam/AdGuardDNS/verifh/hlib"
	"github.com/AdguardTeam/AdGuardDNS/verifh/hlib/stack"
	"github.com/miekg/dns"
	"github.com/prometheus/client_golang/prometheus"
)

const nProfiles = 4

// sreq is one request of the stack campaign.
type sreq struct {
	Client int    `json:"client"`
	Name   string `json:"name"`
	Qtype  uint16 `json:"qtype"`
	Chaos  bool   `json:"chaos,omitempty"`
	EDNS   int    `json:"edns"`
	ID     uint16 `json:"id"`
}

func (q sreq) msg() *dns.Msg {
	m := &dns.Msg{}
	m.SetQuestion(q.Name, q.Qtype)
	m.Id = q.ID
	if q.Chaos {
		m.Question[0].Qclass = dns.ClassCHAOS
	}
	switch q.EDNS {
	case 1:
		m.SetEdns0(1232, false)
	case 2:
		m.SetEdns0(4096, true)
		opt := m.IsEdns0()
		opt.Option = append(opt.Option, &dns.EDNS0_COOKIE{Code: dns.EDNS0COOKIE, Cookie: fmt.Sprintf("%016x", uint64(q.ID)*7919)})
	case 3, 4:
		// The client sends its own subnet (EDNS Client Subnet); no two
		// requests of a round send the same one.
		m.SetEdns0(uint16(1400+int(q.ID%7)*100), q.EDNS == 4)
		opt := m.IsEdns0()
		opt.Option = append(opt.Option, q.ecs())
	}

	return m
}

// ecs is the EDNS Client Subnet option of q (EDNS modes 3 and 4).
func (q sreq) ecs() *dns.EDNS0_SUBNET {
	if q.EDNS%2 == 1 {
		return &dns.EDNS0_SUBNET{Code: dns.EDNS0SUBNET, Family: 1, SourceNetmask: 24,
			Address: net.IP{100, byte(64 + q.Client), byte(q.ID), 0}}
	}
	ip := net.ParseIP("2001:db8:aaaa::")
	ip[6], ip[7] = byte(q.Client), byte(q.ID)

	return &dns.EDNS0_SUBNET{Code: dns.EDNS0SUBNET, Family: 2, SourceNetmask: 64, Address: ip}
}

// checkECS is the identity oracle for the client subnet: every subnet option
// of the response must be the one the request itself has sent.
func checkECS(q sreq, resp *dns.Msg) (bad string) {
	if resp == nil {
		return ""
	}
	for _, rr := range resp.Extra {
		opt, ok := rr.(*dns.OPT)
		if !ok {
			continue
		}
		for _, o := range opt.Option {
			sn, ok := o.(*dns.EDNS0_SUBNET)
			if !ok {
				continue
			}
			if q.EDNS < 3 {
				return fmt.Sprintf("response carries the client subnet %s/%d although the request has sent none", sn.Address, sn.SourceNetmask)
			}
			own := q.ecs()
			if sn.Family != own.Family || sn.SourceNetmask != own.SourceNetmask || !sn.Address.Equal(own.Address) {
				return fmt.Sprintf("response carries the client subnet %s/%d, the request has sent %s/%d", sn.Address,
					sn.SourceNetmask, own.Address, own.SourceNetmask)
			}
		}
	}

	return ""
}

func clientIP(c int) netip.Addr {
	return netip.AddrFrom4([4]byte{10, 0, byte(c / 200), byte(c%200 + 1)})
}

func nameHash(s string) uint32 {
	h := fnv.New32a()
	_, _ = h.Write([]byte(s))

	return h.Sum32()
}

// upstream answers as a function of the question only, through Pack/Unpack as
// the real forwarder does.
func upstream() dnsserver.Handler {
	return dnsserver.HandlerFunc(func(ctx context.Context, rw dnsserver.ResponseWriter, req *dns.Msg) error {
		q := req.Question[0]
		h := nameHash(q.Name)
		resp := (&dns.Msg{}).SetReply(req)
		resp.RecursionAvailable = true
		hdr := dns.RR_Header{Name: q.Name, Rrtype: q.Qtype, Class: dns.ClassINET, Ttl: 300}
		switch q.Qtype {
		case dns.TypeA:
			for i := uint32(0); i <= h%3; i++ {
				resp.Answer = append(resp.Answer, &dns.A{Hdr: hdr, A: net.IP{192, 0, byte(h >> 8), byte(h + i)}})
			}
		case dns.TypeAAAA:
			ip := net.ParseIP("2001:db8::")
			ip[12], ip[13], ip[14], ip[15] = byte(h>>24), byte(h>>16), byte(h>>8), byte(h)
			resp.Answer = append(resp.Answer, &dns.AAAA{Hdr: hdr, AAAA: ip})
		case dns.TypeTXT:
			resp.Answer = append(resp.Answer, &dns.TXT{Hdr: hdr, Txt: []string{"txt-" + q.Name, fmt.Sprint(h)}})
		case dns.TypeHTTPS:
			v4 := &dns.SVCBIPv4Hint{}
			for i := uint32(0); i <= h%9; i++ {
				v4.Hint = append(v4.Hint, net.IP{198, 51, byte(h >> 8), byte(h + i)})
			}
			v6 := &dns.SVCBIPv6Hint{}
			for i := uint32(0); i <= h%3; i++ {
				ip := net.ParseIP("2001:db8:1::")
				ip[13], ip[14], ip[15] = byte(h>>16), byte(h>>8), byte(h+i)
				v6.Hint = append(v6.Hint, ip)
			}
			resp.Answer = append(resp.Answer, &dns.HTTPS{SVCB: dns.SVCB{Hdr: hdr, Priority: 1, Target: ".",
				Value: []dns.SVCBKeyValue{&dns.SVCBAlpn{Alpn: []string{"h2", fmt.Sprint("x", h%7)}}, v4, v6}}})
		}
		if o := req.IsEdns0(); o != nil {
			resp.SetEdns0(o.UDPSize(), o.Do())
			for _, x := range o.Option {
				// An ECS-aware upstream echoes the subnet; for half of the
				// names the answer depends on it (scope > 0).
				if sn, ok := x.(*dns.EDNS0_SUBNET); ok {
					echo := *sn
					echo.SourceScope = 0
					if h%2 == 0 {
						echo.SourceScope = sn.SourceNetmask
					}
					ro := resp.IsEdns0()
					ro.Option = append(ro.Option, &echo)
				}
			}
		}
		b, err := resp.Pack()
		if err != nil {
			return err
		}
		wire := &dns.Msg{}
		if err = wire.Unpack(b); err != nil {
			return err
		}

		return rw.WriteMsg(ctx, req, wire)
	})
}

type fixture struct {
	st     *stack.Stack
	cloner *dnsmsg.Cloner
	srv    *agd.Server
}

func isBlockedFor(profile int, host string) bool {
	return strings.HasPrefix(host, "blocked.") || strings.HasPrefix(host, fmt.Sprintf("p%d-blocked.", profile))
}

func newFixture(cache *dnssvc.CacheConfig) *fixture {
	profs := make([]*agd.Profile, nProfiles)
	devs := make([]*agd.Device, nProfiles)
	confs := map[filter.Config]int{}
	for i := range profs {
		conf := &filter.ConfigClient{Custom: &filter.ConfigCustom{}, Parental: &filter.ConfigParental{},
			RuleList: &filter.ConfigRuleList{}, SafeBrowsing: &filter.ConfigSafeBrowsing{}}
		confs[conf] = i
		devs[i] = &agd.Device{Auth: &agd.AuthSettings{PasswordHash: agdpasswd.AllowAuthenticator{}},
			ID: agd.DeviceID(fmt.Sprintf("dev%05d", i)), LinkedIP: clientIP(i), FilteringEnabled: true}
		profs[i] = &agd.Profile{
			FilterConfig: conf, Access: access.EmptyProfile{}, BlockingMode: blockingModes[i%len(blockingModes)],
			Ratelimiter: agd.GlobalRatelimiter{}, ID: agd.ProfileID(fmt.Sprintf("prof%04d", i)),
			DeviceIDs: []agd.DeviceID{devs[i].ID}, FilteredResponseTTL: time.Duration(10*(i+1)) * time.Second,
			FilteringEnabled: true, QueryLogEnabled: true, IPLogEnabled: true,
		}
	}
	pdb := stack.NotFoundProfileDB()
	pdb.OnProfileByLinkedIP = func(_ context.Context, ip netip.Addr) (*agd.Profile, *agd.Device, error) {
		for i := range profs {
			if clientIP(i) == ip {
				return profs[i], devs[i], nil
			}
		}

		return nil, nil, profiledb.ErrDeviceNotFound
	}
	mkFilter := func(profile int) filter.Interface {
		return &agdtest.Filter{
			OnFilterRequest: func(_ context.Context, req *filter.Request) (filter.Result, error) {
				if isBlockedFor(profile, req.Host) {
					return &filter.ResultBlocked{List: "verif_list", Rule: filter.RuleText("||" + req.Host + "^")}, nil
				}

				return nil, nil
			},
			OnFilterResponse: func(context.Context, *filter.Response) (filter.Result, error) { return nil, nil },
		}
	}
	flts := make([]filter.Interface, nProfiles+1)
	for i := range flts {
		flts[i] = mkFilter(i)
	}
	fs := &agdtest.FilterStorage{
		OnForConfig: func(_ context.Context, c filter.Config) filter.Interface {
			if i, ok := confs[c]; ok {
				return flts[i]
			}

			return flts[nProfiles]
		},
		OnHasListID: func(filter.ID) bool { return true },
	}
	cl := agdtest.NewCloner()
	// The cache metrics register with the default registerer under a fixed
	// name; give every fixture its own.
	prometheus.DefaultRegisterer = prometheus.NewRegistry()
	srv := stack.NewServer("dns", agd.ProtoDNS, true)
	st := stack.New(&stack.Config{ProfileDB: pdb, FilterStorage: fs, Upstream: upstream(), Cache: cache, Cloner: cl,
		Servers: []*agd.Server{srv}})

	return &fixture{st: st, cloner: cl, srv: srv}
}

// canon renders what the client receives.  Upstream TTLs are 300 and may have
// aged by a few seconds in a cache; filtered TTLs are 10, 20, 30, 40.
func canon(m *dns.Msg) string {
	if m == nil {
		return "<none>"
	}
	var sb strings.Builder
	h := m.MsgHdr
	fmt.Fprintf(&sb, "id=%d rc=%d qr=%v aa=%v tc=%v rd=%v ra=%v ad=%v cd=%v", h.Id, h.Rcode, h.Response, h.Authoritative,
		h.Truncated, h.RecursionDesired, h.RecursionAvailable, h.AuthenticatedData, h.CheckingDisabled)
	for _, q := range m.Question {
		fmt.Fprintf(&sb, " q=%s/%d/%d", q.Name, q.Qtype, q.Qclass)
	}
	var opts strings.Builder
	sec := func(name string, rrs []dns.RR) {
		for _, rr := range rrs {
			hd := rr.Header()
			if opt, ok := rr.(*dns.OPT); ok {
				// The transport layer (normalize, applied by serve) has set the
				// EDNS parameters from the request.  The client subnet is
				// checked apart (checkECS): an upstream echoes it, the ECS
				// cache sets it anew, the other caches drop it.
				// The DO bit is left out: normalize does not set it on an OPT
				// that it creates itself (after a cache has dropped the
				// upstream's), so cached and fresh responses differ in it;
				// that is cached-vs-fresh equality, not identity.
				// Where the OPT stands among the additional records depends on
				// who has made it (upstream: before the debug records,
				// normalize: last); it is rendered after the other records.
				fmt.Fprintf(&opts, " %s{opt udp=%d ttl=%#x", name, opt.UDPSize(), opt.Hdr.Ttl&^doBit)
				for _, o := range opt.Option {
					if _, isSN := o.(*dns.EDNS0_SUBNET); !isSN {
						fmt.Fprintf(&opts, " %d:%s", o.Option(), o.String())
					}
				}
				opts.WriteString("}")

				continue
			}
			ttl := hd.Ttl
			if hd.Rrtype != dns.TypeOPT && ttl >= 290 && ttl <= 300 {
				ttl = 300
			}
			s := rr.String()
			if i := strings.Index(s, "\t"); i >= 0 && hd.Rrtype != dns.TypeOPT {
				// Drop "name\tttl" and keep the rest; the TTL is printed apart.
				rest := strings.SplitN(s, "\t", 3)
				s = rest[0] + " " + rest[len(rest)-1]
			}
			fmt.Fprintf(&sb, " %s{%s ttl=%d}", name, s, ttl)
			if hs, ok := rr.(*dns.HTTPS); ok {
				fmt.Fprintf(&sb, "[%s]", showObjs(flattenHTTPS(hs)[1:]))
			}
		}
	}
	sec("an", m.Answer)
	sec("ns", m.Ns)
	sec("ex", m.Extra)

	return sb.String() + opts.String()
}

func logKey(f *fixture) []string {
	entries, _ := f.st.Effects.TakeLog()
	keys := make([]string, 0, len(entries))
	for _, e := range entries {
		keys = append(keys, fmt.Sprintf("%s %s %s %s rc=%d", e.DomainFQDN, e.ProfileID, e.DeviceID, e.RemoteIP, e.ResponseCode))
	}
	sort.Strings(keys)

	return keys
}

// handle runs one request up to the point where the UDP writer of ServerBase
// packs the response: handler, then normalize.  The response stays in use.
func (f *fixture) handle(q sreq) (resp *dns.Msg, err error) {
	defer func() {
		if v := recover(); v != nil {
			err = fmt.Errorf("panic: %v", v)
		}
	}()
	req := q.msg()
	out := f.st.Serve(context.Background(), &stack.Req{Server: f.srv, Msg: req,
		Remote: netip.AddrPortFrom(clientIP(q.Client), 5353), Local: netip.MustParseAddrPort("192.0.2.2:53")})
	if out.Err != nil {
		return nil, out.Err
	}
	if out.Resp != nil {
		dnsserver.VerifC08Normalize(dnsserver.NetworkUDP, dnsserver.ProtoDNS, req, out.Resp, dns.MaxMsgSize)
	}

	return out.Resp, nil
}

// render is what the client receives for q when resp is packed now.
func render(q sreq, resp *dns.Msg) (got string) {
	defer func() {
		if v := recover(); v != nil {
			got = fmt.Sprintf("PANIC %v", v)
		}
	}()
	got = canon(resp)
	if resp != nil {
		if resp.Id != q.ID || len(resp.Question) != 1 || !strings.EqualFold(resp.Question[0].Name, q.Name) {
			got = "FOREIGN " + got
		}
		if bad := checkECS(q, resp); bad != "" {
			got = "FOREIGN-ECS " + bad + " " + got
		}
	}

	return got
}

// serve runs one request the way ServerBase does for plain DNS: handler,
// write (here: normalize and render), dispose.
func (f *fixture) serve(q sreq) (got string, err error) {
	resp, err := f.handle(q)
	if err != nil {
		return "", err
	}
	got = render(q, resp)
	f.cloner.Dispose(resp)

	return got, nil
}

func genStackReqs(rng *rand.Rand, nClients, perClient int) (streams [][]sreq) {
	pool := []string{"blocked.example.", "p0-blocked.example.", "p1-blocked.example.", "p2-blocked.example.",
		"p3-blocked.example.", "one.example.", "two.example.", "three.example.org.", "four.test.", "five.test."}
	id := uint16(rng.IntN(1000))
	for c := 0; c < nClients; c++ {
		var s []sreq
		for k := 0; k < perClient; k++ {
			id++
			q := sreq{Client: c, Name: pool[rng.IntN(len(pool))], ID: id, EDNS: rng.IntN(5),
				Qtype: []uint16{dns.TypeA, dns.TypeAAAA, dns.TypeTXT, dns.TypeHTTPS, dns.TypeHTTPS}[rng.IntN(5)]}
			if rng.IntN(10) == 0 {
				q.Chaos, q.Qtype = true, dns.TypeTXT
			}
			s = append(s, q)
		}
		streams = append(streams, s)
	}

	return streams
}

// hidx names request K of client C.
type hidx struct{ C, K int }

// heldRun serves the requests named by order in one goroutine.  A response
// stays in use, as with a slow client socket, while the next window requests
// are served; only then it is packed and released.  It must still be what it
// was when the handler returned it, and what the request gets alone.
func heldRun(streams [][]sreq, want [][]string, order []hidx, window int, cache *dnssvc.CacheConfig,
	cname string) (viols []finding, f *fixture, n int) {
	type pending struct {
		at    hidx
		resp  *dns.Msg
		early string
	}
	f = newFixture(cache)
	var queue []pending
	release := func(p pending) {
		q := streams[p.at.C][p.at.K]
		late := render(q, p.resp)
		f.cloner.Dispose(p.resp)
		n++
		switch {
		case late != p.early:
			viols = append(viols, finding{"held-response-altered-while-in-use", fmt.Sprintf("cache=%s window=%d request %+v: "+
				"when the handler returned %q, when it was written %q", cname, window, q, p.early, late)})
		case strings.HasPrefix(late, "FOREIGN-ECS"):
			viols = append(viols, finding{"response-client-subnet-of-another-request", fmt.Sprintf("cache=%s request %+v: %q",
				cname, q, late)})
		case late != want[p.at.C][p.at.K]:
			viols = append(viols, finding{"held-response-differs-from-solo", fmt.Sprintf("cache=%s window=%d request %+v: "+
				"alone %q, held %q", cname, window, q, want[p.at.C][p.at.K], late)})
		}
	}
	for _, at := range order {
		q := streams[at.C][at.K]
		resp, err := f.handle(q)
		if err != nil {
			viols = append(viols, finding{"stack-error-held", fmt.Sprintf("request %+v: %v", q, err)})

			continue
		}
		queue = append(queue, pending{at: at, resp: resp, early: render(q, resp)})
		if len(queue) > window {
			release(queue[0])
			queue = queue[1:]
		}
	}
	for _, p := range queue {
		release(p)
	}

	return viols, f, n
}

// heldRound is heldRun on a random interleaving of the streams.
func heldRound(rng *rand.Rand, r *hlib.Result, streams [][]sreq, want [][]string, wantLog []string,
	cache *dnssvc.CacheConfig, cname string) {
	var order []hidx
	next := make([]int, len(streams))
	for {
		left := 0
		for c := range streams {
			left += len(streams[c]) - next[c]
		}
		if left == 0 {
			break
		}
		c := rng.IntN(len(streams))
		for next[c] == len(streams[c]) {
			c = (c + 1) % len(streams)
		}
		order = append(order, hidx{c, next[c]})
		next[c]++
	}
	window := 1 + rng.IntN(4)
	r.Count(fmt.Sprintf("stack.held.window=%d", window))
	viols, f, n := heldRun(streams, want, order, window, cache, cname)
	r.Evaluations += n
	for _, v := range viols {
		known := false
		for _, w := range r.Violations {
			known = known || w.Signature == v.sig
		}
		if known {
			continue
		}
		// The shortest schedule with the same kind of failure, as concrete
		// requests.
		small := hlib.Shrink(order, func(sub []hidx) bool {
			vs, _, _ := heldRun(streams, want, sub, window, cache, cname)
			for _, w := range vs {
				if w.sig == v.sig {
					return true
				}
			}

			return false
		})
		what := v.what
		if vs, _, _ := heldRun(streams, want, small, window, cache, cname); len(vs) > 0 {
			for _, w := range vs {
				if w.sig == v.sig {
					what = w.what
				}
			}
		}
		reqs := make([]sreq, 0, len(small))
		for _, at := range small {
			reqs = append(reqs, streams[at.C][at.K])
		}
		r.Violate(v.sig, what, map[string]any{"campaign": "stack-held", "cache": cname, "window": window,
			"requests_in_order": reqs})
	}
	if gotLog := logKey(f); strings.Join(gotLog, "\n") != strings.Join(wantLog, "\n") {
		r.Violate("querylog-identity-differs-from-solo", fmt.Sprintf("cache=%s held: %d vs %d entries", cname, len(wantLog),
			len(gotLog)), map[string]any{"campaign": "stack-held", "cache": cname, "window": window, "streams": streams,
			"order": order})
	}
}

func stackCampaign(o *hlib.Opts, r *hlib.Result) {
	rng := o.Rand("stack")
	rounds := 40
	if o.Thorough() {
		rounds = 150
	}
	for round := 0; round < rounds; round++ {
		nClients := 2 + rng.IntN(15)
		perClient := 10 + rng.IntN(60)
		var cache *dnssvc.CacheConfig
		cname := "none"
		switch rng.IntN(3) {
		case 1:
			cache = &dnssvc.CacheConfig{Type: dnssvc.CacheTypeSimple, NoECSCount: 4 + rng.IntN(20), MinTTL: 0}
			cname = "simple"
		case 2:
			cache = &dnssvc.CacheConfig{Type: dnssvc.CacheTypeECS, NoECSCount: 4 + rng.IntN(20), ECSCount: 4 + rng.IntN(20)}
			cname = "ecs"
		}
		r.Count("stack.cache=" + cname)
		r.Count(fmt.Sprintf("stack.clients=%d", nClients))
		streams := genStackReqs(rng, nClients, perClient)

		// Every request alone: a fresh stack without history for each.
		solo := newFixture(nil)
		want := make([][]string, nClients)
		for c, s := range streams {
			for _, q := range s {
				w, err := solo.serve(q)
				if err != nil {
					r.Violate("stack-error-solo", fmt.Sprintf("request %+v alone: %v", q, err), q)
				}
				want[c] = append(want[c], w)
			}
		}
		wantLog := logKey(solo)

		conc := newFixture(cache)
		got := make([][]string, nClients)
		errs := make([]error, nClients)
		var wg sync.WaitGroup
		start := make(chan struct{})
		for c := range streams {
			got[c] = make([]string, len(streams[c]))
			wg.Add(1)
			go func(c int) {
				defer wg.Done()
				<-start
				for k, q := range streams[c] {
					g, err := conc.serve(q)
					if err != nil {
						errs[c] = err

						return
					}
					got[c][k] = g
				}
			}(c)
		}
		close(start)
		wg.Wait()
		gotLog := logKey(conc)

		nontrivial := false
		for c := range streams {
			if errs[c] != nil {
				r.Violate("stack-error-concurrent", fmt.Sprintf("client %d: %v", c, errs[c]), streams)

				continue
			}
			for k, q := range streams[c] {
				kind := "upstream"
				if strings.Contains(q.Name, "blocked") && (c >= nProfiles || isBlockedFor(c, q.Name)) {
					kind = "blocked"
					nontrivial = true
				}
				if q.Chaos {
					kind = "debug"
				}
				r.Count("stack.req." + kind)
				r.Evaluations++
				if got[c][k] != want[c][k] {
					sig := "concurrent-response-differs-from-solo"
					if strings.HasPrefix(got[c][k], "FOREIGN-ECS") {
						sig = "response-client-subnet-of-another-request"
					} else if strings.HasPrefix(got[c][k], "FOREIGN") {
						sig = "response-id-or-question-of-another-request"
					}
					r.Violate(sig, fmt.Sprintf("cache=%s clients=%d request %+v: alone %q, concurrently %q", cname, nClients, q,
						want[c][k], got[c][k]), map[string]any{"campaign": "stack", "cache": cname, "streams": streams})
				}
			}
		}
		if strings.Join(gotLog, "\n") != strings.Join(wantLog, "\n") {
			diff := ""
			for i := range wantLog {
				if i >= len(gotLog) || gotLog[i] != wantLog[i] {
					diff = fmt.Sprintf("first difference at sorted entry %d: alone %q", i, wantLog[i])
					if i < len(gotLog) {
						diff += fmt.Sprintf(", concurrently %q", gotLog[i])
					}

					break
				}
			}
			r.Violate("querylog-identity-differs-from-solo", fmt.Sprintf("cache=%s: %d vs %d entries; %s", cname, len(wantLog),
				len(gotLog), diff), map[string]any{"campaign": "stack", "cache": cname, "streams": streams})
		}
		heldRound(rng, r, streams, want, wantLog, cache, cname)

		var canonCase []string
		for _, s := range streams {
			for _, q := range s {
				canonCase = append(canonCase, fmt.Sprintf("%d/%s/%d/%v/%d", q.Client, q.Name, q.Qtype, q.Chaos, q.EDNS))
			}
		}
		r.Case(cname+"|"+strings.Join(canonCase, ","), nontrivial && nClients >= 2)
		r.Traces++
		if round < 2 {
			r.Sample(map[string]any{"stack_round": round, "cache": cname, "clients": nClients, "first_request": streams[0][0],
				"first_response": got[0][0]}, 9)
		}
	}
}
