package main

import (
	"context"
	"encoding/json"
	"fmt"
	"hash/fnv"
	"math/rand/v2"
	"net"
	"net/netip"
	"os"
	"runtime"
	"sort"
	"strings"
	"sync"
	"sync/atomic"
	"time"

	"github.com/AdguardTeam/AdGuardDNS/internal/access"
	"github.com/AdguardTeam/AdGuardDNS/internal/agd"
	"github.com/AdguardTeam/AdGuardDNS/internal/agdpasswd"
	"github.com/AdguardTeam/AdGuardDNS/internal/agdtest"
	"github.com/AdguardTeam/AdGuardDNS/internal/dnsmsg"
	"github.com/AdguardTeam/AdGuardDNS/internal/dnsserver"
	"github.com/AdguardTeam/AdGuardDNS/internal/dnssvc"
	"github.com/AdguardTeam/AdGuardDNS/internal/filter"
	"github.com/AdguardTeam/AdGuardDNS/internal/geoip"
	"github.com/AdguardTeam/AdGuardDNS/internal/profiledb"
	"github.com/AdguardTeam/AdGuardDNS/internal/querylog"
	"github.com/AdguardTeam/AdGuardDNS/verifh/hlib"
	"github.com/AdguardTeam/AdGuardDNS/verifh/hlib/stack"
	"github.com/AdguardTeam/golibs/container"
	"github.com/AdguardTeam/golibs/logutil/slogutil"
	"github.com/AdguardTeam/golibs/netutil"
	"github.com/miekg/dns"
	"github.com/prometheus/client_golang/prometheus"
)

// nProfiles clients (0 .. nProfiles-1) have a profile of their own; the others
// are served by the default filtering group.  The first nGoodProfiles have the
// four blocking modes and TTLs 10, 20, 30, 40; the rest are the boundary and the
// fault classes of the per-profile message constructor (ratelimitmw builds it for
// every request of a recognised device): see profSpecs.
const (
	nGoodProfiles = 4
	nProfiles     = 7
)

// serverTTL is the filtered-response TTL of the constructor of the server (its
// blocking mode is NXDOMAIN): what clients without a profile get, and clients
// whose profile's constructor cannot be built.
const serverTTL = 7

// profSpec is the message-constructor configuration of a profile as the profile
// database delivers it.
type profSpec struct {
	mode dnsmsg.BlockingMode
	ttl  time.Duration
	// ctorFails: dnsmsg.NewConstructor rejects the configuration (the error is
	// only collected); the request is then served with the constructor of the
	// server, whoever has used the pooled RequestInfo before.
	ctorFails bool
}

var profSpecs = [nProfiles]profSpec{
	{mode: blockingModes[0], ttl: 10 * time.Second},
	{mode: blockingModes[1], ttl: 20 * time.Second},
	{mode: blockingModes[2], ttl: 30 * time.Second},
	{mode: blockingModes[3], ttl: 40 * time.Second},
	// A negative TTL (a negative protobuf duration of the backend or the file
	// cache) next to a blocking mode of its own.
	{mode: &dnsmsg.BlockingModeCustomIP{IPv4: []netip.Addr{netip.MustParseAddr("192.0.2.44")},
		IPv6: []netip.Addr{netip.MustParseAddr("2001:db8::44")}}, ttl: -50 * time.Second, ctorFails: true},
	// No blocking mode at all.
	{mode: nil, ttl: 60 * time.Second, ctorFails: true},
	// The boundary of the valid configurations: TTL 0.
	{mode: blockingModes[0], ttl: 0},
}

// ctorTTL is the filtered-response TTL of the constructor that serves client c.
func ctorTTL(c int) uint32 {
	if c >= nProfiles || profSpecs[c].ctorFails {
		return serverTTL
	}

	return uint32(profSpecs[c].ttl / time.Second)
}

// geoFault is the fault class of the GeoIP lookup for the address of client c:
// 0 a location, 1 the database has no data for it (nil location), 2 the lookup
// fails (the error is only collected).  RequestInfo.Location is then nil,
// whatever the previous user of the pooled object has left in it.
func geoFault(c int) int {
	switch c {
	case 2, 9:
		return 1
	case 5, 12:
		return 2
	}

	return 0
}

// devErrClient is the client for whose address (and device ID) the profile
// database fails: the device finder returns a DeviceResultError, the handler
// returns it and the server answers SERVFAIL.
const devErrClient = 10

// mayFail: the handler may return an error for q by design of the fixture (the
// profile database or the upstreams are down for it); the server then builds a
// SERVFAIL from the request.  Whether it does is not predicted: the request
// alone decides.
func mayFail(q sreq) bool {
	return q.Client == devErrClient || strings.HasPrefix(strings.ToLower(q.Name), "fail.")
}

// Names for which the scripted filter of every profile fails (the error is
// collected and the request goes on unfiltered) at the request / response stage.
func isFilterReqErr(host string) bool  { return strings.HasPrefix(strings.ToLower(host), "flterr.") }
func isFilterRespErr(host string) bool { return strings.HasPrefix(strings.ToLower(host), "rflterr.") }

// sreq is one request of the stack campaign.
type sreq struct {
	Client int    `json:"client"`
	Name   string `json:"name"`
	Qtype  uint16 `json:"qtype"`
	Chaos  bool   `json:"chaos,omitempty"`
	EDNS   int    `json:"edns"`
	ID     uint16 `json:"id"`
	// The header bits that a response echoes: RD (set unless NoRD), CD, AD.
	NoRD bool `json:"no_rd,omitempty"`
	CD   bool `json:"cd,omitempty"`
	AD   bool `json:"ad,omitempty"`
	// Var, when not zero, stands in for the ID where the EDNS parameters of
	// the request (cookie, client subnet, UDP size) are derived from it.
	Var uint16 `json:"var,omitempty"`
}

// v is the number that the EDNS parameters of q are derived from.
func (q sreq) v() uint16 {
	if q.Var != 0 {
		return q.Var
	}

	return q.ID
}

func (q sreq) msg() *dns.Msg {
	m := &dns.Msg{}
	m.SetQuestion(q.Name, q.Qtype)
	m.Id = q.ID
	m.RecursionDesired, m.CheckingDisabled, m.AuthenticatedData = !q.NoRD, q.CD, q.AD
	if q.Chaos {
		m.Question[0].Qclass = dns.ClassCHAOS
	}
	switch q.EDNS {
	case 1:
		m.SetEdns0(1232, false)
	case 2:
		m.SetEdns0(4096, true)
		opt := m.IsEdns0()
		opt.Option = append(opt.Option, &dns.EDNS0_COOKIE{Code: dns.EDNS0COOKIE, Cookie: fmt.Sprintf("%016x", uint64(q.v())*7919)})
	case 3, 4, 5:
		// The client sends its own subnet (EDNS Client Subnet); no two
		// requests of a round send the same one.  Mode 5: it declines the
		// use of its subnet (RFC 7871, 7.1.2: source prefix length 0).
		m.SetEdns0(uint16(1400+int(q.v()%7)*100), q.EDNS == 4)
		opt := m.IsEdns0()
		opt.Option = append(opt.Option, q.ecs())
	case 6:
		// A malformed client subnet: address bits beyond the prefix.  The
		// ratelimit middleware answers FORMERR itself (after the access checks
		// and the rate limiter), with no location error left for the next user
		// of the pooled RequestInfo.  miekg/dns masks the address of an
		// EDNS0_SUBNET when packing, so the option travels as raw bytes under
		// the same code and the message is what a server unpacks.
		m.SetEdns0(uint16(1400+int(q.v()%7)*100), false)
		opt := m.IsEdns0()
		opt.Option = append(opt.Option, &dns.EDNS0_LOCAL{Code: dns.EDNS0SUBNET,
			Data: []byte{0, 1, 24, 0, 100, byte(64 + q.Client), byte(q.v()), 9}})
	}

	return m
}

// parsed is the message of q as a server hands it to its handler.
func (q sreq) parsed() (m *dns.Msg) {
	m = q.msg()
	if q.EDNS == 6 {
		b, err := m.Pack()
		hlib.Must(err)
		m = &dns.Msg{}
		hlib.Must(m.Unpack(b))
	}

	return m
}

// ecs is the EDNS Client Subnet option of q (EDNS modes 3 and 4).
func (q sreq) ecs() *dns.EDNS0_SUBNET {
	if q.EDNS == 5 {
		return &dns.EDNS0_SUBNET{Code: dns.EDNS0SUBNET, Family: 1, SourceNetmask: 0, Address: net.IP{0, 0, 0, 0}}
	}
	if q.EDNS == 6 {
		return &dns.EDNS0_SUBNET{Code: dns.EDNS0SUBNET, Family: 1, SourceNetmask: 24,
			Address: net.IP{100, byte(64 + q.Client), byte(q.v()), 9}}
	}
	if q.EDNS%2 == 1 {
		return &dns.EDNS0_SUBNET{Code: dns.EDNS0SUBNET, Family: 1, SourceNetmask: 24,
			Address: net.IP{100, byte(64 + q.Client), byte(q.v()), 0}}
	}
	ip := net.ParseIP("2001:db8:aaaa::")
	ip[6], ip[7] = byte(q.Client), byte(q.v())

	return &dns.EDNS0_SUBNET{Code: dns.EDNS0SUBNET, Family: 2, SourceNetmask: 64, Address: ip}
}

// checkECS is the identity oracle for the client subnet: every subnet option
// of the response must be the one the request itself has sent.
func checkECS(q sreq, resp *dns.Msg) (bad string) {
	if resp == nil {
		return ""
	}
	for _, rr := range resp.Extra {
		opt, ok := rr.(*dns.OPT)
		if !ok {
			continue
		}
		for _, o := range opt.Option {
			sn, ok := o.(*dns.EDNS0_SUBNET)
			if !ok {
				continue
			}
			if q.EDNS < 3 {
				return fmt.Sprintf("response carries the client subnet %s/%d although the request has sent none", sn.Address, sn.SourceNetmask)
			}
			own := q.ecs()
			if sn.Family != own.Family || sn.SourceNetmask != own.SourceNetmask || !sn.Address.Equal(own.Address) {
				return fmt.Sprintf("response carries the client subnet %s/%d, the request has sent %s/%d", sn.Address,
					sn.SourceNetmask, own.Address, own.SourceNetmask)
			}
		}
	}

	return ""
}

// checkEcho is the identity oracle for what a response echoes from its
// request: the ID, the question exactly as it was asked (letter case included:
// clients that randomise it drop a response with another spelling), the opcode
// and the RD and CD bits.  It needs no other run to compare with.
func checkEcho(q sreq, resp *dns.Msg) (bad string) {
	var bs []string
	if resp.Id != q.ID {
		bs = append(bs, fmt.Sprintf("id %d, of the request: %d", resp.Id, q.ID))
	}
	qclass := uint16(dns.ClassINET)
	if q.Chaos {
		qclass = dns.ClassCHAOS
	}
	if len(resp.Question) != 1 {
		bs = append(bs, fmt.Sprintf("%d questions", len(resp.Question)))
	} else if rq := resp.Question[0]; rq.Name != q.Name || rq.Qtype != q.Qtype || rq.Qclass != qclass {
		bs = append(bs, fmt.Sprintf("question %s/%d/%d, of the request: %s/%d/%d", rq.Name, rq.Qtype, rq.Qclass, q.Name, q.Qtype, qclass))
	}
	if !resp.Response || resp.Opcode != dns.OpcodeQuery {
		bs = append(bs, fmt.Sprintf("qr=%v opcode=%d", resp.Response, resp.Opcode))
	}
	if resp.RecursionDesired != !q.NoRD || resp.CheckingDisabled != q.CD {
		bs = append(bs, fmt.Sprintf("rd=%v cd=%v, of the request: rd=%v cd=%v", resp.RecursionDesired, resp.CheckingDisabled, !q.NoRD, q.CD))
	}
	if len(bs) == 0 {
		return ""
	}

	return "[" + strings.Join(bs, "; ") + "]"
}

// mixCase spells name with the letters at the set bits of mask in upper case
// (DNS 0x20 encoding).
func mixCase(name string, mask uint32) string {
	b := []byte(strings.ToLower(name))
	for i := range b {
		if mask>>(uint(i)%32)&1 == 1 && b[i] >= 'a' && b[i] <= 'z' {
			b[i] -= 'a' - 'A'
		}
	}

	return string(b)
}

func clientIP(c int) netip.Addr {
	return netip.AddrFrom4([4]byte{10, 0, byte(c / 200), byte(c%200 + 1)})
}

func nameHash(s string) uint32 {
	h := fnv.New32a()
	_, _ = h.Write([]byte(s))

	return h.Sum32()
}

// upstream answers as a function of the question only, through Pack/Unpack as
// the real forwarder does.
func upstream(f *fixture) dnsserver.Handler {
	return dnsserver.HandlerFunc(func(ctx context.Context, rw dnsserver.ResponseWriter, req *dns.Msg) error {
		q := req.Question[0]
		f.hook(f.reqs[req.Id].Client, "upstream")
		if strings.HasPrefix(strings.ToLower(q.Name), "fail.") {
			// The upstreams are down for this name.
			f.count("upstream.failure")

			return fmt.Errorf("upstream: exchanging %q: connection refused", q.Name)
		}
		// Names are case-insensitive; the question is echoed as it was asked,
		// the records carry the canonical name.
		q.Name = strings.ToLower(q.Name)
		hn := nameHash(q.Name)
		// h is what the records are made of.  An upstream that tailors its
		// answers (the fixture's, when ecsDep is set) makes the records of
		// half of the names a function of the client subnet it is sent, and
		// says so in the scope of the subnet it echoes.
		h := hn
		if o := req.IsEdns0(); o != nil && f.ecsDep && hn%2 == 0 {
			for _, x := range o.Option {
				if sn, ok := x.(*dns.EDNS0_SUBNET); ok && sn.SourceNetmask > 0 {
					h = hn ^ nameHash(fmt.Sprintf("%s/%d", sn.Address, sn.SourceNetmask))*2
					f.count("upstream.answer-tailored-to-subnet")
				}
			}
		}
		resp := (&dns.Msg{}).SetReply(req)
		resp.RecursionAvailable = true
		if neg := strings.HasPrefix(q.Name, "nx.") || strings.HasPrefix(q.Name, "nodata."); neg {
			// Negative answers: the SOA in the authority section is what makes
			// them cacheable (and the SOA is a pooled structure of the cloner).
			if strings.HasPrefix(q.Name, "nx.") {
				resp.Rcode = dns.RcodeNameError
			}
			resp.Ns = append(resp.Ns, &dns.SOA{Hdr: dns.RR_Header{Name: "example.", Rrtype: dns.TypeSOA, Class: dns.ClassINET, Ttl: 300},
				Ns: "ns.example.", Mbox: "root.example.", Serial: hn, Refresh: 7200, Retry: 900, Expire: 86400, Minttl: 300})
			q.Qtype = dns.TypeNone
			f.count("upstream.negative-answer")
		}
		hdr := dns.RR_Header{Name: q.Name, Rrtype: q.Qtype, Class: dns.ClassINET, Ttl: 300}
		switch q.Qtype {
		case dns.TypeA:
			for i := uint32(0); i <= h%3; i++ {
				resp.Answer = append(resp.Answer, &dns.A{Hdr: hdr, A: net.IP{192, 0, byte(h >> 8), byte(h + i)}})
			}
		case dns.TypeAAAA:
			ip := net.ParseIP("2001:db8::")
			ip[12], ip[13], ip[14], ip[15] = byte(h>>24), byte(h>>16), byte(h>>8), byte(h)
			resp.Answer = append(resp.Answer, &dns.AAAA{Hdr: hdr, AAAA: ip})
		case dns.TypeTXT:
			resp.Answer = append(resp.Answer, &dns.TXT{Hdr: hdr, Txt: []string{"txt-" + q.Name, fmt.Sprint(h)}})
		case dns.TypeHTTPS:
			v4 := &dns.SVCBIPv4Hint{}
			for i := uint32(0); i <= h%9; i++ {
				v4.Hint = append(v4.Hint, net.IP{198, 51, byte(h >> 8), byte(h + i)})
			}
			v6 := &dns.SVCBIPv6Hint{}
			for i := uint32(0); i <= h%3; i++ {
				ip := net.ParseIP("2001:db8:1::")
				ip[13], ip[14], ip[15] = byte(h>>16), byte(h>>8), byte(h+i)
				v6.Hint = append(v6.Hint, ip)
			}
			resp.Answer = append(resp.Answer, &dns.HTTPS{SVCB: dns.SVCB{Hdr: hdr, Priority: 1, Target: ".",
				Value: []dns.SVCBKeyValue{&dns.SVCBAlpn{Alpn: []string{"h2", fmt.Sprint("x", h%7)}}, v4, v6}}})
		}
		// A validating upstream: a quarter of the names are signed; the
		// signature is sent to those who ask for it.
		resp.AuthenticatedData = hn%4 == 0
		if o := req.IsEdns0(); o != nil && o.Do() && hn%4 == 0 && len(resp.Answer) > 0 {
			resp.Answer = append(resp.Answer, &dns.RRSIG{Hdr: dns.RR_Header{Name: q.Name, Rrtype: dns.TypeRRSIG, Class: dns.ClassINET, Ttl: 300},
				TypeCovered: q.Qtype, Algorithm: 13, Labels: 2, OrigTtl: 300, Expiration: 1900000000, Inception: 1700000000,
				KeyTag: uint16(hn), SignerName: "example.", Signature: "c2lnbmF0dXJl"})
		}
		if o := req.IsEdns0(); o != nil {
			resp.SetEdns0(o.UDPSize(), o.Do())
			for _, x := range o.Option {
				// An ECS-aware upstream echoes the subnet; for half of the
				// names the answer depends on it (scope > 0).
				if sn, ok := x.(*dns.EDNS0_SUBNET); ok {
					echo := *sn
					echo.SourceScope = 0
					if hn%2 == 0 {
						echo.SourceScope = sn.SourceNetmask
					}
					ro := resp.IsEdns0()
					ro.Option = append(ro.Option, &echo)
				}
			}
		}
		b, err := resp.Pack()
		if err != nil {
			return err
		}
		wire := &dns.Msg{}
		if err = wire.Unpack(b); err != nil {
			return err
		}

		return rw.WriteMsg(ctx, req, wire)
	})
}

type fixture struct {
	st     *stack.Stack
	cloner *dnsmsg.Cloner
	srv    *agd.Server
	// reqs are the requests of the round by ID (read-only while serving).
	reqs map[uint16]sreq

	mu      sync.Mutex
	idViols []finding
	// yieldSeed != 0: the hooks hand the processor to the other requests.
	yieldSeed uint64
	// riOwner names the request in flight that was seen with a RequestInfo.
	riOwner map[*agd.RequestInfo]uint16
	// hookN counts the hooks passed (the yields are a function of it).
	hookN atomic.Uint64
	// coldN counts the filter calls of a fixture that empties the caches of
	// the production filters before every call.
	coldN atomic.Uint64
	// park: the request of client parkClient stops at hook parkStage (once)
	// until resumeCh is closed; parkedCh is closed when it has stopped.
	parkStage          string
	parkClient         int
	parkOnce           sync.Once
	parkedCh, resumeCh chan struct{}
	// logPath != "": the production file-system query log writes there.
	logPath    string
	logEntries []*querylog.Entry
	// riSeen: the fields of the RequestInfo of a request (by ID) as its filter
	// was handed them at the request stage (ctx.go).
	riSeen map[uint16][]uint32
	// ipOf is the address of a client.
	ipOf func(c int) netip.Addr
	// ecsDep: the upstream tailors the records of half of the names to the
	// client subnet it is sent (set by the campaigns that compute what a
	// request gets alone on a stack with the same kind of cache).
	ecsDep bool
}

// stackCounts are the distribution counters of the fakes (they are called from
// many goroutines); main adds them to the result.
var (
	stackCountsMu sync.Mutex
	stackCounts   = map[string]int{}
)

func (f *fixture) count(bucket string) {
	stackCountsMu.Lock()
	stackCounts[bucket]++
	stackCountsMu.Unlock()
}

// geoSubnetFor is the subnet that the GeoIP database of the fixture gives for a
// location: one per country and address family, so that the upstream sees where
// a request comes from when the ECS cache sends the subnet of the location.
func geoSubnetFor(l *geoip.Location, fam netutil.AddrFamily) (netip.Prefix, error) {
	idx := byte(len(geoCountries))
	for i, c := range geoCountries {
		if l != nil && c == l.Country {
			idx = byte(i)
		}
	}
	if fam == netutil.AddrFamilyIPv6 {
		return netip.PrefixFrom(netip.AddrFrom16([16]byte{0x20, 0x01, 0x0d, 0xb8, 0, idx}), 48), nil
	}

	return netip.PrefixFrom(netip.AddrFrom4([4]byte{198, 51, idx, 0}), 24), nil
}

// Names of the Discovery of Designated Resolvers fixture.
const (
	ddrPublicTarget = "dns.example"
	ddrDeviceTarget = "d.dns.example"
)

// newDDR is the DDR configuration of the server group, as internal/cmd builds
// it: record templates that are shared by all requests and copied into every
// DDR response (the device ID of the client is put in front of the target).
func newDDR(msgs *dnsmsg.Constructor) *agd.DDR {
	v4 := []netip.Addr{netip.MustParseAddr("192.0.2.53"), netip.MustParseAddr("192.0.2.54")}
	v6 := []netip.Addr{netip.MustParseAddr("2001:db8::53")}
	d := &agd.DDR{Enabled: true, DeviceTargets: container.NewMapSet(ddrDeviceTarget), PublicTargets: container.NewMapSet(ddrPublicTarget)}
	for i, proto := range []dnsserver.Protocol{dnsserver.ProtoDoT, dnsserver.ProtoDoH, dnsserver.ProtoDoQ} {
		path := ""
		if proto == dnsserver.ProtoDoH {
			path = "/dns-query{?dns}"
		}
		d.PublicRecordTemplates = append(d.PublicRecordTemplates,
			msgs.NewDDRTemplate(proto, ddrPublicTarget, path, v4, v6, uint16(853-i*410), uint16(i+1)))
		d.DeviceRecordTemplates = append(d.DeviceRecordTemplates,
			msgs.NewDDRTemplate(proto, ddrDeviceTarget, path, v4, nil, uint16(853-i*410), uint16(i+1)))
	}

	return d
}

// hookStages are the boundaries of the stack at which the fixture can hold a
// request while others are served, in the order in which a request passes them.
var hookStages = []string{"geoip", "profiledb", "access", "ratelimit", "filter-request", "upstream", "filter-response", "querylog"}

// hook is called at every boundary between the stack and a fake, on behalf of
// the request of the given client (-1: unknown).
func (f *fixture) hook(client int, stage string) {
	if f.parkStage == stage && f.parkClient == client {
		f.parkOnce.Do(func() {
			close(f.parkedCh)
			<-f.resumeCh
		})
	}
	if f.yieldSeed == 0 {
		return
	}
	for n := h32(f.yieldSeed, f.hookN.Add(1), stage) % 3; n > 0; n-- {
		runtime.Gosched()
	}
}

// clientOfIP is the inverse of clientIP (-1: not a client address).
func clientOfIP(ip netip.Addr) int {
	if b := ip.Unmap(); b.Is4() {
		if a := b.As4(); a[0] == 10 && a[1] == 0 && a[3] >= 1 {
			return int(a[2])*200 + int(a[3]) - 1
		}
	}

	return -1
}

func isAccessBlocked(host string) bool {
	return strings.HasPrefix(strings.ToLower(host), "accessblocked.")
}
func isRateLimited(host string) bool { return strings.HasPrefix(strings.ToLower(host), "ratelimited.") }

// claim is called with the RequestInfo that request id is seen with at a
// filter hook.  A request is certainly in flight between its FilterRequest and
// its FilterResponse hook (when the handler returns cannot be seen from here:
// the RequestInfo goes back to its pool before Serve returns), so that is the
// time for which it owns the object; other is a request that owns it then.
func (f *fixture) claim(ri *agd.RequestInfo, id uint16, stage string, hasRespStage bool) (other uint16, shared bool) {
	f.mu.Lock()
	defer f.mu.Unlock()
	if f.riOwner == nil {
		f.riOwner = map[*agd.RequestInfo]uint16{}
	}
	o, ok := f.riOwner[ri]
	shared = ok && o != id
	switch {
	case shared:
	case stage == "FilterRequest" && hasRespStage:
		f.riOwner[ri] = id
	case stage == "FilterResponse":
		delete(f.riOwner, ri)
	}

	return o, shared
}

// done is called when the handler of request id has returned.
func (f *fixture) done(id uint16) {
	f.mu.Lock()
	defer f.mu.Unlock()
	for ri, o := range f.riOwner {
		if o == id {
			delete(f.riOwner, ri)
		}
	}
}

func isBlockedFor(profile int, host string) bool {
	return strings.HasPrefix(host, "blocked.") || strings.HasPrefix(host, fmt.Sprintf("p%d-blocked.", profile))
}

// profileOf is the index of the filter that serves client c: its own profile,
// or the default filtering group.
func profileOf(c int) int { return min(c, nProfiles) }

// devName is the human-readable name of the device of client c; every other
// device has none.
func devName(c int) agd.DeviceName {
	if c < nProfiles && c%2 == 1 {
		return agd.DeviceName(fmt.Sprintf("device-name-%d", c))
	}

	return ""
}

var geoCountries = []geoip.Country{geoip.CountryAD, geoip.CountryBR, geoip.CountryDE, geoip.CountryJP}

// geoFor is the GeoIP database of the fixture: a function of the address.
func geoFor(ip netip.Addr) *geoip.Location {
	b := ip.As16()
	h := nameHash(string(b[:]))

	return &geoip.Location{Country: geoCountries[h%4], Continent: geoip.ContinentEU, ASN: geoip.ASN(1000 + h%50)}
}

// errProfileDBDown is what the profile database of the fixture returns for the
// address and the device ID of client devErrClient.
var errProfileDBDown = fmt.Errorf("profiledb: looking up the device: backend is down")

// clientOf is the client whose address ip is (-1: none).
func (f *fixture) clientOf(ip netip.Addr) int {
	ip = ip.Unmap()
	for c := 0; c < 64; c++ {
		if f.ipOf(c) == ip {
			return c
		}
	}

	return -1
}

// geoData is what the GeoIP database of the fixture has for ip: nothing for the
// addresses of the clients with a GeoIP fault class, and nothing for one in
// eight of the other addresses (the client subnets that requests carry).
func (f *fixture) geoData(ip netip.Addr) *geoip.Location {
	if c := f.clientOf(ip); c >= 0 {
		if geoFault(c) != 0 {
			return nil
		}
	} else if b := ip.As16(); nameHash(string(b[:]))%8 == 7 {
		return nil
	}

	return geoFor(ip)
}

// cnameTargets are the names that the CNAME rewrite rule of each profile (the
// last one: of the default filtering group) points to.
var cnameTargets = []string{"one.example.", "two.example.", "three.example.org.", "four.test.", "six.test.", "seven.example.",
	"eight.test.", "five.test."}

// rewriteIP is the address that the rewrite rule of a profile answers with.
func rewriteIP(profile int) netip.Addr {
	return netip.AddrFrom4([4]byte{203, 0, 113, byte(10 + profile)})
}

// identity is the oracle at the boundary between the middlewares and the
// filters: whatever reaches the filter of a request through pooled context
// objects (agd.RequestInfo, filter.Request, filter.Response) must be the data of
// that very request.  The expectation is computed from the request table only.
func (f *fixture) identity(ctx context.Context, stage string, profile int, msg *dns.Msg, remote netip.Addr, clientName string,
	fr *filter.Request, hasRespStage bool) {
	var bad []string
	defer func() {
		if v := recover(); v != nil {
			bad = append(bad, fmt.Sprintf("panic: %v", v))
		}
		if len(bad) > 0 {
			f.mu.Lock()
			f.idViols = append(f.idViols, finding{"handler-context-of-another-request", stage + ": " + strings.Join(bad, "; ")})
			f.mu.Unlock()
		}
	}()
	if msg == nil {
		bad = append(bad, "no message")

		return
	}
	q, ok := f.reqs[msg.Id]
	if !ok {
		bad = append(bad, fmt.Sprintf("message id %d is not a request of this round", msg.Id))

		return
	}
	chk := func(what string, got, want any) {
		if got != want {
			bad = append(bad, fmt.Sprintf("request %+v: %s is %v, of this request: %v", q, what, got, want))
		}
	}
	host := strings.ToLower(strings.TrimSuffix(q.Name, "."))
	qclass := uint16(dns.ClassINET)
	if q.Chaos {
		qclass = dns.ClassCHAOS
	}
	chk("filter profile", profile, profileOf(q.Client))
	chk("remote ip", remote, clientIP(q.Client))
	chk("client name", clientName, string(devName(q.Client)))
	if len(msg.Question) != 1 {
		bad = append(bad, "question count")
	}
	if fr != nil {
		chk("filter.Request.Host", fr.Host, host)
		chk("filter.Request.QType", fr.QType, q.Qtype)
		chk("filter.Request.QClass", fr.QClass, qclass)
		chk("question name", msg.Question[0].Name, q.Name)
		// The constructor is the one of the profile, or the server's when the
		// profile's cannot be built: its TTL names it.
		wantTTL := ctorTTL(q.Client)
		if fr.Messages == nil {
			bad = append(bad, "no message constructor")
		} else {
			chk("constructor (filtered-response TTL)", fr.Messages.NewAnswerCNAME(msg, "probe.").Hdr.Ttl, wantTTL)
		}
	}
	ri := agd.MustRequestInfoFromContext(ctx)
	if stage == "FilterRequest" {
		obs := f.riObserved(ri, msg)
		f.mu.Lock()
		if f.riSeen == nil {
			f.riSeen = map[uint16][]uint32{}
		}
		f.riSeen[q.ID] = obs
		f.mu.Unlock()
	}
	if o, shared := f.claim(ri, q.ID, stage, hasRespStage); shared {
		bad = append(bad, fmt.Sprintf("request %+v uses the RequestInfo object that request %d, still in flight, uses", q, o))
	}
	chk("RequestInfo.RemoteIP", ri.RemoteIP, clientIP(q.Client))
	if ri.Messages == nil {
		bad = append(bad, "RequestInfo without a message constructor")
	} else {
		chk("RequestInfo.Messages (filtered-response TTL)", ri.Messages.NewAnswerCNAME(msg, "probe.").Hdr.Ttl, ctorTTL(q.Client))
	}
	chk("RequestInfo.Host", ri.Host, host)
	chk("RequestInfo.QType", ri.QType, q.Qtype)
	chk("RequestInfo.QClass", ri.QClass, qclass)
	prof, dev := ri.DeviceData()
	if q.Client < nProfiles {
		if prof == nil || dev == nil {
			bad = append(bad, fmt.Sprintf("request %+v: no profile in RequestInfo", q))
		} else {
			chk("RequestInfo profile", string(prof.ID), fmt.Sprintf("prof%04d", q.Client))
			chk("RequestInfo device", string(dev.ID), fmt.Sprintf("dev%05d", q.Client))
		}
	} else if prof != nil {
		bad = append(bad, fmt.Sprintf("request %+v: anonymous client with profile %s", q, prof.ID))
	}
	if want := f.geoData(f.ipOf(q.Client)); ri.Location == nil || want == nil {
		if ri.Location != nil {
			bad = append(bad, fmt.Sprintf("request %+v: RequestInfo.Location is %+v, the GeoIP database has nothing for this client", q,
				*ri.Location))
		} else if want != nil {
			bad = append(bad, "no location")
		}
	} else {
		chk("RequestInfo.Location", *ri.Location, *want)
	}
	if q.EDNS >= 3 {
		own := q.ecs()
		addr, _ := netip.AddrFromSlice(own.Address)
		want := netip.PrefixFrom(addr.Unmap(), int(own.SourceNetmask)).Masked()
		if ri.ECS == nil {
			bad = append(bad, fmt.Sprintf("request %+v: RequestInfo.ECS is missing", q))
		} else {
			chk("RequestInfo.ECS.Subnet", ri.ECS.Subnet, want)
		}
	} else if ri.ECS != nil {
		bad = append(bad, fmt.Sprintf("request %+v: RequestInfo.ECS is %v, the request has none", q, ri.ECS.Subnet))
	}
}

func newFixture(cache *dnssvc.CacheConfig, reqs map[uint16]sreq, logPath ...string) *fixture {
	f := newFixtureWith(cache, reqs, nil, false, logPath...)
	// The simple cache is for deployments without subnet-dependent answers (its
	// key has no subnet); with it the upstream answers by the question only.
	f.ecsDep = cache == nil || cache.Type != dnssvc.CacheTypeSimple

	return f
}

// newFixtureWith is newFixture with the production filters of real (if not
// nil) in place of the scripted ones; cold: their caches are emptied before
// every call.
func newFixtureWith(cache *dnssvc.CacheConfig, reqs map[uint16]sreq, real *realFilters, cold bool, logPath ...string) *fixture {
	return newFixtureOpts(cache, reqs, real, cold, fixtureOpts{}, logPath...)
}

// fixtureOpts are the options of the wire campaign (wire.go): the addresses of
// the clients (loopback addresses that a socket can be bound to), the servers
// of the group, and no identity oracle at the filters (it finds the request of a
// message by its ID; on the wire the clients use the same IDs at the same time).
type fixtureOpts struct {
	ipOf    func(c int) netip.Addr
	servers []*agd.Server
	noIdent bool
}

func newFixtureOpts(cache *dnssvc.CacheConfig, reqs map[uint16]sreq, real *realFilters, cold bool, fo fixtureOpts,
	logPath ...string) *fixture {
	f := &fixture{reqs: reqs, parkClient: -2}
	ipOf := clientIP
	if fo.ipOf != nil {
		ipOf = fo.ipOf
	}
	f.ipOf = ipOf
	if len(logPath) > 0 {
		f.logPath = logPath[0]
	}
	profs := make([]*agd.Profile, nProfiles)
	devs := make([]*agd.Device, nProfiles)
	confs := map[filter.Config]int{}
	for i := range profs {
		conf := &filter.ConfigClient{Custom: &filter.ConfigCustom{}, Parental: &filter.ConfigParental{},
			RuleList: &filter.ConfigRuleList{}, SafeBrowsing: &filter.ConfigSafeBrowsing{}}
		if real != nil {
			conf = real.confs[i]
		}
		confs[conf] = i
		devs[i] = &agd.Device{Auth: &agd.AuthSettings{PasswordHash: agdpasswd.AllowAuthenticator{}},
			ID: agd.DeviceID(fmt.Sprintf("dev%05d", i)), LinkedIP: ipOf(i), FilteringEnabled: true, Name: devName(i)}
		profs[i] = &agd.Profile{
			FilterConfig: conf, Access: access.EmptyProfile{}, BlockingMode: profSpecs[i].mode,
			Ratelimiter: agd.GlobalRatelimiter{}, ID: agd.ProfileID(fmt.Sprintf("prof%04d", i)),
			DeviceIDs: []agd.DeviceID{devs[i].ID}, FilteredResponseTTL: profSpecs[i].ttl,
			// Profiles 2 and 5 do not log the address of the client: the pooled
			// entry of the file query log must not keep the previous client's.
			FilteringEnabled: true, QueryLogEnabled: true, IPLogEnabled: i%3 != 2,
			// The policies for the special domains of the initial middleware
			// differ between the profiles (anonymous clients: nothing blocked).
			BlockFirefoxCanary: i%2 == 0, BlockPrivateRelay: i%2 == 1, BlockChromePrefetch: i < 2,
		}
	}
	pdb := stack.NotFoundProfileDB()
	pdb.OnProfileByLinkedIP = func(_ context.Context, ip netip.Addr) (*agd.Profile, *agd.Device, error) {
		f.hook(clientOfIP(ip), "profiledb")
		for i := range profs {
			if ipOf(i) == ip {
				return profs[i], devs[i], nil
			}
		}
		if ip == ipOf(devErrClient) {
			f.count("profiledb.lookup-failed")

			return nil, nil, errProfileDBDown
		}

		return nil, nil, profiledb.ErrDeviceNotFound
	}
	// The encrypted protocols find the device by the ID in the TLS server name.
	pdb.OnProfileByDeviceID = func(_ context.Context, id agd.DeviceID) (*agd.Profile, *agd.Device, error) {
		for i := range profs {
			if devs[i].ID == id {
				return profs[i], devs[i], nil
			}
		}
		if id == agd.DeviceID(fmt.Sprintf("dev%05d", devErrClient)) {
			f.count("profiledb.lookup-failed")

			return nil, nil, errProfileDBDown
		}

		return nil, nil, profiledb.ErrDeviceNotFound
	}
	cl := agdtest.NewCloner()
	mkFilter := func(profile int) filter.Interface {
		rule := func(host string) filter.RuleText { return filter.RuleText("||" + host + "^") }

		return &agdtest.Filter{
			OnFilterRequest: func(ctx context.Context, req *filter.Request) (filter.Result, error) {
				if !fo.noIdent {
					f.hook(f.reqs[req.DNS.Id].Client, "filter-request")
					// No response stage follows a CNAME rewrite, nor a failure of the
					// upstreams.
					f.identity(ctx, "FilterRequest", profile, req.DNS, req.RemoteIP, req.ClientName, req,
						!strings.HasPrefix(req.Host, "cname.") && !strings.HasPrefix(req.Host, "fail."))
				}
				switch {
				case isFilterReqErr(req.Host):
					f.count("filter.request-stage-error")

					return nil, fmt.Errorf("filtering %q: rule storage is closed", req.Host)
				case isBlockedFor(profile, req.Host):
					return &filter.ResultBlocked{List: "verif_list", Rule: rule(req.Host)}, nil
				case strings.HasPrefix(req.Host, "allow."):
					return &filter.ResultAllowed{List: "verif_allow", Rule: rule(req.Host)}, nil
				case strings.HasPrefix(req.Host, "cname."):
					// A CNAME rewrite rule, as the safe-search and the rule-list
					// filters make it: a clone of the request for another name.
					mod := cl.Clone(req.DNS)
					mod.Question[0].Name = cnameTargets[profile]

					return &filter.ResultModifiedRequest{Msg: mod, List: "verif_cname", Rule: rule(req.Host)}, nil
				case strings.HasPrefix(req.Host, "rewrite.") && req.QType == dns.TypeA:
					resp, err := req.Messages.NewRespIP(req.DNS, rewriteIP(profile))
					if err != nil {
						return nil, err
					}

					return &filter.ResultModifiedResponse{Msg: resp, List: "verif_rewrite", Rule: rule(req.Host)}, nil
				}

				return nil, nil
			},
			OnFilterResponse: func(ctx context.Context, resp *filter.Response) (filter.Result, error) {
				if !fo.noIdent {
					f.hook(f.reqs[resp.DNS.Id].Client, "filter-response")
					f.identity(ctx, "FilterResponse", profile, resp.DNS, resp.RemoteIP, resp.ClientName, nil, true)
				}
				if isFilterRespErr(resp.DNS.Question[0].Name) {
					f.count("filter.response-stage-error")

					return nil, fmt.Errorf("filtering the response for %q: rule storage is closed", resp.DNS.Question[0].Name)
				}
				if q := resp.DNS.Question[0]; strings.HasPrefix(strings.ToLower(q.Name), "rblock.") && profile%2 == 0 {
					return &filter.ResultBlocked{List: "verif_resp_list", Rule: rule(strings.ToLower(q.Name))}, nil
				}

				return nil, nil
			},
		}
	}
	flts := make([]filter.Interface, nProfiles+1)
	for i := range flts {
		flts[i] = mkFilter(i)
	}
	fs := &agdtest.FilterStorage{
		OnForConfig: func(ctx context.Context, c filter.Config) filter.Interface {
			i, ok := confs[c]
			if !ok {
				i = nProfiles
			}
			if real != nil {
				return &realFilter{f: f, rf: real, inner: real.strg.ForConfig(ctx, c), profile: i, cold: cold}
			}

			return flts[i]
		},
		OnHasListID: func(filter.ID) bool { return true },
	}
	// The cache metrics register with the default registerer under a fixed
	// name; give every fixture its own.
	prometheus.DefaultRegisterer = prometheus.NewRegistry()
	srv := stack.NewServer("dns", agd.ProtoDNS, true)
	servers := []*agd.Server{srv}
	if fo.servers != nil {
		servers, srv = fo.servers, fo.servers[0]
	}
	// The constructor of the server (for clients without a profile) differs from
	// the one of every profile.
	msgs, err := dnsmsg.NewConstructor(&dnsmsg.ConstructorConfig{Cloner: cl, BlockingMode: &dnsmsg.BlockingModeNXDOMAIN{},
		StructuredErrors: agdtest.NewSDEConfig(true), FilteredResponseTTL: 7 * time.Second, EDEEnabled: true})
	hlib.Must(err)
	var group *filter.ConfigGroup
	if real != nil {
		group = real.group
	}
	conf := &stack.Config{ProfileDB: pdb, FilterStorage: fs, Upstream: upstream(f), Cache: cache, Cloner: cl,
		Servers: servers, Messages: msgs, GroupFilterConfig: group, GeoSubnet: geoSubnetFor,
		GeoData: func(_ string, ip netip.Addr) (*geoip.Location, error) {
			f.hook(clientOfIP(ip), "geoip")
			l := f.geoData(ip)
			if l == nil && geoFault(f.clientOf(ip)) == 2 {
				f.count("geoip.lookup-failed")

				return nil, fmt.Errorf("geoip: looking up %s: database is being replaced", ip)
			} else if l == nil {
				f.count("geoip.no-data")
			}

			return l, nil
		},
		// Global access rules and the global rate limiter drop requests for
		// two names without any response.
		Access: &agdtest.AccessManager{
			OnIsBlockedHost: func(host string, _ uint16) bool { return isAccessBlocked(host) },
			OnIsBlockedIP: func(ip netip.Addr) bool {
				f.hook(clientOfIP(ip), "access")

				return false
			},
		},
		RateLimit: &agdtest.RateLimit{
			OnIsRateLimited: func(_ context.Context, req *dns.Msg, ip netip.Addr) (bool, bool, error) {
				f.hook(clientOfIP(ip), "ratelimit")

				return isRateLimited(req.Question[0].Name), false, nil
			},
			OnCountResponses: func(context.Context, *dns.Msg, netip.Addr) {},
		},
	}
	if f.logPath != "" {
		conf.QueryLog = querylog.NewFileSystem(&querylog.FileSystemConfig{Logger: slogutil.NewDiscardLogger(), Path: f.logPath,
			RandSeed: 1})
	} else {
		conf.QueryLog = &agdtest.QueryLog{OnWrite: func(_ context.Context, e *querylog.Entry) error {
			cp := *e
			f.mu.Lock()
			f.logEntries = append(f.logEntries, &cp)
			f.mu.Unlock()
			f.hook(clientOfIP(e.RemoteIP), "querylog")

			return nil
		}}
	}
	f.st = stack.New(conf)
	f.cloner, f.srv = cl, srv
	// The handlers read the DDR configuration through the server group on every
	// request; nothing is served yet.
	f.st.Group.DDR = newDDR(msgs)

	return f
}

// canon renders what the client receives.  Upstream TTLs are 300 and may have
// aged by a few seconds in a cache; filtered TTLs are 10, 20, 30, 40.
func canon(m *dns.Msg) string {
	if m == nil {
		return "<none>"
	}
	var sb strings.Builder
	h := m.MsgHdr
	fmt.Fprintf(&sb, "id=%d rc=%d qr=%v aa=%v tc=%v rd=%v ra=%v ad=%v cd=%v", h.Id, h.Rcode, h.Response, h.Authoritative,
		h.Truncated, h.RecursionDesired, h.RecursionAvailable, h.AuthenticatedData, h.CheckingDisabled)
	for _, q := range m.Question {
		fmt.Fprintf(&sb, " q=%s/%d/%d", q.Name, q.Qtype, q.Qclass)
	}
	var opts strings.Builder
	sec := func(name string, rrs []dns.RR) {
		for _, rr := range rrs {
			hd := rr.Header()
			if opt, ok := rr.(*dns.OPT); ok {
				// The transport layer (normalize, applied by serve) has set the
				// EDNS parameters from the request.  The client subnet is
				// checked apart (checkECS): an upstream echoes it, the ECS
				// cache sets it anew, the other caches drop it.
				// The DO bit is left out: normalize does not set it on an OPT
				// that it creates itself (after a cache has dropped the
				// upstream's), so cached and fresh responses differ in it;
				// that is cached-vs-fresh equality, not identity.
				// Where the OPT stands among the additional records depends on
				// who has made it (upstream: before the debug records,
				// normalize: last); it is rendered after the other records.
				fmt.Fprintf(&opts, " %s{opt udp=%d ttl=%#x", name, opt.UDPSize(), opt.Hdr.Ttl&^doBit)
				for _, o := range opt.Option {
					if _, isSN := o.(*dns.EDNS0_SUBNET); !isSN {
						fmt.Fprintf(&opts, " %d:%s", o.Option(), o.String())
					}
				}
				opts.WriteString("}")

				continue
			}
			ttl := hd.Ttl
			if hd.Rrtype != dns.TypeOPT && ttl >= 290 && ttl <= 300 {
				ttl = 300
			}
			s := rr.String()
			if i := strings.Index(s, "\t"); i >= 0 && hd.Rrtype != dns.TypeOPT {
				// Drop "name\tttl" and keep the rest; the TTL is printed apart.
				rest := strings.SplitN(s, "\t", 3)
				s = rest[0] + " " + rest[len(rest)-1]
			}
			fmt.Fprintf(&sb, " %s{%s ttl=%d}", name, s, ttl)
			if hs, ok := rr.(*dns.HTTPS); ok {
				fmt.Fprintf(&sb, "[%s]", showObjs(flattenHTTPS(hs)[1:]))
			}
		}
	}
	sec("an", m.Answer)
	sec("ns", m.Ns)
	sec("ex", m.Extra)

	return sb.String() + opts.String()
}

// logKey renders the query log of f, sorted: one line per entry with the fields
// that the file format has, then " |" and the types of the filtering results
// (known only to the recording log).  A line of the file that is not one JSON
// object is rendered as such.
func logKey(f *fixture) []string {
	var keys []string
	if f.logPath != "" {
		data, _ := os.ReadFile(f.logPath)
		for _, line := range strings.Split(strings.TrimSuffix(string(data), "\n"), "\n") {
			if line == "" && len(data) == 0 {
				continue
			}
			var e struct {
				N, B, I, C, D, L, M string
				IP                  *netip.Addr
				R, Q, A, S          int
			}
			dec := json.NewDecoder(strings.NewReader(line))
			if err := dec.Decode(&e); err != nil || dec.More() {
				keys = append(keys, fmt.Sprintf("TORN-LINE %q", line))

				continue
			}
			ip := netip.Addr{}
			if e.IP != nil {
				ip = *e.IP
			}
			keys = append(keys, fmt.Sprintf("%s %s %s %s rc=%d qt=%d client=%s/%d resp=%s list=%s rule=%s dnssec=%v |", e.N, e.B, e.I, ip,
				e.R, e.Q, e.C, e.A, e.D, e.L, e.M, e.S != 0))
		}
		sort.Strings(keys)

		return keys
	}
	f.mu.Lock()
	entries := f.logEntries
	f.logEntries = nil
	f.mu.Unlock()
	for _, e := range entries {
		typ := func(r filter.Result) string {
			if r == nil {
				return "-"
			}

			return fmt.Sprintf("%T", r)
		}
		var id filter.ID
		var rule filter.RuleText
		if e.RequestResult != nil {
			id, rule = e.RequestResult.MatchedRule()
		} else if e.ResponseResult != nil {
			id, rule = e.ResponseResult.MatchedRule()
		}
		keys = append(keys, fmt.Sprintf("%s %s %s %s rc=%d qt=%d client=%s/%d resp=%s list=%s rule=%s dnssec=%v | req-res=%s resp-res=%s",
			e.DomainFQDN, e.ProfileID, e.DeviceID, e.RemoteIP, e.ResponseCode, e.RequestType, e.ClientCountry, e.ClientASN,
			e.ResponseCountry, id, rule, e.DNSSEC, typ(e.RequestResult), typ(e.ResponseResult)))
	}
	sort.Strings(keys)

	return keys
}

// fileFields cuts the result types off the lines of a recorded log, so that it
// can be compared with a log file.
func fileFields(keys []string) (out []string) {
	for _, k := range keys {
		out = append(out, k[:strings.Index(k, " |")+2])
	}

	return out
}

// handle runs one request up to the point where the UDP writer of ServerBase
// packs the response: handler, then normalize.  The response stays in use.
func (f *fixture) handle(q sreq) (resp *dns.Msg, err error) {
	defer func() {
		if v := recover(); v != nil {
			err = fmt.Errorf("panic: %v", v)
		}
	}()
	req := q.parsed()
	defer f.done(q.ID)
	out := f.st.Serve(context.Background(), &stack.Req{Server: f.srv, Msg: req,
		Remote: netip.AddrPortFrom(clientIP(q.Client), 5353), Local: netip.MustParseAddrPort("192.0.2.2:53")})
	if out.Err != nil {
		if !mayFail(q) {
			return nil, out.Err
		}
		// What ServerBase does with an error of the handler: a SERVFAIL made
		// from the request, written like any response.
		f.count("stack.handler-error-answered-with-servfail")
		out.Resp = (&dns.Msg{}).SetRcode(req, dns.RcodeServerFailure)
	}
	if out.Resp != nil {
		dnsserver.VerifC08Normalize(dnsserver.NetworkUDP, dnsserver.ProtoDNS, req, out.Resp, dns.MaxMsgSize)
	}

	return out.Resp, nil
}

// render is what the client receives for q when resp is packed now.
func render(q sreq, resp *dns.Msg) (got string) {
	defer func() {
		if v := recover(); v != nil {
			got = fmt.Sprintf("PANIC %v", v)
		}
	}()
	got = canon(resp)
	if resp != nil {
		if bad := checkEcho(q, resp); bad != "" {
			got = "FOREIGN " + bad + " " + got
		}
		if bad := checkECS(q, resp); bad != "" {
			got = "FOREIGN-ECS " + bad + " " + got
		}
	}

	return got
}

// serve runs one request the way ServerBase does for plain DNS: handler,
// write (here: normalize and render), dispose.
func (f *fixture) serve(q sreq) (got string, err error) {
	resp, err := f.handle(q)
	if err != nil {
		return "", err
	}
	got = render(q, resp)
	if p := f.dispose(resp); p != "" {
		got = p + " " + got
	}

	return got, nil
}

// dispose releases resp as ServerBase does after writing it.  Releasing a
// message must not panic, whatever other requests do.
func (f *fixture) dispose(resp *dns.Msg) (panicked string) {
	defer func() {
		if v := recover(); v != nil {
			panicked = fmt.Sprintf("PANIC-IN-DISPOSE %v", v)
		}
	}()
	f.cloner.Dispose(resp)

	return ""
}

func genStackReqs(rng *rand.Rand, nClients, perClient int) (streams [][]sreq) {
	pool := []string{"blocked.example.", "p0-blocked.example.", "p1-blocked.example.", "p2-blocked.example.",
		"p3-blocked.example.", "p4-blocked.example.", "p5-blocked.example.", "p6-blocked.example.", "blocked.example.",
		// The fault paths whose errors are only collected or answered by the
		// server: a filter that fails at either stage, upstreams that are down.
		"flterr.example.", "rflterr.example.", "fail.example.", "one.example.", "two.example.", "three.example.org.", "four.test.", "five.test.",
		"cname.example.", "cname.example.", "rblock.example.", "allow.example.", "rewrite.example.", "One.Example.",
		"accessblocked.example.", "ratelimited.example.",
		// Negative answers with an SOA; the special domains of the initial
		// middleware, whose handling depends on the profile; Discovery of
		// Designated Resolvers, answered from templates shared by all requests
		// (for a recognised device with its ID in front of the target).
		"nx.example.", "nodata.example.", "use-application-dns.net.", "mask.icloud.com.", "dns-tunnel-check.googlezip.net.",
		"_dns.resolver.arpa.", "_dns.resolver.arpa.", "_dns.dns.example.", "_dns.dev00001.d.dns.example.", "bad.resolver.arpa."}
	id := uint16(rng.IntN(1000))
	for c := 0; c < nClients; c++ {
		var s []sreq
		for k := 0; k < perClient; k++ {
			id++
			q := sreq{Client: c, Name: pool[rng.IntN(len(pool))], ID: id, EDNS: rng.IntN(6),
				Qtype: []uint16{dns.TypeA, dns.TypeAAAA, dns.TypeTXT, dns.TypeHTTPS, dns.TypeHTTPS}[rng.IntN(5)]}
			if strings.HasPrefix(q.Name, "_dns.") && rng.IntN(4) > 0 {
				q.Qtype = dns.TypeSVCB
			}
			if rng.IntN(10) == 0 {
				q.Chaos, q.Qtype = true, dns.TypeTXT
			}
			if rng.IntN(24) == 0 {
				// A malformed client subnet: FORMERR.
				q.EDNS = 6
			}
			// What a response echoes differs between the requests: the letter
			// case of the name and the header bits.
			if rng.IntN(3) == 0 {
				q.Name = mixCase(q.Name, rng.Uint32())
			}
			q.NoRD, q.CD, q.AD = rng.IntN(4) == 0, rng.IntN(4) == 0, rng.IntN(4) == 0
			s = append(s, q)
		}
		streams = append(streams, s)
	}

	return streams
}

// hidx names request K of client C.
type hidx struct{ C, K int }

// heldRun serves the requests named by order in one goroutine.  A response
// stays in use, as with a slow client socket, while the next window requests
// are served; only then it is packed and released.  It must still be what it
// was when the handler returned it, and what the request gets alone.
func heldRun(streams [][]sreq, want [][]string, order []hidx, window int, cache *dnssvc.CacheConfig,
	cname string) (viols []finding, f *fixture, n int) {
	type pending struct {
		at    hidx
		resp  *dns.Msg
		early string
	}
	f = newFixture(cache, reqTable(streams))
	var queue []pending
	release := func(p pending) {
		q := streams[p.at.C][p.at.K]
		late := render(q, p.resp)
		f.cloner.Dispose(p.resp)
		n++
		switch {
		case late != p.early:
			viols = append(viols, finding{"held-response-altered-while-in-use", fmt.Sprintf("cache=%s window=%d request %+v: "+
				"when the handler returned %q, when it was written %q", cname, window, q, p.early, late)})
		case strings.HasPrefix(late, "FOREIGN-ECS"):
			viols = append(viols, finding{"response-client-subnet-of-another-request", fmt.Sprintf("cache=%s request %+v: %q",
				cname, q, late)})
		case late != want[p.at.C][p.at.K]:
			viols = append(viols, finding{"held-response-differs-from-solo", fmt.Sprintf("cache=%s window=%d request %+v: "+
				"alone %q, held %q", cname, window, q, want[p.at.C][p.at.K], late)})
		}
	}
	for _, at := range order {
		q := streams[at.C][at.K]
		resp, err := f.handle(q)
		if err != nil {
			viols = append(viols, finding{"stack-error-held", fmt.Sprintf("request %+v: %v", q, err)})

			continue
		}
		queue = append(queue, pending{at: at, resp: resp, early: render(q, resp)})
		if len(queue) > window {
			release(queue[0])
			queue = queue[1:]
		}
	}
	for _, p := range queue {
		release(p)
	}
	viols = append(viols, f.idViols...)

	return viols, f, n
}

// reqTable indexes the requests of a round by their ID.
func reqTable(streams [][]sreq) map[uint16]sreq {
	t := map[uint16]sreq{}
	for _, s := range streams {
		for _, q := range s {
			if _, dup := t[q.ID]; dup {
				panic("request IDs of a round must be unique")
			}
			t[q.ID] = q
		}
	}

	return t
}

// heldRound is heldRun on a random interleaving of the streams.
func heldRound(rng *rand.Rand, r *hlib.Result, m *hlib.Model, streams [][]sreq, want [][]string, wantLog []string,
	cache *dnssvc.CacheConfig, cname string) {
	var order []hidx
	next := make([]int, len(streams))
	for {
		left := 0
		for c := range streams {
			left += len(streams[c]) - next[c]
		}
		if left == 0 {
			break
		}
		c := rng.IntN(len(streams))
		for next[c] == len(streams[c]) {
			c = (c + 1) % len(streams)
		}
		order = append(order, hidx{c, next[c]})
		next[c]++
	}
	window := 1 + rng.IntN(4)
	r.Count(fmt.Sprintf("stack.held.window=%d", window))
	viols, f, n := heldRun(streams, want, order, window, cache, cname)
	r.Evaluations += n
	inOrder := make([]sreq, 0, len(order))
	for _, at := range order {
		inOrder = append(inOrder, streams[at.C][at.K])
	}
	ctxCorrespondence(r, m, f, inOrder, map[string]any{"campaign": "stack-held", "cache": cname, "window": window})
	for _, v := range viols {
		known := false
		for _, w := range r.Violations {
			known = known || w.Signature == v.sig
		}
		if known {
			continue
		}
		// The shortest schedule with the same kind of failure, as concrete
		// requests.
		small := hlib.Shrink(order, func(sub []hidx) bool {
			vs, _, _ := heldRun(streams, want, sub, window, cache, cname)
			for _, w := range vs {
				if w.sig == v.sig {
					return true
				}
			}

			return false
		})
		what := v.what
		if vs, _, _ := heldRun(streams, want, small, window, cache, cname); len(vs) > 0 {
			for _, w := range vs {
				if w.sig == v.sig {
					what = w.what
				}
			}
		}
		reqs := make([]sreq, 0, len(small))
		for _, at := range small {
			reqs = append(reqs, streams[at.C][at.K])
		}
		r.Violate(v.sig, what, map[string]any{"campaign": "stack-held", "cache": cname, "window": window,
			"requests_in_order": reqs})
	}
	if gotLog := logKey(f); strings.Join(gotLog, "\n") != strings.Join(wantLog, "\n") {
		r.Violate("querylog-identity-differs-from-solo", fmt.Sprintf("cache=%s held: %d vs %d entries", cname, len(wantLog),
			len(gotLog)), map[string]any{"campaign": "stack-held", "cache": cname, "window": window, "streams": streams,
			"order": order})
	}
}

// liveRound serves the streams with one goroutine per client and compares every
// response, the identities seen by the filters and the query log with what
// each request gets alone.  With yieldSeed == 0 the goroutines run on all
// processors; otherwise they share one processor and yield exactly at the
// hooks of the fixture (upstream, filters, GeoIP), a number of times that is a
// function of the seed, the request and the hook: an interleaving at the
// points where the pooled request contexts are live, reproducible from the
// replay.
func liveRound(r *hlib.Result, mode string, yieldSeed uint64, count bool, streams [][]sreq, want [][]string,
	aloneLog [][][]string, cache *dnssvc.CacheConfig, cname string) (nontrivial bool) {
	nClients := len(streams)
	reqs := reqTable(streams)
	replay := map[string]any{"campaign": "stack-" + mode, "cache": cname, "yield_seed": yieldSeed, "streams": streams}
	func() {
		conc := newFixture(cache, reqs)
		got := make([][]string, nClients)
		first := make([]int, nClients)
		for c := range streams {
			got[c] = make([]string, len(streams[c]))
		}
		if mode == "concurrent-filelog" {
			// The production query log, and a history: the directory of the log
			// file is not there while the first request of every client is
			// served (the writes fail, which is not critical), then it appears.
			dir, err := os.MkdirTemp("", "c07-qlog")
			hlib.Must(err)
			defer func() { _ = os.RemoveAll(dir) }()
			conc = newFixture(cache, reqs, dir+"/sub/query.log")
			for c := range streams {
				g, serr := conc.serve(streams[c][0])
				if serr != nil {
					g = "ERROR " + serr.Error()
				}
				got[c][0], first[c] = g, 1
			}
			hlib.Must(os.Mkdir(dir+"/sub", 0o755))
		}
		var wantLog []string
		for c := range aloneLog {
			for k := first[c]; k < len(aloneLog[c]); k++ {
				wantLog = append(wantLog, aloneLog[c][k]...)
			}
		}
		if conc.logPath != "" {
			wantLog = fileFields(wantLog)
		}
		sort.Strings(wantLog)
		conc.yieldSeed = yieldSeed
		if yieldSeed != 0 {
			// One P: the goroutines take turns exactly where a hook yields.
			defer runtime.GOMAXPROCS(runtime.GOMAXPROCS(1))
		}
		errs := make([]error, nClients)
		var wg sync.WaitGroup
		start := make(chan struct{})
		for c := range streams {
			wg.Add(1)
			go func(c int) {
				defer wg.Done()
				<-start
				for k, q := range streams[c] {
					if k < first[c] {
						continue
					}
					g, err := conc.serve(q)
					if err != nil {
						errs[c] = err

						return
					}
					got[c][k] = g
				}
			}(c)
		}
		close(start)
		wg.Wait()
		gotLog := logKey(conc)

		nontrivial = false
		for c := range streams {
			if errs[c] != nil {
				r.Violate("stack-error-"+mode, fmt.Sprintf("client %d: %v", c, errs[c]), streams)

				continue
			}
			for k, q := range streams[c] {
				kind := "upstream"
				switch host := strings.ToLower(q.Name); {
				case isBlockedFor(profileOf(c), host):
					kind = "blocked"
					nontrivial = true
				case isAccessBlocked(host):
					kind = "dropped-by-access"
				case isRateLimited(host):
					kind = "dropped-by-ratelimit"
				case strings.HasPrefix(host, "cname."):
					kind = "cname-rewrite"
				case strings.HasPrefix(host, "rblock.") && profileOf(c)%2 == 0:
					kind = "blocked-by-response"
				case strings.HasPrefix(host, "allow."):
					kind = "allowed"
				case strings.HasPrefix(host, "rewrite.") && q.Qtype == dns.TypeA:
					kind = "rewritten-response"
				case strings.HasPrefix(host, "nx.") || strings.HasPrefix(host, "nodata."):
					kind = "negative-answer"
				case isFilterReqErr(host) || isFilterRespErr(host):
					kind = "filter-error-collected"
				case strings.HasPrefix(host, "fail."):
					kind = "upstream-failure"
				case strings.HasSuffix(host, ".resolver.arpa.") || strings.HasPrefix(host, "_dns."):
					kind = "ddr-other"
					if got[c][k] != "" && strings.Contains(got[c][k], "SVCB") {
						kind = "ddr-public-records"
						if strings.Contains(got[c][k], "dev0") {
							kind = "ddr-device-records"
						}
					}
				case host == "use-application-dns.net." || host == "mask.icloud.com." || host == "dns-tunnel-check.googlezip.net.":
					kind = "special-domain-passed"
					if strings.Contains(got[c][k], "rc=3") || strings.Contains(got[c][k], "rc=5") {
						kind = "special-domain-blocked-by-profile"
					}
				}
				if q.EDNS == 5 && count {
					r.Count("stack.req.declined-client-subnet")
				}
				if count {
					if q.EDNS == 6 {
						r.Count("stack.req.malformed-client-subnet")
					}
					if c < nProfiles && profSpecs[c].ctorFails {
						r.Count("stack.req.profile-constructor-cannot-be-built")
						if kind == "blocked" || kind == "blocked-by-response" || kind == "rewritten-response" || kind == "cname-rewrite" {
							r.Count("stack.req.profile-constructor-cannot-be-built+constructed-response")
						}
					}
					if c < nProfiles && profSpecs[c].ttl == 0 {
						r.Count("stack.req.profile-ttl-zero")
					}
					if geoFault(c) != 0 {
						r.Count(fmt.Sprintf("stack.req.geoip-fault-class=%d", geoFault(c)))
					}
					if c == devErrClient {
						r.Count("stack.req.profiledb-error")
					}
				}
				if q.Chaos {
					kind += "+debug"
				}
				if devName(c) != "" && count {
					r.Count("stack.req.named-device")
				}
				if count {
					r.Count("stack.req." + kind)
				}
				r.Evaluations++
				if got[c][k] != want[c][k] {
					sig := mode + "-response-differs-from-solo"
					if strings.HasPrefix(got[c][k], "FOREIGN-ECS") {
						sig = "response-client-subnet-of-another-request"
					} else if strings.HasPrefix(got[c][k], "FOREIGN") {
						sig = "response-id-or-question-of-another-request"
					}
					r.Violate(sig, fmt.Sprintf("cache=%s clients=%d request %+v: alone %q, %s %q", cname, nClients, q,
						want[c][k], mode, got[c][k]), replay)
				}
			}
		}
		if strings.Join(gotLog, "\n") != strings.Join(wantLog, "\n") {
			diff := ""
			for i := range wantLog {
				if i >= len(gotLog) || gotLog[i] != wantLog[i] {
					diff = fmt.Sprintf("first difference at sorted entry %d: alone %q", i, wantLog[i])
					if i < len(gotLog) {
						diff += fmt.Sprintf(", %s %q", mode, gotLog[i])
					}

					break
				}
			}
			r.Violate("querylog-identity-differs-from-solo", fmt.Sprintf("cache=%s %s: %d vs %d entries; %s", cname, mode, len(wantLog),
				len(gotLog), diff), replay)
		}
		for _, v := range conc.idViols {
			r.Violate(v.sig, fmt.Sprintf("cache=%s clients=%d %s, %s", cname, nClients, mode, v.what), replay)

			break
		}
	}()

	return nontrivial
}

// alone serves q on a new stack and returns what the client receives and the
// query-log lines; results are remembered (they are a function of q).
type aloneResult struct {
	got string
	log []string
}

type aloneKey struct {
	q     sreq
	cache dnssvc.CacheType
}

var aloneMemo = map[aloneKey]aloneResult{}

// alone: the new stack has a (cold) cache of the same kind as the run that is
// checked, since what the upstream is told about the client, and so what it
// answers, depends on the kind of cache.
func alone(q sreq, reqs map[uint16]sreq, cache *dnssvc.CacheConfig) aloneResult {
	k := aloneKey{q: q}
	if cache != nil {
		k.cache = cache.Type
	}
	if a, ok := aloneMemo[k]; ok {
		return a
	}
	f := newFixture(cache, reqs)
	got, err := f.serve(q)
	if err != nil {
		got = "ERROR " + err.Error()
	}
	a := aloneResult{got: got, log: logKey(f)}
	aloneMemo[k] = a

	return a
}

// overlapCampaign is the "overlap with history" campaign.  For every kind of
// history (a request dropped by the access rules, dropped by the rate limiter,
// blocked, rewritten, a debug request, a cache hit, nothing) and every boundary
// of the stack, request A is held at that boundary while request B of another
// client is served completely; then A goes on.  All of it on one processor, so
// that sync.Pool hands B exactly what the history and A have put back: an
// object that was put twice, or too early, is then used by A and B at the same
// time.  Responses, identities at the filters and query-log lines of A and B
// must be those of A and B alone.
func overlapCampaign(o *hlib.Opts, r *hlib.Result) {
	defer runtime.GOMAXPROCS(runtime.GOMAXPROCS(1))
	type hist struct {
		name string
		reqs []sreq
	}
	mk := func(client int, name string, qt uint16, edns int, id uint16) sreq {
		return sreq{Client: client, Name: name, Qtype: qt, EDNS: edns, ID: id}
	}
	hists := []hist{
		{"none", nil},
		{"dropped-by-access", []sreq{mk(2, "accessblocked.example.", dns.TypeA, 1, 1)}},
		{"dropped-by-access-anonymous", []sreq{mk(8, "accessblocked.example.", dns.TypeA, 0, 1), mk(2, "accessblocked.example.", dns.TypeAAAA, 3, 2)}},
		{"dropped-by-ratelimit", []sreq{mk(2, "ratelimited.example.", dns.TypeA, 1, 1)}},
		{"blocked", []sreq{mk(2, "blocked.example.", dns.TypeA, 2, 1)}},
		{"cname-rewrite", []sreq{mk(3, "cname.example.", dns.TypeA, 0, 1)}},
		{"cache-hit", []sreq{mk(2, "one.example.", dns.TypeA, 1, 1), mk(3, "one.example.", dns.TypeA, 1, 2)}},
		{"debug", []sreq{{Client: 2, Name: "two.example.", Qtype: dns.TypeTXT, Chaos: true, EDNS: 1, ID: 1}}},
		// Histories that leave a pooled context behind whose fields the next
		// request must not inherit on ITS fault path: a profile with a blocking
		// mode and TTL of its own (then a profile whose constructor cannot be
		// built), a client with a location and a subnet (then clients the GeoIP
		// database knows nothing about), and the fault paths themselves.
		{"blocked-custom-mode", []sreq{mk(3, "blocked.example.", dns.TypeA, 3, 1)}},
		{"constructor-fault", []sreq{mk(4, "blocked.example.", dns.TypeA, 0, 1), mk(5, "rewrite.example.", dns.TypeA, 1, 2)}},
		{"faults", []sreq{mk(1, "one.example.", dns.TypeA, 6, 1), mk(devErrClient, "one.example.", dns.TypeA, 0, 2),
			mk(0, "flterr.example.", dns.TypeA, 1, 3), mk(3, "rflterr.example.", dns.TypeA, 4, 4), mk(6, "fail.example.", dns.TypeA, 0, 5)}},
	}
	pairs := [][2]sreq{
		{mk(0, "p0-blocked.example.", dns.TypeA, 1, 100), mk(1, "p0-blocked.example.", dns.TypeA, 1, 101)},
		{mk(1, "one.example.", dns.TypeA, 0, 100), mk(8, "one.example.", dns.TypeA, 3, 101)},
		{mk(8, "blocked.example.", dns.TypeAAAA, 2, 100), mk(3, "blocked.example.", dns.TypeAAAA, 2, 101)},
		{mk(11, "two.example.", dns.TypeHTTPS, 4, 100), mk(0, "three.example.org.", dns.TypeHTTPS, 0, 101)},
		{mk(3, "cname.example.", dns.TypeA, 1, 100), mk(13, "five.test.", dns.TypeTXT, 1, 101)},
		{{Client: 1, Name: "one.example.", Qtype: dns.TypeTXT, Chaos: true, EDNS: 1, ID: 100}, mk(7, "rewrite.example.", dns.TypeA, 0, 101)},
		{mk(2, "rblock.example.", dns.TypeA, 3, 100), mk(1, "rblock.example.", dns.TypeA, 4, 101)},
		// A profile whose constructor cannot be built (negative TTL; no blocking
		// mode) next to profiles with blocking modes and TTLs of their own: every
		// kind of response that a constructor makes.
		{mk(4, "blocked.example.", dns.TypeA, 1, 100), mk(3, "blocked.example.", dns.TypeA, 1, 101)},
		{mk(5, "p5-blocked.example.", dns.TypeAAAA, 0, 100), mk(0, "blocked.example.", dns.TypeAAAA, 3, 101)},
		{mk(5, "rewrite.example.", dns.TypeA, 1, 100), mk(6, "rewrite.example.", dns.TypeA, 1, 101)},
		{mk(4, "cname.example.", dns.TypeA, 0, 100), mk(2, "cname.example.", dns.TypeA, 0, 101)},
		{mk(4, "rblock.example.", dns.TypeA, 1, 100), mk(6, "rblock.example.", dns.TypeA, 1, 101)},
		// Clients without a location (no data; lookup failed) next to clients
		// with one; a malformed client subnet next to a well-formed one; the
		// profile database down for one client; filters that fail.
		{mk(2, "one.example.", dns.TypeA, 0, 100), mk(1, "one.example.", dns.TypeA, 3, 101)},
		{{Client: 12, Name: "two.example.", Qtype: dns.TypeTXT, Chaos: true, EDNS: 1, ID: 100}, mk(0, "two.example.", dns.TypeTXT, 4, 101)},
		{mk(3, "one.example.", dns.TypeA, 6, 100), mk(8, "one.example.", dns.TypeA, 3, 101)},
		{mk(devErrClient, "blocked.example.", dns.TypeA, 1, 100), mk(1, "blocked.example.", dns.TypeA, 1, 101)},
		{mk(1, "flterr.example.", dns.TypeA, 1, 100), mk(0, "blocked.example.", dns.TypeA, 1, 101)},
		{mk(2, "rflterr.example.", dns.TypeA, 1, 100), mk(0, "rblock.example.", dns.TypeA, 1, 101)},
	}
	caches := []struct {
		name string
		conf *dnssvc.CacheConfig
	}{
		{"none", nil},
		{"simple", &dnssvc.CacheConfig{Type: dnssvc.CacheTypeSimple, NoECSCount: 16}},
		{"ecs", &dnssvc.CacheConfig{Type: dnssvc.CacheTypeECS, NoECSCount: 16, ECSCount: 16}},
	}
	for _, h := range hists {
		for ci, cache := range caches {
			if !o.Thorough() && ci > 0 && h.name != "cache-hit" && h.name != "dropped-by-access" {
				continue
			}
			for _, stage := range hookStages {
				for pi, pair := range pairs {
					for swap := 0; swap < 2; swap++ {
						a, b := pair[swap], pair[1-swap]
						all := append(append([]sreq{}, h.reqs...), a, b)
						reqs := reqTable([][]sreq{all})
						f := newFixture(cache.conf, reqs)
						var wantLog []string
						for _, q := range h.reqs {
							// The history; the responses are released as ServerBase
							// does after writing them.
							if _, err := f.serve(q); err != nil {
								r.Violate("stack-error-history", fmt.Sprintf("request %+v: %v", q, err), q)
							}
							wantLog = append(wantLog, alone(q, reqs, cache.conf).log...)
						}
						f.parkStage, f.parkClient = stage, a.Client
						f.parkedCh, f.resumeCh = make(chan struct{}), make(chan struct{})
						var gotA, gotB string
						doneA := make(chan struct{})
						go func() {
							defer close(doneA)
							g, err := f.serve(a)
							if err != nil {
								g = "ERROR " + err.Error()
							}
							gotA = g
						}()
						parked := false
						select {
						case <-f.parkedCh:
							parked = true
						case <-doneA:
						}
						g, err := f.serve(b)
						if err != nil {
							g = "ERROR " + err.Error()
						}
						gotB = g
						close(f.resumeCh)
						<-doneA
						r.Evaluations += 2
						r.Traces++
						if parked {
							r.Count("overlap.parked-at=" + stage)
						} else {
							r.Count("overlap.stage-not-passed")
						}
						r.Count("overlap.history=" + h.name)
						wantLog = append(wantLog, alone(a, reqs, cache.conf).log...)
						wantLog = append(wantLog, alone(b, reqs, cache.conf).log...)
						sort.Strings(wantLog)
						replay := map[string]any{"campaign": "stack-overlap", "cache": cache.name, "history": h.reqs, "held_request": a,
							"held_at": stage, "served_meanwhile": b}
						what := fmt.Sprintf("history %s, cache=%s: request %+v held at %s while %+v is served", h.name, cache.name, a, stage, b)
						for i, q := range []sreq{a, b} {
							got := []string{gotA, gotB}[i]
							if w := alone(q, reqs, cache.conf).got; got != w {
								r.Violate("overlapped-response-differs-from-solo", fmt.Sprintf("%s: request %+v alone %q, here %q", what, q, w, got),
									replay)
							}
						}
						for _, v := range f.idViols {
							r.Violate(v.sig, what+": "+v.what, replay)

							break
						}
						if gotLog := logKey(f); strings.Join(gotLog, "\n") != strings.Join(wantLog, "\n") {
							r.Violate("querylog-identity-differs-from-solo", fmt.Sprintf("%s: alone %q, here %q", what, wantLog, gotLog), replay)
						}
						r.Case(fmt.Sprintf("overlap|%s|%s|%s|%d|%d", h.name, cache.name, stage, pi, swap), parked && len(h.reqs) > 0)
					}
				}
			}
		}
	}
}

func stackCampaign(o *hlib.Opts, r *hlib.Result, m *hlib.Model) {
	rng := o.Rand("stack")
	rounds := 60
	if o.Thorough() {
		rounds = 400
	}
	for round := 0; round < rounds; round++ {
		nClients := 2 + rng.IntN(15)
		perClient := 10 + rng.IntN(60)
		var cache *dnssvc.CacheConfig
		cname := "none"
		switch rng.IntN(3) {
		case 1:
			cache = &dnssvc.CacheConfig{Type: dnssvc.CacheTypeSimple, NoECSCount: 4 + rng.IntN(20), MinTTL: 0}
			cname = "simple"
		case 2:
			cache = &dnssvc.CacheConfig{Type: dnssvc.CacheTypeECS, NoECSCount: 4 + rng.IntN(20), ECSCount: 4 + rng.IntN(20)}
			cname = "ecs"
		}
		r.Count("stack.cache=" + cname)
		r.Count(fmt.Sprintf("stack.clients=%d", nClients))
		streams := genStackReqs(rng, nClients, perClient)

		// Every request alone: a new stack, with a new cloner and new pools,
		// for each of them, so that nothing any other request has left behind
		// can reach it.
		reqs := reqTable(streams)
		want := make([][]string, nClients)
		aloneLog := make([][][]string, nClients)
		var wantLog []string
		for c, s := range streams {
			for _, q := range s {
				solo := newFixture(cache, reqs)
				w, err := solo.serve(q)
				if err != nil {
					r.Violate("stack-error-solo", fmt.Sprintf("request %+v alone: %v", q, err), q)
				}
				for _, v := range solo.idViols {
					r.Violate(v.sig+"(alone)", v.what, q)
				}
				want[c] = append(want[c], w)
				lk := logKey(solo)
				aloneLog[c] = append(aloneLog[c], lk)
				wantLog = append(wantLog, lk...)
			}
		}
		sort.Strings(wantLog)

		mode := "concurrent"
		if round%3 == 2 {
			mode = "concurrent-filelog"
		}
		r.Count("stack.mode=" + mode)
		nontrivial := liveRound(r, mode, 0, true, streams, want, aloneLog, cache, cname)
		liveRound(r, "cooperative", 1+rng.Uint64()>>1, false, streams, want, aloneLog, cache, cname)
		heldRound(rng, r, m, streams, want, wantLog, cache, cname)

		var canonCase []string
		for _, s := range streams {
			for _, q := range s {
				canonCase = append(canonCase, fmt.Sprintf("%d/%s/%d/%v/%d/%v%v%v", q.Client, q.Name, q.Qtype, q.Chaos, q.EDNS, q.NoRD, q.CD, q.AD))
			}
		}
		r.Case(cname+"|"+strings.Join(canonCase, ","), nontrivial && nClients >= 2)
		r.Traces++
		if round < 2 {
			r.Sample(map[string]any{"stack_round": round, "cache": cname, "clients": nClients, "first_request": streams[0][0],
				"first_response_alone": want[0][0]}, 9)
		}
	}
}
