// Command c07 is the correspondence harness and property oracle for C07
// (concurrent clients never see each other's answers, policies or identities).
//
// Campaign 1 drives the production message cloner and the pooled constructors
// with sequences of create / clone / dispose / mutate / construct operations and
// the Lean ownership model with the same operations.  Campaign 2 runs
// concurrent client streams through the full middleware stack with the
// production cloner and caches and compares every response with the response
// the same request gets when it is processed alone.
package main

import (
	"fmt"
	"math/rand/v2"
	"net"
	"net/netip"
	"reflect"
	"runtime"
	"runtime/debug"
	"strings"
	"time"

	"github.com/AdguardTeam/AdGuardDNS/internal/dnsmsg"
	"github.com/AdguardTeam/AdGuardDNS/verifh/hlib"
	"github.com/miekg/dns"
)

const nHandles = 8

// op is one replayable operation of campaign 1.
type op struct {
	Kind string `json:"op"`
	A    int    `json:"a"`
	B    int    `json:"b,omitempty"`
	C    int    `json:"c,omitempty"`
	Seed uint64 `json:"seed,omitempty"`
	Wire bool   `json:"wire,omitempty"`
	// T selects a fixed template message instead of a generated one.
	T int `json:"t,omitempty"`
}

func (o op) String() string {
	return fmt.Sprintf("%s(%d,%d,%d,%d,%v,%d)", o.Kind, o.A, o.B, o.C, o.Seed, o.Wire, o.T)
}

type liveMsg struct {
	msg  *dns.Msg
	snap string
}

// step is what one op contributed: the model lines, and what the real code
// showed after it.
type step struct {
	op    op
	lines []string
	flags string
	rest  string
}

type finding struct{ sig, what string }

type caseRun struct {
	cl    *dnsmsg.Cloner
	lives [nHandles]*liveMsg
	seen  map[uintptr]bool
	keep  []any
	steps []step
	viols []finding
	cnt   *counters
	// recycled counts objects that came out of a pool.
	recycled int
	maxLive  int
}

func snapshot(m *dns.Msg) (s string) {
	defer func() {
		if v := recover(); v != nil {
			s = fmt.Sprintf("panic in String: %v", v)
		}
	}()

	return noNil(m.String()) + "#" + showObjs(flatten(m))
}

func (c *caseRun) violate(sig, what string) { c.viols = append(c.viols, finding{sig, what}) }

// markSeen returns the recycle flags of objs and remembers their storage.
func (c *caseRun) markSeen(objs []fobj) string {
	var sb strings.Builder
	for _, o := range objs {
		if o.addr != 0 && c.seen[o.addr] {
			sb.WriteByte('R')
			c.recycled++
		} else {
			sb.WriteByte('F')
		}
		if o.addr != 0 {
			c.seen[o.addr] = true
		}
	}

	return sb.String()
}

// realRest renders "<alias> <dump>" of the real state.
func (c *caseRun) realRest() string {
	type iv struct{ lo, hi uintptr }
	var ivs []iv
	var parts []string
	for h, l := range c.lives {
		if l == nil {
			continue
		}
		objs := flatten(l.msg)
		parts = append(parts, fmt.Sprintf("%d=%s", h, showObjs(objs)))
		for _, o := range objs {
			if len(o.vals) == 0 || o.addr == 0 {
				continue
			}
			n := uintptr(1)
			if o.kind == kBuf {
				n = uintptr(len(o.vals))
			}
			ivs = append(ivs, iv{o.addr, o.addr + n})
		}
	}
	alias := "0"
	for i := range ivs {
		for j := i + 1; j < len(ivs); j++ {
			if ivs[i].lo < ivs[j].hi && ivs[j].lo < ivs[i].hi {
				alias = "1"
			}
		}
	}

	return alias + " " + strings.Join(parts, ";")
}

// oracle checks, without the model, that every live message other than the
// target still is what it was, and that live messages do not share storage.
func (c *caseRun) oracle(o op, target int) {
	n := 0
	var regs [nHandles][]region
	for h, l := range c.lives {
		if l == nil {
			continue
		}
		n++
		if h != target {
			if s := snapshot(l.msg); s != l.snap {
				c.violate("live-message-altered", fmt.Sprintf("after %s message %d changed from %q to %q", o, h, l.snap, s))
				l.snap = s
			}
		}
		regions(reflect.ValueOf(l.msg), false, "m", &regs[h])
		var own []region
		regions(reflect.ValueOf(l.msg), true, "m", &own)
		if w := overlap(own, nil, true); w != "" {
			c.violate("message-parts-share-storage", fmt.Sprintf("after %s inside message %d: %s", o, h, w))
		}
	}
	c.maxLive = max(c.maxLive, n)
	for a := 0; a < nHandles; a++ {
		for b := a + 1; b < nHandles; b++ {
			if c.lives[a] == nil || c.lives[b] == nil {
				continue
			}
			if w := overlap(regs[a], regs[b], false); w != "" {
				c.violate("live-messages-share-storage", fmt.Sprintf("after %s messages %d and %d: %s", o, a, b, w))
			}
		}
	}
}

var blockingModes = []dnsmsg.BlockingMode{
	&dnsmsg.BlockingModeNullIP{},
	&dnsmsg.BlockingModeNXDOMAIN{},
	&dnsmsg.BlockingModeREFUSED{},
	&dnsmsg.BlockingModeCustomIP{IPv4: []netip.Addr{netip.MustParseAddr("192.0.2.7"), netip.MustParseAddr("192.0.2.8")},
		IPv6: []netip.Addr{netip.MustParseAddr("2001:db8::7")}},
}

// construct calls one pooled constructor of cl for a request derived from seed.
func construct(cl *dnsmsg.Cloner, which int, seed uint64) (resp *dns.Msg, what string) {
	rng := rand.New(rand.NewPCG(seed, 77))
	mode := blockingModes[which%len(blockingModes)]
	cons, err := dnsmsg.NewConstructor(&dnsmsg.ConstructorConfig{
		Cloner:              cl,
		BlockingMode:        mode,
		StructuredErrors:    &dnsmsg.StructuredDNSErrorsConfig{Enabled: false},
		FilteredResponseTTL: time.Duration(10+which) * time.Second,
		EDEEnabled:          true,
	})
	hlib.Must(err)
	req := &dns.Msg{}
	qt := []uint16{dns.TypeA, dns.TypeAAAA, dns.TypeTXT, dns.TypeHTTPS}[rng.IntN(4)]
	req.SetQuestion(names[rng.IntN(len(names)-1)], qt)
	req.Id = uint16(seed)
	if rng.IntN(4) > 0 {
		req.SetEdns0(uint16(1232+rng.IntN(3)), rng.IntN(2) == 0)
	}
	switch k := rng.IntN(5); {
	case k == 0 && qt == dns.TypeTXT:
		resp, err = cons.NewRespTXT(req, "hello", fmt.Sprint(seed%97))
		what = "NewRespTXT"
	case k == 1 && qt == dns.TypeA:
		resp, err = cons.NewRespIP(req, netip.MustParseAddr("198.51.100.1"), netip.MustParseAddr("198.51.100.2"))
		what = "NewRespIP"
	case k == 1 && qt == dns.TypeAAAA:
		resp, err = cons.NewRespIP(req, netip.MustParseAddr("2001:db8::1"))
		what = "NewRespIP"
	case k == 2:
		resp = cons.NewRespRCode(req, dns.RcodeServerFailure)
		what = "NewRespRCode"
	default:
		resp, err = cons.NewBlockedResp(req)
		what = fmt.Sprintf("NewBlockedResp/%T", mode)
	}
	hlib.Must(err)

	return resp, what
}

// apply executes o on the real code, records the model lines and runs the
// oracle.  Ops that do not fit the current state are skipped, so that every
// subsequence of a case is a case.
func (c *caseRun) apply(o op) {
	st := step{op: o}
	target := -1
	switch o.Kind {
	case "new":
		if c.lives[o.A] != nil {
			return
		}
		m := genMsg(rand.New(rand.NewPCG(o.Seed, 1)), c.cnt)
		if o.T > 0 {
			m = template(o.T)
			c.cnt.n[fmt.Sprintf("new.template-%d", o.T)]++
		}
		if o.Wire {
			w, ok := viaWire(m)
			if !ok {
				c.cnt.n["new.unpackable"]++

				return
			}
			m = w
			c.cnt.n["new.via-wire"]++
		} else {
			c.cnt.n["new.direct"]++
		}
		objs := flatten(m)
		c.markSeen(objs)
		st.lines = []string{newLine(o.A, objs)}
		st.flags = "-"
		c.lives[o.A] = &liveMsg{msg: m, snap: snapshot(m)}
		c.keep = append(c.keep, m)
		target = o.A
	case "clone":
		if c.lives[o.A] == nil || c.lives[o.B] != nil || o.A == o.B {
			return
		}
		src := c.lives[o.A]
		cl := c.cl.Clone(src.msg)
		c.keep = append(c.keep, cl)
		st.lines = []string{fmt.Sprintf("clone %d %d", o.A, o.B)}
		st.flags = c.markSeen(flatten(cl))
		c.lives[o.B] = &liveMsg{msg: cl, snap: snapshot(cl)}
		if c.lives[o.B].snap != src.snap {
			c.violate("clone-differs-from-original", fmt.Sprintf("%s: original %q clone %q", o, src.snap, c.lives[o.B].snap))
		}
		c.cnt.n["op.clone"]++
		target = o.B
	case "dispose":
		if c.lives[o.A] == nil {
			return
		}
		c.cl.Dispose(c.lives[o.A].msg)
		c.lives[o.A] = nil
		st.lines = []string{fmt.Sprintf("dispose %d", o.A)}
		st.flags = "-"
		c.cnt.n["op.dispose"]++
		target = o.A
	case "poke":
		l := c.lives[o.A]
		if l == nil {
			return
		}
		objs := flatten(l.msg)
		i := o.B % len(objs)
		if objs[i].poke == nil || len(objs[i].vals) == 0 {
			return
		}
		j := o.C % len(objs[i].vals)
		objs[i].poke(j)
		after := flatten(l.msg)
		st.lines = []string{fmt.Sprintf("poke %d %d %d %d", o.A, i, j, after[i].vals[j])}
		st.flags = "-"
		l.snap = snapshot(l.msg)
		c.cnt.n["op.poke"]++
		target = o.A
	case "scribble":
		l := c.lives[o.A]
		if l == nil {
			return
		}
		scribble(reflect.ValueOf(l.msg))
		for i, ob := range flatten(l.msg) {
			for j, v := range ob.vals {
				st.lines = append(st.lines, fmt.Sprintf("poke %d %d %d %d", o.A, i, j, v))
			}
		}
		st.flags = strings.Repeat("-", len(st.lines))
		l.snap = snapshot(l.msg)
		c.cnt.n["op.scribble"]++
		target = o.A
	case "construct":
		if c.lives[o.A] != nil {
			return
		}
		resp, what := construct(c.cl, o.B, o.Seed)
		c.keep = append(c.keep, resp)
		want, _ := construct(dnsmsg.NewCloner(dnsmsg.EmptyClonerStat{}), o.B, o.Seed)
		c.cnt.n["construct."+what]++
		// The model is told what a constructor without history makes.
		wobjs := flatten(want)
		for _, ob := range wobjs {
			use := 1
			if ob.kind == kMsg || ob.kind == kSOA {
				use = 0
			}
			line := fmt.Sprintf("make %d %d %d", o.A, use, ob.kind)
			for _, v := range ob.vals {
				line += fmt.Sprintf(" %d", v)
			}
			st.lines = append(st.lines, line)
		}
		st.flags = c.markSeen(flatten(resp))
		c.lives[o.A] = &liveMsg{msg: resp, snap: snapshot(resp)}
		if ws := snapshot(want); ws != c.lives[o.A].snap {
			c.violate("constructed-response-depends-on-pool-history", fmt.Sprintf("%s %s: with empty pools %q, with this history %q",
				o, what, ws, c.lives[o.A].snap))
		}
		target = o.A
	default:
		return
	}
	st.rest = c.realRest()
	c.steps = append(c.steps, st)
	c.oracle(o, target)
}

func runOps(ops []op, cnt *counters) *caseRun {
	c := &caseRun{cl: dnsmsg.NewCloner(dnsmsg.EmptyClonerStat{}), seen: map[uintptr]bool{}, cnt: cnt}
	for _, o := range ops {
		c.apply(o)
	}

	return c
}

// compare sends the lines of c to the model and returns the differences.
func compare(m *hlib.Model, c *caseRun) (diffs []string) {
	lines := []string{"reset"}
	for _, s := range c.steps {
		lines = append(lines, s.lines...)
	}
	ans := m.Batch(lines)[1:]
	k := 0
	for _, s := range c.steps {
		var flags, rest string
		for range s.lines {
			f, r, _ := strings.Cut(ans[k], " ")
			flags += f
			rest = r
			k++
		}
		if flags != s.flags {
			diffs = append(diffs, fmt.Sprintf("%s: recycle flags: model %s, implementation %s", s.op, flags, s.flags))
		}
		if rest != s.rest {
			diffs = append(diffs, fmt.Sprintf("%s: state: model %q, implementation %q", s.op, rest, s.rest))
		}
	}

	return diffs
}

func genOps(rng *rand.Rand) (ops []op) {
	n := 8 + rng.IntN(30)
	hmax := 2 + rng.IntN(5)
	for i := 0; i < n; i++ {
		h := rng.IntN(hmax)
		switch k := rng.IntN(20); {
		case k < 4:
			ops = append(ops, op{Kind: "new", A: h, Seed: rng.Uint64() >> 1, Wire: rng.IntN(3) > 0})
		case k < 10:
			ops = append(ops, op{Kind: "clone", A: h, B: rng.IntN(hmax)})
		case k < 15:
			ops = append(ops, op{Kind: "dispose", A: h})
		case k < 17:
			ops = append(ops, op{Kind: "poke", A: h, B: rng.IntN(64), C: rng.IntN(16)})
		case k < 18:
			ops = append(ops, op{Kind: "scribble", A: h})
		default:
			ops = append(ops, op{Kind: "construct", A: h, B: rng.IntN(8), Seed: rng.Uint64() >> 1})
		}
	}

	return ops
}

// template returns fixed message number t.
func template(t int) *dns.Msg {
	m := &dns.Msg{}
	m.SetQuestion("tmpl.example.", dns.TypeHTTPS)
	m.Response = true
	hdr := dns.RR_Header{Name: "tmpl.example.", Rrtype: dns.TypeHTTPS, Class: dns.ClassINET, Ttl: 300}
	v4 := func(n int) *dns.SVCBIPv4Hint {
		h := &dns.SVCBIPv4Hint{}
		for i := 0; i < n; i++ {
			h.Hint = append(h.Hint, net.IP{10, 0, byte(t), byte(i + 1)})
		}

		return h
	}
	v6 := func(n int) *dns.SVCBIPv6Hint {
		h := &dns.SVCBIPv6Hint{}
		for i := 0; i < n; i++ {
			ip := net.ParseIP("2001:db8::1")
			ip[14], ip[15] = byte(t), byte(i+1)
			h.Hint = append(h.Hint, ip)
		}

		return h
	}
	switch t {
	case 1:
		m.Answer = []dns.RR{&dns.HTTPS{SVCB: dns.SVCB{Hdr: hdr, Priority: 1, Target: ".", Value: []dns.SVCBKeyValue{v4(5)}}}}
	case 2:
		m.Answer = []dns.RR{&dns.HTTPS{SVCB: dns.SVCB{Hdr: hdr, Priority: 1, Target: ".", Value: []dns.SVCBKeyValue{v6(2)}}}}
	case 3:
		m.Answer = []dns.RR{&dns.HTTPS{SVCB: dns.SVCB{Hdr: hdr, Priority: 1, Target: ".", Value: []dns.SVCBKeyValue{
			&dns.SVCBAlpn{Alpn: []string{"h2", "h3"}}, v4(9), v6(3)}}}}
	case 4:
		m.Extra = []dns.RR{&dns.OPT{Hdr: dns.RR_Header{Name: ".", Rrtype: dns.TypeOPT, Class: 4096, Ttl: 0x00010040},
			Option: []dns.EDNS0{&dns.EDNS0_COOKIE{Code: dns.EDNS0COOKIE, Cookie: "0123456789abcdef"}}}}
	default:
		m.Answer = []dns.RR{&dns.A{Hdr: dns.RR_Header{Name: "tmpl.example.", Rrtype: dns.TypeA, Class: 1, Ttl: 60}, A: net.IP{192, 0, 2, 1}},
			&dns.HTTPS{SVCB: dns.SVCB{Hdr: hdr, Priority: 1, Target: ".", Value: []dns.SVCBKeyValue{v6(4)}}}}
	}

	return m
}

// directedCases are the histories of the two repaired defects and a few
// boundaries around them; they run before the random cases.
func directedCases() (cases [][]op) {
	for _, a := range []int{1, 3} {
		for _, b := range []int{2, 3, 5} {
			cases = append(cases, []op{{Kind: "new", A: 0, T: a, Wire: true}, {Kind: "dispose", A: 0},
				{Kind: "new", A: 1, T: b, Wire: a == 3}, {Kind: "clone", A: 1, B: 2}, {Kind: "clone", A: 1, B: 3},
				{Kind: "scribble", A: 2}, {Kind: "dispose", A: 2}, {Kind: "clone", A: 3, B: 4}})
		}
	}
	for seed := uint64(0); seed < 24; seed++ {
		cases = append(cases, []op{{Kind: "new", A: 0, T: 4}, {Kind: "clone", A: 0, B: 1}, {Kind: "dispose", A: 0},
			{Kind: "construct", A: 2, B: int(seed % 8), Seed: seed}, {Kind: "dispose", A: 1},
			{Kind: "construct", A: 3, B: int(seed%8) + 1, Seed: seed + 100}})
	}

	return cases
}

// smallScope enumerates every history of at most four operations over a small
// alphabet.
func smallScope() (cases [][]op) {
	var alpha []op
	for h := 0; h < 2; h++ {
		for t := 1; t <= 4; t++ {
			alpha = append(alpha, op{Kind: "new", A: h, T: t, Wire: true})
		}
	}
	alpha = append(alpha, op{Kind: "clone", A: 0, B: 2}, op{Kind: "clone", A: 1, B: 2}, op{Kind: "clone", A: 2, B: 3})
	for h := 0; h < 4; h++ {
		alpha = append(alpha, op{Kind: "dispose", A: h})
	}
	alpha = append(alpha, op{Kind: "construct", A: 3, B: 1, Seed: 101}, op{Kind: "construct", A: 3, B: 3, Seed: 7},
		op{Kind: "scribble", A: 2})
	var rec func(prefix []op)
	rec = func(prefix []op) {
		if len(prefix) > 0 {
			cases = append(cases, append([]op{}, prefix...))
		}
		if len(prefix) == 4 {
			return
		}
		for i, a := range alpha {
			if len(prefix) == 0 && i >= 8 {
				break
			}
			rec(append(prefix, a))
		}
	}
	rec(nil)

	return cases
}

func clonerCampaign(o *hlib.Opts, r *hlib.Result, m *hlib.Model) {
	// One P and no collection inside a case: sync.Pool then never loses an
	// entry, so that the recycle flags are a function of the history.
	prevProcs := runtime.GOMAXPROCS(1)
	prevGC := debug.SetGCPercent(-1)
	defer func() {
		runtime.GOMAXPROCS(prevProcs)
		debug.SetGCPercent(prevGC)
	}()
	rng := o.Rand("cloner")
	n := 8000
	if o.Thorough() {
		n = 40000
	}
	cnt := &counters{n: map[string]int{}}
	cases := directedCases()
	if o.Thorough() {
		ex := smallScope()
		r.Notes = append(r.Notes, fmt.Sprintf("small scope: all %d histories of length <= 4 over 18 operations on 5 template "+
			"messages (new through Pack/Unpack, clone, dispose, construct, scribble) that start with a creation were "+
			"enumerated; histories containing an inapplicable operation are skipped as duplicates of shorter ones", len(ex)))
		cases = append(cases, ex...)
	}
	for i := 0; i < n; i++ {
		cases = append(cases, genOps(rng))
	}
	for i, ops := range cases {
		if i%50 == 0 {
			runtime.GC()
		}
		c := runOps(ops, cnt)
		if len(c.steps) == 0 || (len(ops) <= 4 && len(c.steps) < len(ops)) {
			continue
		}
		var canon []string
		for _, s := range c.steps {
			canon = append(canon, s.lines...)
		}
		r.Case(strings.Join(canon, "\n"), c.recycled > 0 && c.maxLive >= 2)
		r.ModelOps += len(canon)
		r.Traces++
		if c.recycled > 0 {
			r.Count("case.with-recycled-object")
		}
		r.Count(fmt.Sprintf("case.max-live=%d", c.maxLive))
		if i < 3 || (c.recycled > 3 && len(r.Samples) < 6) {
			r.Sample(map[string]any{"ops": fmt.Sprint(ops), "lines": canon[:min(len(canon), 6)]}, 6)
		}
		// Oracle first, then the model.
		for _, v := range c.viols {
			min := hlib.Shrink(ops, func(sub []op) bool {
				for _, w := range runOps(sub, &counters{n: map[string]int{}}).viols {
					if w.sig == v.sig {
						return true
					}
				}

				return false
			})
			r.Violate(v.sig, v.what, map[string]any{"campaign": "cloner", "ops": min})
		}
		if diffs := compare(m, c); len(diffs) > 0 {
			min := hlib.Shrink(ops, func(sub []op) bool {
				return len(compare(m, runOps(sub, &counters{n: map[string]int{}}))) > 0
			})
			r.Disagree("cloner-model", diffs[0], map[string]any{"campaign": "cloner", "ops": min, "diffs": diffs[:min2(len(diffs), 3)]})
		}
	}
	for k, v := range cnt.n {
		r.Distribution[k] += v
	}
}

func min2(a, b int) int { return min(a, b) }

func main() {
	o := hlib.ParseFlags()
	r := hlib.NewResult("C07", o)
	r.Rule = "cloner: random and directed histories of create (direct or through Pack/Unpack) / Clone / Dispose / mutate / " +
		"pooled-constructor calls on the production Cloner, compared op by op with the Lean ownership model (content of every " +
		"live message, which objects were recycled, aliasing) and checked by an independent oracle (snapshots of all live " +
		"messages, reflection walk for shared storage, constructor output vs a constructor with empty pools); a case is " +
		"non-trivial when at least one object came out of a pool while two messages were live; distinct = distinct op logs. " +
		"stack: concurrent client streams with distinct profiles through dnssvc.NewHandlers with the production cloner and " +
		"caches, each response compared with the response of the same request processed alone"
	m := hlib.StartModel(o.Model, "C07")
	defer m.Close()
	clonerCampaign(o, r, m)
	stackCampaign(o, r)
	r.Finish()
}
