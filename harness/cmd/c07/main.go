// Command c07 is the correspondence harness and property oracle for C07
// (concurrent clients never see each other's answers, policies or identities).
//
// Campaign 1 drives the production message cloner and the pooled constructors
// with sequences of create / clone / dispose / mutate / append / construct
// operations and the Lean ownership model with the same operations.  The
// backing array of every slice is an object of its own, so that messages whose
// slices have spare capacity, were emptied in place or are empty but allocated,
// and appends by the holders of clones (Msg.SetEdns0, ecscache.setECS,
// normalize), are part of the histories.  Campaign 2 runs client streams
// through the full middleware stack with the production cloner and caches,
// concurrently and as a single-goroutine schedule in which responses stay in
// use while further requests are served, and compares every response with the
// response the same request gets when it is processed alone.  Campaign 3
// (hot.go) has many clients ask for the same few questions at the same time on
// all processors: shared long-lived objects (cache items, cached filtering
// results of the production filters, templates) must only be read.
package main

import (
	"fmt"
	"math/rand/v2"
	"net"
	"net/netip"
	"os"
	"reflect"
	"runtime"
	"runtime/debug"
	"sort"
	"strings"
	"sync"
	"time"

	"github.com/AdguardTeam/AdGuardDNS/internal/agd"
	"github.com/AdguardTeam/AdGuardDNS/internal/dnsmsg"
	"github.com/AdguardTeam/AdGuardDNS/verifh/hlib"
	"github.com/miekg/dns"
)

const nHandles = 8

// op is one replayable operation of campaign 1.
type op struct {
	Kind string `json:"op"`
	A    int    `json:"a"`
	B    int    `json:"b,omitempty"`
	C    int    `json:"c,omitempty"`
	Seed uint64 `json:"seed,omitempty"`
	Wire bool   `json:"wire,omitempty"`
	// T selects a fixed template message instead of a generated one.
	T int `json:"t,omitempty"`
	// Spare reshapes the slices of a new message: spare capacity, elements
	// removed in place, empty but allocated.
	Spare bool `json:"spare,omitempty"`
}

func (o op) String() string {
	return fmt.Sprintf("%s(%d,%d,%d,%d,%v,%d,%v)", o.Kind, o.A, o.B, o.C, o.Seed, o.Wire, o.T, o.Spare)
}

type liveMsg struct {
	msg  *dns.Msg
	snap string
	// Memory reachable from msg (up to the capacity of the slices, and up to
	// their length), as of the last time the message was the target of an
	// operation or was seen to have changed.
	reach, own []region
	fresh      bool
}

// mview is what one live message looks like after a step.
type mview struct {
	objs []fobj
	dump string
	snap string
}

func viewOf(m *dns.Msg) (v mview) {
	v.objs = flatten(m)
	v.dump = showObjs(v.objs)
	str := func() (s string) {
		defer func() {
			if p := recover(); p != nil {
				s = fmt.Sprintf("panic in String: %v", p)
			}
		}()

		return noNil(m.String())
	}()
	v.snap = str + "#" + v.dump

	return v
}

// step is what one op contributed: the model lines, and what the real code
// showed after it.
type step struct {
	op    op
	lines []string
	flags string
	rest  string
	// mask marks the flags that are not compared: those of backing arrays.
	mask []bool
}

type finding struct{ sig, what string }

type caseRun struct {
	cl    *dnsmsg.Cloner
	lives [nHandles]*liveMsg
	seen  map[uintptr]bool
	keep  []any
	steps []step
	viols []finding
	cnt   *counters
	// recycled counts objects that came out of a pool.
	recycled int
	maxLive  int
}

func snapshot(m *dns.Msg) (s string) { return viewOf(m).snap }

func (c *caseRun) violate(sig, what string) { c.viols = append(c.viols, finding{sig, what}) }

// markSeen returns the recycle flags of objs and remembers their storage.
// Which backing array a struct out of a pool brings along is not compared.
func (c *caseRun) markSeen(objs []fobj) (flags string, mask []bool) {
	var sb strings.Builder
	for _, o := range objs {
		switch {
		case isArrKind(o.kind):
			sb.WriteByte('.')
		case o.addr != 0 && c.seen[o.addr]:
			sb.WriteByte('R')
			c.recycled++
		default:
			sb.WriteByte('F')
		}
		mask = append(mask, isArrKind(o.kind))
		if o.addr != 0 && !isArrKind(o.kind) {
			c.seen[o.addr] = true
		}
	}

	return sb.String(), mask
}

// realRest renders "<alias><capalias> <dump>" of the real state: whether two
// live objects overlap in the bytes they use, and whether objects of two
// different live messages overlap in the bytes they can reach (spare capacity
// included).
func (c *caseRun) realRest(vs *[nHandles]*mview) string {
	type iv struct {
		lo, hi uintptr
		h      int
	}
	var use, reach []iv
	var parts []string
	for h, v := range vs {
		if v == nil {
			continue
		}
		parts = append(parts, fmt.Sprintf("%d=%s", h, v.dump))
		for _, o := range v.objs {
			if lo, hi := o.use(); hi > lo && len(o.vals) > 0 {
				use = append(use, iv{lo, hi, h})
			}
			if lo, hi := o.reach(); hi > lo {
				reach = append(reach, iv{lo, hi, h})
			}
		}
	}
	alias, capAlias := "0", "0"
	sort.Slice(use, func(i, j int) bool { return use[i].lo < use[j].lo })
	for i := range use {
		if i+1 < len(use) && use[i+1].lo < use[i].hi {
			alias = "1"
		}
	}
	sort.Slice(reach, func(i, j int) bool { return reach[i].lo < reach[j].lo })
	for i := range reach {
		for j := i + 1; j < len(reach) && reach[j].lo < reach[i].hi; j++ {
			if reach[i].h != reach[j].h {
				capAlias = "1"
			}
		}
	}

	return alias + capAlias + " " + strings.Join(parts, ";")
}

// oracle checks, without the model, that every live message other than the
// target still is what it was, and that live messages do not share storage.
func (c *caseRun) oracle(o op, target int, vs *[nHandles]*mview) {
	n := 0
	for h, l := range c.lives {
		if l == nil {
			continue
		}
		n++
		changed := h == target || !l.fresh
		if h != target {
			if s := vs[h].snap; s != l.snap {
				c.violate("live-message-altered", fmt.Sprintf("after %s message %d changed from %q to %q", o, h, l.snap, s))
				l.snap = s
				changed = true
			}
		}
		if changed {
			l.reach, l.own, l.fresh = l.reach[:0], l.own[:0], true
			regions(reflect.ValueOf(l.msg), nil, &l.reach, &l.own)
			if w := overlap(l.own, nil, true); w != "" {
				c.violate("message-parts-share-storage", fmt.Sprintf("after %s inside message %d: %s", o, h, w))
			}
		}
	}
	c.maxLive = max(c.maxLive, n)
	for a := 0; a < nHandles; a++ {
		for b := a + 1; b < nHandles; b++ {
			if c.lives[a] == nil || c.lives[b] == nil {
				continue
			}
			if w := overlap(c.lives[a].reach, c.lives[b].reach, false); w != "" {
				c.violate("live-messages-share-storage", fmt.Sprintf("after %s messages %d and %d: %s", o, a, b, w))
			}
		}
	}
}

var blockingModes = []dnsmsg.BlockingMode{
	&dnsmsg.BlockingModeNullIP{},
	&dnsmsg.BlockingModeNXDOMAIN{},
	&dnsmsg.BlockingModeREFUSED{},
	&dnsmsg.BlockingModeCustomIP{IPv4: []netip.Addr{netip.MustParseAddr("192.0.2.7"), netip.MustParseAddr("192.0.2.8")},
		IPv6: []netip.Addr{netip.MustParseAddr("2001:db8::7")}},
}

// construct calls one pooled constructor of cl for a request derived from seed.
func construct(cl *dnsmsg.Cloner, which int, seed uint64) (resp *dns.Msg, what string) {
	rng := rand.New(rand.NewPCG(seed, 77))
	mode := blockingModes[which%len(blockingModes)]
	cons, err := dnsmsg.NewConstructor(&dnsmsg.ConstructorConfig{
		Cloner:              cl,
		BlockingMode:        mode,
		StructuredErrors:    &dnsmsg.StructuredDNSErrorsConfig{Enabled: false},
		FilteredResponseTTL: time.Duration(10+which) * time.Second,
		EDEEnabled:          true,
	})
	hlib.Must(err)
	req := &dns.Msg{}
	qt := []uint16{dns.TypeA, dns.TypeAAAA, dns.TypeTXT, dns.TypeHTTPS}[rng.IntN(4)]
	req.SetQuestion(names[rng.IntN(len(names)-1)], qt)
	req.Id = uint16(seed)
	if rng.IntN(4) > 0 {
		req.SetEdns0(uint16(1232+rng.IntN(3)), rng.IntN(2) == 0)
	}
	switch k := rng.IntN(5); {
	case k == 0 && qt == dns.TypeTXT:
		resp, err = cons.NewRespTXT(req, "hello", fmt.Sprint(seed%97))
		what = "NewRespTXT"
	case k == 1 && qt == dns.TypeA:
		resp, err = cons.NewRespIP(req, netip.MustParseAddr("198.51.100.1"), netip.MustParseAddr("198.51.100.2"))
		what = "NewRespIP"
	case k == 1 && qt == dns.TypeAAAA:
		resp, err = cons.NewRespIP(req, netip.MustParseAddr("2001:db8::1"))
		what = "NewRespIP"
	case k == 2:
		resp = cons.NewRespRCode(req, dns.RcodeServerFailure)
		what = "NewRespRCode"
	default:
		resp, err = cons.NewBlockedResp(req)
		what = fmt.Sprintf("NewBlockedResp/%T", mode)
	}
	hlib.Must(err)

	return resp, what
}

// apply executes o on the real code, records the model lines and runs the
// oracle.  Ops that do not fit the current state are skipped, so that every
// subsequence of a case is a case.
func (c *caseRun) apply(o op) {
	st := step{op: o}
	target := -1
	switch o.Kind {
	case "new":
		if c.lives[o.A] != nil {
			return
		}
		m := genMsg(rand.New(rand.NewPCG(o.Seed, 1)), c.cnt)
		if o.T > 0 {
			m = template(o.T)
			c.cnt.n[fmt.Sprintf("new.template-%d", o.T)]++
		}
		if o.Wire {
			w, ok := viaWire(m)
			if !ok {
				c.cnt.n["new.unpackable"]++

				return
			}
			m = w
			c.cnt.n["new.via-wire"]++
		} else {
			c.cnt.n["new.direct"]++
		}
		if o.Spare {
			respare(rand.New(rand.NewPCG(o.Seed, 2)), reflect.ValueOf(m), c.cnt)
			c.cnt.n["new.respared"]++
		}
		objs := flatten(m)
		if !specOK(objs) {
			c.cnt.n["new.arrays-overlap(skipped)"]++

			return
		}
		c.markSeen(objs)
		st.lines = []string{newLine(o.A, objs)}
		st.flags = "-"
		c.lives[o.A] = &liveMsg{msg: m}
		c.keep = append(c.keep, m)
		target = o.A
	case "clone":
		if c.lives[o.A] == nil || c.lives[o.B] != nil || o.A == o.B {
			return
		}
		src := c.lives[o.A]
		cl := c.cl.Clone(src.msg)
		c.keep = append(c.keep, cl)
		st.lines = []string{fmt.Sprintf("clone %d %d", o.A, o.B)}
		st.flags, st.mask = c.markSeen(flatten(cl))
		c.lives[o.B] = &liveMsg{msg: cl}
		if cs := snapshot(cl); cs != src.snap {
			c.violate("clone-differs-from-original", fmt.Sprintf("%s: original %q clone %q", o, src.snap, cs))
		}
		c.cnt.n["op.clone"]++
		target = o.B
	case "dispose":
		if c.lives[o.A] == nil {
			return
		}
		c.cl.Dispose(c.lives[o.A].msg)
		c.lives[o.A] = nil
		st.lines = []string{fmt.Sprintf("dispose %d", o.A)}
		st.flags = "-"
		c.cnt.n["op.dispose"]++
		target = o.A
	case "poke":
		l := c.lives[o.A]
		if l == nil {
			return
		}
		objs := flatten(l.msg)
		i := o.B % len(objs)
		if objs[i].poke == nil || len(objs[i].vals) == 0 {
			return
		}
		j := o.C % len(objs[i].vals)
		objs[i].poke(j)
		after := flatten(l.msg)
		st.lines = []string{fmt.Sprintf("poke %d %d %d %d", o.A, i, j, after[i].vals[j])}
		st.flags = "-"
		c.cnt.n["op.poke"]++
		target = o.A
	case "scribble":
		l := c.lives[o.A]
		if l == nil {
			return
		}
		scribble(reflect.ValueOf(l.msg))
		for i, ob := range flatten(l.msg) {
			for j, v := range ob.vals {
				st.lines = append(st.lines, fmt.Sprintf("poke %d %d %d %d", o.A, i, j, v))
			}
		}
		st.flags = strings.Repeat("-", len(st.lines))
		c.cnt.n["op.scribble"]++
		target = o.A
	case "grow":
		// The holder of message A appends to one of its slices, as
		// Msg.SetEdns0, ecscache.setECS, normalize and the filters do: in
		// place when the slice has spare capacity.
		l := c.lives[o.A]
		if l == nil {
			return
		}
		before := flatten(l.msg)
		i := pickGrowable(before, o.B)
		if i < 0 {
			return
		}
		if !growOK(before, i) {
			// The next cell is in use by a sibling (address hints that are
			// sub-slices of one array): the holder overwrites its own
			// message, which is not the cloner's doing.
			c.cnt.n["grow.skipped(cell-used-by-sibling)"]++

			return
		}
		inPlace := len(before[i].vals) < before[i].cp
		before[i].grow(o.Seed)
		after := flatten(l.msg)
		old := map[objID]bool{}
		for _, ob := range before {
			old[ob.id] = true
		}
		j := -1
		for k, ob := range after {
			if ob.id == before[i].id {
				j = k
			}
		}
		st.lines = []string{fmt.Sprintf("grow %d %d %d %d", o.A, i, after[j].vals[len(after[j].vals)-1], after[j].cp)}
		st.flags, st.mask = "-", []bool{false}
		for k, ob := range after {
			if old[ob.id] {
				continue
			}
			line := fmt.Sprintf("ins %d %d 0 %d", o.A, k, ob.kind)
			for _, v := range ob.vals {
				line += fmt.Sprintf(" %d", v)
			}
			st.lines = append(st.lines, line)
			st.flags += "F"
			st.mask = append(st.mask, isArrKind(ob.kind))
		}
		for _, ob := range after {
			if !old[ob.id] && ob.addr != 0 && !isArrKind(ob.kind) {
				c.seen[ob.addr] = true
			}
		}
		c.cnt.n[fmt.Sprintf("grow.kind=%d", before[i].kind)]++
		if inPlace {
			c.cnt.n["grow.in-place"]++
		} else {
			c.cnt.n["grow.moved"]++
		}
		target = o.A
	case "construct":
		if c.lives[o.A] != nil {
			return
		}
		resp, what := construct(c.cl, o.B, o.Seed)
		c.keep = append(c.keep, resp)
		want, _ := construct(dnsmsg.NewCloner(dnsmsg.EmptyClonerStat{}), o.B, o.Seed)
		c.cnt.n["construct."+what]++
		// The model is told what a constructor without history makes.
		wobjs := flatten(want)
		for _, ob := range wobjs {
			// The message and a SOA are not taken from the pools, and so are
			// the arrays of the sections.
			use := 1
			if ob.kind == kMsg || ob.kind == kSOA || (ob.kind >= kArrQuestion && ob.kind <= kArrExtra) {
				use = 0
			}
			line := fmt.Sprintf("make %d %d %d", o.A, use, ob.kind)
			for _, v := range ob.vals {
				line += fmt.Sprintf(" %d", v)
			}
			st.lines = append(st.lines, line)
		}
		st.flags, st.mask = c.markSeen(flatten(resp))
		c.lives[o.A] = &liveMsg{msg: resp}
		if ws, rs := snapshot(want), snapshot(resp); ws != rs {
			c.violate("constructed-response-depends-on-pool-history", fmt.Sprintf("%s %s: with empty pools %q, with this history %q",
				o, what, ws, rs))
		}
		target = o.A
	default:
		return
	}
	var vs [nHandles]*mview
	for h, l := range c.lives {
		if l != nil {
			v := viewOf(l.msg)
			vs[h] = &v
			if h == target {
				l.snap = v.snap
			}
		}
	}
	st.rest = c.realRest(&vs)
	c.steps = append(c.steps, st)
	c.oracle(o, target, &vs)
}

func runOps(ops []op, cnt *counters) *caseRun {
	c := &caseRun{cl: dnsmsg.NewCloner(dnsmsg.EmptyClonerStat{}), seen: map[uintptr]bool{}, cnt: cnt}
	for _, o := range ops {
		c.apply(o)
	}

	return c
}

// compare sends the lines of c to the model and returns the differences.
func compare(m *hlib.Model, c *caseRun) (diffs []string) {
	lines := []string{"reset"}
	for _, s := range c.steps {
		// Only the state after the last line of a step is compared.
		for i, l := range s.lines {
			if i < len(s.lines)-1 {
				l = "q " + l
			}
			lines = append(lines, l)
		}
	}
	ans := m.Batch(lines)[1:]
	k := 0
	for _, s := range c.steps {
		var flags, rest string
		for range s.lines {
			f, r, _ := strings.Cut(ans[k], " ")
			flags += f
			rest = r
			k++
		}
		if len(s.mask) == len(flags) {
			b := []byte(flags)
			for i, hide := range s.mask {
				if hide {
					b[i] = '.'
				}
			}
			flags = string(b)
		}
		want := s.flags
		if len(s.mask) == len(want) {
			b := []byte(want)
			for i, hide := range s.mask {
				if hide {
					b[i] = '.'
				}
			}
			want = string(b)
		}
		if flags != want {
			diffs = append(diffs, fmt.Sprintf("%s: recycle flags: model %s, implementation %s", s.op, flags, want))
		}
		if rest != s.rest {
			diffs = append(diffs, fmt.Sprintf("%s: state: model %q, implementation %q", s.op, rest, s.rest))
		}
	}

	return diffs
}

// pickGrowable returns the index of the slice that selector sel names: 1000+k
// is the first backing array of kind k, anything else counts through the
// slices of the message.
func pickGrowable(objs []fobj, sel int) int {
	var idx []int
	for i, o := range objs {
		if o.grow == nil {
			continue
		}
		if sel >= 1000 && o.kind == sel-1000 {
			return i
		}
		idx = append(idx, i)
	}
	if sel >= 1000 || len(idx) == 0 {
		return -1
	}

	return idx[sel%len(idx)]
}

// growOK reports whether appending in place to object i leaves the cells in
// use by the other objects of the same message alone.
func growOK(objs []fobj, i int) bool {
	o := objs[i]
	if len(o.vals) >= o.cp {
		return true
	}
	_, hi := o.use()
	if len(o.vals) == 0 {
		hi = o.addr
	}
	lo, hi := hi, hi+o.esz
	for j, p := range objs {
		if j == i || len(p.vals) == 0 {
			continue
		}
		if a, b := p.use(); a < hi && lo < b {
			return false
		}
	}

	return true
}

// specOK reports whether a foreign message is well formed in the sense of the
// model: the backing arrays that Dispose would hand to the pools do not
// overlap (the address buffers of the hints, which are handed over only with a
// capacity of exactly 16, are checked by the model itself).
func specOK(objs []fobj) bool {
	type iv struct{ lo, hi uintptr }
	var ivs []iv
	for _, o := range objs {
		if isArrKind(o.kind) && o.cp > 0 {
			lo, hi := o.reach()
			ivs = append(ivs, iv{lo, hi})
		}
	}
	sort.Slice(ivs, func(i, j int) bool { return ivs[i].lo < ivs[j].lo })
	for i := 1; i < len(ivs); i++ {
		if ivs[i].lo < ivs[i-1].hi {
			return false
		}
	}

	return true
}

func genOps(rng *rand.Rand) (ops []op) {
	n := 8 + rng.IntN(30)
	hmax := 2 + rng.IntN(5)
	// Some cases work on few messages with many clones and appends, as a cache
	// item and the responses made from it do.
	cacheLike := rng.IntN(4) == 0
	for i := 0; i < n; i++ {
		h := rng.IntN(hmax)
		k := rng.IntN(24)
		if cacheLike && i == 0 {
			k = 0
		}
		switch {
		case k < 4:
			o := op{Kind: "new", A: h, Seed: rng.Uint64() >> 1, Wire: rng.IntN(3) > 0, Spare: rng.IntN(2) == 0}
			if cacheLike {
				o.A = 0
				if rng.IntN(2) == 0 {
					o.T = 5 + rng.IntN(3)
				}
			}
			ops = append(ops, o)
		case k < 10:
			o := op{Kind: "clone", A: h, B: rng.IntN(hmax)}
			if cacheLike && rng.IntN(3) > 0 {
				o.A = 0
			}
			ops = append(ops, o)
		case k < 15:
			o := op{Kind: "dispose", A: h}
			if cacheLike && h == 0 && rng.IntN(4) > 0 {
				o.A = 1 + rng.IntN(hmax-1)
			}
			ops = append(ops, o)
		case k < 17:
			ops = append(ops, op{Kind: "poke", A: h, B: rng.IntN(64), C: rng.IntN(16)})
		case k < 18:
			ops = append(ops, op{Kind: "scribble", A: h})
		case k < 22:
			// Mostly the sections and the options, which is where the
			// middlewares append.
			o := op{Kind: "grow", A: h, B: rng.IntN(64), Seed: rng.Uint64() >> 1}
			if rng.IntN(2) == 0 {
				o.B = 1000 + []int{kArrAnswer, kArrNs, kArrExtra, kArrExtra, kArrOption, kArrQuestion}[rng.IntN(6)]
			}
			ops = append(ops, o)
		default:
			ops = append(ops, op{Kind: "construct", A: h, B: rng.IntN(8), Seed: rng.Uint64() >> 1})
		}
	}

	return ops
}

// template returns fixed message number t.
func template(t int) *dns.Msg {
	m := &dns.Msg{}
	m.SetQuestion("tmpl.example.", dns.TypeHTTPS)
	m.Response = true
	hdr := dns.RR_Header{Name: "tmpl.example.", Rrtype: dns.TypeHTTPS, Class: dns.ClassINET, Ttl: 300}
	v4 := func(n int) *dns.SVCBIPv4Hint {
		h := &dns.SVCBIPv4Hint{}
		for i := 0; i < n; i++ {
			h.Hint = append(h.Hint, net.IP{10, 0, byte(t), byte(i + 1)})
		}

		return h
	}
	v6 := func(n int) *dns.SVCBIPv6Hint {
		h := &dns.SVCBIPv6Hint{}
		for i := 0; i < n; i++ {
			ip := net.ParseIP("2001:db8::1")
			ip[14], ip[15] = byte(t), byte(i+1)
			h.Hint = append(h.Hint, ip)
		}

		return h
	}
	switch t {
	case 1:
		m.Answer = []dns.RR{&dns.HTTPS{SVCB: dns.SVCB{Hdr: hdr, Priority: 1, Target: ".", Value: []dns.SVCBKeyValue{v4(5)}}}}
	case 2:
		m.Answer = []dns.RR{&dns.HTTPS{SVCB: dns.SVCB{Hdr: hdr, Priority: 1, Target: ".", Value: []dns.SVCBKeyValue{v6(2)}}}}
	case 3:
		m.Answer = []dns.RR{&dns.HTTPS{SVCB: dns.SVCB{Hdr: hdr, Priority: 1, Target: ".", Value: []dns.SVCBKeyValue{
			&dns.SVCBAlpn{Alpn: []string{"h2", "h3"}}, v4(9), v6(3)}}}}
	case 4:
		m.Extra = []dns.RR{&dns.OPT{Hdr: dns.RR_Header{Name: ".", Rrtype: dns.TypeOPT, Class: 4096, Ttl: 0x00010040},
			Option: []dns.EDNS0{&dns.EDNS0_COOKIE{Code: dns.EDNS0COOKIE, Cookie: "0123456789abcdef"}}}}
	case 5:
		// What the ECS cache keeps: the OPT of the upstream's answer removed
		// in place, so that the additional section is empty, not nil, and has
		// its capacity.
		m.Answer = []dns.RR{&dns.A{Hdr: dns.RR_Header{Name: "tmpl.example.", Rrtype: dns.TypeA, Class: 1, Ttl: 60}, A: net.IP{192, 0, 2, 5}}}
		ex := []dns.RR{&dns.OPT{Hdr: dns.RR_Header{Name: ".", Rrtype: dns.TypeOPT, Class: 1232}}}
		clear(ex)
		m.Extra = ex[:0:1]
	case 6:
		// Every slice empty but allocated.
		m.Question = make([]dns.Question, 0, 1)
		m.Answer = make([]dns.RR, 0, 2)
		m.Ns = make([]dns.RR, 0, 1)
		m.Extra = make([]dns.RR, 0, 2)
	case 7:
		// Spare capacity behind the elements, and slices that are empty but
		// allocated, one and two levels down.
		m.Answer = append(make([]dns.RR, 0, 5), &dns.TXT{Hdr: dns.RR_Header{Name: "tmpl.example.", Rrtype: dns.TypeTXT, Class: 1, Ttl: 60},
			Txt: append(make([]string, 0, 3), "t7")}, &dns.HTTPS{SVCB: dns.SVCB{Hdr: hdr, Priority: 1, Target: ".",
			Value: append(make([]dns.SVCBKeyValue, 0, 4), &dns.SVCBAlpn{Alpn: make([]string, 0, 2)}, v4(1),
				&dns.SVCBIPv6Hint{Hint: make([]net.IP, 0, 2)})}},
			&dns.HTTPS{SVCB: dns.SVCB{Hdr: hdr, Priority: 2, Target: ".", Value: make([]dns.SVCBKeyValue, 0, 2)}},
			&dns.TXT{Hdr: dns.RR_Header{Name: "tmpl.example.", Rrtype: dns.TypeTXT, Class: 1, Ttl: 61}, Txt: make([]string, 0, 2)})
		m.Extra = append(make([]dns.RR, 0, 3), &dns.OPT{Hdr: dns.RR_Header{Name: ".", Rrtype: dns.TypeOPT, Class: 1232},
			Option: make([]dns.EDNS0, 0, 2)}, &dns.OPT{Hdr: dns.RR_Header{Name: ".", Rrtype: dns.TypeOPT, Class: 1233},
			Option: append(make([]dns.EDNS0, 0, 2), &dns.EDNS0_SUBNET{Code: dns.EDNS0SUBNET, Family: 1, Address: make(net.IP, 0, 4)})})
	default:
		m.Answer = []dns.RR{&dns.A{Hdr: dns.RR_Header{Name: "tmpl.example.", Rrtype: dns.TypeA, Class: 1, Ttl: 60}, A: net.IP{192, 0, 2, 1}},
			&dns.HTTPS{SVCB: dns.SVCB{Hdr: hdr, Priority: 1, Target: ".", Value: []dns.SVCBKeyValue{v6(4)}}}}
	}

	return m
}

// directedCases are the histories of the two repaired defects and a few
// boundaries around them; they run before the random cases.
func directedCases() (cases [][]op) {
	for _, a := range []int{1, 3} {
		for _, b := range []int{2, 3, 5} {
			cases = append(cases, []op{{Kind: "new", A: 0, T: a, Wire: true}, {Kind: "dispose", A: 0},
				{Kind: "new", A: 1, T: b, Wire: a == 3}, {Kind: "clone", A: 1, B: 2}, {Kind: "clone", A: 1, B: 3},
				{Kind: "scribble", A: 2}, {Kind: "dispose", A: 2}, {Kind: "clone", A: 3, B: 4}})
		}
	}
	for seed := uint64(0); seed < 24; seed++ {
		cases = append(cases, []op{{Kind: "new", A: 0, T: 4}, {Kind: "clone", A: 0, B: 1}, {Kind: "dispose", A: 0},
			{Kind: "construct", A: 2, B: int(seed % 8), Seed: seed}, {Kind: "dispose", A: 1},
			{Kind: "construct", A: 3, B: int(seed%8) + 1, Seed: seed + 100}})
	}
	// A message whose slices are empty but allocated, or have spare capacity,
	// is cloned for several clients; each appends to its copy (SetEdns0,
	// setECS, a filter adding a record); one copy is released and its parts
	// are reused for an unrelated message while the others are still in use.
	for _, t := range []int{5, 6, 7} {
		for _, arr := range []int{kArrExtra, kArrAnswer, kArrNs, kArrQuestion, kArrOption, kArrValue, kArrTxt, kArrAlpn} {
			g := 1000 + arr
			cases = append(cases, []op{{Kind: "new", A: 0, T: t}, {Kind: "clone", A: 0, B: 1}, {Kind: "clone", A: 0, B: 2},
				{Kind: "grow", A: 1, B: g, Seed: 3}, {Kind: "grow", A: 2, B: g, Seed: 5}, {Kind: "clone", A: 0, B: 3},
				{Kind: "dispose", A: 3}, {Kind: "new", A: 4, T: 4}, {Kind: "clone", A: 4, B: 5}, {Kind: "grow", A: 0, B: g, Seed: 7},
				{Kind: "dispose", A: 1}, {Kind: "clone", A: 2, B: 6}, {Kind: "grow", A: 6, B: g, Seed: 9}})
		}
	}

	return cases
}

// smallScope enumerates every history of at most four operations over a small
// alphabet.
func smallScope() (cases [][]op) {
	var alpha []op
	for h := 0; h < 2; h++ {
		for t := 1; t <= 4; t++ {
			alpha = append(alpha, op{Kind: "new", A: h, T: t, Wire: true})
		}
	}
	nStart := len(alpha)
	alpha = append(alpha, op{Kind: "new", A: 0, T: 5}, op{Kind: "grow", A: 2, B: 1000 + kArrExtra, Seed: 3},
		op{Kind: "grow", A: 3, B: 1000 + kArrExtra, Seed: 4})
	alpha = append(alpha, op{Kind: "clone", A: 0, B: 2}, op{Kind: "clone", A: 1, B: 2}, op{Kind: "clone", A: 2, B: 3})
	for h := 0; h < 4; h++ {
		alpha = append(alpha, op{Kind: "dispose", A: h})
	}
	alpha = append(alpha, op{Kind: "construct", A: 3, B: 1, Seed: 101}, op{Kind: "construct", A: 3, B: 3, Seed: 7},
		op{Kind: "scribble", A: 2})
	var rec func(prefix []op)
	rec = func(prefix []op) {
		if len(prefix) > 0 {
			cases = append(cases, append([]op{}, prefix...))
		}
		if len(prefix) == 4 {
			return
		}
		for i, a := range alpha {
			if len(prefix) == 0 && i > nStart {
				break
			}
			rec(append(prefix, a))
		}
	}
	rec(nil)

	return cases
}

func clonerCampaign(o *hlib.Opts, r *hlib.Result, m *hlib.Model) {
	// One P and no collection inside a case: sync.Pool then never loses an
	// entry, so that the recycle flags are a function of the history.
	prevProcs := runtime.GOMAXPROCS(1)
	prevGC := debug.SetGCPercent(-1)
	defer func() {
		runtime.GOMAXPROCS(prevProcs)
		debug.SetGCPercent(prevGC)
	}()
	rng := o.Rand("cloner")
	n := 8000
	if o.Thorough() {
		n = 40000
	}
	cnt := &counters{n: map[string]int{}}
	cases := directedCases()
	if o.Thorough() {
		ex := smallScope()
		r.Notes = append(r.Notes, fmt.Sprintf("small scope: all %d histories of length <= 4 over 21 operations on 6 template "+
			"messages (new through Pack/Unpack or with an emptied additional section, clone, dispose, append, construct, scribble) that start with a creation were "+
			"enumerated; histories containing an inapplicable operation are skipped as duplicates of shorter ones", len(ex)))
		cases = append(cases, ex...)
	}
	for i := 0; i < n; i++ {
		cases = append(cases, genOps(rng))
	}
	for i, ops := range cases {
		if i%50 == 0 {
			runtime.GC()
		}
		c := runOps(ops, cnt)
		if len(c.steps) == 0 || (len(ops) <= 4 && len(c.steps) < len(ops)) {
			continue
		}
		var canon []string
		for _, s := range c.steps {
			canon = append(canon, s.lines...)
		}
		r.Case(strings.Join(canon, "\n"), c.recycled > 0 && c.maxLive >= 2)
		r.ModelOps += len(canon)
		r.Traces++
		if c.recycled > 0 {
			r.Count("case.with-recycled-object")
		}
		r.Count(fmt.Sprintf("case.max-live=%d", c.maxLive))
		if i < 3 || (c.recycled > 3 && len(r.Samples) < 6) {
			r.Sample(map[string]any{"ops": fmt.Sprint(ops), "lines": canon[:min(len(canon), 6)]}, 6)
		}
		// Oracle first, then the model.
		for _, v := range c.viols {
			min := hlib.Shrink(ops, func(sub []op) bool {
				for _, w := range runOps(sub, &counters{n: map[string]int{}}).viols {
					if w.sig == v.sig {
						return true
					}
				}

				return false
			})
			r.Violate(v.sig, v.what, map[string]any{"campaign": "cloner", "ops": min})
		}
		if diffs := compare(m, c); len(diffs) > 0 {
			min := hlib.Shrink(ops, func(sub []op) bool {
				return len(compare(m, runOps(sub, &counters{n: map[string]int{}}))) > 0
			})
			r.Disagree("cloner-model", diffs[0], map[string]any{"campaign": "cloner", "ops": min, "diffs": diffs[:min2(len(diffs), 3)]})
		}
	}
	for k, v := range cnt.n {
		r.Distribution[k] += v
	}
}

func min2(a, b int) int { return min(a, b) }

// humanIDCampaign: the buffer pool of agd.HumanIDParser (the device finder
// normalises the human-readable device ID of a TLS server name or DoH path in
// a pooled buffer).  What a parser that has served other clients returns for a
// string must be what a new parser returns for it: identifiers and errors
// alike; sequentially (one buffer, recycled every time) and from several
// goroutines at once.  The expectation comes from a parser of its own per
// string, i.e. from a buffer nobody has used.
func humanIDCampaign(o *hlib.Opts, r *hlib.Result) {
	rng := o.Rand("humanid")
	alphabet := []string{"a", "b", "Z", "0", "-", "-", "!", "_", " ", "é", "'", "."}
	gen := func() string {
		switch rng.IntN(12) {
		case 0:
			return strings.Repeat("-", 1+rng.IntN(5))
		case 1:
			return strings.Repeat("!", 1+rng.IntN(5))
		case 2:
			return strings.Repeat("x", 60+rng.IntN(10)) + "!"
		case 3:
			return strings.Repeat("y-", 120+rng.IntN(20))
		}
		var sb strings.Builder
		for n := 1 + rng.IntN(24); n > 0; n-- {
			sb.WriteString(alphabet[rng.IntN(len(alphabet))])
		}

		return sb.String()
	}
	show := func(id agd.HumanID, err error) string {
		if err != nil {
			return "error: " + err.Error()
		}

		return "id: " + string(id)
	}
	rounds := 40
	if o.Thorough() {
		rounds = 400
	}
	for round := 0; round < rounds; round++ {
		n := 2 + rng.IntN(30)
		inputs := make([]string, n)
		want := make([]string, n)
		for i := range inputs {
			inputs[i] = gen()
			want[i] = show(agd.NewHumanIDParser().ParseNormalized(inputs[i]))
			switch {
			case strings.HasPrefix(want[i], "error"):
				r.Count("humanid.not-normalizable")
			case want[i] == "id: "+inputs[i]:
				r.Count("humanid.valid-as-is")
			default:
				r.Count("humanid.normalized-in-pooled-buffer")
			}
		}
		shared := agd.NewHumanIDParser()
		fails := func(sub []int) (string, bool) {
			p := agd.NewHumanIDParser()
			for _, i := range sub {
				if got := show(p.ParseNormalized(inputs[i])); got != want[i] {
					return fmt.Sprintf("%q: a new parser gives %q, a parser that has served %d other strings gives %q", inputs[i],
						want[i], len(sub)-1, got), true
				}
			}

			return "", false
		}
		order := make([]int, n)
		for i := range order {
			order[i] = i
		}
		r.Evaluations += n
		if _, bad := fails(order); bad {
			small := hlib.Shrink(order, func(sub []int) bool { _, b := fails(sub); return b })
			what, _ := fails(small)
			var seq []string
			for _, i := range small {
				seq = append(seq, inputs[i])
			}
			r.Violate("pooled-buffer-result-depends-on-history", "HumanIDParser.ParseNormalized "+what,
				map[string]any{"campaign": "humanid", "strings_in_order": seq})
		}
		// The same strings from four goroutines on one parser.
		var wg sync.WaitGroup
		var mu sync.Mutex
		var firstBad string
		for g := 0; g < 4; g++ {
			wg.Add(1)
			go func(g int) {
				defer wg.Done()
				for k := 0; k < 50; k++ {
					i := (g*7 + k*3) % n
					if got := show(shared.ParseNormalized(inputs[i])); got != want[i] {
						mu.Lock()
						if firstBad == "" {
							firstBad = fmt.Sprintf("%q: a new parser gives %q, the shared parser gives %q", inputs[i], want[i], got)
						}
						mu.Unlock()
					}
				}
			}(g)
		}
		wg.Wait()
		r.Evaluations += 200
		if firstBad != "" {
			r.Violate("pooled-buffer-result-depends-on-history", "HumanIDParser.ParseNormalized, 4 goroutines: "+firstBad,
				map[string]any{"campaign": "humanid-concurrent", "strings": inputs})
		}
		r.Case("humanid|"+strings.Join(inputs, "|"), true)
	}
}

func main() {
	if arg := os.Getenv(hotChildEnv); arg != "" {
		hotChild(arg)

		return
	}
	o := hlib.ParseFlags()
	r := hlib.NewResult("C07", o)
	r.Rule = "cloner: random and directed histories of create (direct or through Pack/Unpack; slices with spare capacity, " +
		"emptied in place, empty but allocated) / Clone / Dispose / mutate / append to a slice of a live message / " +
		"pooled-constructor calls on the production Cloner, compared op by op with the Lean ownership model (content of every " +
		"live message including the cells of every backing array, which objects were recycled, aliasing of cells in use, overlap " +
		"of reachable cells between live messages) and checked by an independent oracle (snapshots of all live " +
		"messages, reflection walk for storage shared up to the capacity of every slice, constructor output vs a constructor with " +
		"empty pools); a case is non-trivial when at least one object came out of a pool while two messages were live; distinct = " +
		"distinct op logs. stack: client streams with distinct profiles, device names, locations and client subnets through " +
		"dnssvc.NewHandlers and the UDP writer's normalize with the production cloner and caches (requests blocked at the request and at " +
		"the response stage, allowed, CNAME-rewritten, answered by a rewrite rule, debug requests, requests dropped by the access rules " +
		"and the rate limiter, signed names with and without DO), run (a) concurrently on all processors, every third round with the " +
		"production file query log after a history of failed opens, (b) cooperatively on one processor with yields at every boundary " +
		"between the stack and a fake, (c) in one goroutine with responses held in use while further requests are served; each " +
		"response is compared with the response of the same request processed alone ON A NEW STACK, with what it was when the handler " +
		"returned it, its client subnet with the one the request sent, the query-log lines with those of the requests alone, and at the " +
		"filter boundary every field of filter.Request / filter.Response / agd.RequestInfo with the request's own identity (and no two " +
		"requests in flight may use one RequestInfo); fault paths: profiles whose message constructor cannot be built (negative TTL, no " +
		"blocking mode) next to profiles with modes and TTLs of their own, TTL 0, clients without GeoIP data or with a failing lookup, a " +
		"failing profile database, failing filters and upstreams, malformed client subnets, profiles without IP logging; on the " +
		"sequential held histories the RequestInfo at the filter is compared field by field with the Lean model of the pooled " +
		"contexts (fills with an error branch). overlap: for 11 kinds of history x 8 boundaries x 36 ordered pairs of requests, " +
		"request A is held at the boundary while request B is served completely, on one processor, and both are compared with alone. " +
		"hot: 4-16 clients ask for the same 1-3 popular questions thousands of times on all processors (each round in a process of " +
		"its own; ECS cache / simple cache / none, cold or warmed up; scripted filters, or the production filter storage with its " +
		"result caches), every request with its own ID, letter case of the name, RD/CD/AD bits, EDNS size, cookie, client subnet; " +
		"every response against the request alone and against what it must echo of its request; all stack campaigns vary letter " +
		"case and RD/CD/AD"
	m := hlib.StartModel(o.Model, "C07")
	defer m.Close()
	// C07_ONLY=cloner|stack|hot restricts a development run to one campaign.
	only := os.Getenv("C07_ONLY")
	if only != "stack" && only != "hot" && only != "wire" {
		clonerCampaign(o, r, m)
		humanIDCampaign(o, r)
	}
	if only != "cloner" && only != "hot" && only != "wire" {
		overlapCampaign(o, r)
		stackCampaign(o, r, m)
	}
	if only == "" || only == "wire" {
		wireCampaign(o, r)
	}
	if only != "cloner" && only != "stack" && only != "wire" {
		hotCampaign(o, r)
	}
	stackCountsMu.Lock()
	for k, n := range stackCounts {
		r.Distribution[k] += n
	}
	stackCountsMu.Unlock()
	r.Finish()
}
