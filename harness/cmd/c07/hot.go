package main

import (
	"bytes"
	"context"
	"encoding/json"
	"fmt"
	"math/rand/v2"
	"os"
	"os/exec"
	"runtime"
	"runtime/debug"
	"sort"
	"strings"
	"sync"
	"sync/atomic"
	"time"

	"github.com/AdguardTeam/AdGuardDNS/internal/dnssvc"
	"github.com/AdguardTeam/AdGuardDNS/verifh/hlib"
	"github.com/miekg/dns"
)

// The hot-item campaign.
//
// A long-lived object that many requests read at the same time (the message of
// a cache item, a cached filtering result, a profile, a constructor) must not
// be written on the read path: a request that writes its own data into it and
// reads them back is served correctly whenever it is alone, and with the data
// of another request when two of them are in flight on the same object.  No
// fake boundary lies between such a write and the read, so the cooperative
// and the overlap campaigns cannot place another request there; only requests
// that really run at the same time on several processors can.  The random
// streams of the stack campaign hardly ever have two requests on one item in
// flight at once.  Here every client asks for the same few popular questions,
// thousands of times, on all processors, and every request differs from the
// others in everything a response echoes or depends on: ID, letter case of the
// name, RD/CD/AD bits, EDNS parameters, cookie, client subnet, profile.

// hotKey is a popular question.
type hotKey struct {
	Name  string `json:"name"`
	Qtype uint16 `json:"qtype"`
}

// hotSpec describes one round; the streams are a function of it.
type hotSpec struct {
	Cache     string   `json:"cache"`
	Filters   string   `json:"filters"`
	Seed      uint64   `json:"round_seed"`
	Clients   int      `json:"clients"`
	PerClient int      `json:"per_client"`
	Hot       []hotKey `json:"hot_questions"`
	Warm      bool     `json:"warmed_up"`
	// CacheCounts are the sizes of the two caches of the ECS cache (the first
	// one: of the simple cache).
	CacheCounts [2]int `json:"cache_counts"`
}

// hotNamesFake are the popular names of the fixture with the scripted filters:
// answered by the upstream (plain, signed, subnet-dependent, blocked at the
// response stage for some profiles), allowed, blocked, rewritten.
var hotNamesFake = []string{"one.example.", "two.example.", "three.example.org.", "four.test.", "five.test.",
	"rblock.example.", "allow.example.", "blocked.example.", "p1-blocked.example.", "rewrite.example.", "cname.example.",
	"p5-blocked.example.", "flterr.example."}

func (hs *hotSpec) cacheConf() *dnssvc.CacheConfig {
	switch hs.Cache {
	case "simple":
		return &dnssvc.CacheConfig{Type: dnssvc.CacheTypeSimple, NoECSCount: hs.CacheCounts[0]}
	case "ecs":
		return &dnssvc.CacheConfig{Type: dnssvc.CacheTypeECS, NoECSCount: hs.CacheCounts[0], ECSCount: hs.CacheCounts[1]}
	}

	return nil
}

// streams are the requests of the round.
func (hs *hotSpec) streams() (streams [][]sreq) {
	rng := rand.New(rand.NewPCG(hs.Seed, 0x686f74))
	// A few spellings are shared by all clients, so that equal questions in
	// different spellings and equal spellings from different clients meet.
	masks := []uint32{0, rng.Uint32(), rng.Uint32(), 0xffffffff}
	id := uint16(rng.IntN(1000))
	qtypes := []uint16{dns.TypeA, dns.TypeAAAA, dns.TypeTXT, dns.TypeHTTPS}
	for c := 0; c < hs.Clients; c++ {
		var s []sreq
		own := rng.Uint32()
		for k := 0; k < hs.PerClient; k++ {
			id++
			h := hs.Hot[rng.IntN(len(hs.Hot))]
			q := sreq{Client: c, Name: h.Name, Qtype: h.Qtype, ID: id, EDNS: rng.IntN(5), Var: uint16(1 + rng.IntN(3))}
			switch n := rng.IntN(8); {
			case n < len(masks):
				q.Name = mixCase(q.Name, masks[n])
			case n < 6:
				q.Name = mixCase(q.Name, own)
			default:
				q.Name = mixCase(q.Name, rng.Uint32())
			}
			q.NoRD, q.CD, q.AD = rng.IntN(2) == 0, rng.IntN(2) == 0, rng.IntN(2) == 0
			switch rng.IntN(40) {
			case 0:
				// A debug request for a popular name.
				q.Chaos, q.Qtype = true, dns.TypeTXT
			case 1:
				// Another type of a popular name: another item.
				q.Qtype = qtypes[rng.IntN(len(qtypes))]
			}
			s = append(s, q)
		}
		streams = append(streams, s)
	}

	return streams
}

// hotRound runs one round and reports what differs from each request alone.
func hotRound(r *hlib.Result, hs *hotSpec, real *realFilters) (pair *hotPairReq) {
	cache := hs.cacheConf()
	streams := hs.streams()
	reqs := reqTable(streams)

	// Every request alone, one after another with nothing else in flight, on a
	// stack without a cache (and with empty filtering-result caches).  What
	// differs in the concurrent run is checked again against the request on a
	// new stack before it is reported.
	seq := newFixtureWith(nil, reqs, real, true)
	want := make([][]string, len(streams))
	var wantLog []string
	for c, s := range streams {
		want[c] = make([]string, len(s))
		for k, q := range s {
			w, err := seq.serve(q)
			if err != nil {
				w = "ERROR " + err.Error()
			}
			want[c][k] = w
		}
	}
	wantLog = logKey(seq)
	if os.Getenv("C07_HOT_DUMP") != "" {
		for c, s := range streams {
			fmt.Fprintf(os.Stderr, "DUMP %+v\n  -> %s\n", s[0], want[c][0])
		}
	}
	for _, v := range seq.idViols {
		r.Violate(v.sig+"(sequential)", v.what, hs)

		break
	}

	conc := newFixtureWith(cache, reqs, real, false)
	if hs.Warm {
		// The items are there before the clients start: every request is a hit.
		// The warming requests are those of a client of their own.
		for i, h := range hs.Hot {
			for _, edns := range []int{0, 4} {
				w := sreq{Client: hs.Clients, Name: h.Name, Qtype: h.Qtype, ID: uint16(60000 + 2*i + edns/4), EDNS: edns, Var: 1}
				conc.reqs[w.ID] = w
				if _, err := conc.serve(w); err != nil {
					r.Violate("stack-error-hot", fmt.Sprintf("warming request %+v: %v", w, err), hs)
				}
			}
		}
		logKey(conc)
		conc.idViols = nil
	}
	got := make([][]string, len(streams))
	for c := range streams {
		got[c] = make([]string, len(streams[c]))
	}
	// other[c][k] is the ID that the response carried when it was not the one
	// of the request.
	other := make([][]int, len(streams))
	for c := range streams {
		other[c] = make([]int, len(streams[c]))
	}
	var inFlight, overlapped atomic.Int64
	var wg sync.WaitGroup
	start := make(chan struct{})
	for c := range streams {
		wg.Add(1)
		go func(c int) {
			defer wg.Done()
			// A message that two requests write at the same time may be torn:
			// a fault while it is rendered is a panic that render reports.
			debug.SetPanicOnFault(true)
			<-start
			for k, q := range streams[c] {
				if inFlight.Add(1) > 1 {
					overlapped.Add(1)
				}
				resp, err := conc.handle(q)
				g := ""
				if err != nil {
					g = "ERROR " + err.Error()
				} else {
					g = render(q, resp)
					if resp != nil && resp.Id != q.ID {
						other[c][k] = int(resp.Id) + 1
					}
					if p := conc.dispose(resp); p != "" {
						g = p + " " + g
					}
				}
				inFlight.Add(-1)
				got[c][k] = g
			}
		}(c)
	}
	close(start)
	wg.Wait()
	gotLog := logKey(conc)
	r.Distribution["hot.requests"] += len(reqs)
	r.Distribution["hot.requests-started-while-another-in-flight"] += int(overlapped.Load())

	replay := func(q *sreq, alone, here string) map[string]any {
		m := map[string]any{"campaign": "stack-hot", "round": hs, "procs": runtime.GOMAXPROCS(0),
			"how": "the streams are hotSpec.streams() of the round; all clients start at once, one goroutine each"}
		if q != nil {
			m["failing_request"], m["response_alone"], m["response_here"] = *q, alone, here
		}
		var heads [][]sreq
		for _, s := range streams {
			heads = append(heads, s[:min(3, len(s))])
		}
		m["first_requests_of_each_client"] = heads

		return m
	}
	confirmed := 0
	for c := range streams {
		for k, q := range streams[c] {
			r.Evaluations++
			if got[c][k] == want[c][k] || confirmed >= 40 {
				continue
			}
			confirmed++
			// Against the request on a new stack.
			solo := newFixtureWith(nil, reqs, real, true)
			w, err := solo.serve(q)
			if err != nil {
				w = "ERROR " + err.Error()
			}
			if w != want[c][k] {
				r.Violate("sequential-response-differs-from-solo", fmt.Sprintf("request %+v: on a new stack %q, after other requests, "+
					"one at a time, without a cache %q", q, w, want[c][k]), replay(&q, w, want[c][k]))
			}
			if got[c][k] == w {
				continue
			}
			sig := "hot-response-differs-from-solo"
			if strings.HasPrefix(got[c][k], "FOREIGN-ECS") {
				sig = "response-client-subnet-of-another-request"
			} else if strings.HasPrefix(got[c][k], "FOREIGN") {
				sig = "response-id-or-question-of-another-request"
			}
			rep := replay(&q, w, got[c][k])
			if o, ok := reqs[uint16(other[c][k]-1)]; ok && other[c][k] > 0 {
				// The smallest schedule: the two requests, again and again, by
				// two clients at the same time.
				rep["response_carries_id_of_request"] = o
				if pair == nil {
					pair = &hotPairReq{Sig: sig, A: q, B: o}
				}
			}
			r.Violate(sig, fmt.Sprintf("cache=%s filters=%s clients=%d hot questions %v: request %+v: alone %q, with the others in flight %q",
				hs.Cache, hs.Filters, hs.Clients, hs.Hot, q, w, got[c][k]), rep)
		}
	}
	sort.Strings(wantLog)
	if strings.Join(gotLog, "\n") != strings.Join(wantLog, "\n") {
		diff := ""
		for i := range wantLog {
			if i >= len(gotLog) || gotLog[i] != wantLog[i] {
				diff = fmt.Sprintf("first difference at sorted entry %d: alone %q", i, wantLog[i])
				if i < len(gotLog) {
					diff += fmt.Sprintf(", here %q", gotLog[i])
				}

				break
			}
		}
		r.Violate("querylog-identity-differs-from-solo", fmt.Sprintf("cache=%s filters=%s hot: %d vs %d entries; %s", hs.Cache, hs.Filters,
			len(wantLog), len(gotLog), diff), replay(nil, "", ""))
	}
	for _, v := range conc.idViols {
		r.Violate(v.sig, fmt.Sprintf("cache=%s filters=%s clients=%d hot, %s", hs.Cache, hs.Filters, hs.Clients, v.what), replay(nil, "", ""))

		break
	}

	return pair
}

// hotPairReq asks for the smallest schedule of a finding.
type hotPairReq struct {
	Sig  string `json:"signature"`
	A, B sreq
}

// hotPair serves a and b by two clients at the same time, n times each, on one
// new stack and counts the responses that are not the one of the request alone.
func hotPair(a, b sreq, cache *dnssvc.CacheConfig, real *realFilters) (n, bad int, first string) {
	n = 20000
	reqs := map[uint16]sreq{a.ID: a, b.ID: b}
	var want [2]string
	for i, q := range []sreq{a, b} {
		w, err := newFixtureWith(nil, reqs, real, true).serve(q)
		if err != nil {
			w = "ERROR " + err.Error()
		}
		want[i] = w
	}
	f := newFixtureWith(cache, reqs, real, false)
	var mu sync.Mutex
	var wg sync.WaitGroup
	for i, q := range []sreq{a, b} {
		wg.Add(1)
		go func() {
			defer wg.Done()
			debug.SetPanicOnFault(true)
			for k := 0; k < n; k++ {
				g, err := f.serve(q)
				if err != nil {
					g = "ERROR " + err.Error()
				}
				if g != want[i] {
					mu.Lock()
					bad++
					if first == "" {
						first = fmt.Sprintf("request %+v: alone %q, here %q", q, want[i], g)
					}
					mu.Unlock()
				}
			}
		}()
	}
	wg.Wait()

	return n, bad, first
}

// hotChildIn is what the process that runs one round is told; hotChildOut is
// what it prints: one line when the round is over and a second one after the
// search for the smallest schedule.
type hotChildIn struct {
	Spec hotSpec `json:"spec"`
	Tier string  `json:"tier"`
}

type hotChildOut struct {
	Violations   []hlib.Finding `json:"violations"`
	Distribution map[string]int `json:"distribution"`
	Evaluations  int            `json:"evaluations"`
	Pair         *hotPairReq    `json:"pair,omitempty"`
	Minimal      map[string]any `json:"minimal,omitempty"`
}

const hotChildEnv = "C07_HOT_CHILD"

// hotChild is the main function of the process that runs one round.  Requests
// that write one message at the same time can tear it, and whoever reads it
// then may fault or ask for a huge allocation, which cannot be recovered from:
// every round has a process of its own, and a round that kills it is a finding.
func hotChild(arg string) {
	var in hotChildIn
	hlib.Must(json.Unmarshal([]byte(arg), &in))
	r := hlib.NewResult("C07", &hlib.Opts{Tier: in.Tier})
	runtime.GOMAXPROCS(runtime.NumCPU())
	debug.SetPanicOnFault(true)
	var real *realFilters
	if in.Spec.Filters == "production" {
		real = newRealFilters()
		defer real.close()
	}
	pair := hotRound(r, &in.Spec, real)
	enc := json.NewEncoder(os.Stdout)
	hlib.Must(enc.Encode(&hotChildOut{Violations: r.Violations, Distribution: r.Distribution, Evaluations: r.Evaluations, Pair: pair}))
	if pair != nil {
		n, bad, first := hotPair(pair.A, pair.B, in.Spec.cacheConf(), real)
		hlib.Must(enc.Encode(&hotChildOut{Minimal: map[string]any{
			"how":      "two goroutines on one new stack, each sends its request again and again",
			"requests": []sreq{pair.A, pair.B}, "repeats_each": n, "responses_that_differ_from_alone": bad, "first": first}}))
	}
}

// hotRoundInChild runs the round in a process of its own and merges what it
// reports into r.
func hotRoundInChild(r *hlib.Result, hs *hotSpec, tier, tmp string) (nViol int) {
	exe, err := os.Executable()
	hlib.Must(err)
	arg, err := json.Marshal(&hotChildIn{Spec: *hs, Tier: tier})
	hlib.Must(err)
	ctx, cancel := context.WithTimeout(context.Background(), 5*time.Minute)
	defer cancel()
	cmd := exec.CommandContext(ctx, exe)
	cmd.Env = append(os.Environ(), hotChildEnv+"="+string(arg), "TMPDIR="+tmp)
	var stdout, stderr bytes.Buffer
	cmd.Stdout, cmd.Stderr = &stdout, &stderr
	runErr := cmd.Run()
	dec := json.NewDecoder(&stdout)
	var first, second hotChildOut
	haveFirst := dec.Decode(&first) == nil
	if haveFirst {
		_ = dec.Decode(&second)
		for _, v := range first.Violations {
			if rep, ok := v.Replay.(map[string]any); ok && first.Pair != nil && v.Signature == first.Pair.Sig {
				if second.Minimal != nil {
					rep["minimal"] = second.Minimal
				} else {
					rep["minimal"] = "the process died while the two requests were repeated: " + crashHead(stderr.String())
				}
			}
			r.Violate(v.Signature, v.What, v.Replay)
			nViol++
		}
		for k, n := range first.Distribution {
			r.Distribution[k] += n
		}
		r.Evaluations += first.Evaluations
	}
	if runErr != nil && !(haveFirst && first.Pair != nil) {
		// The round itself did not come to its end.
		r.Violate("hot-round-crashed", fmt.Sprintf("cache=%s filters=%s clients=%d hot questions %v: the process serving the clients died (%v): %s",
			hs.Cache, hs.Filters, hs.Clients, hs.Hot, runErr, crashHead(stderr.String())),
			map[string]any{"campaign": "stack-hot", "round": hs, "how": "the streams are hotSpec.streams() of the round; all clients start at once, " +
				"one goroutine each", "stderr_head": crashHead(stderr.String())})
		nViol++
	}

	return nViol
}

// crashHead is the beginning of what a dying process wrote: the reason and the
// frames of the first goroutine, without addresses.
func crashHead(s string) string {
	var out []string
	for _, l := range strings.Split(s, "\n") {
		if l == "" || strings.HasPrefix(l, "\t") {
			continue
		}
		if i := strings.Index(l, "("); i > 0 && !strings.HasPrefix(l, "[") && !strings.Contains(l, ": ") {
			l = l[:i]
		}
		out = append(out, l)
		if len(out) == 12 {
			break
		}
	}

	return strings.Join(out, " | ")
}

func hotCampaign(o *hlib.Opts, r *hlib.Result) {
	// All processors, whatever the campaigns before have left.
	procs := runtime.NumCPU()
	defer debug.SetPanicOnFault(debug.SetPanicOnFault(true))
	defer runtime.GOMAXPROCS(runtime.GOMAXPROCS(procs))
	r.Count(fmt.Sprintf("hot.procs=%d", min(procs, 16)))
	rng := o.Rand("hot")
	rounds, budget := 24, 4000
	if o.Thorough() {
		rounds, budget = 160, 12000
	}
	tmp, err := os.MkdirTemp("", "c07-hot-*")
	hlib.Must(err)
	defer func() { _ = os.RemoveAll(tmp) }()
	caches := []string{"ecs", "simple", "ecs", "none", "ecs", "simple", "ecs"}
	// Every name is popular in its turn: the rounds walk through a shuffled
	// list of the names of their fixture.
	next := map[string]int{}
	pick := func(kind string, names []string) string {
		if next[kind]%len(names) == 0 {
			rng.Shuffle(len(names), func(i, j int) { names[i], names[j] = names[j], names[i] })
		}
		next[kind]++

		return names[(next[kind]-1)%len(names)]
	}
	namesFake, namesReal := append([]string{}, hotNamesFake...), append([]string{}, hotNamesReal...)
	if v := os.Getenv("C07_HOT_NAMES"); v != "" {
		// A development run with the popular names given.
		namesFake = strings.Split(v, ",")
		namesReal = namesFake
	}
	for round := 0; round < rounds; round++ {
		hs := &hotSpec{Cache: caches[round%len(caches)], Filters: "scripted", Seed: rng.Uint64(), Clients: 4 + rng.IntN(13),
			Warm: rng.IntN(3) > 0}
		hs.CacheCounts = [2]int{8 + rng.IntN(20), 8 + rng.IntN(20)}
		hs.PerClient = budget / hs.Clients
		// Mostly the types that every filter looks at.
		qtypes := []uint16{dns.TypeA, dns.TypeA, dns.TypeAAAA, dns.TypeAAAA, dns.TypeHTTPS, dns.TypeTXT}
		if round%2 == 1 {
			// Few names and few clients without a profile: the requests of
			// different profiles for one name are what meets here.
			hs.Filters, hs.Clients = "production", 4+rng.IntN(7)
			hs.PerClient = budget / hs.Clients
			for n := 0; n < 2; n++ {
				hs.Hot = append(hs.Hot, hotKey{Name: pick("production", namesReal), Qtype: qtypes[rng.IntN(len(qtypes))]})
			}
		} else {
			for n := 1 + rng.IntN(3); n > 0; n-- {
				hs.Hot = append(hs.Hot, hotKey{Name: pick("scripted", namesFake), Qtype: qtypes[rng.IntN(len(qtypes))]})
			}
		}
		r.Count("hot.cache=" + hs.Cache)
		r.Count("hot.filters=" + hs.Filters)
		r.Count(fmt.Sprintf("hot.warmed-up=%v", hs.Warm))
		n := hotRoundInChild(r, hs, o.Tier, tmp)
		r.Traces++
		var hot []string
		for _, h := range hs.Hot {
			hot = append(hot, fmt.Sprintf("%s/%d", h.Name, h.Qtype))
		}
		r.Case(fmt.Sprintf("hot|%s|%s|%d|%v|%s", hs.Cache, hs.Filters, hs.Clients, hs.Warm, strings.Join(hot, ",")), hs.Clients >= 2 && procs >= 2)
		if round == 0 {
			r.Sample(map[string]any{"hot_round": hs, "first_request": hs.streams()[0][0]}, 9)
		}
		if n > 0 {
			// One round that fails is enough: the rest of the campaign would
			// report the same.
			break
		}
	}
}
