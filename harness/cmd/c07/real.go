package main

import (
	"context"
	"encoding/json"
	"fmt"
	"net/http"
	"net/http/httptest"
	"net/url"
	"os"
	"path/filepath"
	"strings"
	"time"

	"github.com/AdguardTeam/AdGuardDNS/internal/agdcache"
	"github.com/AdguardTeam/AdGuardDNS/internal/agdtest"
	"github.com/AdguardTeam/AdGuardDNS/internal/filter"
	"github.com/AdguardTeam/AdGuardDNS/internal/filter/filterstorage"
	"github.com/AdguardTeam/AdGuardDNS/internal/filter/hashprefix"
	"github.com/AdguardTeam/AdGuardDNS/verifh/hlib"
	"github.com/AdguardTeam/golibs/logutil/slogutil"
	"github.com/c2h5oh/datasize"
)

// realFilters is the production filter storage (rule lists with their result
// caches, blocked services, safe search, hash-prefix filters with theirs,
// custom filters of the profiles with the cache of compiled filters) over a
// local HTTP server.  One storage serves all fixtures of the hot-item
// campaign; a fixture that computes what a request gets alone empties every
// cache of the storage before each call of a filter.
type realFilters struct {
	srv   *httptest.Server
	dir   string
	strg  *filterstorage.Default
	mgr   *agdcache.DefaultManager
	confs [nProfiles]*filter.ConfigClient
	group *filter.ConfigGroup
}

// hotNamesReal are the popular names of the fixture with the production
// filters: one or more for every result cache.
var hotNamesReal = []string{"one.example.", "two.example.", "five.test.", "blocked.example.", "allow.example.",
	"l1-blocked.example.", "p1-blocked.example.", "cname.example.", "rewrite.example.", "sb.example.", "x.sb.example.",
	"adult.example.", "search.example.", "svc.example.", "rblock.example.", "hosts.example.", "multi.example."}

type fixedClock struct{}

func (fixedClock) Now() time.Time { return time.Unix(1700000000, 0) }

type errColl struct{ errs []error }

func (e *errColl) Collect(_ context.Context, err error) { e.errs = append(e.errs, err) }

func newRealFilters() (rf *realFilters) {
	rf = &realFilters{mgr: agdcache.NewDefaultManager()}
	var err error
	rf.dir, err = os.MkdirTemp("", "c07-flt-*")
	hlib.Must(err)
	content := map[string]string{}
	rf.srv = httptest.NewServer(http.HandlerFunc(func(w http.ResponseWriter, req *http.Request) {
		body, ok := content[req.URL.Path]
		if !ok {
			http.NotFound(w, req)

			return
		}
		w.Header().Set("Server", "verif/1.0")
		_, _ = w.Write([]byte(body))
	}))
	base, err := url.Parse(rf.srv.URL)
	hlib.Must(err)
	at := func(p string) *url.URL { v := *base; v.Path = p; return &v }

	// The address that the upstream of the fixture answers rblock.example/A
	// with: list 1 blocks it at the response stage.
	h := nameHash("rblock.example.")
	rblockIP := fmt.Sprintf("192.0.%d.%d", byte(h>>8), byte(h))
	lists := []string{
		"! list 0: every profile and the default group\n||blocked.example^\n@@||allow.example^\n" +
			"|cname.example^$dnsrewrite=NOERROR;CNAME;one.example\n|rewrite.example^$dnsrewrite=NOERROR;A;203.0.113.77\n" +
			"192.0.2.1 hosts.example\n" +
			// Five rules for one name: the slice of rules of the cached result has
			// spare capacity (5 of 6), which an append by a reader would write to.
			"||multi.example^\n|multi.example^\nmulti.example^\n||multi.example\n|multi.example\n",
		"! list 1: profiles 0 and 2\n||l1-blocked.example^\n||" + rblockIP + "^\n||allow.example^\n@@||multi.example^\n",
		"! list 2: profiles 1 and 3\n@@||l1-blocked.example^\n||five.test^$dnstype=AAAA\n||multi.example^$important\n",
	}
	var idx []map[string]any
	for i, l := range lists {
		p := fmt.Sprintf("/list/%d", i)
		content[p] = l
		idx = append(idx, map[string]any{"filterKey": fmt.Sprintf("list_%d", i), "downloadUrl": at(p).String()})
	}
	b, _ := json.Marshal(map[string]any{"filters": idx})
	content["/index"] = string(b)
	b, _ = json.Marshal(map[string]any{"blocked_services": []map[string]any{
		{"id": "svc_0", "name": "svc", "rules": []string{"||svc.example^"}},
		{"id": "svc_1", "name": "svc", "rules": []string{"||two.example^"}},
	}})
	content["/services"] = string(b)
	content["/gss"] = "|search.example^$dnsrewrite=NOERROR;CNAME;safe.one.example\n"
	content["/yss"] = "|video.example^$dnsrewrite=NOERROR;CNAME;safe.two.example\n"
	cl := agdtest.NewCloner()
	hp := func(name string, id filter.ID, hosts []string, repl string) *hashprefix.Filter {
		content["/"+name] = strings.Join(hosts, "\n") + "\n"
		strg, herr := hashprefix.NewStorage("")
		hlib.Must(herr)
		f, herr := hashprefix.NewFilter(&hashprefix.FilterConfig{
			Logger: slogutil.NewDiscardLogger(), Cloner: cl, CacheManager: rf.mgr, Hashes: strg,
			URL: at("/" + name), ErrColl: &errColl{}, Metrics: filter.EmptyMetrics{}, ID: id,
			CachePath: filepath.Join(rf.dir, name), ReplacementHost: repl, Staleness: time.Hour, CacheTTL: time.Hour,
			CacheCount: 100, MaxSize: 640 * datasize.KB, RefreshTimeout: 5 * time.Second,
		})
		hlib.Must(herr)
		hlib.Must(f.RefreshInitial(context.Background()))

		return f
	}
	ss := func(name string, id filter.ID) *filterstorage.ConfigSafeSearch {
		return &filterstorage.ConfigSafeSearch{URL: at("/" + name), ID: id, MaxSize: 640 * datasize.KB, ResultCacheTTL: time.Hour,
			RefreshTimeout: 5 * time.Second, Staleness: time.Hour, ResultCacheCount: 100, Enabled: true}
	}
	ec := &errColl{}
	rf.strg, err = filterstorage.New(&filterstorage.Config{
		BaseLogger: slogutil.NewDiscardLogger(), Logger: slogutil.NewDiscardLogger(),
		BlockedServices: &filterstorage.ConfigBlockedServices{IndexURL: at("/services"), IndexMaxSize: 640 * datasize.KB,
			IndexRefreshTimeout: 5 * time.Second, IndexStaleness: time.Hour, ResultCacheCount: 100, ResultCacheEnabled: true, Enabled: true},
		Custom: &filterstorage.ConfigCustom{CacheCount: 100},
		HashPrefix: &filterstorage.ConfigHashPrefix{
			// A replacement by another name (the request is cloned and sent on)
			// and two replacements by an address.
			Adult:           hp("ad", filter.IDAdultBlocking, []string{"adult.example"}, "two.example"),
			Dangerous:       hp("sb", filter.IDSafeBrowsing, []string{"sb.example"}, "203.0.113.200"),
			NewlyRegistered: hp("nr", filter.IDNewRegDomains, []string{"new.example"}, "203.0.113.201")},
		RuleLists: &filterstorage.ConfigRuleLists{IndexURL: at("/index"), IndexMaxSize: 640 * datasize.KB, MaxSize: 640 * datasize.KB,
			IndexRefreshTimeout: 5 * time.Second, IndexStaleness: time.Hour, RefreshTimeout: 5 * time.Second, Staleness: time.Hour,
			ResultCacheCount: 100, ResultCacheEnabled: true},
		SafeSearchGeneral: ss("gss", filter.IDGeneralSafeSearch), SafeSearchYouTube: ss("yss", filter.IDYoutubeSafeSearch),
		CacheManager: rf.mgr, Clock: fixedClock{}, ErrColl: ec, Metrics: filter.EmptyMetrics{},
		CacheDir: rf.dir,
	})
	hlib.Must(err)
	hlib.Must(rf.strg.RefreshInitial(context.Background()))
	if len(ec.errs) > 0 {
		panic(fmt.Errorf("storage refresh reported: %v", ec.errs))
	}

	upd := time.Unix(1690000000, 0)
	for i := range rf.confs {
		rf.confs[i] = &filter.ConfigClient{
			Custom: &filter.ConfigCustom{ID: fmt.Sprintf("prof%04d", i), UpdateTime: upd, Enabled: true,
				Rules: []filter.RuleText{filter.RuleText(fmt.Sprintf("||p%d-blocked.example^", i)),
					filter.RuleText(fmt.Sprintf("|rewrite.example^$dnsrewrite=NOERROR;A;203.0.113.%d,client=device-name-%d", 10+i, i))}},
			Parental: &filter.ConfigParental{Enabled: i >= 1, AdultBlockingEnabled: i >= 1, SafeSearchGeneralEnabled: i != 2,
				BlockedServices: []filter.BlockedServiceID{filter.BlockedServiceID(fmt.Sprintf("svc_%d", i%2))}},
			RuleList:     &filter.ConfigRuleList{Enabled: true, IDs: []filter.ID{"list_0", filter.ID(fmt.Sprintf("list_%d", 1+i%2))}},
			SafeBrowsing: &filter.ConfigSafeBrowsing{Enabled: i != 3, DangerousDomainsEnabled: true, NewlyRegisteredDomainsEnabled: true},
		}
	}
	rf.group = &filter.ConfigGroup{
		Parental:     &filter.ConfigParental{Enabled: true, AdultBlockingEnabled: true, SafeSearchGeneralEnabled: true},
		RuleList:     &filter.ConfigRuleList{Enabled: true, IDs: []filter.ID{"list_0"}},
		SafeBrowsing: &filter.ConfigSafeBrowsing{Enabled: true, DangerousDomainsEnabled: true, NewlyRegisteredDomainsEnabled: true},
	}

	return rf
}

// customCacheID names the cache of the compiled custom filters of the profiles.
const customCacheID = "filters/" + string(filter.IDCustom)

// clearCaches empties every cache of filtering results of the storage.  The
// compiled custom filters (not results: rule lists like those of the storage)
// are dropped only with all set: compiling them anew for every request costs
// more than the request itself.
func (rf *realFilters) clearCaches(all bool) {
	for _, id := range rf.mgr.IDs() {
		if id != customCacheID || all {
			rf.mgr.ClearByID(id)
		}
	}
}

func (rf *realFilters) close() {
	rf.srv.Close()
	_ = os.RemoveAll(rf.dir)
}

// realFilter is the filter of one configuration as the production storage
// composes it, behind the hooks and the identity oracle of the fixture.
type realFilter struct {
	f       *fixture
	rf      *realFilters
	inner   filter.Interface
	profile int
	// cold: the caches of the storage are emptied before every call.
	cold bool
}

// type check
var _ filter.Interface = (*realFilter)(nil)

// FilterRequest implements the [filter.Interface] interface for *realFilter.
func (w *realFilter) FilterRequest(ctx context.Context, req *filter.Request) (r filter.Result, err error) {
	w.f.hook(w.f.reqs[req.DNS.Id].Client, "filter-request")
	if w.cold {
		w.rf.clearCaches(w.f.coldN.Add(1)%64 == 1)
	}
	r, err = w.inner.FilterRequest(ctx, req)
	// Whether the response stage follows depends on the result: the identity
	// is looked at when the filters have returned; the objects are those of
	// the request until then.
	_, isMod := r.(*filter.ResultModifiedRequest)
	w.f.identity(ctx, "FilterRequest", w.profile, req.DNS, req.RemoteIP, req.ClientName, req, !isMod && !strings.HasPrefix(req.Host, "fail."))

	return r, err
}

// FilterResponse implements the [filter.Interface] interface for *realFilter.
func (w *realFilter) FilterResponse(ctx context.Context, resp *filter.Response) (r filter.Result, err error) {
	w.f.hook(w.f.reqs[resp.DNS.Id].Client, "filter-response")
	w.f.identity(ctx, "FilterResponse", w.profile, resp.DNS, resp.RemoteIP, resp.ClientName, nil, true)
	// The results of the request stage have keys of their own: what the response
	// stage finds in the caches, it has put there itself.

	return w.inner.FilterResponse(ctx, resp)
}
