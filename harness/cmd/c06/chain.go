package main

// chainCampaign (round 4): the whole production chain on real sockets.
//
//	client --udp|tcp|dot|doq|doh--> listeners built by dnssvc.New/NewListener
//	   --> forward.Handler built from the YAML `upstream` section by the cmd
//	       conversion (VerifC20Parse / VerifC20Forward) --> UpstreamPlain
//	   --udp|tcp--> an upstream on loopback whose reply is a function of the
//	       request it receives and of nothing else.
//
// The service lives for the whole campaign, so every pooled buffer on the way
// (UDP/TCP/DoQ request buffers, response buffers, upstream request/reply
// buffers, the control-message buffer, the upstream connection pools) is warm
// and shared by bursts of concurrent clients on all five transports.
//
// Oracle (declarative, no model, no second instance): a response may carry
// nothing that does not derive from the client's own message: its ID and
// question are those of miekg's Unpack of the message's own bytes, every record
// is owned by the queried name and carries the datum the upstream derives from
// that name alone; a message whose own bytes do not decode gets no DNS response;
// for well-formed queries the kind of answer is fixed by the name's class
// (the upstream's reply to an "inc" name declares a record it does not carry and
// has to end in an answer without records, a 9-byte reply in SERVFAIL).

import (
	"bytes"
	"context"
	"crypto/sha256"
	"crypto/tls"
	"encoding/base64"
	"encoding/binary"
	"encoding/hex"
	"fmt"
	"io"
	"log/slog"
	"net"
	"net/http"
	"strings"
	"sync"
	"time"

	"github.com/AdguardTeam/AdGuardDNS/internal/cmd"
	"github.com/AdguardTeam/AdGuardDNS/internal/dnsserver/forward"
	"github.com/miekg/dns"
	"github.com/prometheus/client_golang/prometheus"
	"github.com/quic-go/quic-go"
)

// derive is the datum the upstream attaches to a name.
func deriveIP(name string) net.IP {
	s := sha256.Sum256([]byte(strings.ToLower(name)))

	return net.IPv4(10, s[0], s[1], s[2]).To4()
}

func deriveTXT(name string) string {
	s := sha256.Sum256([]byte(strings.ToLower(name)))

	return "d-" + hex.EncodeToString(s[:6])
}

// derivUpstream answers on UDP and TCP of one loopback port.
type derivUpstream struct {
	tcp net.Listener
	udp net.PacketConn
	mu  sync.Mutex
	// seen are the requests received since the last take.
	seen [][]byte
}

func (d *derivUpstream) take() (s [][]byte) {
	d.mu.Lock()
	defer d.mu.Unlock()
	s, d.seen = d.seen, nil

	return s
}

func nameClass(name string) string {
	for _, c := range []string{"ok", "inc", "tc", "short", "big"} {
		if strings.HasPrefix(strings.ToLower(name), c) {
			return c
		}
	}

	return "ok"
}

// reply is a function of the request bytes and the network only.
func (d *derivUpstream) reply(nw string, req []byte) []byte {
	d.mu.Lock()
	d.seen = append(d.seen, bytes.Clone(req))
	d.mu.Unlock()
	q := &dns.Msg{}
	if q.Unpack(req) != nil || len(q.Question) != 1 {
		return nil
	}
	name := q.Question[0].Name
	m := new(dns.Msg).SetReply(q)
	m.RecursionAvailable = true
	rr := func() dns.RR {
		if q.Question[0].Qtype == dns.TypeA {
			return &dns.A{Hdr: dns.RR_Header{Name: name, Rrtype: dns.TypeA, Class: dns.ClassINET, Ttl: 60}, A: deriveIP(name)}
		}

		return &dns.TXT{Hdr: dns.RR_Header{Name: name, Rrtype: dns.TypeTXT, Class: dns.ClassINET, Ttl: 60}, Txt: []string{deriveTXT(name)}}
	}
	switch nameClass(name) {
	case "inc":
		// Header and question of a reply that declares one answer and
		// carries none.
		m.Answer = []dns.RR{rr()}
		full := mustPack(m)
		bare := mustPack(new(dns.Msg).SetReply(q))
		out := bytes.Clone(full[:len(bare)])
		out[2], out[3] = full[2], full[3]
		binary.BigEndian.PutUint16(out[6:], 1)

		return out
	case "tc":
		if nw == "udp" {
			m.Truncated = true

			return mustPack(m)
		}
	case "short":
		return []byte{byte(q.Id >> 8), byte(q.Id), 0x81, 0x80, 0, 0, 0, 0, 0}
	case "big":
		for i := 0; i < 60; i++ {
			m.Answer = append(m.Answer, &dns.TXT{
				Hdr: dns.RR_Header{Name: name, Rrtype: dns.TypeTXT, Class: dns.ClassINET, Ttl: 60},
				Txt: []string{deriveTXT(name), strings.Repeat("x", 60)},
			})
		}

		return mustPack(m)
	}
	m.Answer = []dns.RR{rr()}

	return mustPack(m)
}

func newDerivUpstream() (d *derivUpstream, err error) {
	for try := 0; try < 20; try++ {
		var l net.Listener
		l, err = net.Listen("tcp", "127.0.0.1:0")
		if err != nil {
			return nil, err
		}
		var u net.PacketConn
		u, err = net.ListenPacket("udp", l.Addr().String())
		if err != nil {
			_ = l.Close()

			continue
		}
		d = &derivUpstream{tcp: l, udp: u}
		go func() {
			buf := make([]byte, 65535)
			for {
				n, addr, rerr := u.ReadFrom(buf)
				if rerr != nil {
					return
				}
				if rep := d.reply("udp", bytes.Clone(buf[:n])); rep != nil {
					_, _ = u.WriteTo(rep, addr)
				}
			}
		}()
		go func() {
			for {
				c, aerr := l.Accept()
				if aerr != nil {
					return
				}
				go func() {
					defer func() { _ = c.Close() }()
					for {
						req, rerr := readFrame(c)
						if rerr != nil {
							return
						}
						rep := d.reply("tcp", req[2:])
						if rep == nil {
							return
						}
						if _, werr := c.Write(append(binary.BigEndian.AppendUint16(nil, uint16(len(rep))), rep...)); werr != nil {
							return
						}
					}
				}()
			}
		}()

		return d, nil
	}

	return nil, err
}

func (d *derivUpstream) close() { _ = d.tcp.Close(); _ = d.udp.Close() }

type chainMsg struct {
	Proto string `json:"transport"`
	Wire  string `json:"message"`
	What  string `json:"what"`
	Resp  string `json:"response"`
	msg   []byte
	resp  []byte // DNS response received (nil: none)
}

// forwardFromYAML builds the forwarding handler the way cmd does: the YAML
// section is parsed and converted by the cmd code, then forward.NewHandler.
func forwardFromYAML(addr string) (h *forward.Handler, err error) {
	y := fmt.Sprintf(`
upstream:
    servers:
      - address: '%s'
        timeout: 2s
    fallback:
        servers:
          - address: 'tcp://%s'
            timeout: 2s
    healthcheck:
        enabled: false
        interval: 2s
        timeout: 1s
        backoff_duration: 30s
        domain_template: '${RANDOM}.example'
`, addr, addr)
	v, err := cmd.VerifC20Parse([]byte(y))
	if err != nil {
		return nil, err
	}
	// NewForwardMetricsListener registers its collectors on every call.
	prometheus.DefaultRegisterer = prometheus.NewRegistry()
	conf := v.VerifC20Forward(slog.New(slog.NewTextHandler(io.Discard, nil)))

	return forward.NewHandler(conf), nil
}

func (h *harness) chainCampaign() {
	rng := h.o.Rand("chain")
	ups, err := newDerivUpstream()
	if err != nil {
		h.r.Notes = append(h.r.Notes, "chain campaign skipped: "+err.Error())

		return
	}
	defer ups.close()
	fwd, err := forwardFromYAML(ups.tcp.Addr().String())
	if err != nil {
		h.r.Notes = append(h.r.Notes, "chain campaign skipped: "+err.Error())

		return
	}
	defer func() { _ = fwd.Close() }()
	protos := []string{"dns", "dot", "doq", "doh"}
	w, err := startWired(fwd, protos, "127.0.0.1:0")
	if err != nil {
		h.r.Notes = append(h.r.Notes, "chain campaign skipped: "+err.Error())

		return
	}
	defer w.close()
	udpAddr := w.lsn["dns"].LocalUDPAddr().String()
	tcpAddr := w.lsn["dns"].LocalTCPAddr().String()
	dotAddr := w.lsn["dot"].LocalTCPAddr().String()
	doqAddr := w.lsn["doq"].LocalUDPAddr().String()
	dohAddr := w.lsn["doh"].LocalTCPAddr().String()
	cliTLS := &tls.Config{InsecureSkipVerify: true}
	httpc := &http.Client{Timeout: 2 * time.Second, Transport: &http.Transport{TLSClientConfig: cliTLS, ForceAttemptHTTP2: true}}
	defer httpc.CloseIdleConnections()

	n := 20
	if h.o.Thorough() {
		n = 300
	}
	wait := 700 * time.Millisecond
	transports := []string{"udp", "tcp", "dot", "doq", "doh-post", "doh-get"}
	// Every (id, question) a client has sent so far: what the upstream receives
	// must be one of them (late retries of earlier cases included).
	asked := map[string]bool{}
	askKey := func(m *dns.Msg) string {
		return fmt.Sprintf("%d|%s|%d|%d", m.Id, m.Question[0].Name, m.Question[0].Qtype, m.Question[0].Qclass)
	}
	for i := 0; i < n; i++ {
		var msgs []*chainMsg
		k := 6 + rng.IntN(10)
		for j := 0; j < k; j++ {
			class := []string{"ok", "ok", "inc", "inc", "tc", "short", "big"}[rng.IntN(7)]
			name := fmt.Sprintf("%s%d.n%d.example.", class, rng.IntN(3), rng.IntN(4))
			if rng.IntN(4) == 0 {
				name = strings.ToUpper(name[:3]) + name[3:]
			}
			q := &dns.Msg{}
			q.SetQuestion(name, []uint16{dns.TypeA, dns.TypeA, dns.TypeTXT}[rng.IntN(3)])
			q.Id = uint16(1 + rng.IntN(65000))
			if rng.IntN(3) == 0 {
				q.SetEdns0(uint16(1232+rng.IntN(3000)), false)
			}
			mc := 0
			proto := transports[rng.IntN(len(transports))]
			if proto != "udp" && rng.IntN(8) == 0 {
				// A query that fills the upstream's pooled UDP buffer exactly, or
				// leaves one byte (the boundary of PackBuffer's in-place rule).
				q.SetEdns0(4096, false)
				base := q.Len()
				total := forward.VerifC06BufSize(forward.NetworkUDP) - rng.IntN(2)
				q.IsEdns0().Option = append(q.IsEdns0().Option, &dns.EDNS0_PADDING{Padding: make([]byte, total-base-4)})
				h.r.Count("chain.request_at_upstream_buffer_size")
			} else if rng.IntN(4) == 0 {
				mc = []int{1, 2, 3, 3, 6}[rng.IntN(5)]
			}
			msg, what := mutate(rng, mustPack(q), mc)
			msgs = append(msgs, &chainMsg{Proto: proto, Wire: hex.EncodeToString(msg), What: class + "/" + what, msg: msg})
		}
		for _, m := range msgs {
			own := &dns.Msg{}
			if own.Unpack(m.msg) == nil && len(own.Question) == 1 {
				asked[askKey(own)] = true
			}
		}
		// All messages of the case are in flight together.
		var wg sync.WaitGroup
		for _, m := range msgs {
			wg.Add(1)
			go func() {
				defer wg.Done()
				switch m.Proto {
				case "udp":
					m.resp = chainUDP(udpAddr, m.msg, wait)
				case "tcp":
					m.resp = chainStream(tcpAddr, nil, m.msg, wait)
				case "dot":
					m.resp = chainStream(dotAddr, cliTLS, m.msg, wait)
				case "doq":
					m.resp = chainDoQ(doqAddr, m.msg, wait)
				case "doh-post":
					m.resp = chainDoH(httpc, dohAddr, m.msg, false)
				case "doh-get":
					m.resp = chainDoH(httpc, dohAddr, m.msg, true)
				}
			}()
		}
		wg.Wait()
		var canon []string
		nontrivial := false
		for _, m := range msgs {
			canon = append(canon, m.Proto+":"+m.Wire)
			nontrivial = nontrivial || !strings.HasSuffix(m.What, "/valid") || strings.HasPrefix(m.What, "inc")
			m.Resp = hex.EncodeToString(m.resp)
		}
		h.r.Traces++
		h.r.Case("chain "+strings.Join(canon, " "), nontrivial)
		received := ups.take()
		// Correspondence with the Lean model: the slice the model hands to
		// Unpack for each client message (production sizes) decides whether a
		// response may exist, whose question it carries, and which bytes the
		// upstream receives for it (chainSpec: the framed request derived from
		// the client's own slice).
		lines := []string{"init 512 512 65537 4096 65535"}
		for _, m := range msgs {
			path, wire := pDoH, m.msg
			switch m.Proto {
			case "udp":
				path = pUDP
			case "tcp", "dot":
				path, wire = pTCP, append(binary.BigEndian.AppendUint16(nil, uint16(len(m.msg))), m.msg...)
			case "doq":
				path, wire = pDoQ, append(binary.BigEndian.AppendUint16(nil, uint16(len(m.msg))), m.msg...)
			}
			lines = append(lines, fmt.Sprintf("recv %s - - %s", path, hx(wire)))
		}
		ans := h.m.Batch(lines)
		h.modelOps += len(lines)
		modelReq := map[string][]byte{}
		for idx, m := range msgs {
			f := strings.Fields(ans[idx+1])
			var mq *dns.Msg
			if len(f) >= 3 && strings.HasPrefix(f[2], "view:") {
				v, _ := hex.DecodeString(strings.TrimPrefix(strings.TrimPrefix(f[2], "view:"), "-"))
				q := &dns.Msg{}
				if q.Unpack(v) == nil {
					mq = q
					if len(q.Question) == 1 {
						modelReq[askKey(q)] = mustPack(q)
					}
				}
			}
			if m.resp == nil {
				continue
			}
			r := &dns.Msg{}
			if r.Unpack(m.resp) != nil {
				continue
			}
			if mq == nil || r.Id != mq.Id || (len(mq.Question) == 1 && len(r.Question) == 1 && r.Question[0] != mq.Question[0]) {
				h.r.Disagree("chain-response-model", fmt.Sprintf(
					"message %d over %s (%s): the model says %q, the server answered %q", idx+1, m.Proto, clipHex(m.msg), clip(ans[idx+1]), clip(msgText(r))), msgs)

				break
			}
		}
		for _, got := range received {
			g := &dns.Msg{}
			if g.Unpack(got) != nil || len(g.Question) != 1 {
				continue
			}
			if want, ok := modelReq[askKey(g)]; ok && !bytes.Equal(want, got) {
				h.r.Disagree("chain-upstream-request-model", fmt.Sprintf(
					"the upstream received %s; the model's chain writes %s for that client message", clipHex(got), clipHex(want)), msgs)

				break
			}
		}
		for _, got := range received {
			h.r.Count("chain.upstream_request_judged")
			g := &dns.Msg{}
			if g.Unpack(got) != nil || g.Response || len(g.Question) != 1 || !asked[askKey(g)] {
				h.r.Violate("chain-upstream-request-not-a-client-message", fmt.Sprintf(
					"production chain: the upstream received %s (%q), which is not the query of any client message sent so far (%d messages in flight in this case)",
					clipHex(got), clip(unpackText(got)), len(msgs)), map[string]any{"messages": msgs, "upstream_received": hex.EncodeToString(got)})

				break
			}
		}
		for idx, m := range msgs {
			h.r.Count("chain." + m.Proto)
			if m.resp != nil {
				h.r.Count("chain.response_judged." + m.Proto)
				if !strings.HasSuffix(m.What, "/valid") {
					h.r.Count("chain.response_to_mangled_message_judged")
				}
			}
			if sig, what := chainJudge(m); sig != "" {
				h.r.Violate("chain-"+strings.SplitN(m.Proto, "-", 2)[0]+"-"+sig, fmt.Sprintf(
					"production chain (dnssvc listeners, forward handler from YAML, loopback upstream), message %d of %d in flight, over %s (%s, %s): %s",
					idx+1, len(msgs), m.Proto, m.What, clipHex(m.msg), what), msgs)

				break
			}
		}
	}
}

// chainJudge applies the oracle to one message and the response it got.
func chainJudge(m *chainMsg) (sig, what string) {
	own := &dns.Msg{}
	ownErr := own.Unpack(m.msg)
	if m.Proto == "udp" && len(m.msg) > 512 {
		ownErr = own.Unpack(m.msg[:512])
	}
	if m.resp == nil {
		return "", ""
	}
	resp := &dns.Msg{}
	if resp.Unpack(m.resp) != nil {
		return "response-undecodable", fmt.Sprintf("the response %s does not decode", clipHex(m.resp))
	}
	if ownErr != nil || len(m.msg) < 12 {
		return "response-to-undecodable-message", fmt.Sprintf(
			"the message's own bytes do not decode (%v), yet the server answers %q", ownErr, clip(msgText(resp)))
	}
	if resp.Id != own.Id {
		return "response-not-own-message", fmt.Sprintf("response id %d, the message's own id is %d", resp.Id, own.Id)
	}
	if len(own.Question) != 1 {
		// FORMERR and the like: nothing but the header may come back.
		if len(resp.Answer)+len(resp.Ns) > 0 {
			return "response-carries-foreign-data", fmt.Sprintf("a message with %d questions is answered with records: %q", len(own.Question), clip(msgText(resp)))
		}

		return "", ""
	}
	oq := own.Question[0]
	if len(resp.Question) > 0 && (resp.Question[0].Name != oq.Name || resp.Question[0].Qtype != oq.Qtype || resp.Question[0].Qclass != oq.Qclass) {
		return "response-carries-foreign-data", fmt.Sprintf("the response's question is %q, the message asks %q", resp.Question[0].String(), oq.String())
	}
	for _, rr := range append(append([]dns.RR{}, resp.Answer...), resp.Ns...) {
		ok := strings.EqualFold(rr.Header().Name, oq.Name)
		switch v := rr.(type) {
		case *dns.A:
			ok = ok && v.A.Equal(deriveIP(oq.Name))
		case *dns.TXT:
			ok = ok && len(v.Txt) > 0 && v.Txt[0] == deriveTXT(oq.Name)
		default:
			ok = false
		}
		if !ok {
			return "response-carries-foreign-data", fmt.Sprintf(
				"record %q does not derive from the queried name %q (its datum would be %s / %s)", rr.String(), oq.Name, deriveIP(oq.Name), deriveTXT(oq.Name))
		}
	}
	if !strings.HasSuffix(m.What, "/valid") || oq.Qclass != dns.ClassINET {
		return "", ""
	}
	// A well-formed query: the kind of answer is fixed by the name's class.
	switch nameClass(oq.Name) {
	case "ok", "tc":
		if resp.Rcode != dns.RcodeSuccess || len(resp.Answer) != 1 {
			return "history-dependent-response", fmt.Sprintf("a freshly started chain answers NOERROR with one record, this one %q", clip(msgText(resp)))
		}
	case "inc":
		// The upstream's reply ends after the question although its header
		// declares one answer: decoded from its own bytes it has no records
		// (miekg returns just the header and question of such a message).
		if resp.Rcode != dns.RcodeSuccess || len(resp.Answer)+len(resp.Ns) != 0 {
			return "history-dependent-response", fmt.Sprintf(
				"the upstream's reply to this name declares a record it does not carry; a freshly started chain answers NOERROR without records, this one %q", clip(msgText(resp)))
		}
	case "short":
		if resp.Rcode != dns.RcodeServerFailure || len(resp.Answer) != 0 {
			return "history-dependent-response", fmt.Sprintf(
				"the upstream's reply to this name is 9 bytes long; a freshly started chain answers SERVFAIL, this one %q", clip(msgText(resp)))
		}
	}

	return "", ""
}

func chainUDP(addr string, msg []byte, wait time.Duration) []byte {
	c, err := net.Dial("udp", addr)
	if err != nil {
		return nil
	}
	defer func() { _ = c.Close() }()
	_, _ = c.Write(msg)
	_ = c.SetReadDeadline(time.Now().Add(wait))
	buf := make([]byte, 65535)
	n, err := c.Read(buf)
	if err != nil {
		return nil
	}

	return buf[:n]
}

func chainStream(addr string, tc *tls.Config, msg []byte, wait time.Duration) []byte {
	var c net.Conn
	raw, err := net.DialTimeout("tcp", addr, wait)
	if err != nil {
		return nil
	}
	c = raw
	defer func() { _ = c.Close() }()
	_ = c.SetDeadline(time.Now().Add(wait))
	if tc != nil {
		t := tls.Client(raw, tc)
		if t.Handshake() != nil {
			return nil
		}
		c = t
	}
	if _, err = c.Write(append(binary.BigEndian.AppendUint16(nil, uint16(len(msg))), msg...)); err != nil {
		return nil
	}
	f, err := readFrame(c)
	if err != nil {
		return nil
	}

	return f[2:]
}

func chainDoQ(addr string, msg []byte, wait time.Duration) []byte {
	ctx, cancel := context.WithTimeout(context.Background(), wait)
	defer cancel()
	conn, err := quic.DialAddr(ctx, addr, &tls.Config{InsecureSkipVerify: true, NextProtos: []string{"doq"}}, &quic.Config{})
	if err != nil {
		return nil
	}
	defer func() { _ = conn.CloseWithError(0, "") }()
	st, err := conn.OpenStreamSync(ctx)
	if err != nil {
		return nil
	}
	_ = st.SetDeadline(time.Now().Add(wait))
	if _, err = st.Write(append(binary.BigEndian.AppendUint16(nil, uint16(len(msg))), msg...)); err != nil {
		return nil
	}
	_ = st.Close()
	b, _ := io.ReadAll(st)
	if len(b) < 2 || int(binary.BigEndian.Uint16(b)) != len(b)-2 {
		return nil
	}

	return b[2:]
}

func chainDoH(c *http.Client, addr string, msg []byte, get bool) []byte {
	var resp *http.Response
	var err error
	if get {
		resp, err = c.Get("https://" + addr + "/dns-query?dns=" + base64.RawURLEncoding.EncodeToString(msg))
	} else {
		resp, err = c.Post("https://"+addr+"/dns-query", "application/dns-message", bytes.NewReader(msg))
	}
	if err != nil {
		return nil
	}
	defer func() { _ = resp.Body.Close() }()
	b, err := io.ReadAll(resp.Body)
	if err != nil || resp.StatusCode != http.StatusOK {
		return nil
	}

	return b
}
