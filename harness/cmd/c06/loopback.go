package main

// loopbackCampaign (round 3): the whole server, started with Start() on
// loopback sockets, so that everything the hook-driven campaigns bypass is on
// the path as well: the serveUDP / serveTCPConn loops, the netext session
// connection with its pooled out-of-band buffer, the worker pool.  Bursts of
// datagrams from several sockets and pipelined messages on one TCP connection
// are sent without waiting for answers.
//
// Oracle: every response that arrives must be the response a freshly started
// server (hook-driven, sequential) gives to the message sent on that socket.
// Only responses that were actually received are judged (a missing response is
// counted, never a verdict), so the campaign has no timing-dependent verdicts.

import (
	"context"
	"encoding/binary"
	"fmt"
	"io"
	"math/rand/v2"
	"net"
	"os"
	"strings"
	"sync"
	"sync/atomic"
	"time"

	"github.com/AdguardTeam/AdGuardDNS/internal/dnsserver"
	"github.com/AdguardTeam/AdGuardDNS/internal/dnsserver/netext"
)

type loopMsg struct {
	Wire string `json:"wire"`
	What string `json:"what"`
	wire []byte
	want string // response of a freshly started server ("" = none)
}

type loopCase struct {
	Mode string     `json:"mode"` // udp-burst | tcp-pipeline | tcp-conns
	Msgs []*loopMsg `json:"msgs"`
}

func (h *harness) loopbackCampaign() {
	rng := h.o.Rand("loopback")
	sz := sizes{udp: 512, tcp: 64}
	rec := quietRec{newRecorder()}
	ctx := context.Background()
	var srv *dnsserver.ServerDNS
	var err error
	// The server binds a UDP port chosen by the kernel and then the same TCP
	// port, which may be taken on a busy machine: try again with a new one.
	for try := 0; try < 40; try++ {
		srv = dnsserver.NewServerDNS(dnsserver.ConfigDNS{
			ConfigBase: dnsserver.ConfigBase{Name: "loop", Addr: "127.0.0.1:0", Handler: rec, Metrics: rec},
			UDPSize:    sz.udp, TCPSize: sz.tcp, MaxUDPRespSize: 4096,
		})
		if err = srv.Start(ctx); err == nil {
			break
		}
	}
	if err != nil {
		h.r.Notes = append(h.r.Notes, "loopback campaign skipped: "+err.Error())

		return
	}
	defer func() {
		sctx, cancel := context.WithTimeout(ctx, 2*time.Second)
		defer cancel()
		_ = srv.Shutdown(sctx)
	}()
	udpAddr, tcpAddr := srv.LocalUDPAddr(), srv.LocalTCPAddr()
	n := 60
	if h.o.Thorough() {
		n = 1500
	}
	wait := 150 * time.Millisecond
	for i := 0; i < n; i++ {
		lc := &loopCase{Mode: []string{"udp-burst", "udp-burst", "tcp-pipeline", "tcp-conns"}[rng.IntN(4)]}
		k := 2 + rng.IntN(5)
		path := pUDP
		if lc.Mode != "udp-burst" {
			path = pTCP
		}
		for j := 0; j < k; j++ {
			class := 0
			if rng.IntN(3) == 0 {
				class = []int{1, 2, 3, 3, 6}[rng.IntN(5)]
			}
			q := genQuery(rng)
			q.Id = uint16(1000*i + j + 1)
			msg, what := mutate(rng, mustPack(q), class)
			if lc.Mode == "tcp-pipeline" && class != 0 && len(msg) < 12 {
				// An undecodable message ends a pipelined connection; keep
				// those for the separate-connection mode.
				msg, what = mustPack(q), "valid"
			}
			wire, _ := frame(rng, path, msg, 0)
			m := &loopMsg{wire: wire, What: what, Wire: fmt.Sprintf("%x", wire)}
			fresh := newInst(sz)
			fres := fresh.exec((&opSpec{Path: path, wire: wire, Pick: -1}).fill())
			fresh.close()
			m.want = stripClosed(fres.resp)
			lc.Msgs = append(lc.Msgs, m)
		}
		h.r.Count("loopback." + lc.Mode)
		h.r.Case(fmt.Sprintf("loopback %s %v", lc.Mode, func() (w []string) {
			for _, m := range lc.Msgs {
				w = append(w, m.Wire)
			}

			return w
		}()), true)
		h.r.Traces++
		bad := func(idx int, got, want string) {
			h.r.Violate(path+"-loopback-response-mixup", fmt.Sprintf(
				"%s on loopback sockets: the response to message %d of %d (%s, %s) is %q, a freshly started server answers %q",
				lc.Mode, idx+1, len(lc.Msgs), lc.Msgs[idx].What, clipHex(lc.Msgs[idx].wire), clip(got), clip(want)), lc)
		}
		switch lc.Mode {
		case "udp-burst":
			var conns []net.Conn
			for range lc.Msgs {
				c, err := net.Dial("udp", udpAddr.String())
				if err != nil {
					break
				}
				conns = append(conns, c)
			}
			for j, c := range conns {
				_, _ = c.Write(lc.Msgs[j].wire)
			}
			deadline := time.Now().Add(wait)
			buf := make([]byte, 65535)
			for j, c := range conns {
				_ = c.SetReadDeadline(deadline)
				nr, err := c.Read(buf)
				if err != nil {
					if lc.Msgs[j].want != "" {
						h.r.Count("loopback.response_not_seen")
					}
				} else if got := respText([][]byte{buf[:nr]}, false, ""); got != lc.Msgs[j].want {
					bad(j, got, lc.Msgs[j].want)
				} else {
					h.r.Count("loopback.response_checked")
				}
				_ = c.Close()
			}
		case "tcp-conns":
			var conns []net.Conn
			for range lc.Msgs {
				c, err := net.Dial("tcp", tcpAddr.String())
				if err != nil {
					break
				}
				conns = append(conns, c)
			}
			for j, c := range conns {
				_, _ = c.Write(lc.Msgs[j].wire)
			}
			deadline := time.Now().Add(wait)
			for j, c := range conns {
				_ = c.SetReadDeadline(deadline)
				w, err := readFrame(c)
				if err != nil {
					if lc.Msgs[j].want != "" {
						h.r.Count("loopback.response_not_seen")
					}
				} else if got := respText([][]byte{w}, true, ""); got != lc.Msgs[j].want {
					bad(j, got, lc.Msgs[j].want)
				} else {
					h.r.Count("loopback.response_checked")
				}
				_ = c.Close()
			}
		case "tcp-pipeline":
			c, err := net.Dial("tcp", tcpAddr.String())
			if err != nil {
				continue
			}
			var all []byte
			for _, m := range lc.Msgs {
				all = append(all, m.wire...)
			}
			_, _ = c.Write(all)
			_ = c.SetReadDeadline(time.Now().Add(wait))
			// Responses come out of order: each must be the fresh answer to
			// one not yet answered message of the pipeline.
			open := map[int]bool{}
			for j := range lc.Msgs {
				open[j] = true
			}
			for range lc.Msgs {
				w, rerr := readFrame(c)
				if rerr != nil {
					break
				}
				got := respText([][]byte{w}, true, "")
				found := -1
				for j := range lc.Msgs {
					if open[j] && lc.Msgs[j].want == got {
						found = j

						break
					}
				}
				if found < 0 {
					h.r.Violate(path+"-loopback-response-mixup", fmt.Sprintf(
						"tcp-pipeline on loopback sockets: response %q is not what a freshly started server answers to any of the %d pipelined messages still unanswered",
						clip(got), len(open)), lc)

					break
				}
				delete(open, found)
				h.r.Count("loopback.response_checked")
			}
			_ = c.Close()
		}
	}
}

// quietRec is the echo handler of the recorder without its (unsynchronised)
// bookkeeping: here many workers run at once.
type quietRec struct{ *recorder }

func (quietRec) OnRequest(context.Context, *dnsserver.QueryInfo, dnsserver.ResponseWriter) {}
func (quietRec) OnInvalidMsg(context.Context)                                              {}
func (quietRec) OnPanic(context.Context, any)                                              {}

// readFrame reads one length-prefixed message and returns it with its prefix.
func readFrame(c net.Conn) (w []byte, err error) {
	var hdr [2]byte
	if _, err = io.ReadFull(c, hdr[:]); err != nil {
		return nil, err
	}
	body := make([]byte, binary.BigEndian.Uint16(hdr[:]))
	if _, err = io.ReadFull(c, body); err != nil {
		return nil, err
	}

	return append(hdr[:], body...), nil
}

// ---------------------------------------------------------------------------
// Round 5: faultLoopbackCampaign.  The same started ServerDNS, but its sockets
// come from a ListenConfig wrapper (around the production configuration with
// out-of-band data) whose response writes fail for chosen client addresses:
// WriteToSession / Write return EPERM, "use of closed network connection" or a
// deadline error, the way sendmsg does for a firewalled or unreachable client.
//
// Phase 1: a client that cannot be written to sends 1-6 queries over UDP or TCP
// (waited for: the wrapper has seen that many failed writes).  Phase 2: other
// clients send one message at a time over UDP and TCP.  Verdicts rest on
// positive events only: a response that arrived is compared with the response
// of a freshly started (hook-driven) instance, and an OnInvalidMsg event for a
// message that a freshly started instance decodes and answers is a
// history-dependent decode.  No event within the wait: counted, no verdict.

type faultNet struct {
	inner netext.ListenConfig

	mu       sync.Mutex
	bad      map[string]string // remote address -> fault kind
	failed   int
	readLens map[int]int // len(b) of every ReadFromSession call -> count
}

func (f *faultNet) kindFor(addr net.Addr) string {
	if addr == nil {
		return ""
	}
	f.mu.Lock()
	defer f.mu.Unlock()
	k := f.bad[addr.String()]
	if k != "" {
		f.failed++
	}

	return k
}

func (f *faultNet) failedWrites() int {
	f.mu.Lock()
	defer f.mu.Unlock()

	return f.failed
}

func faultErr(kind, nw string) error {
	wf := writeFault{kind: kind}

	return wf.next(nw)
}

func (f *faultNet) Listen(ctx context.Context, network, address string) (net.Listener, error) {
	l, err := f.inner.Listen(ctx, network, address)
	if err != nil {
		return nil, err
	}

	return &faultListener{Listener: l, f: f}, nil
}

func (f *faultNet) ListenPacket(ctx context.Context, network, address string) (net.PacketConn, error) {
	c, err := f.inner.ListenPacket(ctx, network, address)
	if err != nil {
		return nil, err
	}

	return &faultPacketConn{PacketConn: c, f: f}, nil
}

type faultListener struct {
	net.Listener
	f *faultNet
}

func (l *faultListener) Accept() (net.Conn, error) {
	c, err := l.Listener.Accept()
	if err != nil {
		return nil, err
	}

	return &faultConn{Conn: c, f: l.f}, nil
}

type faultConn struct {
	net.Conn
	f *faultNet
}

func (c *faultConn) Write(p []byte) (int, error) {
	if k := c.f.kindFor(c.RemoteAddr()); k != "" {
		return 0, faultErr(k, "tcp")
	}

	return c.Conn.Write(p)
}

// faultPacketConn keeps the session interface of the connection it wraps, so
// the pooled out-of-band buffer stays on the path.
type faultPacketConn struct {
	net.PacketConn
	f *faultNet
}

func (c *faultPacketConn) ReadFromSession(b []byte) (int, netext.PacketSession, error) {
	c.f.mu.Lock()
	c.f.readLens[len(b)]++
	c.f.mu.Unlock()

	return netext.ReadFromSession(c.PacketConn, b)
}

func (c *faultPacketConn) WriteToSession(b []byte, s netext.PacketSession) (int, error) {
	if k := c.f.kindFor(s.RemoteAddr()); k != "" {
		return 0, faultErr(k, "udp")
	}

	return netext.WriteToSession(c.PacketConn, b, s)
}

func (c *faultPacketConn) WriteTo(b []byte, addr net.Addr) (int, error) {
	if k := c.f.kindFor(addr); k != "" {
		return 0, faultErr(k, "udp")
	}

	return c.PacketConn.WriteTo(b, addr)
}

// countRec is the echo handler with synchronised event counters.
type countRec struct {
	*recorder
	reqs, invalid, panics atomic.Int64
}

func (c *countRec) OnRequest(context.Context, *dnsserver.QueryInfo, dnsserver.ResponseWriter) {
	c.reqs.Add(1)
}
func (c *countRec) OnInvalidMsg(context.Context) { c.invalid.Add(1) }
func (c *countRec) OnPanic(context.Context, any) { c.panics.Add(1) }

type faultLoopMsg struct {
	Net  string `json:"net"`
	Wire string `json:"wire"`
	What string `json:"what"`
	wire []byte
}

type faultLoopCase struct {
	Sizes  [2]int          `json:"sizes"`
	BadNet string          `json:"bad_net"`
	Kind   string          `json:"kind"`
	Bad    []*faultLoopMsg `json:"bad_client_msgs"`
	Good   []*faultLoopMsg `json:"other_clients_msgs"`
}

// waitFor polls cond (a positive event) for at most d.
func waitFor(d time.Duration, cond func() bool) bool {
	end := time.Now().Add(d)
	for !cond() {
		if time.Now().After(end) {
			return false
		}
		time.Sleep(200 * time.Microsecond)
	}

	return true
}

func (h *harness) faultLoopbackCampaign() {
	rng := h.o.Rand("fault-loopback")
	n := 40
	if h.o.Thorough() {
		n = 600
	}
	ctx := context.Background()
	for i := 0; i < n; i++ {
		szs := [][2]int{{512, 512}, {512, 64}, {1232, 512}, {96, 64}}
		fc := &faultLoopCase{Sizes: szs[rng.IntN(len(szs))], BadNet: []string{"udp", "udp", "tcp"}[rng.IntN(3)],
			Kind: wfaultKinds[rng.IntN(len(wfaultKinds))]}
		sz := sizes{fc.Sizes[0], fc.Sizes[1]}
		fnet := &faultNet{inner: netext.DefaultListenConfigWithOOB(nil), bad: map[string]string{}, readLens: map[int]int{}}
		rec := &countRec{recorder: newRecorder()}
		var srv *dnsserver.ServerDNS
		var err error
		for try := 0; try < 40; try++ {
			srv = dnsserver.NewServerDNS(dnsserver.ConfigDNS{
				ConfigBase: dnsserver.ConfigBase{Name: "floop", Addr: "127.0.0.1:0", Handler: rec, Metrics: rec, ListenConfig: fnet},
				UDPSize:    sz.udp, TCPSize: sz.tcp, MaxUDPRespSize: 4096,
			})
			if err = srv.Start(ctx); err == nil {
				break
			}
		}
		if err != nil {
			h.r.Count("floop.skipped_start")

			continue
		}
		h.runFaultLoop(rng, fc, sz, srv, fnet, rec)
		sctx, cancel := context.WithTimeout(ctx, 2*time.Second)
		_ = srv.Shutdown(sctx)
		cancel()
	}
}

func (h *harness) runFaultLoop(rng *rand.Rand, fc *faultLoopCase, sz sizes, srv *dnsserver.ServerDNS, fnet *faultNet, rec *countRec) {
	udpAddr, tcpAddr := srv.LocalUDPAddr(), srv.LocalTCPAddr()
	// Phase 1: the client that cannot be written to.
	var badConn net.Conn
	var err error
	if fc.BadNet == "udp" {
		badConn, err = net.Dial("udp", udpAddr.String())
	} else {
		badConn, err = net.Dial("tcp", tcpAddr.String())
	}
	if err != nil {
		h.r.Count("floop.skipped_dial")

		return
	}
	defer func() { _ = badConn.Close() }()
	fnet.mu.Lock()
	fnet.bad[badConn.LocalAddr().String()] = fc.Kind
	fnet.mu.Unlock()
	k := 1 + rng.IntN(6)
	for j := 0; j < k; j++ {
		q := queryOfLen(19+rng.IntN(40), uint16(j))
		if rng.IntN(4) == 0 {
			q = mustPack(genQuery(rng))
		}
		wire, _ := frame(rng, fc.BadNet, q, 0)
		{
			// Only messages that a freshly started server decodes and answers
			// (a long name does not fit a small UDPSize).
			fresh := newInst(sz)
			fres := fresh.exec((&opSpec{Path: fc.BadNet, wire: wire, Pick: -1}).fill())
			fresh.close()
			if fres.decode == "invalid" || strings.HasPrefix(fres.decode, "panic:") || len(fres.wrote) == 0 {
				continue
			}
		}
		fc.Bad = append(fc.Bad, &faultLoopMsg{Net: fc.BadNet, wire: wire, Wire: fmt.Sprintf("%x", wire), What: "valid, response cannot be sent"})
		if fc.BadNet == "tcp" && j > 0 {
			// After a failed write the server may be done with the connection:
			// the client comes back on a new one.
			_ = badConn.Close()
			if badConn, err = net.Dial("tcp", tcpAddr.String()); err != nil {
				break
			}
			fnet.mu.Lock()
			fnet.bad[badConn.LocalAddr().String()] = fc.Kind
			fnet.mu.Unlock()
		}
		before, inv0, req0 := fnet.failedWrites(), rec.invalid.Load(), rec.reqs.Load()
		if _, err = badConn.Write(wire); err != nil {
			break
		}
		// The handler's error makes the server try a SERVFAIL as well; one
		// failed write is enough to go on.  These queries are well-formed: an
		// invalid-message event for one of them is a verdict already.
		waitFor(3*time.Second, func() bool { return fnet.failedWrites() > before || rec.invalid.Load() > inv0 })
		if rec.invalid.Load() > inv0 && fnet.failedWrites() == before {
			fnet.mu.Lock()
			lens := fmt.Sprint(fnet.readLens)
			fnet.mu.Unlock()
			h.r.Violate(fc.BadNet+"-loopback-history-dependent-decode", fmt.Sprintf(
				"ServerDNS on loopback sockets (UDPSize %d): after %d response(s) to this client failed with %s, its next well-formed %d-byte %s query %s was counted as an invalid message; lengths of the slices the accept loop read into: %s",
				sz.udp, len(fc.Bad)-1, fc.Kind, len(q), fc.BadNet, clipHex(wire), lens), fc)

			return
		}
		if fnet.failedWrites() == before {
			h.r.Count("floop.failed_write_not_seen")
			if os.Getenv("C06_DEBUG") != "" {
				fmt.Fprintf(os.Stderr, "DEBUG failed write not seen: %s %s %x sizes %v inv %d->%d req %d->%d\n", fc.BadNet, fc.Kind, wire, fc.Sizes, inv0, rec.invalid.Load(), req0, rec.reqs.Load())
			}

			break
		}
		h.r.Count("floop.failed_write." + fc.BadNet)
		// OnRequest comes after the last write attempt of the worker.
		if !waitFor(3*time.Second, func() bool { return rec.reqs.Load() > req0 }) {
			h.r.Count("floop.abandoned_out_of_step")
			if os.Getenv("C06_DEBUG") != "" {
				fmt.Fprintf(os.Stderr, "DEBUG abandoned phase 1: %s %s %x sizes %v inv %d->%d req %d->%d\n", fc.BadNet, fc.Kind, wire, fc.Sizes, inv0, rec.invalid.Load(), req0, rec.reqs.Load())
			}

			return
		}
	}

	// Phase 2: other clients, one message at a time.
	m := 3 + rng.IntN(5)
	for j := 0; j < m; j++ {
		nw := []string{"udp", "udp", "tcp"}[rng.IntN(3)]
		path := pUDP
		if nw == "tcp" {
			path = pTCP
		}
		var msg []byte
		what := "valid"
		switch rng.IntN(5) {
		case 0:
			msg = mustPack(genQuery(rng))
		case 1:
			msg, what = mutate(rng, mustPack(genQuery(rng)), []int{1, 2, 3, 3, 6}[rng.IntN(5)])
		default:
			msg = queryOfLen(19+rng.IntN(min(sz.udp, 300)-19), uint16(100+j))
		}
		wire, _ := frame(rng, path, msg, 0)
		gm := &faultLoopMsg{Net: nw, wire: wire, Wire: fmt.Sprintf("%x", wire), What: what}
		fc.Good = append(fc.Good, gm)
		fresh := newInst(sz)
		fres := fresh.exec((&opSpec{Path: path, wire: wire, Pick: -1}).fill())
		fresh.close()
		want := stripClosed(fres.resp)
		// The number of metric events (request / invalid message) a message
		// causes is what keeps the harness in step with the workers.
		expect := int64(len(fresh.rec.reqs) + fresh.rec.invalid)
		freshDecodes := fres.decode != "invalid" && !strings.HasPrefix(fres.decode, "panic:")

		h.r.Count("floop.msg." + nw)
		h.r.Traces++
		c, derr := net.Dial(nw, map[string]string{"udp": udpAddr.String(), "tcp": tcpAddr.String()}[nw])
		if derr != nil {
			continue
		}
		inv0, req0 := rec.invalid.Load(), rec.reqs.Load()
		_, _ = c.Write(wire)
		var got string
		seen := false
		// Positive events: the server counted the message as a request or as
		// an invalid message.  Without them (lost, or a worker that is still
		// busy) the case is abandoned, so that no event is ever taken for the
		// next message's.
		if !waitFor(3*time.Second, func() bool { return rec.invalid.Load()+rec.reqs.Load() >= inv0+req0+expect }) {
			h.r.Count("floop.abandoned_out_of_step")
			if os.Getenv("C06_DEBUG") != "" {
				fmt.Fprintf(os.Stderr, "DEBUG abandoned phase 2: %s %x (%s) expect %d sizes %v inv %d->%d req %d->%d\n", nw, wire, what, expect, fc.Sizes, inv0, rec.invalid.Load(), req0, rec.reqs.Load())
			}
			_ = c.Close()

			return
		}
		if nw == "udp" {
			if rec.invalid.Load() > inv0 && rec.reqs.Load() == req0 && freshDecodes {
				fnet.mu.Lock()
				lens := fmt.Sprint(fnet.readLens)
				fnet.mu.Unlock()
				h.r.Violate("udp-loopback-history-dependent-decode", fmt.Sprintf(
					"ServerDNS on loopback sockets (UDPSize %d): after %d %s response(s) to another client failed with %s, the %d-byte datagram %s (%s) of a new client was counted as an invalid message; a freshly started server decodes it as %q; lengths of the slices the accept loop read into: %s",
					sz.udp, len(fc.Bad), fc.BadNet, fc.Kind, len(wire), clipHex(wire), what, clip(fres.decode), lens), fc)
				_ = c.Close()

				return
			}
			if want != "" {
				buf := make([]byte, 65535)
				_ = c.SetReadDeadline(time.Now().Add(500 * time.Millisecond))
				if nr, rerr := c.Read(buf); rerr == nil {
					got, seen = respText([][]byte{buf[:nr]}, false, ""), true
				}
			}
		} else {
			_ = c.SetReadDeadline(time.Now().Add(500 * time.Millisecond))
			if want != "" {
				if w, rerr := readFrame(c); rerr == nil {
					got, seen = respText([][]byte{w}, true, ""), true
				}
			}
		}
		_ = c.Close()
		switch {
		case seen && got != want:
			h.r.Violate(path+"-loopback-history-dependent-response", fmt.Sprintf(
				"ServerDNS on loopback sockets: after %d %s response(s) to another client failed with %s, the response to %s (%s) is %q, a freshly started server answers %q",
				len(fc.Bad), fc.BadNet, fc.Kind, clipHex(wire), what, clip(got), clip(want)), fc)

			return
		case seen:
			h.r.Count("floop.response_checked")
		case want != "":
			h.r.Count("floop.response_not_seen")
		default:
			h.r.Count("floop.no_response_expected")
		}
	}
	// The receive-pool invariant, seen from the socket: every read of the
	// accept loop was given a slice of the configured length.
	fnet.mu.Lock()
	for l, cnt := range fnet.readLens {
		if l != sz.udp {
			h.r.Count("floop.read_into_odd_length")
			h.r.Disagree("udp-loopback-receive-buffer-length", fmt.Sprintf(
				"the accept loop read %d time(s) into a slice of %d bytes, the configured UDPSize is %d (the model's receive pools hold buffers of the configured length only)", cnt, l, sz.udp), fc)
		}
	}
	fnet.mu.Unlock()
	h.r.Case(fmt.Sprintf("floop %v %s %s %d %v", fc.Sizes, fc.BadNet, fc.Kind, len(fc.Bad), func() (w []string) {
		for _, g := range fc.Good {
			w = append(w, g.Net+g.Wire)
		}

		return w
	}()), true)
}
