package main

// loopbackCampaign (round 3): the whole server, started with Start() on
// loopback sockets, so that everything the hook-driven campaigns bypass is on
// the path as well: the serveUDP / serveTCPConn loops, the netext session
// connection with its pooled out-of-band buffer, the worker pool.  Bursts of
// datagrams from several sockets and pipelined messages on one TCP connection
// are sent without waiting for answers.
//
// Oracle: every response that arrives must be the response a freshly started
// server (hook-driven, sequential) gives to the message sent on that socket.
// Only responses that were actually received are judged (a missing response is
// counted, never a verdict), so the campaign has no timing-dependent verdicts.

import (
	"context"
	"encoding/binary"
	"fmt"
	"io"
	"net"
	"time"

	"github.com/AdguardTeam/AdGuardDNS/internal/dnsserver"
)

type loopMsg struct {
	Wire string `json:"wire"`
	What string `json:"what"`
	wire []byte
	want string // response of a freshly started server ("" = none)
}

type loopCase struct {
	Mode string     `json:"mode"` // udp-burst | tcp-pipeline | tcp-conns
	Msgs []*loopMsg `json:"msgs"`
}

func (h *harness) loopbackCampaign() {
	rng := h.o.Rand("loopback")
	sz := sizes{udp: 512, tcp: 64}
	rec := quietRec{newRecorder()}
	ctx := context.Background()
	var srv *dnsserver.ServerDNS
	var err error
	// The server binds a UDP port chosen by the kernel and then the same TCP
	// port, which may be taken on a busy machine: try again with a new one.
	for try := 0; try < 40; try++ {
		srv = dnsserver.NewServerDNS(dnsserver.ConfigDNS{
			ConfigBase: dnsserver.ConfigBase{Name: "loop", Addr: "127.0.0.1:0", Handler: rec, Metrics: rec},
			UDPSize:    sz.udp, TCPSize: sz.tcp, MaxUDPRespSize: 4096,
		})
		if err = srv.Start(ctx); err == nil {
			break
		}
	}
	if err != nil {
		h.r.Notes = append(h.r.Notes, "loopback campaign skipped: "+err.Error())

		return
	}
	defer func() {
		sctx, cancel := context.WithTimeout(ctx, 2*time.Second)
		defer cancel()
		_ = srv.Shutdown(sctx)
	}()
	udpAddr, tcpAddr := srv.LocalUDPAddr(), srv.LocalTCPAddr()
	n := 60
	if h.o.Thorough() {
		n = 1500
	}
	wait := 150 * time.Millisecond
	for i := 0; i < n; i++ {
		lc := &loopCase{Mode: []string{"udp-burst", "udp-burst", "tcp-pipeline", "tcp-conns"}[rng.IntN(4)]}
		k := 2 + rng.IntN(5)
		path := pUDP
		if lc.Mode != "udp-burst" {
			path = pTCP
		}
		for j := 0; j < k; j++ {
			class := 0
			if rng.IntN(3) == 0 {
				class = []int{1, 2, 3, 3, 6}[rng.IntN(5)]
			}
			q := genQuery(rng)
			q.Id = uint16(1000*i + j + 1)
			msg, what := mutate(rng, mustPack(q), class)
			if lc.Mode == "tcp-pipeline" && class != 0 && len(msg) < 12 {
				// An undecodable message ends a pipelined connection; keep
				// those for the separate-connection mode.
				msg, what = mustPack(q), "valid"
			}
			wire, _ := frame(rng, path, msg, 0)
			m := &loopMsg{wire: wire, What: what, Wire: fmt.Sprintf("%x", wire)}
			fresh := newInst(sz)
			fres := fresh.exec((&opSpec{Path: path, wire: wire, Pick: -1}).fill())
			fresh.close()
			m.want = stripClosed(fres.resp)
			lc.Msgs = append(lc.Msgs, m)
		}
		h.r.Count("loopback." + lc.Mode)
		h.r.Case(fmt.Sprintf("loopback %s %v", lc.Mode, func() (w []string) {
			for _, m := range lc.Msgs {
				w = append(w, m.Wire)
			}

			return w
		}()), true)
		h.r.Traces++
		bad := func(idx int, got, want string) {
			h.r.Violate(path+"-loopback-response-mixup", fmt.Sprintf(
				"%s on loopback sockets: the response to message %d of %d (%s, %s) is %q, a freshly started server answers %q",
				lc.Mode, idx+1, len(lc.Msgs), lc.Msgs[idx].What, clipHex(lc.Msgs[idx].wire), clip(got), clip(want)), lc)
		}
		switch lc.Mode {
		case "udp-burst":
			var conns []net.Conn
			for range lc.Msgs {
				c, err := net.Dial("udp", udpAddr.String())
				if err != nil {
					break
				}
				conns = append(conns, c)
			}
			for j, c := range conns {
				_, _ = c.Write(lc.Msgs[j].wire)
			}
			deadline := time.Now().Add(wait)
			buf := make([]byte, 65535)
			for j, c := range conns {
				_ = c.SetReadDeadline(deadline)
				nr, err := c.Read(buf)
				if err != nil {
					if lc.Msgs[j].want != "" {
						h.r.Count("loopback.response_not_seen")
					}
				} else if got := respText([][]byte{buf[:nr]}, false, ""); got != lc.Msgs[j].want {
					bad(j, got, lc.Msgs[j].want)
				} else {
					h.r.Count("loopback.response_checked")
				}
				_ = c.Close()
			}
		case "tcp-conns":
			var conns []net.Conn
			for range lc.Msgs {
				c, err := net.Dial("tcp", tcpAddr.String())
				if err != nil {
					break
				}
				conns = append(conns, c)
			}
			for j, c := range conns {
				_, _ = c.Write(lc.Msgs[j].wire)
			}
			deadline := time.Now().Add(wait)
			for j, c := range conns {
				_ = c.SetReadDeadline(deadline)
				w, err := readFrame(c)
				if err != nil {
					if lc.Msgs[j].want != "" {
						h.r.Count("loopback.response_not_seen")
					}
				} else if got := respText([][]byte{w}, true, ""); got != lc.Msgs[j].want {
					bad(j, got, lc.Msgs[j].want)
				} else {
					h.r.Count("loopback.response_checked")
				}
				_ = c.Close()
			}
		case "tcp-pipeline":
			c, err := net.Dial("tcp", tcpAddr.String())
			if err != nil {
				continue
			}
			var all []byte
			for _, m := range lc.Msgs {
				all = append(all, m.wire...)
			}
			_, _ = c.Write(all)
			_ = c.SetReadDeadline(time.Now().Add(wait))
			// Responses come out of order: each must be the fresh answer to
			// one not yet answered message of the pipeline.
			open := map[int]bool{}
			for j := range lc.Msgs {
				open[j] = true
			}
			for range lc.Msgs {
				w, rerr := readFrame(c)
				if rerr != nil {
					break
				}
				got := respText([][]byte{w}, true, "")
				found := -1
				for j := range lc.Msgs {
					if open[j] && lc.Msgs[j].want == got {
						found = j

						break
					}
				}
				if found < 0 {
					h.r.Violate(path+"-loopback-response-mixup", fmt.Sprintf(
						"tcp-pipeline on loopback sockets: response %q is not what a freshly started server answers to any of the %d pipelined messages still unanswered",
						clip(got), len(open)), lc)

					break
				}
				delete(open, found)
				h.r.Count("loopback.response_checked")
			}
			_ = c.Close()
		}
	}
}

// quietRec is the echo handler of the recorder without its (unsynchronised)
// bookkeeping: here many workers run at once.
type quietRec struct{ *recorder }

func (quietRec) OnRequest(context.Context, *dnsserver.QueryInfo, dnsserver.ResponseWriter) {}
func (quietRec) OnInvalidMsg(context.Context)                                              {}
func (quietRec) OnPanic(context.Context, any)                                              {}

// readFrame reads one length-prefixed message and returns it with its prefix.
func readFrame(c net.Conn) (w []byte, err error) {
	var hdr [2]byte
	if _, err = io.ReadFull(c, hdr[:]); err != nil {
		return nil, err
	}
	body := make([]byte, binary.BigEndian.Uint16(hdr[:]))
	if _, err = io.ReadFull(c, body); err != nil {
		return nil, err
	}

	return append(hdr[:], body...), nil
}
