// Command c06 is the correspondence harness and property oracle for C06 (a
// message is interpreted from its own bytes only, whatever was processed
// before).
//
// Every receive path of the real code is driven in-process with fake
// connections that (a) deliver arbitrary byte streams in arbitrary chunks and
// (b) look at the pooled buffer the real code hands to Read *before* writing
// into it, so the harness knows which residue the message met.
package main

import (
	"bytes"
	"context"
	"encoding/base64"
	"encoding/binary"
	"encoding/hex"
	"fmt"
	"io"
	"math/rand/v2"
	"net"
	"net/http"
	"net/http/httptest"
	"net/netip"
	"runtime"
	"strings"
	"time"

	"github.com/AdguardTeam/AdGuardDNS/internal/dnsserver"
	"github.com/AdguardTeam/AdGuardDNS/internal/dnsserver/forward"
	"github.com/AdguardTeam/AdGuardDNS/verifh/hlib"
	"github.com/miekg/dns"
	"github.com/quic-go/quic-go"
)

const (
	pUDP    = "udp"
	pTCP    = "tcp"
	pDoQ    = "doq"
	pDoH    = "doh"
	pUpsUDP = "upsudp"
	pUpsTCP = "upstcp"
)

var allPaths = []string{pUDP, pTCP, pDoQ, pDoH, pUpsUDP, pUpsTCP}

const doqSize = dns.MaxMsgSize

func main() {
	// One P: sync.Pool then hands the buffer that was just Put back to the next
	// Get, so that pooled-buffer reuse is the normal case, not a rare one.
	runtime.GOMAXPROCS(1)

	o := hlib.ParseFlags()
	r := hlib.NewResult("C06", o)
	r.Rule = "case = fresh server instance, 0-8 earlier messages (history) then one next message on one receive path " +
		"(udp, tcp, doq, doh, upstream udp/tcp); real decode + response compared with (1) a brand-new instance given only " +
		"the next message, (2) miekg Unpack of the message's own bytes, (3) the Lean model (slice handed to Unpack, reject " +
		"kind, residue the pooled buffer held, bytes consumed); non-trivial = the pooled buffer held non-zero residue beyond " +
		"the end of the next message and the next message is short/inconsistent (truncated, counts exceed content, " +
		"pointer past its end); distinct = distinct (path, history, next) texts"
	m := hlib.StartModel(o.Model, "C06")
	defer m.Close()

	h := &harness{o: o, r: r, m: m}
	h.witnesses()
	h.boundaryCampaign()
	h.randomCampaign()
	h.exhaustiveTruncation()
	h.exchangeCampaign()

	r.ModelOps = h.modelOps
	r.Finish()
}

type harness struct {
	o        *hlib.Opts
	r        *hlib.Result
	m        *hlib.Model
	modelOps int
}

// ---------------------------------------------------------------------------
// Recorder: handler + metrics listener of the servers under test.

type recorder struct {
	reqs    []string
	invalid int
	panics  []string
	done    chan struct{}
}

func newRecorder() *recorder { return &recorder{done: make(chan struct{}, 64)} }

func (rc *recorder) reset() {
	rc.reqs, rc.invalid, rc.panics = nil, 0, nil
	for {
		select {
		case <-rc.done:
		default:
			return
		}
	}
}

func (rc *recorder) signal() {
	select {
	case rc.done <- struct{}{}:
	default:
	}
}

// ServeDNS echoes the decoded request: the reply carries the question the
// server believes it was asked.
func (rc *recorder) ServeDNS(ctx context.Context, rw dnsserver.ResponseWriter, req *dns.Msg) error {
	resp := new(dns.Msg).SetReply(req)
	for i, q := range req.Question {
		if i > 2 {
			break
		}
		resp.Answer = append(resp.Answer, &dns.TXT{
			Hdr: dns.RR_Header{Name: q.Name, Rrtype: dns.TypeTXT, Class: dns.ClassINET, Ttl: 1},
			Txt: []string{fmt.Sprintf("t%d c%d", q.Qtype, q.Qclass)},
		})
	}

	return rw.WriteMsg(ctx, req, resp)
}

func (rc *recorder) OnRequest(_ context.Context, info *dnsserver.QueryInfo, _ dnsserver.ResponseWriter) {
	rc.reqs = append(rc.reqs, msgText(info.Request))
	rc.signal()
}
func (rc *recorder) OnInvalidMsg(context.Context)   { rc.invalid++; rc.signal() }
func (rc *recorder) OnError(context.Context, error) {}
func (rc *recorder) OnPanic(_ context.Context, v any) {
	rc.panics = append(rc.panics, fmt.Sprint(v))
	rc.signal()
}
func (rc *recorder) OnQUICAddressValidation(bool) {}

// msgText is the canonical text of a decoded message.
func msgText(m *dns.Msg) (s string) {
	defer func() {
		if v := recover(); v != nil {
			s = fmt.Sprintf("msg:<String panics: %v>", v)
		}
	}()
	if m == nil {
		return "invalid"
	}

	return "msg:" + strings.ReplaceAll(m.String(), "\n", "|")
}

// unpackText decodes b with the real miekg Unpack on a private copy.
func unpackText(b []byte) string {
	m := &dns.Msg{}
	if err := m.Unpack(bytes.Clone(b)); err != nil {
		return "invalid"
	}

	return msgText(m)
}

// ---------------------------------------------------------------------------
// Fakes.

// bufSpy remembers the pooled buffer the code under test read into.
type bufSpy struct {
	got    bool
	before []byte
	ref    []byte
}

func (s *bufSpy) see(p []byte) {
	if s.got {
		return
	}
	s.got = true
	s.ref = p[:cap(p)]
	s.before = bytes.Clone(s.ref)
}

var (
	laddrUDP = &net.UDPAddr{IP: net.IPv4(127, 0, 0, 1), Port: 53}
	raddrUDP = &net.UDPAddr{IP: net.IPv4(127, 0, 0, 9), Port: 40000}
	laddrTCP = &net.TCPAddr{IP: net.IPv4(127, 0, 0, 1), Port: 53}
	raddrTCP = &net.TCPAddr{IP: net.IPv4(127, 0, 0, 9), Port: 40000}
)

type fakePacketConn struct {
	spy   bufSpy
	wire  []byte
	wrote [][]byte
}

func (c *fakePacketConn) ReadFrom(p []byte) (int, net.Addr, error) {
	c.spy.see(p)

	return copy(p, c.wire), raddrUDP, nil
}

func (c *fakePacketConn) WriteTo(p []byte, _ net.Addr) (int, error) {
	c.wrote = append(c.wrote, bytes.Clone(p))

	return len(p), nil
}
func (c *fakePacketConn) Close() error                     { return nil }
func (c *fakePacketConn) LocalAddr() net.Addr              { return laddrUDP }
func (c *fakePacketConn) SetDeadline(time.Time) error      { return nil }
func (c *fakePacketConn) SetReadDeadline(time.Time) error  { return nil }
func (c *fakePacketConn) SetWriteDeadline(time.Time) error { return nil }

// byteStream delivers stream in chunks; skip is the number of leading bytes
// (the TCP length prefix) read into a non-pooled buffer.
type byteStream struct {
	spy      bufSpy
	stream   []byte
	off      int
	chunks   []int
	ci       int
	skip     int
	failWith error
	wrote    [][]byte
	closed   bool
}

func (c *byteStream) Read(p []byte) (int, error) {
	if c.off >= c.skip && len(p) > 0 {
		c.spy.see(p)
	}
	if c.off >= len(c.stream) {
		if c.failWith != nil {
			return 0, c.failWith
		}

		return 0, io.EOF
	}
	n := len(c.stream) - c.off
	if len(c.chunks) > 0 {
		n = min(n, c.chunks[c.ci%len(c.chunks)])
		c.ci++
	}
	if c.off < c.skip {
		n = min(n, c.skip-c.off)
	}
	n = copy(p, c.stream[c.off:c.off+n])
	c.off += n

	return n, nil
}

func (c *byteStream) Write(p []byte) (int, error) {
	c.wrote = append(c.wrote, bytes.Clone(p))

	return len(p), nil
}
func (c *byteStream) Close() error                     { c.closed = true; return nil }
func (c *byteStream) SetDeadline(time.Time) error      { return nil }
func (c *byteStream) SetReadDeadline(time.Time) error  { return nil }
func (c *byteStream) SetWriteDeadline(time.Time) error { return nil }

type fakeTCPConn struct{ *byteStream }

func (fakeTCPConn) LocalAddr() net.Addr  { return laddrTCP }
func (fakeTCPConn) RemoteAddr() net.Addr { return raddrTCP }

type fakeQUICStream struct {
	quic.Stream
	*byteStream
}

func (s fakeQUICStream) Read(p []byte) (int, error)       { return s.byteStream.Read(p) }
func (s fakeQUICStream) Write(p []byte) (int, error)      { return s.byteStream.Write(p) }
func (s fakeQUICStream) Close() error                     { return s.byteStream.Close() }
func (s fakeQUICStream) SetDeadline(time.Time) error      { return nil }
func (s fakeQUICStream) SetReadDeadline(time.Time) error  { return nil }
func (s fakeQUICStream) SetWriteDeadline(time.Time) error { return nil }
func (s fakeQUICStream) StreamID() quic.StreamID          { return 0 }
func (s fakeQUICStream) CancelRead(quic.StreamErrorCode)  {}
func (s fakeQUICStream) CancelWrite(quic.StreamErrorCode) {}
func (s fakeQUICStream) Context() context.Context         { return context.Background() }

type fakeQUICConn struct {
	quic.Connection
	closedWith []uint64
}

func (c *fakeQUICConn) LocalAddr() net.Addr      { return laddrUDP }
func (c *fakeQUICConn) RemoteAddr() net.Addr     { return raddrUDP }
func (c *fakeQUICConn) Context() context.Context { return context.Background() }
func (c *fakeQUICConn) CloseWithError(code quic.ApplicationErrorCode, _ string) error {
	c.closedWith = append(c.closedWith, uint64(code))

	return nil
}

type timeoutErr struct{}

func (timeoutErr) Error() string   { return "i/o timeout" }
func (timeoutErr) Timeout() bool   { return true }
func (timeoutErr) Temporary() bool { return true }

// ---------------------------------------------------------------------------
// One instance of everything under test ("a freshly started server").

type sizes struct{ udp, tcp int }

type inst struct {
	sz     sizes
	rec    *recorder
	dnsSrv *dnsserver.ServerDNS
	doq    *dnsserver.ServerQUIC
	doh    http.Handler
	ups    *forward.UpstreamPlain
	// shadow[path] mirrors the free list of the pool: contents of every buffer
	// the harness saw being used, in Put order.  For the upstream paths these
	// are the very buffers (the harness owns that pool).
	shadow map[string][][]byte
}

func newInst(sz sizes) (in *inst) {
	return &inst{sz: sz, rec: newRecorder(), shadow: map[string][][]byte{}}
}

func (in *inst) base(name string) dnsserver.ConfigBase {
	return dnsserver.ConfigBase{Name: name, Addr: "127.0.0.1:0", Handler: in.rec, Metrics: in.rec}
}

// need creates the server for path on first use.
func (in *inst) need(path string) {
	switch {
	case (path == pUDP || path == pTCP) && in.dnsSrv == nil:
		in.dnsSrv = dnsserver.NewServerDNS(dnsserver.ConfigDNS{
			ConfigBase: in.base("dns"), UDPSize: in.sz.udp, TCPSize: in.sz.tcp, MaxUDPRespSize: 4096,
		})
	case path == pDoQ && in.doq == nil:
		in.doq = dnsserver.NewServerQUIC(dnsserver.ConfigQUIC{ConfigBase: in.base("doq")})
	case path == pDoH && in.doh == nil:
		doh := dnsserver.NewServerHTTPS(dnsserver.ConfigHTTPS{ConfigBase: in.base("doh")})
		in.doh = dnsserver.VerifC06HTTPHandler(doh, laddrTCP)
	case (path == pUpsUDP || path == pUpsTCP) && in.ups == nil:
		in.ups = forward.NewUpstreamPlain(&forward.UpstreamPlainConfig{
			Address: netip.MustParseAddrPort("127.0.0.1:1"),
		})
	}
}

func (in *inst) close() {
	if in.dnsSrv != nil {
		dnsserver.VerifC06ReleaseDNS(in.dnsSrv)
	}
	if in.doq != nil {
		dnsserver.VerifC06ReleaseQUIC(in.doq)
	}
	if in.ups != nil {
		_ = in.ups.Close()
	}
}

func (in *inst) size(path string) int {
	switch path {
	case pUDP:
		return in.sz.udp
	case pTCP:
		return in.sz.tcp
	case pDoQ:
		return doqSize
	case pUpsUDP:
		return forward.VerifC06BufSize(forward.NetworkUDP)
	case pUpsTCP:
		return forward.VerifC06BufSize(forward.NetworkTCP)
	}

	return 0
}

// matchShadow finds the free-list entry whose contents equal seen (zero
// padding ignored, since a grown TCP buffer has a larger zeroed capacity).
func (in *inst) matchShadow(path string, seen []byte) int {
	for i, e := range in.shadow[path] {
		if eqZeroPadded(e, seen) {
			return i
		}
	}

	return -1
}

func eqZeroPadded(a, b []byte) bool {
	if len(a) > len(b) {
		a, b = b, a
	}
	if !bytes.Equal(a, b[:len(a)]) {
		return false
	}

	return allZero(b[len(a):])
}

func allZero(b []byte) bool {
	for _, x := range b {
		if x != 0 {
			return false
		}
	}

	return true
}

// ---------------------------------------------------------------------------
// Ops.

type opSpec struct {
	Path   string `json:"path"`
	Mode   string `json:"mode,omitempty"` // doq: read|serve; doh: post|get
	Wire   string `json:"wire"`           // hex of the bytes on the wire
	Chunks []int  `json:"chunks,omitempty"`
	Fail   bool   `json:"fail,omitempty"` // stream ends with a timeout instead of EOF
	Req    string `json:"req,omitempty"`  // upstream: hex of the packed request
	Pick   int    `json:"pick"`           // upstream: index into the harness-owned pool, -1 = new
	wire   []byte
	req    []byte
	what   string
}

type opRes struct {
	line     string
	sawBuf   bool
	bufLen   int
	res48    string
	decode   string
	kind     string
	resp     string
	consumed int
	residue  bool // non-zero residue beyond the end of this message
	pickNew  bool
}

func hx(b []byte) string {
	if len(b) == 0 {
		return "-"
	}

	return hex.EncodeToString(b)
}

func settle() {
	for i := 0; i < 4; i++ {
		runtime.Gosched()
	}
}

func waitSignal(rec *recorder) bool {
	select {
	case <-rec.done:
		return true
	case <-time.After(5 * time.Second):
		return false
	}
}

// canonResp is the text of one response as written to the client.  The
// server pads responses on encrypted transports with a random number of bytes
// (RFC 8467 random-length padding), so the padding option is blanked; nothing
// else is normalised.  prefixed says the bytes start with a 2-byte length.
func canonResp(w []byte, prefixed bool) string {
	body := w
	if prefixed {
		if len(w) < 2 || int(binary.BigEndian.Uint16(w)) != len(w)-2 {
			return "badframe:" + hex.EncodeToString(w)
		}
		body = w[2:]
	}
	m := &dns.Msg{}
	if err := m.Unpack(bytes.Clone(body)); err != nil {
		return "raw:" + hex.EncodeToString(w)
	}
	padded := false
	if opt := m.IsEdns0(); opt != nil {
		for _, o := range opt.Option {
			if p, ok := o.(*dns.EDNS0_PADDING); ok {
				p.Padding = nil
				padded = true
			}
		}
	}
	if !padded {
		return "raw:" + hex.EncodeToString(w)
	}

	return "padded:" + msgText(m)
}

func respText(wrote [][]byte, prefixed bool, extra string) string {
	var sb strings.Builder
	for _, w := range wrote {
		sb.WriteString(canonResp(w, prefixed))
		sb.WriteByte('/')
	}
	sb.WriteString(extra)

	return sb.String()
}

func (in *inst) observe(res *opRes) {
	switch {
	case len(in.rec.panics) > 0:
		res.decode = "panic:" + in.rec.panics[0]
	case len(in.rec.reqs) > 0:
		res.decode = in.rec.reqs[0]
	default:
		res.decode = "invalid"
	}
}

// poolBookkeeping turns what the spy saw into the model's `pick` and keeps the
// shadow free list in step.  msgEnd is where this message's own bytes end in
// the buffer.
func (in *inst) poolBookkeeping(path string, spy *bufSpy, msgEnd int, res *opRes) (pick string) {
	if !spy.got {
		// No pooled read happened (TCP: length prefix unreadable or zero
		// length).  Mirror the model, which takes a new zeroed buffer.
		in.shadow[path] = append(in.shadow[path], make([]byte, in.size(path)))
		res.pickNew = true

		return "-"
	}
	res.sawBuf = true
	res.bufLen = len(spy.before)
	res.res48 = hx(padTo(spy.before, 48)[:48])
	if msgEnd < len(spy.before) && !allZero(spy.before[msgEnd:]) {
		res.residue = true
	}
	idx := in.matchShadow(path, spy.before)
	pick = "-"
	if idx >= 0 {
		pick = fmt.Sprint(idx)
		in.shadow[path] = append(in.shadow[path][:idx:idx], in.shadow[path][idx+1:]...)
	} else {
		res.pickNew = true
		if !allZero(spy.before) {
			// A buffer with residue the harness has never seen: the shadow
			// list cannot name it.  Reported by the caller as a note.
			res.kind = "unknown-residue"
		}
	}
	in.shadow[path] = append(in.shadow[path], bytes.Clone(spy.ref))

	return pick
}

func padTo(b []byte, n int) []byte {
	if len(b) >= n {
		return b
	}

	return append(bytes.Clone(b), make([]byte, n-len(b))...)
}

var srvCtx = dnsserver.ContextWithServerInfo(context.Background(), &dnsserver.ServerInfo{
	Name: "doq", Addr: "127.0.0.1:0", Proto: dnsserver.ProtoDoQ,
})

// exec runs one op on the real code and returns what was observed.
func (in *inst) exec(op *opSpec) (res *opRes) {
	res = &opRes{}
	in.rec.reset()
	in.need(op.Path)
	defer func() {
		if v := recover(); v != nil {
			res.decode = fmt.Sprintf("panic:%v", v)
		}
	}()
	switch op.Path {
	case pUDP:
		c := &fakePacketConn{wire: op.wire}
		err := dnsserver.VerifC06AcceptUDPMsg(context.Background(), in.dnsSrv, c)
		n := min(len(op.wire), in.sz.udp)
		if err != nil {
			res.kind = "accept-error:" + err.Error()
		} else if n >= 12 {
			if !waitSignal(in.rec) {
				res.kind = "no-signal"
			}
		}
		settle()
		in.observe(res)
		if n < 12 {
			res.kind = "short"
		}
		res.resp = respText(c.wrote, false, "")
		res.consumed = len(op.wire)
		pick := in.poolBookkeeping(pUDP, &c.spy, n, res)
		res.line = fmt.Sprintf("recv udp %s - %s", pick, hx(op.wire))
	case pTCP:
		bs := &byteStream{stream: op.wire, chunks: op.Chunks, skip: 2}
		if op.Fail {
			bs.failWith = timeoutErr{}
		}
		c := fakeTCPConn{bs}
		tc := dnsserver.VerifC06NewTCPConn()
		err := dnsserver.VerifC06AcceptTCPMsg(in.dnsSrv, c, tc, time.Second)
		if err == nil {
			tc.Wait()
		} else {
			switch {
			case bs.off < 2 || len(op.wire) < 2:
				res.kind = "readerr"
			default:
				res.kind = "readfull"
			}
		}
		settle()
		in.observe(res)
		res.resp = respText(bs.wrote, true, fmt.Sprintf("closed=%v", bs.closed))
		res.consumed = bs.off
		msgEnd := 0
		if len(op.wire) >= 2 {
			msgEnd = min(int(binary.BigEndian.Uint16(op.wire)), len(op.wire)-2)
		}
		pick := "-"
		if len(op.wire) >= 2 {
			pick = in.poolBookkeeping(pTCP, &bs.spy, msgEnd, res)
		} else {
			// acceptTCPMsg never reached the pool; the model op still takes
			// and returns a new buffer.
			in.shadow[pTCP] = append(in.shadow[pTCP], make([]byte, in.sz.tcp))
		}
		res.line = fmt.Sprintf("recv tcp %s - %s", pick, hx(op.wire))
	case pDoQ:
		bs := &byteStream{stream: op.wire, chunks: op.Chunks}
		if op.Fail {
			bs.failWith = timeoutErr{}
		}
		st := fakeQUICStream{byteStream: bs}
		n := min(len(op.wire), doqSize)
		if op.Mode == "read" {
			msg, err := dnsserver.VerifC06ReadQUICMsg(srvCtx, in.doq, st)
			if err != nil {
				res.decode = "invalid"
				res.kind = doqKind(err)
			} else {
				res.decode = msgText(msg)
			}
		} else {
			qc := &fakeQUICConn{}
			err := dnsserver.VerifC06ServeQUICStream(srvCtx, in.doq, st, qc)
			settle()
			in.observe(res)
			if err != nil {
				res.kind = doqKind(err)
			}
			res.resp = respText(bs.wrote, true, fmt.Sprintf("closed=%v conn=%v", bs.closed, qc.closedWith))
		}
		res.consumed = len(op.wire)
		pick := in.poolBookkeeping(pDoQ, &bs.spy, n, res)
		res.line = fmt.Sprintf("recv doq %s - %s", pick, hx(op.wire))
	case pDoH:
		var hr *http.Request
		if op.Mode == "get" {
			hr = httptest.NewRequest(http.MethodGet,
				"/dns-query?dns="+base64.RawURLEncoding.EncodeToString(op.wire), nil)
		} else {
			hr = httptest.NewRequest(http.MethodPost, "/dns-query", bytes.NewReader(op.wire))
			hr.Header.Set("Content-Type", dnsserver.MimeTypeDoH)
		}
		hr.RemoteAddr = "127.0.0.9:40000"
		w := httptest.NewRecorder()
		in.doh.ServeHTTP(w, hr)
		in.observe(res)
		res.resp = fmt.Sprintf("%d %s", w.Code, canonResp(w.Body.Bytes(), false))
		res.consumed = len(op.wire)
		res.line = fmt.Sprintf("recv doh - - %s", hx(op.wire))
	case pUpsUDP, pUpsTCP:
		in.execUpstream(op, res)
	}

	return res
}

func doqKind(err error) string {
	s := err.Error()
	switch {
	case strings.Contains(s, "bad buffer size"):
		return "badsize"
	case strings.Contains(s, "failed to read QUIC message"), err == dns.ErrShortRead:
		return "short"
	case err == dnsserver.ErrProtocol:
		return "protocol"
	}

	return "unpack"
}

// execUpstream drives readValidMsg with a buffer from the harness-owned pool,
// after packing the request into it the way exchangeNet/packReq do.
func (in *inst) execUpstream(op *opSpec, res *opRes) {
	nw := forward.NetworkUDP
	if op.Path == pUpsTCP {
		nw = forward.NetworkTCP
	}
	var buf []byte
	pick := "-"
	fl := in.shadow[op.Path]
	if op.Pick >= 0 && op.Pick < len(fl) {
		buf = fl[op.Pick]
		in.shadow[op.Path] = append(fl[:op.Pick:op.Pick], fl[op.Pick+1:]...)
		pick = fmt.Sprint(op.Pick)
	} else {
		buf = make([]byte, in.size(op.Path))
		res.pickNew = true
	}
	req := &dns.Msg{}
	hlib.Must(req.Unpack(bytes.Clone(op.req)))
	pre := op.req
	if nw == forward.NetworkTCP {
		pre = append(binary.BigEndian.AppendUint16(nil, uint16(len(op.req))), op.req...)
	}
	copy(buf, pre)
	res.sawBuf = true
	res.bufLen = len(buf)
	res.res48 = hx(buf[:48])

	bs := &byteStream{stream: op.wire, chunks: op.Chunks}
	if nw == forward.NetworkUDP {
		// One datagram per Read.
		bs.chunks = nil
	}
	msgEnd := min(len(op.wire), len(buf))
	if nw == forward.NetworkTCP && len(op.wire) >= 2 {
		msgEnd = min(int(binary.BigEndian.Uint16(op.wire)), len(op.wire)-2)
	}
	res.residue = !allZero(buf[msgEnd:])
	resp, err := forward.VerifC06ReadValidMsg(in.ups, req, nw, fakeTCPConn{bs}, buf)
	res.decode = msgText(resp)
	res.resp = "ok"
	if err != nil {
		s := err.Error()
		res.resp = "err:" + s
		switch {
		case strings.Contains(s, "invalid msg"):
			res.kind = "short"
		case strings.Contains(s, "reading binary data"):
			res.kind = "readerr"
		case strings.Contains(s, "reading full"):
			res.kind = "readfull"
		case strings.Contains(s, "udp network reading"):
			// An empty datagram cannot be told from EOF by the fake; treat as short.
			res.kind = "short"
		}
	}
	res.consumed = bs.off
	in.shadow[op.Path] = append(in.shadow[op.Path], buf)
	res.line = fmt.Sprintf("recv %s %s %s %s", op.Path, pick, hx(pre), hx(op.wire))
}

// ownBytes is the property's own reading of a message: what a decoder that
// sees nothing but this message's bytes must produce.
func ownBytes(op *opSpec, sz sizes) string {
	w := op.wire
	switch op.Path {
	case pUDP:
		n := min(len(w), sz.udp)
		if n < 12 {
			return "invalid"
		}

		return unpackText(w[:n])
	case pTCP:
		if len(w) < 2 {
			return "invalid"
		}
		l := int(binary.BigEndian.Uint16(w))
		if len(w)-2 < l {
			return "invalid"
		}

		return unpackText(w[2 : 2+l])
	case pDoQ:
		n := min(len(w), doqSize)
		if n < 12 || int(binary.BigEndian.Uint16(w)) != n-2 {
			return "invalid"
		}

		return unpackText(w[2:n])
	case pDoH:
		return unpackText(w)
	case pUpsUDP:
		n := min(len(w), forward.VerifC06BufSize(forward.NetworkUDP))
		if n < 17 {
			return "invalid"
		}

		return unpackText(w[:n])
	case pUpsTCP:
		if len(w) < 2 {
			return "invalid"
		}
		l := int(binary.BigEndian.Uint16(w))
		if len(w)-2 < l || l < 17 {
			return "invalid"
		}

		return unpackText(w[2 : 2+l])
	}

	return "?"
}

// ---------------------------------------------------------------------------
// Case runner: history + next on a warmed instance, next alone on a new one.

type caseSpec struct {
	Sizes   [2]int    `json:"sizes"`
	History []*opSpec `json:"history"`
	Next    *opSpec   `json:"next"`
	Class   string    `json:"class"`
}

func (cs *caseSpec) canon() string {
	var sb strings.Builder
	fmt.Fprintf(&sb, "%v", cs.Sizes)
	for _, op := range append(append([]*opSpec{}, cs.History...), cs.Next) {
		fmt.Fprintf(&sb, ";%s %s %s %s %d", op.Path, op.Mode, op.Wire, op.Req, op.Pick)
	}

	return sb.String()
}

func (op *opSpec) fill() *opSpec {
	if op.wire == nil && op.Wire != "" {
		op.wire, _ = hex.DecodeString(op.Wire)
	}
	if op.req == nil && op.Req != "" {
		op.req, _ = hex.DecodeString(op.Req)
	}
	op.Wire = hex.EncodeToString(op.wire)
	op.Req = hex.EncodeToString(op.req)

	return op
}

// runCase returns the signatures of the violations it reported.
func (h *harness) runCase(cs *caseSpec, record, report bool) (sigs []string) {
	r := h.r
	sz := sizes{cs.Sizes[0], cs.Sizes[1]}
	warm := newInst(sz)
	defer warm.close()
	ops := append(append([]*opSpec{}, cs.History...), cs.Next)
	results := make([]*opRes, len(ops))
	lines := []string{fmt.Sprintf("init %d %d %d %d %d", sz.udp, sz.tcp, doqSize,
		forward.VerifC06BufSize(forward.NetworkUDP), forward.VerifC06BufSize(forward.NetworkTCP))}
	for i, op := range ops {
		op.fill()
		results[i] = warm.exec(op)
		lines = append(lines, results[i].line)
	}
	next, nres := cs.Next, results[len(ops)-1]

	// (1) Property oracle: a freshly started server given only this message.
	fresh := newInst(sz)
	fop := *next
	fop.Pick = -1
	fres := fresh.exec(&fop)
	fresh.close()
	violate := func(kind, what string) {
		sig := next.Path + "-" + kind
		sigs = append(sigs, sig)
		if report {
			r.Violate(sig, what, cs)
		}
	}
	if strings.HasPrefix(nres.decode, "panic:") || strings.HasPrefix(fres.decode, "panic:") {
		violate("panic", fmt.Sprintf("%s: receive path panicked on %s: warmed=%q fresh=%q", next.Path, next.what,
			clip(nres.decode), clip(fres.decode)))
	}
	if nres.decode != fres.decode {
		violate("history-dependent-decode", fmt.Sprintf(
			"%s (%s): after %d earlier message(s) the %d-byte message %s is decoded as %q, a freshly started server decodes it as %q",
			next.Path, next.what, len(cs.History), len(next.wire), clipHex(next.wire), clip(nres.decode), clip(fres.decode)))
	} else if nres.resp != fres.resp {
		violate("history-dependent-response", fmt.Sprintf(
			"%s (%s): after %d earlier message(s) the answer to message %s is %q, a freshly started server answers %q",
			next.Path, next.what, len(cs.History), clipHex(next.wire), clip(nres.resp), clip(fres.resp)))
	}
	// (2) Property oracle: decoded from the message's own bytes and nothing else.
	if own := ownBytes(next, sz); nres.decode != own && !strings.HasPrefix(nres.decode, "panic:") {
		violate("not-own-bytes", fmt.Sprintf(
			"%s (%s): message %s is decoded as %q but its own bytes alone decode as %q",
			next.Path, next.what, clipHex(next.wire), clip(nres.decode), clip(own)))
	}

	// (3) Correspondence with the model, every op of the case.
	if !record {
		return sigs
	}
	h.m.ResetLog()
	answers := h.m.Batch(lines)[1:]
	h.modelOps += len(lines)
	for i, op := range ops {
		h.compareModel(cs, i, op, results[i], answers[i], record)
	}

	if record {
		nontrivial := nres.residue && cs.Class != "valid"
		r.Case(cs.canon(), nontrivial)
		r.Traces++
		r.Count("path." + next.Path)
		r.Count("class." + cs.Class)
		r.Count(fmt.Sprintf("history.len%d", min(len(cs.History), 8)))
		if nres.residue {
			r.Count("residue_beyond_msg." + next.Path)
		}
		if nres.pickNew {
			r.Count("next_in_new_buffer." + next.Path)
		}
		if nres.decode == "invalid" {
			r.Count("decode.invalid")
		} else {
			r.Count("decode.msg")
		}
		if nontrivial {
			r.Sample(map[string]any{"path": next.Path, "class": cs.Class, "history": len(cs.History),
				"next": clipHex(next.wire), "decode": clip(nres.decode), "model": clip(answers[len(ops)-1])}, 8)
		}
	}

	return sigs
}

func clip(s string) string {
	if len(s) > 300 {
		return s[:300] + "…"
	}

	return s
}

func clipHex(b []byte) string {
	if len(b) > 80 {
		return hex.EncodeToString(b[:80]) + fmt.Sprintf("…(%d bytes)", len(b))
	}

	return hx(b)
}

// compareModel checks one op's model answer against what the real code did.
func (h *harness) compareModel(cs *caseSpec, i int, op *opSpec, res *opRes, ans string, record bool) {
	if !record {
		return
	}
	f := strings.Fields(ans)
	dis := func(what string) {
		h.r.Disagree(op.Path+"-model", fmt.Sprintf("op %d %s (%s): %s; model answered %q", i, op.Path, clip(res.line), what, clip(ans)), cs)
	}
	if len(f) != 4 {
		dis("malformed model answer")

		return
	}
	mLen, mRes, mOut, mCons := f[0], f[1], f[2], f[3]
	// Outcome.
	var mDecode, mKind string
	switch {
	case strings.HasPrefix(mOut, "reject:"):
		mDecode, mKind = "invalid", strings.TrimPrefix(mOut, "reject:")
	case strings.HasPrefix(mOut, "view:"):
		v := strings.TrimPrefix(mOut, "view:")
		var b []byte
		if v != "-" {
			b, _ = hex.DecodeString(v)
		}
		mDecode = unpackText(b)
	default:
		dis("malformed outcome")

		return
	}
	if strings.HasPrefix(res.decode, "panic:") {
		return
	}
	if mDecode != res.decode {
		dis(fmt.Sprintf("real code decoded %q, Unpack of the model's slice gives %q", clip(res.decode), clip(mDecode)))
	}
	switch res.kind {
	case "short", "badsize", "readerr", "readfull":
		if mKind != res.kind {
			dis(fmt.Sprintf("real code rejected with %q, model says %q", res.kind, mOut[:min(len(mOut), 40)]))
		}
	case "unknown-residue":
		h.r.Count("note.unknown_residue")
	case "":
	default:
		if strings.HasPrefix(res.kind, "accept-error") || res.kind == "no-signal" {
			dis("real code: " + res.kind)
		}
	}
	// Residue the pooled buffer held when the message arrived.
	if res.sawBuf && res.kind != "unknown-residue" {
		var mb []byte
		if mRes != "-" {
			mb, _ = hex.DecodeString(mRes)
		}
		if hx(padTo(mb, 48)) != res.res48 {
			dis(fmt.Sprintf("pooled buffer held %s, model predicted %s", res.res48, mRes))
		}
		if op.Path != pTCP && mLen != fmt.Sprint(res.bufLen) {
			dis(fmt.Sprintf("pooled buffer length %d, model %s", res.bufLen, mLen))
		}
	}
	if op.Path == pTCP && mCons != fmt.Sprint(res.consumed) {
		dis(fmt.Sprintf("real code consumed %d stream bytes, model %s", res.consumed, mCons))
	}
}

// ---------------------------------------------------------------------------
// Generators.

var namePool = []string{
	"a.", "example.org.", "victim-secret-name.example.com.", "x.y.z.example.net.",
	"aaaaaaaaaaaaaaaaaaaaaaaaaaaaaaaaaaaaaaaaaaaaaaaaaaaaaaaaaaaaaaa.bbbbbbbbbbbbbbbbbbbbbbbbbbbbbbbbbbbbbbbbbbbbbbbbbbbbbbbbbbbbbbb.ccccccccccccccccccccccccccccccccccccccccccccccccccccccccccccccc.example.",
	"mail.corp.internal.", "q.",
}

var typePool = []uint16{dns.TypeA, dns.TypeAAAA, dns.TypeTXT, dns.TypeANY, dns.TypeHTTPS, dns.TypeMX}

func genQuery(rng *rand.Rand) *dns.Msg {
	m := &dns.Msg{}
	m.SetQuestion(namePool[rng.IntN(len(namePool))], typePool[rng.IntN(len(typePool))])
	m.Id = uint16(rng.IntN(4))
	switch rng.IntN(6) {
	case 0:
		m.SetEdns0(uint16(512+rng.IntN(4096)), rng.IntN(2) == 0)
	case 1:
		m.SetEdns0(1232, false)
		opt := m.IsEdns0()
		opt.Option = append(opt.Option, &dns.EDNS0_PADDING{Padding: make([]byte, rng.IntN(40))})
	case 2:
		m.SetEdns0(1232, false)
		opt := m.IsEdns0()
		opt.Option = append(opt.Option, &dns.EDNS0_COOKIE{Code: dns.EDNS0COOKIE, Cookie: "0102030405060708"})
	}

	return m
}

func genReply(rng *rand.Rand, req *dns.Msg) *dns.Msg {
	m := new(dns.Msg).SetReply(req)
	q := req.Question[0]
	k := rng.IntN(5)
	for i := 0; i < k; i++ {
		switch rng.IntN(3) {
		case 0:
			m.Answer = append(m.Answer, &dns.A{
				Hdr: dns.RR_Header{Name: q.Name, Rrtype: dns.TypeA, Class: dns.ClassINET, Ttl: 60},
				A:   net.IPv4(10, byte(rng.IntN(3)), 0, byte(1+i)),
			})
		case 1:
			m.Answer = append(m.Answer, &dns.TXT{
				Hdr: dns.RR_Header{Name: q.Name, Rrtype: dns.TypeTXT, Class: dns.ClassINET, Ttl: 60},
				Txt: []string{strings.Repeat("s", rng.IntN(120))},
			})
		default:
			m.Answer = append(m.Answer, &dns.CNAME{
				Hdr:    dns.RR_Header{Name: q.Name, Rrtype: dns.TypeCNAME, Class: dns.ClassINET, Ttl: 60},
				Target: namePool[rng.IntN(len(namePool))],
			})
		}
	}
	if rng.IntN(4) == 0 {
		m.Compress = true
	}

	return m
}

func mustPack(m *dns.Msg) []byte {
	b, err := m.Pack()
	hlib.Must(err)

	return b
}

var cutPoints = []int{0, 1, 2, 3, 10, 11, 12, 13, 14, 15, 16, 17, 18}

// mutate turns a well-formed message into a short or inconsistent one.
func mutate(rng *rand.Rand, b []byte, class int) (out []byte, name string) {
	out = bytes.Clone(b)
	setCount := func(off int, v uint16) {
		if len(out) >= off+2 {
			binary.BigEndian.PutUint16(out[off:], v)
		}
	}
	switch class {
	case 0:
		return out, "valid"
	case 1:
		cut := rng.IntN(len(out) + 1)
		if rng.IntN(2) == 0 {
			cut = min(cutPoints[rng.IntN(len(cutPoints))], len(out))
		} else if rng.IntN(3) == 0 {
			cut = max(0, len(out)-1-rng.IntN(4))
		}

		return out[:cut], "truncated"
	case 2:
		off := 4 + 2*rng.IntN(4)
		vals := []uint16{1, 2, 3, 7, 0xffff}
		setCount(off, binary.BigEndian.Uint16(out[off:])+vals[rng.IntN(len(vals))])

		return out, "counts-exceed-content"
	case 3:
		// Header only (or header + question) that declares records it does
		// not carry: the witness class of the property.
		keep := 12
		if rng.IntN(2) == 0 {
			keep = len(out)
		}
		out = out[:min(keep, len(out))]
		if keep == 12 {
			setCount(4, uint16(1+rng.IntN(2)))
		}
		if rng.IntN(2) == 0 {
			setCount(6, uint16(1+rng.IntN(3)))
		}
		if rng.IntN(3) == 0 {
			setCount(8, 1)
		}
		if rng.IntN(3) == 0 {
			setCount(10, 1)
		}

		return out, "header-declares-missing-records"
	case 4:
		g := make([]byte, 1+rng.IntN(30))
		for i := range g {
			g[i] = byte(rng.IntN(256))
		}

		return append(out, g...), "trailing-garbage"
	case 5:
		g := make([]byte, rng.IntN(60))
		for i := range g {
			g[i] = byte(rng.IntN(256))
		}
		if len(g) >= 12 && rng.IntN(2) == 0 {
			// Plausible header so that the parser gets past it.
			copy(g[2:12], []byte{1, 0, 0, 1, 0, 0, 0, 0, 0, 0})
		}

		return g, "random-bytes"
	case 6:
		// Question name replaced by a compression pointer past the end of
		// the message (into whatever follows it in the buffer).
		if len(out) < 12 {
			return out, "valid"
		}
		target := len(out) + rng.IntN(40)
		if rng.IntN(2) == 0 {
			target = 12 + 2 + 4 + rng.IntN(8)
		}
		q := []byte{0xC0 | byte(target>>8&0x3f), byte(target), 0, 1, 0, 1}
		out = append(out[:12:12], q...)
		setCount(4, 1)
		setCount(6, 0)
		setCount(8, 0)
		setCount(10, 0)

		return out, "pointer-past-end"
	default:
		if len(out) > 0 {
			out[rng.IntN(len(out))] ^= byte(1 << rng.IntN(8))
		}

		return out, "bit-flip"
	}
}

var chunkPool = [][]int{nil, {1}, {2}, {1, 2, 3}, {5}, {7, 1}, {100000}}

// frame wraps a DNS message for the given path; mangle ≠ 0 breaks the framing.
func frame(rng *rand.Rand, path string, msg []byte, mangle int) (wire []byte, note string) {
	switch path {
	case pTCP, pDoQ, pUpsTCP:
		l := len(msg)
		switch mangle {
		case 1:
			l += 1 + rng.IntN(3)
			note = "+prefix-too-large"
		case 2:
			l = max(0, l-1-rng.IntN(3))
			note = "+prefix-too-small"
		case 3:
			l = 0
			note = "+prefix-zero"
		case 4:
			l = 0xffff
			note = "+prefix-max"
		case 5:
			return msg[:min(len(msg), rng.IntN(2))], "+no-prefix"
		}
		wire = append(binary.BigEndian.AppendUint16(nil, uint16(l)), msg...)
		if mangle == 6 {
			wire = append(wire, msg...)
			note = "+second-message-follows"
		}

		return wire, note
	}

	return msg, ""
}

func (h *harness) genOp(rng *rand.Rand, path string, adversarial bool, poolLen int) *opSpec {
	op := &opSpec{Path: path, Pick: -1}
	class := 0
	if adversarial {
		class = 1 + rng.IntN(7)
		if rng.IntN(3) == 0 {
			class = 3
		}
	} else if rng.IntN(5) == 0 {
		class = 1 + rng.IntN(7)
	}
	var msg []byte
	switch path {
	case pUpsUDP, pUpsTCP:
		req := genQuery(rng)
		op.req = mustPack(req)
		reply := genReply(rng, req)
		if rng.IntN(8) == 0 {
			reply = genReply(rng, genQuery(rng))
		}
		msg, op.what = mutate(rng, mustPack(reply), class)
		if poolLen > 0 && rng.IntN(8) != 0 {
			op.Pick = rng.IntN(poolLen)
		}
	default:
		msg, op.what = mutate(rng, mustPack(genQuery(rng)), class)
	}
	mangle := 0
	if rng.IntN(6) == 0 {
		mangle = 1 + rng.IntN(6)
	}
	var note string
	op.wire, note = frame(rng, path, msg, mangle)
	op.what += note
	switch path {
	case pTCP, pDoQ, pUpsTCP:
		op.Chunks = chunkPool[rng.IntN(len(chunkPool))]
		op.Fail = rng.IntN(10) == 0
	}
	switch path {
	case pDoQ:
		op.Mode = []string{"read", "serve"}[rng.IntN(2)]
	case pDoH:
		op.Mode = []string{"post", "get"}[rng.IntN(2)]
	}

	return op.fill()
}

func genSizes(rng *rand.Rand) [2]int {
	u := []int{12, 20, 40, 64, 512, 1232}
	t := []int{1, 16, 64, 512}

	return [2]int{u[rng.IntN(len(u))], t[rng.IntN(len(t))]}
}

func (h *harness) randomCampaign() {
	rng := h.o.Rand("random")
	n := 2600
	if h.o.Thorough() {
		n = 40000
	}
	for i := 0; i < n; i++ {
		path := allPaths[rng.IntN(len(allPaths))]
		cs := &caseSpec{Sizes: genSizes(rng)}
		k := rng.IntN(9)
		for j := 0; j < k; j++ {
			p := path
			if rng.IntN(6) == 0 {
				p = allPaths[rng.IntN(len(allPaths))]
			}
			nUps := 0
			for _, e := range cs.History {
				if e.Path == p {
					nUps++
				}
			}
			cs.History = append(cs.History, h.genOp(rng, p, false, min(nUps, 3)))
		}
		nUps := 0
		for _, e := range cs.History {
			if e.Path == path {
				nUps++
			}
		}
		cs.Next = h.genOp(rng, path, rng.IntN(4) != 0, min(nUps, 3))
		cs.Class = cs.Next.what
		h.checked(cs)
	}
}

// boundaryCampaign: messages at and beyond the buffer sizes (DoQ stream that
// fills the 65535-byte buffer, datagrams longer than the UDP buffers, maximal
// TCP lengths), each after one ordinary message.
func (h *harness) boundaryCampaign() {
	rng := h.o.Rand("boundary")
	q := mustPack(genQuery(rng))
	padded := func(n int, fill byte) []byte {
		b := bytes.Repeat([]byte{fill}, n)
		copy(b, q)

		return b
	}
	run := func(path string, wire []byte, req []byte, what string) {
		prevMsg := mustPack(genQuery(rng))
		var prevReq []byte
		if req != nil {
			r0 := genQuery(rng)
			prevReq = mustPack(r0)
			prevMsg = mustPack(genReply(rng, r0))
		}
		prev, _ := frame(rng, path, prevMsg, 0)
		mode := ""
		if path == pDoQ {
			mode = []string{"read", "serve"}[rng.IntN(2)]
		}
		cs := &caseSpec{
			Sizes:   [2]int{40, 16},
			History: []*opSpec{(&opSpec{Path: path, Mode: mode, wire: prev, req: prevReq, Pick: -1, what: "valid"}).fill()},
			Next:    (&opSpec{Path: path, Mode: mode, wire: wire, req: req, Pick: 0, what: what}).fill(),
			Class:   "boundary",
		}
		h.r.Count("boundary." + path)
		h.checked(cs)
	}
	for _, total := range []int{65533, 65534, 65535, 65536, 65537, 70000} {
		for _, pfx := range []int{total - 2, 65533, 65535} {
			w := append(binary.BigEndian.AppendUint16(nil, uint16(pfx)), padded(total-2, 0)...)
			run(pDoQ, w, nil, fmt.Sprintf("stream of %d bytes, prefix %d", total, uint16(pfx)))
		}
	}
	for _, n := range []int{39, 40, 41, 100} {
		run(pUDP, padded(n, 0), nil, fmt.Sprintf("%d-byte datagram into a 40-byte buffer", n))
	}
	for _, n := range []int{15, 16, 17, 65535} {
		w := append(binary.BigEndian.AppendUint16(nil, uint16(n)), padded(max(n, len(q)), 0)[:n]...)
		run(pTCP, w, nil, fmt.Sprintf("tcp message of announced length %d into a 16-byte pooled buffer", n))
	}
	req := genQuery(rng)
	rep := mustPack(genReply(rng, req))
	for _, n := range []int{4095, 4096, 4097, 5000} {
		b := make([]byte, n)
		copy(b, rep)
		run(pUpsUDP, b, mustPack(req), fmt.Sprintf("%d-byte upstream datagram", n))
	}
	for _, n := range []int{16, 17, 65534, 65535} {
		b := make([]byte, n)
		copy(b, rep)
		run(pUpsTCP, append(binary.BigEndian.AppendUint16(nil, uint16(n)), b...), mustPack(req),
			fmt.Sprintf("upstream tcp reply of announced length %d", n))
	}
}

// checked runs a case and, when it violates the property, shrinks the history
// before recording it.
func (h *harness) checked(cs *caseSpec) {
	sigs := h.runCase(cs, true, false)
	if len(sigs) == 0 {
		return
	}
	want := sigs[0]
	small := hlib.Shrink(cs.History, func(hist []*opSpec) bool {
		for _, s := range h.runCase(&caseSpec{Sizes: cs.Sizes, History: hist, Next: cs.Next, Class: cs.Class}, false, false) {
			if s == want {
				return true
			}
		}

		return false
	})
	if len(cs.History) >= 2 || len(small) < len(cs.History) {
		cs = &caseSpec{Sizes: cs.Sizes, History: small, Next: cs.Next, Class: cs.Class}
	}
	h.runCase(cs, false, true)
}

// witnesses replays the two inputs of DESIGN.md section 6 (S2, S3) and the
// Lean counter-example witnesses on the real code.
func (h *harness) witnesses() {
	q := &dns.Msg{}
	q.SetQuestion("victim-secret-name.example.com.", dns.TypeA)
	q.Id = 0
	qb := mustPack(q)
	hdr := []byte{0, 0, 1, 0, 0, 1, 0, 0, 0, 0, 0, 0}
	for _, mode := range []string{"read", "serve"} {
		prev, _ := frame(nil, pDoQ, qb, 0)
		next, _ := frame(nil, pDoQ, hdr, 0)
		cs := &caseSpec{
			Sizes:   [2]int{512, 512},
			History: []*opSpec{(&opSpec{Path: pDoQ, Mode: mode, wire: prev, Pick: -1, what: "valid"}).fill()},
			Next:    (&opSpec{Path: pDoQ, Mode: mode, wire: next, Pick: -1, what: "14-byte message, QDCOUNT=1"}).fill(),
			Class:   "header-declares-missing-records",
		}
		h.r.Count("witness.doq_14_byte")
		h.checked(cs)
	}
	// Upstream: an older, longer reply to the same question; then a reply that
	// is header + question with ANCOUNT = 1 and no answer bytes.
	full := new(dns.Msg).SetReply(q)
	full.Answer = append(full.Answer, &dns.A{
		Hdr: dns.RR_Header{Name: q.Question[0].Name, Rrtype: dns.TypeA, Class: dns.ClassINET, Ttl: 300},
		A:   net.IPv4(10, 66, 66, 66),
	})
	fb := mustPack(full)
	short := mustPack(new(dns.Msg).SetReply(q))
	binary.BigEndian.PutUint16(short[6:], 1)
	for _, p := range []string{pUpsUDP, pUpsTCP} {
		prev, _ := frame(nil, p, fb, 0)
		next, _ := frame(nil, p, short, 0)
		cs := &caseSpec{
			Sizes:   [2]int{512, 512},
			History: []*opSpec{(&opSpec{Path: p, wire: prev, req: qb, Pick: -1, what: "valid"}).fill()},
			Next:    (&opSpec{Path: p, wire: next, req: qb, Pick: 0, what: "header+question, ANCOUNT=1, no answer bytes"}).fill(),
			Class:   "header-declares-missing-records",
		}
		h.r.Count("witness.upstream_ancount")
		h.checked(cs)
	}
}

// exhaustiveTruncation: for a few base messages, every cut offset and every
// single count bumped, on every path, after a history of longer messages.
func (h *harness) exhaustiveTruncation() {
	rng := h.o.Rand("exhaustive")
	bases, bumps := 1, 3
	if h.o.Thorough() {
		bases, bumps = 8, 5
	}
	for _, path := range allPaths {
		for bi := 0; bi < bases; bi++ {
			var base, reqb []byte
			var hist []*opSpec
			req := genQuery(rng)
			reqb = mustPack(req)
			mk := func(msg []byte, what string, pick int) *opSpec {
				op := &opSpec{Path: path, Pick: pick, what: what}
				op.wire, _ = frame(rng, path, msg, 0)
				switch path {
				case pUpsUDP, pUpsTCP:
					op.req = reqb
				case pDoQ:
					op.Mode = []string{"read", "serve"}[bi%2]
				case pDoH:
					op.Mode = []string{"post", "get"}[bi%2]
				}

				return op.fill()
			}
			switch path {
			case pUpsUDP, pUpsTCP:
				rep := genReply(rng, req)
				for len(rep.Answer) == 0 {
					rep = genReply(rng, req)
				}
				base = mustPack(rep)
			default:
				base = reqb
			}
			hist = []*opSpec{mk(append(bytes.Clone(base), bytes.Repeat([]byte{0xAB}, 8)...), "valid+garbage", -1), mk(base, "valid", 0)}
			for cut := 0; cut <= len(base); cut++ {
				for bump := 0; bump < bumps; bump++ {
					msg := bytes.Clone(base[:cut])
					what := fmt.Sprintf("cut@%d", cut)
					if bump > 0 {
						off := 4 + 2*(bump-1)
						if len(msg) < off+2 {
							continue
						}
						binary.BigEndian.PutUint16(msg[off:], binary.BigEndian.Uint16(msg[off:])+1)
						what += fmt.Sprintf("+count%d", bump)
					}
					cs := &caseSpec{Sizes: [2]int{512, 64}, History: hist, Next: mk(msg, what, 0), Class: "exhaustive-cut"}
					h.checked(cs)
				}
			}
		}
	}
	h.r.Count("exhaustive.all_cuts_all_counts_done")
}

// ---------------------------------------------------------------------------
// End to end: the public UpstreamPlain.Exchange against a scripted upstream on
// loopback sockets (real buffer pool, real packReq, real connection pool).

type scriptedUpstream struct {
	tcp   net.Listener
	udp   net.PacketConn
	reply func(nw string, req []byte) []byte
}

func newScriptedUpstream() (s *scriptedUpstream, err error) {
	for try := 0; try < 20; try++ {
		var l net.Listener
		l, err = net.Listen("tcp", "127.0.0.1:0")
		if err != nil {
			return nil, err
		}
		var u net.PacketConn
		u, err = net.ListenPacket("udp", l.Addr().String())
		if err != nil {
			_ = l.Close()

			continue
		}
		s = &scriptedUpstream{tcp: l, udp: u}
		go s.serveUDP()
		go s.serveTCP()

		return s, nil
	}

	return nil, err
}

func (s *scriptedUpstream) serveUDP() {
	buf := make([]byte, 65535)
	for {
		n, addr, err := s.udp.ReadFrom(buf)
		if err != nil {
			return
		}
		_, _ = s.udp.WriteTo(s.reply("udp", bytes.Clone(buf[:n])), addr)
	}
}

func (s *scriptedUpstream) serveTCP() {
	for {
		c, err := s.tcp.Accept()
		if err != nil {
			return
		}
		go func() {
			defer c.Close()
			for {
				var l uint16
				if binary.Read(c, binary.BigEndian, &l) != nil {
					return
				}
				req := make([]byte, l)
				if _, rerr := io.ReadFull(c, req); rerr != nil {
					return
				}
				rep := s.reply("tcp", req)
				if _, werr := c.Write(append(binary.BigEndian.AppendUint16(nil, uint16(len(rep))), rep...)); werr != nil {
					return
				}
			}
		}()
	}
}

func (s *scriptedUpstream) close() { _ = s.tcp.Close(); _ = s.udp.Close() }

type exchStep struct {
	Req   string `json:"req"`
	Reply string `json:"reply"`
	What  string `json:"what"`
	req   *dns.Msg
	reply []byte
}

func (h *harness) exchangeCampaign() {
	rng := h.o.Rand("exchange")
	srv, err := newScriptedUpstream()
	if err != nil {
		h.r.Notes = append(h.r.Notes, "exchange campaign skipped: cannot listen on loopback: "+err.Error())

		return
	}
	defer srv.close()
	addr := netip.MustParseAddrPort(srv.tcp.Addr().String())
	n := 150
	if h.o.Thorough() {
		n = 2500
	}
	var current []byte
	srv.reply = func(string, []byte) []byte { return current }
	run := func(u *forward.UpstreamPlain, st *exchStep) string {
		current = st.reply
		ctx, cancel := context.WithTimeout(context.Background(), 2*time.Second)
		defer cancel()
		resp, _, xerr := u.Exchange(ctx, st.req.Copy())
		out := msgText(resp)
		if xerr != nil {
			out += " err:" + xerr.Error()
		}

		return out
	}
	for i := 0; i < n; i++ {
		nw := []forward.Network{forward.NetworkUDP, forward.NetworkTCP}[rng.IntN(2)]
		k := 1 + rng.IntN(4)
		var steps []*exchStep
		for j := 0; j <= k; j++ {
			req := genQuery(rng)
			req.Id = uint16(1 + rng.IntN(3))
			class := 0
			if j == k {
				class = []int{1, 2, 3, 3, 3, 6}[rng.IntN(6)]
			}
			rep, what := mutate(rng, mustPack(genReply(rng, req)), class)
			if len(rep) == 0 {
				// A UDP upstream that never answers only exercises the timeout.
				rep = []byte{0}
			}
			steps = append(steps, &exchStep{Req: hex.EncodeToString(mustPack(req)), Reply: hex.EncodeToString(rep),
				What: what, req: req, reply: rep})
		}
		conf := &forward.UpstreamPlainConfig{Network: nw, Address: addr, Timeout: 2 * time.Second}
		warm := forward.NewUpstreamPlain(conf)
		var got string
		for _, st := range steps {
			got = run(warm, st)
		}
		_ = warm.Close()
		fresh := forward.NewUpstreamPlain(conf)
		want := run(fresh, steps[k])
		_ = fresh.Close()
		h.r.Count("exchange." + string(nw))
		h.r.Case(fmt.Sprintf("exchange %s %v", nw, steps), steps[k].What != "valid")
		if strings.Contains(got, "i/o timeout") || strings.Contains(want, "i/o timeout") {
			h.r.Count("exchange.discarded_timeout")

			continue
		}
		if normErr(got) != normErr(want) {
			h.r.Violate("exchange-"+string(nw)+"-history-dependent-decode", fmt.Sprintf(
				"UpstreamPlain.Exchange over %s: after %d earlier exchange(s) the reply %s (%s) is returned as %q, a new UpstreamPlain returns %q",
				nw, k, clipHex(steps[k].reply), steps[k].What, clip(got), clip(want)), steps)
		}
	}
}

// normErr drops the ephemeral port numbers that appear in network errors.
func normErr(s string) string {
	i := strings.Index(s, " err:")
	if i < 0 {
		return s
	}
	e := s[i:]
	for _, frag := range []string{"read tcp", "read udp", "write tcp", "write udp", "dial "} {
		if j := strings.Index(e, frag); j >= 0 {
			e = e[:j] + frag + " <addr>"
		}
	}

	return s[:i] + e
}
