// Command c06 is the correspondence harness and property oracle for C06 (a
// message is interpreted from its own bytes only, whatever was processed
// before).
//
// Every receive path of the real code is driven in-process with fake
// connections that (a) deliver arbitrary byte streams in arbitrary chunks and
// (b) look at the pooled buffer the real code hands to Read *before* writing
// into it, so the harness knows which residue the message met.
package main

import (
	"bytes"
	"context"
	"encoding/base64"
	"encoding/binary"
	"encoding/hex"
	"fmt"
	"io"
	"math/rand/v2"
	"net"
	"net/http"
	"net/http/httptest"
	"net/netip"
	"os"
	"runtime"
	"strings"
	"sync/atomic"
	"syscall"
	"time"

	"github.com/AdguardTeam/AdGuardDNS/internal/dnsserver"
	"github.com/AdguardTeam/AdGuardDNS/internal/dnsserver/forward"
	"github.com/AdguardTeam/AdGuardDNS/verifh/hlib"
	"github.com/AdguardTeam/golibs/log"
	"github.com/miekg/dns"
	"github.com/quic-go/quic-go"
)

const (
	pUDP    = "udp"
	pTCP    = "tcp"
	pDoQ    = "doq"
	pDoH    = "doh"
	pUpsUDP = "upsudp"
	pUpsTCP = "upstcp"
)

var allPaths = []string{pUDP, pTCP, pDoQ, pDoH, pUpsUDP, pUpsTCP}

const doqSize = dns.MaxMsgSize + 2

func main() {
	// One P: sync.Pool then hands the buffer that was just Put back to the next
	// Get, so that pooled-buffer reuse is the normal case, not a rare one.
	runtime.GOMAXPROCS(1)

	log.SetOutput(io.Discard)
	o := hlib.ParseFlags()
	r := hlib.NewResult("C06", o)
	r.Rule = "case = fresh server instance, 0-8 earlier messages (history) then one next message on one receive path " +
		"(udp, tcp, doq, doh, upstream udp/tcp); real decode + response compared with (1) a brand-new instance given only " +
		"the next message, (2) miekg Unpack of the message's own bytes, (3) the Lean model (slice handed to Unpack, reject " +
		"kind, residue the pooled buffer held, bytes consumed); burst case = 1-3 bursts of 1-4 messages accepted before " +
		"their workers run (udp datagrams, tcp connections, one pipelined tcp connection, a doq stream paused mid-read " +
		"while others are served), every message checked against its own bytes and a new instance, and against the " +
		"concurrent Lean model driven with the observed buffer identities; exchange case = UpstreamPlain.Exchange " +
		"sequences (incl. requests that fill the pooled buffer exactly) and a tcp exchange paused mid-reply while another runs; " +
		"request case = the real packReq on a buffer full of another exchange vs req.Pack(), a zeroed buffer and the model, for every " +
		"buffer size of a range and every request length around it; retry case = first upstream tcp connection reset mid-reply, what the " +
		"second receives; prefix case = real packWithPrefix on an array with residue vs own bytes and the model; loopback case = " +
		"ServerDNS started on loopback sockets, udp bursts / tcp pipelines, every received response vs a fresh sequential instance; " +
		"write-fault case = any message of a case may have failing response writes (EPERM / closed / deadline; all writes or only the first) on udp, tcp, doq, doh; " +
		"1-3 messages of one client with failing writes, then a message of another client on every receive path with lengths around the responses that could not be sent; " +
		"the model is driven with every response write (wr) and compared on the bytes written and on the length of the pooled slice the receive path reads into; " +
		"fault-loopback case = started ServerDNS whose sockets fail the writes to one client, then other clients' udp/tcp messages, verdicts on positive events only; non-trivial = the pooled buffer held non-zero " +
		"residue beyond the end of the next message and the next message is short/inconsistent (truncated, counts exceed " +
		"content, pointer past its end), or more than one message was in flight; distinct = distinct case texts"
	m := hlib.StartModel(o.Model, "C06")
	defer m.Close()

	h := &harness{o: o, r: r, m: m}
	campaigns := []struct {
		name string
		run  func()
	}{
		{"witnesses", h.witnesses}, {"boundary", h.boundaryCampaign}, {"random", h.randomCampaign},
		{"truncation", h.exhaustiveTruncation}, {"burst", h.burstCampaign}, {"exchange", h.exchangeCampaign},
		{"concurrent-exchange", h.concurrentExchangeCampaign}, {"request", h.requestCampaign}, {"retry", h.retryCampaign},
		{"prefix", h.prefixCampaign}, {"write-fault", h.writeFaultCampaign}, {"loopback", h.loopbackCampaign}, {"fault-loopback", h.faultLoopbackCampaign}, {"oob", h.oobCampaign}, {"chain", h.chainCampaign},
	}
	// C06_ONLY=<name>[,<name>] restricts a run to some campaigns (for
	// experiments; ./check never sets it).
	only := os.Getenv("C06_ONLY")
	for _, c := range campaigns {
		if only == "" || strings.Contains(","+only+",", ","+c.name+",") {
			c.run()
		}
	}

	r.ModelOps = h.modelOps
	r.Finish()
}

type harness struct {
	o        *hlib.Opts
	r        *hlib.Result
	m        *hlib.Model
	modelOps int
}

// ---------------------------------------------------------------------------
// Recorder: handler + metrics listener of the servers under test.

type recorder struct {
	reqs    []string
	byAddr  map[string]string
	invalid int
	panics  []string
	done    chan struct{}
}

func newRecorder() *recorder {
	return &recorder{done: make(chan struct{}, 64), byAddr: map[string]string{}}
}

func (rc *recorder) reset() {
	rc.reqs, rc.invalid, rc.panics = nil, 0, nil
	rc.byAddr = map[string]string{}
	for {
		select {
		case <-rc.done:
		default:
			return
		}
	}
}

func (rc *recorder) signal() {
	select {
	case rc.done <- struct{}{}:
	default:
	}
}

// ServeDNS echoes the decoded request: the reply carries the question the
// server believes it was asked.
func (rc *recorder) ServeDNS(ctx context.Context, rw dnsserver.ResponseWriter, req *dns.Msg) error {
	resp := new(dns.Msg).SetReply(req)
	for i, q := range req.Question {
		if i > 2 {
			break
		}
		resp.Answer = append(resp.Answer, &dns.TXT{
			Hdr: dns.RR_Header{Name: q.Name, Rrtype: dns.TypeTXT, Class: dns.ClassINET, Ttl: 1},
			Txt: []string{fmt.Sprintf("t%d c%d", q.Qtype, q.Qclass)},
		})
		if q.Qtype == dns.TypeTXT || q.Qtype == dns.TypeANY {
			// A response that outgrows the 512-byte pooled response buffers:
			// PackBuffer has to move to a new array.
			for j := 0; j < 6; j++ {
				resp.Answer = append(resp.Answer, &dns.TXT{
					Hdr: dns.RR_Header{Name: q.Name, Rrtype: dns.TypeTXT, Class: dns.ClassINET, Ttl: 1},
					Txt: []string{strings.Repeat(string(rune('a'+j)), 90)},
				})
			}
		}
	}

	return rw.WriteMsg(ctx, req, resp)
}

func (rc *recorder) OnRequest(_ context.Context, info *dnsserver.QueryInfo, rw dnsserver.ResponseWriter) {
	t := msgText(info.Request)
	rc.reqs = append(rc.reqs, t)
	if rw != nil && rw.RemoteAddr() != nil {
		rc.byAddr[rw.RemoteAddr().String()] = t
	}
	rc.signal()
}
func (rc *recorder) OnInvalidMsg(context.Context)   { rc.invalid++; rc.signal() }
func (rc *recorder) OnError(context.Context, error) {}
func (rc *recorder) OnPanic(_ context.Context, v any) {
	rc.panics = append(rc.panics, fmt.Sprint(v))
	rc.signal()
}
func (rc *recorder) OnQUICAddressValidation(bool) {}

// msgText is the canonical text of a decoded message.
func msgText(m *dns.Msg) (s string) {
	defer func() {
		if v := recover(); v != nil {
			s = fmt.Sprintf("msg:<String panics: %v>", v)
		}
	}()
	if m == nil {
		return "invalid"
	}

	return "msg:" + strings.ReplaceAll(m.String(), "\n", "|")
}

// unpackText decodes b with the real miekg Unpack on a private copy.
func unpackText(b []byte) string {
	m := &dns.Msg{}
	if err := m.Unpack(bytes.Clone(b)); err != nil {
		return "invalid"
	}

	return msgText(m)
}

// ---------------------------------------------------------------------------
// Fakes.

// bufSpy remembers the pooled buffer the code under test read into.
type bufSpy struct {
	got    bool
	before []byte
	ref    []byte
	// plen is len(p) of the slice the code under test handed to Read (before
	// holds the whole capacity): the length of the pooled buffer as the receive
	// path sees it.
	plen int
}

func (s *bufSpy) see(p []byte) {
	if s.got {
		return
	}
	s.got = true
	s.plen = len(p)
	s.ref = p[:cap(p)]
	s.before = bytes.Clone(s.ref)
}

var (
	laddrUDP = &net.UDPAddr{IP: net.IPv4(127, 0, 0, 1), Port: 53}
	raddrUDP = &net.UDPAddr{IP: net.IPv4(127, 0, 0, 9), Port: 40000}
	laddrTCP = &net.TCPAddr{IP: net.IPv4(127, 0, 0, 1), Port: 53}
	raddrTCP = &net.TCPAddr{IP: net.IPv4(127, 0, 0, 9), Port: 40000}
)

type fakePacketConn struct {
	spy   bufSpy
	wire  []byte
	wrote [][]byte
	raddr net.Addr
	wf    writeFault
}

func (c *fakePacketConn) ReadFrom(p []byte) (int, net.Addr, error) {
	c.spy.see(p)
	if c.raddr != nil {
		return copy(p, c.wire), c.raddr, nil
	}

	return copy(p, c.wire), raddrUDP, nil
}

func (c *fakePacketConn) WriteTo(p []byte, _ net.Addr) (int, error) {
	c.wrote = append(c.wrote, bytes.Clone(p))
	if err := c.wf.next("udp"); err != nil {
		return 0, err
	}

	return len(p), nil
}
func (c *fakePacketConn) Close() error                     { return nil }
func (c *fakePacketConn) LocalAddr() net.Addr              { return laddrUDP }
func (c *fakePacketConn) SetDeadline(time.Time) error      { return nil }
func (c *fakePacketConn) SetReadDeadline(time.Time) error  { return nil }
func (c *fakePacketConn) SetWriteDeadline(time.Time) error { return nil }

// byteStream delivers stream in chunks; skip is the number of leading bytes
// (the TCP length prefix) read into a non-pooled buffer.
type byteStream struct {
	spy      bufSpy
	stream   []byte
	off      int
	chunks   []int
	ci       int
	skip     int
	failWith error
	wrote    [][]byte
	closed   bool
	raddr    net.Addr
	// gateAt > 0: the Read that starts at this offset first announces itself
	// on reached and then blocks until gate is closed (a stream whose sender
	// pauses while other connections are served).
	gateAt  int
	gate    chan struct{}
	reached chan struct{}
	gated   bool
	wf      writeFault
}

func (c *byteStream) Read(p []byte) (int, error) {
	if c.off >= c.skip && len(p) > 0 {
		c.spy.see(p)
	}
	if c.gateAt > 0 && !c.gated && c.off >= c.gateAt {
		c.gated = true
		close(c.reached)
		<-c.gate
	}
	if c.off >= len(c.stream) {
		if c.failWith != nil {
			return 0, c.failWith
		}

		return 0, io.EOF
	}
	n := len(c.stream) - c.off
	if len(c.chunks) > 0 {
		n = min(n, c.chunks[c.ci%len(c.chunks)])
		c.ci++
	}
	if c.off < c.skip {
		n = min(n, c.skip-c.off)
	}
	n = copy(p, c.stream[c.off:c.off+n])
	c.off += n

	return n, nil
}

func (c *byteStream) Write(p []byte) (int, error) {
	c.wrote = append(c.wrote, bytes.Clone(p))
	if err := c.wf.next("tcp"); err != nil {
		return 0, err
	}

	return len(p), nil
}
func (c *byteStream) Close() error                     { c.closed = true; return nil }
func (c *byteStream) SetDeadline(time.Time) error      { return nil }
func (c *byteStream) SetReadDeadline(time.Time) error  { return nil }
func (c *byteStream) SetWriteDeadline(time.Time) error { return nil }

type fakeTCPConn struct{ *byteStream }

func (fakeTCPConn) LocalAddr() net.Addr { return laddrTCP }
func (c fakeTCPConn) RemoteAddr() net.Addr {
	if c.raddr != nil {
		return c.raddr
	}

	return raddrTCP
}

type fakeQUICStream struct {
	quic.Stream
	*byteStream
}

func (s fakeQUICStream) Read(p []byte) (int, error)       { return s.byteStream.Read(p) }
func (s fakeQUICStream) Write(p []byte) (int, error)      { return s.byteStream.Write(p) }
func (s fakeQUICStream) Close() error                     { return s.byteStream.Close() }
func (s fakeQUICStream) SetDeadline(time.Time) error      { return nil }
func (s fakeQUICStream) SetReadDeadline(time.Time) error  { return nil }
func (s fakeQUICStream) SetWriteDeadline(time.Time) error { return nil }
func (s fakeQUICStream) StreamID() quic.StreamID          { return 0 }
func (s fakeQUICStream) CancelRead(quic.StreamErrorCode)  {}
func (s fakeQUICStream) CancelWrite(quic.StreamErrorCode) {}
func (s fakeQUICStream) Context() context.Context         { return context.Background() }

type fakeQUICConn struct {
	quic.Connection
	closedWith []uint64
}

func (c *fakeQUICConn) LocalAddr() net.Addr      { return laddrUDP }
func (c *fakeQUICConn) RemoteAddr() net.Addr     { return raddrUDP }
func (c *fakeQUICConn) Context() context.Context { return context.Background() }
func (c *fakeQUICConn) CloseWithError(code quic.ApplicationErrorCode, _ string) error {
	c.closedWith = append(c.closedWith, uint64(code))

	return nil
}

// writeFault makes the response writes of a fake connection fail the way a
// real socket does: kind "eperm" (sendmsg refused: firewall rule, unreachable
// route), "closed" (the peer or the server closed the connection) or
// "deadline" (the write deadline passed).  n > 0: only the first n writes fail
// (the SERVFAIL the server tries after a handler error then goes through).
type writeFault struct {
	kind  string
	n     int
	calls int
	fails int
}

func (w *writeFault) next(nw string) error {
	w.calls++
	if w.kind == "" || (w.n > 0 && w.calls > w.n) {
		return nil
	}
	w.fails++
	switch w.kind {
	case "eperm":
		return &net.OpError{Op: "write", Net: nw, Err: os.NewSyscallError("sendmsg", syscall.EPERM)}
	case "closed":
		return &net.OpError{Op: "write", Net: nw, Err: net.ErrClosed}
	default:
		return &net.OpError{Op: "write", Net: nw, Err: os.ErrDeadlineExceeded}
	}
}

// note appends the number of failed writes to a response text (only when a
// fault was asked for, so that fault-free texts stay what they were).
func (w *writeFault) note(s string) string {
	if w.kind == "" {
		return s
	}

	return fmt.Sprintf("%s wfail=%d/%d", s, w.fails, w.calls)
}

// failsAt says whether the k-th write (from 1) fails.
func (w *writeFault) failsAt(k int) bool { return w.kind != "" && (w.n <= 0 || k <= w.n) }

// writeLines turns the attempted response writes of one message into model ops.
func writeLines(path string, wf *writeFault, wrote [][]byte, res *opRes) {
	for k, w := range wrote {
		msg := w
		if path != pUDP {
			if len(w) < 2 {
				continue
			}
			msg = w[2:]
		}
		f := 0
		if wf.failsAt(k + 1) {
			f = 1
		}
		res.wlines = append(res.wlines, fmt.Sprintf("wr %s - %s %d", path, hx(msg), f))
		res.wrote = append(res.wrote, w)
	}
}

func (op *opSpec) fault() writeFault { return writeFault{kind: op.WFail, n: op.WFailN} }

var wfaultKinds = []string{"eperm", "closed", "deadline"}

// failingHTTPWriter is an http.ResponseWriter whose body writes fail.
type failingHTTPWriter struct {
	*httptest.ResponseRecorder
	wf *writeFault
}

func (w failingHTTPWriter) Write(p []byte) (int, error) {
	if err := w.wf.next("tcp"); err != nil {
		return 0, err
	}

	return w.ResponseRecorder.Write(p)
}

type timeoutErr struct{}

func (timeoutErr) Error() string   { return "i/o timeout" }
func (timeoutErr) Timeout() bool   { return true }
func (timeoutErr) Temporary() bool { return true }

// ---------------------------------------------------------------------------
// One instance of everything under test ("a freshly started server").

type sizes struct{ udp, tcp int }

type inst struct {
	sz     sizes
	rec    *recorder
	dnsSrv *dnsserver.ServerDNS
	doq    *dnsserver.ServerQUIC
	doh    http.Handler
	ups    *forward.UpstreamPlain
	// shadow[path] mirrors the free list of the pool: contents of every buffer
	// the harness saw being used, in Put order.  For the upstream paths these
	// are the very buffers (the harness owns that pool).
	shadow map[string][][]byte
}

func newInst(sz sizes) (in *inst) {
	return &inst{sz: sz, rec: newRecorder(), shadow: map[string][][]byte{}}
}

func (in *inst) base(name string) dnsserver.ConfigBase {
	return dnsserver.ConfigBase{Name: name, Addr: "127.0.0.1:0", Handler: in.rec, Metrics: in.rec}
}

// need creates the server for path on first use.
func (in *inst) need(path string) {
	switch {
	case (path == pUDP || path == pTCP) && in.dnsSrv == nil:
		in.dnsSrv = dnsserver.NewServerDNS(dnsserver.ConfigDNS{
			ConfigBase: in.base("dns"), UDPSize: in.sz.udp, TCPSize: in.sz.tcp, MaxUDPRespSize: 4096,
		})
	case path == pDoQ && in.doq == nil:
		in.doq = dnsserver.NewServerQUIC(dnsserver.ConfigQUIC{ConfigBase: in.base("doq")})
	case path == pDoH && in.doh == nil:
		doh := dnsserver.NewServerHTTPS(dnsserver.ConfigHTTPS{ConfigBase: in.base("doh")})
		in.doh = dnsserver.VerifC06HTTPHandler(doh, laddrTCP)
	case (path == pUpsUDP || path == pUpsTCP) && in.ups == nil:
		in.ups = forward.NewUpstreamPlain(&forward.UpstreamPlainConfig{
			Address: netip.MustParseAddrPort("127.0.0.1:1"),
		})
	}
}

func (in *inst) close() {
	if in.dnsSrv != nil {
		dnsserver.VerifC06ReleaseDNS(in.dnsSrv)
	}
	if in.doq != nil {
		dnsserver.VerifC06ReleaseQUIC(in.doq)
	}
	if in.ups != nil {
		_ = in.ups.Close()
	}
}

func (in *inst) size(path string) int {
	switch path {
	case pUDP:
		return in.sz.udp
	case pTCP:
		return in.sz.tcp
	case pDoQ:
		return doqSize
	case pUpsUDP:
		return forward.VerifC06BufSize(forward.NetworkUDP)
	case pUpsTCP:
		return forward.VerifC06BufSize(forward.NetworkTCP)
	}

	return 0
}

// matchShadow finds the free-list entry whose contents equal seen (zero
// padding ignored, since a grown TCP buffer has a larger zeroed capacity).
func (in *inst) matchShadow(path string, seen []byte) int {
	for i, e := range in.shadow[path] {
		if eqZeroPadded(e, seen) {
			return i
		}
	}

	return -1
}

func eqZeroPadded(a, b []byte) bool {
	if len(a) > len(b) {
		a, b = b, a
	}
	if !bytes.Equal(a, b[:len(a)]) {
		return false
	}

	return allZero(b[len(a):])
}

func allZero(b []byte) bool {
	for _, x := range b {
		if x != 0 {
			return false
		}
	}

	return true
}

// ---------------------------------------------------------------------------
// Ops.

type opSpec struct {
	Path   string `json:"path"`
	Mode   string `json:"mode,omitempty"` // doq: read|serve; doh: post|get
	Wire   string `json:"wire"`           // hex of the bytes on the wire
	Chunks []int  `json:"chunks,omitempty"`
	Fail   bool   `json:"fail,omitempty"` // stream ends with a timeout instead of EOF
	Req    string `json:"req,omitempty"`  // upstream: hex of the packed request
	Pick   int    `json:"pick"`           // upstream: index into the harness-owned pool, -1 = new
	// WFail != "": the response writes of this message fail (eperm | closed |
	// deadline); WFailN > 0: only the first WFailN of them.
	WFail  string `json:"wfail,omitempty"`
	WFailN int    `json:"wfail_n,omitempty"`
	wire   []byte
	req    []byte
	what   string
}

type opRes struct {
	line   string
	sawBuf bool
	bufLen int
	res48  string
	// wlines are the model ops of the response writes of this message (after
	// line); wrote the bytes of each attempted write.
	wlines   []string
	wrote    [][]byte
	decode   string
	kind     string
	resp     string
	consumed int
	residue  bool // non-zero residue beyond the end of this message
	pickNew  bool
	// msg is the decoded message the real code returned to its caller after
	// giving the pooled buffer back (DoQ read mode, upstream replies).
	msg *dns.Msg
}

func hx(b []byte) string {
	if len(b) == 0 {
		return "-"
	}

	return hex.EncodeToString(b)
}

func settle() {
	for i := 0; i < 4; i++ {
		runtime.Gosched()
	}
}

// missedSignals counts receive operations that neither served nor rejected
// their message (only possible when the worker goroutine died).  The first one
// is waited for generously; once one has happened the verdict of the run is
// already "violation" and later waits are cut short so that the run finishes
// and reports.
var missedSignals int

func waitSignal(rec *recorder) bool {
	d := 5 * time.Second
	if missedSignals > 0 {
		d = 10 * time.Millisecond
	}
	select {
	case <-rec.done:
		return true
	case <-time.After(d):
		missedSignals++

		return false
	}
}

// canonResp is the text of one response as written to the client.  The
// server pads responses on encrypted transports with a random number of bytes
// (RFC 8467 random-length padding), so the padding option is blanked; nothing
// else is normalised.  prefixed says the bytes start with a 2-byte length.
func canonResp(w []byte, prefixed bool) string {
	body := w
	if prefixed {
		if len(w) < 2 || int(binary.BigEndian.Uint16(w)) != len(w)-2 {
			return "badframe:" + hex.EncodeToString(w)
		}
		body = w[2:]
	}
	m := &dns.Msg{}
	if err := m.Unpack(bytes.Clone(body)); err != nil {
		return "raw:" + hex.EncodeToString(w)
	}
	padded := false
	if opt := m.IsEdns0(); opt != nil {
		for _, o := range opt.Option {
			if p, ok := o.(*dns.EDNS0_PADDING); ok {
				p.Padding = nil
				padded = true
			}
		}
	}
	if !padded {
		return "raw:" + hex.EncodeToString(w)
	}

	return "padded:" + msgText(m)
}

func respText(wrote [][]byte, prefixed bool, extra string) string {
	var sb strings.Builder
	for _, w := range wrote {
		sb.WriteString(canonResp(w, prefixed))
		sb.WriteByte('/')
	}
	sb.WriteString(extra)

	return sb.String()
}

func (in *inst) observe(res *opRes) {
	switch {
	case len(in.rec.panics) > 0:
		res.decode = "panic:" + in.rec.panics[0]
	case len(in.rec.reqs) > 0:
		res.decode = in.rec.reqs[0]
	default:
		res.decode = "invalid"
	}
}

// poolBookkeeping turns what the spy saw into the model's `pick` and keeps the
// shadow free list in step.  msgEnd is where this message's own bytes end in
// the buffer.
func (in *inst) poolBookkeeping(path string, spy *bufSpy, msgEnd int, res *opRes) (pick string) {
	if !spy.got {
		// No pooled read happened (TCP: length prefix unreadable or zero
		// length).  Mirror the model, which takes a new zeroed buffer.
		in.shadow[path] = append(in.shadow[path], make([]byte, in.size(path)))
		res.pickNew = true

		return "-"
	}
	res.sawBuf = true
	res.bufLen = len(spy.before)
	if path == pUDP || path == pDoQ {
		// The length of the slice the receive path read into, not its capacity.
		res.bufLen = spy.plen
	}
	res.res48 = hx(padTo(spy.before, 48)[:48])
	if msgEnd < len(spy.before) && !allZero(spy.before[msgEnd:]) {
		res.residue = true
	}
	idx := in.matchShadow(path, spy.before)
	pick = "-"
	if idx >= 0 {
		pick = fmt.Sprint(idx)
		in.shadow[path] = append(in.shadow[path][:idx:idx], in.shadow[path][idx+1:]...)
	} else {
		res.pickNew = true
		if !allZero(spy.before) {
			// A buffer with residue the harness has never seen: the shadow
			// list cannot name it.  Reported by the caller as a note.
			res.kind = "unknown-residue"
		}
	}
	in.shadow[path] = append(in.shadow[path], bytes.Clone(spy.ref))

	return pick
}

func padTo(b []byte, n int) []byte {
	if len(b) >= n {
		return b
	}

	return append(bytes.Clone(b), make([]byte, n-len(b))...)
}

var srvCtx = dnsserver.ContextWithServerInfo(context.Background(), &dnsserver.ServerInfo{
	Name: "doq", Addr: "127.0.0.1:0", Proto: dnsserver.ProtoDoQ,
})

// exec runs one op on the real code and returns what was observed.
func (in *inst) exec(op *opSpec) (res *opRes) {
	res = &opRes{}
	in.rec.reset()
	in.need(op.Path)
	defer func() {
		if v := recover(); v != nil {
			res.decode = fmt.Sprintf("panic:%v", v)
		}
	}()
	switch op.Path {
	case pUDP:
		c := &fakePacketConn{wire: op.wire, wf: op.fault()}
		err := dnsserver.VerifC06AcceptUDPMsg(context.Background(), in.dnsSrv, c)
		n := min(len(op.wire), in.sz.udp)
		if err != nil {
			res.kind = "accept-error:" + err.Error()
		} else if n >= 12 {
			if !waitSignal(in.rec) {
				res.kind = "no-signal"
			}
		}
		settle()
		in.observe(res)
		if n < 12 {
			res.kind = "short"
		}
		res.resp = respText(c.wrote, false, c.wf.note(""))
		writeLines(pUDP, &c.wf, c.wrote, res)
		res.consumed = len(op.wire)
		pick := in.poolBookkeeping(pUDP, &c.spy, n, res)
		res.line = fmt.Sprintf("recv udp %s - %s", pick, hx(op.wire))
	case pTCP:
		bs := &byteStream{stream: op.wire, chunks: op.Chunks, skip: 2, wf: op.fault()}
		if op.Fail {
			bs.failWith = timeoutErr{}
		}
		c := fakeTCPConn{bs}
		tc := dnsserver.VerifC06NewTCPConn()
		err := dnsserver.VerifC06AcceptTCPMsg(in.dnsSrv, c, tc, time.Second)
		if err == nil {
			tc.Wait()
		} else {
			switch {
			case bs.off < 2 || len(op.wire) < 2:
				res.kind = "readerr"
			default:
				res.kind = "readfull"
			}
		}
		settle()
		in.observe(res)
		res.resp = respText(bs.wrote, true, bs.wf.note(fmt.Sprintf("closed=%v", bs.closed)))
		writeLines(pTCP, &bs.wf, bs.wrote, res)
		res.consumed = bs.off
		msgEnd := 0
		if len(op.wire) >= 2 {
			msgEnd = min(int(binary.BigEndian.Uint16(op.wire)), len(op.wire)-2)
		}
		pick := "-"
		if len(op.wire) >= 2 {
			pick = in.poolBookkeeping(pTCP, &bs.spy, msgEnd, res)
		} else {
			// acceptTCPMsg never reached the pool; the model op still takes
			// and returns a new buffer.
			in.shadow[pTCP] = append(in.shadow[pTCP], make([]byte, in.sz.tcp))
		}
		res.line = fmt.Sprintf("recv tcp %s - %s", pick, hx(op.wire))
	case pDoQ:
		bs := &byteStream{stream: op.wire, chunks: op.Chunks, wf: op.fault()}
		if op.Fail {
			bs.failWith = timeoutErr{}
		}
		st := fakeQUICStream{byteStream: bs}
		n := min(len(op.wire), doqSize)
		if op.Mode == "read" {
			msg, err := dnsserver.VerifC06ReadQUICMsg(srvCtx, in.doq, st)
			if err != nil {
				res.decode = "invalid"
				res.kind = doqKind(err)
			} else {
				res.decode = msgText(msg)
				res.msg = msg
			}
		} else {
			qc := &fakeQUICConn{}
			err := dnsserver.VerifC06ServeQUICStream(srvCtx, in.doq, st, qc)
			settle()
			in.observe(res)
			if err != nil {
				res.kind = doqKind(err)
			}
			res.resp = respText(bs.wrote, true, bs.wf.note(fmt.Sprintf("closed=%v conn=%v", bs.closed, qc.closedWith)))
			writeLines(pDoQ, &bs.wf, bs.wrote, res)
		}
		res.consumed = len(op.wire)
		pick := in.poolBookkeeping(pDoQ, &bs.spy, n, res)
		res.line = fmt.Sprintf("recv doq %s - %s", pick, hx(op.wire))
	case pDoH:
		var hr *http.Request
		if op.Mode == "get" {
			hr = httptest.NewRequest(http.MethodGet,
				"/dns-query?dns="+base64.RawURLEncoding.EncodeToString(op.wire), nil)
		} else {
			hr = httptest.NewRequest(http.MethodPost, "/dns-query", bytes.NewReader(op.wire))
			hr.Header.Set("Content-Type", dnsserver.MimeTypeDoH)
		}
		hr.RemoteAddr = "127.0.0.9:40000"
		w := httptest.NewRecorder()
		wf := op.fault()
		in.doh.ServeHTTP(failingHTTPWriter{w, &wf}, hr)
		in.observe(res)
		res.resp = wf.note(fmt.Sprintf("%d %s", w.Code, canonResp(w.Body.Bytes(), false)))
		res.consumed = len(op.wire)
		res.line = fmt.Sprintf("recv doh - - %s", hx(op.wire))
	case pUpsUDP, pUpsTCP:
		in.execUpstream(op, res)
	}

	return res
}

func doqKind(err error) string {
	s := err.Error()
	switch {
	case strings.Contains(s, "bad buffer size"):
		return "badsize"
	case strings.Contains(s, "failed to read QUIC message"), err == dns.ErrShortRead:
		return "short"
	case err == dnsserver.ErrProtocol:
		return "protocol"
	}

	return "unpack"
}

// execUpstream drives readValidMsg with a buffer from the harness-owned pool,
// after packing the request into it the way exchangeNet/packReq do.
func (in *inst) execUpstream(op *opSpec, res *opRes) {
	nw := forward.NetworkUDP
	if op.Path == pUpsTCP {
		nw = forward.NetworkTCP
	}
	var buf []byte
	pick := "-"
	fl := in.shadow[op.Path]
	if op.Pick >= 0 && op.Pick < len(fl) {
		buf = fl[op.Pick]
		in.shadow[op.Path] = append(fl[:op.Pick:op.Pick], fl[op.Pick+1:]...)
		pick = fmt.Sprint(op.Pick)
	} else {
		buf = make([]byte, in.size(op.Path))
		res.pickNew = true
	}
	req := &dns.Msg{}
	hlib.Must(req.Unpack(bytes.Clone(op.req)))
	pre := op.req
	if nw == forward.NetworkTCP {
		pre = append(binary.BigEndian.AppendUint16(nil, uint16(len(op.req))), op.req...)
	}
	copy(buf, pre)
	res.sawBuf = true
	res.bufLen = len(buf)
	res.res48 = hx(buf[:48])

	bs := &byteStream{stream: op.wire, chunks: op.Chunks}
	if nw == forward.NetworkUDP {
		// One datagram per Read.
		bs.chunks = nil
	}
	msgEnd := min(len(op.wire), len(buf))
	if nw == forward.NetworkTCP && len(op.wire) >= 2 {
		msgEnd = min(int(binary.BigEndian.Uint16(op.wire)), len(op.wire)-2)
	}
	res.residue = !allZero(buf[msgEnd:])
	resp, err := forward.VerifC06ReadValidMsg(in.ups, req, nw, fakeTCPConn{bs}, buf)
	res.decode = msgText(resp)
	res.msg = resp
	res.resp = "ok"
	if err != nil {
		s := err.Error()
		res.resp = "err:" + s
		switch {
		case strings.Contains(s, "invalid msg"):
			res.kind = "short"
		case strings.Contains(s, "reading binary data"):
			res.kind = "readerr"
		case strings.Contains(s, "reading full"):
			res.kind = "readfull"
		case strings.Contains(s, "udp network reading"):
			// An empty datagram cannot be told from EOF by the fake; treat as short.
			res.kind = "short"
		}
	}
	res.consumed = bs.off
	in.shadow[op.Path] = append(in.shadow[op.Path], buf)
	res.line = fmt.Sprintf("recv %s %s %s %s", op.Path, pick, hx(pre), hx(op.wire))
}

// ownBytes is the property's own reading of a message: what a decoder that
// sees nothing but this message's bytes must produce.
func ownBytes(op *opSpec, sz sizes) string {
	w := op.wire
	switch op.Path {
	case pUDP:
		n := min(len(w), sz.udp)
		if n < 12 {
			return "invalid"
		}

		return unpackText(w[:n])
	case pTCP:
		if len(w) < 2 {
			return "invalid"
		}
		l := int(binary.BigEndian.Uint16(w))
		if len(w)-2 < l {
			return "invalid"
		}

		return unpackText(w[2 : 2+l])
	case pDoQ:
		n := min(len(w), doqSize)
		if n < 12 || int(binary.BigEndian.Uint16(w)) != n-2 {
			return "invalid"
		}

		return unpackText(w[2:n])
	case pDoH:
		return unpackText(w)
	case pUpsUDP:
		n := min(len(w), forward.VerifC06BufSize(forward.NetworkUDP))
		if n < 17 {
			return "invalid"
		}

		return unpackText(w[:n])
	case pUpsTCP:
		if len(w) < 2 {
			return "invalid"
		}
		l := int(binary.BigEndian.Uint16(w))
		if len(w)-2 < l || l < 17 {
			return "invalid"
		}

		return unpackText(w[2 : 2+l])
	}

	return "?"
}

// ---------------------------------------------------------------------------
// Case runner: history + next on a warmed instance, next alone on a new one.

type caseSpec struct {
	Sizes   [2]int    `json:"sizes"`
	History []*opSpec `json:"history"`
	Next    *opSpec   `json:"next"`
	Class   string    `json:"class"`
}

func (cs *caseSpec) canon() string {
	var sb strings.Builder
	fmt.Fprintf(&sb, "%v", cs.Sizes)
	for _, op := range append(append([]*opSpec{}, cs.History...), cs.Next) {
		fmt.Fprintf(&sb, ";%s %s %s %s %d %s%d", op.Path, op.Mode, op.Wire, op.Req, op.Pick, op.WFail, op.WFailN)
	}

	return sb.String()
}

func (op *opSpec) fill() *opSpec {
	if op.wire == nil && op.Wire != "" {
		op.wire, _ = hex.DecodeString(op.Wire)
	}
	if op.req == nil && op.Req != "" {
		op.req, _ = hex.DecodeString(op.Req)
	}
	op.Wire = hex.EncodeToString(op.wire)
	op.Req = hex.EncodeToString(op.req)

	return op
}

// runCase returns the signatures of the violations it reported.
func (h *harness) runCase(cs *caseSpec, record, report bool) (sigs []string) {
	r := h.r
	sz := sizes{cs.Sizes[0], cs.Sizes[1]}
	warm := newInst(sz)
	defer warm.close()
	ops := append(append([]*opSpec{}, cs.History...), cs.Next)
	results := make([]*opRes, len(ops))
	lines := []string{fmt.Sprintf("init %d %d %d %d %d", sz.udp, sz.tcp, doqSize,
		forward.VerifC06BufSize(forward.NetworkUDP), forward.VerifC06BufSize(forward.NetworkTCP))}
	lineAt := make([]int, len(ops))
	for i, op := range ops {
		op.fill()
		results[i] = warm.exec(op)
		lineAt[i] = len(lines)
		lines = append(lines, results[i].line)
		lines = append(lines, results[i].wlines...)
	}
	next, nres := cs.Next, results[len(ops)-1]

	// (0) Trusted-base probe with an oracle of its own: a message handed to
	// the caller after the pooled buffer went back (DoQ, upstream) must not
	// change when later messages are read into that buffer (Unpack copies,
	// nothing keeps a window of the buffer).
	for i, res := range results[:len(ops)-1] {
		if res.msg != nil && msgText(res.msg) != res.decode {
			sig := ops[i].Path + "-decoded-message-changed-later"
			sigs = append(sigs, sig)
			if report {
				r.Violate(sig, fmt.Sprintf("%s: message %d of the history was decoded as %q; after %d later message(s) went through the pooled buffers the same *dns.Msg reads %q",
					ops[i].Path, i+1, clip(res.decode), len(ops)-1-i, clip(msgText(res.msg))), cs)
			}
		}
	}

	// (1) Property oracle: a freshly started server given only this message.
	fresh := newInst(sz)
	fop := *next
	fop.Pick = -1
	fres := fresh.exec(&fop)
	fresh.close()
	violate := func(kind, what string) {
		sig := next.Path + "-" + kind
		sigs = append(sigs, sig)
		if report {
			r.Violate(sig, what, cs)
		}
	}
	if strings.HasPrefix(nres.decode, "panic:") || strings.HasPrefix(fres.decode, "panic:") {
		violate("panic", fmt.Sprintf("%s: receive path panicked on %s: warmed=%q fresh=%q", next.Path, next.what,
			clip(nres.decode), clip(fres.decode)))
	}
	if nres.decode != fres.decode {
		violate("history-dependent-decode", fmt.Sprintf(
			"%s (%s): after %d earlier message(s) the %d-byte message %s is decoded as %q, a freshly started server decodes it as %q",
			next.Path, next.what, len(cs.History), len(next.wire), clipHex(next.wire), clip(nres.decode), clip(fres.decode)))
	} else if nres.resp != fres.resp {
		violate("history-dependent-response", fmt.Sprintf(
			"%s (%s): after %d earlier message(s) the answer to message %s is %q, a freshly started server answers %q",
			next.Path, next.what, len(cs.History), clipHex(next.wire), clip(nres.resp), clip(fres.resp)))
	}
	// (2) Property oracle: decoded from the message's own bytes and nothing else.
	if own := ownBytes(next, sz); nres.decode != own && !strings.HasPrefix(nres.decode, "panic:") {
		violate("not-own-bytes", fmt.Sprintf(
			"%s (%s): message %s is decoded as %q but its own bytes alone decode as %q",
			next.Path, next.what, clipHex(next.wire), clip(nres.decode), clip(own)))
	}

	// (3) Correspondence with the model, every op of the case.
	if !record {
		return sigs
	}
	h.m.ResetLog()
	answers := h.m.Batch(lines)
	h.modelOps += len(lines)
	for i, op := range ops {
		h.compareModel(cs, i, op, results[i], answers[lineAt[i]], record)
		for k, w := range results[i].wrote {
			// <len of the writer's pooled slice> <bytes written> <put|drop>
			f := strings.Fields(answers[lineAt[i]+1+k])
			if len(f) != 3 || f[1] != hx(w) {
				h.r.Disagree(op.Path+"-write-model", fmt.Sprintf("op %d %s: response write %d put %s on the wire; model (%s) answered %q",
					i, op.Path, k+1, clipHex(w), results[i].wlines[k][:min(40, len(results[i].wlines[k]))], clip(answers[lineAt[i]+1+k])), cs)
			}
		}
	}

	if record {
		nontrivial := nres.residue && cs.Class != "valid"
		r.Case(cs.canon(), nontrivial)
		r.Traces++
		r.Count("path." + next.Path)
		r.Count("class." + cs.Class)
		r.Count(fmt.Sprintf("history.len%d", min(len(cs.History), 8)))
		if nres.residue {
			r.Count("residue_beyond_msg." + next.Path)
		}
		if nres.pickNew {
			r.Count("next_in_new_buffer." + next.Path)
		}
		if nres.decode == "invalid" {
			r.Count("decode.invalid")
		} else {
			r.Count("decode.msg")
		}
		if nontrivial {
			r.Sample(map[string]any{"path": next.Path, "class": cs.Class, "history": len(cs.History),
				"next": clipHex(next.wire), "decode": clip(nres.decode), "model": clip(answers[lineAt[len(ops)-1]])}, 8)
		}
	}

	return sigs
}

func clip(s string) string {
	if len(s) > 300 {
		return s[:300] + "…"
	}

	return s
}

func clipHex(b []byte) string {
	if len(b) > 80 {
		return hex.EncodeToString(b[:80]) + fmt.Sprintf("…(%d bytes)", len(b))
	}

	return hx(b)
}

// compareModel checks one op's model answer against what the real code did.
func (h *harness) compareModel(cs *caseSpec, i int, op *opSpec, res *opRes, ans string, record bool) {
	if !record {
		return
	}
	f := strings.Fields(ans)
	dis := func(what string) {
		h.r.Disagree(op.Path+"-model", fmt.Sprintf("op %d %s (%s): %s; model answered %q", i, op.Path, clip(res.line), what, clip(ans)), cs)
	}
	if len(f) != 4 {
		dis("malformed model answer")

		return
	}
	mLen, mRes, mOut, mCons := f[0], f[1], f[2], f[3]
	// Outcome.
	var mDecode, mKind string
	switch {
	case strings.HasPrefix(mOut, "reject:"):
		mDecode, mKind = "invalid", strings.TrimPrefix(mOut, "reject:")
	case strings.HasPrefix(mOut, "view:"):
		v := strings.TrimPrefix(mOut, "view:")
		var b []byte
		if v != "-" {
			b, _ = hex.DecodeString(v)
		}
		mDecode = unpackText(b)
	default:
		dis("malformed outcome")

		return
	}
	if strings.HasPrefix(res.decode, "panic:") {
		return
	}
	if mDecode != res.decode {
		dis(fmt.Sprintf("real code decoded %q, Unpack of the model's slice gives %q", clip(res.decode), clip(mDecode)))
	}
	switch res.kind {
	case "short", "badsize", "readerr", "readfull":
		if mKind != res.kind {
			dis(fmt.Sprintf("real code rejected with %q, model says %q", res.kind, mOut[:min(len(mOut), 40)]))
		}
	case "unknown-residue":
		h.r.Count("note.unknown_residue")
	case "":
	default:
		if strings.HasPrefix(res.kind, "accept-error") || res.kind == "no-signal" {
			dis("real code: " + res.kind)
		}
	}
	// Residue the pooled buffer held when the message arrived.
	if res.sawBuf && res.kind != "unknown-residue" {
		var mb []byte
		if mRes != "-" {
			mb, _ = hex.DecodeString(mRes)
		}
		if hx(padTo(mb, 48)) != res.res48 {
			dis(fmt.Sprintf("pooled buffer held %s, model predicted %s", res.res48, mRes))
		}
	}
	if res.sawBuf && op.Path != pTCP && mLen != fmt.Sprint(res.bufLen) {
		dis(fmt.Sprintf("the receive path read into a pooled slice of length %d, model %s", res.bufLen, mLen))
	}
	if op.Path == pTCP && mCons != fmt.Sprint(res.consumed) {
		dis(fmt.Sprintf("real code consumed %d stream bytes, model %s", res.consumed, mCons))
	}
}

// ---------------------------------------------------------------------------
// Generators.

var namePool = []string{
	"a.", "example.org.", "victim-secret-name.example.com.", "x.y.z.example.net.",
	"aaaaaaaaaaaaaaaaaaaaaaaaaaaaaaaaaaaaaaaaaaaaaaaaaaaaaaaaaaaaaaa.bbbbbbbbbbbbbbbbbbbbbbbbbbbbbbbbbbbbbbbbbbbbbbbbbbbbbbbbbbbbbbb.ccccccccccccccccccccccccccccccccccccccccccccccccccccccccccccccc.example.",
	"mail.corp.internal.", "q.",
}

var typePool = []uint16{dns.TypeA, dns.TypeAAAA, dns.TypeTXT, dns.TypeANY, dns.TypeHTTPS, dns.TypeMX}

func genQuery(rng *rand.Rand) *dns.Msg {
	m := &dns.Msg{}
	m.SetQuestion(namePool[rng.IntN(len(namePool))], typePool[rng.IntN(len(typePool))])
	m.Id = uint16(rng.IntN(4))
	switch rng.IntN(6) {
	case 0:
		m.SetEdns0(uint16(512+rng.IntN(4096)), rng.IntN(2) == 0)
	case 1:
		m.SetEdns0(1232, false)
		opt := m.IsEdns0()
		opt.Option = append(opt.Option, &dns.EDNS0_PADDING{Padding: make([]byte, rng.IntN(40))})
	case 2:
		m.SetEdns0(1232, false)
		opt := m.IsEdns0()
		opt.Option = append(opt.Option, &dns.EDNS0_COOKIE{Code: dns.EDNS0COOKIE, Cookie: "0102030405060708"})
	}

	return m
}

func genReply(rng *rand.Rand, req *dns.Msg) *dns.Msg {
	m := new(dns.Msg).SetReply(req)
	q := req.Question[0]
	k := rng.IntN(5)
	for i := 0; i < k; i++ {
		switch rng.IntN(3) {
		case 0:
			m.Answer = append(m.Answer, &dns.A{
				Hdr: dns.RR_Header{Name: q.Name, Rrtype: dns.TypeA, Class: dns.ClassINET, Ttl: 60},
				A:   net.IPv4(10, byte(rng.IntN(3)), 0, byte(1+i)),
			})
		case 1:
			m.Answer = append(m.Answer, &dns.TXT{
				Hdr: dns.RR_Header{Name: q.Name, Rrtype: dns.TypeTXT, Class: dns.ClassINET, Ttl: 60},
				Txt: []string{strings.Repeat("s", rng.IntN(120))},
			})
		default:
			m.Answer = append(m.Answer, &dns.CNAME{
				Hdr:    dns.RR_Header{Name: q.Name, Rrtype: dns.TypeCNAME, Class: dns.ClassINET, Ttl: 60},
				Target: namePool[rng.IntN(len(namePool))],
			})
		}
	}
	if rng.IntN(4) == 0 {
		m.Compress = true
	}

	return m
}

func mustPack(m *dns.Msg) []byte {
	b, err := m.Pack()
	hlib.Must(err)

	return b
}

var cutPoints = []int{0, 1, 2, 3, 10, 11, 12, 13, 14, 15, 16, 17, 18}

// mutate turns a well-formed message into a short or inconsistent one.
func mutate(rng *rand.Rand, b []byte, class int) (out []byte, name string) {
	out = bytes.Clone(b)
	setCount := func(off int, v uint16) {
		if len(out) >= off+2 {
			binary.BigEndian.PutUint16(out[off:], v)
		}
	}
	switch class {
	case 0:
		return out, "valid"
	case 1:
		cut := rng.IntN(len(out) + 1)
		if rng.IntN(2) == 0 {
			cut = min(cutPoints[rng.IntN(len(cutPoints))], len(out))
		} else if rng.IntN(3) == 0 {
			cut = max(0, len(out)-1-rng.IntN(4))
		}

		return out[:cut], "truncated"
	case 2:
		off := 4 + 2*rng.IntN(4)
		vals := []uint16{1, 2, 3, 7, 0xffff}
		setCount(off, binary.BigEndian.Uint16(out[off:])+vals[rng.IntN(len(vals))])

		return out, "counts-exceed-content"
	case 3:
		// Header only (or header + question) that declares records it does
		// not carry: the witness class of the property.
		keep := 12
		if rng.IntN(2) == 0 {
			keep = len(out)
		}
		out = out[:min(keep, len(out))]
		if keep == 12 {
			setCount(4, uint16(1+rng.IntN(2)))
		}
		if rng.IntN(2) == 0 {
			setCount(6, uint16(1+rng.IntN(3)))
		}
		if rng.IntN(3) == 0 {
			setCount(8, 1)
		}
		if rng.IntN(3) == 0 {
			setCount(10, 1)
		}

		return out, "header-declares-missing-records"
	case 4:
		g := make([]byte, 1+rng.IntN(30))
		for i := range g {
			g[i] = byte(rng.IntN(256))
		}

		return append(out, g...), "trailing-garbage"
	case 5:
		g := make([]byte, rng.IntN(60))
		for i := range g {
			g[i] = byte(rng.IntN(256))
		}
		if len(g) >= 12 && rng.IntN(2) == 0 {
			// Plausible header so that the parser gets past it.
			copy(g[2:12], []byte{1, 0, 0, 1, 0, 0, 0, 0, 0, 0})
		}

		return g, "random-bytes"
	case 6:
		// Question name replaced by a compression pointer past the end of
		// the message (into whatever follows it in the buffer).
		if len(out) < 12 {
			return out, "valid"
		}
		target := len(out) + rng.IntN(40)
		if rng.IntN(2) == 0 {
			target = 12 + 2 + 4 + rng.IntN(8)
		}
		q := []byte{0xC0 | byte(target>>8&0x3f), byte(target), 0, 1, 0, 1}
		out = append(out[:12:12], q...)
		setCount(4, 1)
		setCount(6, 0)
		setCount(8, 0)
		setCount(10, 0)

		return out, "pointer-past-end"
	default:
		if len(out) > 0 {
			out[rng.IntN(len(out))] ^= byte(1 << rng.IntN(8))
		}

		return out, "bit-flip"
	}
}

var chunkPool = [][]int{nil, {1}, {2}, {1, 2, 3}, {5}, {7, 1}, {100000}}

// frame wraps a DNS message for the given path; mangle ≠ 0 breaks the framing.
func frame(rng *rand.Rand, path string, msg []byte, mangle int) (wire []byte, note string) {
	switch path {
	case pTCP, pDoQ, pUpsTCP:
		l := len(msg)
		switch mangle {
		case 1:
			l += 1 + rng.IntN(3)
			note = "+prefix-too-large"
		case 2:
			l = max(0, l-1-rng.IntN(3))
			note = "+prefix-too-small"
		case 3:
			l = 0
			note = "+prefix-zero"
		case 4:
			l = 0xffff
			note = "+prefix-max"
		case 5:
			return msg[:min(len(msg), rng.IntN(2))], "+no-prefix"
		}
		wire = append(binary.BigEndian.AppendUint16(nil, uint16(l)), msg...)
		if mangle == 6 {
			wire = append(wire, msg...)
			note = "+second-message-follows"
		}

		return wire, note
	}

	return msg, ""
}

func (h *harness) genOp(rng *rand.Rand, path string, adversarial bool, poolLen int) *opSpec {
	op := &opSpec{Path: path, Pick: -1}
	class := 0
	if adversarial {
		class = 1 + rng.IntN(7)
		if rng.IntN(3) == 0 {
			class = 3
		}
	} else if rng.IntN(5) == 0 {
		class = 1 + rng.IntN(7)
	}
	var msg []byte
	switch path {
	case pUpsUDP, pUpsTCP:
		req := genQuery(rng)
		op.req = mustPack(req)
		reply := genReply(rng, req)
		if rng.IntN(8) == 0 {
			reply = genReply(rng, genQuery(rng))
		}
		msg, op.what = mutate(rng, mustPack(reply), class)
		if poolLen > 0 && rng.IntN(8) != 0 {
			op.Pick = rng.IntN(poolLen)
		}
	default:
		msg, op.what = mutate(rng, mustPack(genQuery(rng)), class)
	}
	mangle := 0
	if rng.IntN(6) == 0 {
		mangle = 1 + rng.IntN(6)
	}
	var note string
	op.wire, note = frame(rng, path, msg, mangle)
	op.what += note
	switch path {
	case pTCP, pDoQ, pUpsTCP:
		op.Chunks = chunkPool[rng.IntN(len(chunkPool))]
		op.Fail = rng.IntN(10) == 0
	}
	switch path {
	case pDoQ:
		op.Mode = []string{"read", "serve"}[rng.IntN(2)]
	case pDoH:
		op.Mode = []string{"post", "get"}[rng.IntN(2)]
	}
	// Response writes that fail (the client is gone, a firewall refuses the
	// datagram, the write deadline passes): every fifth message of a history,
	// fewer of the next messages.
	switch path {
	case pUDP, pTCP, pDoQ, pDoH:
		if rng.IntN(5) == 0 && (!adversarial || rng.IntN(2) == 0) {
			op.WFail = wfaultKinds[rng.IntN(len(wfaultKinds))]
			op.WFailN = rng.IntN(2)
		}
	}

	return op.fill()
}

func genSizes(rng *rand.Rand) [2]int {
	u := []int{12, 20, 40, 64, 512, 1232}
	t := []int{1, 16, 64, 512}

	return [2]int{u[rng.IntN(len(u))], t[rng.IntN(len(t))]}
}

func (h *harness) randomCampaign() {
	rng := h.o.Rand("random")
	n := 2600
	if h.o.Thorough() {
		n = 40000
	}
	for i := 0; i < n; i++ {
		path := allPaths[rng.IntN(len(allPaths))]
		cs := &caseSpec{Sizes: genSizes(rng)}
		k := rng.IntN(9)
		for j := 0; j < k; j++ {
			p := path
			if rng.IntN(6) == 0 {
				p = allPaths[rng.IntN(len(allPaths))]
			}
			nUps := 0
			for _, e := range cs.History {
				if e.Path == p {
					nUps++
				}
			}
			cs.History = append(cs.History, h.genOp(rng, p, false, min(nUps, 3)))
		}
		nUps := 0
		for _, e := range cs.History {
			if e.Path == path {
				nUps++
			}
		}
		cs.Next = h.genOp(rng, path, rng.IntN(4) != 0, min(nUps, 3))
		cs.Class = cs.Next.what
		h.checked(cs)
	}
}

// boundaryCampaign: messages at and beyond the buffer sizes (DoQ stream that
// fills the 65535-byte buffer, datagrams longer than the UDP buffers, maximal
// TCP lengths), each after one ordinary message.
func (h *harness) boundaryCampaign() {
	rng := h.o.Rand("boundary")
	q := mustPack(genQuery(rng))
	padded := func(n int, fill byte) []byte {
		b := bytes.Repeat([]byte{fill}, n)
		copy(b, q)

		return b
	}
	run := func(path string, wire []byte, req []byte, what string) {
		prevMsg := mustPack(genQuery(rng))
		var prevReq []byte
		if req != nil {
			r0 := genQuery(rng)
			prevReq = mustPack(r0)
			prevMsg = mustPack(genReply(rng, r0))
		}
		prev, _ := frame(rng, path, prevMsg, 0)
		mode := ""
		if path == pDoQ {
			mode = []string{"read", "serve"}[rng.IntN(2)]
		}
		cs := &caseSpec{
			Sizes:   [2]int{40, 16},
			History: []*opSpec{(&opSpec{Path: path, Mode: mode, wire: prev, req: prevReq, Pick: -1, what: "valid"}).fill()},
			Next:    (&opSpec{Path: path, Mode: mode, wire: wire, req: req, Pick: 0, what: what}).fill(),
			Class:   "boundary",
		}
		h.r.Count("boundary." + path)
		h.checked(cs)
	}
	for _, total := range []int{65533, 65534, 65535, 65536, 65537, 70000} {
		for _, pfx := range []int{total - 2, 65533, 65535} {
			w := append(binary.BigEndian.AppendUint16(nil, uint16(pfx)), padded(total-2, 0)...)
			run(pDoQ, w, nil, fmt.Sprintf("stream of %d bytes, prefix %d", total, uint16(pfx)))
		}
	}
	for _, n := range []int{39, 40, 41, 100} {
		run(pUDP, padded(n, 0), nil, fmt.Sprintf("%d-byte datagram into a 40-byte buffer", n))
	}
	for _, n := range []int{15, 16, 17, 65535} {
		w := append(binary.BigEndian.AppendUint16(nil, uint16(n)), padded(max(n, len(q)), 0)[:n]...)
		run(pTCP, w, nil, fmt.Sprintf("tcp message of announced length %d into a 16-byte pooled buffer", n))
	}
	req := genQuery(rng)
	rep := mustPack(genReply(rng, req))
	for _, n := range []int{4095, 4096, 4097, 5000} {
		b := make([]byte, n)
		copy(b, rep)
		run(pUpsUDP, b, mustPack(req), fmt.Sprintf("%d-byte upstream datagram", n))
	}
	for _, n := range []int{16, 17, 65534, 65535} {
		b := make([]byte, n)
		copy(b, rep)
		run(pUpsTCP, append(binary.BigEndian.AppendUint16(nil, uint16(n)), b...), mustPack(req),
			fmt.Sprintf("upstream tcp reply of announced length %d", n))
	}
}

// checked runs a case and, when it violates the property, shrinks the history
// before recording it.
func (h *harness) checked(cs *caseSpec) {
	sigs := h.runCase(cs, true, false)
	if len(sigs) == 0 {
		return
	}
	want := sigs[0]
	small := hlib.Shrink(cs.History, func(hist []*opSpec) bool {
		for _, s := range h.runCase(&caseSpec{Sizes: cs.Sizes, History: hist, Next: cs.Next, Class: cs.Class}, false, false) {
			if s == want {
				return true
			}
		}

		return false
	})
	if len(cs.History) >= 2 || len(small) < len(cs.History) {
		cs = &caseSpec{Sizes: cs.Sizes, History: small, Next: cs.Next, Class: cs.Class}
	}
	h.runCase(cs, false, true)
}

// witnesses replays the two inputs of DESIGN.md section 6 (S2, S3) and the
// Lean counter-example witnesses on the real code.
func (h *harness) witnesses() {
	q := &dns.Msg{}
	q.SetQuestion("victim-secret-name.example.com.", dns.TypeA)
	q.Id = 0
	qb := mustPack(q)
	hdr := []byte{0, 0, 1, 0, 0, 1, 0, 0, 0, 0, 0, 0}
	for _, mode := range []string{"read", "serve"} {
		prev, _ := frame(nil, pDoQ, qb, 0)
		next, _ := frame(nil, pDoQ, hdr, 0)
		cs := &caseSpec{
			Sizes:   [2]int{512, 512},
			History: []*opSpec{(&opSpec{Path: pDoQ, Mode: mode, wire: prev, Pick: -1, what: "valid"}).fill()},
			Next:    (&opSpec{Path: pDoQ, Mode: mode, wire: next, Pick: -1, what: "14-byte message, QDCOUNT=1"}).fill(),
			Class:   "header-declares-missing-records",
		}
		h.r.Count("witness.doq_14_byte")
		h.checked(cs)
	}
	// Upstream: an older, longer reply to the same question; then a reply that
	// is header + question with ANCOUNT = 1 and no answer bytes.
	full := new(dns.Msg).SetReply(q)
	full.Answer = append(full.Answer, &dns.A{
		Hdr: dns.RR_Header{Name: q.Question[0].Name, Rrtype: dns.TypeA, Class: dns.ClassINET, Ttl: 300},
		A:   net.IPv4(10, 66, 66, 66),
	})
	fb := mustPack(full)
	short := mustPack(new(dns.Msg).SetReply(q))
	binary.BigEndian.PutUint16(short[6:], 1)
	for _, p := range []string{pUpsUDP, pUpsTCP} {
		prev, _ := frame(nil, p, fb, 0)
		next, _ := frame(nil, p, short, 0)
		cs := &caseSpec{
			Sizes:   [2]int{512, 512},
			History: []*opSpec{(&opSpec{Path: p, wire: prev, req: qb, Pick: -1, what: "valid"}).fill()},
			Next:    (&opSpec{Path: p, wire: next, req: qb, Pick: 0, what: "header+question, ANCOUNT=1, no answer bytes"}).fill(),
			Class:   "header-declares-missing-records",
		}
		h.r.Count("witness.upstream_ancount")
		h.checked(cs)
	}
}

// exhaustiveTruncation: for a few base messages, every cut offset and every
// single count bumped, on every path, after a history of longer messages.
func (h *harness) exhaustiveTruncation() {
	rng := h.o.Rand("exhaustive")
	bases, bumps := 1, 3
	if h.o.Thorough() {
		bases, bumps = 8, 5
	}
	for _, path := range allPaths {
		for bi := 0; bi < bases; bi++ {
			var base, reqb []byte
			var hist []*opSpec
			req := genQuery(rng)
			reqb = mustPack(req)
			mk := func(msg []byte, what string, pick int) *opSpec {
				op := &opSpec{Path: path, Pick: pick, what: what}
				op.wire, _ = frame(rng, path, msg, 0)
				switch path {
				case pUpsUDP, pUpsTCP:
					op.req = reqb
				case pDoQ:
					op.Mode = []string{"read", "serve"}[bi%2]
				case pDoH:
					op.Mode = []string{"post", "get"}[bi%2]
				}

				return op.fill()
			}
			switch path {
			case pUpsUDP, pUpsTCP:
				rep := genReply(rng, req)
				for len(rep.Answer) == 0 {
					rep = genReply(rng, req)
				}
				base = mustPack(rep)
			default:
				base = reqb
			}
			hist = []*opSpec{mk(append(bytes.Clone(base), bytes.Repeat([]byte{0xAB}, 8)...), "valid+garbage", -1), mk(base, "valid", 0)}
			for cut := 0; cut <= len(base); cut++ {
				for bump := 0; bump < bumps; bump++ {
					msg := bytes.Clone(base[:cut])
					what := fmt.Sprintf("cut@%d", cut)
					if bump > 0 {
						off := 4 + 2*(bump-1)
						if len(msg) < off+2 {
							continue
						}
						binary.BigEndian.PutUint16(msg[off:], binary.BigEndian.Uint16(msg[off:])+1)
						what += fmt.Sprintf("+count%d", bump)
					}
					cs := &caseSpec{Sizes: [2]int{512, 64}, History: hist, Next: mk(msg, what, 0), Class: "exhaustive-cut"}
					h.checked(cs)
				}
			}
		}
	}
	h.r.Count("exhaustive.all_cuts_all_counts_done")
}

// ---------------------------------------------------------------------------
// Bursts: several messages are accepted (read into pooled buffers) before the
// workers that decode them run, or while another stream is still being read.
// The oracle checks every message of the burst against its own bytes and
// against a freshly started server; the correspondence drives the concurrent
// model (acc = Get+read+guards, srv = worker) with the buffer identities the
// fakes observed.

type burstMsg struct {
	Wire   string `json:"wire"`
	Yield  bool   `json:"yield,omitempty"` // let the workers run after this accept
	GateAt int    `json:"gate_at,omitempty"`
	What   string `json:"what"`
	wire   []byte
}

type burstSpec struct {
	Path   string        `json:"path"`
	Mode   string        `json:"mode"` // conns | pipeline | gated
	Sizes  [2]int        `json:"sizes"`
	Bursts [][]*burstMsg `json:"bursts"`
}

func (b *burstSpec) canon() string {
	var sb strings.Builder
	fmt.Fprintf(&sb, "burst %s %s %v", b.Path, b.Mode, b.Sizes)
	for _, bu := range b.Bursts {
		sb.WriteString(" |")
		for _, m := range bu {
			fmt.Fprintf(&sb, " %s/%v/%d", m.Wire, m.Yield, m.GateAt)
		}
	}

	return sb.String()
}

type bufEntry struct {
	content []byte
	held    bool
	rid     int
}

type burstObs struct {
	decode   string
	resp     string
	rejected bool // dropped before a worker was started
	rid      int
}

// bufTable tracks buffer identities by content, the way the fakes see them.
type bufTable struct {
	entries []*bufEntry
	lines   []string
	unknown bool
}

// pick returns the identity of the buffer whose capacity contents are seen.
func (t *bufTable) pick(seen []byte) (id int) {
	for i, e := range t.entries {
		if !e.held && eqZeroPadded(e.content, seen) {
			return i
		}
	}
	for i, e := range t.entries {
		if e.held && eqZeroPadded(e.content, seen) {
			// The real code got a buffer the bookkeeping still considers in
			// flight: its worker has finished (or the pool discipline is
			// broken; then the oracle speaks).
			t.lines = append(t.lines, fmt.Sprintf("srv %d", e.rid))
			e.held = false

			return i
		}
	}
	if !allZero(seen) {
		t.unknown = true
	}
	t.entries = append(t.entries, &bufEntry{content: make([]byte, len(seen))})

	return len(t.entries) - 1
}

func addrFor(rid int) *net.UDPAddr {
	return &net.UDPAddr{IP: net.IPv4(127, 0, 1, 9), Port: 10000 + rid}
}

func addrForTCP(rid int) *net.TCPAddr {
	return &net.TCPAddr{IP: net.IPv4(127, 0, 1, 9), Port: 10000 + rid}
}

// runBurstReal executes the bursts on a warmed instance and returns what was
// observed per message (in order) plus the model lines.
func (h *harness) runBurstReal(bs *burstSpec) (obs []*burstObs, lines []string, unknown bool, panics []string) {
	sz := sizes{bs.Sizes[0], bs.Sizes[1]}
	in := newInst(sz)
	defer in.close()
	in.need(bs.Path)
	tab := &bufTable{}
	lines = []string{fmt.Sprintf("init %d %d %d %d %d", sz.udp, sz.tcp, doqSize,
		forward.VerifC06BufSize(forward.NetworkUDP), forward.VerifC06BufSize(forward.NetworkTCP))}
	// guard turns a panic of the code under test into an observation.
	guard := func(f func()) {
		defer func() {
			if v := recover(); v != nil {
				panics = append(panics, fmt.Sprintf("panic:%v", v))
			}
		}()
		f()
	}
	rid := 0
	for _, burst := range bs.Bursts {
		in.rec.reset()
		first := rid + 1
		type live struct {
			o   *burstObs
			pc  *fakePacketConn
			st  *byteStream
			ent *bufEntry
		}
		var lv []*live
		expect := 0
		switch {
		case bs.Path == pUDP:
			for _, m := range burst {
				rid++
				o := &burstObs{rid: rid, decode: "invalid"}
				c := &fakePacketConn{wire: m.wire, raddr: addrFor(rid)}
				err := fmt.Errorf("panicked")
				guard(func() { err = dnsserver.VerifC06AcceptUDPMsg(context.Background(), in.dnsSrv, c) })
				n := min(len(m.wire), sz.udp)
				id := tab.pick(c.spy.before)
				e := tab.entries[id]
				e.content = bytes.Clone(c.spy.ref)
				tab.lines = append(tab.lines, fmt.Sprintf("acc %d udp %d - %s", rid, id, hx(m.wire)))
				if err != nil || n < 12 {
					o.rejected = true
				} else {
					e.held, e.rid = true, rid
					expect++
				}
				lv = append(lv, &live{o: o, pc: c, ent: e})
				if m.Yield {
					settle()
				}
			}
		case bs.Path == pTCP && bs.Mode == "conns":
			var tcs []*dnsserver.VerifC06TCPConn
			for _, m := range burst {
				rid++
				o := &burstObs{rid: rid, decode: "invalid"}
				st := &byteStream{stream: m.wire, skip: 2, raddr: addrForTCP(rid)}
				tc := dnsserver.VerifC06NewTCPConn()
				tcs = append(tcs, tc)
				err := fmt.Errorf("panicked")
				guard(func() { err = dnsserver.VerifC06AcceptTCPMsg(in.dnsSrv, fakeTCPConn{st}, tc, time.Second) })
				var id int
				if st.spy.got {
					id = tab.pick(st.spy.before)
				} else {
					// Nothing was read into a pooled buffer (no length prefix,
					// or length 0): any unused identity will do for the model.
					tab.entries = append(tab.entries, &bufEntry{content: make([]byte, sz.tcp)})
					id = len(tab.entries) - 1
				}
				e := tab.entries[id]
				if st.spy.got {
					e.content = bytes.Clone(st.spy.ref)
				}
				tab.lines = append(tab.lines, fmt.Sprintf("acc %d tcp %d - %s", rid, id, hx(m.wire)))
				if err != nil {
					o.rejected = true
				} else {
					e.held, e.rid = true, rid
				}
				lv = append(lv, &live{o: o, st: st, ent: e})
				if m.Yield {
					settle()
				}
			}
			for _, tc := range tcs {
				tc.Wait()
			}
		case bs.Path == pTCP && bs.Mode == "pipeline":
			// All messages of the burst arrive back to back on ONE connection.
			var all []byte
			for _, m := range burst {
				all = append(all, m.wire...)
			}
			st := &byteStream{stream: all, raddr: addrForTCP(rid + 1)}
			tc := dnsserver.VerifC06NewTCPConn()
			for range burst {
				rid++
				o := &burstObs{rid: rid, decode: "invalid"}
				spyBefore := st.spy
				st.spy = bufSpy{}
				st.skip = st.off + 2
				off0 := st.off
				err := fmt.Errorf("panicked")
				guard(func() { err = dnsserver.VerifC06AcceptTCPMsg(in.dnsSrv, fakeTCPConn{st}, tc, time.Second) })
				_ = spyBefore
				var id int
				if st.spy.got {
					id = tab.pick(st.spy.before)
				} else {
					tab.entries = append(tab.entries, &bufEntry{content: make([]byte, sz.tcp)})
					id = len(tab.entries) - 1
				}
				e := tab.entries[id]
				if st.spy.got {
					e.content = bytes.Clone(st.spy.ref)
				}
				// The model op gets exactly the bytes this accept consumed plus
				// whatever follows (it stops at the announced length itself).
				tab.lines = append(tab.lines, fmt.Sprintf("acc %d tcp %d - %s", rid, id, hx(all[off0:])))
				if err != nil {
					o.rejected = true
				} else {
					e.held, e.rid = true, rid
				}
				lv = append(lv, &live{o: o, st: st, ent: e})
			}
			tc.Wait()
		case bs.Path == pDoQ:
			// The first message of the burst pauses at GateAt while the others
			// are received completely.
			type doqRes struct {
				msg *dns.Msg
				err error
			}
			m0 := burst[0]
			rid++
			o0 := &burstObs{rid: rid, decode: "invalid"}
			st0 := &byteStream{stream: m0.wire, gateAt: m0.GateAt, gate: make(chan struct{}), reached: make(chan struct{})}
			done := make(chan doqRes, 1)
			go func() {
				defer func() {
					if v := recover(); v != nil {
						done <- doqRes{err: fmt.Errorf("panic:%v", v)}
					}
				}()
				msg, err := dnsserver.VerifC06ReadQUICMsg(srvCtx, in.doq, fakeQUICStream{byteStream: st0})
				done <- doqRes{msg, err}
			}()
			var r0 *doqRes
			select {
			case <-st0.reached:
			case r := <-done:
				r0 = &r
			case <-time.After(5 * time.Second):
			}
			id0 := tab.pick(st0.spy.before)
			e0 := tab.entries[id0]
			e0.content = bytes.Clone(st0.spy.ref)
			e0.held, e0.rid = true, o0.rid
			tab.lines = append(tab.lines, fmt.Sprintf("acc %d doq %d - %s", o0.rid, id0, hx(m0.wire)))
			lv = append(lv, &live{o: o0, st: st0, ent: e0})
			for _, m := range burst[1:] {
				rid++
				o := &burstObs{rid: rid, decode: "invalid"}
				st := &byteStream{stream: m.wire}
				var msg *dns.Msg
				err := fmt.Errorf("panicked")
				guard(func() { msg, err = dnsserver.VerifC06ReadQUICMsg(srvCtx, in.doq, fakeQUICStream{byteStream: st}) })
				if err == nil {
					o.decode = msgText(msg)
				}
				id := tab.pick(st.spy.before)
				e := tab.entries[id]
				e.content = bytes.Clone(st.spy.ref)
				tab.lines = append(tab.lines, fmt.Sprintf("acc %d doq %d - %s", rid, id, hx(m.wire)), fmt.Sprintf("srv %d", rid))
				lv = append(lv, &live{o: o, st: st, ent: e})
			}
			if r0 == nil {
				close(st0.gate)
				select {
				case r := <-done:
					r0 = &r
				case <-time.After(5 * time.Second):
					r0 = &doqRes{err: fmt.Errorf("panic:stream reader never returned")}
				}
			}
			if r0.err == nil {
				o0.decode = msgText(r0.msg)
			} else if strings.HasPrefix(r0.err.Error(), "panic:") {
				panics = append(panics, r0.err.Error())
			}
			e0.content = bytes.Clone(st0.spy.ref)
		}
		for i := 0; i < expect; i++ {
			if !waitSignal(in.rec) {
				break
			}
		}
		settle()
		panics = append(panics, in.rec.panics...)
		for _, l := range lv {
			if bs.Path != pDoQ {
				var addr string
				if l.pc != nil {
					addr = l.pc.raddr.String()
					l.o.resp = respText(l.pc.wrote, false, "")
				} else {
					addr = l.st.raddr.String()
					l.o.resp = respText(l.st.wrote, true, "")
				}
				if bs.Mode != "pipeline" {
					if d, ok := in.rec.byAddr[addr]; ok {
						l.o.decode = d
					}
				}
			}
			if l.ent.held && l.ent.rid == l.o.rid {
				tab.lines = append(tab.lines, fmt.Sprintf("srv %d", l.o.rid))
				l.ent.held = false
			}
			obs = append(obs, l.o)
		}
		if bs.Mode == "pipeline" {
			// One connection: decodes cannot be attributed to messages by
			// address; keep them as the sorted multiset of the burst.
			got := append([]string{}, in.rec.reqs...)
			for len(got) < len(burst) {
				got = append(got, "invalid")
			}
			sortStrings(got)
			for i := range burst {
				obs[first-1+i].decode = got[i]
			}
		}
	}

	return obs, append(lines, tab.lines...), tab.unknown, panics
}

func sortStrings(a []string) {
	for i := 1; i < len(a); i++ {
		for j := i; j > 0 && a[j] < a[j-1]; j-- {
			a[j], a[j-1] = a[j-1], a[j]
		}
	}
}

// runBurst checks one burst case.  Returns the violation signatures.
func (h *harness) runBurst(bs *burstSpec, record, report bool) (sigs []string) {
	r := h.r
	sz := sizes{bs.Sizes[0], bs.Sizes[1]}
	for _, bu := range bs.Bursts {
		for _, m := range bu {
			if m.wire == nil && m.Wire != "" {
				m.wire, _ = hex.DecodeString(m.Wire)
			}
			m.Wire = hex.EncodeToString(m.wire)
		}
	}
	obs, lines, unknown, panics := h.runBurstReal(bs)
	violate := func(kind, what string) {
		sig := bs.Path + "-" + kind
		sigs = append(sigs, sig)
		if report {
			r.Violate(sig, what, bs)
		}
	}
	if len(panics) > 0 {
		violate("panic", fmt.Sprintf("%s: receive path panicked during a burst: %s", bs.Path, clip(panics[0])))
	}
	// Oracle: every message against its own bytes and a freshly started server.
	mode := ""
	if bs.Path == pDoQ {
		mode = "read"
	}
	var flat []*burstMsg
	var burstOf []int
	for bi, bu := range bs.Bursts {
		for _, m := range bu {
			flat = append(flat, m)
			burstOf = append(burstOf, bi)
		}
	}
	own := make([]string, len(flat))
	for i, m := range flat {
		own[i] = ownBytes(&opSpec{Path: bs.Path, wire: m.wire}, sz)
	}
	if bs.Mode == "pipeline" {
		// Compare per burst as multisets.
		start := 0
		for _, bu := range bs.Bursts {
			want := append([]string{}, own[start:start+len(bu)]...)
			// A framing error ends the connection: later messages of the
			// same stream are legitimately never read.
			for i, m := range bu {
				if len(m.wire) < 2 || int(binary.BigEndian.Uint16(m.wire)) != len(m.wire)-2 {
					for j := i; j < len(bu); j++ {
						want[j] = "invalid"
					}

					break
				}
			}
			sortStrings(want)
			for i := range bu {
				if obs[start+i].decode != want[i] {
					violate("concurrent-decode-mixup", fmt.Sprintf(
						"tcp pipeline: %d messages back to back on one connection are decoded as %q, their own bytes decode as %q",
						len(bu), clip(obs[start+i].decode), clip(want[i])))

					break
				}
			}
			start += len(bu)
		}
	} else {
		for i, m := range flat {
			o := obs[i]
			if o.decode != own[i] {
				violate("concurrent-decode-mixup", fmt.Sprintf(
					"%s (%s): message %d of a burst of %d (%s) is decoded as %q while other messages were in flight, but its own bytes alone decode as %q",
					bs.Path, m.What, i+1, len(bs.Bursts[burstOf[i]]), clipHex(m.wire), clip(o.decode), clip(own[i])))

				break
			}
			if bs.Path == pDoQ {
				continue
			}
			fresh := newInst(sz)
			fres := fresh.exec((&opSpec{Path: bs.Path, Mode: mode, wire: m.wire, Pick: -1}).fill())
			fresh.close()
			if fres.decode == o.decode && stripClosed(fres.resp) != o.resp {
				violate("concurrent-response-mixup", fmt.Sprintf(
					"%s (%s): the answer to message %d of a burst (%s) is %q, a freshly started server answers %q",
					bs.Path, m.What, i+1, clipHex(m.wire), clip(o.resp), clip(stripClosed(fres.resp))))

				break
			}
		}
	}
	if !record {
		return sigs
	}
	// Correspondence with the concurrent model.
	h.m.ResetLog()
	answers := h.m.Batch(lines)[1:]
	h.modelOps += len(lines)
	final := map[int]string{}
	for i, l := range lines[1:] {
		f := strings.Fields(l)
		a := strings.Fields(answers[i])
		switch f[0] {
		case "acc":
			if len(a) != 3 {
				r.Disagree(bs.Path+"-burst-model", fmt.Sprintf("malformed answer %q to %q", answers[i], clip(l)), bs)

				continue
			}
			if a[2] != "pending" {
				final[atoi(f[1])] = a[2]
			}
		case "srv":
			if _, ok := final[atoi(f[1])]; !ok || strings.HasPrefix(answers[i], "view:") {
				final[atoi(f[1])] = answers[i]
			}
		}
	}
	if !unknown && bs.Mode != "pipeline" {
		for i, o := range obs {
			md := "invalid"
			if v, ok := strings.CutPrefix(final[o.rid], "view:"); ok {
				var b []byte
				if v != "-" {
					b, _ = hex.DecodeString(v)
				}
				md = unpackText(b)
			} else if final[o.rid] == "ignored" || final[o.rid] == "none" || final[o.rid] == "" {
				md = "model:" + final[o.rid]
			}
			if md != o.decode && !strings.HasPrefix(o.decode, "panic:") {
				r.Disagree(bs.Path+"-burst-model", fmt.Sprintf(
					"burst message %d (%s): real code decoded %q, the concurrent model gives %q (%s)",
					i+1, clipHex(flat[i].wire), clip(o.decode), clip(md), clip(final[o.rid])), bs)

				break
			}
		}
	} else if unknown {
		r.Count("note.burst_unknown_residue")
	}
	inflight := 0
	for _, bu := range bs.Bursts {
		inflight = max(inflight, len(bu))
	}
	r.Case(bs.canon(), inflight > 1)
	r.Traces++
	r.Count("burst." + bs.Path + "." + bs.Mode)
	r.Count(fmt.Sprintf("burst.inflight%d", inflight))
	if inflight > 1 {
		r.Sample(map[string]any{"path": bs.Path, "mode": bs.Mode, "bursts": len(bs.Bursts), "in_flight": inflight,
			"model_lines": len(lines)}, 9)
	}

	return sigs
}

func atoi(s string) (n int) {
	_, _ = fmt.Sscan(s, &n)

	return n
}

// stripClosed drops the connection-state suffix exec adds to TCP responses.
func stripClosed(s string) string {
	if i := strings.LastIndex(s, "/closed="); i >= 0 {
		return s[:i+1]
	}
	if strings.HasPrefix(s, "closed=") {
		return ""
	}

	return s
}

func (h *harness) checkedBurst(bs *burstSpec) {
	sigs := h.runBurst(bs, true, false)
	if len(sigs) == 0 {
		return
	}
	want := sigs[0]
	small := hlib.Shrink(bs.Bursts, func(b [][]*burstMsg) bool {
		if len(b) == 0 {
			return false
		}
		for _, s := range h.runBurst(&burstSpec{Path: bs.Path, Mode: bs.Mode, Sizes: bs.Sizes, Bursts: b}, false, false) {
			if s == want {
				return true
			}
		}

		return false
	})
	if len(small) > 0 {
		bs = &burstSpec{Path: bs.Path, Mode: bs.Mode, Sizes: bs.Sizes, Bursts: small}
	}
	h.runBurst(bs, false, true)
}

func (h *harness) genBurstMsg(rng *rand.Rand, path string, mangled bool) *burstMsg {
	class := 0
	if rng.IntN(3) == 0 {
		class = 1 + rng.IntN(7)
	}
	msg, what := mutate(rng, mustPack(genQuery(rng)), class)
	mangle := 0
	if mangled && rng.IntN(10) == 0 {
		mangle = 1 + rng.IntN(5)
	}
	wire, note := frame(rng, path, msg, mangle)

	return &burstMsg{wire: wire, What: what + note, Yield: rng.IntN(4) == 0}
}

func (h *harness) burstCampaign() {
	rng := h.o.Rand("burst")
	n := 500
	if h.o.Thorough() {
		n = 12000
	}
	modes := []struct{ path, mode string }{{pUDP, "conns"}, {pUDP, "conns"}, {pTCP, "conns"}, {pTCP, "pipeline"}, {pDoQ, "gated"}}
	for i := 0; i < n; i++ {
		pm := modes[rng.IntN(len(modes))]
		bs := &burstSpec{Path: pm.path, Mode: pm.mode, Sizes: genSizes(rng)}
		nb := 1 + rng.IntN(3)
		for b := 0; b < nb; b++ {
			k := 1 + rng.IntN(4)
			if b == nb-1 {
				k = 2 + rng.IntN(3)
			}
			var burst []*burstMsg
			for j := 0; j < k; j++ {
				// On one pipelined connection a framing error shifts every later
				// message; there the frames stay consistent.
				m := h.genBurstMsg(rng, pm.path, pm.mode != "pipeline")
				if pm.mode == "gated" && j == 0 {
					m.GateAt = 1 + rng.IntN(max(1, len(m.wire)))
					if len(m.wire) == 0 {
						m.GateAt = 0
					}
				}
				burst = append(burst, m)
			}
			bs.Bursts = append(bs.Bursts, burst)
		}
		h.checkedBurst(bs)
	}
	if h.o.Thorough() {
		h.exhaustiveSchedules()
	}
}

// exhaustiveSchedules: three fixed datagrams/streams, every subset of yield
// points and every order, after every one of them as warm-up.
func (h *harness) exhaustiveSchedules() {
	rng := h.o.Rand("schedules")
	q := func(name string) []byte {
		m := &dns.Msg{}
		m.SetQuestion(name, dns.TypeA)
		m.Id = 0

		return mustPack(m)
	}
	base := [][]byte{q("victim-secret-name.example.com."), q("a."), {0, 0, 1, 0, 0, 1, 0, 0, 0, 0, 0, 0}}
	perms := [][]int{{0, 1, 2}, {0, 2, 1}, {1, 0, 2}, {1, 2, 0}, {2, 0, 1}, {2, 1, 0}}
	for _, pm := range []struct{ path, mode string }{{pUDP, "conns"}, {pTCP, "conns"}, {pTCP, "pipeline"}, {pDoQ, "gated"}} {
		for _, perm := range perms {
			for yields := 0; yields < 8; yields++ {
				for warm := 0; warm < 3; warm++ {
					w, _ := frame(rng, pm.path, base[warm], 0)
					bs := &burstSpec{Path: pm.path, Mode: pm.mode, Sizes: [2]int{64, 16},
						Bursts: [][]*burstMsg{{{wire: w, What: "warm-up"}}}}
					var burst []*burstMsg
					for j, pi := range perm {
						w, _ := frame(rng, pm.path, base[pi], 0)
						m := &burstMsg{wire: w, What: fmt.Sprintf("base%d", pi), Yield: yields>>j&1 == 1}
						if pm.mode == "gated" && j == 0 {
							m.GateAt = 1 + (yields*5)%len(w)
						}
						burst = append(burst, m)
					}
					bs.Bursts = append(bs.Bursts, burst)
					h.checkedBurst(bs)
				}
			}
		}
	}
	h.r.Count("exhaustive.schedules_3_messages_done")
}

// ---------------------------------------------------------------------------
// End to end: the public UpstreamPlain.Exchange against a scripted upstream on
// loopback sockets (real buffer pool, real packReq, real connection pool).

type scriptedUpstream struct {
	tcp   net.Listener
	udp   net.PacketConn
	reply func(nw string, req []byte) []byte
	// slowTCP, when set, may take over writing the reply to one TCP request
	// (returns true if it did).
	slowTCP func(c net.Conn, req []byte) bool
}

func newScriptedUpstream() (s *scriptedUpstream, err error) {
	for try := 0; try < 20; try++ {
		var l net.Listener
		l, err = net.Listen("tcp", "127.0.0.1:0")
		if err != nil {
			return nil, err
		}
		var u net.PacketConn
		u, err = net.ListenPacket("udp", l.Addr().String())
		if err != nil {
			_ = l.Close()

			continue
		}
		s = &scriptedUpstream{tcp: l, udp: u}
		go s.serveUDP()
		go s.serveTCP()

		return s, nil
	}

	return nil, err
}

func (s *scriptedUpstream) serveUDP() {
	buf := make([]byte, 65535)
	for {
		n, addr, err := s.udp.ReadFrom(buf)
		if err != nil {
			return
		}
		_, _ = s.udp.WriteTo(s.reply("udp", bytes.Clone(buf[:n])), addr)
	}
}

func (s *scriptedUpstream) serveTCP() {
	for {
		c, err := s.tcp.Accept()
		if err != nil {
			return
		}
		go func() {
			defer c.Close()
			for {
				var l uint16
				if binary.Read(c, binary.BigEndian, &l) != nil {
					return
				}
				req := make([]byte, l)
				if _, rerr := io.ReadFull(c, req); rerr != nil {
					return
				}
				if s.slowTCP != nil && s.slowTCP(c, req) {
					continue
				}
				rep := s.reply("tcp", req)
				if _, werr := c.Write(append(binary.BigEndian.AppendUint16(nil, uint16(len(rep))), rep...)); werr != nil {
					return
				}
			}
		}()
	}
}

func (s *scriptedUpstream) close() { _ = s.tcp.Close(); _ = s.udp.Close() }

type exchStep struct {
	Req   string `json:"req"`
	Reply string `json:"reply"`
	What  string `json:"what"`
	req   *dns.Msg
	reply []byte
}

func (h *harness) exchangeCampaign() {
	rng := h.o.Rand("exchange")
	srv, err := newScriptedUpstream()
	if err != nil {
		h.r.Notes = append(h.r.Notes, "exchange campaign skipped: cannot listen on loopback: "+err.Error())

		return
	}
	defer srv.close()
	addr := netip.MustParseAddrPort(srv.tcp.Addr().String())
	n := 150
	if h.o.Thorough() {
		n = 2500
	}
	var current, sent []byte
	srv.reply = func(_ string, req []byte) []byte { sent = req; return current }
	run := func(u *forward.UpstreamPlain, st *exchStep) string {
		current, sent = st.reply, nil
		ctx, cancel := context.WithTimeout(context.Background(), 2*time.Second)
		defer cancel()
		resp, _, xerr := u.Exchange(ctx, st.req.Copy())
		out := msgText(resp)
		if xerr != nil {
			out += " err:" + xerr.Error()
		}

		return out
	}
	for i := 0; i < n; i++ {
		nw := []forward.Network{forward.NetworkUDP, forward.NetworkTCP}[rng.IntN(2)]
		k := 1 + rng.IntN(4)
		var steps []*exchStep
		for j := 0; j <= k; j++ {
			req := genQuery(rng)
			req.Id = uint16(1 + rng.IntN(3))
			class := 0
			if j == k {
				class = []int{1, 2, 3, 3, 3, 6}[rng.IntN(6)]
			}
			if j == k && i%5 == 0 {
				// A request that fills the pooled buffer exactly, or leaves one
				// byte to spare (the boundary of PackBuffer's in-place rule).
				room := forward.VerifC06BufSize(nw)
				if nw == forward.NetworkTCP {
					room -= 2
				}
				req = reqOfLen(rng, room-rng.IntN(2))
				class = 0
				h.r.Count("exchange.request_at_buffer_size")
			}
			rep, what := mutate(rng, mustPack(genReply(rng, req)), class)
			if len(rep) == 0 {
				// A UDP upstream that never answers only exercises the timeout.
				rep = []byte{0}
			}
			steps = append(steps, &exchStep{Req: hex.EncodeToString(mustPack(req)), Reply: hex.EncodeToString(rep),
				What: what, req: req, reply: rep})
		}
		conf := &forward.UpstreamPlainConfig{Network: nw, Address: addr, Timeout: 2 * time.Second}
		warm := forward.NewUpstreamPlain(conf)
		var got string
		for _, st := range steps {
			got = run(warm, st)
		}
		_ = warm.Close()
		sentWarm := sent
		fresh := forward.NewUpstreamPlain(conf)
		want := run(fresh, steps[k])
		_ = fresh.Close()
		if own := mustPack(steps[k].req.Copy()); sentWarm != nil && !bytes.Equal(sentWarm, own) {
			h.r.Violate("exchange-"+string(nw)+"-request-carries-residue", fmt.Sprintf(
				"UpstreamPlain.Exchange over %s: after %d earlier exchange(s) the %d-byte request %s reaches the upstream as %s",
				nw, k, len(own), clipHex(own), clipHex(sentWarm)), steps)
		} else if sentWarm != nil && sent != nil && !bytes.Equal(sentWarm, sent) {
			h.r.Violate("exchange-"+string(nw)+"-request-carries-residue", fmt.Sprintf(
				"UpstreamPlain.Exchange over %s: after %d earlier exchange(s) the request written to the upstream is %s, a new UpstreamPlain writes %s",
				nw, k, clipHex(sentWarm), clipHex(sent)), steps)
		}
		h.r.Count("exchange." + string(nw))
		h.r.Case(fmt.Sprintf("exchange %s %v", nw, steps), steps[k].What != "valid")
		if strings.Contains(got, "i/o timeout") || strings.Contains(want, "i/o timeout") {
			h.r.Count("exchange.discarded_timeout")

			continue
		}
		if normErr(got) != normErr(want) {
			h.r.Violate("exchange-"+string(nw)+"-history-dependent-decode", fmt.Sprintf(
				"UpstreamPlain.Exchange over %s: after %d earlier exchange(s) the reply %s (%s) is returned as %q, a new UpstreamPlain returns %q",
				nw, k, clipHex(steps[k].reply), steps[k].What, clip(got), clip(want)), steps)
		}
	}
}

// concurrentExchangeCampaign: exchange A over TCP is paused by the upstream in
// the middle of its reply while exchange B runs to completion on the same
// UpstreamPlain; A must still be decoded from its own reply.
func (h *harness) concurrentExchangeCampaign() {
	rng := h.o.Rand("concurrent-exchange")
	srv, err := newScriptedUpstream()
	if err != nil {
		return
	}
	defer srv.close()
	addr := netip.MustParseAddrPort(srv.tcp.Addr().String())
	n := 40
	if h.o.Thorough() {
		n = 600
	}
	replies := map[uint16][]byte{}
	var pauseID uint16
	var split int
	var half, release chan struct{}
	srv.reply = func(_ string, req []byte) []byte {
		if len(req) < 2 {
			return []byte{0}
		}

		return replies[binary.BigEndian.Uint16(req)]
	}
	var resetID atomic.Uint32
	srv.slowTCP = func(c net.Conn, req []byte) bool {
		if len(req) > 2 && resetID.Load() != 0 && resetID.CompareAndSwap(uint32(binary.BigEndian.Uint16(req)), 0) {
			// Part of a reply, then a reset: the exchange retries on a new
			// connection, which is answered normally.
			_, _ = c.Write([]byte{0, 90, 0xee, 0xee, 0xee, 0xee, 0xee})
			time.Sleep(20 * time.Millisecond)
			if tc, ok := c.(*net.TCPConn); ok {
				_ = tc.SetLinger(0)
			}
			_ = c.Close()

			return true
		}
		if len(req) < 2 || binary.BigEndian.Uint16(req) != pauseID || half == nil {
			return false
		}
		rep := replies[pauseID]
		w := append(binary.BigEndian.AppendUint16(nil, uint16(len(rep))), rep...)
		cut := min(len(w), 2+split)
		_, _ = c.Write(w[:cut])
		close(half)
		<-release
		_, _ = c.Write(w[cut:])

		return true
	}
	exch := func(u *forward.UpstreamPlain, req *dns.Msg) string {
		ctx, cancel := context.WithTimeout(context.Background(), 3*time.Second)
		defer cancel()
		resp, _, xerr := u.Exchange(ctx, req.Copy())
		out := msgText(resp)
		if xerr != nil {
			out += " err:" + xerr.Error()
		}

		return out
	}
	for i := 0; i < n; i++ {
		mk := func(id uint16, class int) (*dns.Msg, []byte, string) {
			req := genQuery(rng)
			req.Id = id
			rep, what := mutate(rng, mustPack(genReply(rng, req)), class)
			if len(rep) == 0 {
				rep = []byte{0}
			}
			replies[id] = rep

			return req, rep, what
		}
		reqW, _, _ := mk(50, 0)
		reqA, repA, whatA := mk(100, []int{0, 1, 2, 3, 3, 6}[rng.IntN(6)])
		reqB, repB, _ := mk(200, 0)
		split = 1 + rng.IntN(max(1, len(repA)))
		conf := &forward.UpstreamPlainConfig{Network: forward.NetworkTCP, Address: addr, Timeout: 3 * time.Second}
		u := forward.NewUpstreamPlain(conf)
		pauseID, half = 0, nil
		// Round 4: fault and lifecycle paths before the pair.  Every way an
		// exchange can end (packReq refusing an oversize request, a deadline
		// that has already passed, a connection reset in the middle of a
		// reply and the retry, a short or undecodable reply) must give the
		// pooled buffer back exactly once: a buffer released twice is handed
		// to A and B at the same time.
		var prelude []string
		for k := rng.IntN(4); k > 0; k-- {
			kind := []string{"ok", "oversize", "expired", "reset", "short", "garbage"}[rng.IntN(6)]
			prelude = append(prelude, kind)
			h.r.Count("exchange.prelude." + kind)
			switch kind {
			case "ok":
				_ = exch(u, reqW)
			case "oversize":
				_ = exch(u, reqOfLen(rng, 65534+rng.IntN(2)))
			case "expired":
				ectx, ecancel := context.WithDeadline(context.Background(), time.Now().Add(-time.Second))
				_, _, _ = u.Exchange(ectx, reqW.Copy())
				ecancel()
			case "reset":
				resetID.Store(50)
				_ = exch(u, reqW)
				resetID.Store(0)
			case "short":
				replies[50] = []byte{0, 50, 0x81, 0, 0}
				_ = exch(u, reqW)
			case "garbage":
				replies[50] = append(bytes.Repeat([]byte{0xff}, 40), 0xc0, 0xff)
				_ = exch(u, reqW)
			}
		}
		pauseID, half, release = 100, make(chan struct{}), make(chan struct{})
		resA := make(chan string, 1)
		go func() { resA <- exch(u, reqA) }()
		paused := false
		select {
		case <-half:
			paused = true
		case <-time.After(2 * time.Second):
		}
		gotB := exch(u, reqB)
		close(release)
		gotA := <-resA
		_ = u.Close()
		half = nil
		fresh := forward.NewUpstreamPlain(conf)
		wantA := exch(fresh, reqA)
		wantB := exch(fresh, reqB)
		_ = fresh.Close()
		h.r.Count("exchange.concurrent_tcp")
		h.r.Case(fmt.Sprintf("concurrent-exchange %v %x %x %d", prelude, repA, repB, split), true)
		all := gotA + gotB + wantA + wantB
		if !paused || strings.Contains(all, "i/o timeout") || strings.Contains(all, "deadline exceeded") {
			h.r.Count("exchange.discarded_timeout")

			continue
		}
		replay := map[string]any{"reqA": hex.EncodeToString(mustPack(reqA)), "replyA": hex.EncodeToString(repA),
			"reqB": hex.EncodeToString(mustPack(reqB)), "replyB": hex.EncodeToString(repB), "split": split, "prelude": prelude}
		if normErr(gotA) != normErr(wantA) {
			h.r.Violate("exchange-tcp-concurrent-decode-mixup", fmt.Sprintf(
				"UpstreamPlain.Exchange over tcp: reply %s (%s) paused after %d bytes while another exchange ran is returned as %q, alone it is returned as %q",
				clipHex(repA), whatA, split, clip(gotA), clip(wantA)), replay)
		}
		if normErr(gotB) != normErr(wantB) {
			h.r.Violate("exchange-tcp-concurrent-decode-mixup", fmt.Sprintf(
				"UpstreamPlain.Exchange over tcp: reply %s received while another exchange was paused is returned as %q, alone it is returned as %q",
				clipHex(repB), clip(gotB), clip(wantB)), replay)
		}
	}
}

// normErr drops the ephemeral port numbers that appear in network errors.
func normErr(s string) string {
	i := strings.Index(s, " err:")
	if i < 0 {
		return s
	}
	e := s[i:]
	for _, frag := range []string{"read tcp", "read udp", "write tcp", "write udp", "dial "} {
		if j := strings.Index(e, frag); j >= 0 {
			e = e[:j] + frag + " <addr>"
		}
	}

	return s[:i] + e
}

// ---------------------------------------------------------------------------
// Round 5: response writes that fail.
//
// The response writers re-slice their pooled buffer to the packed response and
// give it back to their pool only when the write failed (DoQ: always), so a
// failed write is the one event that moves a slice of an odd length into a
// pool.  writeFaultCampaign makes the writes of 1-3 messages of one client fail
// on each transport (EPERM, connection closed, deadline; all writes or only the
// first, so that the SERVFAIL written after the handler's error goes through)
// and then sends a message of ANOTHER client on each receive path, with lengths
// around the lengths of the responses that could not be sent (one byte less,
// equal, one more, much more) and the short/inconsistent classes.  Oracle and
// model comparison are those of every case: warmed instance vs a brand-new one,
// own bytes, and the length of the pooled slice the receive path reads into.

// queryOfLen returns a well-formed query of exactly n bytes (n >= 19), for a
// name that no other generator uses.
func queryOfLen(n int, id uint16) []byte {
	m := &dns.Msg{}
	if n <= 81 {
		m.SetQuestion(strings.Repeat("n", n-18)+".", dns.TypeA)
	} else {
		m.SetQuestion(strings.Repeat("n", 20)+".", dns.TypeA)
		m.SetEdns0(1232, false)
		opt := m.IsEdns0()
		opt.Option = append(opt.Option, &dns.EDNS0_PADDING{Padding: make([]byte, n-(12+22+4+11+4))})
	}
	m.Id = id
	b := mustPack(m)
	if len(b) != n {
		panic(fmt.Sprintf("queryOfLen(%d) made %d bytes", n, len(b)))
	}

	return b
}

func (h *harness) writeFaultCampaign() {
	rng := h.o.Rand("write-fault")
	failPaths := []string{pUDP, pTCP, pDoQ, pDoH}
	nextPaths := []string{pUDP, pTCP, pDoQ, pDoH}
	for _, sz := range [][2]int{{512, 512}, {64, 16}, {1232, 64}} {
		for _, fp := range failPaths {
			for _, kind := range wfaultKinds {
				for _, failN := range []int{0, 1} {
					if !h.o.Thorough() && rng.IntN(3) == 0 {
						continue
					}
					// The client whose responses cannot be sent.
					var hist []*opSpec
					k := 1 + rng.IntN(3)
					lens := map[int]bool{}
					for j := 0; j < k; j++ {
						q := queryOfLen(19+rng.IntN(30), uint16(rng.IntN(4)))
						if rng.IntN(3) == 0 {
							q = mustPack(genQuery(rng))
						}
						wire, _ := frame(rng, fp, q, 0)
						mode := ""
						switch fp {
						case pDoQ:
							mode = "serve"
						case pDoH:
							mode = []string{"post", "get"}[rng.IntN(2)]
						}
						op := (&opSpec{Path: fp, Mode: mode, wire: wire, Pick: -1, WFail: kind, WFailN: failN, what: "valid, response write fails"}).fill()
						hist = append(hist, op)
						// Lengths of the slices the failed writes leave behind.
						dry := newInst(sizes{sz[0], sz[1]})
						dres := dry.exec(op)
						dry.close()
						for _, w := range dres.wrote {
							lens[len(w)] = true
						}
						if len(dres.wrote) > 0 {
							h.r.Count("wfault.failed_write." + fp)
						}
					}
					var targets []int
					for l := range lens {
						targets = append(targets, l-1, l, l+1, l+2, l+3)
					}
					targets = append(targets, 19, 60+rng.IntN(40), 200+rng.IntN(250))
					for _, np := range nextPaths {
						for _, t := range targets {
							if t < 19 || (!h.o.Thorough() && rng.IntN(2) == 0) {
								continue
							}
							msg, what := queryOfLen(t, uint16(rng.IntN(4))), "valid"
							if rng.IntN(4) == 0 {
								msg, what = mutate(rng, msg, 1+rng.IntN(7))
							}
							wire, note := frame(rng, np, msg, 0)
							mode := ""
							switch np {
							case pDoQ:
								mode = []string{"read", "serve"}[rng.IntN(2)]
							case pDoH:
								mode = []string{"post", "get"}[rng.IntN(2)]
							}
							next := (&opSpec{Path: np, Mode: mode, wire: wire, Pick: -1,
								what: fmt.Sprintf("%s%s, %d bytes, after %d message(s) of another client whose %s response writes failed (%s)", what, note, len(msg), len(hist), fp, kind)}).fill()
							if rng.IntN(6) == 0 {
								next.WFail, next.WFailN = wfaultKinds[rng.IntN(len(wfaultKinds))], rng.IntN(2)
							}
							h.r.Count("wfault.next." + np)
							h.checked(&caseSpec{Sizes: sz, History: append([]*opSpec{}, hist...), Next: next, Class: "after-failed-write"})
						}
					}
				}
			}
		}
	}
}
