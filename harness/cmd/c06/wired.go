package main

// Round 4: production wiring.  The listeners are built by dnssvc.New with the
// production constructor dnssvc.NewListener and the listen configuration
// dnssvc derives for each protocol (plain DNS: the netext configuration with
// out-of-band data), started on loopback sockets and talked to with real
// clients: UDP (IPv4 and IPv6 on one dual-stack socket), TCP, DoT (crypto/tls),
// DoQ (quic-go), DoH (net/http).
//
// oobCampaign looks at the second receive buffer of the UDP path: the pooled
// control-message buffer of netext.sessionPacketConn, from which the local
// (destination) address of a datagram is taken.  The address is what the
// response is sent from and what dedicated-address profiles are found by, so it
// has to come from the control data of this datagram alone.

import (
	"context"
	"crypto/ecdsa"
	"crypto/elliptic"
	crand "crypto/rand"
	"crypto/tls"
	"crypto/x509"
	"crypto/x509/pkix"
	"fmt"
	"math/big"
	"net"
	"net/http"
	"net/netip"
	"strings"
	"sync"
	"sync/atomic"
	"time"

	"github.com/AdguardTeam/AdGuardDNS/internal/agd"
	"github.com/AdguardTeam/AdGuardDNS/internal/agdtest"
	"github.com/AdguardTeam/AdGuardDNS/internal/dnsserver"
	"github.com/AdguardTeam/AdGuardDNS/internal/dnssvc"
	"github.com/AdguardTeam/AdGuardDNS/verifh/hlib"
	"github.com/miekg/dns"
)

var (
	wiredTLSOnce sync.Once
	wiredTLSConf *tls.Config
	wiredNS      atomic.Int64
)

func wiredTLS() *tls.Config {
	wiredTLSOnce.Do(func() {
		key, err := ecdsa.GenerateKey(elliptic.P256(), crand.Reader)
		hlib.Must(err)
		tmpl := &x509.Certificate{
			SerialNumber: big.NewInt(6),
			Subject:      pkix.Name{CommonName: "c06.example"},
			NotBefore:    time.Now().Add(-time.Hour),
			NotAfter:     time.Now().Add(24 * time.Hour),
			KeyUsage:     x509.KeyUsageDigitalSignature,
			ExtKeyUsage:  []x509.ExtKeyUsage{x509.ExtKeyUsageServerAuth},
			DNSNames:     []string{"c06.example"},
		}
		der, err := x509.CreateCertificate(crand.Reader, tmpl, tmpl, &key.PublicKey, key)
		hlib.Must(err)
		wiredTLSConf = &tls.Config{
			Certificates: []tls.Certificate{{Certificate: [][]byte{der}, PrivateKey: key}},
			MinVersion:   tls.VersionTLS12,
		}
	})

	return wiredTLSConf
}

// wiredSvc is a started dnssvc.Service with one listener per protocol.
type wiredSvc struct {
	svc *dnssvc.Service
	lsn map[string]dnssvc.Listener
}

func (w *wiredSvc) close() {
	ctx, cancel := context.WithTimeout(context.Background(), 3*time.Second)
	defer cancel()
	_ = w.svc.Shutdown(ctx)
}

// startWired builds the servers the way the configuration loader does, lets
// dnssvc.New create the listeners with the production constructor and starts
// them.  protos: "dns", "dot", "doq", "doh"; bind: the address of the plain
// DNS listener ("127.0.0.1:0" or "[::]:0").
func startWired(handler dnsserver.Handler, protos []string, bind string) (w *wiredSvc, err error) {
	for try := 0; try < 40; try++ {
		w, err = startWiredOnce(handler, protos, bind)
		if err == nil {
			return w, nil
		}
	}

	return nil, err
}

func startWiredOnce(handler dnsserver.Handler, protos []string, bind string) (w *wiredSvc, err error) {
	var srvs []*agd.Server
	for _, p := range protos {
		srv := &agd.Server{
			Name:         agd.ServerName("w" + p),
			ReadTimeout:  2 * time.Second,
			WriteTimeout: 2 * time.Second,
		}
		bd := &agd.ServerBindData{AddrPort: netip.MustParseAddrPort("127.0.0.1:0")}
		switch p {
		case "dns":
			srv.Protocol = agd.ProtoDNS
			srv.TCPConf = &agd.TCPConfig{IdleTimeout: 2 * time.Second}
			srv.UDPConf = &agd.UDPConfig{MaxRespSize: dns.MaxMsgSize}
			bd.AddrPort = netip.MustParseAddrPort(bind)
		case "dot":
			srv.Protocol = agd.ProtoDoT
			srv.TCPConf = &agd.TCPConfig{IdleTimeout: 2 * time.Second}
			srv.UDPConf = &agd.UDPConfig{MaxRespSize: dns.MaxMsgSize}
			srv.TLS = &agd.TLSConfig{Default: wiredTLS().Clone()}
		case "doq":
			srv.Protocol = agd.ProtoDoQ
			srv.QUICConf = &agd.QUICConfig{MaxStreamsPerPeer: 100}
			c := wiredTLS().Clone()
			c.NextProtos = []string{"doq"}
			srv.TLS = &agd.TLSConfig{Default: c}
		case "doh":
			srv.Protocol = agd.ProtoDoH
			srv.QUICConf = &agd.QUICConfig{MaxStreamsPerPeer: 100}
			c := wiredTLS().Clone()
			c.NextProtos = []string{"h2", "http/1.1"}
			c3 := wiredTLS().Clone()
			c3.NextProtos = []string{"h3"}
			srv.TLS = &agd.TLSConfig{Default: c, H3: c3}
		}
		srv.SetBindData([]*agd.ServerBindData{bd})
		srvs = append(srvs, srv)
	}
	grp := &agd.ServerGroup{Name: "wired", Servers: srvs}
	handlers := dnssvc.Handlers{}
	for _, s := range srvs {
		handlers[dnssvc.HandlerKey{Server: s, ServerGroup: grp}] = handler
	}
	byName := map[agd.ServerName]dnssvc.Listener{}
	svc, err := dnssvc.New(&dnssvc.Config{
		Handlers:         handlers,
		Cloner:           agdtest.NewCloner(),
		ErrColl:          &agdtest.ErrorCollector{OnCollect: func(context.Context, error) {}},
		NonDNS:           http.NotFoundHandler(),
		MetricsNamespace: fmt.Sprintf("c06wired%d", wiredNS.Add(1)),
		ServerGroups:     []*agd.ServerGroup{grp},
		HandleTimeout:    5 * time.Second,
		// The production constructor, only recorded.
		NewListener: func(s *agd.Server, bc dnsserver.ConfigBase, nd http.Handler) (l dnssvc.Listener, lerr error) {
			l, lerr = dnssvc.NewListener(s, bc, nd)
			byName[s.Name] = l

			return l, lerr
		},
	})
	if err != nil {
		return nil, err
	}
	func() {
		defer func() {
			if rec := recover(); rec != nil {
				err = fmt.Errorf("start: %v", rec)
			}
		}()
		err = svc.Start(context.Background())
	}()
	w = &wiredSvc{svc: svc, lsn: map[string]dnssvc.Listener{}}
	if err != nil {
		w.close()

		return nil, err
	}
	for i, p := range protos {
		w.lsn[p] = byName[srvs[i].Name]
	}

	return w, nil
}

// localEcho answers every query with one TXT record naming the local and the
// remote address the server attributes to the datagram.
type localEcho struct{}

func (localEcho) ServeDNS(ctx context.Context, rw dnsserver.ResponseWriter, req *dns.Msg) error {
	resp := new(dns.Msg).SetReply(req)
	name := "."
	if len(req.Question) > 0 {
		name = req.Question[0].Name
	}
	resp.Answer = append(resp.Answer, &dns.TXT{
		Hdr: dns.RR_Header{Name: name, Rrtype: dns.TypeTXT, Class: dns.ClassINET, Ttl: 1},
		Txt: []string{"l=" + rw.LocalAddr().String(), "r=" + rw.RemoteAddr().String()},
	})

	return rw.WriteMsg(ctx, req, resp)
}

type oobStep struct {
	To   string `json:"sent_to"`
	From string `json:"sent_from"`
	Got  string `json:"server_says"`
}

// oobCampaign: datagrams to different local addresses of one dual-stack socket
// (IPv4 control messages are shorter than IPv6 ones, so the pooled control
// buffer keeps the tail of an earlier IPv6 message), in random order.
func (h *harness) oobCampaign() {
	rng := h.o.Rand("oob")
	w, err := startWired(localEcho{}, []string{"dns"}, "[::]:0")
	if err != nil {
		h.r.Notes = append(h.r.Notes, "oob campaign skipped: "+err.Error())

		return
	}
	defer w.close()
	port := w.lsn["dns"].LocalUDPAddr().(*net.UDPAddr).Port
	targets := []string{"127.0.0.1", "127.0.0.2", "127.8.9.10", "::1"}
	var usable []string
	for _, t := range targets {
		c, derr := net.Dial("udp", net.JoinHostPort(t, fmt.Sprint(port)))
		if derr == nil {
			usable = append(usable, t)
			_ = c.Close()
		}
	}
	has6 := false
	for _, t := range usable {
		has6 = has6 || strings.Contains(t, ":")
	}
	if !has6 {
		h.r.Count("oob.no_ipv6_loopback")
	}
	n := 40
	if h.o.Thorough() {
		n = 600
	}
	buf := make([]byte, 4096)
	for i := 0; i < n; i++ {
		k := 2 + rng.IntN(5)
		var steps []*oobStep
		for j := 0; j < k; j++ {
			t := usable[rng.IntN(len(usable))]
			// An unconnected dual-stack client socket: a response is received
			// whatever address it was sent from.
			c, derr := net.ListenUDP("udp", &net.UDPAddr{})
			if derr != nil {
				continue
			}
			to := &net.UDPAddr{IP: net.ParseIP(t), Port: port}
			cport := c.LocalAddr().(*net.UDPAddr).Port
			st := &oobStep{To: to.String(), From: fmt.Sprintf("port %d", cport)}
			steps = append(steps, st)
			q := genQuery(rng)
			q.Id = uint16(i*8 + j + 1)
			_, _ = c.WriteToUDP(mustPack(q), to)
			_ = c.SetReadDeadline(time.Now().Add(300 * time.Millisecond))
			nr, src, rerr := c.ReadFromUDP(buf)
			_ = c.Close()
			if rerr != nil {
				// Lost or late: never a verdict.
				h.r.Count("oob.response_not_seen")
				st.Got = "none"

				continue
			}
			m := &dns.Msg{}
			if m.Unpack(buf[:nr]) != nil || len(m.Answer) != 1 {
				st.Got = "undecodable"

				continue
			}
			txt, _ := m.Answer[0].(*dns.TXT)
			if txt == nil || len(txt.Txt) != 2 {
				st.Got = "undecodable"

				continue
			}
			st.Got = txt.Txt[0] + " " + txt.Txt[1] + " response-from=" + (&net.UDPAddr{IP: src.IP, Port: src.Port}).String()
			h.r.Count("oob.checked")
			rport := txt.Txt[1][strings.LastIndex(txt.Txt[1], ":")+1:]
			if txt.Txt[0] != "l="+to.String() || !src.IP.Equal(to.IP) || src.Port != port || rport != fmt.Sprint(cport) {
				h.r.Violate("udp-local-address-not-from-own-datagram", fmt.Sprintf(
					"datagram %d of %d sent from port %d to %s on a dual-stack socket: the server says %q (earlier datagrams of the case went to other local addresses)",
					j+1, k, cport, to, st.Got), steps)

				break
			}
		}
		h.r.Traces++
		var canon []string
		for _, st := range steps {
			canon = append(canon, st.To[:strings.LastIndex(st.To, ":")])
		}
		h.r.Case("oob "+strings.Join(canon, " "), has6 && len(steps) > 1)
	}
}
