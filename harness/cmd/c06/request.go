package main

// Request side of an upstream exchange (round 3): the buffer a reply is read
// into is the buffer the request was packed into, so "reusing receive buffers is
// unobservable" also covers what is WRITTEN to the upstream.  Campaigns:
//
//   - requestCampaign: the real packReq on buffers full of residue, request
//     lengths at and around the buffer size (the boundary at which PackBuffer
//     moves to a new array); oracle: the bytes to be written are the request's
//     own packed bytes and equal what a zeroed buffer gives; correspondence with
//     the model's packReq (length and whole buffer afterwards).
//   - retryCampaign: UpstreamPlain.Exchange over TCP against an upstream that
//     breaks the first connection in the middle of its reply; oracle: what the
//     second connection receives is the packed request.
//   - prefixCampaign: the real packWithPrefix on arrays with residue, lengths
//     around len and cap; oracle + correspondence with the response model.

import (
	"bytes"
	"context"
	"encoding/binary"
	"encoding/hex"
	"fmt"
	"io"
	"math/rand/v2"
	"net"
	"net/netip"
	"strings"
	"sync/atomic"
	"time"

	"github.com/AdguardTeam/AdGuardDNS/internal/dnsserver"
	"github.com/AdguardTeam/AdGuardDNS/internal/dnsserver/forward"
	"github.com/miekg/dns"
)

// nameOfWireLen returns a domain name whose wire form has exactly w bytes
// (3 <= w <= 255).
func nameOfWireLen(rng *rand.Rand, w int) string {
	var sb strings.Builder
	rest := w - 1 // the root label
	for rest > 0 {
		l := min(rest-1, 63)
		if rest-1 > 63 && rest-1-63 == 1 {
			// Do not leave a remainder of 1 (a label needs 2 bytes).
			l = 62
		}
		if l > 3 && rest-1 <= 63 && rng.IntN(3) == 0 && rest-1-2 >= 2 {
			// Sometimes split the last stretch into two labels.
			l = 1 + rng.IntN(rest-1-2)
			if rest-1-l == 1 {
				l--
			}
		}
		if l < 1 {
			l = 1
		}
		sb.WriteString(strings.Repeat(string(rune('a'+rng.IntN(26))), l))
		sb.WriteByte('.')
		rest -= l + 1
	}

	return sb.String()
}

// reqOfLen returns a query whose packed length is exactly total (>= 19).
func reqOfLen(rng *rand.Rand, total int) (m *dns.Msg) {
	m = &dns.Msg{}
	m.Id = uint16(1 + rng.IntN(60000))
	if total <= 271 && (total < 40 || rng.IntN(2) == 0) {
		m.SetQuestion(nameOfWireLen(rng, total-16), typePool[rng.IntN(len(typePool))])
		m.Id = uint16(1 + rng.IntN(60000))

		return m
	}
	m.SetQuestion(namePool[rng.IntN(4)], typePool[rng.IntN(len(typePool))])
	m.Id = uint16(1 + rng.IntN(60000))
	m.SetEdns0(4096, rng.IntN(2) == 0)
	base := m.Len()
	if total < base+4 {
		// No room for a padding option: fall back to a name of the right size.
		m = &dns.Msg{}
		m.SetQuestion(nameOfWireLen(rng, total-16), dns.TypeA)
		m.Id = uint16(1 + rng.IntN(60000))

		return m
	}
	opt := m.IsEdns0()
	pad := make([]byte, total-base-4)
	for i := range pad {
		pad[i] = byte(rng.IntN(256))
	}
	opt.Option = append(opt.Option, &dns.EDNS0_PADDING{Padding: pad})

	return m
}

// residueBuf returns a buffer of n bytes that looks like a pooled buffer after
// earlier exchanges: a reply to another client's question followed by older,
// non-zero bytes.
func residueBuf(rng *rand.Rand, n int, tcp bool) []byte {
	b := make([]byte, n)
	for i := range b {
		b[i] = byte(0x80 | rng.IntN(128))
	}
	q := &dns.Msg{}
	q.SetQuestion("victim-secret-name.example.com.", dns.TypeA)
	rep := mustPack(genReply(rng, q))
	if tcp {
		rep = append(binary.BigEndian.AppendUint16(nil, uint16(len(rep))), rep...)
	}
	copy(b, rep)

	return b
}

type reqCase struct {
	Network string `json:"network"`
	BufSize int    `json:"buf_size"`
	Req     string `json:"req"`     // hex of the request's own packed bytes
	Residue string `json:"residue"` // hex of the first 64 bytes the buffer held
	What    string `json:"what"`
}

func frameFor(nw forward.Network, packed []byte) []byte {
	if nw == forward.NetworkTCP {
		return append(binary.BigEndian.AppendUint16(nil, uint16(len(packed))), packed...)
	}

	return packed
}

// onePackReq runs the real packReq on buf and reports (n, error text, panic).
func onePackReq(u *forward.UpstreamPlain, nw forward.Network, buf []byte, req *dns.Msg) (n int, errText string) {
	defer func() {
		if v := recover(); v != nil {
			n, errText = 0, fmt.Sprintf("panic:%v", v)
		}
	}()
	n, err := forward.VerifC06PackReq(u, nw, buf, req)
	if err != nil {
		return n, "err:" + err.Error()
	}

	return n, ""
}

func (h *harness) requestCampaign() {
	rng := h.o.Rand("request")
	u := forward.NewUpstreamPlain(&forward.UpstreamPlainConfig{Address: netip.MustParseAddrPort("127.0.0.1:1")})
	defer func() { _ = u.Close() }()

	type job struct {
		nw    forward.Network
		size  int
		total int
		what  string
	}
	var jobs []job
	add := func(nw forward.Network, size, total int, what string) {
		if total >= 19 && total <= 65535 {
			jobs = append(jobs, job{nw, size, total, what})
		}
	}
	// Exhaustive small scope: every buffer size in a range, every request length
	// from well below to just above what fits.
	lo, hi := 24, 64
	if h.o.Thorough() {
		lo, hi = 19, 300
	}
	for _, nw := range []forward.Network{forward.NetworkUDP, forward.NetworkTCP} {
		off := 0
		if nw == forward.NetworkTCP {
			off = 2
		}
		for size := lo; size <= hi; size++ {
			for d := -4; d <= 2; d++ {
				add(nw, size, size-off+d, fmt.Sprintf("small-scope: request of len(buf)%+d-%d bytes", d, off))
			}
		}
		// The production sizes.
		real := forward.VerifC06BufSize(nw)
		for d := -3; d <= 2; d++ {
			add(nw, real, real-off+d, fmt.Sprintf("production buffer: request of len(buf)%+d-%d bytes", d, off))
		}
		add(nw, real, 40, "production buffer: ordinary request")
	}
	nRandom := 300
	if h.o.Thorough() {
		nRandom = 5000
	}
	for i := 0; i < nRandom; i++ {
		nw := []forward.Network{forward.NetworkUDP, forward.NetworkTCP}[rng.IntN(2)]
		size := 19 + rng.IntN(600)
		add(nw, size, 19+rng.IntN(size+4), "random")
	}
	h.r.Count("request.small_scope_sizes_done")

	var lines []string
	type obs struct {
		j        job
		n        int
		errText  string
		after    []byte
		own      []byte
		rc       *reqCase
		nontrivi bool
	}
	var all []*obs
	for _, j := range jobs {
		req := reqOfLen(rng, j.total)
		if rng.IntN(4) == 0 {
			req.Compress = true
		}
		packed := mustPack(req.Copy())
		if len(packed) != j.total {
			h.r.Count("request.generator_length_mismatch")
		}
		own := frameFor(j.nw, packed)
		tcp := j.nw == forward.NetworkTCP
		warm := residueBuf(rng, j.size, tcp)
		before := bytes.Clone(warm)
		fresh := make([]byte, j.size)
		nW, eW := onePackReq(u, j.nw, warm, req.Copy())
		nF, eF := onePackReq(u, j.nw, fresh, req.Copy())
		path := pUpsUDP
		if tcp {
			path = pUpsTCP
		}
		rc := &reqCase{Network: string(j.nw), BufSize: j.size, Req: hex.EncodeToString(packed),
			Residue: hex.EncodeToString(before[:min(64, len(before))]), What: j.what}
		o := &obs{j: j, n: nW, errText: eW, after: warm, own: own, rc: rc}
		all = append(all, o)
		// Oracle (independent of the model).
		switch {
		case strings.HasPrefix(eW, "panic:") || strings.HasPrefix(eF, "panic:"):
			h.r.Violate(path+"-request-panic", fmt.Sprintf("packReq panicked (%s): warmed=%q fresh=%q", j.what, eW, eF), rc)
		case eW == "" && (nW > len(warm) || !bytes.Equal(warm[:nW], own)):
			h.r.Violate(path+"-request-carries-residue", fmt.Sprintf(
				"UpstreamPlain.packReq over %s (%s): a %d-byte request packed into a %d-byte pooled buffer that held another exchange makes the "+
					"upstream receive %s, the request's own bytes are %s", j.nw, j.what, len(packed), j.size,
				clipHex(warm[:min(nW, len(warm))]), clipHex(own)), rc)
		case (eW == "") != (eF == "") || (eW == "" && (nW != nF || !bytes.Equal(warm[:nW], fresh[:nF]))):
			h.r.Violate(path+"-request-history-dependent", fmt.Sprintf(
				"UpstreamPlain.packReq over %s (%s): with residue in the buffer the request goes out as %s (%q), with a new zeroed buffer as %s (%q)",
				j.nw, j.what, clipHex(warm[:min(nW, len(warm))]), eW, clipHex(fresh[:min(nF, len(fresh))]), eF), rc)
		}
		lines = append(lines, fmt.Sprintf("preq %s 1 %s %s", map[bool]string{false: "udp", true: "tcp"}[tcp], hx(before), hx(packed)))
		o.nontrivi = len(own) >= j.size-1
		h.r.Case(fmt.Sprintf("request %s %d %d %x", j.nw, j.size, j.total, packed[:min(len(packed), 40)]), o.nontrivi)
		h.r.Traces++
		h.r.Count("request." + string(j.nw))
		switch {
		case eW != "":
			h.r.Count("request.refused")
		case len(own) == j.size:
			h.r.Count("request.fills_buffer_exactly")
		case len(own) == j.size-1:
			h.r.Count("request.one_byte_to_spare")
		default:
			h.r.Count("request.fits")
		}
	}
	// Correspondence with the model's packReq.
	h.m.ResetLog()
	answers := h.m.Batch(lines)
	h.modelOps += len(lines)
	for i, o := range all {
		f := strings.Fields(answers[i])
		path := pUpsUDP
		if o.j.nw == forward.NetworkTCP {
			path = pUpsTCP
		}
		switch {
		case strings.HasPrefix(o.errText, "panic:"):
		case o.errText != "":
			if answers[i] != "err" {
				h.r.Disagree(path+"-request-model", fmt.Sprintf("real packReq refused (%s) a %d-byte request for a %d-byte buffer, model answered %q",
					o.errText, o.j.total, o.j.size, clip(answers[i])), o.rc)
			}
		case len(f) != 2:
			h.r.Disagree(path+"-request-model", fmt.Sprintf("real packReq returned n=%d for a %d-byte request and a %d-byte buffer, model answered %q",
				o.n, o.j.total, o.j.size, clip(answers[i])), o.rc)
		default:
			if f[0] != fmt.Sprint(o.n) {
				h.r.Disagree(path+"-request-model", fmt.Sprintf("real packReq returned n=%d, model %s", o.n, f[0]), o.rc)
			}
			if f[1] != hx(o.after) {
				h.r.Disagree(path+"-request-model", fmt.Sprintf("buffer after packReq is %s, model says %s (request %d bytes, buffer %d bytes)",
					clipHex(o.after), clip(f[1]), o.j.total, o.j.size), o.rc)
			}
		}
	}
}

// ---------------------------------------------------------------------------
// Retry: the first TCP connection breaks in the middle of the reply.

type retryCase struct {
	Req     string `json:"req"`
	Partial string `json:"partial_reply"`
	Length  int    `json:"announced_length"`
}

func (h *harness) retryCampaign() {
	rng := h.o.Rand("retry")
	l, err := net.Listen("tcp", "127.0.0.1:0")
	if err != nil {
		h.r.Notes = append(h.r.Notes, "retry campaign skipped: cannot listen on loopback: "+err.Error())

		return
	}
	defer func() { _ = l.Close() }()
	got := make(chan []byte, 16)
	type plan struct {
		partial  []byte
		announce int
	}
	// breakNext, when set, makes the next accepted connection send part of a
	// reply and then reset.
	var breakNext atomic.Pointer[plan]
	go func() {
		for {
			c, aerr := l.Accept()
			if aerr != nil {
				return
			}
			go func(c net.Conn) {
				defer func() { _ = c.Close() }()
				pl := breakNext.Swap(nil)
				var hdr [2]byte
				if _, rerr := io.ReadFull(c, hdr[:]); rerr != nil {
					got <- nil

					return
				}
				body := make([]byte, binary.BigEndian.Uint16(hdr[:]))
				_ = c.SetReadDeadline(time.Now().Add(300 * time.Millisecond))
				k, _ := io.ReadFull(c, body)
				got <- append(hdr[:], body[:k]...)
				if pl != nil {
					// Part of a reply, then a reset.
					_, _ = c.Write(append(binary.BigEndian.AppendUint16(nil, uint16(pl.announce)), pl.partial...))
					time.Sleep(30 * time.Millisecond)
					if tc, ok := c.(*net.TCPConn); ok {
						_ = tc.SetLinger(0)
					}

					return
				}
				m := &dns.Msg{}
				if m.Unpack(body[:k]) == nil && len(m.Question) == 1 {
					rep := mustPack(new(dns.Msg).SetReply(m))
					_, _ = c.Write(append(binary.BigEndian.AppendUint16(nil, uint16(len(rep))), rep...))
					time.Sleep(20 * time.Millisecond)
				}
			}(c)
		}
	}()
	n := 6
	if h.o.Thorough() {
		n = 80
	}
	addr := netip.MustParseAddrPort(l.Addr().String())
	for i := 0; i < n; i++ {
		req := reqOfLen(rng, 30+rng.IntN(120))
		packed := mustPack(req.Copy())
		own := frameFor(forward.NetworkTCP, packed)
		announce := 40 + rng.IntN(200)
		partial := make([]byte, 1+rng.IntN(announce-1))
		for k := range partial {
			partial[k] = byte(0x80 | rng.IntN(128))
		}
		breakNext.Store(&plan{partial: partial, announce: announce})
		rc := &retryCase{Req: hex.EncodeToString(packed), Partial: hex.EncodeToString(partial), Length: announce}
		u := forward.NewUpstreamPlain(&forward.UpstreamPlainConfig{Network: forward.NetworkTCP, Address: addr, Timeout: time.Second})
		ctx, cancel := context.WithTimeout(context.Background(), time.Second)
		resp, _, xerr := u.Exchange(ctx, req.Copy())
		cancel()
		_ = u.Close()
		breakNext.Store(nil)
		var writes [][]byte
	collect:
		for {
			select {
			case w := <-got:
				writes = append(writes, w)
			case <-time.After(60 * time.Millisecond):
				break collect
			}
		}
		h.r.Count("retry.cases")
		h.r.Case(fmt.Sprintf("retry %x %x %d", packed, partial, announce), len(writes) >= 2)
		h.r.Traces++
		if len(writes) < 2 {
			// The reset overtook the partial reply (or the error was not a
			// network error): no second attempt, nothing to check.
			h.r.Count("retry.no_second_attempt")

			continue
		}
		h.r.Count("retry.second_attempt_seen")
		for k, w := range writes[:2] {
			if !bytes.Equal(w, own) {
				h.r.Violate("exchange-tcp-retry-request-not-own-bytes", fmt.Sprintf(
					"UpstreamPlain.Exchange over tcp: the first connection was reset after %d of %d announced reply bytes; attempt %d wrote %s to the upstream, the request's own bytes are %s (response=%v err=%v)",
					len(partial), announce, k+1, clipHex(w), clipHex(own), resp != nil, xerr), rc)

				break
			}
		}
		// Correspondence: the model's two writes.
		ans := h.m.Batch([]string{fmt.Sprintf("retry tcp 1 %s %s %s", hx(make([]byte, forward.VerifC06BufSize(forward.NetworkTCP))), hx(packed), hx(partial))})[0]
		h.modelOps++
		if want := hx(writes[0]) + " " + hx(writes[1]); ans != want {
			h.r.Disagree("upstcp-retry-model", fmt.Sprintf("the two attempts wrote %s, the model says %s", clip(want), clip(ans)), rc)
		}
	}
}

// ---------------------------------------------------------------------------
// packWithPrefix on arrays with residue.

type pfxCase struct {
	Arr  string `json:"array"`
	Len  int    `json:"len"`
	Resp string `json:"response"`
}

func (h *harness) prefixCampaign() {
	rng := h.o.Rand("prefix")
	n := 300
	if h.o.Thorough() {
		n = 6000
	}
	var lines []string
	var wrote [][]byte
	var cases []*pfxCase
	for i := 0; i < n; i++ {
		q := genQuery(rng)
		resp := genReply(rng, q)
		msg := mustPack(resp.Copy())
		// Array capacity and slice length around the size of the message.
		capN := max(0, len(msg)+rng.IntN(9)-4)
		if rng.IntN(3) == 0 {
			capN = rng.IntN(2*len(msg) + 4)
		}
		lenN := capN
		if capN > 0 && rng.IntN(2) == 0 {
			lenN = max(0, min(capN, len(msg)+rng.IntN(7)-3))
		}
		arr := make([]byte, capN)
		for k := range arr {
			arr[k] = byte(0x80 | rng.IntN(128))
		}
		before := bytes.Clone(arr)
		pc := &pfxCase{Arr: hex.EncodeToString(before), Len: lenN, Resp: hex.EncodeToString(msg)}
		var out []byte
		var perr error
		func() {
			defer func() {
				if v := recover(); v != nil {
					perr = fmt.Errorf("panic:%v", v)
				}
			}()
			out, perr = dnsserver.VerifC06PackWithPrefix(resp.Copy(), arr[:lenN])
		}()
		own := append(binary.BigEndian.AppendUint16(nil, uint16(len(msg))), msg...)
		if perr != nil {
			h.r.Violate("resp-prefix-error", fmt.Sprintf("packWithPrefix failed on a %d-byte response with a pooled slice of len %d cap %d: %v", len(msg), lenN, capN, perr), pc)

			continue
		}
		if !bytes.Equal(out, own) {
			h.r.Violate("resp-prefix-carries-residue", fmt.Sprintf(
				"packWithPrefix: a %d-byte response packed into a pooled slice (len %d, cap %d) full of earlier bytes is written as %s, its own bytes are %s",
				len(msg), lenN, capN, clipHex(out), clipHex(own)), pc)
		}
		lines = append(lines, fmt.Sprintf("pfx %s %d %s", hx(before), lenN, hx(msg)))
		wrote = append(wrote, out)
		cases = append(cases, pc)
		h.r.Case(fmt.Sprintf("pfx %d %d %x", capN, lenN, msg), true)
		h.r.Traces++
		switch {
		case len(msg)+2 <= capN && len(msg) < lenN:
			h.r.Count("prefix.in_place")
		case len(msg) < lenN:
			h.r.Count("prefix.grow_moves")
		default:
			h.r.Count("prefix.packbuffer_moves")
		}
	}
	h.m.ResetLog()
	answers := h.m.Batch(lines)
	h.modelOps += len(lines)
	for i, a := range answers {
		if a != hx(wrote[i]) {
			h.r.Disagree("resp-prefix-model", fmt.Sprintf("packWithPrefix wrote %s, the model says %s", clipHex(wrote[i]), clip(a)), cases[i])
		}
	}
}
