// Command c04 is the correspondence harness and property oracle for C04
// (response caches: cached answers equal fresh answers and never outlive
// their TTL).
package main

import (
	"context"
	"errors"
	"fmt"
	"hash/fnv"
	"math/rand/v2"
	"net"
	"net/netip"
	"os"
	"strings"
	"time"

	"github.com/AdguardTeam/AdGuardDNS/internal/agd"
	"github.com/AdguardTeam/AdGuardDNS/internal/agdcache"
	"github.com/AdguardTeam/AdGuardDNS/internal/agdtest"
	"github.com/AdguardTeam/AdGuardDNS/internal/dnsmsg"
	"github.com/AdguardTeam/AdGuardDNS/internal/dnsserver"
	"github.com/AdguardTeam/AdGuardDNS/internal/dnsserver/cache"
	"github.com/AdguardTeam/AdGuardDNS/internal/dnssvc"
	"github.com/AdguardTeam/AdGuardDNS/internal/ecscache"
	"github.com/AdguardTeam/AdGuardDNS/internal/geoip"
	"github.com/AdguardTeam/AdGuardDNS/verifh/hlib"
	"github.com/AdguardTeam/golibs/logutil/slogutil"
	"github.com/AdguardTeam/golibs/netutil"
	"github.com/miekg/dns"
)

const secNs = int64(time.Second)

// Two private-use types whose numbers agree with A (1) and AAAA (28) modulo
// 256: together with CAA (257), which agrees with A in the low byte, they make
// a key layout that loses or overlaps a byte of the type visible.
const (
	typPrivate  uint16 = 65281 // 0xff01
	typPrivate2 uint16 = 65308 // 0xff1c
)

// classPrivate agrees with IN (1) in the low byte.
const classPrivate uint16 = 65281

// simpleKind selects the model of the simple cache: "s" is the repaired code;
// VERIF_C04_ORIG=1 selects "o", the code before the fix of fromCacheItem, which
// is how the counter-example of Props/C04.lean was replayed on the old tree.
var simpleKind = "s"

func main() {
	o := hlib.ParseFlags()
	r := hlib.NewResult("C04", o)
	r.Rule = "histories of queries (small pools of names incl. case variants, qtypes incl. SOA/SIG/NS/ANY, classes, DO/AD/CD/RD, " +
		"client locations incl. one without a GeoIP subnet and one whose subnets nest in another's, declined ECS, client ECS " +
		"with and without GeoIP data, connection family differing from the ECS family) interleaved with injected clock advances " +
		"and evictions against the real simple and ECS cache middlewares (hook clock) over a functional fake upstream (incl. " +
		"names for which it acts on DO without echoing it or drops the OPT record, names for which it echoes class IN whatever " +
		"was asked, TTLs up to 2^32-1); every " +
		"response is compared with the Lean model's and, independently, with a fresh instance's answer and " +
		"the TTL/expiry/cacheability oracle; plus function-level sweeps (findLowestTTL, isCacheable, " +
		"rmHopToHopData, fromCacheItem at ages around every boundary and on an exhaustive 50 ms grid for small TTLs, key " +
		"equality over all pairs of a random pool and a full grid of key components incl. wide type/class numbers, what " +
		"is forwarded upstream on a miss); a real-clock campaign reading every entry several times; every message " +
		"written by or handed to the middleware is overwritten afterwards; a run through dnssvc.NewHandlers; " +
		"validating upstreams (answer depends on the forwarded CD bit, AD only for requests with AD or DO); the " +
		"CNAME-rewrite path of the main middleware above the ECS cache with the rule switched on and off; what the " +
		"upstream is asked on every miss (opcode, question, RD, CD, AD) against what the client asked. " +
		"A case is non-trivial when it contains at least one cache hit and one miss; distinct = distinct op logs"
	if os.Getenv("VERIF_C04_ORIG") == "1" {
		simpleKind = "o"
	}
	if os.Getenv("VERIF_C04_RESPKEY") == "1" {
		// The tree before the round-3 fix: entries keyed by the response.
		simpleKind = "k"
	}
	m := hlib.StartModel(o.Model, "C04")
	defer m.Close()

	wiringCampaign(o, r, m)
	funcCampaign(o, r, m)
	keyCampaign(o, r, m)
	boundaryCampaign(o, r, m)
	historyCampaign(o, r, m)
	realTimeCampaign(o, r)
	stackCampaign(o, r)
	rewriteCampaign(o, r)
	opcodeObservation(o, r)
	if o.Thorough() {
		pairCampaign(o, r, m)
	}

	r.ModelOps = len(m.Log)
	r.Finish()
}

// ---------------------------------------------------------------------------
// Canonical forms shared with the model driver.

func b2s(b bool) string {
	if b {
		return "1"
	}

	return "0"
}

// rrData is the payload identity of a record: owner (case-folded) and RDATA.
// For an OPT record it says whether an EDE option is present.
func rrData(rr dns.RR) uint32 {
	if opt, ok := rr.(*dns.OPT); ok {
		for _, o := range opt.Option {
			if e, isEDE := o.(*dns.EDNS0_EDE); isEDE {
				return 1 + uint32(e.InfoCode)
			}
		}

		return 0
	}
	h := fnv.New32a()
	// The presentation form of a copy with the TTL masked and the owner
	// case-folded: independent of how a type prints its header.
	c := dns.Copy(rr)
	c.Header().Ttl = 0
	c.Header().Name = strings.ToLower(c.Header().Name)
	_, _ = h.Write([]byte(c.String()))

	return h.Sum32()
}

func soaMin(rr dns.RR) uint32 {
	if s, ok := rr.(*dns.SOA); ok {
		return s.Minttl
	}

	return 0
}

func rrTokens(sb *strings.Builder, rrs []dns.RR) {
	for _, rr := range rrs {
		fmt.Fprintf(sb, " %d %d %d %d", rr.Header().Rrtype, rr.Header().Ttl, soaMin(rr), rrData(rr))
	}
}

// msgTokens renders MSG of the line protocol.
func msgTokens(m *dns.Msg) string {
	sb := &strings.Builder{}
	fmt.Fprintf(sb, "%d %s %s %s %s %s %s %d %d %d %d", m.Rcode, b2s(m.Truncated), b2s(m.Authoritative),
		b2s(m.AuthenticatedData), b2s(m.RecursionAvailable), b2s(m.RecursionDesired), b2s(m.CheckingDisabled),
		len(m.Question), len(m.Answer), len(m.Ns), len(m.Extra))
	rrTokens(sb, m.Answer)
	rrTokens(sb, m.Ns)
	rrTokens(sb, m.Extra)

	return sb.String()
}

func showRRs(rrs []dns.RR) string {
	var parts []string
	for _, rr := range rrs {
		if rr.Header().Rrtype == dns.TypeOPT {
			continue
		}
		parts = append(parts, fmt.Sprintf("%d:%d:%d:%d", rr.Header().Rrtype, rr.Header().Ttl, soaMin(rr), rrData(rr)))
	}

	return strings.Join(parts, ",")
}

// showMsg renders a response exactly as the driver's showMsg does.
func showMsg(m *dns.Msg) string {
	return fmt.Sprintf("%d %s%s%s%s%s%s [%s] [%s] [%s]", m.Rcode, b2s(m.Truncated), b2s(m.Authoritative),
		b2s(m.AuthenticatedData), b2s(m.RecursionAvailable), b2s(m.RecursionDesired), b2s(m.CheckingDisabled),
		showRRs(m.Answer), showRRs(m.Ns), showRRs(m.Extra))
}

// ---------------------------------------------------------------------------
// Requests.

var countries = []geoip.Country{"US", "DE", "JP", "FR", "XX"}

const (
	// ctryNested is a country whose subnets have the address of country 0's
	// and a longer prefix: a key that loses the prefix length confuses them.
	ctryNested = 3
	// ctryNone is a country the GeoIP database has no subnet for: it answers
	// with the zero prefix, as geoip.File.SubnetByLocation does.
	ctryNone = 4
)

// geoSubnet is the fake GeoIP database: a subnet per (country, family).
func geoSubnet(ctry int, fam6 bool) netip.Prefix {
	switch ctry {
	case ctryNone:
		return zeroPrefix(fam6)
	case ctryNested:
		if fam6 {
			return netip.MustParsePrefix("2001:db8:1::/56")
		}

		return netip.MustParsePrefix("100.64.1.0/25")
	}
	if fam6 {
		return netip.MustParsePrefix(fmt.Sprintf("2001:db8:%x::/48", ctry+1))
	}

	return netip.MustParsePrefix(fmt.Sprintf("100.64.%d.0/24", ctry+1))
}

func zeroPrefix(fam6 bool) netip.Prefix {
	if fam6 {
		return netutil.ZeroPrefix(netutil.AddrFamilyIPv6)
	}

	return netutil.ZeroPrefix(netutil.AddrFamilyIPv4)
}

type reqSpec struct {
	name     string
	qtype    uint16
	qclass   uint16
	edns     bool
	do       bool
	ad       bool
	rd       bool
	cd       bool
	fam6     bool
	declined bool
	// clientECS: the client sent an ECS option of its own (non-zero prefix).
	clientECS bool
	ctry      int
	// remoteOther: the connection's address family is the other one than that
	// of the client's ECS option (fam6 is the family the middleware must use:
	// that of the ECS option if there is one).  Only with declined/clientECS.
	remoteOther bool
	// ecsNoLoc: the GeoIP database knows nothing about the client's own ECS
	// subnet, so the location of the connection counts.  Only with clientECS.
	ecsNoLoc bool
}

// connCtry is the country the connection comes from when the client sends an
// ECS option of its own.
func (q reqSpec) connCtry() int { return (q.ctry + 1) % len(countries) }

// effCtry is the country whose subnet the ECS middleware must use.
func (q reqSpec) effCtry() int {
	if q.clientECS && !q.declined && q.ecsNoLoc {
		return q.connCtry()
	}

	return q.ctry
}

func (q reqSpec) subnetID() int {
	if q.effCtry() == ctryNone {
		// The zero prefix, the same subnet a declined request uses.
		return 0
	}
	id := 1 + 2*q.effCtry()
	if q.fam6 {
		id++
	}

	return id
}

// remote6 is the family of the connection's address.
func (q reqSpec) remote6() bool {
	if (q.declined || q.clientECS) && q.remoteOther {
		return !q.fam6
	}

	return q.fam6
}

// show is tokens plus what the model does not need to know.
func (q reqSpec) show() string {
	s := q.tokens()
	if q.clientECS && !q.declined {
		s += " client-ecs"
		if q.ecsNoLoc {
			s += "-without-location"
		}
	}
	if q.remote6() != q.fam6 {
		s += " remote-other-family"
	}

	return s
}

// fwdSubnet is the subnet the ECS middleware is expected to forward.
func (q reqSpec) fwdSubnet() netip.Prefix {
	if q.declined {
		return zeroPrefix(q.fam6)
	}

	return geoSubnet(q.effCtry(), q.fam6)
}

func (q reqSpec) tokens() string {
	return fmt.Sprintf("%s %d %d %s %s %s %s %s %s %d %s", q.name, q.qtype, q.qclass, b2s(q.do), b2s(q.ad), b2s(q.rd),
		b2s(q.cd), b2s(q.fam6), b2s(q.declined), q.subnetID(), b2s(q.edns || q.do))
}

func (q reqSpec) msg() *dns.Msg {
	req := &dns.Msg{}
	req.Id = 4242
	req.Question = []dns.Question{{Name: q.name, Qtype: q.qtype, Qclass: q.qclass}}
	req.RecursionDesired = q.rd
	req.AuthenticatedData = q.ad
	req.CheckingDisabled = q.cd
	if q.edns || q.do {
		req.SetEdns0(1232, q.do)
	}

	return req
}

func (q reqSpec) ri() *agd.RequestInfo {
	ri := &agd.RequestInfo{
		Host:     strings.ToLower(strings.TrimSuffix(q.name, ".")),
		QType:    q.qtype,
		QClass:   q.qclass,
		Location: &geoip.Location{Country: countries[q.ctry]},
	}
	if q.remote6() {
		ri.RemoteIP = netip.MustParseAddr("2001:db8:ffff::1")
	} else {
		ri.RemoteIP = netip.MustParseAddr("192.0.2.1")
	}
	switch {
	case q.declined:
		ri.ECS = &dnsmsg.ECS{Subnet: zeroPrefix(q.fam6)}
	case q.clientECS:
		// The client's own subnet; its location is what the GeoIP lookup of the
		// initial middleware would have produced.
		sub := netip.MustParsePrefix("198.51.100.0/24")
		if q.fam6 {
			sub = netip.MustParsePrefix("2001:db8:abcd::/48")
		}
		ri.ECS = &dnsmsg.ECS{Subnet: sub, Location: &geoip.Location{Country: countries[q.ctry]}}
		if q.ecsNoLoc {
			ri.ECS.Location = nil
		}
		// The connection itself comes from elsewhere.
		ri.Location = &geoip.Location{Country: countries[q.connCtry()]}
	}

	return ri
}

// okey is the oracle's own notion of "same question, DO bit" (plus family for
// the ECS cache).
func (q reqSpec) okey(ecs bool, u *universe) string {
	// For a question the upstream handles without EDNS the DO bit is not part
	// of what the answer is a function of.
	do := q.do && u.aware(strings.ToLower(q.name), q.qtype, q.qclass)
	k := fmt.Sprintf("%s|%d|%d|%v", strings.ToLower(q.name), q.qtype, q.qclass, do)
	if ecs {
		k += fmt.Sprintf("|%v", q.fam6)
	}

	return k
}

// ---------------------------------------------------------------------------
// The fake upstream: a pure function of (name, qtype, qclass, DO, forwarded
// subnet) within one universe.

type universe struct {
	seed  uint64
	ecs   bool
	calls int
	// lastFwd describes the last request that reached the upstream: DO bit,
	// family and subnet of its ECS option ("-" if there is none).
	lastFwd string
	// lastHdr is what else the upstream saw of that request: question and the
	// header bits RD, CD, AD (see hdrTokens).
	lastHdr string
	// handed is the last answer handed to the middleware.
	handed *dns.Msg
	// fault makes the next call fail, see the fault* constants.
	fault int
}

// Faults of the handler below the cache.
const (
	faultNone = iota
	// faultErr: an error and no message (upstream timeout, cancelled context).
	faultErr
	// faultErrAfterWrite: the complete, cacheable answer is written, then an
	// error is returned (a failure between writing and returning).
	faultErrAfterWrite
	// faultNoMsg: no error and no message.
	faultNoMsg
	// faultBadECS: the normal answer with an ECS option of an unknown address
	// family, which dnsmsg.ECSFromMsg rejects (ECS cache only).
	faultBadECS
	faultCount
)

var faultNames = [...]string{"none", "error", "error-after-write", "no-message", "bad-ecs"}

var errUpstream = errors.New("verif: upstream failure")

// hdrTokens renders the parts of a request that a cache must hand on as they
// are: opcode, question, RD, CD and AD.
func hdrTokens(req *dns.Msg) string {
	if len(req.Question) != 1 {
		return fmt.Sprintf("%d questions", len(req.Question))
	}
	q := req.Question[0]

	return fmt.Sprintf("op%d %s %d %d rd=%v cd=%v ad=%v", req.Opcode, q.Name, q.Qtype, q.Qclass, req.RecursionDesired,
		req.CheckingDisabled, req.AuthenticatedData)
}

// fwdTokens renders what the upstream sees of req the way the driver's `fwd`
// does: DO bit, family, subnet identity.
func fwdTokens(req *dns.Msg) string {
	opt := req.IsEdns0()
	if opt == nil {
		return "no-opt"
	}
	for _, o := range opt.Option {
		if e, ok := o.(*dns.EDNS0_SUBNET); ok {
			fam6 := e.Family == 2
			id := -1
			addr, _ := netip.AddrFromSlice(e.Address)
			pfx := netip.PrefixFrom(addr.Unmap(), int(e.SourceNetmask))
			if fam6 {
				pfx = netip.PrefixFrom(addr, int(e.SourceNetmask))
			}
			if pfx == zeroPrefix(fam6) {
				id = 0
			}
			for c := range countries {
				if pfx == geoSubnet(c, fam6) {
					id = reqSpec{ctry: c, fam6: fam6}.subnetID()
				}
			}

			return fmt.Sprintf("%s %s %d", b2s(opt.Do()), b2s(fam6), id)
		}
	}

	return "no-ecs"
}

var ttlPool = []uint32{1, 2, 2, 3, 5, 10, 29, 30, 31, 60, 300, 3600}

// bigTTLs: values whose bits 15, 16, 24, 31 are set (an OPT TTL word, a signed
// 32-bit number, a float with few fraction bits left).  The two largest go to
// the ECS cache only: the simple cache rounds float64 seconds, which near 2^31
// resolve a quarter of a microsecond, less than the real time a case takes.
var bigTTLs = []uint32{32768, 86400, 604800, 2147483647, 4294967295}

func pickTTL(rng *rand.Rand) uint32 { return ttlPool[rng.IntN(len(ttlPool))] }

func pickBaseTTL(rng *rand.Rand, ecs bool) uint32 {
	if rng.IntN(12) == 0 {
		n := 3
		if ecs {
			n = len(bigTTLs)
		}

		return bigTTLs[rng.IntN(n)]
	}

	return pickTTL(rng)
}

func mkRR(typ uint16, owner string, class uint16, ttl uint32, rng *rand.Rand) dns.RR {
	hdr := dns.RR_Header{Name: owner, Rrtype: typ, Class: class, Ttl: ttl}
	switch typ {
	case dns.TypeA:
		return &dns.A{Hdr: hdr, A: net.IPv4(10, byte(rng.IntN(4)), byte(rng.IntN(256)), byte(rng.IntN(256))).To4()}
	case dns.TypeAAAA:
		ip := net.ParseIP(fmt.Sprintf("2001:db8::%x", rng.IntN(65536)))

		return &dns.AAAA{Hdr: hdr, AAAA: ip}
	case dns.TypeCNAME:
		return &dns.CNAME{Hdr: hdr, Target: fmt.Sprintf("c%d.example.net.", rng.IntN(1000))}
	case dns.TypeNS:
		return &dns.NS{Hdr: hdr, Ns: fmt.Sprintf("ns%d.example.net.", rng.IntN(10))}
	case dns.TypeSOA:
		mins := []uint32{0, 1, 2, 5, 30, 60, 3600}

		return &dns.SOA{Hdr: hdr, Ns: "ns.example.net.", Mbox: "h.example.net.", Serial: uint32(rng.IntN(1000)),
			Refresh: 1, Retry: 2, Expire: 3, Minttl: mins[rng.IntN(len(mins))]}
	case dns.TypeSIG:
		return &dns.SIG{RRSIG: dns.RRSIG{Hdr: hdr, TypeCovered: dns.TypeA, Algorithm: 13, Labels: 2, OrigTtl: ttl, Expiration: 2,
			Inception: 1, KeyTag: uint16(rng.IntN(65536)), SignerName: "example.net.", Signature: "c2ln"}}
	case dns.TypeRRSIG:
		return &dns.RRSIG{Hdr: hdr, TypeCovered: dns.TypeA, Algorithm: 13, Labels: 2, OrigTtl: ttl, Expiration: 2,
			Inception: 1, KeyTag: uint16(rng.IntN(65536)), SignerName: "example.net.", Signature: "c2ln"}
	case dns.TypeNSEC:
		return &dns.NSEC{Hdr: hdr, NextDomain: fmt.Sprintf("n%d.example.net.", rng.IntN(100)), TypeBitMap: []uint16{1, 46}}
	case dns.TypeDS:
		return &dns.DS{Hdr: hdr, KeyTag: uint16(rng.IntN(65536)), Algorithm: 13, DigestType: 2, Digest: "abcd"}
	case dns.TypeMX:
		return &dns.MX{Hdr: hdr, Preference: 10, Mx: fmt.Sprintf("mx%d.example.net.", rng.IntN(10))}
	case dns.TypeCAA:
		return &dns.CAA{Hdr: hdr, Flag: 0, Tag: "issue", Value: fmt.Sprintf("ca%d.example.net", rng.IntN(100))}
	case dns.TypeHTTPS:
		return &dns.HTTPS{SVCB: dns.SVCB{Hdr: hdr, Priority: uint16(1 + rng.IntN(3)), Target: fmt.Sprintf("svc%d.example.net.", rng.IntN(100))}}
	case dns.TypeSRV:
		return &dns.SRV{Hdr: hdr, Priority: 1, Weight: 2, Port: uint16(rng.IntN(65536)), Target: fmt.Sprintf("srv%d.example.net.", rng.IntN(10))}
	case dns.TypePTR:
		return &dns.PTR{Hdr: hdr, Ptr: fmt.Sprintf("p%d.example.net.", rng.IntN(1000))}
	case dns.TypeTXT:
		return &dns.TXT{Hdr: hdr, Txt: []string{fmt.Sprintf("t%d", rng.IntN(1000))}}
	case typPrivate, typPrivate2:
		// Types the code has no structure for (RFC 3597 generic records).
		return &dns.RFC3597{Hdr: hdr, Rdata: fmt.Sprintf("%04x", rng.IntN(65536))}
	default:
		return &dns.TXT{Hdr: dns.RR_Header{Name: owner, Rrtype: dns.TypeTXT, Class: class, Ttl: ttl},
			Txt: []string{fmt.Sprintf("t%d", rng.IntN(1000))}}
	}
}

// isECSName tells whether the upstream tailors its answer for the name to the
// forwarded subnet.
func isECSName(lname string) bool { return strings.HasPrefix(lname, "ecs") }

// isFakeECSName: the upstream echoes a non-zero scope although the answer is
// not tailored (what ecscache.FakeECSFQDNs lists).
func isFakeECSName(lname string) bool { return lname == "126.com." }

// isNoEDNSName: the upstream ignores EDNS for the name altogether.
func isNoEDNSName(lname string) bool { return strings.HasPrefix(lname, "noedns") }

// isNoDOEchoName: the upstream acts on the DO bit (its answer is a function of
// question and DO) but does not say so: its answer carries no OPT record, or
// one with the DO bit clear.
func isNoDOEchoName(lname string) bool { return strings.HasPrefix(lname, "nodoecho") }

// isClassEchoName: the upstream echoes the question with class IN whatever
// class was asked (the forward handler checks id, type and name only); the
// answer itself is a function of the class asked.
func isClassEchoName(lname string) bool { return strings.HasPrefix(lname, "classecho") }

// isCDValName: a validating upstream, RFC 4035 3.2.2: its answer depends on the
// Checking Disabled bit of the request it receives (both caches forward the
// bit unchanged): validated data or SERVFAIL without it, raw data with it.
func isCDValName(lname string) bool { return strings.Contains(lname, "cdval") }

// isADReqName: a validating upstream, RFC 6840 5.8: the AD bit is set in the
// answer only if the request had the AD or the DO bit.
func isADReqName(lname string) bool { return strings.Contains(lname, "adreq") }

// aware tells whether the upstream understands EDNS for the question.
func (u *universe) aware(lname string, qt, qc uint16) bool {
	ha := fnv.New64a()
	_, _ = fmt.Fprintf(ha, "aware|%d|%s|%d|%d", u.seed, lname, qt, qc)

	return isNoDOEchoName(lname) || (!isNoEDNSName(lname) && ha.Sum64()%10 != 0)
}

// answer builds the upstream's response to req.  Everything is derived from
// the question, the DO bit and (for tailored names) the forwarded subnet.
func (u *universe) answer(req *dns.Msg) (resp *dns.Msg) {
	q := req.Question[0]
	lname := strings.ToLower(q.Name)
	opt := req.IsEdns0()
	do := opt != nil && opt.Do()
	var ecsOpt *dns.EDNS0_SUBNET
	if opt != nil {
		for _, o := range opt.Option {
			if e, ok := o.(*dns.EDNS0_SUBNET); ok {
				ecsOpt = e

				break
			}
		}
	}
	// Whether the upstream understands EDNS for this question is decided
	// before anything that depends on the DO bit: a server that does not
	// return an OPT record cannot have seen the bit either.
	if !u.aware(lname, q.Qtype, q.Qclass) {
		do, opt, ecsOpt = false, nil, nil
	}
	subnet := ""
	if ecsOpt != nil && isECSName(lname) {
		subnet = fmt.Sprintf("%s/%d", ecsOpt.Address, ecsOpt.SourceNetmask)
	}

	h := fnv.New64a()
	// The simple cache keys on DO, so there the whole answer may depend on it.
	// The ECS cache forwards DO=1 for clients without EDNS and filters the
	// DNSSEC records itself, so there DO only adds DNSSEC records.
	_, _ = fmt.Fprintf(h, "%d|%s|%d|%d|%v|%s", u.seed, lname, q.Qtype, q.Qclass, do && !u.ecs, subnet)
	if isCDValName(lname) && req.CheckingDisabled {
		_, _ = fmt.Fprint(h, "|cd")
	}
	rng := rand.New(rand.NewPCG(h.Sum64(), u.seed))

	resp = &dns.Msg{}
	resp.SetReply(req)
	resp.Authoritative = rng.IntN(5) == 0
	resp.AuthenticatedData = rng.IntN(5) < 2
	if isADReqName(lname) {
		// Validated data; the bit itself only for those who asked for it.
		resp.AuthenticatedData = req.AuthenticatedData || do
	}
	resp.RecursionAvailable = rng.IntN(10) != 0
	base := pickBaseTTL(rng, u.ecs)
	ttl := func() uint32 {
		if rng.IntN(4) == 0 {
			return pickTTL(rng)
		}

		return base
	}
	owner := lname
	cl := q.Qclass
	qt := q.Qtype
	dnssecQ := qt == dns.TypeRRSIG || qt == dns.TypeDS || qt == dns.TypeNSEC
	sigs := func(sec *[]dns.RR) {
		p, sig := rng.IntN(10), mkRR(dns.TypeRRSIG, owner, cl, ttl(), rng)
		if ((do && p < 7) || p < 2) && !(u.ecs && dnssecQ) {
			*sec = append(*sec, sig)
		}
	}
	nBase := 0
	positive := func() {
		if qt != dns.TypeCNAME && rng.IntN(10) < 3 {
			resp.Answer = append(resp.Answer, mkRR(dns.TypeCNAME, owner, cl, ttl(), rng))
		}
		for i, n := 0, 1+rng.IntN(3); i < n; i++ {
			resp.Answer = append(resp.Answer, mkRR(qt, owner, cl, ttl(), rng))
		}
		nBase = len(resp.Answer)
		sigs(&resp.Answer)
		if rng.IntN(4) == 0 {
			resp.Ns = append(resp.Ns, mkRR(dns.TypeNS, owner, cl, ttl(), rng))
			resp.Extra = append(resp.Extra, mkRR(dns.TypeA, "ns1.example.net.", cl, ttl(), rng))
		}
	}
	negative := func(soaP int) {
		if rng.IntN(10) < soaP {
			resp.Ns = append(resp.Ns, mkRR(dns.TypeSOA, owner, cl, ttl(), rng))
			if rng.IntN(3) == 0 {
				resp.Ns = append(resp.Ns, mkRR(dns.TypeNSEC, owner, cl, ttl(), rng))
			}
			sigs(&resp.Ns)
		} else if rng.IntN(2) == 0 {
			resp.Ns = append(resp.Ns, mkRR(dns.TypeNS, owner, cl, ttl(), rng))
		}
	}
	ede := false
	switch k := rng.IntN(17); {
	case k < 6:
		positive()
	case k < 8:
		// NODATA, possibly through a CNAME.
		if qt != dns.TypeCNAME && rng.IntN(3) == 0 {
			resp.Answer = append(resp.Answer, mkRR(dns.TypeCNAME, owner, cl, ttl(), rng))
		}
		negative(8)
	case k < 10:
		resp.Rcode = dns.RcodeNameError
		negative(7)
	case k < 12:
		resp.Rcode = dns.RcodeServerFailure
		ede = rng.IntN(2) == 0
		if rng.IntN(2) == 0 {
			negative(5)
		}
	case k < 13:
		resp.Rcode = []int{dns.RcodeRefused, dns.RcodeFormatError, dns.RcodeNotImplemented}[rng.IntN(3)]
		if rng.IntN(2) == 0 {
			positive()
		}
	case k < 14:
		positive()
		resp.Truncated = true
	case k < 15:
		// A NOERROR answer that holds some other type.
		other := uint16(dns.TypeMX)
		if qt == other {
			other = dns.TypeTXT
		}
		resp.Answer = append(resp.Answer, mkRR(other, owner, cl, ttl(), rng))
		if rng.IntN(2) == 0 {
			negative(10)
		}
	case k < 16:
		positive()
		resp.Answer[rng.IntN(nBase)].Header().Ttl = 0
	default:
		// DNSSEC-heavy answer regardless of DO.
		positive()
		resp.Answer = append(resp.Answer, mkRR(dns.TypeRRSIG, owner, cl, ttl(), rng))
		resp.Ns = append(resp.Ns, mkRR(dns.TypeNSEC, owner, cl, ttl(), rng), mkRR(dns.TypeDS, owner, cl, ttl(), rng))
	}

	if isClassEchoName(lname) {
		resp.Question[0].Qclass = dns.ClassINET
	}
	echoDO := do
	if isNoDOEchoName(lname) && !u.ecs {
		// Same answer, but nothing in it tells which DO bit it is for.
		if rng.IntN(2) == 0 {
			opt = nil
		}
		echoDO = false
	}
	if opt != nil {
		resp.SetEdns0(1232, echoDO)
		ropt := resp.Extra[len(resp.Extra)-1].(*dns.OPT)
		if ede || rng.IntN(5) == 0 {
			ropt.Option = append(ropt.Option, &dns.EDNS0_EDE{InfoCode: uint16(1 + rng.IntN(20)), ExtraText: "x"})
		}
		if rng.IntN(5) == 0 {
			ropt.Option = append(ropt.Option, &dns.EDNS0_NSID{Code: dns.EDNS0NSID, Nsid: "6e73"})
		}
		if ecsOpt != nil {
			var scope uint8
			switch {
			case isECSName(lname):
				if ecsOpt.SourceNetmask > 0 || rng.IntN(8) == 0 {
					scope = []uint8{8, 24}[rng.IntN(2)]
				}
			case isFakeECSName(lname):
				scope = 24
			}
			if scope > 0 || rng.IntN(2) == 0 {
				ropt.Option = append(ropt.Option, &dns.EDNS0_SUBNET{Code: dns.EDNS0SUBNET, Family: ecsOpt.Family,
					SourceNetmask: ecsOpt.SourceNetmask, SourceScope: scope, Address: ecsOpt.Address})
			}
		}
	}

	return resp
}

// ServeDNS implements dnsserver.Handler: the handler below the cache.
func (u *universe) ServeDNS(ctx context.Context, rw dnsserver.ResponseWriter, req *dns.Msg) (err error) {
	u.calls++
	u.lastFwd = fwdTokens(req)
	u.lastHdr = hdrTokens(req)
	fault := u.fault
	u.fault = faultNone
	switch fault {
	case faultErr:
		u.handed = nil

		return errUpstream
	case faultNoMsg:
		u.handed = nil

		return nil
	}
	u.handed = u.answer(req)
	if fault == faultBadECS {
		if u.handed.IsEdns0() == nil {
			u.handed.SetEdns0(1232, false)
		}
		opt := u.handed.IsEdns0()
		opt.Option = append([]dns.EDNS0{&dns.EDNS0_SUBNET{Code: dns.EDNS0SUBNET, Family: 3, SourceNetmask: 8,
			Address: net.IPv4(10, 0, 0, 0).To4()}}, opt.Option...)
	}
	err = rw.WriteMsg(ctx, req, u.handed)
	if fault == faultErrAfterWrite {
		return errUpstream
	}

	return err
}

// expected is what the upstream answers when the middleware forwards q as it
// should: unchanged (simple cache) or with the location's subnet (ECS cache).
func (u *universe) expected(q reqSpec) (resp *dns.Msg, scope uint8, fake bool) {
	req := q.msg()
	if !u.ecs {
		return u.answer(req), 0, false
	}
	fwd := q.fwdSubnet()
	if req.IsEdns0() == nil {
		req.SetEdns0(dnsmsg.DefaultEDNSUDPSize, true)
	}
	o := req.IsEdns0()
	fam := uint16(1)
	ip := net.IP(fwd.Addr().AsSlice())
	if q.fam6 {
		fam = 2
	}
	o.Option = append(o.Option, &dns.EDNS0_SUBNET{Code: dns.EDNS0SUBNET, Family: fam,
		SourceNetmask: uint8(fwd.Bits()), Address: ip})
	resp = u.answer(req)
	_, scope, err := dnsmsg.ECSFromMsg(resp)
	hlib.Must(err)

	return resp, scope, ecscache.FakeECSFQDNs.Has(q.name)
}

// ---------------------------------------------------------------------------
// Real middlewares under the hook clock.

type caseCfg struct {
	kind     byte // 's' simple, 'e' ECS
	minTTL   time.Duration
	override bool
	// wired, if not nil, is what the production configuration code made of a
	// configuration file that asks for minTTL and override (see wiring.go): the
	// real middleware is built from it, while the oracle and the model go by
	// minTTL and override, i.e. by what the file says.
	wired *dnssvc.CacheConfig
}

// mwMinTTL and mwOverride are what the middleware is constructed with.
func (c caseCfg) mwMinTTL() time.Duration {
	if c.wired != nil {
		return c.wired.MinTTL
	}

	return c.minTTL
}

func (c caseCfg) mwOverride() bool {
	if c.wired != nil {
		return c.wired.OverrideCacheTTL
	}

	return c.override
}

func (c caseCfg) line() string {
	kind := string(c.kind)
	if c.kind == 's' {
		kind = simpleKind
	}

	return fmt.Sprintf("cfg %s %d %s", kind, int64(c.minTTL), b2s(c.override))
}

type evictor func(q reqSpec)

func newGeoIP() *agdtest.GeoIP {
	g := agdtest.NewGeoIP()
	g.OnSubnetByLocation = func(l *geoip.Location, fam netutil.AddrFamily) (n netip.Prefix, err error) {
		for i, c := range countries {
			if c == l.Country {
				return geoSubnet(i, fam == netutil.AddrFamilyIPv6), nil
			}
		}

		return geoSubnet(0, fam == netutil.AddrFamilyIPv6), nil
	}

	return g
}

func newHandler(c caseCfg, u *universe, offset func() time.Duration) (h dnsserver.Handler, ev evictor) {
	if c.kind == 's' {
		mw := cache.VerifC04NewMiddleware(&cache.MiddlewareConfig{Count: 256, MinTTL: c.mwMinTTL(), OverrideTTL: c.mwOverride()}, offset)

		return mw.Wrap(u), func(q reqSpec) { cache.VerifC04Evict(mw, q.msg()) }
	}
	mw := ecscache.VerifC04NewMiddleware(&ecscache.MiddlewareConfig{
		Cloner:       agdtest.NewCloner(),
		Logger:       slogutil.NewDiscardLogger(),
		CacheManager: agdcache.EmptyManager{},
		GeoIP:        newGeoIP(),
		MinTTL:       c.mwMinTTL(),
		NoECSCount:   256,
		ECSCount:     256,
		OverrideTTL:  c.mwOverride(),
	}, offset)

	return mw.Wrap(u), func(q reqSpec) {
		ecscache.VerifC04Evict(mw, &ecscache.VerifC04Key{Host: q.ri().Host, Subnet: q.fwdSubnet(), QType: q.qtype,
			QClass: q.qclass, ReqDO: q.do, IsECSDeclined: q.declined})
	}
}

var testAddr = &net.UDPAddr{IP: net.IPv4(192, 0, 2, 1), Port: 53}

func exchange(h dnsserver.Handler, q reqSpec) (resp *dns.Msg, err error) {
	defer func() {
		if p := recover(); p != nil {
			err = fmt.Errorf("panic: %v", p)
		}
	}()
	nrw := dnsserver.NewNonWriterResponseWriter(testAddr, testAddr)
	ctx := agd.ContextWithRequestInfo(context.Background(), q.ri())
	req := q.msg()
	err = h.ServeDNS(ctx, nrw, req)
	written := nrw.Msg()
	if written == nil {
		return nil, err
	}
	// The caller gets a private deep copy.  The message the middleware wrote
	// and the request are then overwritten, the way the layers above do
	// (truncation, normalisation of OPT, TTL rewriting, pooled messages being
	// reused): a cache that kept a reference to either instead of a copy of
	// its own serves the garbage on the next hit.
	resp = written.Copy()
	clobber(written)
	clobber(req)

	return resp, err
}

// clobber overwrites everything reachable from m that a later owner of the
// message may legitimately change.
func clobber(m *dns.Msg) {
	m.Rcode = dns.RcodeRefused
	m.Truncated, m.Authoritative, m.AuthenticatedData = true, !m.Authoritative, !m.AuthenticatedData
	m.RecursionAvailable, m.RecursionDesired, m.CheckingDisabled = !m.RecursionAvailable, !m.RecursionDesired, !m.CheckingDisabled
	for i := range m.Question {
		m.Question[i] = dns.Question{Name: "clobbered.invalid.", Qtype: dns.TypeNULL, Qclass: dns.ClassNONE}
	}
	for _, sec := range []*[]dns.RR{&m.Answer, &m.Ns, &m.Extra} {
		for _, rr := range *sec {
			if rr == nil {
				continue
			}
			h := rr.Header()
			h.Name, h.Ttl = "clobbered.invalid.", 7777777
			switch v := rr.(type) {
			case *dns.OPT:
				h.Name, h.Ttl = ".", 0xffff8000
				v.Option = nil
			case *dns.A:
				for j := range v.A {
					v.A[j] = 0xee
				}
			case *dns.AAAA:
				for j := range v.AAAA {
					v.AAAA[j] = 0xee
				}
			case *dns.TXT:
				for j := range v.Txt {
					v.Txt[j] = "clobbered"
				}
			case *dns.SOA:
				v.Minttl = 7777777
			case *dns.CNAME:
				v.Target = "clobbered.invalid."
			}
		}
		// Drop the tail the way truncation does, keeping the backing array.
		if n := len(*sec); n > 0 {
			clear((*sec)[n/2:])
			*sec = (*sec)[:n/2]
		}
	}
}

// ---------------------------------------------------------------------------
// The property oracle (independent of the model).

// leftRounded is the bound of the property: original TTL minus age, rounded to
// the nearest second, floor zero.
func leftRounded(ttl uint32, ageNs int64) uint32 {
	left := int64(ttl)*secNs - ageNs
	if left <= 0 {
		return 0
	}

	return uint32((left + secNs/2) / secNs)
}

func nonOPT(rrs []dns.RR) (out []dns.RR) {
	for _, rr := range rrs {
		if rr.Header().Rrtype != dns.TypeOPT {
			out = append(out, rr)
		}
	}

	return out
}

func sections(m *dns.Msg) [3][]dns.RR {
	return [3][]dns.RR{nonOPT(m.Answer), nonOPT(m.Ns), nonOPT(m.Extra)}
}

// sameModTTL compares rcode, the flags the caches derive (TC, AD, RA, RD, CD)
// and the records (OPT excluded, TTLs masked).
func sameModTTL(a, b *dns.Msg) (diff string) {
	if a.Rcode != b.Rcode {
		return fmt.Sprintf("rcode %d vs %d", a.Rcode, b.Rcode)
	}
	fa := [5]bool{a.Truncated, a.AuthenticatedData, a.RecursionAvailable, a.RecursionDesired, a.CheckingDisabled}
	fb := [5]bool{b.Truncated, b.AuthenticatedData, b.RecursionAvailable, b.RecursionDesired, b.CheckingDisabled}
	if fa != fb {
		return fmt.Sprintf("flags tc/ad/ra/rd/cd %v vs %v", fa, fb)
	}
	// a is the answer served from cache: its question section must be the
	// request's own (what the upstream echoes in b's is the upstream's business).
	if len(a.Question) != 1 || len(b.Question) != 1 || !strings.EqualFold(a.Question[0].Name, b.Question[0].Name) ||
		a.Question[0].Qtype != b.Question[0].Qtype {
		return fmt.Sprintf("question %v vs %v", a.Question, b.Question)
	}
	sa, sb := sections(a), sections(b)
	for i := range sa {
		if len(sa[i]) != len(sb[i]) {
			return fmt.Sprintf("section %d has %d vs %d records", i, len(sa[i]), len(sb[i]))
		}
		for j := range sa[i] {
			x, y := sa[i][j], sb[i][j]
			if x.Header().Rrtype != y.Header().Rrtype || rrData(x) != rrData(y) || soaMin(x) != soaMin(y) {
				return fmt.Sprintf("section %d record %d: %s vs %s", i, j, x, y)
			}
		}
	}

	return ""
}

// sameRecords compares rcode and records only (OPT excluded, TTLs masked).
func sameRecords(a, b *dns.Msg) bool {
	if a.Rcode != b.Rcode {
		return false
	}
	sa, sb := sections(a), sections(b)
	for i := range sa {
		if len(sa[i]) != len(sb[i]) {
			return false
		}
		for j := range sa[i] {
			if sa[i][j].Header().Rrtype != sb[i][j].Header().Rrtype || rrData(sa[i][j]) != rrData(sb[i][j]) {
				return false
			}
		}
	}

	return true
}

// cacheableSpec is the property's list: complete NOERROR (an answer of the
// asked type), NODATA (SOA in the authority section), NXDOMAIN, SERVFAIL.
func cacheableSpec(fresh *dns.Msg, qt uint16) bool {
	if fresh.Truncated {
		return false
	}
	switch fresh.Rcode {
	case dns.RcodeNameError, dns.RcodeServerFailure:
		return true
	case dns.RcodeSuccess:
		for _, rr := range fresh.Answer {
			if rr.Header().Rrtype == qt {
				return true
			}
		}
		for _, rr := range fresh.Ns {
			if rr.Header().Rrtype == dns.TypeSOA {
				return true
			}
		}
	}

	return false
}

// lifeSpec is the longest an answer may be served: its smallest record TTL,
// at most 30 s for SERVFAIL, at least the minimum TTL when the override is on.
func lifeSpec(c caseCfg, fresh *dns.Msg) (lifeNs int64) {
	lowest := int64(-1)
	for _, sec := range sections(fresh) {
		for _, rr := range sec {
			if t := int64(rr.Header().Ttl); lowest < 0 || t < lowest {
				lowest = t
			}
		}
	}
	if fresh.Rcode == dns.RcodeServerFailure {
		if lowest < 0 || lowest > 30 {
			lowest = 30
		}

		return lowest * secNs
	}
	if lowest < 0 {
		lowest = 0
	}
	lifeNs = lowest * secNs
	if c.override {
		lifeNs = max(lifeNs, int64(c.minTTL))
	}

	return lifeNs
}

// checkHit is the property oracle for one response served from cache.
//
// fillers are the earlier requests of the case with the same question, DO bit
// and family that went to the upstream; freshOf answers one of them from a
// fresh instance.  They serve to name one known class precisely (see
// known_findings.d/C04.json): the answer a client WITHOUT a GeoIP subnet got
// for the zero prefix is shared with clients of every location.
func checkHit(r *hlib.Result, c caseCfg, q reqSpec, got, fresh *dns.Msg, ageNs int64, hadMiss bool, replay func() any,
	fillers []reqSpec, freshOf func(f reqSpec) *dns.Msg) {
	pfx := "simple:"
	if c.kind == 'e' {
		pfx = "ecs:"
	}
	if !hadMiss {
		r.Violate(pfx+"hit-without-prior-miss", fmt.Sprintf("%s: answered from cache although no earlier query had "+
			"the same name, type, class and DO bit: %s", q.tokens(), showMsg(got)), replay())

		return
	}
	if got.Question[0].Qclass != q.qclass || got.Question[0].Qtype != q.qtype || !strings.EqualFold(got.Question[0].Name, q.name) {
		r.Violate(pfx+"hit-question-not-echoed", fmt.Sprintf("%s: cached answer carries question %v", q.tokens(), got.Question), replay())

		return
	}
	// known names the known classes precisely (see known_findings.d/C04.json);
	// each says which earlier filler explains the cached answer, and the cached
	// answer must be, in every respect the oracle compares, the fresh answer to
	// that filler's variant of the request.
	aaLike := func(ff *dns.Msg) bool { return c.kind == 's' || ff.Authoritative == got.Authoritative }
	known := func() (sig, text string) {
		lname := strings.ToLower(q.name)
		// Neither cache keys on the CD or the AD bit of the request; both bits
		// are forwarded to the upstream.
		for _, f := range fillers {
			q2, bit := q, ""
			switch {
			case isCDValName(lname) && f.cd != q.cd:
				q2.cd, bit = f.cd, "cd"
			case isADReqName(lname) && f.ad != q.ad:
				q2.ad, bit = f.ad, "ad-request"
			default:
				continue
			}
			ff := freshOf(q2)
			if ff == nil {
				continue
			}
			g2 := got.Copy()
			g2.CheckingDisabled = q2.cd
			if sameModTTL(g2, ff) == "" && aaLike(ff) {
				return pfx + bit + "-not-in-key", fmt.Sprintf("%s: served from cache the answer the upstream gave %s (other "+
					"%s bit, forwarded to the upstream, not part of the key): cached %s, fresh %s", q.show(), f.show(), bit,
					showMsg(got), showMsg(fresh))
			}
		}
		// The answer a client WITHOUT a GeoIP subnet got for the zero prefix is
		// shared with clients of every location.
		for _, f := range fillers {
			if c.kind != 'e' || f.declined || f.fwdSubnet().Bits() != 0 || q.fwdSubnet() == f.fwdSubnet() {
				continue
			}
			if ff := freshOf(f); ff != nil && sameRecords(got, ff) && aaLike(ff) {
				return "ecs:locationless-fill-shared", fmt.Sprintf("%s: served from cache the answer that %s (a client "+
					"without a GeoIP subnet, not declining ECS) got for the zero prefix: cached %s, fresh %s", q.show(), f.show(),
					showMsg(got), showMsg(fresh))
			}
		}

		return "", ""
	}
	if d := sameModTTL(got, fresh); d != "" {
		if sig, text := known(); sig != "" {
			r.Violate(sig, text+" ("+d+")", replay())

			return
		}
		r.Violate(pfx+"hit-differs-from-fresh", fmt.Sprintf("%s: cached answer differs from a fresh one (%s): "+
			"cached %s, fresh %s", q.tokens(), d, showMsg(got), showMsg(fresh)), replay())

		return
	}
	if fresh.Authoritative != got.Authoritative {
		// Known: the simple cache builds its answer with SetReply and never
		// copies AA.  For the ECS cache the flag may be the only visible
		// difference of one of the classes above.  Anything else is new.
		sig := pfx + "hit-aa-differs-from-fresh"
		text := fmt.Sprintf("%s: the cached answer has AA=%v, a fresh one AA=%v", q.tokens(), got.Authoritative, fresh.Authoritative)
		if c.kind == 's' && fresh.Authoritative && !got.Authoritative {
			sig = "simple:hit-clears-aa"
		} else if ksig, ktext := known(); ksig != "" {
			r.Violate(ksig, ktext+" (AA flag)", replay())

			return
		}
		r.Violate(sig, text, replay())
	}
	if !cacheableSpec(fresh, q.qtype) {
		r.Violate(pfx+"uncacheable-served-from-cache", fmt.Sprintf("%s: answer %s is neither a complete NOERROR/NODATA "+
			"nor NXDOMAIN nor SERVFAIL but was served from cache", q.tokens(), showMsg(fresh)), replay())
	}
	if life := lifeSpec(c, fresh); ageNs > life {
		r.Violate(pfx+"served-after-expiry", fmt.Sprintf("%s: served from cache at age %d ms, answer expires after "+
			"%d ms: %s", q.tokens(), ageNs/1e6, life/1e6, showMsg(got)), replay())
	}
	sg, sf := sections(got), sections(fresh)
	for i := range sg {
		for j := range sg[i] {
			orig := sf[i][j].Header().Ttl
			if bound, ttl := leftRounded(orig, ageNs), sg[i][j].Header().Ttl; ttl > bound {
				r.Violate(pfx+"ttl-exceeds-remaining", fmt.Sprintf("%s: record %d of section %d served with TTL %d at "+
					"age %d ms, original TTL %d leaves at most %d", q.tokens(), j, i, ttl, ageNs/1e6, orig, bound), replay())

				return
			}
		}
	}
}

// ---------------------------------------------------------------------------
// Histories.

type op struct {
	kind  byte // 'q' query, 'e' evict, 'a' advance, 'f' query while the upstream fails
	q     reqSpec
	dtMs  int64
	fault int
	label string
}

func (o op) String() string {
	switch o.kind {
	case 'q':
		return "q " + o.q.show()
	case 'e':
		return "evict " + o.q.show()
	case 'f':
		return "q-upstream-" + faultNames[o.fault] + " " + o.q.show()
	default:
		return fmt.Sprintf("advance %dms", o.dtMs)
	}
}

// runCase drives one history through the real middleware, the oracle and the
// model.  It reports whether the oracle or the model comparison failed.
func runCase(r *hlib.Result, m *hlib.Model, c caseCfg, useed uint64, ops []op, record bool) (failed bool) {
	u := &universe{seed: useed, ecs: c.kind == 'e'}
	var nowMs int64
	offset := func() time.Duration { return time.Duration(nowMs) * time.Millisecond }
	h, evict := newHandler(c, u, offset)
	lines := []string{c.line()}
	var gots []string
	lastMiss := map[string]int64{}
	fills := map[string][]reqSpec{}
	freshOf := func(f reqSpec) *dns.Msg {
		fh, _ := newHandler(c, &universe{seed: useed, ecs: c.kind == 'e'}, func() time.Duration { return 0 })
		fm, _ := exchange(fh, f)

		return fm
	}
	hits, misses, faults := 0, 0, 0
	seq := int64(0)
	start := time.Now()
	replay := func() any {
		var s []string
		for _, o := range ops {
			s = append(s, o.String())
		}

		return map[string]any{"config": c.line(), "universe": useed, "ops": s}
	}
	nViolBefore := len(r.Violations)
	for _, o := range ops {
		seq++
		switch o.kind {
		case 'a':
			nowMs += o.dtMs
		case 'e':
			evict(o.q)
			lines = append(lines, "evict "+o.q.tokens())
			gots = append(gots, "ok")
		case 'q', 'f':
			before := u.calls
			if o.kind == 'f' {
				u.fault = o.fault
				if !u.ecs && o.fault == faultBadECS {
					// The simple cache does not read ECS data.
					u.fault = faultErr
				}
			}
			got, err := exchange(h, o.q)
			u.fault = faultNone
			hit := u.calls == before
			if o.kind == 'f' && !hit {
				// The request reached the broken upstream: nothing may be
				// answered and nothing may be remembered (the latter shows in
				// the following steps: this request is no filler).
				lines = append(lines, fmt.Sprintf("qf %d %s", nowMs*1e6+seq, o.q.tokens()))
				gots = append(gots, "F")
				faults++
				r.Count(fmt.Sprintf("history.%c.fault.%s", c.kind, faultNames[o.fault]))
				pfx := "simple:"
				if u.ecs {
					pfx = "ecs:"
				}
				if got != nil {
					r.Violate(pfx+"answered-although-upstream-failed", fmt.Sprintf("%s: the upstream failed (%s) but the "+
						"middleware wrote %s", o.q.show(), faultNames[o.fault], showMsg(got)), replay())
				}
				if err == nil && o.fault != faultNoMsg {
					r.Violate(pfx+"upstream-error-swallowed", fmt.Sprintf("%s: the upstream failed (%s) but the "+
						"middleware reported success", o.q.show(), faultNames[o.fault]), replay())
				}
				if u.handed != nil {
					clobber(u.handed)
				}

				continue
			}
			if err != nil || got == nil {
				r.Violate("middleware-error", fmt.Sprintf("%s: error %v, response %v", o.q.show(), err, got), replay())

				return true
			}
			if o.kind == 'f' {
				// Served from cache: the upstream was not needed.
				lines = append(lines, fmt.Sprintf("qf %d %s", nowMs*1e6+seq, o.q.tokens()))
			} else {
				ua, scope8, fake := u.expected(o.q)
				scope := int(scope8)
				if !u.ecs && len(ua.Question) == 1 {
					// Simple cache: the class the answer echoes (model `k` only).
					scope = int(ua.Question[0].Qclass)
				}
				lines = append(lines, fmt.Sprintf("q %d %s %d %s %s", nowMs*1e6+seq, o.q.tokens(), scope, b2s(fake), msgTokens(ua)))
			}
			tag := "M "
			if hit {
				tag = "H "
				hits++
			} else {
				misses++
			}
			gots = append(gots, tag+showMsg(got))
			if want := hdrTokens(o.q.msg()); !hit && u.lastHdr != want {
				// Oracle: "fresh" means the upstream's answer to THIS request; a
				// cache that alters question or header bits on the way (sets CD,
				// clears AD or RD, folds the name) asks something else.
				pfx := "simple:"
				if u.ecs {
					pfx = "ecs:"
				}
				r.Violate(pfx+"forwarded-request-altered", fmt.Sprintf("%s: the upstream was asked %q, the client asked %q",
					o.q.show(), u.lastHdr, want), replay())
			}
			if !hit && u.ecs {
				// What the middleware forwarded on the miss.
				lines = append(lines, "fwd "+o.q.tokens())
				gots = append(gots, u.lastFwd)
			}
			if !hit && u.handed != nil {
				// The upstream's own message is reused as well.
				clobber(u.handed)
			}

			// The property oracle: a fresh instance answers the same request.
			k := o.q.okey(u.ecs, u)
			if hit {
				fu := &universe{seed: useed, ecs: u.ecs}
				fh, _ := newHandler(c, fu, func() time.Duration { return 0 })
				fresh, ferr := exchange(fh, o.q)
				if ferr != nil || fresh == nil {
					r.Violate("middleware-error", fmt.Sprintf("%s: fresh instance: error %v", o.q.show(), ferr), replay())

					return true
				}
				t0, had := lastMiss[k]
				checkHit(r, c, o.q, got, fresh, (nowMs-t0)*1e6, had, replay, fills[k], freshOf)
			} else {
				lastMiss[k] = nowMs
				fills[k] = append(fills[k], o.q)
			}
		}
	}
	slow := time.Since(start) > 8*time.Millisecond
	if record {
		r.Case(strings.Join(lines, "\n"), hits > 0 && misses > 0)
		r.Distribution[fmt.Sprintf("history.%c.hits", c.kind)] += hits
		r.Distribution[fmt.Sprintf("history.%c.misses", c.kind)] += misses
		r.Distribution[fmt.Sprintf("history.%c.faults", c.kind)] += faults
	}
	failed = len(r.Violations) > nViolBefore
	if slow {
		// Scheduling noise could move an age across a rounding or expiry
		// boundary; the oracle above is insensitive to that, the exact
		// comparison with the model is not.
		r.Count("discard.slow_case_not_compared_with_model")

		return failed
	}
	answers := m.Batch(lines)[1:]
	r.Traces++
	for i := range gots {
		if gots[i] != answers[i] {
			failed = true
			r.Disagree("c04-history", fmt.Sprintf("config %q step %d %q: real %q, model %q", c.line(), i, lines[i+1],
				gots[i], answers[i]), replay())

			break
		}
	}

	return failed
}

var namePool = []string{
	"example.com.", "EXAMPLE.com.", "ExAmPlE.CoM.", "example.org.", "a.example.com.",
	"ecs.example.com.", "ECS.example.COM.", "ecs2.example.com.", "noedns.example.com.", "NOEDNS.example.com.",
	"126.com.", "126.COM.", "nodoecho.example.com.", "NoDoEcho.example.com.", "classecho.example.com.",
	// Round 5: validating upstreams (answer depends on the forwarded CD bit;
	// AD bit only for requests with AD or DO), plain and ECS-tailored.
	"cdval.example.com.", "ecs-cdval.example.com.", "adreq.example.com.", "CDVAL.example.com.",
	// Round 4: names of the maximum length that differ in their last resp.
	// first octet only, one of them also in upper case; labels with escaped
	// octets (miekg/dns renders a non-printable octet as \DDD and a dot inside
	// a label as \.): \192 and \224 are different names, case folding is for
	// ASCII letters only; the root.
	longName('a', 'a'), longName('a', 'b'), longName('b', 'a'), strings.ToUpper(longName('a', 'b')),
	"\\192x.example.com.", "\\224x.example.com.", "\\192X.example.com.", "a\\.example.com.", "a.example.com\\.org.", ".",
}

// longName is a name of 255 octets on the wire: three labels of 63 octets and
// one of 61; first is its first octet, last its last one.
func longName(first, last byte) string {
	l := strings.Repeat("x", 62)
	end := strings.Repeat("y", 60)

	return string(first) + l + "." + "m" + l + "." + "n" + l + "." + end + string(last) + "."
}

var qtypePool = []uint16{dns.TypeA, dns.TypeA, dns.TypeAAAA, dns.TypeTXT, dns.TypeCNAME, dns.TypeDS, dns.TypeRRSIG,
	dns.TypeCAA, dns.TypeHTTPS, typPrivate, dns.TypeSOA, dns.TypeSIG, dns.TypeNS, dns.TypeANY}

func genReq(rng *rand.Rand, names []string, ecs bool) (q reqSpec) {
	q.name = names[rng.IntN(len(names))]
	q.qtype = qtypePool[rng.IntN(len(qtypePool))]
	q.qclass = dns.ClassINET
	switch rng.IntN(16) {
	case 0, 1:
		q.qclass = dns.ClassCHAOS
	case 2:
		q.qclass = classPrivate
	}
	q.do = rng.IntN(3) == 0
	q.edns = q.do || rng.IntN(2) == 0
	q.ad = rng.IntN(3) == 0
	q.rd = rng.IntN(4) != 0
	q.cd = rng.IntN(4) == 0
	if ecs {
		q.fam6 = rng.IntN(4) == 0
		q.ctry = rng.IntN(len(countries))
		switch rng.IntN(6) {
		case 0:
			q.declined = true
			q.remoteOther = rng.IntN(4) == 0
		case 1:
			q.clientECS = true
			q.remoteOther = rng.IntN(4) == 0
			q.ecsNoLoc = rng.IntN(4) == 0
		}
	}

	return q
}

var advPool = []int64{0, 0, 10, 400, 490, 500, 510, 990, 1000, 1010, 1490, 1500, 1510, 2000, 2500, 3000, 4500, 5000,
	9500, 10000, 28500, 29500, 30000, 30010, 31000, 59500, 60000, 300000,
	// Round 4: beyond the expiry of the long-lived answers (TTL 1 h, 1 d, 1 w).
	3600500, 86400500, 604800500}

var cfgPool = []caseCfg{
	{minTTL: 0, override: false},
	{minTTL: 0, override: false},
	{minTTL: 10 * time.Second, override: true},
	{minTTL: 2500 * time.Millisecond, override: true},
	{minTTL: 60 * time.Second, override: false},
	{minTTL: 0, override: true},
}

func genHistory(rng *rand.Rand, ecs bool) (ops []op) {
	// A small sub-pool per case so that requests collide.
	nNames := 1 + rng.IntN(4)
	names := make([]string, nNames)
	base := rng.IntN(len(namePool))
	for i := range names {
		if rng.IntN(2) == 0 {
			names[i] = namePool[(base+i)%len(namePool)]
		} else {
			names[i] = namePool[rng.IntN(len(namePool))]
		}
	}
	n := 4 + rng.IntN(28)
	var recent []reqSpec
	for i := 0; i < n; i++ {
		switch k := rng.IntN(20); {
		case k < 6:
			ops = append(ops, op{kind: 'a', dtMs: advPool[rng.IntN(len(advPool))]})
		case k < 7 && len(recent) > 0:
			ops = append(ops, op{kind: 'e', q: recent[rng.IntN(len(recent))]})
		default:
			var q reqSpec
			switch {
			case len(recent) > 0 && rng.IntN(10) < 4:
				// Repeat an earlier request, possibly with one field changed.
				q = recent[rng.IntN(len(recent))]
				switch rng.IntN(10) {
				case 0:
					q.do = !q.do
				case 1:
					q.qtype = qtypePool[rng.IntN(len(qtypePool))]
				case 2:
					q.name = strings.ToUpper(q.name)
				case 3:
					q.ad, q.cd = !q.ad, rng.IntN(2) == 0
				case 4:
					if ecs {
						q.ctry = rng.IntN(len(countries))
					}
				case 5:
					if ecs {
						q.declined = !q.declined
						q.clientECS, q.ecsNoLoc = false, false
					}
				}
			default:
				q = genReq(rng, names, ecs)
			}
			recent = append(recent, q)
			if rng.IntN(9) == 0 {
				// The same request while the upstream is broken.
				ops = append(ops, op{kind: 'f', q: q, fault: 1 + rng.IntN(faultCount-1)})
			} else {
				ops = append(ops, op{kind: 'q', q: q})
			}
		}
	}

	return ops
}

func historyCampaign(o *hlib.Opts, r *hlib.Result, m *hlib.Model) {
	rng := o.Rand("history")
	n := 6000
	if o.Thorough() {
		n = 40000
	}
	for i := 0; i < n; i++ {
		c := cfgPool[rng.IntN(len(cfgPool))]
		c.kind = 's'
		if i%2 == 1 {
			c.kind = 'e'
		}
		useed := rng.Uint64()
		ops := genHistory(rng, c.kind == 'e')
		if runCase(r, m, c, useed, ops, true) && len(r.Samples) < 9 {
			small := hlib.Shrink(ops, func(cand []op) bool {
				scratch := hlib.NewResult("C04", o)

				return runCase(scratch, m, c, useed, cand, false)
			})
			var s []string
			for _, x := range small {
				s = append(s, x.String())
			}
			r.Sample(map[string]any{"shrunk_failing_history": s, "config": c.line(), "universe": useed}, 9)
		}
		if i < 3 {
			var s []string
			for _, x := range ops {
				s = append(s, x.String())
			}
			r.Sample(map[string]any{"history": s, "config": c.line()}, 9)
		}
	}
}

// boundaryCampaign: one entry per case, read back at ages swept around every
// half-second boundary up to and beyond its expiry.
func boundaryCampaign(o *hlib.Opts, r *hlib.Result, m *hlib.Model) {
	rng := o.Rand("boundary")
	n := 1000
	if o.Thorough() {
		n = 4000
	}
	for i := 0; i < n; i++ {
		c := cfgPool[rng.IntN(len(cfgPool))]
		c.kind = 's'
		if i%2 == 1 {
			c.kind = 'e'
		}
		q := genReq(rng, namePool[:5], c.kind == 'e')
		ops := []op{{kind: 'q', q: q}}
		// Ages ttl*1000 + d for the TTLs of the pool, d around the boundaries.
		t := int64(ttlPool[rng.IntN(7)]) * 1000
		var cur int64
		for _, age := range []int64{10, 400, 490, 500, 510, t - 1000, t - 510, t - 500, t - 490, t - 250, t - 10, t, t + 10, t + 510} {
			if age > cur {
				ops = append(ops, op{kind: 'a', dtMs: age - cur}, op{kind: 'q', q: q})
				cur = age
			}
		}
		runCase(r, m, c, rng.Uint64(), ops, true)
		r.Count("boundary.cases")
	}
}

// pairCampaign (thorough): exhaustive over ordered pairs of requests from a
// small pool and a grid of gaps: does the second request see the first one's
// answer exactly when the property allows it.
func pairCampaign(o *hlib.Opts, r *hlib.Result, m *hlib.Model) {
	rng := o.Rand("pairs")
	var pool []reqSpec
	for _, name := range []string{"example.com.", "EXAMPLE.COM.", "example.org.", "nodoecho.example.com.", "classecho.example.com."} {
		for _, qt := range []uint16{dns.TypeA, dns.TypeAAAA, dns.TypeCAA} {
			for _, qc := range []uint16{dns.ClassINET, dns.ClassCHAOS} {
				for _, do := range []bool{false, true} {
					pool = append(pool, reqSpec{name: name, qtype: qt, qclass: qc, do: do, edns: do, rd: true})
				}
			}
		}
	}
	ecsPool := append([]reqSpec{}, pool[:12]...)
	for _, q := range pool[:4] {
		q.name = "ecs.example.com."
		for _, v := range []struct {
			ctry     int
			fam6     bool
			declined bool
		}{{0, false, false}, {1, false, false}, {0, true, false}, {0, false, true}, {ctryNested, false, false}, {ctryNone, false, false}} {
			q.ctry, q.fam6, q.declined = v.ctry, v.fam6, v.declined
			ecsPool = append(ecsPool, q)
		}
	}
	for _, kind := range []byte{'s', 'e'} {
		p := pool
		if kind == 'e' {
			p = ecsPool
		}
		for _, c := range []caseCfg{{}, {minTTL: 10 * time.Second, override: true}} {
			c.kind = kind
			for _, gap := range []int64{0, 490, 1500, 2010, 30010} {
				for _, q1 := range p {
					for _, q2 := range p {
						useed := uint64(rng.IntN(64))
						runCase(r, m, c, useed, []op{{kind: 'q', q: q1}, {kind: 'a', dtMs: gap}, {kind: 'q', q: q2},
							{kind: 'q', q: q1}}, true)
					}
				}
			}
		}
	}
	r.Count("pairs.exhaustive_grid_done")
	r.Exhaustive = true
}

// ---------------------------------------------------------------------------
// Function-level correspondence.

func genRawMsg(rng *rand.Rand, q reqSpec) (msg *dns.Msg) {
	u := &universe{seed: rng.Uint64()}
	req := q.msg()
	msg = u.answer(req)
	// Malformed stream on top of the structured one.
	switch rng.IntN(12) {
	case 0:
		msg.Question = nil
	case 1:
		msg.Question = append(msg.Question, msg.Question[0])
	case 2:
		if len(msg.Answer) > 0 {
			msg.Answer[0].Header().Ttl = 4294967295
		}
	case 3:
		msg.Extra = append(msg.Extra, &dns.OPT{Hdr: dns.RR_Header{Name: ".", Rrtype: dns.TypeOPT, Ttl: 0x8000}})
	case 4:
		msg.Extra = append([]dns.RR{&dns.OPT{Hdr: dns.RR_Header{Name: ".", Rrtype: dns.TypeOPT, Ttl: 5}}}, msg.Extra...)
	case 5:
		msg.Ns = append(msg.Ns, mkRR(dns.TypeSOA, "example.com.", 1, pickTTL(rng), rng))
	}

	return msg
}

func funcCampaign(o *hlib.Opts, r *hlib.Result, m *hlib.Model) {
	rng := o.Rand("func")
	n := 3000
	if o.Thorough() {
		n = 30000
	}
	var lines, gots, what []string
	for i := 0; i < n; i++ {
		q := genReq(rng, namePool, false)
		msg := genRawMsg(rng, q)
		toks := msgTokens(msg)
		qt := q.qtype
		if len(msg.Question) > 0 {
			qt = msg.Question[0].Qtype
		}

		low := cache.VerifC04FindLowestTTL(msg)
		if low2 := dnsmsg.FindLowestTTL(msg); low2 != low {
			r.Disagree("c04-lowest-two-copies", fmt.Sprintf("cache.findLowestTTL=%d dnsmsg.FindLowestTTL=%d on %s", low, low2, toks), toks)
		}
		lines, gots, what = append(lines, "low "+toks), append(gots, fmt.Sprint(low)), append(what, "findLowestTTL")
		// Oracle: the lifetime never exceeds any record's own TTL, nor 30 s for SERVFAIL.
		for _, sec := range sections(msg) {
			for _, rr := range sec {
				if low > rr.Header().Ttl {
					r.Violate("lowest-ttl-above-a-record", fmt.Sprintf("lifetime %d s exceeds TTL of %s", low, rr), toks)
				}
			}
		}
		if msg.Rcode == dns.RcodeServerFailure && low > 30 {
			r.Violate("servfail-lifetime-above-30s", fmt.Sprintf("SERVFAIL lifetime %d s", low), toks)
		}

		if len(msg.Question) > 0 {
			c1, c2 := cache.VerifC04IsCacheable(msg), ecscache.VerifC04IsCacheable(msg)
			if c1 != c2 {
				r.Disagree("c04-cacheable-two-copies", fmt.Sprintf("cache=%v ecscache=%v on %s", c1, c2, toks), toks)
			}
			lines = append(lines, fmt.Sprintf("cacheable %d %s", qt, toks))
			gots, what = append(gots, b2s(c1)), append(what, "isCacheable")
			if c1 && (len(msg.Question) != 1 || !cacheableSpec(msg, qt)) {
				r.Violate("uncacheable-accepted", fmt.Sprintf("isCacheable accepts %s", showMsg(msg)), toks)
			}
			r.Count("func.cacheable." + b2s(c1))
		}

		// rmHopToHopData on a copy.
		cp := msg.Copy()
		ecscache.VerifC04RmHopToHopData(cp, qt, q.do)
		lines = append(lines, fmt.Sprintf("rmhop %d %s %s", qt, b2s(q.do), toks))
		gots = append(gots, fmt.Sprintf("%d %d %d %s", len(cp.Answer), len(cp.Ns), len(cp.Extra), showMsg(cp)))
		what = append(what, "rmHopToHopData")
		r.Case("f "+toks, low > 0)
		r.Count(fmt.Sprintf("func.rcode.%d", msg.Rcode))
	}
	answers := m.Batch(lines)
	for i := range lines {
		if answers[i] != gots[i] {
			r.Disagree("c04-"+what[i], fmt.Sprintf("%q: real %q, model %q", lines[i], gots[i], answers[i]), lines[i])
		}
	}

	// fromCacheItem at chosen ages.  The hook stamps the item `age` before the
	// real clock, so the real age is age + δ with a tiny positive δ; ages are
	// multiples of 10 ms and the model is asked at age + 1 ns.
	lines, gots, what = nil, nil, nil
	nt := 1500
	if o.Thorough() {
		nt = 15000
	}
	for i := 0; i < nt; i++ {
		q := genReq(rng, namePool[:4], false)
		u := &universe{seed: rng.Uint64()}
		msg := u.answer(q.msg())
		low := dnsmsg.FindLowestTTL(msg)
		if low == 0 || low > 400 {
			continue
		}
		offs := []int64{0, 10, 400, 490, 500, 510, 990, 1000}
		ageMs := int64(low)*1000 - offs[rng.IntN(len(offs))] - 1000*int64(rng.IntN(3))
		if rng.IntN(6) == 0 {
			ageMs = int64(low)*1000 + []int64{10, 500, 510, 5000}[rng.IntN(4)]
		}
		if ageMs < 0 {
			ageMs = 0
		}
		age := time.Duration(ageMs) * time.Millisecond
		for _, kind := range []string{"s", "e"} {
			t0 := time.Now()
			var resp *dns.Msg
			if kind == "s" {
				resp = cache.VerifC04FromCacheItem(msg, q.msg(), age)
			} else {
				resp = ecscache.VerifC04FromCacheItem(msg, q.msg(), q.do, age)
			}
			if time.Since(t0) > 4*time.Millisecond {
				r.Count("discard.slow_fromCacheItem")

				continue
			}
			ttls := map[uint32]bool{}
			for si, sec := range sections(resp) {
				for j, rr := range sec {
					ttls[rr.Header().Ttl] = true
					// Oracle, for ages at which the entry is still alive.
					orig := sections(msg)[si][j].Header().Ttl
					if bound := leftRounded(orig, int64(age)); int64(age) < int64(low)*secNs && rr.Header().Ttl > bound {
						pfx := map[string]string{"s": "simple:", "e": "ecs:"}[kind]
						r.Violate(pfx+"fromCacheItem-ttl-exceeds-remaining", fmt.Sprintf("fromCacheItem: item with lowest TTL %d at age %d ms "+
							"(still alive) serves TTL %d for a record of original TTL %d; at most %d is left", low, ageMs,
							rr.Header().Ttl, orig, bound), map[string]any{"msg": toksOf(msg), "age_ms": ageMs, "cache": kind})
					}
				}
			}
			if len(ttls) == 1 {
				for t := range ttls {
					mk := kind
					if kind == "s" {
						mk = simpleKind
					}
					lines = append(lines, fmt.Sprintf("ttl %s %d %d", mk, low, int64(age)+1))
					gots, what = append(gots, fmt.Sprint(t)), append(what, "fromCacheItem")
				}
			}
			r.Case(fmt.Sprintf("t %s %d %d", kind, low, ageMs), ageMs > 0)
			switch {
			case ageMs > int64(low)*1000:
				r.Count("ttl.age.beyond_expiry")
			case ageMs > int64(low)*1000-500:
				r.Count("ttl.age.last_half_second")
			default:
				r.Count("ttl.age.earlier")
			}
		}
	}
	answers = m.Batch(lines)
	for i := range lines {
		if answers[i] != gots[i] {
			r.Disagree("c04-"+what[i], fmt.Sprintf("%q: real %q, model %q", lines[i], gots[i], answers[i]), lines[i])
		}
	}
	ttlGrid(o, r, m)
}

// ttlGrid: exhaustive small scope for the TTL arithmetic of both fromCacheItem
// functions: every lowest TTL from 1 to 6 s (and 30, 31 for SERVFAIL's cap) at
// every age on a 50 ms grid from 0 to 1.5 s beyond expiry, which includes every
// half-second rounding boundary and the expiry itself.  The oracle is the
// property's bound, the model is asked for the same age (+1 ns, see above).
func ttlGrid(o *hlib.Opts, r *hlib.Result, m *hlib.Model) {
	var lines, gots []string
	q := reqSpec{name: "grid.example.", qtype: dns.TypeA, qclass: dns.ClassINET, rd: true}
	step := int64(50)
	if o.Thorough() {
		step = 10
	}
	for _, low := range []uint32{1, 2, 3, 4, 5, 6, 30, 31} {
		for _, rcode := range []int{dns.RcodeSuccess, dns.RcodeServerFailure} {
			msg := &dns.Msg{}
			msg.SetReply(q.msg())
			msg.Rcode = rcode
			msg.Answer = []dns.RR{
				&dns.A{Hdr: dns.RR_Header{Name: q.name, Rrtype: dns.TypeA, Class: dns.ClassINET, Ttl: low}, A: net.IPv4(10, 0, 0, 1).To4()},
				&dns.A{Hdr: dns.RR_Header{Name: q.name, Rrtype: dns.TypeA, Class: dns.ClassINET, Ttl: low + 7}, A: net.IPv4(10, 0, 0, 2).To4()},
			}
			eff := dnsmsg.FindLowestTTL(msg)
			from := int64(0)
			if low >= 30 {
				from = int64(eff)*1000 - 2000
			}
			for ageMs := from; ageMs <= int64(eff)*1000+1500; ageMs += step {
				age := time.Duration(ageMs) * time.Millisecond
				for _, kind := range []string{"s", "e"} {
					t0 := time.Now()
					var resp *dns.Msg
					if kind == "s" {
						resp = cache.VerifC04FromCacheItem(msg, q.msg(), age)
					} else {
						resp = ecscache.VerifC04FromCacheItem(msg, q.msg(), false, age)
					}
					if time.Since(t0) > 4*time.Millisecond || len(resp.Answer) != 2 {
						r.Count("discard.slow_fromCacheItem")

						continue
					}
					for j, rr := range resp.Answer {
						orig := msg.Answer[j].Header().Ttl
						if bound := leftRounded(orig, int64(age)); rr.Header().Ttl > bound {
							pfx := map[string]string{"s": "simple:", "e": "ecs:"}[kind]
							r.Violate(pfx+"fromCacheItem-ttl-exceeds-remaining", fmt.Sprintf("fromCacheItem: record of original TTL %d "+
								"(lowest TTL of the item %d) served with TTL %d at age %d ms; at most %d is left", orig, eff,
								rr.Header().Ttl, ageMs, bound), map[string]any{"msg": toksOf(msg), "age_ms": ageMs, "cache": kind})
						}
					}
					mk := kind
					if kind == "s" {
						mk = simpleKind
					}
					lines = append(lines, fmt.Sprintf("ttl %s %d %d", mk, eff, int64(age)+1))
					gots = append(gots, fmt.Sprint(resp.Answer[0].Header().Ttl))
					r.Case(fmt.Sprintf("tg %s %d %d %d", kind, low, rcode, ageMs), true)
				}
			}
		}
	}
	r.Count("ttl.grid_exhaustive_done")
	answers := m.Batch(lines)
	for i := range lines {
		if answers[i] != gots[i] {
			r.Disagree("c04-fromCacheItem", fmt.Sprintf("%q: real %q, model %q", lines[i], gots[i], answers[i]), lines[i])
		}
	}
}

func toksOf(m *dns.Msg) string { return msgTokens(m) }

// keyCampaign: key equality over all pairs of a request pool, against the
// model and against the property's own notion of "same question".  The pool is
// a random part plus a full grid over every key component, including type and
// class numbers that agree modulo 256 or in one byte only (so that a key
// layout which drops, truncates or overlaps a field shows up as a collision).
func keyCampaign(o *hlib.Opts, r *hlib.Result, m *hlib.Model) {
	rng := o.Rand("keys")
	var pool []reqSpec
	n := 48
	if o.Thorough() {
		n = 160
	}
	for i := 0; i < n; i++ {
		pool = append(pool, genReq(rng, namePool, true))
	}
	nRandom := len(pool)
	for _, name := range []string{"example.com.", "EXAMPLE.com.", "xample.com."} {
		for _, qt := range []uint16{dns.TypeA, dns.TypeCAA, typPrivate, dns.TypeAAAA, 256} {
			for _, qc := range []uint16{dns.ClassINET, classPrivate, 256} {
				for v := 0; v < 16; v++ {
					pool = append(pool, reqSpec{name: name, qtype: qt, qclass: qc, do: v&1 != 0, edns: v&1 != 0, rd: true,
						fam6: v&2 != 0, declined: v&4 != 0, ctry: v >> 3})
				}
			}
		}
	}
	mw := ecscache.NewMiddleware(&ecscache.MiddlewareConfig{
		Cloner: agdtest.NewCloner(), Logger: slogutil.NewDiscardLogger(), CacheManager: agdcache.EmptyManager{},
		GeoIP: newGeoIP(), NoECSCount: 1, ECSCount: 1,
	})
	ek := func(q reqSpec, dep bool) uint64 {
		return ecscache.VerifC04ToCacheKey(mw, &ecscache.VerifC04Key{Host: q.ri().Host, Subnet: q.fwdSubnet(),
			QType: q.qtype, QClass: q.qclass, ReqDO: q.do, IsECSDeclined: q.declined}, dep)
	}
	type keys struct {
		s      string
		nk, dk uint64
		lname  string
		fwd    netip.Prefix
	}
	ks := make([]keys, len(pool))
	for i, q := range pool {
		ks[i] = keys{s: cache.VerifC04ToCacheKey(q.msg()), nk: ek(q, false), dk: ek(q, true),
			lname: strings.ToLower(q.name), fwd: q.fwdSubnet()}
	}
	var lines, gots []string
	nModel := 6000
	if o.Thorough() {
		nModel = 60000
	}
	// Every pair with at least one random member goes to the model; of the
	// grid x grid pairs a random sample does.
	gridPairs := (len(pool) - nRandom) * (len(pool) - nRandom)
	for i, a := range pool {
		for j, b := range pool {
			same := ks[i].lname == ks[j].lname && a.qtype == b.qtype && a.qclass == b.qclass && a.do == b.do
			s := ks[i].s == ks[j].s
			nk := ks[i].nk == ks[j].nk
			dk := ks[i].dk == ks[j].dk
			if s != same || nk != (same && a.fam6 == b.fam6 && a.declined == b.declined) ||
				dk != (same && a.fam6 == b.fam6 && ks[i].fwd == ks[j].fwd) {
				rep := map[string]any{"a": a.tokens(), "b": b.tokens()}
				if s != same {
					r.Violate("simple:key-separation", fmt.Sprintf("simple cache key equality is %v for %s / %s", s, a.tokens(), b.tokens()), rep)
				}
				if nk != (same && a.fam6 == b.fam6 && a.declined == b.declined) {
					r.Violate("ecs:key-separation", fmt.Sprintf("no-ECS key equality is %v for %s / %s", nk, a.tokens(), b.tokens()), rep)
				}
				if dk != (same && a.fam6 == b.fam6 && ks[i].fwd == ks[j].fwd) {
					r.Violate("ecs:key-separation", fmt.Sprintf("ECS key equality is %v for %s / %s", dk, a.tokens(), b.tokens()), rep)
				}
			}
			r.Distribution["keys.pair.same_"+b2s(same)]++
			if (i >= nRandom && j >= nRandom) && rng.IntN(gridPairs) >= nModel {
				continue
			}
			lines = append(lines, "keyeq s "+a.tokens()+" "+b.tokens(), "keyeq n "+a.tokens()+" "+b.tokens(),
				"keyeq d "+a.tokens()+" "+b.tokens())
			gots = append(gots, b2s(s), b2s(nk), b2s(dk))
			r.Case("k "+a.tokens()+" "+b.tokens(), s || nk || dk)
		}
	}
	r.Count("keys.grid_all_pairs_checked_by_oracle")
	answers := m.Batch(lines)
	for i := range lines {
		if answers[i] != gots[i] {
			r.Disagree("c04-keyeq", fmt.Sprintf("%q: real %q, model %q", lines[i], gots[i], answers[i]), lines[i])
		}
	}
}

// realTimeCampaign: the stock constructors with the real clock and real
// sleeps; many entries age in parallel, and each is read back several times
// (so that anything a hit does to the stored entry — its time stamp, its
// records, its expiry — shows in the next hit; the hook clock of the other
// campaigns hands the middleware a shifted copy of the stored item and cannot
// see that).  The verdicts use measured lower bounds of the age, so scheduling
// delays cannot cause a false alarm.  The quick tier runs a small batch
// (about 2.5 s of wall time, all sleeping in parallel).
func realTimeCampaign(o *hlib.Opts, r *hlib.Result) {
	rng := o.Rand("realtime")
	type job struct {
		c      caseCfg
		q      reqSpec
		useed  uint64
		waitMs []int64
	}
	nJobs := 120
	patterns := [][]int64{{1200, 1200}, {700, 900, 700}, {1200, 600}}
	if o.Thorough() {
		nJobs = 600
		patterns = append(patterns, []int64{300, 800, 1500}, []int64{1600, 1300}, []int64{2100, 800}, []int64{600, 2000, 500},
			[]int64{1100, 1100, 1100}, []int64{2600, 500})
	}
	var jobs []job
	for i := 0; len(jobs) < nJobs && i < 50*nJobs; i++ {
		c := caseCfg{kind: 's'}
		if i%2 == 1 {
			c.kind = 'e'
		}
		j := job{c: c, q: genReq(rng, namePool[:5], c.kind == 'e'), useed: rng.Uint64(), waitMs: patterns[rng.IntN(len(patterns))]}
		// Only answers that live long enough to be hit more than once are of
		// interest here (two thirds of the jobs; the rest is unfiltered).
		if len(jobs)%3 != 0 {
			ua, _, _ := (&universe{seed: j.useed, ecs: c.kind == 'e'}).expected(j.q)
			if low := dnsmsg.FindLowestTTL(ua); low < 3 || low > 10 || !cacheableSpec(ua, j.q.qtype) {
				continue
			}
		}
		jobs = append(jobs, j)
	}
	type res struct {
		j          job
		step       int
		got, fresh *dns.Msg
		hit        bool
		ageLoNs    int64
		err        error
	}
	out := make(chan []res, len(jobs))
	for _, j := range jobs {
		go func() {
			u := &universe{seed: j.useed, ecs: j.c.kind == 'e'}
			var h dnsserver.Handler
			if j.c.kind == 's' {
				h = cache.NewMiddleware(&cache.MiddlewareConfig{Count: 16}).Wrap(u)
			} else {
				h = ecscache.NewMiddleware(&ecscache.MiddlewareConfig{Cloner: agdtest.NewCloner(),
					Logger: slogutil.NewDiscardLogger(), CacheManager: agdcache.EmptyManager{}, GeoIP: newGeoIP(),
					NoECSCount: 16, ECSCount: 16}).Wrap(u)
			}
			fresh, err := exchange(h, j.q)
			if err != nil || fresh == nil {
				out <- []res{{j: j, err: fmt.Errorf("first exchange: %v", err)}}

				return
			}
			setEnd := time.Now()
			var rs []res
			for step, w := range j.waitMs {
				time.Sleep(time.Duration(w) * time.Millisecond)
				getStart := time.Now()
				before := u.calls
				got, gerr := exchange(h, j.q)
				if gerr != nil || got == nil {
					rs = append(rs, res{j: j, step: step, err: fmt.Errorf("read %d: %v", step+1, gerr)})

					break
				}
				hit := u.calls == before
				rs = append(rs, res{j: j, step: step, got: got, fresh: fresh, hit: hit, ageLoNs: int64(getStart.Sub(setEnd))})
				if !hit {
					// The entry was replaced: ages count from here.
					fresh, setEnd = got, time.Now()
				}
			}
			out <- rs
		}()
	}
	for range jobs {
		for _, x := range <-out {
			if x.err != nil {
				r.Violate("middleware-error", fmt.Sprintf("%s: %v", x.j.q.show(), x.err), map[string]any{"real_clock": true,
					"request": x.j.q.show(), "cache": string(x.j.c.kind), "universe": x.j.useed})

				continue
			}
			r.Case(fmt.Sprintf("rt %c %s %v %d", x.j.c.kind, x.j.q.tokens(), x.j.waitMs, x.step), x.hit)
			if x.hit {
				r.Count(fmt.Sprintf("realtime.hit.read%d", x.step+1))
				checkHit(r, x.j.c, x.j.q, x.got, x.fresh, x.ageLoNs, true, func() any {
					return map[string]any{"real_clock": true, "request": x.j.q.tokens(), "sleeps_ms": x.j.waitMs,
						"read": x.step + 1, "universe": x.j.useed}
				}, nil, nil)
			} else {
				r.Count("realtime.miss")
			}
		}
	}
}
