package main

import (
	"context"
	"fmt"
	"net"
	"net/netip"
	"strings"
	"time"

	"github.com/AdguardTeam/AdGuardDNS/internal/cmd"
	"github.com/AdguardTeam/AdGuardDNS/internal/dnssvc"
	"github.com/AdguardTeam/AdGuardDNS/internal/geoip"
	"github.com/AdguardTeam/AdGuardDNS/verifh/hlib"
	"github.com/AdguardTeam/AdGuardDNS/verifh/hlib/stack"
	"github.com/AdguardTeam/golibs/netutil"
	"github.com/miekg/dns"
)

// stackCampaign drives the production handler stack (dnssvc.NewHandlers with
// the cache configured the way internal/dnssvc/handler.go wires it: initial
// middleware, rate-limit middleware computing the request info and the GeoIP
// locations, filtering, pre-upstream, cache) with the real clock.  No model
// here: every response that the warm stack serves without asking the upstream
// is compared with what a fresh stack answers to the same request from the
// same client, and must have been preceded by a query with the same name,
// type, class and DO bit.

// stackAddr is the address a client of country ctry connects from.
func stackAddr(ctry int, fam6 bool) netip.Addr {
	if fam6 {
		return netip.MustParseAddr(fmt.Sprintf("2001:db8:ffff::%x", 16+ctry))
	}

	return netip.AddrFrom4([4]byte{192, 0, 2, byte(16 + ctry)})
}

// stackECSSubnet is the subnet a client puts into its own ECS option to say it
// is in country ctry.
func stackECSSubnet(ctry int, fam6 bool) netip.Prefix {
	if fam6 {
		return netip.MustParsePrefix(fmt.Sprintf("2001:db8:ab%02x::/48", ctry))
	}

	return netip.PrefixFrom(netip.AddrFrom4([4]byte{198, 51, byte(100 + ctry), 0}), 24)
}

// stackGeoData is the fake GeoIP database of the stack.
func stackGeoData(_ string, ip netip.Addr) (l *geoip.Location, err error) {
	for c := range countries {
		for _, fam6 := range []bool{false, true} {
			if ip == stackAddr(c, fam6) || stackECSSubnet(c, fam6).Contains(ip) {
				return &geoip.Location{Country: countries[c], Continent: geoip.ContinentEU, ASN: geoip.ASN(100 + c)}, nil
			}
		}
	}

	return nil, nil
}

func stackGeoSubnet(l *geoip.Location, fam netutil.AddrFamily) (n netip.Prefix, err error) {
	for i, c := range countries {
		if l != nil && c == l.Country {
			return geoSubnet(i, fam == netutil.AddrFamilyIPv6), nil
		}
	}

	return geoSubnet(0, fam == netutil.AddrFamilyIPv6), nil
}

// stackReq builds the wire-level request of q for the stack: the ECS data
// travels in the message, the location comes from the addresses.
func stackReq(q reqSpec) (req *dns.Msg, remote netip.Addr) {
	req = q.msg()
	remote = stackAddr(q.ctry, q.remote6())
	var sub netip.Prefix
	switch {
	case q.declined:
		sub = zeroPrefix(q.fam6)
	case q.clientECS:
		sub = stackECSSubnet(q.ctry, q.fam6)
		if q.ecsNoLoc {
			// A subnet the GeoIP database has no data for.
			sub = netip.MustParsePrefix("203.0.113.0/24")
			if q.fam6 {
				sub = netip.MustParsePrefix("2001:db8:dead::/48")
			}
		}
		remote = stackAddr(q.connCtry(), q.remote6())
	default:
		return req, remote
	}
	if req.IsEdns0() == nil {
		req.SetEdns0(1232, false)
	}
	fam, ip := uint16(1), net.IP(sub.Addr().AsSlice())
	if q.fam6 {
		fam = 2
	}
	opt := req.IsEdns0()
	opt.Option = append(opt.Option, &dns.EDNS0_SUBNET{Code: dns.EDNS0SUBNET, Family: fam, SourceNetmask: uint8(sub.Bits()), Address: ip})

	return req, remote
}

// newStack builds the handler stack with the cache of the case; kind 0 means no
// cache at all.  handler.go registers the simple cache's metrics with the
// process-wide Prometheus registry, so only one stack with the simple cache
// can exist per process.
func newStack(c caseCfg, u *universe) *stack.Stack {
	cc := &dnssvc.CacheConfig{MinTTL: c.mwMinTTL(), ECSCount: 256, NoECSCount: 256, Type: dnssvc.CacheTypeNone,
		OverrideCacheTTL: c.mwOverride()}
	switch c.kind {
	case 's':
		cc.Type = dnssvc.CacheTypeSimple
	case 'e':
		cc.Type = dnssvc.CacheTypeECS
	}
	if c.wired != nil && kindOfType(c.wired.Type) == kindOfType(cc.Type) {
		// The configuration exactly as the production code produced it.
		cc = c.wired
	}

	return stack.New(&stack.Config{Upstream: u, Cache: cc, GeoData: stackGeoData, GeoSubnet: stackGeoSubnet})
}

func stackExchange(st *stack.Stack, q reqSpec) (resp *dns.Msg, err error) {
	defer func() {
		if p := recover(); p != nil {
			err = fmt.Errorf("panic: %v", p)
		}
	}()
	req, remote := stackReq(q)
	out := st.Serve(context.Background(), &stack.Req{Server: st.Servers[0], Msg: req,
		Remote: netip.AddrPortFrom(remote, 5353), Local: netip.MustParseAddrPort("192.0.2.1:53")})
	if out.Resp == nil {
		return nil, out.Err
	}
	resp = out.Resp.Copy()
	clobber(out.Resp)
	clobber(req)

	return resp, out.Err
}

func stackCampaign(o *hlib.Opts, r *hlib.Result) {
	rng := o.Rand("stack")
	n := 120
	if o.Thorough() {
		n = 1200
	}
	// The one stack with the simple cache (no override: its reference is a
	// stack without any cache, whose TTLs are the upstream's), one universe.
	simpleSeed := rng.Uint64()
	simpleU := &universe{seed: simpleSeed}
	simpleRefU := &universe{seed: simpleSeed}
	// Its configuration comes from a configuration file through the production
	// code (round 4): the override is off, so the hour must not show anywhere.
	simpleFile := yamlCache{typ: "simple", size: 256, ecsSize: 0, min: "1h", enabled: false}
	simpleConf, cerr := cmd.VerifC04CacheConfig([]byte(simpleFile.text()))
	if cerr != nil || simpleConf.Type != dnssvc.CacheTypeSimple {
		r.Violate("wiring:validation", fmt.Sprintf("simple cache: %v %+v", cerr, simpleConf), map[string]any{"config_file": simpleFile.text()})

		return
	}
	simpleCfg := caseCfg{kind: 's', minTTL: time.Hour, wired: simpleConf}
	simpleWarm := newStack(simpleCfg, simpleU)
	simpleRef := newStack(caseCfg{}, simpleRefU)
	simpleSeen := map[string][]reqSpec{}
	for i := 0; i < n; i++ {
		c := simpleCfg
		useed := simpleSeed
		u, warm, seen := simpleU, simpleWarm, simpleSeen
		if i%2 == 1 {
			c = cfgPool[rng.IntN(len(cfgPool))]
			c.kind = 'e'
			useed = rng.Uint64()
			u = &universe{seed: useed, ecs: true}
			warm = newStack(c, u)
			seen = map[string][]reqSpec{}
		}
		var ops []string
		hits := 0
		replay := func() any { return map[string]any{"stack": true, "config": c.line(), "universe": useed, "queries": ops} }
		names := namePool[rng.IntN(4):][:3]
		if rng.IntN(4) == 0 {
			// Round 5: validating upstreams behind the whole stack.
			names = []string{"cdval.example.com.", "adreq.example.com.", "ecs-cdval.example.com."}
		}
		var recent []reqSpec
		for k, nq := 0, 6+rng.IntN(14); k < nq; k++ {
			var q reqSpec
			if len(recent) > 0 && rng.IntN(10) < 5 {
				q = recent[rng.IntN(len(recent))]
				switch rng.IntN(8) {
				case 0:
					q.do = !q.do
				case 1:
					q.name = strings.ToUpper(q.name)
				case 2:
					q.ad, q.cd = !q.ad, !q.cd
				case 3:
					q.ctry = rng.IntN(len(countries))
				case 4:
					q.qtype = qtypePool[rng.IntN(len(qtypePool))]
				}
			} else {
				q = genReq(rng, names, c.kind == 'e')
			}
			if q.qclass == dns.ClassCHAOS {
				// The main middleware treats class CHAOS as a request for debug
				// data about the same question in class IN (mainmw/filter.go,
				// debug.go): a documented feature, not a key confusion.
				q.qclass = dns.ClassINET
			}
			recent = append(recent, q)
			ops = append(ops, q.show())
			before := u.calls
			got, err := stackExchange(warm, q)
			if err != nil || got == nil {
				// The stack refuses some requests by itself; that is not the cache.
				r.Count("stack.no_response_or_error")

				continue
			}
			key := q.okey(u.ecs, u)
			if u.calls != before {
				seen[key] = append(seen[key], q)
				r.Count(fmt.Sprintf("stack.%c.miss", c.kind))

				continue
			}
			var fresh *dns.Msg
			var ferr error
			var fcalls int
			if c.kind == 's' {
				fb := simpleRefU.calls
				fresh, ferr = stackExchange(simpleRef, q)
				fcalls = simpleRefU.calls - fb
			} else {
				fu := &universe{seed: useed, ecs: true}
				fresh, ferr = stackExchange(newStack(c, fu), q)
				fcalls = fu.calls
			}
			if ferr != nil || fresh == nil || fcalls == 0 {
				// Answered above the cache (no upstream involved in a fresh stack either).
				r.Count("stack.answered_above_cache")

				continue
			}
			hits++
			r.Count(fmt.Sprintf("stack.%c.hit", c.kind))
			if ln := strings.ToLower(q.name); isCDValName(ln) || isADReqName(ln) {
				// Does the whole stack show the known CD / AD classes too (nothing
				// above the cache strips or fixes the bits)?  Counted, since
				// violations are recorded once per signature.
				for _, f := range seen[key] {
					if (f.cd != q.cd || f.ad != q.ad) && sameModTTL(got, fresh) != "" {
						r.Count(fmt.Sprintf("stack.%c.hit_differs_after_filler_with_other_cd_or_ad", c.kind))

						break
					}
				}
			}
			checkHit(r, c, q, got, fresh, 0, len(seen[key]) > 0, replay, seen[key], func(f reqSpec) *dns.Msg {
				if c.kind == 's' {
					// A process can build one stack with the simple cache only;
					// the reference stack without a cache answers afresh.
					fm, _ := stackExchange(simpleRef, f)

					return fm
				}
				fm, _ := stackExchange(newStack(c, &universe{seed: useed, ecs: true}), f)

				return fm
			})
		}
		r.Case(fmt.Sprintf("stack %s %d %s", c.line(), useed, strings.Join(ops, ";")), hits > 0)
	}
}
