package main

import (
	"context"
	"fmt"
	"strings"
	"time"

	"github.com/AdguardTeam/AdGuardDNS/internal/agd"
	"github.com/AdguardTeam/AdGuardDNS/internal/cmd"
	"github.com/AdguardTeam/AdGuardDNS/internal/dnsserver"
	"github.com/AdguardTeam/AdGuardDNS/internal/dnssvc"
	"github.com/AdguardTeam/AdGuardDNS/internal/geoip"
	"github.com/AdguardTeam/AdGuardDNS/verifh/hlib"
	"github.com/AdguardTeam/AdGuardDNS/verifh/hlib/stack"
	"github.com/miekg/dns"
)

// wiringCampaign (round 4) drives the production wiring of the response cache:
// the `cache` section of a configuration file goes through the unchanged
// yaml decoding, cacheConfig.validate and cacheConfig.toInternal
// (cmd.VerifC04CacheConfig), the result through dnssvc.NewHandlers.
//
//   - What the file says is read here by the oracle's own little parser and by
//     the Lean model (`wire`); a difference in any field is a violation.
//   - Accepted files with an override become members of cfgPool: the history,
//     boundary and pair campaigns then run the real middlewares constructed
//     from the WIRED values against a model and an oracle that go by the FILE,
//     so a wrong unit or a swapped field shows as a TTL above the bound, a
//     lifetime beyond expiry or a disagreement with the model.
//   - For the ECS cache, whose construction NewHandlers allows more than once
//     per process, a stack is built per file: the very first answer shows the
//     configured minimum (answer TTLs are raised to it when the override is on
//     and left alone when it is off), an immediate repetition is served from
//     cache iff a cache was asked for, and an ECS option is forwarded iff the
//     type is `ecs`.

type yamlCache struct {
	typ     string
	size    int
	ecsSize int
	min     string
	enabled bool
}

func (y yamlCache) text() string {
	return fmt.Sprintf("cache:\n  type: %q\n  size: %d\n  ecs_size: %d\n  ttl_override:\n    enabled: %v\n    min: %s\n",
		y.typ, y.size, y.ecsSize, y.enabled, y.min)
}

// specMin is the oracle's reading of a duration: a decimal number and a unit.
func specMin(s string) (d time.Duration, ok bool) {
	units := []struct {
		suffix string
		ns     int64
	}{{"ms", 1e6}, {"s", 1e9}, {"m", 60e9}, {"h", 3600e9}}
	for _, u := range units {
		if num, found := strings.CutSuffix(s, u.suffix); found {
			var n int64
			if _, err := fmt.Sscanf(num, "%d", &n); err != nil || fmt.Sprint(n) != num {
				return 0, false
			}

			return time.Duration(n * u.ns), true
		}
	}

	return 0, false
}

// specKind: 0 no cache, 1 simple, 2 ECS; -1 the file must be rejected.
func (y yamlCache) specKind() int {
	d, ok := specMin(y.min)
	switch {
	case y.typ != "simple" && y.typ != "ecs", y.size < 0, y.typ == "ecs" && y.ecsSize <= 0, !ok, d <= 0:
		return -1
	case y.size == 0:
		return 0
	case y.typ == "simple":
		return 1
	default:
		return 2
	}
}

func kindOfType(t dnssvc.CacheType) int {
	switch t {
	case dnssvc.CacheTypeNone:
		return 0
	case dnssvc.CacheTypeSimple:
		return 1
	case dnssvc.CacheTypeECS:
		return 2
	default:
		return -2
	}
}

var wiredMins = []string{"10s", "2500ms", "1m", "1h", "1500ms", "90s", "2m", "3h"}

func wiringCampaign(o *hlib.Opts, r *hlib.Result, m *hlib.Model) {
	rng := o.Rand("wiring")
	var files []yamlCache
	for _, typ := range []string{"simple", "ecs", "none", ""} {
		for _, size := range []int{0, 1, 256, -1} {
			for _, ecsSize := range []int{0, 64} {
				for _, enabled := range []bool{false, true} {
					files = append(files, yamlCache{typ: typ, size: size, ecsSize: ecsSize, enabled: enabled,
						min: wiredMins[rng.IntN(len(wiredMins))]})
				}
			}
		}
	}
	for _, min := range append([]string{"0s", "-5s", "1000ms", "59m"}, wiredMins...) {
		files = append(files, yamlCache{typ: "ecs", size: 128, ecsSize: 32, enabled: true, min: min},
			yamlCache{typ: "simple", size: 128, ecsSize: 0, enabled: min != "1h", min: min})
	}
	var lines, gots []string
	var replays []string
	nStacks := 0
	for _, y := range files {
		replay := map[string]any{"wiring": true, "config_file": y.text()}
		conf, err := cmd.VerifC04CacheConfig([]byte(y.text()))
		want := y.specKind()
		r.Count(fmt.Sprintf("wiring.file.kind%d", want))
		if (err != nil) != (want < 0) {
			r.Violate("wiring:validation", fmt.Sprintf("configuration accepted=%v (error %v), the documented constraints say "+
				"accepted=%v", err == nil, err, want >= 0), replay)

			continue
		}
		if err != nil {
			continue
		}
		d, _ := specMin(y.min)
		if kindOfType(conf.Type) != want || conf.MinTTL != d || conf.OverrideCacheTTL != y.enabled ||
			conf.NoECSCount != y.size || conf.ECSCount != y.ecsSize {
			r.Violate("wiring:cache-config-differs-from-file", fmt.Sprintf("the file asks for kind %d, min %s, override %v, "+
				"size %d, ecs_size %d; the DNS service gets %+v", want, d, y.enabled, y.size, y.ecsSize, *conf), replay)
		}
		lines = append(lines, fmt.Sprintf("wire %s %d %d %d %s", b2s(y.typ == "simple"), y.size, y.ecsSize, int64(d), b2s(y.enabled)))
		gots = append(gots, fmt.Sprintf("%d %d %s", kindOfType(conf.Type), int64(conf.MinTTL), b2s(conf.OverrideCacheTTL)))
		replays = append(replays, y.text())
		if want != 0 && d < time.Hour {
			// The real middlewares of the other campaigns are built from this.
			cfgPool = append(cfgPool, caseCfg{minTTL: d, override: y.enabled, wired: conf})
		}
		// The simple cache registers its metrics with the process-wide
		// registry: NewHandlers can build it once per process, which the stack
		// campaign does (from a file as well, see stackCampaign).
		if want != 1 && nStacks < 24 {
			nStacks++
			wiredStack(r, rng.Uint64(), y, conf, d, want)
		}
	}
	if len(lines) > 0 {
		answers := m.Batch(append([]string{"cfg s 0 f"}, lines...))[1:]
		for i := range lines {
			if answers[i] != gots[i] {
				r.Disagree("c04-wiring", fmt.Sprintf("%q: real %q, model %q", lines[i], gots[i], answers[i]),
					map[string]any{"wiring": true, "config_file": replays[i]})

				break
			}
		}
	}
	r.Case("wiring "+strings.Join(lines, ";"), true)
	glueCampaign(o, r, m)
}

// glueCampaign: family, declined flag and country the ECS middleware derives
// from the request information (ecsFamFromReq, locFromReq, cr.isECSDeclined),
// observed as the ECS option it forwards on a miss, against the model's `glue`.
func glueCampaign(o *hlib.Opts, r *hlib.Result, m *hlib.Model) {
	rng := o.Rand("glue")
	ctryNo := func(c geoip.Country) int {
		for i, x := range countries {
			if x == c {
				return i + 1
			}
		}

		return 0
	}
	var lines, reals, shows []string
	for i := 0; i < 400; i++ {
		q := genReq(rng, namePool[:5], true)
		ri := q.ri()
		if i%7 == 0 {
			ri.Location = nil
		}
		hasECS, bits, ecs6, ecsCtry, connCtry := ri.ECS != nil, 0, false, 0, 0
		if hasECS {
			bits, ecs6 = ri.ECS.Subnet.Bits(), ri.ECS.Subnet.Addr().Is6()
			if ri.ECS.Location != nil {
				ecsCtry = ctryNo(ri.ECS.Location.Country)
			}
		}
		if ri.Location != nil {
			connCtry = ctryNo(ri.Location.Country)
		}
		u := &universe{seed: 1, ecs: true}
		h, _ := newHandler(caseCfg{kind: 'e'}, u, func() time.Duration { return 0 })
		nrw := dnsserver.NewNonWriterResponseWriter(testAddr, testAddr)
		if err := h.ServeDNS(agd.ContextWithRequestInfo(context.Background(), ri), nrw, q.msg()); err != nil || u.calls != 1 {
			r.Violate("middleware-error", fmt.Sprintf("%s: %v", q.show(), err), map[string]any{"glue": q.show()})

			continue
		}
		lines = append(lines, fmt.Sprintf("glue %s %d %s %s %d %d", b2s(hasECS), bits, b2s(ecs6), b2s(ri.RemoteIP.Is6()), ecsCtry, connCtry))
		reals = append(reals, u.lastFwd)
		shows = append(shows, q.show())
	}
	answers := m.Batch(append([]string{"cfg e 0 f"}, lines...))[1:]
	for i := range lines {
		// The model answers "fam6 declined country"; the subnet follows from
		// the fake GeoIP table (country 0 = none: the table's default, country 0's).
		var f6, decl string
		var ctry int
		_, _ = fmt.Sscanf(answers[i], "%s %s %d", &f6, &decl, &ctry)
		id := 0
		if decl != "1" {
			id = reqSpec{ctry: max(ctry-1, 0), fam6: f6 == "1"}.subnetID()
		}
		want := fmt.Sprintf("%s %d", f6, id)
		if got := strings.SplitN(reals[i], " ", 2); len(got) != 2 || got[1] != want {
			r.Disagree("c04-glue", fmt.Sprintf("%s (%q): forwarded %q, model %q -> %q", shows[i], lines[i], reals[i], answers[i], want),
				map[string]any{"glue": shows[i]})

			break
		}
	}
	r.Count("wiring.glue.cases")
}

// wiredStack runs a few requests through dnssvc.NewHandlers built with conf.
func wiredStack(r *hlib.Result, useed uint64, y yamlCache, conf *dnssvc.CacheConfig, min time.Duration, want int) {
	u := &universe{seed: useed, ecs: true}
	st := stack.New(&stack.Config{Upstream: u, Cache: conf, GeoData: stackGeoData, GeoSubnet: stackGeoSubnet})
	ref := &universe{seed: useed, ecs: true}
	var ops []string
	replay := func() any {
		return map[string]any{"wiring": true, "config_file": y.text(), "universe": useed, "queries": ops}
	}
	minSec := uint32(min / time.Second)
	for i, name := range []string{"example.com.", "example.org.", "a.example.com.", "ecs.example.com.", "ecs2.example.com."} {
		for _, qt := range []uint16{dns.TypeA, dns.TypeAAAA, dns.TypeTXT} {
			q := reqSpec{name: name, qtype: qt, qclass: dns.ClassINET, rd: true, edns: i%2 == 0, ctry: i % 3}
			ops = append(ops, q.show())
			before := u.calls
			got, err := stackExchange(st, q)
			if err != nil || got == nil || u.calls == before {
				r.Count("wiring.stack.no_response_or_not_forwarded")

				continue
			}
			// What the upstream answered, computed apart from the stack.
			ua, _, _ := ref.expected(q)
			hasECS := !strings.HasPrefix(u.lastFwd, "no-")
			if hasECS != (want == 2) {
				r.Violate("wiring:wrong-cache-type", fmt.Sprintf("%s: kind %d configured, upstream saw %q", q.show(), want,
					u.lastFwd), replay())
			}
			// (An answer whose smallest TTL is 2^32-1 is never cached: the
			// value doubles as the guard of FindLowestTTL.  Harmless.)
			// The client does not set DO, so the ECS cache drops the DNSSEC
			// records before it looks at the TTLs.
			plain := ua.Copy()
			for _, sec := range []*[]dns.RR{&plain.Answer, &plain.Ns, &plain.Extra} {
				kept := (*sec)[:0]
				for _, rr := range *sec {
					switch rr.Header().Rrtype {
					case dns.TypeRRSIG, dns.TypeSIG, dns.TypeNSEC, dns.TypeNSEC3, dns.TypeDS, dns.TypeDNSKEY:
					default:
						kept = append(kept, rr)
					}
				}
				*sec = kept
			}
			life := lifeSpec(caseCfg{}, plain)
			storable := surelyCached(ua, qt) && life > 0 && life < 4294967295*secNs
			if want == 2 && storable && ua.Rcode != dns.RcodeServerFailure {
				// First answer: answer-section TTLs raised to the minimum iff
				// the override is on; nothing else changes.
				ga, fa := nonOPT(got.Answer), nonOPT(ua.Answer)
				// The client does not set DO: DNSSEC records are filtered.
				fa = nil
				for _, rr := range nonOPT(ua.Answer) {
					if t := rr.Header().Rrtype; t != dns.TypeRRSIG && t != dns.TypeNSEC && t != dns.TypeDS {
						fa = append(fa, rr)
					}
				}
				if len(ga) == len(fa) {
					for j := range ga {
						wantTTL := fa[j].Header().Ttl
						if y.enabled {
							wantTTL = max(wantTTL, minSec)
						}
						if ga[j].Header().Ttl != wantTTL {
							r.Violate("wiring:min-ttl-not-as-configured", fmt.Sprintf("%s: ttl_override {enabled: %v, min: %s}: "+
								"upstream TTL %d answered as %d, want %d; upstream %s, answered %s", q.show(), y.enabled, y.min,
								fa[j].Header().Ttl, ga[j].Header().Ttl, wantTTL, showMsg(ua), showMsg(got)), replay())

							break
						}
					}
					r.Count("wiring.stack.first_answer_ttls_checked")
				}
			}
			// Immediate repetition: from the cache iff there is one.
			before = u.calls
			_, err = stackExchange(st, q)
			if err != nil {
				continue
			}
			again := u.calls != before
			if want == 0 && !again {
				r.Violate("wiring:cache-although-size-zero", q.show()+": answered without the upstream", replay())
			}
			if want == 2 && storable && again {
				r.Violate("wiring:no-cache-although-configured", q.show()+": cacheable answer asked for again at once: "+showMsg(ua), replay())
			}
			r.Count(fmt.Sprintf("wiring.stack.kind%d.repeat_forwarded_%v", want, again))
		}
	}
}

// surelyCached: answers every cache must keep (the converse of cacheableSpec,
// which lists what a cache may keep): a name error, or a NOERROR answer whose
// first record that is not a CNAME has the asked type.
func surelyCached(ua *dns.Msg, qt uint16) bool {
	if ua.Truncated {
		return false
	}
	if ua.Rcode == dns.RcodeNameError {
		return true
	}
	if ua.Rcode != dns.RcodeSuccess {
		return false
	}
	for _, rr := range ua.Answer {
		if t := rr.Header().Rrtype; t != dns.TypeCNAME {
			return t == qt
		}
	}

	return false
}
