package main

import (
	"context"
	"fmt"
	"strings"
	"time"

	"github.com/AdguardTeam/AdGuardDNS/internal/agd"
	"github.com/AdguardTeam/AdGuardDNS/internal/agdtest"
	"github.com/AdguardTeam/AdGuardDNS/internal/dnsserver"
	"github.com/AdguardTeam/AdGuardDNS/internal/dnssvc"
	"github.com/AdguardTeam/AdGuardDNS/internal/filter"
	"github.com/AdguardTeam/AdGuardDNS/verifh/hlib"
	"github.com/AdguardTeam/AdGuardDNS/verifh/hlib/stack"
	"github.com/miekg/dns"
)

// rewriteCampaign (round 5) drives the CNAME-rewrite path of the main
// middleware above the ECS cache: a filter answers requests for alias names
// with filter.ResultModifiedRequest, so the caches below see the REWRITTEN
// request, and the request information in the context must carry the
// rewritten host too (the ECS cache keys on ri.Host, not on the message).  The
// rule is switched on and off during a history, as profiles with and without
// the rule would.  Oracle, no model: the upstream is asked exactly the
// effective name; nothing is answered without the upstream unless the upstream
// was asked the same effective question (name, type, class, DO, family)
// before; such an answer equals what a fresh stack gives.
var rewriteTargets = map[string]string{
	"alias1.example.com.": "example.org.",
	"alias2.example.com.": "a.example.com.",
	"alias3.example.com.": "alias1.example.com.",
}

var rewriteNames = []string{"alias1.example.com.", "alias2.example.com.", "alias3.example.com.", "ALIAS1.example.com.",
	"example.org.", "a.example.com."}

func rewriteCampaign(o *hlib.Opts, r *hlib.Result) {
	rng := o.Rand("rewrite")
	n := 100
	if o.Thorough() {
		n = 600
	}
	for i := 0; i < n; i++ {
		c := cfgPool[rng.IntN(len(cfgPool))]
		c.kind = 'e'
		useed := rng.Uint64()
		on := true
		mkStack := func(u *universe) *stack.Stack {
			flt := &agdtest.Filter{
				OnFilterRequest: func(_ context.Context, fr *filter.Request) (filter.Result, error) {
					target, ok := rewriteTargets[strings.ToLower(fr.DNS.Question[0].Name)]
					if !on || !ok {
						return nil, nil
					}
					mod := fr.DNS.Copy()
					mod.Question[0].Name = target

					return &filter.ResultModifiedRequest{Msg: mod, List: "verif_list", Rule: "||alias^$dnsrewrite=target"}, nil
				},
				OnFilterResponse: func(context.Context, *filter.Response) (filter.Result, error) { return nil, nil },
			}
			cc := &dnssvc.CacheConfig{MinTTL: c.mwMinTTL(), ECSCount: 256, NoECSCount: 256, Type: dnssvc.CacheTypeECS,
				OverrideCacheTTL: c.mwOverride()}

			return stack.New(&stack.Config{Upstream: u, Cache: cc, GeoData: stackGeoData, GeoSubnet: stackGeoSubnet,
				FilterStorage: &agdtest.FilterStorage{
					OnForConfig: func(context.Context, filter.Config) filter.Interface { return flt },
					OnHasListID: func(filter.ID) bool { return true },
				}})
		}
		u := &universe{seed: useed, ecs: true}
		warm := mkStack(u)
		var ops []string
		replay := func() any {
			return map[string]any{"rewrite_stack": true, "config": c.line(), "universe": useed, "ops": ops,
				"rules": "alias1->example.org. alias2->a.example.com. alias3->alias1.example.com."}
		}
		asked := map[string]bool{}
		hits := 0
		for k, nq := 0, 6+rng.IntN(12); k < nq; k++ {
			if rng.IntN(4) == 0 {
				on = !on
				ops = append(ops, fmt.Sprintf("rule-enabled %v", on))
			}
			q := genReq(rng, rewriteNames, true)
			q.qclass = dns.ClassINET
			q.qtype = []uint16{dns.TypeA, dns.TypeA, dns.TypeAAAA, dns.TypeTXT}[rng.IntN(4)]
			ops = append(ops, q.show())
			eff := q
			if t, ok := rewriteTargets[strings.ToLower(q.name)]; ok && on {
				eff.name = t
			}
			key := eff.okey(true, u)
			before := u.calls
			got, err := stackExchange(warm, q)
			if err != nil || got == nil {
				r.Count("rewrite.no_response_or_error")

				continue
			}
			if u.calls != before {
				r.Count("rewrite.miss")
				if eff.name != q.name {
					r.Count("rewrite.miss_rewritten")
				}
				if want := fmt.Sprintf(" %s %d ", strings.ToLower(eff.name), q.qtype); !strings.Contains(strings.ToLower(u.lastHdr), want) {
					r.Violate("ecs:forwarded-request-altered", fmt.Sprintf("%s (effective name %s): the upstream was asked %q",
						q.show(), eff.name, u.lastHdr), replay())
				}
				asked[key] = true

				continue
			}
			fu := &universe{seed: useed, ecs: true}
			fresh, ferr := stackExchange(mkStack(fu), q)
			if ferr != nil || fresh == nil || fu.calls == 0 {
				r.Count("rewrite.answered_above_cache")

				continue
			}
			hits++
			r.Count("rewrite.hit")
			if eff.name != q.name {
				r.Count("rewrite.hit_rewritten")
			}
			checkHit(r, c, q, got, fresh, 0, asked[key], replay, nil, func(reqSpec) *dns.Msg { return nil })
		}
		r.Case(fmt.Sprintf("rewrite %s %d %s", c.line(), useed, strings.Join(ops, ";")), hits > 0)
	}
}

// opcodeObservation (round 5) runs the real middlewares where the property's
// domain ends: dnsserver.acceptMsg lets opcode NOTIFY through, neither cache
// looks at the opcode.  Counted, not judged (the property quantifies over
// queries): a NOTIFY carrying a cached question is answered from the QUERY's
// entry, and a cacheable answer to a NOTIFY is filed under the QUERY's key.
func opcodeObservation(o *hlib.Opts, r *hlib.Result) {
	rng := o.Rand("opcode")
	for i := 0; i < 40; i++ {
		c := caseCfg{kind: "se"[i%2]}
		u := &universe{seed: rng.Uint64(), ecs: c.kind == 'e'}
		h, _ := newHandler(c, u, func() time.Duration { return 0 })
		q := genReq(rng, namePool[:5], u.ecs)
		q.qclass = dns.ClassINET
		ask := func(opcode int) (hit bool, resp *dns.Msg) {
			req := q.msg()
			req.Opcode = opcode
			nrw := dnsserver.NewNonWriterResponseWriter(testAddr, testAddr)
			before := u.calls
			err := h.ServeDNS(agd.ContextWithRequestInfo(context.Background(), q.ri()), nrw, req)
			if err != nil || nrw.Msg() == nil {
				return false, nil
			}

			return u.calls == before, nrw.Msg()
		}
		first, second := dns.OpcodeQuery, dns.OpcodeNotify
		if i%4 >= 2 {
			first, second = second, first
		}
		if hit, _ := ask(first); hit {
			continue
		}
		if hit, resp := ask(second); hit && resp != nil {
			r.Count(fmt.Sprintf("observation.opcode.%c.opcode%d_served_from_entry_of_opcode%d", c.kind, second, first))
		} else {
			r.Count(fmt.Sprintf("observation.opcode.%c.opcode%d_after_opcode%d_not_from_cache", c.kind, second, first))
		}
	}
}
