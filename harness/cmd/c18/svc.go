package main

// End-to-end campaigns through the production glue: dnssvc.New,
// dnssvc.newListenConfig (which listeners get the limiter), dnssvc.NewListener
// (how the pipeline options reach ServerDNS / ServerTLS), and the servers' own
// use of the limited connections (serve loop re-accepts, serveTCPConn /
// serveTCPMessage close every accepted connection, sometimes several times).

import (
	"context"
	"crypto/tls"
	"encoding/binary"
	"errors"
	"fmt"
	"io"
	"log/slog"
	"net"
	"net/http"
	"net/netip"
	"strings"
	"sync"
	"sync/atomic"
	"time"

	"github.com/AdguardTeam/AdGuardDNS/internal/agd"
	"github.com/AdguardTeam/AdGuardDNS/internal/agdtest"
	"github.com/AdguardTeam/AdGuardDNS/internal/connlimiter"
	"github.com/AdguardTeam/AdGuardDNS/internal/dnsserver"
	"github.com/AdguardTeam/AdGuardDNS/internal/dnsserver/netext"
	"github.com/AdguardTeam/AdGuardDNS/internal/dnssvc"
	"github.com/AdguardTeam/AdGuardDNS/verifh/hlib"
	"github.com/miekg/dns"
)

// svcSeq makes the Prometheus namespace of every dnssvc.New call unique.
var svcSeq atomic.Int64

func svcNamespace() string { return fmt.Sprintf("c18svc%d", svcSeq.Add(1)) }

// ---------------------------------------------------------------------------
// Glue: every stream listener that dnssvc makes is limited by THE limiter.

// stubServer is what the recording NewListener returns; it is never started.
type stubServer struct{ dnsserver.Server }

type glueCase struct {
	Proto string `json:"proto"`
	Bind  bool   `json:"bind"`
}

var glueProtos = map[string]agd.Protocol{
	"dns": agd.ProtoDNS, "dnscrypt": agd.ProtoDNSCrypt, "doh": agd.ProtoDoH, "dot": agd.ProtoDoT,
}

// glueSrvProtos is what each server puts into the context it listens with.
var glueSrvProtos = map[string]dnsserver.Protocol{
	"dns": dnsserver.ProtoDNS, "dnscrypt": dnsserver.ProtoDNSCrypt, "doh": dnsserver.ProtoDoH, "dot": dnsserver.ProtoDoT,
}

// glueCampaign builds a service with one server per (stream protocol, bind
// branch) and asks each server's ListenConfig -- as computed by dnssvc -- for a
// TCP listener.  A blocked Accept on any of them must show up as a pending
// accept in the one shared limiter.
func glueCampaign(r *hlib.Result, only *glueCase) {
	hook := &hookHandler{}
	const stop = 64
	lim, err := connlimiter.New(&connlimiter.Config{Logger: slog.New(hook), Stop: stop, Resume: 1})
	hlib.Must(err)

	type rec struct {
		c  glueCase
		lc netext.ListenConfig
	}
	var recs []*rec
	byName := map[agd.ServerName]*rec{}
	var srvs []*agd.Server
	for _, p := range []string{"dns", "dnscrypt", "doh", "dot"} {
		for _, bind := range []bool{false, true} {
			if only != nil && (only.Proto != p || only.Bind != bind) {
				continue
			}
			name := agd.ServerName(fmt.Sprintf("glue_%s_%v", p, bind))
			srv := &agd.Server{Name: name, Protocol: glueProtos[p]}
			bd := &agd.ServerBindData{AddrPort: netip.MustParseAddrPort("127.0.0.1:0")}
			if bind {
				// What cmd does for bind_interfaces: the server comes with its
				// own ListenConfig.
				bd.ListenConfig = netext.DefaultListenConfig(nil)
			}
			srv.SetBindData([]*agd.ServerBindData{bd})
			srvs = append(srvs, srv)
			rc := &rec{c: glueCase{Proto: p, Bind: bind}}
			recs = append(recs, rc)
			byName[name] = rc
		}
	}
	grp := &agd.ServerGroup{Name: "glue", Servers: srvs}
	handlers := dnssvc.Handlers{}
	for _, s := range srvs {
		handlers[dnssvc.HandlerKey{Server: s, ServerGroup: grp}] = &svcHandler{stats: map[string]*svcStat{}}
	}
	_, err = dnssvc.New(&dnssvc.Config{
		Handlers:         handlers,
		MetricsNamespace: svcNamespace(),
		ServerGroups:     []*agd.ServerGroup{grp},
		ConnLimiter:      lim,
		HandleTimeout:    time.Hour,
		NewListener: func(s *agd.Server, bc dnsserver.ConfigBase, _ http.Handler) (dnssvc.Listener, error) {
			byName[s.Name].lc = bc.ListenConfig

			return &stubServer{}, nil
		},
	})
	hlib.Must(err)

	cur := func() uint64 { c, _, _, _ := connlimiter.VerifC18Snapshot(lim); return c }
	var open []net.Listener
	var wg sync.WaitGroup
	for _, rc := range recs {
		replay := map[string]any{"campaign": "glue", "glue": rc.c}
		r.Evaluations++
		r.Count("glue.cases")
		r.Count("glue.proto=" + rc.c.Proto)
		if rc.lc == nil {
			r.Disagree("glue", fmt.Sprintf("dnssvc gave no ListenConfig to the %s server", rc.c.Proto), replay)

			continue
		}
		ctx := dnsserver.ContextWithServerInfo(context.Background(), &dnsserver.ServerInfo{
			Name: "glue-" + rc.c.Proto, Addr: "127.0.0.1:0", Proto: glueSrvProtos[rc.c.Proto],
		})
		l, lerr := rc.lc.Listen(ctx, "tcp", "127.0.0.1:0")
		if lerr != nil {
			r.Disagree("glue", fmt.Sprintf("listen for %s: %v", rc.c.Proto, lerr), replay)

			continue
		}
		open = append(open, l)
		before := cur()
		wg.Add(1)
		go func() {
			defer wg.Done()
			if c, aerr := l.Accept(); aerr == nil {
				_ = c.Close()
			}
		}()
		// Oracle: the blocked Accept is a pending accept of the shared limiter
		// ("across all listeners").
		if !waitFor(func() bool { return cur() == before+1 }, 3*time.Second) {
			branch := "default listen config"
			if rc.c.Bind {
				branch = "the server's own (bind_interfaces) listen config"
			}
			r.Violate("stream-listener-not-limited", fmt.Sprintf(
				"the %s stream listener that dnssvc makes with %s is not counted by the connection limiter: "+
					"an Accept is blocked on it and the shared counter stayed at %d", rc.c.Proto, branch, cur()), replay)
		}
	}
	for _, l := range open {
		_ = l.Close()
	}
	wg.Wait()
	if !waitFor(func() bool { return cur() == 0 }, 3*time.Second) {
		r.Violate("counter-above-open-plus-pending", fmt.Sprintf(
			"every listener made through dnssvc was closed, yet the shared counter says %d", cur()),
			map[string]any{"campaign": "glue"})
	}
	r.Traces++
}

// ---------------------------------------------------------------------------
// Service: real dnssvc.Service with ServerDNS / ServerTLS under saturation.

// svcCase is one end-to-end scenario.  Every listener has more clients waiting
// than will ever be admitted, so after every release the number of served
// connections is a function of the thresholds alone (a sawtooth): N-1 while
// that is above resume, back up to stop otherwise.
type svcCase struct {
	Stop    uint64   `json:"stop"`
	Resume  uint64   `json:"resume"`
	Limit   int      `json:"limit"`
	Burst   int      `json:"burst"`
	Servers []string `json:"servers"` // "dns", "dot", "dns+bind", "dot+bind"
	Ops     []string `json:"ops"`     // "hang", "drop", "abort"
}

type svcStat struct {
	entered, exited atomic.Int64
	mu              sync.Mutex
	inflight        int
	maxSeen         int
	gate            chan struct{}
	gateOnce        sync.Once
	noWrite         atomic.Bool
	doPanic         atomic.Bool
}

func (st *svcStat) open() { st.gateOnce.Do(func() { close(st.gate) }) }

type svcHandler struct {
	mu    sync.Mutex
	stats map[string]*svcStat
	// answerAll makes the handler answer at once, without gates or tallies
	// (DoH / DNSCrypt scenarios, where the connection is the library's).
	answerAll bool
}

func (h *svcHandler) stat(key string) (st *svcStat) {
	h.mu.Lock()
	defer h.mu.Unlock()
	st = h.stats[key]
	if st == nil {
		st = &svcStat{gate: make(chan struct{})}
		h.stats[key] = st
	}

	return st
}

func (h *svcHandler) ServeDNS(ctx context.Context, rw dnsserver.ResponseWriter, req *dns.Msg) (err error) {
	if h.answerAll {
		return rw.WriteMsg(ctx, req, (&dns.Msg{}).SetReply(req))
	}
	st := h.stat(rw.RemoteAddr().String() + ">" + rw.LocalAddr().String())
	st.mu.Lock()
	st.inflight++
	if st.inflight > st.maxSeen {
		st.maxSeen = st.inflight
	}
	st.mu.Unlock()
	st.entered.Add(1)
	if st.doPanic.Load() {
		// A handler that panics: serveTCPMessage recovers, writes nothing and
		// does not close the connection; the deferred Release must still run.
		st.mu.Lock()
		st.inflight--
		st.mu.Unlock()
		panic("c18: handler panic")
	}

	<-st.gate

	st.mu.Lock()
	st.inflight--
	st.mu.Unlock()
	if !st.noWrite.Load() {
		err = rw.WriteMsg(ctx, req, (&dns.Msg{}).SetReply(req))
	}
	st.exited.Add(1)

	return err
}

type svcClient struct {
	srv      int
	raw      net.Conn
	tc       atomic.Pointer[tls.Conn]
	st       *svcStat
	eof      atomic.Bool
	released bool
}

func svcQuery(id int) []byte {
	q := (&dns.Msg{}).SetQuestion("c18.example.", dns.TypeA)
	q.Id = uint16(id)
	b, err := q.Pack()
	hlib.Must(err)
	out := make([]byte, 2+len(b))
	binary.BigEndian.PutUint16(out, uint16(len(b)))
	copy(out[2:], b)

	return out
}

var startErr string

// startSvc builds and starts the service; ok is false when a port was taken.
func startSvc(c *svcCase, lim *connlimiter.Limiter, h *svcHandler) (svc *dnssvc.Service, lsn []dnssvc.Listener, ok bool) {
	var srvs []*agd.Server
	for i, kind := range c.Servers {
		srv := &agd.Server{
			Name:         agd.ServerName(fmt.Sprintf("svc%d", i)),
			ReadTimeout:  time.Minute,
			WriteTimeout: time.Minute,
			TCPConf: &agd.TCPConfig{
				IdleTimeout: time.Minute, MaxPipelineCount: uint(c.Limit), MaxPipelineEnabled: true,
			},
			UDPConf: &agd.UDPConfig{MaxRespSize: 1232},
		}
		bd := &agd.ServerBindData{AddrPort: netip.MustParseAddrPort("127.0.0.1:0")}
		if kind == "doh" {
			// DNS-over-HTTPS over TCP only (no HTTP/3): net/http owns the
			// connections that the limited listener hands out.
			srv.Protocol = agd.ProtoDoH
			tc := selfSigned().Clone()
			tc.NextProtos = []string{"h2", "http/1.1"}
			h3 := selfSigned().Clone()
			h3.NextProtos = []string{"h3"}
			srv.TLS = &agd.TLSConfig{Default: tc, H3: h3}
			srv.QUICConf = &agd.QUICConfig{}
		} else if kind == "dnscrypt" {
			srv.Protocol = agd.ProtoDNSCrypt
			srv.DNSCrypt = dnscryptConf()
		} else if strings.HasPrefix(kind, "dot") {
			srv.Protocol = agd.ProtoDoT
			srv.TLS = &agd.TLSConfig{Default: selfSigned()}
			if strings.HasSuffix(kind, "+bind") {
				bd.ListenConfig = netext.DefaultListenConfig(nil)
			}
		} else {
			srv.Protocol = agd.ProtoDNS
			if strings.HasSuffix(kind, "+bind") {
				bd.ListenConfig = netext.DefaultListenConfigWithOOB(nil)
			}
		}
		srv.SetBindData([]*agd.ServerBindData{bd})
		srvs = append(srvs, srv)
	}
	grp := &agd.ServerGroup{Name: "svc", Servers: srvs}
	handlers := dnssvc.Handlers{}
	for _, s := range srvs {
		handlers[dnssvc.HandlerKey{Server: s, ServerGroup: grp}] = h
	}
	byName := map[agd.ServerName]dnssvc.Listener{}
	svc, err := dnssvc.New(&dnssvc.Config{
		Handlers:         handlers,
		Cloner:           agdtest.NewCloner(),
		ErrColl:          &agdtest.ErrorCollector{OnCollect: func(context.Context, error) {}},
		NonDNS:           http.NotFoundHandler(),
		MetricsNamespace: svcNamespace(),
		ServerGroups:     []*agd.ServerGroup{grp},
		ConnLimiter:      lim,
		HandleTimeout:    time.Hour,
		// The production constructor, only recorded.
		NewListener: func(s *agd.Server, bc dnsserver.ConfigBase, nd http.Handler) (l dnssvc.Listener, lerr error) {
			l, lerr = dnssvc.NewListener(s, bc, nd)
			byName[s.Name] = l

			return l, lerr
		},
	})
	hlib.Must(err)
	func() {
		defer func() {
			if rec := recover(); rec != nil {
				ok = false
				startErr = fmt.Sprint(rec)
			}
		}()
		hlib.Must(svc.Start(context.Background()))
		ok = true
	}()
	if !ok {
		sctx, cancel := context.WithTimeout(context.Background(), 2*time.Second)
		_ = svc.Shutdown(sctx)
		cancel()

		return nil, nil, false
	}
	for _, s := range srvs {
		lsn = append(lsn, byName[s.Name])
	}

	return svc, lsn, true
}

func runSvcCase(r *hlib.Result, m *hlib.Model, c *svcCase) {
	replay := map[string]any{"campaign": "svc", "svc": c}
	hook := &hookHandler{}
	lim, err := connlimiter.New(&connlimiter.Config{Logger: slog.New(hook), Stop: c.Stop, Resume: c.Resume})
	hlib.Must(err)
	h := &svcHandler{stats: map[string]*svcStat{}}
	var svc *dnssvc.Service
	var lsn []dnssvc.Listener
	for try := 0; ; try++ {
		var ok bool
		if svc, lsn, ok = startSvc(c, lim, h); ok {
			break
		}
		if try == 60 {
			r.Count("svc.could_not_start")
			r.Notes = append(r.Notes, "svc case could not start: "+startErr)

			return
		}
	}
	snapshot := func() (uint64, bool) {
		cur, _, _, acc := connlimiter.VerifC18Snapshot(lim)

		return cur, acc
	}

	// Saturating load: on every listener more clients than the whole scenario
	// can admit.
	perListener := int(c.Stop) + len(c.Ops) + 1
	want := min(c.Burst, c.Limit)
	var clients []*svcClient
	for si, kind := range c.Servers {
		addr := lsn[si].LocalTCPAddr().String()
		for k := 0; k < perListener; k++ {
			raw, derr := net.Dial("tcp", addr)
			hlib.Must(derr)
			cl := &svcClient{srv: si, raw: raw, st: h.stat(raw.LocalAddr().String() + ">" + raw.RemoteAddr().String())}
			clients = append(clients, cl)
			isTLS := strings.HasPrefix(kind, "dot")
			go func() {
				defer cl.eof.Store(true)
				var conn net.Conn = raw
				if isTLS {
					tc := tls.Client(raw, &tls.Config{InsecureSkipVerify: true})
					if tc.Handshake() != nil {
						return
					}
					cl.tc.Store(tc)
					conn = tc
				}
				var buf []byte
				for q := 0; q < c.Burst; q++ {
					buf = append(buf, svcQuery(q)...)
				}
				if _, werr := conn.Write(buf); werr != nil {
					return
				}
				_, _ = io.Copy(io.Discard, conn)
			}()
		}
	}
	served := func() (n int) {
		for _, cl := range clients {
			if cl.st.entered.Load() > 0 && !cl.released {
				n++
			}
		}

		return n
	}

	var viol []hlib.Finding
	violate := func(sig, what string) {
		for _, v := range viol {
			if v.Signature == sig {
				return
			}
		}
		viol = append(viol, hlib.Finding{Signature: sig, What: what})
	}
	var lines, wants []string
	lines = append(lines, fmt.Sprintf("ctr 0 %d %d true", c.Stop, c.Resume), "refill")
	wants = append(wants, "0 1", fmt.Sprintf("%d 0", c.Stop))

	// settle waits for the quiescent state the sawtooth predicts: exactly
	// expect connections served, all of them counted, nothing pending (then
	// every serve loop is parked in the limiter).
	stuck := ""
	settle := func(expect int, step string) {
		over := false
		ok := waitFor(func() bool {
			so := served()
			if uint64(so) > c.Stop {
				over = true

				return true
			}
			cur, acc := snapshot()
			if so != expect || cur != uint64(expect) || acc {
				return false
			}
			for _, cl := range clients {
				if cl.st.entered.Load() > 0 && !cl.released && int(cl.st.entered.Load()-cl.st.exited.Load()) < want {
					return false
				}
			}

			return true
		}, 10*time.Second)
		so := served()
		cur, acc := snapshot()
		switch {
		case over:
			violate("bound-exceeded", fmt.Sprintf(
				"%s: %d connections are being served at the same time over %v, stop is %d (shared counter says %d)",
				step, so, c.Servers, c.Stop, cur))
		case ok:
		case so > expect:
			violate("accepted-while-stopped", fmt.Sprintf(
				"%s: %d connections are served although the count reached stop=%d and has only fallen to %d > resume=%d",
				step, so, c.Stop, expect, c.Resume))
		case cur > uint64(so)+uint64(len(c.Servers)):
			violate("counter-above-open-plus-pending", fmt.Sprintf(
				"%s: the shared counter says %d with %d connections served and at most %d pending accepts",
				step, cur, so, len(c.Servers)))
		case so < expect && (acc || cur < uint64(expect)):
			violate("waiter-stuck-while-limiter-should-accept", fmt.Sprintf(
				"%s: only %d connections are served (counter %d, accepting %v) although every listener has clients waiting "+
					"and the count fell to resume=%d; expected %d", step, so, cur, acc, c.Resume, expect))
		default:
			stuck = fmt.Sprintf("%s: expected %d served connections each with %d queries in flight; have %d served, counter %d, accepting %v",
				step, expect, want, so, cur, acc)
		}
	}

	expect := int(c.Stop)
	settle(expect, "initial fill")
	refilled := false
	for j, op := range c.Ops {
		if len(viol) > 0 || stuck != "" {
			break
		}
		step := fmt.Sprintf("op %d (%s)", j, op)
		// Nothing may have been admitted since the last quiescent point.
		if so := served(); so > expect {
			violate("accepted-while-stopped", fmt.Sprintf("%s: %d connections served, expected %d", step, so, expect))

			break
		}
		var cl *svcClient
		for _, x := range clients {
			if x.st.entered.Load() > 0 && !x.released {
				cl = x

				break
			}
		}
		if cl == nil {
			break
		}
		switch op {
		case "hang":
			// All handlers answer, the client half-closes, the server reads
			// EOF and closes (once).
			cl.st.open()
			if tc := cl.tc.Load(); tc != nil {
				_ = tc.CloseWrite()
			} else {
				_ = cl.raw.(*net.TCPConn).CloseWrite()
			}
		case "drop":
			// The handlers write nothing: every worker closes the connection,
			// and serveTCPConn closes it again.
			cl.st.noWrite.Store(true)
			cl.st.open()
		case "abort":
			// The client goes away while its queries are still being
			// processed: the slot stays taken until the workers are done.
			_ = cl.raw.Close()
			time.Sleep(200 * time.Microsecond)
			if cur, _ := snapshot(); cur < uint64(expect) {
				violate("counter-below-open-plus-pending", fmt.Sprintf(
					"%s: the client closed, %d queries of the connection are still being processed, and the counter fell to %d < %d",
					step, want, cur, expect))
			}
			cl.st.open()
		}
		if op != "abort" && !waitFor(cl.eof.Load, 10*time.Second) {
			stuck = step + ": the server never closed the connection"

			break
		}
		cl.released = true
		// Independent tally of the property statement.
		expect--
		lines = append(lines, "dec")
		if uint64(expect) <= c.Resume {
			wants = append(wants, fmt.Sprintf("%d 1", expect))
			expect = int(c.Stop)
			refilled = true
			lines = append(lines, "refill")
			wants = append(wants, fmt.Sprintf("%d 0", expect))
		} else {
			wants = append(wants, fmt.Sprintf("%d 0", expect))
		}
		settle(expect, step)
		r.Count("svc.op." + op)
	}
	// Pipeline oracle on every connection the service has served.
	h.mu.Lock()
	for _, st := range h.stats {
		st.mu.Lock()
		if st.maxSeen > c.Limit {
			violate("pipeline-limit-exceeded", fmt.Sprintf(
				"a connection to a server made by dnssvc.NewListener had %d queries processed at the same time, "+
					"max_pipeline_count = %d (servers %v)", st.maxSeen, c.Limit, c.Servers))
		}
		st.mu.Unlock()
	}
	h.mu.Unlock()

	// Tear down: everything must be given back.
	for _, cl := range clients {
		cl.st.open()
		_ = cl.raw.Close()
	}
	sctx, cancel := context.WithTimeout(context.Background(), 10*time.Second)
	serr := svc.Shutdown(sctx)
	cancel()
	if len(viol) == 0 && stuck == "" {
		if serr != nil {
			stuck = fmt.Sprintf("shutdown: %v", serr)
		} else {
			// ServerTLS.Shutdown does not wait for its serve loop (ServerDNS
			// does): a connection that the loop accepts while Shutdown runs is
			// submitted to the released worker pool, Submit fails, and the
			// connection is never closed -- it stays open, with its slot.  At
			// most one per DoT server; anything beyond that is a leak.
			dots := 0
			for _, k := range c.Servers {
				if strings.HasPrefix(k, "dot") {
					dots++
				}
			}
			waitFor(func() bool { cur, _ := snapshot(); return cur == 0 }, time.Duration(1+9*(1-min(dots, 1)))*time.Second)
			cur, _ := snapshot()
			if cur > uint64(dots) {
				violate("counter-above-open-plus-pending", fmt.Sprintf(
					"after the service was shut down and every client closed, the shared counter says %d "+
						"(at most %d connections can have been left unclosed by DoT serve loops)", cur, dots))
			} else if cur > 0 {
				r.Count("svc.dot_shutdown_left_connection_unclosed")
			}
		}
	}
	connlimiter.VerifC18WakeAll(lim)

	for _, v := range viol {
		r.Violate(v.Signature, v.What, replay)
	}
	if stuck != "" {
		r.Disagree("svc", stuck, replay)
	}
	// Correspondence: the counter of the model, released and refilled the same
	// way, goes through the same values.
	m.ResetLog()
	ans := m.Batch(lines)
	r.ModelOps += len(lines)
	for i := range lines {
		if len(viol) == 0 && stuck == "" && ans[i] != wants[i] {
			r.Disagree("svc", fmt.Sprintf("model line %d %q: model %q, service %q", i, lines[i], ans[i], wants[i]), replay)

			break
		}
	}
	r.Case(fmt.Sprintf("svc;%d;%d;%d;%d;%v;%v", c.Stop, c.Resume, c.Limit, c.Burst, c.Servers, c.Ops), refilled)
	r.Traces++
	r.Count("svc.cases")
	for _, k := range c.Servers {
		r.Count("svc.server=" + k)
	}
	if refilled {
		r.Count("svc.refilled")
	}
	if c.Burst > c.Limit {
		r.Count("svc.reader_blocked")
	}
	if c.Stop == c.Resume {
		r.Count("svc.stop=resume")
	}
	if len(c.Servers) > int(c.Stop) {
		r.Count("svc.listeners>stop")
	}
	r.Sample(map[string]any{"campaign": "svc", "case": c}, 8)
}

// ---------------------------------------------------------------------------
// Ends: the ways a connection can end that the saturated scenarios do not
// produce (nothing sent, failed TLS handshake, garbage, truncated message).  In
// each the server must close the connection and the slot must come back.

type endsCase struct {
	Kind string `json:"kind"`
}

func runEndsCase(r *hlib.Result, c *endsCase) {
	replay := map[string]any{"campaign": "ends", "ends": c}
	hook := &hookHandler{}
	lim, err := connlimiter.New(&connlimiter.Config{Logger: slog.New(hook), Stop: 3, Resume: 1})
	hlib.Must(err)
	h := &svcHandler{stats: map[string]*svcStat{}}
	sc := &svcCase{Stop: 3, Resume: 1, Limit: 2, Burst: 1, Servers: []string{c.Kind}}
	var svc *dnssvc.Service
	var lsn []dnssvc.Listener
	for try := 0; ; try++ {
		var ok bool
		if svc, lsn, ok = startSvc(sc, lim, h); ok {
			break
		}
		if try == 60 {
			r.Count("ends.could_not_start")

			return
		}
	}
	cur := func() uint64 { n, _, _, _ := connlimiter.VerifC18Snapshot(lim); return n }
	isTLS := strings.HasPrefix(c.Kind, "dot")
	addr := lsn[0].LocalTCPAddr().String()
	// At rest the serve loop holds one slot for its pending accept.
	if !waitFor(func() bool { return cur() == 1 }, 10*time.Second) {
		r.Disagree("ends", fmt.Sprintf("idle %s service: counter %d, expected 1 pending accept", c.Kind, cur()), replay)
	}
	garbage := []byte("GET / HTTP/1.0\r\n\r\n")
	ends := []string{"silent", "garbage", "junk-message", "truncated", "answered", "unanswered", "panic"}
	for _, e := range ends {
		raw, derr := net.Dial("tcp", addr)
		hlib.Must(derr)
		st := h.stat(raw.LocalAddr().String() + ">" + raw.RemoteAddr().String())
		st.open()
		var conn net.Conn = raw
		halfClose := func() { _ = raw.(*net.TCPConn).CloseWrite() }
		if isTLS && e != "garbage" && e != "silent" {
			tc := tls.Client(raw, &tls.Config{InsecureSkipVerify: true})
			hlib.Must(tc.Handshake())
			conn = tc
			halfClose = func() { _ = tc.CloseWrite() }
		}
		switch e {
		case "silent":
		case "garbage":
			_, _ = conn.Write(garbage)
		case "junk-message":
			_, _ = conn.Write(append([]byte{0, 16}, garbage[:16]...))
		case "truncated":
			_, _ = conn.Write(append([]byte{0, 100}, garbage[:10]...))
		case "answered":
			_, _ = conn.Write(svcQuery(1))
			waitFor(func() bool { return st.exited.Load() == 1 }, 10*time.Second)
		case "unanswered":
			st.noWrite.Store(true)
			_, _ = conn.Write(append(svcQuery(1), svcQuery(2)...))
		case "panic":
			// As many panicking handlers as the pipeline has tokens, then one
			// more query: it is answered only if the tokens came back.
			st.doPanic.Store(true)
			_, _ = conn.Write(append(svcQuery(1), svcQuery(2)...))
			if !waitFor(func() bool { return st.entered.Load() == 2 }, 10*time.Second) {
				r.Disagree("ends", fmt.Sprintf("%s: two pipelined queries did not both reach the handler", c.Kind), replay)
			}
			st.doPanic.Store(false)
			_, _ = conn.Write(svcQuery(3))
			if !waitFor(func() bool { return st.exited.Load() == 1 }, 10*time.Second) {
				r.Disagree("ends", fmt.Sprintf(
					"%s: after max_pipeline_count handlers of a connection panicked the next query of the connection is never processed "+
						"(semaphore tokens not given back)", c.Kind), replay)
			}
		}
		if e != "unanswered" {
			halfClose()
		}
		_ = raw.SetReadDeadline(time.Now().Add(10 * time.Second))
		_, cerr := io.Copy(io.Discard, raw)
		_ = raw.Close()
		r.Evaluations++
		r.Count("ends." + e)
		var ne net.Error
		if errors.As(cerr, &ne) && ne.Timeout() {
			r.Disagree("ends", fmt.Sprintf("%s connection ended by %q: the server did not close it", c.Kind, e), replay)

			continue
		}
		// The server closed its side; the slot must be back (only the pending
		// accept of the serve loop is left).
		if !waitFor(func() bool { return cur() == 1 }, 10*time.Second) {
			sig := "counter-above-open-plus-pending"
			if cur() < 1 {
				sig = "counter-below-open-plus-pending"
			}
			r.Violate(sig, fmt.Sprintf(
				"%s server: after a connection ended by %q was closed by the server the shared counter is %d; "+
					"no connection is open and one accept is pending", c.Kind, e, cur()), replay)

			break
		}
	}
	sctx, cancel := context.WithTimeout(context.Background(), 10*time.Second)
	_ = svc.Shutdown(sctx)
	cancel()
	if !waitFor(func() bool { return cur() == 0 }, 10*time.Second) {
		r.Violate("counter-above-open-plus-pending", fmt.Sprintf(
			"%s server shut down with no connection left, the shared counter says %d", c.Kind, cur()), replay)
	}
	r.Traces++
	r.Count("ends.cases")
}

func endsCampaign(r *hlib.Result) {
	for _, k := range svcKinds {
		runEndsCase(r, &endsCase{Kind: k})
	}
}

var svcKinds = []string{"dns", "dot", "dns+bind", "dot+bind"}

func svcCampaign(o *hlib.Opts, r *hlib.Result, m *hlib.Model) {
	rng := o.Rand("svc")
	// Fixed scenarios: every kind of server once, stop = resume, more
	// listeners than slots, all three ways a connection ends.
	fixed := []*svcCase{
		{Stop: 3, Resume: 1, Limit: 2, Burst: 3, Servers: []string{"dns", "dot"}, Ops: []string{"hang", "drop", "abort", "hang"}},
		{Stop: 2, Resume: 2, Limit: 1, Burst: 2, Servers: []string{"dns+bind", "dot+bind"}, Ops: []string{"drop", "hang"}},
		{Stop: 1, Resume: 0, Limit: 3, Burst: 3, Servers: []string{"dot", "dns", "dot+bind"}, Ops: []string{"hang", "drop"}},
		{Stop: 4, Resume: 2, Limit: 2, Burst: 1, Servers: []string{"dns", "dns+bind"}, Ops: []string{"drop", "drop", "hang", "abort"}},
	}
	for _, c := range fixed {
		runSvcCase(r, m, c)
	}
	n := 8
	if o.Thorough() {
		n = 120
	}
	opk := []string{"hang", "drop", "abort"}
	for i := 0; i < n; i++ {
		stop := uint64(1 + rng.IntN(4))
		c := &svcCase{
			Stop: stop, Resume: uint64(rng.IntN(int(stop) + 1)),
			Limit: 1 + rng.IntN(3), Burst: 1 + rng.IntN(5),
		}
		for k := 1 + rng.IntN(3); k > 0; k-- {
			c.Servers = append(c.Servers, svcKinds[rng.IntN(len(svcKinds))])
		}
		for k := 1 + rng.IntN(6); k > 0; k-- {
			c.Ops = append(c.Ops, opk[rng.IntN(len(opk))])
		}
		runSvcCase(r, m, c)
	}
}
