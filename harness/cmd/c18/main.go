// Command c18 is the correspondence harness and property oracle for C18
// (stream-connection limiter and TCP pipeline limit).
package main

import (
	"bytes"
	"context"
	"crypto/ecdsa"
	"crypto/elliptic"
	crand "crypto/rand"
	"crypto/tls"
	"crypto/x509"
	"crypto/x509/pkix"
	"encoding/binary"
	"encoding/json"
	"errors"
	"fmt"
	"io"
	"log/slog"
	"math"
	"math/big"
	"math/rand/v2"
	"net"
	"os"
	"runtime"
	"strings"
	"sync"
	"sync/atomic"
	"time"

	"github.com/AdguardTeam/AdGuardDNS/internal/connlimiter"
	"github.com/AdguardTeam/AdGuardDNS/internal/dnsserver"
	"github.com/AdguardTeam/AdGuardDNS/verifh/hlib"
	"github.com/AdguardTeam/golibs/log"
	"github.com/miekg/dns"
)

func main() {
	o := hlib.ParseFlags()
	r := hlib.NewResult("C18", o)
	r.Rule = "counter: raw counter.increment/decrement sequences (incl. uint64 edges) vs the model; " +
		"limiter: accept / deliver / fail / close / double-close / listener-close scripts over 1-3 fake " +
		"listeners sharing one real Limiter, every goroutine driven to a parked state (checked in the " +
		"goroutine dump, no sleeps) after each op, state compared with the model and checked by the " +
		"tally-based property oracle; pipeline: real ServerDNS on loopback TCP with a gated handler; " +
		"glue/svc/ends: a real dnssvc.Service (production NewListener and ListenConfig glue, ServerDNS and ServerTLS) " +
		"under saturating TCP/TLS load against the sawtooth tally, every stream listener of dnssvc counted by the shared limiter; " +
		"non-trivial = the limiter stopped at least once and a waiter was admitted or released later " +
		"(pipeline: the reader blocked on the semaphore); distinct = distinct op scripts"
	log.SetOutput(io.Discard)
	m := hlib.StartModel(o.Model, "C18")
	defer m.Close()

	if o.Replay != "" {
		replay(o, r, m)
		r.ModelOps = r.Evaluations
		r.Finish()

		return
	}

	counterCampaign(o, r, m)
	witnessCampaign(r, m)
	limiterCampaign(o, r, m)
	windowCampaign(o, r, m)
	stormCampaign(o, r)
	concurrentCloseCampaign(o, r)
	pipelineCampaign(o, r, m)
	glueCampaign(r, nil)
	svcCampaign(o, r, m)
	endsCampaign(r)
	wiredCampaign(o, r, m)
	libsCampaign(o, r)

	r.Finish()
}

// ---------------------------------------------------------------------------
// Raw counter

func counterCampaign(o *hlib.Opts, r *hlib.Result, m *hlib.Model) {
	rng := o.Rand("counter")
	n := 400
	if o.Thorough() {
		n = 4000
	}
	edges := []uint64{0, 1, 2, 3, 4, 7, math.MaxUint64 - 1, math.MaxUint64}
	for i := 0; i < n; i++ {
		stop := edges[rng.IntN(len(edges))]
		resume := edges[rng.IntN(len(edges))]
		cur := edges[rng.IntN(len(edges))]
		if rng.IntN(3) > 0 {
			// Well-formed start: what New builds.
			stop = 1 + uint64(rng.IntN(5))
			resume = uint64(rng.IntN(int(stop) + 1))
			cur = 0
		}
		acc := rng.IntN(4) > 0
		c := connlimiter.VerifC18NewCounter(cur, stop, resume, acc)
		lines := []string{fmt.Sprintf("ctr %d %d %d %s", cur, stop, resume, b2s(acc))}
		got := []string{fmt.Sprintf("%d %s", cur, b2s(acc))}
		nops := 1 + rng.IntN(24)
		wrapped := false
		for j := 0; j < nops; j++ {
			if rng.IntN(2) == 0 {
				ok := c.Increment()
				cu, a := c.State()
				lines = append(lines, "inc")
				got = append(got, fmt.Sprintf("%s %d %s", b2s(ok), cu, b2s(a)))
			} else {
				before, _ := c.State()
				c.Decrement()
				cu, a := c.State()
				wrapped = wrapped || before == 0
				lines = append(lines, "dec")
				got = append(got, fmt.Sprintf("%d %s", cu, b2s(a)))
			}
		}
		m.ResetLog()
		ans := m.Batch(lines)
		r.ModelOps += len(lines)
		for j := range lines {
			if ans[j] != got[j] {
				r.Disagree("counter", fmt.Sprintf("counter op %d %q: real %q model %q", j, lines[j], got[j], ans[j]),
					map[string]any{"campaign": "counter", "ops": lines[:j+1]})

				break
			}
		}
		r.Case("counter;"+strings.Join(lines, ";"), true)
		r.Traces++
		if wrapped {
			r.Count("counter.decrement_at_zero")
		}
		if stop >= math.MaxUint64-1 {
			r.Count("counter.stop_near_max")
		}
		r.Count("counter.cases")
	}
}

// ---------------------------------------------------------------------------
// Fakes

type acceptResult struct {
	conn net.Conn
	err  error
}

// fakeListener is an in-memory net.Listener whose pending Accept calls are
// resolved one by one by the harness.
type fakeListener struct {
	mu         sync.Mutex
	ch         chan acceptResult
	closed     bool
	blocked    int
	afterClose int
	closes     int
	// closeErr makes Close fail (after closing), as a real listener may.
	closeErr bool
}

func newFakeListener() *fakeListener { return &fakeListener{ch: make(chan acceptResult)} }

//go:noinline
func (f *fakeListener) Accept() (net.Conn, error) {
	f.mu.Lock()
	if f.closed {
		f.afterClose++
		f.mu.Unlock()

		return nil, net.ErrClosed
	}
	f.blocked++
	f.mu.Unlock()

	res := <-f.ch

	return res.conn, res.err
}

func (f *fakeListener) Close() error {
	f.mu.Lock()
	defer f.mu.Unlock()
	f.closed = true
	f.closes++
	if f.closeErr {
		return errFakeClose
	}

	return nil
}

func (f *fakeListener) setCloseErr() {
	f.mu.Lock()
	defer f.mu.Unlock()
	f.closeErr = true
}

// fakeListenConfig is the netext.ListenConfig that connlimiter.ListenConfig
// wraps; Listen hands out the fake listener set in next.
type fakeListenConfig struct {
	next *fakeListener
}

func (c *fakeListenConfig) Listen(_ context.Context, _, _ string) (net.Listener, error) {
	return c.next, nil
}

func (c *fakeListenConfig) ListenPacket(_ context.Context, _, _ string) (net.PacketConn, error) {
	return nil, errors.New("c18: no packet conns")
}

func (f *fakeListener) Addr() net.Addr { return fakeAddr("fake-listener") }

func (f *fakeListener) pending() int {
	f.mu.Lock()
	defer f.mu.Unlock()

	return f.blocked
}

// resolve hands res to exactly one blocked Accept call.
func (f *fakeListener) resolve(res acceptResult) {
	f.mu.Lock()
	f.blocked--
	f.mu.Unlock()
	f.ch <- res
}

type fakeAddr string

func (a fakeAddr) Network() string { return "fake" }
func (a fakeAddr) String() string  { return string(a) }

type fakeConn struct {
	closes atomic.Int32
	// failClose makes Close return an error, as a real connection may.
	failClose atomic.Bool
}

func (c *fakeConn) Read(b []byte) (int, error)  { return 0, io.EOF }
func (c *fakeConn) Write(b []byte) (int, error) { return len(b), nil }
func (c *fakeConn) Close() error {
	c.closes.Add(1)
	if c.failClose.Load() {
		return errFakeClose
	}

	return nil
}
func (c *fakeConn) LocalAddr() net.Addr                { return fakeAddr("local") }
func (c *fakeConn) RemoteAddr() net.Addr               { return fakeAddr("remote") }
func (c *fakeConn) SetDeadline(t time.Time) error      { return nil }
func (c *fakeConn) SetReadDeadline(t time.Time) error  { return nil }
func (c *fakeConn) SetWriteDeadline(t time.Time) error { return nil }

var errFakeAccept = errors.New("fake accept failure")
var errFakeClose = errors.New("fake close failure")

// timeoutErr is a net.Error that reports a timeout, like the error of an
// Accept whose deadline has passed.
type timeoutErr struct{}

func (timeoutErr) Error() string   { return "fake accept timeout" }
func (timeoutErr) Timeout() bool   { return true }
func (timeoutErr) Temporary() bool { return true }

// ---------------------------------------------------------------------------
// The world: one real Limiter, several limited fake listeners.

type lop struct {
	Kind string `json:"k"`
	Arg  int    `json:"a"`
}

func (o lop) String() string { return fmt.Sprintf("%s %d", o.Kind, o.Arg) }

// model is the model's op line: the three kinds of inner Accept errors are one
// scheduler choice there.
func (o lop) model() string {
	switch o.Kind {
	case "failc", "failt":
		return fmt.Sprintf("fail %d", o.Arg)
	}

	return o.String()
}

// acceptErr is the error the inner Accept returns for a fail op.
func (o lop) acceptErr() error {
	switch o.Kind {
	case "failc":
		return net.ErrClosed
	case "failt":
		return timeoutErr{}
	}

	return errFakeAccept
}

type world struct {
	stop, resume uint64
	lim          *connlimiter.Limiter
	fakes        []*fakeListener
	lsn          []net.Listener

	mu        sync.Mutex
	spawned   []int
	retConn   []int
	retClosed []int
	retOther  []int
	newConns  []net.Conn

	conns      []net.Conn // in hand-out order; index = model conn id
	inner      []*fakeConn
	lastFake   *fakeConn
	hook       *hookHandler
	connLsn    []int
	closedOnce []bool
	lclosed    []bool
	passedEver []int

	// oracle state (tally-based, independent of the model)
	stopped      bool
	everStopped  bool
	admittedLate bool
	released     bool

	// started counts acceptor goroutines that have begun to run; a goroutine
	// that has not is invisible to allParked (its only frame is a go-wrapper).
	started    atomic.Int64
	spawnedAll int64

	stuckBuf []byte
	// frameTag is how this world's acceptor goroutines look in a goroutine
	// dump: the method name followed by the receiver pointer.
	frameTag []byte
}

// abandoned counts acceptor goroutines that a defective limiter left parked for
// good; the limiter campaigns stop early when there are too many of them.
var abandoned int

// hookHandler is the slog.Handler given to the limiter.  The limiter logs
// "accept waiting" inside limitListener.increment between the loop test and
// counterCond.Wait(), with the lock held: the one place where a wake-up that
// does not take the lock would be lost.  When armed, the handler runs an action
// in a new goroutine at exactly that point and gives it time to finish; with
// correct locking the action simply blocks until Wait releases the lock.
type hookHandler struct {
	armed atomic.Pointer[func()]
	fired atomic.Int64
}

func (h *hookHandler) Enabled(context.Context, slog.Level) bool { return true }
func (h *hookHandler) WithAttrs([]slog.Attr) slog.Handler       { return h }
func (h *hookHandler) WithGroup(string) slog.Handler            { return h }

func (h *hookHandler) Handle(_ context.Context, rec slog.Record) error {
	if rec.Message != "accept waiting" {
		return nil
	}
	if f := h.armed.Swap(nil); f != nil {
		h.fired.Add(1)
		done := make(chan struct{})
		go func() {
			defer close(done)
			(*f)()
		}()
		select {
		case <-done:
		case <-time.After(3 * time.Millisecond):
		}
	}

	return nil
}

func newWorld(stop, resume uint64, nl int) (w *world, err error) {
	hook := &hookHandler{}
	lim, err := connlimiter.New(&connlimiter.Config{Logger: slog.New(hook), Stop: stop, Resume: resume})
	if err != nil {
		return nil, err
	}
	w = &world{stop: stop, resume: resume, lim: lim, hook: hook}
	// The listeners are made the way dnssvc makes them: through the limiter's
	// ListenConfig, with the server info in the context.
	flc := &fakeListenConfig{}
	lc := connlimiter.NewListenConfig(flc, lim)
	for i := 0; i < nl; i++ {
		f := newFakeListener()
		w.fakes = append(w.fakes, f)
		flc.next = f
		ctx := dnsserver.ContextWithServerInfo(context.Background(), &dnsserver.ServerInfo{
			Name: fmt.Sprintf("c18-%d", i), Addr: "fake", Proto: dnsserver.ProtoDNS,
		})
		var l net.Listener
		l, err = lc.Listen(ctx, "tcp", "fake")
		if err != nil {
			return nil, fmt.Errorf("limited listen: %w", err)
		}
		w.lsn = append(w.lsn, l)
	}
	w.spawned = make([]int, nl)
	w.retConn = make([]int, nl)
	w.retClosed = make([]int, nl)
	w.retOther = make([]int, nl)
	w.lclosed = make([]bool, nl)
	w.passedEver = make([]int, nl)
	w.stuckBuf = make([]byte, 1<<16)
	w.frameTag = []byte(fmt.Sprintf(").c18Acceptor(%p", w))

	return w, nil
}

// c18Acceptor is the body of an acceptor goroutine.  Its name is what
// allParked looks for in the goroutine dump.
//
//go:noinline
func (w *world) c18Acceptor(l int) {
	w.started.Add(1)
	conn, err := w.lsn[l].Accept()
	w.mu.Lock()
	defer w.mu.Unlock()
	switch {
	case err == nil:
		w.retConn[l]++
		w.newConns = append(w.newConns, conn)
	case errors.Is(err, net.ErrClosed):
		w.retClosed[l]++
	default:
		w.retOther[l]++
	}
}

func (w *world) spawn(l int) {
	w.mu.Lock()
	w.spawned[l]++
	w.mu.Unlock()
	w.spawnedAll++
	go w.c18Acceptor(l)
}

// allParked reports whether every live acceptor goroutine is parked either in
// sync.Cond.Wait or in the fake listener's channel receive.
func (w *world) allParked() bool {
	if w.started.Load() != w.spawnedAll {
		return false
	}
	var n int
	for {
		n = runtime.Stack(w.stuckBuf, true)
		if n < len(w.stuckBuf) {
			break
		}
		w.stuckBuf = make([]byte, 2*len(w.stuckBuf))
	}
	dump := w.stuckBuf[:n]
	w.mu.Lock()
	live := int(w.spawnedAll) - sum(w.retConn) - sum(w.retClosed) - sum(w.retOther)
	w.mu.Unlock()
	seen := 0
	for len(dump) > 0 {
		var blk []byte
		if i := bytes.Index(dump, []byte("\n\n")); i >= 0 {
			blk, dump = dump[:i], dump[i+2:]
		} else {
			blk, dump = dump, nil
		}
		if !bytes.Contains(blk, w.frameTag) {
			continue
		}
		seen++
		open := bytes.IndexByte(blk, '[')
		end := bytes.IndexByte(blk, ']')
		if open < 0 || end < open {
			return false
		}
		state := string(blk[open+1 : end])
		if i := strings.IndexByte(state, ','); i >= 0 {
			state = state[:i]
		}
		state = strings.TrimSuffix(state, " (scan)")
		switch {
		case state == "sync.Cond.Wait":
		case state == "chan receive" && bytes.Contains(blk, []byte("fakeListener).Accept")):
		default:
			return false
		}
	}

	// Every live acceptor must have been found in the dump; otherwise the dump
	// was not understood and nothing may be concluded from it.
	return seen == live
}

// quiesce waits until every acceptor goroutine is parked or gone.
func (w *world) quiesce() {
	for i := 0; ; i++ {
		if i < 20 {
			runtime.Gosched()
		} else {
			time.Sleep(time.Duration(min(i, 500)) * time.Microsecond)
		}
		if w.allParked() {
			return
		}
		if i > 200000 {
			panic("c18: acceptor goroutines never parked")
		}
	}
}

type snap struct {
	cur                       uint64
	acc                       bool
	waiting, pending, retClos []int
	open                      int
}

func (w *world) snapshot() (s snap) {
	s.cur, _, _, s.acc = connlimiter.VerifC18Snapshot(w.lim)
	nl := len(w.fakes)
	s.waiting, s.pending, s.retClos = make([]int, nl), make([]int, nl), make([]int, nl)
	w.mu.Lock()
	defer w.mu.Unlock()
	for l := 0; l < nl; l++ {
		s.pending[l] = w.fakes[l].pending()
		s.retClos[l] = w.retClosed[l]
		s.waiting[l] = w.spawned[l] - w.retConn[l] - w.retClosed[l] - w.retOther[l] - s.pending[l]
	}
	for i := range w.conns {
		if !w.closedOnce[i] {
			s.open++
		}
	}

	return s
}

func (s snap) String() string {
	parts := []string{fmt.Sprintf("cur=%d acc=%s open=%d", s.cur, b2s(s.acc), s.open)}
	for l := range s.waiting {
		parts = append(parts, fmt.Sprintf("L%d:w=%d,k=0,p=%d", l, s.waiting[l], s.pending[l]))
	}

	return strings.Join(parts, " ")
}

func (s snap) n() (n int) {
	n = s.open
	for _, p := range s.pending {
		n += p
	}

	return n
}

func sum(xs []int) (t int) {
	for _, x := range xs {
		t += x
	}

	return t
}

// limCase is one script run on the real limiter with its model lines.
type limCase struct {
	Stop   uint64 `json:"stop"`
	Resume uint64 `json:"resume"`
	NL     int    `json:"listeners"`
	Ops    []lop  `json:"ops"`
}

type limOutcome struct {
	lines, want []string
	viol        []hlib.Finding
	nontrivial  bool
	buckets     []string
}

func (oc *limOutcome) violate(sig, what string) {
	for _, v := range oc.viol {
		if v.Signature == sig {
			return
		}
	}
	oc.viol = append(oc.viol, hlib.Finding{Signature: sig, What: what})
}

// runLimCase drives the real limiter through the script.  next, if not nil,
// extends the script on the fly from the observed state.
func runLimCase(c *limCase, next func(w *world, s snap, step int) (lop, bool)) (oc *limOutcome) {
	oc = &limOutcome{}
	w, err := newWorld(c.Stop, c.Resume, c.NL)
	oc.lines = append(oc.lines, fmt.Sprintf("new b 1 %d %d", c.Stop, c.Resume))
	if err != nil {
		oc.want = append(oc.want, "bad-config")
		if c.Stop != 0 && c.Resume <= c.Stop {
			oc.violate("valid-config-rejected", fmt.Sprintf("New rejects stop=%d resume=%d", c.Stop, c.Resume))
		}

		return oc
	}
	oc.want = append(oc.want, "ok")
	defer w.drain()

	stateLine := fmt.Sprintf("state %d", c.NL)
	for step := 0; ; step++ {
		before := w.snapshot()
		var op lop
		if next != nil {
			var ok bool
			op, ok = next(w, before, step)
			if !ok {
				break
			}
			c.Ops = append(c.Ops, op)
		} else {
			if step >= len(c.Ops) {
				break
			}
			op = c.Ops[step]
		}
		l := op.Arg
		out := "none"
		decs := 0
		wakes := false
		switch op.Kind {
		case "accept":
			if l >= c.NL {
				out = "bad"

				break
			}
			w.spawn(l)
		case "deliver":
			// Also on a closed listener: the inner Accept runs outside the
			// limiter's lock and may return a connection that raced the Close.
			if l < c.NL && before.pending[l] > 0 {
				w.lastFake = &fakeConn{}
				w.fakes[l].resolve(acceptResult{conn: w.lastFake})
				out = "conn"
				if w.lclosed[l] {
					oc.buckets = append(oc.buckets, "limiter.op.deliver_after_lclose")
				}
			}
		case "fail", "failc", "failt":
			if l < c.NL && before.pending[l] > 0 {
				w.fakes[l].resolve(acceptResult{err: op.acceptErr()})
				out = "ok"
				decs, wakes = 1, true
			}
		case "close", "closee":
			if l < len(w.conns) {
				if op.Kind == "closee" {
					w.inner[l].failClose.Store(true)
				}
				err = w.conns[l].Close()
				switch {
				case err == nil:
					out = "ok"
				case errors.Is(err, net.ErrClosed):
					out = "errclosed"
				case errors.Is(err, errFakeClose):
					out = "innererr"
				default:
					out = "err:" + err.Error()
				}
				if !w.closedOnce[l] {
					w.closedOnce[l] = true
					decs, wakes = 1, true
				} else {
					oc.buckets = append(oc.buckets, "limiter.op.double_close")
				}
			} else {
				out = "errclosed"
			}
		case "lclose", "lclosee":
			if l >= c.NL {
				out = "bad"

				break
			}
			if op.Kind == "lclosee" {
				w.fakes[l].setCloseErr()
			}
			err = w.lsn[l].Close()
			switch {
			case err == nil:
				out = "ok"
			case errors.Is(err, net.ErrClosed):
				out = "errclosed"
			case errors.Is(err, errFakeClose):
				out = "innererr"
			default:
				out = "err:" + err.Error()
			}
			if !w.lclosed[l] {
				w.lclosed[l] = true
				wakes = true
			} else {
				oc.buckets = append(oc.buckets, "limiter.op.double_lclose")
			}
		}
		if out == "bad" {
			continue
		}
		w.quiesce()
		w.collectConns(op)
		after := w.snapshot()
		oc.buckets = append(oc.buckets, "limiter.op."+op.Kind)

		// --- what happened, from observation only -------------------------
		nl := c.NL
		passed := make([]int, nl)
		closedNow := make([]int, nl)
		for i := 0; i < nl; i++ {
			passed[i] = after.pending[i] - before.pending[i]
			closedNow[i] = after.retClos[i] - before.retClos[i]
		}
		switch op.Kind {
		case "deliver", "fail", "failc", "failt":
			if out != "none" {
				passed[l]++
			}
		}
		if op.Kind == "failc" && out != "none" {
			// The acceptor whose inner Accept failed with net.ErrClosed returned
			// just that; it is not one that the limiter turned away.
			closedNow[l]--
		}
		if op.Kind == "deliver" && out == "conn" {
			out = fmt.Sprintf("conn %d", len(w.conns)-1)
		}
		if op.Kind == "accept" {
			switch {
			case passed[l] == 1 && after.waiting[l] == before.waiting[l]:
				out = "pending"
			case closedNow[l] == 1:
				out = "closed"
				closedNow[l]--
			case after.waiting[l] == before.waiting[l]+1:
				out = "wait"
			default:
				out = fmt.Sprintf("accept-unaccounted(%v -> %v)", before, after)
			}
			if out == "pending" {
				passed[l]--
				w.passedEver[l]++
				// The admission of the new acceptor itself.
				w.oracleAdmit(oc, before.n(), 1, op, step)
			}
		}
		oc.lines = append(oc.lines, op.model())
		oc.want = append(oc.want, out)

		// --- the property oracle (tally based) -----------------------------
		nMid := before.n() - decs
		if decs > 0 && uint64(nMid) <= w.resume {
			if w.stopped {
				w.released = true
			}
			w.stopped = false
		}
		late := sum(passed)
		if late > 0 {
			w.oracleAdmit(oc, nMid, late, op, step)
			if w.everStopped {
				w.admittedLate = true
			}
		}
		for i := 0; i < nl; i++ {
			w.passedEver[i] += passed[i]
			if w.lclosed[i] && (passed[i] > 0 || (op.Kind == "accept" && i == l && out == "pending")) {
				oc.violate("accept-passed-on-closed-listener", fmt.Sprintf(
					"step %d (%s): an Accept on closed listener %d got past the limiter", step, op, i))
			}
			if w.lclosed[i] && after.waiting[i] > 0 {
				oc.violate("closed-listener-waiter-not-released", fmt.Sprintf(
					"step %d (%s): listener %d is closed but %d of its Accept calls are still blocked in the limiter",
					step, op, i, after.waiting[i]))
			}
		}
		n := after.n()
		if uint64(n) > w.stop {
			oc.violate("bound-exceeded", fmt.Sprintf(
				"step %d (%s): %d open connections + %d pending accepts > stop %d",
				step, op, after.open, n-after.open, w.stop))
		}
		if uint64(n) >= w.stop {
			w.stopped, w.everStopped = true, true
		}
		if after.cur != uint64(n) {
			sig := "counter-below-open-plus-pending"
			if after.cur > uint64(n) {
				sig = "counter-above-open-plus-pending"
			}
			oc.violate(sig, fmt.Sprintf(
				"step %d (%s): counter.current = %d but open connections + pending accepts = %d (stop %d resume %d)",
				step, op, after.cur, n, w.stop, w.resume))
		}
		if !w.stopped {
			for i := 0; i < nl; i++ {
				if !w.lclosed[i] && after.waiting[i] > 0 {
					oc.violate("waiter-stuck-while-limiter-should-accept", fmt.Sprintf(
						"step %d (%s): %d Accept call(s) on open listener %d stay blocked although only %d of stop=%d "+
							"slots are in use and the count has been at or below resume=%d since the limiter last stopped",
						step, op, after.waiting[i], i, n, w.stop, w.resume))
				}
			}
		}
		// --- model lines for the wake-ups, schedule taken from observation --
		if wakes && (out == "ok" || out == "innererr") {
			for i := 0; i < nl; i++ {
				for k := 0; k < passed[i]; k++ {
					oc.lines = append(oc.lines, fmt.Sprintf("recheck %d", i))
					oc.want = append(oc.want, "pending")
				}
			}
			for i := 0; i < nl; i++ {
				for k := 0; k < closedNow[i]; k++ {
					oc.lines = append(oc.lines, fmt.Sprintf("recheck %d", i))
					oc.want = append(oc.want, "closed")
				}
				rest := before.waiting[i] - passed[i] - closedNow[i]
				for k := 0; k < rest; k++ {
					oc.lines = append(oc.lines, fmt.Sprintf("recheck %d", i))
					oc.want = append(oc.want, "wait")
				}
			}
		}
		oc.lines = append(oc.lines, stateLine)
		want := after.String()
		// the closed flags come from the harness's own record of Close calls
		fields := strings.Fields(want)
		for i := 0; i < nl; i++ {
			fields[3+i] += ",c=" + b2s(w.lclosed[i])
		}
		oc.want = append(oc.want, strings.Join(fields, " "))
	}
	oc.nontrivial = w.everStopped && (w.admittedLate || w.released)
	if w.everStopped {
		oc.buckets = append(oc.buckets, "limiter.case.stopped")
	}
	if w.admittedLate {
		oc.buckets = append(oc.buckets, "limiter.case.waiter_admitted_after_stop")
	}
	if w.released {
		oc.buckets = append(oc.buckets, "limiter.case.resumed")
	}
	if sum(w.retClosed) > 0 {
		oc.buckets = append(oc.buckets, "limiter.case.accept_returned_closed")
	}

	return oc
}

// oracleAdmit checks the hysteresis clause for k admissions at tally n.
func (w *world) oracleAdmit(oc *limOutcome, n, k int, op lop, step int) {
	if w.stopped {
		oc.violate("accepted-while-stopped", fmt.Sprintf(
			"step %d (%s): %d Accept call(s) got past the limiter although the count reached stop=%d "+
				"earlier and has not fallen to resume=%d since (count now %d)", step, op, k, w.stop, w.resume, n))
	}
}

// collectConns moves freshly returned connections into the id table.
func (w *world) collectConns(op lop) {
	w.mu.Lock()
	defer w.mu.Unlock()
	for _, c := range w.newConns {
		w.conns = append(w.conns, c)
		w.inner = append(w.inner, w.lastFake)
		w.connLsn = append(w.connLsn, op.Arg)
		w.closedOnce = append(w.closedOnce, false)
	}
	w.newConns = w.newConns[:0]
}

// drain releases every goroutine of the world.
func (w *world) drain() {
	for i := range w.lsn {
		_ = w.lsn[i].Close()
	}
	w.quiesce()
	for i, f := range w.fakes {
		for f.pending() > 0 {
			f.resolve(acceptResult{err: errFakeAccept})
			w.quiesce()
		}
		_ = i
	}
	// Waiters of closed listeners have returned by now unless the code under
	// test is defective; one more broadcast lets them see isClosed.  What is
	// still parked after that is abandoned.
	connlimiter.VerifC18WakeAll(w.lim)
	w.quiesce()
	w.mu.Lock()
	defer w.mu.Unlock()
	for l := range w.fakes {
		abandoned += w.spawned[l] - w.retConn[l] - w.retClosed[l] - w.retOther[l]
	}
}

func b2s(b bool) string {
	if b {
		return "1"
	}

	return "0"
}

func b2i(b bool) int {
	if b {
		return 1
	}

	return 0
}

// checkLimCase runs a case, asks the model, records everything.
func checkLimCase(r *hlib.Result, m *hlib.Model, c *limCase, next func(*world, snap, int) (lop, bool), campaign string) (failed bool) {
	oc := runLimCase(c, next)
	replay := map[string]any{"campaign": "limiter", "case": c}
	// Property oracle first.
	for _, v := range oc.viol {
		r.Violate(v.Signature, v.What, replay)
		failed = true
	}
	m.ResetLog()
	ans := m.Batch(oc.lines)
	r.ModelOps += len(oc.lines)
	for j := range oc.lines {
		if ans[j] != oc.want[j] {
			r.Disagree("limiter", fmt.Sprintf("after %q: real %q, model %q (stop %d resume %d)",
				oc.lines[j], oc.want[j], ans[j], c.Stop, c.Resume),
				map[string]any{"campaign": "limiter", "case": c, "model_lines": truncate(oc.lines[:j+1], 60)})
			failed = true

			break
		}
	}
	canon, _ := json.Marshal(c)
	r.Case(string(canon), oc.nontrivial)
	r.Traces++
	r.Count(campaign + ".cases")
	for _, b := range oc.buckets {
		r.Count(b)
	}
	r.Count(fmt.Sprintf("limiter.stop=%d", min(c.Stop, 9)))
	if oc.nontrivial {
		r.Sample(map[string]any{"campaign": campaign, "stop": c.Stop, "resume": c.Resume,
			"ops": truncate(oc.lines, 16)}, 4)
	}

	return failed
}

func truncate(s []string, n int) []string {
	if len(s) > n {
		return append(append([]string{}, s[:n]...), fmt.Sprintf("... (%d lines)", len(s)))
	}

	return append([]string{}, s...)
}

// witnessCampaign replays the Lean counter-example traces on the real code.
func witnessCampaign(r *hlib.Result, m *hlib.Model) {
	A := func(l int) lop { return lop{"accept", l} }
	D := func(l int) lop { return lop{"deliver", l} }
	C := func(k int) lop { return lop{"close", k} }
	// Props/C18.lean: stuck_waiter_counterexample (S6).
	checkLimCase(r, m, &limCase{Stop: 3, Resume: 1, NL: 3, Ops: []lop{
		A(0), D(0), A(0), D(0), A(0), D(0), A(1), A(2), C(0), C(1),
	}}, nil, "limiter.witness")
	// Props/C18.lean: closed_accept_leak_counterexample.
	checkLimCase(r, m, &limCase{Stop: 1, Resume: 1, NL: 2, Ops: []lop{
		{"lclose", 0}, A(0), A(1),
	}}, nil, "limiter.witness")
	// Double close and double listener close.
	checkLimCase(r, m, &limCase{Stop: 2, Resume: 0, NL: 2, Ops: []lop{
		A(0), D(0), A(1), D(1), A(0), A(1), C(0), C(0), C(0), C(1), C(1), {"lclose", 1}, {"lclose", 1}, A(1),
	}}, nil, "limiter.witness")
	// Errors of the wrapped objects: a connection whose own Close fails still
	// gives its slot back (once); a listener whose own Close fails is closed
	// and its waiters are released; an inner Accept that fails with
	// net.ErrClosed or a timeout gives the slot back.
	checkLimCase(r, m, &limCase{Stop: 1, Resume: 0, NL: 2, Ops: []lop{
		A(0), D(0), A(1), A(1), {"closee", 0}, {"closee", 0}, D(1), A(0), {"lclosee", 0}, {"lclosee", 0}, C(1), A(0),
	}}, nil, "limiter.witness")
	checkLimCase(r, m, &limCase{Stop: 2, Resume: 1, NL: 2, Ops: []lop{
		A(0), A(1), A(1), {"failc", 0}, {"failt", 1}, {"lclose", 1}, {"failc", 1}, A(0), A(0), A(0),
	}}, nil, "limiter.witness")
	// A connection delivered by the inner Accept while the listener is being
	// closed counts like any other.
	checkLimCase(r, m, &limCase{Stop: 2, Resume: 0, NL: 2, Ops: []lop{
		A(0), A(0), A(1), {"lclose", 0}, D(0), D(0), A(1), C(0), C(1), C(0),
	}}, nil, "limiter.witness")
	// Bad configurations.
	for _, sr := range [][2]uint64{{0, 0}, {1, 2}, {0, 1}, {math.MaxUint64, math.MaxUint64}, {2, 0}} {
		checkLimCase(r, m, &limCase{Stop: sr[0], Resume: sr[1], NL: 1, Ops: []lop{A(0), D(0), C(0)}}, nil, "limiter.config")
	}
}

// genNext returns a state-directed random script generator.
func genNext(rng *rand.Rand, length int, nl int) func(w *world, s snap, step int) (lop, bool) {
	// Per-case temperament so that some cases pile up waiters and others churn.
	wAccept := 2 + rng.IntN(6)
	wClose := 1 + rng.IntN(5)
	wLclose := rng.IntN(3)
	wFail := rng.IntN(3)

	return func(w *world, s snap, step int) (lop, bool) {
		if step >= length {
			return lop{}, false
		}
		for {
			x := rng.IntN(wAccept + wClose + wLclose + wFail + 4)
			switch {
			case x < wAccept:
				if sum(s.waiting) >= 6 {
					continue
				}

				return lop{"accept", rng.IntN(nl)}, true
			case x < wAccept+wClose:
				if len(w.conns) == 0 {
					continue
				}
				// Mostly open connections, sometimes one that is closed already.
				k := rng.IntN(len(w.conns))
				if w.closedOnce[k] && rng.IntN(3) > 0 {
					continue
				}

				if rng.IntN(5) == 0 {
					return lop{"closee", k}, true
				}

				return lop{"close", k}, true
			case x < wAccept+wClose+wLclose:
				if rng.IntN(4) > 0 {
					continue
				}

				if rng.IntN(3) == 0 {
					return lop{"lclosee", rng.IntN(nl)}, true
				}

				return lop{"lclose", rng.IntN(nl)}, true
			case x < wAccept+wClose+wLclose+wFail:
				l := rng.IntN(nl)
				if s.pending[l] == 0 && rng.IntN(8) > 0 {
					continue
				}

				return lop{[]string{"fail", "fail", "failc", "failt"}[rng.IntN(4)], l}, true
			default:
				l := rng.IntN(nl)
				if s.pending[l] == 0 && rng.IntN(8) > 0 {
					continue
				}

				return lop{"deliver", l}, true
			}
		}
	}
}

func limiterCampaign(o *hlib.Opts, r *hlib.Result, m *hlib.Model) {
	rng := o.Rand("limiter")
	n := 1500
	if o.Thorough() {
		n = 8000
	}
	for i := 0; i < n; i++ {
		stop := uint64(1 + rng.IntN(4))
		if rng.IntN(10) == 0 {
			stop = uint64(5 + rng.IntN(4))
		}
		resume := uint64(rng.IntN(int(stop) + 1))
		switch rng.IntN(6) {
		case 0:
			resume = stop
		case 1:
			resume = 0
		case 2:
			resume = stop - 1
		}
		nl := 1 + rng.IntN(3)
		length := 6 + rng.IntN(40)
		c := &limCase{Stop: stop, Resume: resume, NL: nl}
		if checkLimCase(r, m, c, genNext(rng, length, nl), "limiter.random") {
			shrinkAndReport(r, c)
		}
		if tooManyAbandoned(r) {
			return
		}
	}
	if o.Thorough() {
		exhaustive(r, m)
	}
}

// tooManyAbandoned reports whether so many goroutines were left parked by a
// defective limiter that going on would only slow the run down.
func tooManyAbandoned(r *hlib.Result) bool {
	if abandoned < 300 {
		return false
	}
	r.Notes = append(r.Notes, fmt.Sprintf(
		"limiter campaign stopped early: %d acceptor goroutines were left parked for good by the limiter", abandoned))

	return true
}

// shrinkAndReport minimises a failing script with respect to the property
// oracle and stores the minimal replay under the same signature.
func shrinkAndReport(r *hlib.Result, c *limCase) {
	oc := runLimCase(&limCase{Stop: c.Stop, Resume: c.Resume, NL: c.NL, Ops: c.Ops}, nil)
	if len(oc.viol) == 0 {
		return
	}
	sig := oc.viol[0].Signature
	fails := func(ops []lop) bool {
		oc := runLimCase(&limCase{Stop: c.Stop, Resume: c.Resume, NL: c.NL, Ops: ops}, nil)
		for _, v := range oc.viol {
			if v.Signature == sig {
				return true
			}
		}

		return false
	}
	small := hlib.Shrink(c.Ops, fails)
	oc = runLimCase(&limCase{Stop: c.Stop, Resume: c.Resume, NL: c.NL, Ops: small}, nil)
	for i, v := range r.Violations {
		if v.Signature != sig {
			continue
		}
		for _, v2 := range oc.viol {
			if v2.Signature == sig {
				r.Violations[i].What = v2.What
				r.Violations[i].Replay = map[string]any{"campaign": "limiter", "shrunk": true,
					"case": &limCase{Stop: c.Stop, Resume: c.Resume, NL: c.NL, Ops: small}}
			}
		}
	}
}

// exhaustive enumerates every script of a given length over a small alphabet
// (two listeners): length 5 for all 1 <= stop <= 3, 0 <= resume <= stop.
func exhaustive(r *hlib.Result, m *hlib.Model) {
	exhaustiveOver(r, m, []lop{
		{"accept", 0}, {"accept", 1}, {"deliver", 0}, {"deliver", 1}, {"close", 0}, {"close", 1},
		{"fail", 0}, {"lclose", 0},
	}, 5)
	// The same with the wrapped objects failing: Close errors of connection and
	// listener, the inner Accept failing with net.ErrClosed, a listener closed
	// under a pending accept that still delivers.
	exhaustiveOver(r, m, []lop{
		{"accept", 0}, {"accept", 1}, {"deliver", 0}, {"deliver", 1}, {"closee", 0}, {"close", 0},
		{"failc", 1}, {"lclosee", 0}, {"lclose", 1},
	}, 5)
	r.Exhaustive = true
}

func exhaustiveOver(r *hlib.Result, m *hlib.Model, alphabet []lop, length int) {
	type scope struct {
		stop, resume uint64
		length       int
	}
	var scopes []scope
	for stop := uint64(1); stop <= 3; stop++ {
		for resume := uint64(0); resume <= stop; resume++ {
			scopes = append(scopes, scope{stop, resume, length})
		}
	}
	cases := 0
	for _, sc := range scopes {
		total := 1
		for i := 0; i < sc.length; i++ {
			total *= len(alphabet)
		}
		for code := 0; code < total; code++ {
			ops := make([]lop, sc.length)
			x := code
			for j := range ops {
				ops[j] = alphabet[x%len(alphabet)]
				x /= len(alphabet)
			}
			// A script that starts with an op that cannot be enabled in the
			// initial state behaves like its suffix, which is enumerated too.
			if ops[0].Kind != "accept" && ops[0].Kind != "lclose" && ops[0].Kind != "lclosee" {
				continue
			}
			checkLimCase(r, m, &limCase{Stop: sc.stop, Resume: sc.resume, NL: 2, Ops: ops}, nil, "limiter.exhaustive")
			cases++
			if tooManyAbandoned(r) {
				return
			}
		}
	}
	var names []string
	for _, a := range alphabet {
		names = append(names, a.String())
	}
	r.Notes = append(r.Notes, fmt.Sprintf(
		"limiter.exhaustive: all %d scripts over the %d ops {%s} (2 listeners) starting with accept/lclose: length %d for every "+
			"1 <= stop <= 3, 0 <= resume <= stop; the goroutine schedule inside one op is "+
			"the Go runtime's", cases, len(alphabet), strings.Join(names, ", "), length))
}

// ---------------------------------------------------------------------------
// Wake-ups issued inside the window between the loop test and Wait.

// winCase is one scenario: the limiter is filled to stop through listener 0,
// Pre acceptors are parked on listener 1, then one more Accept on listener 1
// is started and, while it is between its loop test and counterCond.Wait (the
// limiter's "accept waiting" log call), Action is carried out by another
// goroutine.  With correct locking this is the same as doing Action right
// after the acceptor has parked.
type winCase struct {
	Stop   uint64 `json:"stop"`
	Resume uint64 `json:"resume"`
	Pre    int    `json:"pre"`
	Action string `json:"action"` // lclose | close | lclose+close
}

// finalOracle checks, on a quiescent state and from observation only, what
// must hold after every schedule.
func finalOracle(w *world, s snap) (viol []hlib.Finding) {
	n := s.n()
	add := func(sig, what string) { viol = append(viol, hlib.Finding{Signature: sig, What: what}) }
	if uint64(n) > w.stop {
		add("bound-exceeded", fmt.Sprintf("%d open connections + %d pending accepts > stop %d", s.open, n-s.open, w.stop))
	}
	if s.cur != uint64(n) {
		sig := "counter-below-open-plus-pending"
		if s.cur > uint64(n) {
			sig = "counter-above-open-plus-pending"
		}
		add(sig, fmt.Sprintf("counter.current = %d but open connections + pending accepts = %d (stop %d resume %d)",
			s.cur, n, w.stop, w.resume))
	}
	for i := range s.waiting {
		if w.lclosed[i] && s.waiting[i] > 0 {
			add("closed-listener-waiter-not-released", fmt.Sprintf(
				"listener %d is closed but %d of its Accept calls are still blocked in the limiter", i, s.waiting[i]))
		}
		if !w.lclosed[i] && s.waiting[i] > 0 && uint64(n) < w.stop && uint64(n) <= w.resume {
			add("waiter-stuck-while-limiter-should-accept", fmt.Sprintf(
				"%d Accept call(s) on open listener %d stay blocked although only %d of stop=%d slots are in use "+
					"and the count is at or below resume=%d", s.waiting[i], i, n, w.stop, w.resume))
		}
	}

	return viol
}

func runWindowCase(r *hlib.Result, m *hlib.Model, c *winCase) {
	replay := map[string]any{"campaign": "window", "win": c}
	w, err := newWorld(c.Stop, c.Resume, 2)
	hlib.Must(err)
	defer w.drain()
	lines := []string{fmt.Sprintf("new b 1 %d %d", c.Stop, c.Resume)}
	for k := uint64(0); k < c.Stop; k++ {
		w.spawn(0)
		w.quiesce()
		w.lastFake = &fakeConn{}
		w.fakes[0].resolve(acceptResult{conn: w.lastFake})
		w.quiesce()
		w.collectConns(lop{"deliver", 0})
		lines = append(lines, "accept 0", "deliver 0")
	}
	for k := 0; k < c.Pre; k++ {
		w.spawn(1)
		w.quiesce()
		lines = append(lines, "accept 1")
	}
	var act func()
	switch c.Action {
	case "lclose":
		act = func() { _ = w.lsn[1].Close() }
		lines = append(lines, "accept 1", "lclose 1")
	case "close":
		act = func() { _ = w.conns[0].Close() }
		lines = append(lines, "accept 1", "close 0")
	default:
		act = func() { _ = w.lsn[1].Close(); _ = w.conns[0].Close() }
		lines = append(lines, "accept 1", "lclose 1", "close 0")
	}
	actDone := make(chan struct{})
	armed := func() {
		defer close(actDone)
		act()
	}
	w.hook.armed.Store(&armed)
	w.spawn(1)
	fired := false
	for i := 0; ; i++ {
		if w.hook.fired.Load() > 0 {
			fired = true

			break
		}
		if w.allParked() {
			// The acceptor parked (or went through) without the limiter's
			// "accept waiting" message: do the action now.
			if w.hook.armed.Swap(nil) != nil {
				armed()
			} else {
				fired = true
			}

			break
		}
		if i > 20 {
			time.Sleep(50 * time.Microsecond)
		} else {
			runtime.Gosched()
		}
	}
	select {
	case <-actDone:
	case <-time.After(20 * time.Second):
		r.Disagree("window", "the action started inside the accept-waiting window never finished", replay)

		return
	}
	if c.Action != "close" {
		w.lclosed[1] = true
	}
	if c.Action != "lclose" {
		w.closedOnce[0] = true
	}
	w.quiesce()
	w.collectConns(lop{"accept", 1})
	after := w.snapshot()
	for _, v := range finalOracle(w, after) {
		r.Violate(v.Signature, fmt.Sprintf("%s issued while an Accept on listener 1 was between its loop test and Wait "+
			"(stop %d, resume %d, %d acceptors already parked): %s", c.Action, c.Stop, c.Resume, c.Pre, v.What), replay)
	}
	// Correspondence: same as the sequential script; the acceptors of listener
	// 1 are interchangeable, so the final state does not depend on the order of
	// their re-checks.
	for k := 0; k <= c.Pre; k++ {
		lines = append(lines, "recheck 1")
	}
	lines = append(lines, "state 2")
	fields := strings.Fields(after.String())
	for i := 0; i < 2; i++ {
		fields[3+i] += ",c=" + b2s(w.lclosed[i])
	}
	want := strings.Join(fields, " ")
	m.ResetLog()
	ans := m.Batch(lines)
	r.ModelOps += len(lines)
	if got := ans[len(ans)-1]; got != want {
		r.Disagree("window", fmt.Sprintf("final state: real %q, model %q", want, got),
			map[string]any{"campaign": "window", "win": c, "model_lines": truncate(lines, 60)})
	}
	canon, _ := json.Marshal(c)
	r.Case("window;"+string(canon), true)
	r.Traces++
	r.Count("window.cases")
	r.Count("window.action=" + c.Action)
	if fired {
		r.Count("window.hook_fired")
	} else {
		r.Count("window.hook_not_fired")
	}
}

func windowCampaign(o *hlib.Opts, r *hlib.Result, m *hlib.Model) {
	actions := []string{"lclose", "close", "lclose+close"}
	if o.Thorough() {
		// Every scenario with stop <= 3, 0..2 parked acceptors.
		for stop := uint64(1); stop <= 3; stop++ {
			for resume := uint64(0); resume <= stop; resume++ {
				for pre := 0; pre <= 2; pre++ {
					for _, a := range actions {
						for rep := 0; rep < 3; rep++ {
							runWindowCase(r, m, &winCase{Stop: stop, Resume: resume, Pre: pre, Action: a})
						}
					}
				}
			}
		}

		return
	}
	rng := o.Rand("window")
	for i := 0; i < 60; i++ {
		stop := uint64(1 + rng.IntN(3))
		runWindowCase(r, m, &winCase{
			Stop: stop, Resume: uint64(rng.IntN(int(stop) + 1)), Pre: rng.IntN(3), Action: actions[rng.IntN(3)],
		})
		if tooManyAbandoned(r) {
			return
		}
	}
}

// ---------------------------------------------------------------------------
// Storm: accepts, deliveries, failures, closes (several per connection) and a
// listener close all running at once, no quiescence in between.  The schedule
// is the Go runtime's; the oracle only uses what holds after every schedule.

type stormCase struct {
	Stop    uint64 `json:"stop"`
	Resume  uint64 `json:"resume"`
	NL      int    `json:"listeners"`
	Accepts int    `json:"accepts"`
	// Keep is the number of connections left open at the end.
	Keep   int    `json:"keep"`
	LClose int    `json:"lclose"` // listener closed in the middle, -1: none
	Seed   uint64 `json:"seed"`
}

func runStorm(r *hlib.Result, c *stormCase) {
	replay := map[string]any{"campaign": "storm", "storm": c}
	rng := rand.New(rand.NewPCG(c.Seed, 18))
	w, err := newWorld(c.Stop, c.Resume, c.NL)
	hlib.Must(err)
	defer w.drain()

	// handed counts connections returned by Accept and not yet passed to
	// Close: never more than the limiter's own idea of open connections.
	var handed, maxHanded atomic.Int64
	var stopDeliver atomic.Bool
	var closedCount, kept atomic.Int64
	var wg sync.WaitGroup

	// Deliverer: resolves pending inner accepts, mostly with a connection.
	wg.Add(1)
	failEvery := 3 + rng.IntN(6)
	go func() {
		defer wg.Done()
		for i := 0; !stopDeliver.Load(); i++ {
			busy := false
			for l, f := range w.fakes {
				if f.pending() == 0 {
					continue
				}
				busy = true
				if i%failEvery == 0 {
					f.resolve(acceptResult{err: lop{[]string{"fail", "failc", "failt"}[i%3], l}.acceptErr()})
				} else {
					f.resolve(acceptResult{conn: &fakeConn{}})
				}
			}
			if !busy {
				runtime.Gosched()
			}
		}
	}()
	// Closer: closes what Accept hands out, each connection up to three times
	// from different goroutines, except for Keep of them.
	var stopClose atomic.Bool
	var keepConns []net.Conn
	var cwg sync.WaitGroup
	crng := rand.New(rand.NewPCG(c.Seed, 19))
	wg.Add(1)
	go func() {
		defer wg.Done()
		for !stopClose.Load() {
			w.mu.Lock()
			fresh := w.newConns
			w.newConns = nil
			w.mu.Unlock()
			if len(fresh) == 0 {
				runtime.Gosched()

				continue
			}
			for _, conn := range fresh {
				n := handed.Add(1)
				for {
					mx := maxHanded.Load()
					if n <= mx || maxHanded.CompareAndSwap(mx, n) {
						break
					}
				}
				if int(kept.Load()) < c.Keep && crng.IntN(3) == 0 {
					kept.Add(1)
					keepConns = append(keepConns, conn)

					continue
				}
				handed.Add(-1)
				closedCount.Add(1)
				for k := 1 + crng.IntN(3); k > 0; k-- {
					cwg.Add(1)
					go func() {
						defer cwg.Done()
						_ = conn.Close()
					}()
				}
			}
		}
	}()
	for i := 0; i < c.Accepts; i++ {
		w.spawn(rng.IntN(c.NL))
		if i == c.Accepts/2 && c.LClose >= 0 {
			cwg.Add(1)
			go func() {
				defer cwg.Done()
				_ = w.lsn[c.LClose].Close()
			}()
			w.lclosed[c.LClose] = true
		}
		if rng.IntN(4) == 0 {
			runtime.Gosched()
		}
	}
	// Let it run until nothing moves any more: every acceptor returned or
	// parked, nothing pending, nothing left to close.
	settled := waitFor(func() bool {
		w.mu.Lock()
		fresh := len(w.newConns)
		w.mu.Unlock()
		if fresh > 0 {
			return false
		}
		for _, f := range w.fakes {
			if f.pending() > 0 {
				return false
			}
		}

		return w.allParked()
	}, 20*time.Second)
	stopDeliver.Store(true)
	stopClose.Store(true)
	wg.Wait()
	cwg.Wait()
	w.quiesce()
	if !settled {
		r.Disagree("storm", "the storm did not settle within 20 s", replay)

		return
	}
	// Whatever arrived in the very last moment is kept open.
	w.mu.Lock()
	keepConns = append(keepConns, w.newConns...)
	w.newConns = nil
	w.mu.Unlock()
	w.conns = keepConns
	w.closedOnce = make([]bool, len(keepConns))
	after := w.snapshot()
	viol := finalOracle(w, after)
	if mx := maxHanded.Load(); uint64(mx) > c.Stop {
		viol = append(viol, hlib.Finding{Signature: "bound-exceeded", What: fmt.Sprintf(
			"%d connections returned by Accept were open at the same time, stop = %d", mx, c.Stop)})
	}
	for _, v := range viol {
		r.Violate(v.Signature, fmt.Sprintf("after a storm of %d concurrent accepts on %d listeners (stop %d, resume %d, "+
			"%d connections closed, %d kept open): %s", c.Accepts, c.NL, c.Stop, c.Resume, closedCount.Load(), len(keepConns), v.What), replay)
	}
	canon, _ := json.Marshal(c)
	r.Case("storm;"+string(canon), true)
	r.Count("storm.cases")
	if sum(after.waiting) > 0 {
		r.Count("storm.ends_with_waiters")
	}
	if after.n() > 0 {
		r.Count("storm.ends_with_open_or_pending")
	}
	if c.LClose >= 0 {
		r.Count("storm.listener_closed_midway")
	}
	// Close the kept connections through the limiter so that drain finds the
	// world as the scripted campaigns leave it.
	for _, conn := range keepConns {
		_ = conn.Close()
	}
	w.quiesce()
}

func stormCampaign(o *hlib.Opts, r *hlib.Result) {
	rng := o.Rand("storm")
	n := 150
	if o.Thorough() {
		n = 3000
	}
	for i := 0; i < n; i++ {
		stop := uint64(1 + rng.IntN(4))
		nl := 1 + rng.IntN(3)
		c := &stormCase{
			Stop: stop, Resume: uint64(rng.IntN(int(stop) + 1)), NL: nl, Accepts: 4 + rng.IntN(20),
			Keep: rng.IntN(int(stop) + 1), LClose: -1, Seed: rng.Uint64(),
		}
		if rng.IntN(3) == 0 {
			c.LClose = rng.IntN(nl)
		}
		runStorm(r, c)
		if tooManyAbandoned(r) {
			return
		}
	}
}

// ---------------------------------------------------------------------------
// Concurrent double close: the compare-and-swap guard under real concurrency.

func concurrentCloseCampaign(o *hlib.Opts, r *hlib.Result) {
	rng := o.Rand("cclose")
	worlds := 40
	if o.Thorough() {
		worlds = 400
	}
	for i := 0; i < worlds; i++ {
		nconn := 8 + rng.IntN(25)
		stop := uint64(nconn + rng.IntN(3))
		resume := uint64(rng.IntN(int(stop) + 1))
		w, err := newWorld(stop, resume, 1)
		hlib.Must(err)
		for k := 0; k < nconn; k++ {
			w.spawn(0)
			w.quiesce()
			w.lastFake = &fakeConn{}
			w.fakes[0].resolve(acceptResult{conn: w.lastFake})
			w.quiesce()
			w.collectConns(lop{"deliver", 0})
		}
		closers := 2 + rng.IntN(5)
		oks := make([]atomic.Int32, nconn)
		var wg sync.WaitGroup
		for victim := 0; victim < nconn; victim++ {
			// A spinning start flag puts the closers of one connection on
			// different processors at the same instant.
			var ready atomic.Int32
			var start atomic.Bool
			for g := 0; g < closers; g++ {
				wg.Add(1)
				go func() {
					defer wg.Done()
					ready.Add(1)
					for !start.Load() {
					}
					if w.conns[victim].Close() == nil {
						oks[victim].Add(1)
					}
				}()
			}
			for ready.Load() != int32(closers) {
				runtime.Gosched()
			}
			start.Store(true)
			wg.Wait()
			r.Count("cclose.races")
		}
		cur, _, _, _ := connlimiter.VerifC18Snapshot(w.lim)
		replay := map[string]any{"campaign": "cclose", "stop": stop, "resume": resume, "open": nconn, "closers": closers}
		if cur != 0 {
			r.Violate("concurrent-double-close-released-not-once", fmt.Sprintf(
				"each of %d open connections was closed by %d goroutines at once: the counter went from %d to %d instead of 0",
				nconn, closers, nconn, cur), replay)
		}
		for victim := range oks {
			if n := oks[victim].Load(); n != 1 {
				r.Violate("concurrent-double-close-released-not-once", fmt.Sprintf(
					"%d concurrent Close calls on one connection: %d returned nil", closers, n), replay)
			}
		}
		r.Case(fmt.Sprintf("cclose;%d;%d;%d;%d", stop, resume, nconn, closers), true)
		r.Count("cclose.cases")
		w.drain()
	}
}

// ---------------------------------------------------------------------------
// Pipeline: real ServerDNS / ServerTLS on loopback, one or two connections.

// connStat is what the handler observes for one client connection.
type connStat struct {
	entered  atomic.Int64
	exited   atomic.Int64
	gate     chan struct{}
	inflight int
	maxSeen  int
}

type gateHandler struct {
	mu    sync.Mutex
	stats map[string]*connStat
}

func (h *gateHandler) stat(key string) (st *connStat) {
	h.mu.Lock()
	defer h.mu.Unlock()
	st = h.stats[key]
	if st == nil {
		st = &connStat{gate: make(chan struct{})}
		h.stats[key] = st
	}

	return st
}

func (h *gateHandler) ServeDNS(ctx context.Context, rw dnsserver.ResponseWriter, req *dns.Msg) (err error) {
	st := h.stat(rw.RemoteAddr().String())
	h.mu.Lock()
	st.inflight++
	if st.inflight > st.maxSeen {
		st.maxSeen = st.inflight
	}
	h.mu.Unlock()
	st.entered.Add(1)

	<-st.gate

	h.mu.Lock()
	st.inflight--
	h.mu.Unlock()
	resp := (&dns.Msg{}).SetReply(req)
	err = rw.WriteMsg(ctx, req, resp)
	st.exited.Add(1)

	return err
}

// ctxCons is the request-context constructor given to the server: the harness
// keeps every cancel function, so that "the request context of the message
// held in Acquire expires" is an event it triggers, not a matter of time.
type ctxCons struct {
	mu      sync.Mutex
	cancels []context.CancelFunc
}

func (c *ctxCons) New() (ctx context.Context, cancel context.CancelFunc) {
	ctx, cancel = context.WithCancel(context.Background())
	c.mu.Lock()
	defer c.mu.Unlock()
	c.cancels = append(c.cancels, cancel)

	return ctx, cancel
}

// cancelLast cancels the context made for the message read last.
func (c *ctxCons) cancelLast() {
	c.mu.Lock()
	defer c.mu.Unlock()
	if n := len(c.cancels); n > 0 {
		c.cancels[n-1]()
	}
}

func (c *ctxCons) count() int {
	c.mu.Lock()
	defer c.mu.Unlock()

	return len(c.cancels)
}

// anyGoroutineIn reports whether some goroutine has a frame containing frame.
func anyGoroutineIn(frame string) bool {
	buf := make([]byte, 1<<18)
	for {
		n := runtime.Stack(buf, true)
		if n < len(buf) {
			return bytes.Contains(buf[:n], []byte(frame))
		}
		buf = make([]byte, 2*len(buf))
	}
}

func waitFor(cond func() bool, d time.Duration) bool {
	deadline := time.Now().Add(d)
	for i := 0; ; i++ {
		if cond() {
			return true
		}
		if time.Now().After(deadline) {
			return false
		}
		if i < 50 {
			runtime.Gosched()
		} else {
			time.Sleep(100 * time.Microsecond)
		}
	}
}

var (
	pipeTLSOnce sync.Once
	pipeTLSConf *tls.Config
)

// selfSigned returns a server TLS configuration with a fresh self-signed
// certificate.
func selfSigned() *tls.Config {
	pipeTLSOnce.Do(func() {
		key, err := ecdsa.GenerateKey(elliptic.P256(), crand.Reader)
		hlib.Must(err)
		tmpl := &x509.Certificate{
			SerialNumber: big.NewInt(18),
			Subject:      pkix.Name{CommonName: "c18.example"},
			NotBefore:    time.Now().Add(-time.Hour),
			NotAfter:     time.Now().Add(24 * time.Hour),
			KeyUsage:     x509.KeyUsageDigitalSignature,
			ExtKeyUsage:  []x509.ExtKeyUsage{x509.ExtKeyUsageServerAuth},
			DNSNames:     []string{"c18.example"},
		}
		der, err := x509.CreateCertificate(crand.Reader, tmpl, tmpl, &key.PublicKey, key)
		hlib.Must(err)
		pipeTLSConf = &tls.Config{
			Certificates: []tls.Certificate{{Certificate: [][]byte{der}, PrivateKey: key}},
			MinVersion:   tls.VersionTLS12,
		}
	})

	return pipeTLSConf
}

// pipeCase is one pipeline scenario.  Ops are "q", "done", "timeout" for the
// first connection and "q1", "done1" for the second.
type pipeCase struct {
	Limit int      `json:"limit"`
	Ops   []string `json:"ops"`
	TLS   bool     `json:"tls"`
}

func pipelineCampaign(o *hlib.Opts, r *hlib.Result, m *hlib.Model) {
	rng := o.Rand("pipeline")
	// Props/C18.lean, example of pipeline_work_conserving: Acquire gives up on
	// the third query; what was sent afterwards is never processed.
	for _, tls := range []bool{false, true} {
		runPipeCase(r, m, &pipeCase{Limit: 2, TLS: tls, Ops: []string{"q", "q", "q", "timeout", "q", "done", "done", "q"}})
		runPipeCase(r, m, &pipeCase{Limit: 1, TLS: tls, Ops: []string{"q", "q1", "q", "q1", "done1", "done", "done", "done1"}})
	}
	n := 50
	if o.Thorough() {
		n = 400
	}
	for i := 0; i < n; i++ {
		limit := 1 + rng.IntN(4)
		if rng.IntN(8) == 0 {
			limit = 5 + rng.IntN(12)
		}
		nops := 4 + rng.IntN(40)
		var ops []string
		switch rng.IntN(5) {
		case 0:
			// One burst (up to 64 queries), then drain.
			burst := 1 + rng.IntN(64)
			for k := 0; k < burst; k++ {
				ops = append(ops, "q")
			}
			for k := 0; k < burst; k++ {
				ops = append(ops, "done")
			}
		case 1:
			// Two connections to the same server.
			pq := 3 + rng.IntN(5)
			for k := 0; k < nops; k++ {
				op := "done"
				if rng.IntN(8) < pq {
					op = "q"
				}
				if rng.IntN(2) == 0 {
					op += "1"
				}
				ops = append(ops, op)
			}
		case 2:
			// The request context of a held message expires at some point.
			pq := 4 + rng.IntN(4)
			for k := 0; k < limit+1+rng.IntN(3); k++ {
				ops = append(ops, "q")
			}
			for k := rng.IntN(3); k > 0; k-- {
				ops = append(ops, "done")
			}
			ops = append(ops, "timeout")
			for k := 0; k < nops; k++ {
				switch x := rng.IntN(10); {
				case x == 9:
					ops = append(ops, "timeout")
				case x < pq:
					ops = append(ops, "q")
				default:
					ops = append(ops, "done")
				}
			}
		default:
			pq := 3 + rng.IntN(5)
			for k := 0; k < nops; k++ {
				if rng.IntN(8) < pq {
					ops = append(ops, "q")
				} else {
					ops = append(ops, "done")
				}
			}
		}
		runPipeCase(r, m, &pipeCase{Limit: limit, Ops: ops, TLS: rng.IntN(3) == 0})
	}
}

// pipeClient is the harness's side of one connection.
type pipeClient struct {
	conn    net.Conn
	st      *connStat
	sent    int
	dropped int
	dead    bool
	lines   []string
	want    []string
}

// observed is (handlers running, messages sent and not yet handed to a handler
// nor dropped).
func (pc *pipeClient) observed() string {
	e, x := pc.st.entered.Load(), pc.st.exited.Load()

	return fmt.Sprintf("%d %d", e-x, int64(pc.sent-pc.dropped)-e)
}

func runPipeCase(r *hlib.Result, m *hlib.Model, c *pipeCase) {
	limit := c.Limit
	h := &gateHandler{stats: map[string]*connStat{}}
	cc := &ctxCons{}
	conf := dnsserver.ConfigDNS{
		ConfigBase: dnsserver.ConfigBase{
			Name: "c18-pipe", Addr: "127.0.0.1:0", Network: dnsserver.NetworkTCP, Handler: h,
			RequestContext: cc,
		},
		MaxPipelineEnabled: true,
		MaxPipelineCount:   uint(limit),
		ReadTimeout:        time.Minute,
		TCPIdleTimeout:     time.Minute,
	}
	var srv dnsserver.Server
	if c.TLS {
		srv = dnsserver.NewServerTLS(dnsserver.ConfigTLS{ConfigDNS: conf, TLSConfig: selfSigned()})
	} else {
		srv = dnsserver.NewServerDNS(conf)
	}
	ctx := context.Background()
	hlib.Must(srv.Start(ctx))
	nconn := 1
	for _, op := range c.Ops {
		if strings.HasSuffix(op, "1") {
			nconn = 2
		}
	}
	clients := make([]*pipeClient, nconn)
	for i := range clients {
		var conn net.Conn
		var err error
		if c.TLS {
			conn, err = tls.Dial("tcp", srv.LocalTCPAddr().String(), &tls.Config{InsecureSkipVerify: true})
		} else {
			conn, err = net.Dial("tcp", srv.LocalTCPAddr().String())
		}
		hlib.Must(err)
		go func() { _, _ = io.Copy(io.Discard, conn) }()
		clients[i] = &pipeClient{
			conn: conn, st: h.stat(conn.LocalAddr().String()),
			lines: []string{fmt.Sprintf("pipe %d", limit)}, want: []string{"0 0"},
		}
	}

	blockedOnce, timedOut := false, false
	replay := map[string]any{"campaign": "pipeline", "pipe": c}
	query := func(id int) []byte {
		q := (&dns.Msg{}).SetQuestion("c18.example.", dns.TypeA)
		q.Id = uint16(id)
		b, perr := q.Pack()
		hlib.Must(perr)
		out := make([]byte, 2+len(b))
		binary.BigEndian.PutUint16(out, uint16(len(b)))
		copy(out[2:], b)

		return out
	}
	stuck := ""
	for j, op := range c.Ops {
		ci := 0
		if strings.HasSuffix(op, "1") {
			ci, op = 1, strings.TrimSuffix(op, "1")
		}
		pc := clients[ci]
		others := make([]string, nconn)
		for i, o := range clients {
			others[i] = o.observed()
		}
		entered, exited := pc.st.entered.Load(), pc.st.exited.Load()
		inflight := int(entered - exited)
		waiting := pc.sent - pc.dropped - int(entered)
		switch op {
		case "q":
			// Once the read loop is gone the server closes the connection as
			// soon as the last handler has finished; writes may then fail.
			if _, err := pc.conn.Write(query(pc.sent)); err != nil && !pc.dead {
				hlib.Must(err)
			}
			pc.sent++
			if inflight < limit && waiting == 0 && !pc.dead {
				if !waitFor(func() bool { return pc.st.entered.Load() == entered+1 }, 10*time.Second) {
					stuck = fmt.Sprintf("op %d: query %d never reached the handler (in flight %d < limit %d)", j, pc.sent, inflight, limit)
				}
			} else {
				blockedOnce = true
				// Nothing may start; give a wrongly admitted query a moment to
				// show up (a late one is still caught by the max tracker).
				time.Sleep(300 * time.Microsecond)
			}
		case "done":
			if inflight == 0 {
				break
			}
			pc.st.gate <- struct{}{}
			if !waitFor(func() bool { return pc.st.exited.Load() == exited+1 }, 10*time.Second) {
				stuck = fmt.Sprintf("op %d: released handler never finished", j)
			}
			if waiting > 0 && !pc.dead && stuck == "" {
				if !waitFor(func() bool { return pc.st.entered.Load() == entered+1 }, 10*time.Second) {
					stuck = fmt.Sprintf("op %d: a worker finished but none of %d waiting queries started (limit %d)", j, waiting, limit)
				}
			}
		case "timeout":
			// Enabled only when the reader holds a message in Acquire: all of
			// limit handlers run and something was sent after them.  The server
			// has then made one context per message it has read.
			if nconn != 1 || pc.dead || inflight < limit || waiting == 0 {
				break
			}
			if !waitFor(func() bool { return cc.count() == int(entered)+pc.dropped+1 }, 10*time.Second) {
				stuck = fmt.Sprintf("op %d: the reader did not pick up the next message while the semaphore was full", j)

				break
			}
			cc.cancelLast()
			pc.dead, timedOut = true, true
			pc.dropped++
			// The reader must leave Acquire with the context's error; only one
			// server is alive at a time, so no goroutine may stay in there.
			if !waitFor(func() bool { return !anyGoroutineIn("ChanSemaphore).Acquire") }, 10*time.Second) {
				stuck = fmt.Sprintf("op %d: the reader stayed in Acquire after its request context was cancelled", j)
			}
		}
		pc.lines = append(pc.lines, op)
		pc.want = append(pc.want, pc.observed())
		// A connection's pipeline is its own: nothing changes for the other one.
		for i, o := range clients {
			if i != ci && o.observed() != others[i] && stuck == "" {
				stuck = fmt.Sprintf("op %d (%s on connection %d) changed the state of connection %d from %q to %q",
					j, op, ci, i, others[i], o.observed())
			}
		}
		if stuck != "" {
			break
		}
	}
	// Oracle: never more than limit handlers of one connection at once.
	h.mu.Lock()
	for _, st := range h.stats {
		if st.maxSeen > limit {
			proto := "tcp"
			if c.TLS {
				proto = "tls"
			}
			r.Violate("pipeline-limit-exceeded", fmt.Sprintf(
				"connection %s: %d queries were processed at the same time, MaxPipelineCount = %d", proto, st.maxSeen, limit), replay)
		}
	}
	h.mu.Unlock()
	if stuck != "" {
		r.Disagree("pipeline", stuck, replay)
	}
	for ci, pc := range clients {
		m.ResetLog()
		ans := m.Batch(pc.lines)
		r.ModelOps += len(pc.lines)
		for j := range pc.lines {
			f := strings.Fields(ans[j])
			got := ans[j]
			if len(f) >= 3 {
				// running, blocked, queued (tok= and dead= follow)
				var a, b, q int
				_, _ = fmt.Sscan(strings.Join(f[:3], " "), &a, &b, &q)
				got = fmt.Sprintf("%d %d", a, b+q)
			}
			if got != pc.want[j] {
				r.Disagree("pipeline", fmt.Sprintf("connection %d after its op %d %q: real (running waiting)=%q model %q, limit %d",
					ci, j, pc.lines[j], pc.want[j], got, limit), replay)

				break
			}
		}
	}
	// Drain and stop.
	for _, pc := range clients {
		close(pc.st.gate)
		_ = pc.conn.Close()
	}
	sctx, cancel := context.WithTimeout(ctx, 5*time.Second)
	_ = srv.Shutdown(sctx)
	cancel()

	r.Case(fmt.Sprintf("pipe;%d;%v;%s", limit, c.TLS, strings.Join(c.Ops, ",")), blockedOnce)
	r.Traces++
	r.Count("pipeline.cases")
	r.Count(fmt.Sprintf("pipeline.limit=%d", min(limit, 5)))
	if c.TLS {
		r.Count("pipeline.tls")
	}
	if nconn == 2 {
		r.Count("pipeline.two_connections")
	}
	if timedOut {
		r.Count("pipeline.acquire_gave_up")
	}
	if blockedOnce {
		r.Count("pipeline.reader_blocked")
		r.Sample(map[string]any{"campaign": "pipeline", "limit": limit, "tls": c.TLS, "ops": truncate(c.Ops, 14)}, 6)
	}
	if len(c.Ops) > 40 {
		r.Count("pipeline.burst>40")
	}
}

// ---------------------------------------------------------------------------

func replay(o *hlib.Opts, r *hlib.Result, m *hlib.Model) {
	b, err := os.ReadFile(o.Replay)
	hlib.Must(err)
	var f struct {
		Replay struct {
			Campaign string     `json:"campaign"`
			Case     *limCase   `json:"case"`
			Win      *winCase   `json:"win"`
			Storm    *stormCase `json:"storm"`
			Pipe     *pipeCase  `json:"pipe"`
			Glue     *glueCase  `json:"glue"`
			Svc      *svcCase   `json:"svc"`
			Ends     *endsCase  `json:"ends"`
			Wired    *wiredCase `json:"wired"`
			Libs     *libCase   `json:"libs"`
		} `json:"replay"`
	}
	hlib.Must(json.Unmarshal(b, &f))
	switch f.Replay.Campaign {
	case "limiter":
		checkLimCase(r, m, f.Replay.Case, nil, "limiter.replay")
	case "window":
		for i := 0; i < 5; i++ {
			runWindowCase(r, m, f.Replay.Win)
		}
	case "storm":
		for i := 0; i < 20; i++ {
			runStorm(r, f.Replay.Storm)
		}
	case "pipeline":
		runPipeCase(r, m, f.Replay.Pipe)
	case "glue":
		glueCampaign(r, f.Replay.Glue)
	case "svc":
		runSvcCase(r, m, f.Replay.Svc)
	case "ends":
		runEndsCase(r, f.Replay.Ends)
	case "wired":
		runWiredCase(r, m, f.Replay.Wired)
	case "libs":
		runLibCase(r, f.Replay.Libs)
	default:
		concurrentCloseCampaign(o, r)
	}
}
