package main

// Production wiring (round 4): the limits come from a configuration FILE.  A
// case is config.dist.yaml of the tree under test with the sections
// ratelimit.connection_limit, ratelimit.tcp, ratelimit.quic.enabled and the
// servers of one or two server groups replaced; it goes through the start-up
// path of internal/cmd -- yaml.Unmarshal into cmd.configuration,
// configuration.validate (connLimitConfig.validate, validateConnLimit,
// ratelimitTCPConfig.validate), connLimitConfig.toInternal -> connlimiter.New,
// serverGroups.toInternal -> servers.toInternal (agd.TCPConfig per protocol) --
// and then through dnssvc.New with the production dnssvc.NewListener.  The
// service listens on loopback sockets; plain-DNS and DoT servers get
// saturating client load, DoH and DNSCrypt servers stay idle (their serve
// loops hold one pending accept each).
//
// Oracle (independent of the model, written from the property text and the
// documented constraints of the two sections): with connection_limit.enabled
// the connections being served plus the pending accepts of the idle listeners
// never exceed the `stop` written in the file, every stream listener the
// service starts holds a slot of the one limiter, the sawtooth is the one of
// the file's stop / resume; with tcp.enabled no connection has more than the
// file's max_pipeline_count queries in flight; a file that satisfies the
// documented constraints is not rejected.  Correspondence: validation outcome,
// thresholds of the built limiter, agd.TCPConfig of every server, and what the
// service does when a section is disabled, against the model's `wconn` /
// `wtcp` lines.

import (
	"context"
	"crypto/tls"
	"fmt"
	"io"
	"log/slog"
	"math/rand/v2"
	"net"
	"net/http"
	"os"
	"path/filepath"
	"strings"
	"sync"
	"time"

	"github.com/AdguardTeam/AdGuardDNS/internal/agd"
	"github.com/AdguardTeam/AdGuardDNS/internal/agdtest"
	"github.com/AdguardTeam/AdGuardDNS/internal/cmd"
	"github.com/AdguardTeam/AdGuardDNS/internal/connlimiter"
	"github.com/AdguardTeam/AdGuardDNS/internal/dnsserver"
	"github.com/AdguardTeam/AdGuardDNS/internal/dnssvc"
	"github.com/AdguardTeam/AdGuardDNS/verifh/hlib"
	"gopkg.in/yaml.v2"
)

// wiredCase is one configuration file.  Groups lists, per server group, the
// `protocol` values of its servers ("dns", "tls", "https", "dnscrypt", "quic");
// every server has one bind address.
type wiredCase struct {
	ConnPresent bool       `json:"conn_present"`
	ConnEnabled bool       `json:"conn_enabled"`
	Stop        uint64     `json:"stop"`
	Resume      uint64     `json:"resume"`
	TCPPresent  bool       `json:"tcp_present"`
	TCPEnabled  bool       `json:"tcp_enabled"`
	Pipe        uint64     `json:"max_pipeline_count"`
	QUICEnabled bool       `json:"quic_enabled"`
	Groups      [][]string `json:"groups"`
	Burst       int        `json:"burst"`
	Releases    int        `json:"releases"`
}

func msGet(ms yaml.MapSlice, k string) any {
	for _, it := range ms {
		if it.Key == k {
			return it.Value
		}
	}

	return nil
}

func msSet(ms yaml.MapSlice, k string, v any) yaml.MapSlice {
	out := make(yaml.MapSlice, 0, len(ms)+1)
	found := false
	for _, it := range ms {
		if it.Key == k {
			out = append(out, yaml.MapItem{Key: k, Value: v})
			found = true
		} else {
			out = append(out, it)
		}
	}
	if !found {
		out = append(out, yaml.MapItem{Key: k, Value: v})
	}

	return out
}

func msDel(ms yaml.MapSlice, k string) yaml.MapSlice {
	out := make(yaml.MapSlice, 0, len(ms))
	for _, it := range ms {
		if it.Key != k {
			out = append(out, it)
		}
	}

	return out
}

var (
	distOnce sync.Once
	distData []byte
)

// render returns the configuration file of the case.
func (c *wiredCase) render() []byte {
	distOnce.Do(func() {
		var err error
		distData, err = os.ReadFile(filepath.Join(cmd.VerifC20RepoRoot(), "config.dist.yaml"))
		hlib.Must(err)
	})
	var tree yaml.MapSlice
	hlib.Must(yaml.Unmarshal(distData, &tree))

	rl := msGet(tree, "ratelimit").(yaml.MapSlice)
	if c.ConnPresent {
		rl = msSet(rl, "connection_limit", yaml.MapSlice{
			{Key: "enabled", Value: c.ConnEnabled}, {Key: "stop", Value: c.Stop}, {Key: "resume", Value: c.Resume},
		})
	} else {
		rl = msDel(rl, "connection_limit")
	}
	if c.TCPPresent {
		rl = msSet(rl, "tcp", yaml.MapSlice{
			{Key: "enabled", Value: c.TCPEnabled}, {Key: "max_pipeline_count", Value: c.Pipe},
		})
	} else {
		rl = msDel(rl, "tcp")
	}
	rl = msSet(rl, "quic", msSet(msGet(rl, "quic").(yaml.MapSlice), "enabled", c.QUICEnabled))
	tree = msSet(tree, "ratelimit", rl)

	sgs := msGet(tree, "server_groups").([]any)
	g0 := sgs[0].(yaml.MapSlice)
	var inline any
	for _, s := range msGet(g0, "servers").([]any) {
		if dc, ok := msGet(s.(yaml.MapSlice), "dnscrypt").(yaml.MapSlice); ok && msGet(dc, "inline") != nil {
			inline = dc
		}
	}
	var groups []any
	for gi, protos := range c.Groups {
		var srvs []any
		for si, p := range protos {
			s := yaml.MapSlice{
				{Key: "name", Value: fmt.Sprintf("g%d_s%d_%s", gi, si, p)},
				{Key: "protocol", Value: p},
				{Key: "linked_ip_enabled", Value: false},
				{Key: "bind_addresses", Value: []any{"127.0.0.1:0"}},
			}
			if p == "dnscrypt" {
				s = append(s, yaml.MapItem{Key: "dnscrypt", Value: inline})
			}
			srvs = append(srvs, s)
		}
		g := msSet(g0, "name", fmt.Sprintf("wired_group_%d", gi))
		// A group without an encrypted server must not have a tls section.
		if all := "," + strings.Join(protos, ",") + ","; !strings.Contains(all, ",tls,") &&
			!strings.Contains(all, ",https,") && !strings.Contains(all, ",quic,") {
			g = msDel(g, "tls")
		}
		groups = append(groups, msSet(g, "servers", srvs))
	}
	tree = msSet(tree, "server_groups", groups)
	b, err := yaml.Marshal(tree)
	hlib.Must(err)

	return b
}

func (c *wiredCase) protos() (all []string) {
	for _, g := range c.Groups {
		all = append(all, g...)
	}

	return all
}

// streamAddrs is the number of addresses on which the servers of the file
// listen for stream connections (everything but DNS-over-QUIC).
func (c *wiredCase) streamAddrs() (n int) {
	for _, p := range c.protos() {
		if p != "quic" {
			n++
		}
	}

	return n
}

// documentedValid is the reading of doc/configuration.md: stop and resume
// positive, resume <= stop, resume at least the number of bound stream
// addresses (only when enabled); max_pipeline_count positive.
func (c *wiredCase) documentedValid() bool {
	if !c.ConnPresent || !c.TCPPresent || c.Pipe == 0 {
		return false
	}
	if !c.ConnEnabled {
		return true
	}

	return c.Stop > 0 && c.Resume > 0 && c.Resume <= c.Stop && c.Resume >= uint64(c.streamAddrs())
}

type wiredClient struct {
	raw      net.Conn
	tc       *tls.Conn
	st       *svcStat
	eof      chan struct{}
	released bool
}

func runWiredCase(r *hlib.Result, m *hlib.Model, c *wiredCase) {
	replay := map[string]any{"campaign": "wired", "wired": c}
	r.Evaluations++
	r.Count("wired.cases")
	canon := fmt.Sprintf("wired;%v;%v;%d;%d;%v;%v;%d;%v;%v;%d;%d", c.ConnPresent, c.ConnEnabled, c.Stop, c.Resume,
		c.TCPPresent, c.TCPEnabled, c.Pipe, c.QUICEnabled, c.Groups, c.Burst, c.Releases)
	nontrivial := false
	defer func() { r.Case(canon, nontrivial); r.Traces++ }()

	var viol []hlib.Finding
	violate := func(sig, what string) {
		for _, v := range viol {
			if v.Signature == sig {
				return
			}
		}
		viol = append(viol, hlib.Finding{Signature: sig, What: what})
	}
	var disagree []string
	defer func() {
		for _, v := range viol {
			r.Violate(v.Signature, v.What, replay)
		}
		if len(viol) == 0 {
			for _, d := range disagree {
				r.Disagree("wired", d, replay)
			}
		}
	}()

	// --- the model's lines ---
	protos := c.protos()
	lines := []string{fmt.Sprintf("wconn %s %s %d %d %d", b2s(c.ConnPresent), b2s(c.ConnEnabled), c.Stop, c.Resume, c.streamAddrs())}
	for _, p := range protos {
		lines = append(lines, fmt.Sprintf("wtcp %s %s %d %s", b2s(c.TCPPresent), b2s(c.TCPEnabled), c.Pipe, p))
	}
	m.ResetLog()
	ans := m.Batch(lines)
	r.ModelOps += len(lines)
	modelRejected := false
	for _, a := range ans {
		if a == "rejected" {
			modelRejected = true
		}
	}

	// --- the real start-up path ---
	v, err := cmd.VerifC20Parse(c.render())
	if err != nil {
		disagree = append(disagree, "the rendered file does not parse: "+err.Error())

		return
	}
	verr := v.VerifC20Validate()
	if verr != nil {
		r.Count("wired.rejected")
		if c.documentedValid() {
			violate("valid-config-rejected", fmt.Sprintf(
				"a configuration file within the documented constraints (stop %d, resume %d, %d stream addresses, max_pipeline_count %d) is rejected: %v",
				c.Stop, c.Resume, c.streamAddrs(), c.Pipe, verr))
		}
		if !modelRejected {
			disagree = append(disagree, fmt.Sprintf("validation: real %q, model %v", verr, ans))
		}

		return
	}
	if modelRejected {
		disagree = append(disagree, fmt.Sprintf("validation accepted the file, model %v", ans))

		return
	}
	if !c.documentedValid() {
		disagree = append(disagree, "validation accepted a file outside the documented constraints")

		return
	}
	var lim *connlimiter.Limiter
	var built string
	func() {
		defer func() {
			if rec := recover(); rec != nil {
				built = "panic"
			}
		}()
		lim = v.VerifC20ConnLimiter(slog.New(&hookHandler{}))
	}()
	switch {
	case built == "panic":
	case lim == nil:
		built = "off"
	default:
		cur, stop, resume, acc := connlimiter.VerifC18Snapshot(lim)
		built = fmt.Sprintf("on %d %d %d %s", stop, resume, cur, b2s(acc))
		if c.ConnEnabled && (stop != c.Stop || resume != c.Resume) {
			violate("configured-limit-not-applied", fmt.Sprintf(
				"the file says stop %d / resume %d, the limiter built from it has stop %d / resume %d", c.Stop, c.Resume, stop, resume))
		}
	}
	if built != ans[0] {
		disagree = append(disagree, fmt.Sprintf("limiter built by cmd: %q, model %q", built, ans[0]))
	}
	if c.ConnEnabled && lim == nil {
		violate("configured-limit-not-applied", "connection_limit.enabled is true and cmd built no limiter")

		return
	}
	grps, stage, err := v.VerifC20ServerGroups(context.Background(), slog.New(slog.NewTextHandler(io.Discard, nil)), []string{"adguard_dns_filter"})
	if err != nil {
		disagree = append(disagree, fmt.Sprintf("server groups (%s): %v", stage, err))

		return
	}
	var srvs []*agd.Server
	handlers := dnssvc.Handlers{}
	h := &svcHandler{stats: map[string]*svcStat{}}
	for _, g := range grps {
		for _, s := range g.Servers {
			srvs = append(srvs, s)
			handlers[dnssvc.HandlerKey{Server: s, ServerGroup: g}] = h
			if s.TLS != nil {
				if s.TLS.Default != nil {
					s.TLS.Default.Certificates = selfSigned().Certificates
				}
				if s.TLS.H3 != nil {
					s.TLS.H3.Certificates = selfSigned().Certificates
				}
			}
		}
	}
	if len(srvs) != len(protos) {
		disagree = append(disagree, fmt.Sprintf("cmd built %d servers from %d in the file", len(srvs), len(protos)))

		return
	}
	for i, s := range srvs {
		p := protos[i]
		r.Count("wired.proto=" + p)
		if p != "dns" && p != "tls" {
			continue
		}
		got := "nil"
		if s.TCPConf != nil {
			got = "off"
			if s.TCPConf.MaxPipelineEnabled {
				got = fmt.Sprintf("sema %d", s.TCPConf.MaxPipelineCount)
			}
		}
		if got != ans[1+i] {
			disagree = append(disagree, fmt.Sprintf("agd.TCPConfig of the %s server %s: %s, model %s", p, s.Name, got, ans[1+i]))
		}
	}

	// --- the service ---
	byName := map[agd.ServerName]dnssvc.Listener{}
	var svc *dnssvc.Service
	shutdown := func() {
		sctx, cancel := context.WithTimeout(context.Background(), 10*time.Second)
		_ = svc.Shutdown(sctx)
		cancel()
	}
	// A plain-DNS server bound to port 0 takes the TCP port with the number
	// of the UDP port it got; on a shared machine that one can be taken.
	for try := 0; ; try++ {
		svc, err = dnssvc.New(&dnssvc.Config{
			Handlers:         handlers,
			Cloner:           agdtest.NewCloner(),
			ErrColl:          &agdtest.ErrorCollector{OnCollect: func(context.Context, error) {}},
			NonDNS:           http.NotFoundHandler(),
			MetricsNamespace: svcNamespace(),
			ServerGroups:     grps,
			ConnLimiter:      lim,
			HandleTimeout:    time.Hour,
			NewListener: func(s *agd.Server, bc dnsserver.ConfigBase, nd http.Handler) (l dnssvc.Listener, lerr error) {
				l, lerr = dnssvc.NewListener(s, bc, nd)
				byName[s.Name] = l

				return l, lerr
			},
		})
		if err != nil {
			disagree = append(disagree, "dnssvc.New: "+err.Error())

			return
		}
		started := false
		func() {
			defer func() {
				if rec := recover(); rec != nil {
					startErr = fmt.Sprint(rec)
				}
			}()
			hlib.Must(svc.Start(context.Background()))
			started = true
		}()
		if started {
			break
		}
		shutdown()
		if lim != nil {
			waitFor(func() bool { cur, _, _, _ := connlimiter.VerifC18Snapshot(lim); return cur == 0 }, 5*time.Second)
		}
		if try == 40 {
			r.Count("wired.could_not_start")
			r.Notes = append(r.Notes, "wired case could not start: "+startErr)

			return
		}
	}
	snapshot := func() (uint64, bool) {
		if lim == nil {
			return 0, true
		}
		cur, _, _, acc := connlimiter.VerifC18Snapshot(lim)

		return cur, acc
	}
	idle, loaded := 0, 0
	for _, p := range protos {
		switch p {
		case "dns", "tls":
			loaded++
		case "https", "dnscrypt":
			idle++
		}
	}
	// Every stream listener the service has started holds one slot of the
	// limiter built from the file before any client shows up.
	if lim != nil {
		if !waitFor(func() bool { cur, _ := snapshot(); return cur == uint64(idle+loaded) }, 10*time.Second) {
			cur, _ := snapshot()
			if cur < uint64(idle+loaded) {
				violate("stream-listener-not-limited", fmt.Sprintf(
					"the service built from the file listens on %d stream addresses %v, only %d accepts are counted by the configured limiter",
					idle+loaded, protos, cur))
			} else {
				violate("counter-above-open-plus-pending", fmt.Sprintf(
					"idle service with %d stream listeners: the limiter counts %d", idle+loaded, cur))
			}
			shutdown()

			return
		}
	}

	limited := lim != nil
	perListener := 4
	if limited && c.Stop < 8 {
		perListener = int(c.Stop) + c.Releases + 1
	}
	want := c.Burst
	if c.TCPEnabled && uint64(want) > c.Pipe {
		want = int(c.Pipe)
	}
	var clients []*wiredClient
	for i, p := range protos {
		if p != "dns" && p != "tls" {
			continue
		}
		addr := byName[srvs[i].Name].LocalTCPAddr().String()
		for k := 0; k < perListener; k++ {
			raw, derr := net.Dial("tcp", addr)
			hlib.Must(derr)
			cl := &wiredClient{raw: raw, eof: make(chan struct{}),
				st: h.stat(raw.LocalAddr().String() + ">" + raw.RemoteAddr().String())}
			if p == "tls" {
				cl.tc = tls.Client(raw, &tls.Config{InsecureSkipVerify: true})
			}
			clients = append(clients, cl)
			go func() {
				defer close(cl.eof)
				var conn net.Conn = raw
				if cl.tc != nil {
					if cl.tc.Handshake() != nil {
						return
					}
					conn = cl.tc
				}
				var buf []byte
				for q := 0; q < c.Burst; q++ {
					buf = append(buf, svcQuery(q)...)
				}
				if _, werr := conn.Write(buf); werr != nil {
					return
				}
				_, _ = io.Copy(io.Discard, conn)
			}()
		}
	}
	served := func() (n int) {
		for _, cl := range clients {
			if cl.st.entered.Load() > 0 && !cl.released {
				n++
			}
		}

		return n
	}
	// Tally of the property statement on the observable number (connections
	// being served + pending accepts of the idle listeners).
	total := len(clients)
	expectServed := total
	saturated := false
	if limited && uint64(total+idle) > c.Stop {
		expectServed = int(c.Stop) - idle
		saturated = true
	}
	stuck := ""
	settle := func(expect int, step string) {
		over := false
		ok := waitFor(func() bool {
			so := served()
			if limited && uint64(so+idle) > c.Stop {
				over = true

				return true
			}
			if so != expect {
				return false
			}
			if limited {
				cur, acc := snapshot()
				if saturated && (cur != uint64(expect+idle) || acc) {
					return false
				}
			}
			for _, cl := range clients {
				if cl.st.entered.Load() > 0 && !cl.released && int(cl.st.entered.Load()-cl.st.exited.Load()) < want {
					return false
				}
			}

			return true
		}, 10*time.Second)
		so := served()
		cur, acc := snapshot()
		switch {
		case over:
			violate("bound-exceeded", fmt.Sprintf(
				"%s: %d connections are being served and %d idle listeners wait in accept, the file says stop %d (limiter counts %d)",
				step, so, idle, c.Stop, cur))
		case ok:
		case limited && so > expect:
			violate("accepted-while-stopped", fmt.Sprintf(
				"%s: %d connections are served, the thresholds of the file (stop %d, resume %d) allow %d", step, so, c.Stop, c.Resume, expect))
		default:
			stuck = fmt.Sprintf("%s: expected %d served connections each with %d queries in flight; have %d served, counter %d, accepting %v",
				step, expect, want, so, cur, acc)
		}
	}
	settle(expectServed, "initial load")
	n := expectServed + idle
	refilled := false
	for j := 0; saturated && j < c.Releases && len(viol) == 0 && stuck == ""; j++ {
		step := fmt.Sprintf("release %d", j)
		var cl *wiredClient
		for _, x := range clients {
			if x.st.entered.Load() > 0 && !x.released {
				cl = x

				break
			}
		}
		if cl == nil {
			break
		}
		cl.st.open()
		if cl.tc != nil {
			_ = cl.tc.CloseWrite()
		} else {
			_ = cl.raw.(*net.TCPConn).CloseWrite()
		}
		select {
		case <-cl.eof:
		case <-time.After(10 * time.Second):
			stuck = step + ": the server never closed the connection"

			continue
		}
		cl.released = true
		n--
		if uint64(n) <= c.Resume {
			n = int(c.Stop)
			refilled = true
		}
		settle(n-idle, step)
		r.Count("wired.release")
	}
	nontrivial = saturated && (refilled || c.Burst > want)

	h.mu.Lock()
	maxSeen := 0
	for _, st := range h.stats {
		st.mu.Lock()
		if st.maxSeen > maxSeen {
			maxSeen = st.maxSeen
		}
		st.mu.Unlock()
	}
	h.mu.Unlock()
	if c.TCPEnabled && uint64(maxSeen) > c.Pipe {
		violate("pipeline-limit-exceeded", fmt.Sprintf(
			"a connection to a server built from the file had %d queries processed at the same time, the file says max_pipeline_count %d (tcp.enabled true)",
			maxSeen, c.Pipe))
	}

	for _, cl := range clients {
		cl.st.open()
		_ = cl.raw.Close()
	}
	shutdown()
	if lim != nil && len(viol) == 0 && stuck == "" {
		dots := 0
		for _, p := range protos {
			if p == "tls" {
				dots++
			}
		}
		waitFor(func() bool { cur, _ := snapshot(); return cur == 0 }, time.Duration(1+9*(1-min(dots, 1)))*time.Second)
		if cur, _ := snapshot(); cur > uint64(dots) {
			violate("counter-above-open-plus-pending", fmt.Sprintf(
				"after the service built from the file was shut down and every client closed, the limiter counts %d", cur))
		} else if cur > 0 {
			r.Count("svc.dot_shutdown_left_connection_unclosed")
		}
		connlimiter.VerifC18WakeAll(lim)
	}
	if stuck != "" {
		disagree = append(disagree, stuck)
	}
	switch {
	case !limited:
		r.Count("wired.conn_limit_off")
	case saturated:
		r.Count("wired.saturated")
	default:
		r.Count("wired.below_stop")
	}
	if refilled {
		r.Count("wired.refilled")
	}
	if !c.TCPEnabled {
		r.Count("wired.tcp_off")
	} else if c.Burst > want {
		r.Count("wired.reader_blocked")
	}
	if c.TCPEnabled != c.QUICEnabled {
		r.Count("wired.tcp!=quic")
	}
	if idle > 0 {
		r.Count("wired.idle_listeners")
	}
	if len(c.Groups) > 1 {
		r.Count("wired.two_groups")
	}
	r.Sample(map[string]any{"campaign": "wired", "case": c}, 9)
}

func wiredCampaign(o *hlib.Opts, r *hlib.Result, m *hlib.Model) {
	rng := o.Rand("wired")
	fixed := []*wiredCase{
		// The shipped numbers, every stream protocol, two groups.
		{ConnPresent: true, ConnEnabled: true, Stop: 1000, Resume: 800, TCPPresent: true, TCPEnabled: true, Pipe: 100,
			QUICEnabled: true, Groups: [][]string{{"dns", "tls", "https"}, {"dnscrypt", "quic", "tls"}}, Burst: 3, Releases: 0},
		// Tight limits: sawtooth and blocked reader; tcp.enabled differs from quic.enabled.
		{ConnPresent: true, ConnEnabled: true, Stop: 4, Resume: 2, TCPPresent: true, TCPEnabled: true, Pipe: 2,
			QUICEnabled: false, Groups: [][]string{{"dns"}, {"tls"}}, Burst: 4, Releases: 3},
		{ConnPresent: true, ConnEnabled: true, Stop: 3, Resume: 3, TCPPresent: true, TCPEnabled: false, Pipe: 1,
			QUICEnabled: true, Groups: [][]string{{"tls", "https", "dns"}}, Burst: 3, Releases: 2},
		// Disabled sections limit nothing, whatever their numbers.
		{ConnPresent: true, ConnEnabled: false, Stop: 1, Resume: 0, TCPPresent: true, TCPEnabled: false, Pipe: 1,
			QUICEnabled: true, Groups: [][]string{{"dns", "tls"}}, Burst: 4, Releases: 0},
		// Rejected files.
		{ConnPresent: true, ConnEnabled: true, Stop: 4, Resume: 1, TCPPresent: true, TCPEnabled: true, Pipe: 2,
			Groups: [][]string{{"dns", "tls"}}, Burst: 1},
		{ConnPresent: true, ConnEnabled: true, Stop: 2, Resume: 3, TCPPresent: true, TCPEnabled: true, Pipe: 2, Groups: [][]string{{"dns"}}, Burst: 1},
		{ConnPresent: true, ConnEnabled: true, Stop: 2, Resume: 0, TCPPresent: true, TCPEnabled: true, Pipe: 2, Groups: [][]string{{"quic"}}, Burst: 1},
		{ConnPresent: true, ConnEnabled: true, Stop: 2, Resume: 1, TCPPresent: true, TCPEnabled: false, Pipe: 0, Groups: [][]string{{"dns"}}, Burst: 1},
		{ConnPresent: false, TCPPresent: true, TCPEnabled: true, Pipe: 2, Groups: [][]string{{"dns"}}, Burst: 1},
		{ConnPresent: true, ConnEnabled: true, Stop: 2, Resume: 1, TCPPresent: false, Groups: [][]string{{"dns"}}, Burst: 1},
		// uint64 edge of the thresholds.
		{ConnPresent: true, ConnEnabled: true, Stop: 18446744073709551615, Resume: 18446744073709551615, TCPPresent: true, TCPEnabled: true, Pipe: 1,
			QUICEnabled: true, Groups: [][]string{{"tls"}}, Burst: 2},
	}
	for _, c := range fixed {
		runWiredCase(r, m, c)
	}
	n := 6
	if o.Thorough() {
		n = 90
	}
	for i := 0; i < n; i++ {
		runWiredCase(r, m, randomWired(rng))
	}
}

func randomWired(rng *rand.Rand) *wiredCase {
	pool := []string{"dns", "tls", "dns", "tls", "https", "dnscrypt", "quic"}
	c := &wiredCase{ConnPresent: rng.IntN(12) != 0, TCPPresent: rng.IntN(12) != 0,
		ConnEnabled: rng.IntN(5) != 0, TCPEnabled: rng.IntN(4) != 0, QUICEnabled: rng.IntN(2) == 0,
		Burst: 1 + rng.IntN(5), Releases: rng.IntN(4)}
	for g := 1 + rng.IntN(2); g > 0; g-- {
		var protos []string
		for k := 1 + rng.IntN(2); k > 0; k-- {
			protos = append(protos, pool[rng.IntN(len(pool))])
		}
		c.Groups = append(c.Groups, protos)
	}
	addrs := uint64(c.streamAddrs())
	c.Stop = addrs + uint64(rng.IntN(4))
	if rng.IntN(8) == 0 {
		c.Stop = uint64(rng.IntN(3))
	}
	switch rng.IntN(6) {
	case 0:
		c.Resume = uint64(rng.IntN(int(c.Stop) + 2))
	default:
		// Mostly valid: between the number of listeners and stop.
		c.Resume = addrs
		if c.Stop > addrs {
			c.Resume += uint64(rng.IntN(int(c.Stop-addrs) + 1))
		}
	}
	if c.Resume == 0 && rng.IntN(3) != 0 {
		c.Resume = 1
		c.Stop = max(c.Stop, 1)
	}
	c.Pipe = uint64(1 + rng.IntN(3))
	if rng.IntN(10) == 0 {
		c.Pipe = 0
	}
	// At least one server that takes load, mostly.
	if all := "," + strings.Join(c.protos(), ",") + ","; !strings.Contains(all, ",dns,") && !strings.Contains(all, ",tls,") && rng.IntN(4) != 0 {
		c.Groups[0][0] = "tls"
		c.Stop++
		c.Resume++
	}

	return c
}
