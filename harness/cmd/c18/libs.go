package main

// Round 4: stream connections that are owned by a LIBRARY, not by
// serveTCPConn -- DNS-over-HTTPS (net/http and x/net/http2 accept from the
// limited listener through tls.NewListener and close the connections
// themselves) and DNSCrypt over TCP (ameshkov/dnscrypt's ServeTCP loop).  The
// servers are made by dnssvc.New / dnssvc.NewListener on the ListenConfig that
// dnssvc computes, as in production.  Every client holds one connection and
// is "served" once it has an answer (a DoH response; the DNSCrypt certificate,
// which the server gives in the clear over TCP); it then keeps the connection
// open until told to close it.
//
// Oracle, from the property text: never more than stop clients served at the
// same time; after the number reached stop nobody new is served until closes
// have brought it down to resume; then the waiting clients are served; when
// every client is gone only the serve loop's pending accept is counted, and
// nothing after shutdown.

import (
	"bufio"
	"context"
	"crypto/tls"
	"encoding/base64"
	"encoding/binary"
	"fmt"
	"io"
	"log/slog"
	"net"
	"net/http"
	"sync"
	"sync/atomic"
	"time"

	"github.com/AdguardTeam/AdGuardDNS/internal/agd"
	"github.com/AdguardTeam/AdGuardDNS/internal/connlimiter"
	"github.com/AdguardTeam/AdGuardDNS/internal/dnssvc"
	"github.com/AdguardTeam/AdGuardDNS/verifh/hlib"
	"github.com/ameshkov/dnscrypt/v2"
	"github.com/miekg/dns"
)

const libProvider = "2.dnscrypt-cert.c18.example"

var (
	dcOnce sync.Once
	dcConf *agd.DNSCryptConfig
)

func dnscryptConf() *agd.DNSCryptConfig {
	dcOnce.Do(func() {
		rc, err := dnscrypt.GenerateResolverConfig(libProvider, nil)
		hlib.Must(err)
		cert, err := rc.CreateCert()
		hlib.Must(err)
		dcConf = &agd.DNSCryptConfig{Cert: cert, ProviderName: libProvider}
	})

	return dcConf
}

type libCase struct {
	Kind   string   `json:"kind"` // "doh", "doh-h2", "dnscrypt"
	Stop   uint64   `json:"stop"`
	Resume uint64   `json:"resume"`
	Extra  int      `json:"extra"` // clients beyond stop
	Ends   []string `json:"ends"`  // how served clients leave, in order: "close", "halfclose", "rst"
}

type libClient struct {
	served atomic.Bool
	failed atomic.Bool
	gone   bool
	leave  chan string
	done   chan struct{}
}

// libExchange performs one request on an established connection and returns
// nil once an answer has arrived.
func libExchange(kind string, conn net.Conn, br *bufio.Reader) error {
	switch kind {
	case "dnscrypt":
		q := (&dns.Msg{}).SetQuestion(dns.Fqdn(libProvider), dns.TypeTXT)
		b, err := q.Pack()
		if err != nil {
			return err
		}
		out := make([]byte, 2+len(b))
		binary.BigEndian.PutUint16(out, uint16(len(b)))
		copy(out[2:], b)
		if _, err = conn.Write(out); err != nil {
			return err
		}
		var l uint16
		if err = binary.Read(br, binary.BigEndian, &l); err != nil {
			return err
		}
		resp := make([]byte, l)
		if _, err = io.ReadFull(br, resp); err != nil {
			return err
		}
		m := &dns.Msg{}
		if err = m.Unpack(resp); err != nil {
			return err
		}
		if len(m.Answer) != 1 {
			return fmt.Errorf("no certificate in the answer")
		}

		return nil
	default:
		q := (&dns.Msg{}).SetQuestion("c18.example.", dns.TypeA)
		b, err := q.Pack()
		if err != nil {
			return err
		}
		req := "GET /dns-query?dns=" + base64.RawURLEncoding.EncodeToString(b) +
			" HTTP/1.1\r\nHost: c18.example\r\nAccept: application/dns-message\r\n\r\n"
		if _, err = conn.Write([]byte(req)); err != nil {
			return err
		}
		resp, err := http.ReadResponse(br, nil)
		if err != nil {
			return err
		}
		_, _ = io.Copy(io.Discard, resp.Body)
		_ = resp.Body.Close()
		if resp.StatusCode != http.StatusOK {
			return fmt.Errorf("status %d", resp.StatusCode)
		}

		return nil
	}
}

func runLibCase(r *hlib.Result, c *libCase) {
	replay := map[string]any{"campaign": "libs", "libs": c}
	r.Evaluations++
	lim, err := connlimiter.New(&connlimiter.Config{Logger: slog.New(&hookHandler{}), Stop: c.Stop, Resume: c.Resume})
	hlib.Must(err)
	h := &svcHandler{stats: map[string]*svcStat{}, answerAll: true}
	kind := c.Kind
	if kind == "doh-h2" {
		kind = "doh"
	}
	sc := &svcCase{Stop: c.Stop, Resume: c.Resume, Limit: 1, Burst: 1, Servers: []string{kind}}
	var svc *dnssvc.Service
	var lsn []dnssvc.Listener
	for try := 0; ; try++ {
		var ok bool
		if svc, lsn, ok = startSvc(sc, lim, h); ok {
			break
		}
		if try == 60 {
			r.Count("libs.could_not_start")
			r.Notes = append(r.Notes, "libs case could not start: "+startErr)

			return
		}
	}
	snapshot := func() (uint64, bool) { n, _, _, acc := connlimiter.VerifC18Snapshot(lim); return n, acc }
	addr := lsn[0].LocalTCPAddr().String()
	began := time.Now()

	var viol []hlib.Finding
	violate := func(sig, what string) {
		for _, v := range viol {
			if v.Signature == sig {
				return
			}
		}
		viol = append(viol, hlib.Finding{Signature: sig, What: what})
	}
	stuck := ""
	if !waitFor(func() bool { cur, _ := snapshot(); return cur == 1 }, 10*time.Second) {
		cur, _ := snapshot()
		stuck = fmt.Sprintf("idle %s service: counter %d, expected 1 pending accept", c.Kind, cur)
	}

	total := int(c.Stop) + c.Extra
	clients := make([]*libClient, total)
	for i := range clients {
		cl := &libClient{leave: make(chan string, 1), done: make(chan struct{})}
		clients[i] = cl
		go func() {
			defer close(cl.done)
			raw, derr := net.Dial("tcp", addr)
			if derr != nil {
				cl.failed.Store(true)

				return
			}
			defer raw.Close()
			var conn net.Conn = raw
			var tc *tls.Conn
			if kind == "doh" {
				np := []string{"http/1.1"}
				if c.Kind == "doh-h2" {
					np = []string{"h2"}
				}
				tc = tls.Client(raw, &tls.Config{InsecureSkipVerify: true, NextProtos: np})
				if tc.Handshake() != nil {
					cl.failed.Store(true)

					return
				}
				conn = tc
			}
			if c.Kind == "doh-h2" {
				// The handshake is answered by the server only after Accept
				// let the connection through; the HTTP/2 preface and SETTINGS
				// exchange keep it open.  "Served" = the server's SETTINGS
				// frame arrived.
				if _, werr := conn.Write([]byte("PRI * HTTP/2.0\r\n\r\nSM\r\n\r\n\x00\x00\x00\x04\x00\x00\x00\x00\x00")); werr != nil {
					cl.failed.Store(true)

					return
				}
				hdr := make([]byte, 9)
				if _, rerr := io.ReadFull(conn, hdr); rerr != nil || hdr[3] != 4 {
					cl.failed.Store(true)

					return
				}
			} else if xerr := libExchange(kind, conn, bufio.NewReader(conn)); xerr != nil {
				cl.failed.Store(true)

				return
			}
			cl.served.Store(true)
			switch <-cl.leave {
			case "halfclose":
				if tc != nil {
					_ = tc.CloseWrite()
				} else {
					_ = raw.(*net.TCPConn).CloseWrite()
				}
				_ = raw.SetReadDeadline(time.Now().Add(10 * time.Second))
				_, _ = io.Copy(io.Discard, conn)
			case "rst":
				_ = raw.(*net.TCPConn).SetLinger(0)
			}
		}()
	}
	served := func() (n int) {
		for _, cl := range clients {
			if cl.served.Load() && !cl.gone {
				n++
			}
		}

		return n
	}
	settle := func(expect int, step string) {
		over := false
		ok := waitFor(func() bool {
			so := served()
			if uint64(so) > c.Stop {
				over = true

				return true
			}
			cur, _ := snapshot()

			return so == expect && (cur == uint64(expect) || cur == uint64(expect)+1)
		}, 10*time.Second)
		so := served()
		cur, acc := snapshot()
		switch {
		case over:
			violate("bound-exceeded", fmt.Sprintf("%s: %d %s connections are being served at the same time, stop is %d (counter %d)",
				step, so, c.Kind, c.Stop, cur))
		case ok:
		case so > expect:
			violate("accepted-while-stopped", fmt.Sprintf(
				"%s: %d %s connections are served although the number reached stop=%d and has only fallen to %d > resume=%d",
				step, so, c.Kind, c.Stop, expect, c.Resume))
		case so == expect && cur > uint64(expect)+1:
			violate("counter-above-open-plus-pending", fmt.Sprintf(
				"%s: %d %s connections are open and one accept can be pending, the counter says %d", step, so, c.Kind, cur))
		case so < expect && (acc || cur < uint64(expect)):
			violate("waiter-stuck-while-limiter-should-accept", fmt.Sprintf(
				"%s: only %d %s connections are served (counter %d, accepting %v) with clients waiting; expected %d",
				step, so, c.Kind, cur, acc, expect))
		default:
			stuck = fmt.Sprintf("%s: expected %d served %s connections, have %d, counter %d, accepting %v", step, expect, c.Kind, so, cur, acc)
		}
	}
	// Tally of the property text.
	waiting := c.Extra
	n := min(total, int(c.Stop))
	stopped := uint64(n) == c.Stop
	if stuck == "" {
		settle(n, "initial load")
	}
	refilled := false
	for j, e := range c.Ends {
		if len(viol) > 0 || stuck != "" {
			break
		}
		step := fmt.Sprintf("end %d (%s)", j, e)
		if so := served(); so > n {
			violate("accepted-while-stopped", fmt.Sprintf("%s: %d connections served, expected %d", step, so, n))

			break
		}
		var cl *libClient
		for _, x := range clients {
			if x.served.Load() && !x.gone {
				cl = x

				break
			}
		}
		if cl == nil {
			break
		}
		cl.leave <- e
		select {
		case <-cl.done:
		case <-time.After(12 * time.Second):
			stuck = step + ": the server never closed the connection"

			continue
		}
		cl.gone = true
		n--
		if stopped && uint64(n) <= c.Resume {
			stopped = false
		}
		if !stopped {
			k := min(waiting, int(c.Stop)-n)
			if k > 0 {
				refilled = true
			}
			n += k
			waiting -= k
			stopped = uint64(n) == c.Stop
		}
		settle(n, step)
		r.Count("libs.end." + e)
	}
	for _, cl := range clients {
		if !cl.gone {
			select {
			case cl.leave <- "close":
			default:
			}
		}
	}
	// Clients still waiting for a slot are served now or fail when the
	// listener goes away; either way they end.
	if len(viol) == 0 && stuck == "" && time.Since(began) < 6*time.Second {
		for _, cl := range clients {
			select {
			case <-cl.done:
			case <-time.After(10 * time.Second):
			}
		}
		if !waitFor(func() bool { cur, _ := snapshot(); return cur == 1 }, 10*time.Second) {
			cur, _ := snapshot()
			sig := "counter-above-open-plus-pending"
			if cur < 1 {
				sig = "counter-below-open-plus-pending"
			}
			violate(sig, fmt.Sprintf("%s server: every client is gone, the counter is %d; one accept is pending", c.Kind, cur))
		}
	}
	sctx, cancel := context.WithTimeout(context.Background(), 10*time.Second)
	_ = svc.Shutdown(sctx)
	cancel()
	if len(viol) == 0 && stuck == "" {
		if !waitFor(func() bool { cur, _ := snapshot(); return cur == 0 }, 10*time.Second) {
			cur, _ := snapshot()
			violate("counter-above-open-plus-pending", fmt.Sprintf("%s server shut down with no connection left, the counter says %d", c.Kind, cur))
		}
	}
	connlimiter.VerifC18WakeAll(lim)
	if time.Since(began) > 6*time.Second && len(viol) == 0 {
		// The DNSCrypt library drops idle connections after 8 s: a case that
		// took this long says nothing.
		r.Count("libs.discarded_slow")

		return
	}
	for _, v := range viol {
		r.Violate(v.Signature, v.What, replay)
	}
	if stuck != "" && len(viol) == 0 {
		r.Disagree("libs", stuck, replay)
	}
	r.Case(fmt.Sprintf("libs;%s;%d;%d;%d;%v", c.Kind, c.Stop, c.Resume, c.Extra, c.Ends), refilled)
	r.Traces++
	r.Count("libs.cases")
	r.Count("libs.kind=" + c.Kind)
	if refilled {
		r.Count("libs.refilled")
	}
	r.Sample(map[string]any{"campaign": "libs", "case": c}, 9)
}

func libsCampaign(o *hlib.Opts, r *hlib.Result) {
	fixed := []*libCase{
		{Kind: "doh", Stop: 3, Resume: 1, Extra: 2, Ends: []string{"close", "halfclose", "rst"}},
		{Kind: "doh-h2", Stop: 2, Resume: 2, Extra: 1, Ends: []string{"close", "close"}},
		{Kind: "dnscrypt", Stop: 3, Resume: 1, Extra: 2, Ends: []string{"halfclose", "close", "rst"}},
		{Kind: "dnscrypt", Stop: 1, Resume: 0, Extra: 1, Ends: []string{"close", "halfclose"}},
	}
	for _, c := range fixed {
		runLibCase(r, c)
	}
	n := 2
	if o.Thorough() {
		n = 60
	}
	rng := o.Rand("libs")
	kinds := []string{"doh", "doh-h2", "dnscrypt"}
	ends := []string{"close", "halfclose", "rst"}
	for i := 0; i < n; i++ {
		stop := uint64(1 + rng.IntN(4))
		c := &libCase{Kind: kinds[rng.IntN(len(kinds))], Stop: stop, Resume: uint64(rng.IntN(int(stop) + 1)), Extra: rng.IntN(4)}
		for k := 1 + rng.IntN(5); k > 0; k-- {
			c.Ends = append(c.Ends, ends[rng.IntN(len(ends))])
		}
		runLibCase(r, c)
	}
}
