// Command c02 is the correspondence harness and property oracle for C02
// (filtering verdict precedence and blocked-answer shape).
package main

import (
	"context"
	"encoding/json"
	"fmt"
	"math/rand/v2"
	"net"
	"net/http"
	"net/http/httptest"
	"net/netip"
	"net/url"
	"os"
	"path/filepath"
	"sort"
	"strconv"
	"strings"
	"sync"
	"time"

	"github.com/AdguardTeam/AdGuardDNS/internal/access"
	"github.com/AdguardTeam/AdGuardDNS/internal/agd"
	"github.com/AdguardTeam/AdGuardDNS/internal/agdcache"
	"github.com/AdguardTeam/AdGuardDNS/internal/agdpasswd"
	"github.com/AdguardTeam/AdGuardDNS/internal/agdtest"
	"github.com/AdguardTeam/AdGuardDNS/internal/agdtime"
	"github.com/AdguardTeam/AdGuardDNS/internal/dnsmsg"
	"github.com/AdguardTeam/AdGuardDNS/internal/dnsserver"
	"github.com/AdguardTeam/AdGuardDNS/internal/filter"
	"github.com/AdguardTeam/AdGuardDNS/internal/filter/filterstorage"
	"github.com/AdguardTeam/AdGuardDNS/internal/filter/hashprefix"
	"github.com/AdguardTeam/AdGuardDNS/verifh/hlib"
	"github.com/AdguardTeam/AdGuardDNS/verifh/hlib/stack"
	"github.com/AdguardTeam/golibs/logutil/slogutil"
	"github.com/c2h5oh/datasize"
	"github.com/miekg/dns"
)

// ---------------------------------------------------------------------------
// Grammar

// rule is one rule of the grammar the property names.
type rule struct {
	kind string // b a r4 r6 rc rr ro h4 h6
	dom  string
	sel  string // "*", "=N", "~N" for b/a
	arg  string // ip / target / rcode number / canonical value of an "ro" rewrite ('_' for ' ')
	alt  bool   // alternative spelling
	typ  int    // record type of an "ro" rewrite (0 = the bare keyword NOERROR)
	// upper: the target of a CNAME rewrite is spelled in upper case in the
	// rule text (DNS names are case-insensitive; the question is normalised).
	upper bool
}

var typeNames = map[int]string{1: "A", 28: "AAAA", 16: "TXT", 5: "CNAME", 65: "HTTPS", 15: "MX", 12: "PTR", 33: "SRV", 64: "SVCB"}
var rcodeNames = map[string]string{"5": "REFUSED", "3": "NXDOMAIN", "2": "SERVFAIL"}

func (r rule) text() string {
	selText := func() string {
		switch {
		case strings.HasPrefix(r.sel, "="):
			n, _ := strconv.Atoi(r.sel[1:])
			return "$dnstype=" + typeNames[n]
		case strings.HasPrefix(r.sel, "~"):
			n, _ := strconv.Atoi(r.sel[1:])
			return "$dnstype=~" + typeNames[n]
		}
		return ""
	}
	switch r.kind {
	case "b":
		return "||" + r.dom + "^" + selText()
	case "a":
		return "@@||" + r.dom + "^" + selText()
	case "r4":
		if r.alt {
			return "||" + r.dom + "^$dnsrewrite=NOERROR;A;" + r.arg
		}
		return "||" + r.dom + "^$dnsrewrite=" + r.arg
	case "r6":
		if r.alt {
			return "||" + r.dom + "^$dnsrewrite=NOERROR;AAAA;" + r.arg
		}
		return "||" + r.dom + "^$dnsrewrite=" + r.arg
	case "rc":
		target := r.arg
		if r.upper {
			target = strings.ToUpper(target)
		}
		if r.alt {
			return "||" + r.dom + "^$dnsrewrite=NOERROR;CNAME;" + target
		}
		return "||" + r.dom + "^$dnsrewrite=" + target
	case "rr":
		return "||" + r.dom + "^$dnsrewrite=" + rcodeNames[r.arg]
	case "ro":
		if r.typ == 0 {
			return "||" + r.dom + "^$dnsrewrite=NOERROR"
		}
		return "||" + r.dom + "^$dnsrewrite=NOERROR;" + typeNames[r.typ] + ";" + strings.ReplaceAll(r.arg, "_", " ")
	case "h4":
		return r.arg + " " + r.dom
	case "h6":
		return r.arg + " " + r.dom
	}
	panic("bad rule kind " + r.kind)
}

func (r rule) tok() string {
	switch r.kind {
	case "b", "a":
		return r.kind + "|" + r.dom + "|" + r.sel
	case "h4", "h6":
		return r.kind + "|" + r.dom
	case "ro":
		return r.kind + "|" + r.dom + "|" + strconv.Itoa(r.typ) + "|" + r.arg
	}
	return r.kind + "|" + r.dom + "|" + r.arg
}

func toks(rs []rule) string {
	var b []string
	for _, r := range rs {
		b = append(b, r.tok())
	}
	return strings.Join(b, " ")
}

var noise = []string{"! comment", "# hosts comment", "", "[Adblock Plus 2.0]", "##.cosmetic-rule", "noise.invalid##.banner", "   "}

func listText(rng *rand.Rand, rs []rule) string {
	var b strings.Builder
	b.WriteString("! verif list\n")
	for _, r := range rs {
		if rng.IntN(6) == 0 {
			b.WriteString(noise[rng.IntN(len(noise))] + "\n")
		}
		b.WriteString(r.text() + "\n")
	}
	return b.String()
}

// Pools: small on purpose, so that collisions between slots are the norm.
var hostPool = []string{
	"a.test", "x.a.test", "y.a.test", "w.x.a.test", "b.test", "x.b.test", "c.test", "z.c.test",
	"a.example", "x.a.example", "d.test",
}
var domPool = []string{"a.test", "x.a.test", "w.x.a.test", "b.test", "x.b.test", "c.test", "a.example", "test", "y.a.test"}
var targetPool = []string{"t1.test", "t2.test", "a.test", "x.b.test", "c.test"}
var upIPs = []string{"192.0.2.1", "192.0.2.2", "192.0.2.3"}
var upIP6s = []string{"2001:db8::1", "2001:db8::2"}
var rwIP4 = []string{"203.0.113.1", "203.0.113.2", "192.0.2.1"}
var rwIP6 = []string{"2001:db8:ffff::1", "2001:db8:ffff::2"}
var qtypes = []uint16{1, 1, 1, 28, 28, 16, 65, 65, 15, 5, 12, 33, 64, 2, 6, 255, 257, 99}
var selPool = []string{"*", "*", "*", "=1", "=28", "~1", "=16", "~28"}

// otherRewrites are $dnsrewrite values of the remaining record types, in the
// canonical form in which rrVal renders the synthesised record.
var otherRewrites = []rule{
	{kind: "ro", typ: 16, arg: "hello-txt"}, {kind: "ro", typ: 16, arg: "v=spf1"},
	{kind: "ro", typ: 15, arg: "10_mx.t1.test"}, {kind: "ro", typ: 12, arg: "ptr.t1.test"},
	{kind: "ro", typ: 33, arg: "1_2_443_srv.t1.test"}, {kind: "ro", typ: 65, arg: "1_t1.test"},
	{kind: "ro", typ: 65, arg: "2_._alpn=h3"}, {kind: "ro", typ: 64, arg: "3_svc.t1.test_port=8443"},
	{kind: "ro", typ: 0, arg: ""},
}

func pick[T any](rng *rand.Rand, xs []T) T { return xs[rng.IntN(len(xs))] }

// genRule draws one rule; profile selects the mix.
func genRule(rng *rand.Rand, profile string) rule {
	dom := pick(rng, domPool)
	k := rng.IntN(100)
	switch profile {
	case "ss":
		if k < 80 {
			return rule{kind: "rc", dom: dom, arg: pick(rng, targetPool), alt: true, upper: rng.IntN(5) == 0}
		}
		if k < 92 {
			return rule{kind: "r4", dom: dom, arg: pick(rng, rwIP4), alt: true}
		}
		o := pick(rng, otherRewrites)
		o.dom = dom
		return o
	case "svc":
		switch {
		case k < 70:
			return rule{kind: "b", dom: dom, sel: pick(rng, selPool)}
		case k < 85:
			return rule{kind: "a", dom: dom, sel: pick(rng, selPool)}
		case k < 93:
			return rule{kind: "rc", dom: dom, arg: pick(rng, targetPool)}
		default:
			return rule{kind: "rr", dom: dom, arg: "5"}
		}
	case "resp":
		// Rules aimed at answer records, HTTPS hints included.
		if k < 40 {
			return rule{kind: pick(rng, []string{"b", "b", "a"}), dom: pick(rng, upIPs), sel: pick(rng, []string{"*", "*", "=1", "=5", "=65", "~65"})}
		}
		if k < 55 {
			return rule{kind: pick(rng, []string{"b", "b", "a"}), dom: pick(rng, upIP6s), sel: pick(rng, []string{"*", "*", "=28", "=65", "~28"})}
		}
		return rule{kind: pick(rng, []string{"b", "b", "a"}), dom: pick(rng, targetPool), sel: pick(rng, []string{"*", "*", "=5", "=1"})}
	}
	switch {
	case k < 30:
		return rule{kind: "b", dom: dom, sel: pick(rng, selPool)}
	case k < 50:
		return rule{kind: "a", dom: dom, sel: pick(rng, selPool)}
	case k < 58:
		return rule{kind: "r4", dom: dom, arg: pick(rng, rwIP4), alt: rng.IntN(2) == 0}
	case k < 64:
		return rule{kind: "r6", dom: dom, arg: pick(rng, rwIP6), alt: rng.IntN(2) == 0}
	case k < 74:
		return rule{kind: "rc", dom: dom, arg: pick(rng, targetPool), alt: rng.IntN(2) == 0, upper: rng.IntN(4) == 0}
	case k < 78:
		return rule{kind: "rr", dom: dom, arg: pick(rng, []string{"5", "3", "2"})}
	case k < 84:
		o := pick(rng, otherRewrites)
		o.dom = dom
		return o
	case k < 92:
		return rule{kind: "h4", dom: pick(rng, hostPool), arg: pick(rng, []string{"0.0.0.0", "127.0.0.1", "10.1.1.1"})}
	default:
		return rule{kind: "h6", dom: pick(rng, hostPool), arg: pick(rng, []string{"::", "::1", "2001:db8::5"})}
	}
}

func genList(rng *rand.Rand, profile string, maxLen int) []rule {
	n := rng.IntN(maxLen + 1)
	rs := make([]rule, 0, n)
	for i := 0; i < n; i++ {
		if profile == "main" && rng.IntN(5) == 0 {
			rs = append(rs, genRule(rng, "resp"))
			continue
		}
		rs = append(rs, genRule(rng, profile))
	}
	// urlfilter collapses byte-identical lines of one list in some of its
	// lookup tables only; such duplicates are not generated.
	seen := map[string]bool{}
	out := rs[:0]
	for _, r := range rs {
		if !seen[r.text()] {
			seen[r.text()] = true
			out = append(out, r)
		}
	}
	return out
}

// ---------------------------------------------------------------------------
// Universe: one filter storage + one middleware stack

type hashSet struct {
	hosts []string
	repl  string
}

type upRR struct {
	typ uint16
	val string
	ttl uint32
	// wire is how the upstream spells the target of a CNAME (letter case is
	// kept on the wire and has no meaning); "" = as val.
	wire string
	// HTTPS: hint addresses, each parameter one slice, in record order.
	v4hint, v6hint []string
	hintsFirst6    bool
}

// httpsRR builds the HTTPS record an upRR of type 65 stands for.
func (rr upRR) httpsRR(h dns.RR_Header) *dns.HTTPS {
	out := &dns.HTTPS{SVCB: dns.SVCB{Hdr: h, Priority: 1, Target: "."}}
	out.Value = append(out.Value, &dns.SVCBAlpn{Alpn: []string{"h2"}})
	v4 := &dns.SVCBIPv4Hint{}
	for _, s := range rr.v4hint {
		v4.Hint = append(v4.Hint, net.ParseIP(s).To4())
	}
	v6 := &dns.SVCBIPv6Hint{}
	for _, s := range rr.v6hint {
		v6.Hint = append(v6.Hint, net.ParseIP(s))
	}
	var kvs []dns.SVCBKeyValue
	if len(v4.Hint) > 0 {
		kvs = append(kvs, v4)
	}
	if len(v6.Hint) > 0 {
		kvs = append(kvs, v6)
	}
	if rr.hintsFirst6 && len(kvs) == 2 {
		kvs[0], kvs[1] = kvs[1], kvs[0]
	}
	out.Value = append(out.Value, kvs...)
	return out
}

type upAns struct {
	rcode int
	rrs   []upRR
	ns    int
	// extra is the number of records (glue addresses, a TXT) in the additional
	// section of the upstream reply.
	extra int
}

// target is the CNAME target as the upstream spells it.
func (rr upRR) target() string {
	if rr.wire != "" {
		return rr.wire
	}
	return rr.val
}

// cnameRR draws a CNAME record whose target is, now and then, spelled in mixed
// or upper case.
func cnameRR(rng *rand.Rand) upRR {
	rr := upRR{typ: 5, val: pick(rng, targetPool), ttl: 7777}
	switch rng.IntN(5) {
	case 0:
		rr.wire = mixCase(rng, rr.val)
	case 1:
		rr.wire = strings.ToUpper(rr.val)
	}
	return rr
}

type modeT struct {
	kind string // null nx ref cip none (none = a nil BlockingMode)
	// ttl is the configured FilteredResponseTTL in milliseconds: a duration,
	// not a number of seconds.
	ttl int
	v4   []string
	v6   []string
}

func (m modeT) build() dnsmsg.BlockingMode {
	switch m.kind {
	case "null":
		return &dnsmsg.BlockingModeNullIP{}
	case "nx":
		return &dnsmsg.BlockingModeNXDOMAIN{}
	case "ref":
		return &dnsmsg.BlockingModeREFUSED{}
	case "none":
		return nil
	}
	c := &dnsmsg.BlockingModeCustomIP{}
	for _, s := range m.v4 {
		c.IPv4 = append(c.IPv4, netip.MustParseAddr(s))
	}
	for _, s := range m.v6 {
		c.IPv6 = append(c.IPv6, netip.MustParseAddr(s))
	}
	return c
}

// dur is the configured duration.
func (m modeT) dur() time.Duration { return time.Duration(m.ttl) * time.Millisecond }

// secs is "that profile's TTL" as a DNS record can carry it: the whole seconds
// of the configured duration.
func (m modeT) secs() int { return m.ttl / 1000 }

func (m modeT) wf() bool {
	for _, s := range m.v4 {
		if !netip.MustParseAddr(s).Is4() {
			return false
		}
	}
	for _, s := range m.v6 {
		if !netip.MustParseAddr(s).Is6() || netip.MustParseAddr(s).Is4In6() {
			return false
		}
	}
	return true
}

func orDash(xs []string) string {
	if len(xs) == 0 {
		return "-"
	}
	return strings.Join(xs, ",")
}

func (m modeT) line() string {
	return fmt.Sprintf("mode %s %d %s %s", m.kind, m.ttl, orDash(m.v4), orDash(m.v6))
}

func (m modeT) srvLine() string {
	return fmt.Sprintf("srv %s %d %s %s", m.kind, m.ttl, orDash(m.v4), orDash(m.v6))
}

func genMode(rng *rand.Rand, allowIllFormed bool) modeT {
	m := modeT{kind: pick(rng, []string{"null", "nx", "ref", "cip", "cip"}), ttl: pick(rng, []int{10000, 30000, 3600000, 0, 1000, 1500, 999, 2999, 59999, 10001})}
	if allowIllFormed && rng.IntN(14) == 0 {
		// A negative TTL: no constructor can be made for the profile, the
		// server's stays in place.
		m.ttl = pick(rng, []int{-5000, -1})
	}
	if allowIllFormed && rng.IntN(14) == 0 {
		// No blocking mode at all: the other way NewConstructor fails.
		m.kind = "none"
	}
	if m.kind == "cip" {
		switch rng.IntN(4) {
		case 0:
			m.v4 = []string{"198.51.100.1"}
		case 1:
			m.v6 = []string{"2001:db8:1::1"}
		case 2:
			m.v4, m.v6 = []string{"198.51.100.1", "198.51.100.2"}, []string{"2001:db8:1::1"}
		default:
			m.v4, m.v6 = []string{"198.51.100.9"}, []string{"2001:db8:1::9", "2001:db8:1::a"}
		}
		if allowIllFormed && rng.IntN(6) == 0 {
			// What backendpb's UnmarshalBinary lets through: a 16-byte value in
			// the ipv4 field, a 4-byte value in the ipv6 field.
			if rng.IntN(2) == 0 {
				m.v4 = []string{"2001:db8:1::4"}
			} else {
				m.v6 = []string{"198.51.100.6"}
			}
		}
	}
	return m
}

// cfgT is a filter configuration as the backend would send it: individual
// switches, master switches, a pause schedule, IDs that may be unknown to the
// storage.  After effective() the master switches have been applied and what
// remains is what the documentation says is in force (hasCust, lists, svcs and
// the five request-filter flags).
type cfgT struct {
	custom   []rule
	hasCust  bool // custom rules enabled (and, after effective(), non-empty)
	isClient bool
	lists    []int
	svcs     []int
	sb, ad   bool
	gss      bool
	yss      bool
	nr       bool
	// Master switches and the pause schedule.
	parentalOn bool
	pause      *schedT
	rlOn       bool
	sbOn       bool
	// now is what the storage's clock says while this configuration is in use.
	now time.Time
	// isPaused is the pause state the property oracle works with, see
	// (*schedT).oraclePaused.
	isPaused bool
	// Identity under which the custom rules are cached, and their version.
	profID  string
	updTime time.Time
}

// zoneT is a time zone of the pool.
type zoneT struct {
	name string
	loc  *time.Location
}

func mustLoad(name string) *time.Location {
	l, err := time.LoadLocation(name)
	hlib.Must(err)
	return l
}

var zonePool = []zoneT{
	{"utc", time.UTC},
	{"fix0530", time.FixedZone("fix0530", 5*3600+1800)},
	{"fixm0800", time.FixedZone("fixm0800", -8*3600)},
	{"fix1400", time.FixedZone("fix1400", 14*3600)},
	{"berlin", mustLoad("Europe/Berlin")},
	{"newyork", mustLoad("America/New_York")},
	{"lordhowe", mustLoad("Australia/Lord_Howe")},
	{"kolkata", mustLoad("Asia/Kolkata")},
}

// dayPool are civil days the clock is set to: ordinary days and the days of a
// time-zone transition (Berlin, New York, Lord Howe).
var dayPool = [][3]int{
	{2024, 1, 3}, {2024, 2, 29}, {2024, 7, 14}, {2024, 12, 31}, {2025, 1, 1}, {2024, 6, 8},
	{2024, 3, 31}, {2024, 10, 27}, {2024, 3, 10}, {2024, 11, 3}, {2024, 4, 7}, {2024, 10, 6},
}

// schedT is a pause schedule: per weekday (0 = Sunday) an optional interval in
// minutes.
type schedT struct {
	zone zoneT
	week [7]*[2]int
}

func (sc *schedT) build() *filter.ConfigSchedule {
	if sc == nil {
		return nil
	}
	w := &filter.WeeklySchedule{}
	for d, iv := range sc.week {
		if iv != nil {
			w[d] = &filter.DayInterval{Start: uint16(iv[0]), End: uint16(iv[1])}
		}
	}
	return &filter.ConfigSchedule{Week: w, TimeZone: &agdtime.Location{Location: *sc.zone.loc}}
}

// token renders the schedule for the model: zone;wd:start-stop;...
func (sc *schedT) token() string {
	if sc == nil {
		return "-"
	}
	parts := []string{sc.zone.name}
	for d, iv := range sc.week {
		if iv != nil {
			parts = append(parts, fmt.Sprintf("%d:%d-%d", d, iv[0], iv[1]))
		}
	}
	return strings.Join(parts, ";")
}

// calendarContains is the documented meaning of a pause schedule, read off a
// wall clock in the profile's zone: today's weekday has an interval and the
// time of day lies in [start, end).
func (sc *schedT) calendarContains(now time.Time) bool {
	lt := now.In(sc.zone.loc)
	iv := sc.week[int(lt.Weekday())]
	if iv == nil || (iv[0] == 0 && iv[1] == 0) {
		return false
	}
	sec := lt.Hour()*3600 + lt.Minute()*60 + lt.Second()
	return iv[0]*60 <= sec && sec < iv[1]*60
}

// transitionDay reports whether the zone's offset changes within the civil day
// of now.
func (sc *schedT) transitionDay(now time.Time) bool {
	lt := now.In(sc.zone.loc)
	_, o1 := time.Date(lt.Year(), lt.Month(), lt.Day(), 0, 0, 0, 0, sc.zone.loc).Zone()
	_, o2 := time.Date(lt.Year(), lt.Month(), lt.Day(), 23, 59, 59, 0, sc.zone.loc).Zone()
	return o1 != o2
}

// oraclePaused is the pause state the oracle works with: the calendar reading.
// On the day of a zone transition the code measures the interval in elapsed
// minutes since local midnight, which is off by the size of the transition
// (proved as pause_dst_day_differs; the property does not speak about the
// schedule); there the implementation's own answer is taken and the case is
// counted.
func (sc *schedT) oraclePaused(r *hlib.Result, now time.Time) bool {
	if sc == nil {
		return false
	}
	cal := sc.calendarContains(now)
	if sc.transitionDay(now) {
		r.Count("pause-transition-day")
		if real := sc.build().Contains(now); real != cal {
			r.Count("pause-transition-day-calendar-differs")
			return real
		}
	}
	return cal
}

// zoneLine describes the zone to the model: the periods around now (none for a
// fixed-offset zone) and the offset outside them.
func zoneLine(z zoneT, now time.Time) string {
	const far = int64(4000000000)
	var periods []string
	t := now.In(z.loc)
	start, end := t.ZoneBounds()
	_, base := t.Zone()
	if start.IsZero() && end.IsZero() {
		return fmt.Sprintf("zone %s %d -", z.name, base)
	}
	add := func(at time.Time) (time.Time, time.Time) {
		st, en := at.ZoneBounds()
		_, off := at.Zone()
		s0, e0 := -far, far
		if !st.IsZero() {
			s0 = st.Unix()
		}
		if !en.IsZero() {
			e0 = en.Unix()
		}
		periods = append(periods, fmt.Sprintf("%d:%d:%d", s0, e0, off))
		return st, en
	}
	st, en := add(t)
	for i, cur := 0, st; i < 2 && !cur.IsZero(); i++ {
		cur, _ = add(cur.Add(-time.Second).In(z.loc))
	}
	for i, cur := 0, en; i < 2 && !cur.IsZero(); i++ {
		_, cur = add(cur.In(z.loc))
	}
	return fmt.Sprintf("zone %s %d %s", z.name, base, strings.Join(periods, ","))
}

// genSched draws a schedule and a clock reading that is, more often than not,
// on or next to one of the interval's boundaries.
func genSched(rng *rand.Rand) (*schedT, time.Time) {
	sc := &schedT{zone: pick(rng, zonePool)}
	day := pick(rng, dayPool)
	midnight := time.Date(day[0], time.Month(day[1]), day[2], 0, 0, 0, 0, sc.zone.loc)
	wd := int(midnight.Weekday())
	ivs := [][2]int{{700, 800}, {0, 720}, {720, 1440}, {0, 1440}, {0, 0}, {60, 180}, {120, 121}, {1439, 1440}, {0, 1}}
	iv := pick(rng, ivs)
	switch rng.IntN(6) {
	case 0:
		// The neighbouring days only.
		a, b := pick(rng, ivs), pick(rng, ivs)
		sc.week[(wd+1)%7], sc.week[(wd+6)%7] = &a, &b
	case 1:
		sc.week[wd] = &iv
		b := pick(rng, ivs)
		sc.week[(wd+6)%7] = &b
	default:
		sc.week[wd] = &iv
	}
	// Wall-clock readings of interest: the boundaries of today's interval.
	var now time.Time
	at := func(min, sec int) time.Time {
		return time.Date(day[0], time.Month(day[1]), day[2], 0, min, sec, 0, sc.zone.loc)
	}
	switch rng.IntN(8) {
	case 0:
		now = at(iv[0], 0)
	case 1:
		now = at(iv[0], -1)
	case 2:
		now = at(iv[1], 0)
	case 3:
		now = at(iv[1], -1)
	case 4:
		now = at((iv[0]+iv[1])/2, 30)
	case 5:
		now = at(0, 0)
	default:
		now = at(rng.IntN(1440), rng.IntN(60))
	}
	return sc, now.UTC()
}

// defaultNow is what the storage's clock says when a configuration has no
// schedule: Wednesday 2024-01-03 12:00 UTC.
var defaultNow = time.Date(2024, 1, 3, 12, 0, 0, 0, time.UTC)

// clockNow is the reading of the injected clock.
var clockNow = defaultNow

type fixedClock struct{}

func (fixedClock) Now() time.Time { return clockNow }

func (c cfgT) paused() bool { return c.isPaused }

func (c cfgT) schedule() *filter.ConfigSchedule { return c.pause.build() }

// effective applies the documented meaning of the master switches: a disabled
// group of settings contributes nothing, parental control is off inside its
// pause schedule, IDs the storage does not know are skipped, custom rules
// count only for a client configuration with the custom filter enabled.
func (c cfgT) effective(u *universe) cfgT {
	e := cfgT{isClient: c.isClient, parentalOn: true, rlOn: true, sbOn: true, now: c.now}
	if c.isClient && c.hasCust && len(c.custom) > 0 {
		e.hasCust, e.custom = true, c.custom
	}
	if c.rlOn {
		for _, l := range c.lists {
			if l < len(u.lists) {
				e.lists = append(e.lists, l)
			}
		}
	}
	if c.parentalOn && !c.paused() {
		e.ad, e.gss, e.yss = c.ad, c.gss, c.yss
		for _, sv := range c.svcs {
			if sv < len(u.svcs) {
				e.svcs = append(e.svcs, sv)
			}
		}
	}
	if c.sbOn {
		e.sb, e.nr = c.sb, c.nr
	}
	return e
}

func idxCSV(prefix string, xs []int) string {
	if len(xs) == 0 {
		return "-"
	}
	var b []string
	for _, x := range xs {
		b = append(b, prefix+strconv.Itoa(x))
	}
	return strings.Join(b, ",")
}

func b01(b bool) string {
	if b {
		return "1"
	}
	return "0"
}

type universe struct {
	lists  [][]rule
	svcs   [][]rule
	gss    []rule
	yss    []rule
	sb     hashSet
	ad     hashSet
	nr     hashSet
	up     map[string]upAns
	strg   *filterstorage.Default
	srv    *httptest.Server
	dir    string
	grp    cfgT
	gmode  modeT
	st     *stack.Stack
	profMu sync.Mutex
	profs  map[netip.Addr]*profEntry
	// lastUp is the upstream reply of the request being served.
	lastUp *dns.Msg
	upName string
	// curEntry is the profile and device of the requester being served.
	curEntry *profEntry
	// upFault makes the scripted upstream fail instead of answering.
	upFault bool
	// w is set for universes that are built by the production builder
	// (internal/cmd) and served by several server groups.
	w *wiringT
}

type profEntry struct {
	p *agd.Profile
	d *agd.Device
}

func upKey(host string, qt uint16) string { return host + "/" + strconv.Itoa(int(qt)) }

func genUniverse(rng *rand.Rand) *universe {
	u := &universe{up: map[string]upAns{}, profs: map[netip.Addr]*profEntry{}}
	nl := 1 + rng.IntN(4)
	for i := 0; i < nl; i++ {
		u.lists = append(u.lists, genList(rng, "main", 6))
	}
	ns := 1 + rng.IntN(3)
	for i := 0; i < ns; i++ {
		sl := genList(rng, "svc", 3)
		if len(sl) == 0 {
			sl = []rule{genRule(rng, "svc")}
		}
		u.svcs = append(u.svcs, sl)
	}
	u.gss = genList(rng, "ss", 3)
	u.yss = genList(rng, "ss", 3)
	hs := func(repl string) hashSet {
		h := hashSet{repl: repl}
		switch rng.IntN(4) {
		case 0:
			h.repl = "203.0.113.77" // a block page address instead of a host
		case 1:
			h.repl = "2001:db8:bb::7"
		}
		for i := rng.IntN(3); i > 0; i-- {
			h.hosts = append(h.hosts, pick(rng, domPool[:7]))
		}
		return h
	}
	u.sb, u.ad, u.nr = hs("sb-repl.test"), hs("ad-repl.test"), hs("t1.test")
	names := append(append([]string{}, hostPool...), targetPool...)
	names = append(names, "sb-repl.test", "ad-repl.test")
	for _, h := range names {
		for _, qt := range []uint16{1, 28, 16, 65} {
			if rng.IntN(5) == 0 {
				continue // default: empty NOERROR
			}
			var a upAns
			switch {
			case rng.IntN(12) == 0:
				a.rcode = pick(rng, []int{3, 2})
				a.ns = rng.IntN(2)
			case qt == 1:
				if rng.IntN(3) == 0 {
					a.rrs = append(a.rrs, cnameRR(rng))
				}
				for i := 1 + rng.IntN(2); i > 0; i-- {
					a.rrs = append(a.rrs, upRR{typ: 1, val: pick(rng, upIPs), ttl: 7777})
				}
			case qt == 28:
				a.rrs = append(a.rrs, upRR{typ: 28, val: pick(rng, upIP6s), ttl: 7777})
			case qt == 65:
				if rng.IntN(4) == 0 {
					a.rrs = append(a.rrs, cnameRR(rng))
				}
				for i := 1 + rng.IntN(2); i > 0; i-- {
					rr := upRR{typ: 65, ttl: 7777, hintsFirst6: rng.IntN(3) == 0}
					for j := rng.IntN(3); j > 0; j-- {
						rr.v4hint = append(rr.v4hint, pick(rng, upIPs))
					}
					for j := rng.IntN(3); j > 0; j-- {
						rr.v6hint = append(rr.v6hint, pick(rng, upIP6s))
					}
					a.rrs = append(a.rrs, rr)
				}
			default:
				a.rrs = append(a.rrs, upRR{typ: 16, val: "txt-" + strings.ReplaceAll(h, ".", "-"), ttl: 7777})
			}
			if rng.IntN(3) == 0 {
				a.extra = 1 + rng.IntN(2)
			}
			u.up[upKey(h, qt)] = a
		}
	}
	u.grp = genCfg(rng, u, false)
	u.gmode = genMode(rng, false)
	return u
}

// unknownID is an index no universe has a rule list or a service for.
const unknownID = 9

func genCfg(rng *rand.Rand, u *universe, withCustom bool) cfgT {
	c := cfgT{isClient: withCustom, parentalOn: rng.IntN(7) != 0, rlOn: rng.IntN(8) != 0, sbOn: rng.IntN(7) != 0}
	if withCustom && rng.IntN(4) != 0 {
		c.custom = genList(rng, "main", 5)
		// Rules may be present while the custom filter is switched off.
		c.hasCust = rng.IntN(6) != 0
	}
	c.now = defaultNow
	if rng.IntN(4) == 0 {
		c.pause, c.now = genSched(rng)
	}
	perm := rng.Perm(len(u.lists))
	c.lists = perm[:rng.IntN(len(perm)+1)]
	perm = rng.Perm(len(u.svcs))
	c.svcs = perm[:rng.IntN(len(perm)+1)]
	if rng.IntN(5) == 0 {
		at := rng.IntN(len(c.lists) + 1)
		c.lists = append(append(append([]int{}, c.lists[:at]...), unknownID), c.lists[at:]...)
	}
	if rng.IntN(6) == 0 {
		at := rng.IntN(len(c.svcs) + 1)
		c.svcs = append(append(append([]int{}, c.svcs[:at]...), unknownID), c.svcs[at:]...)
	}
	c.sb, c.ad, c.gss, c.yss, c.nr = rng.IntN(2) == 0, rng.IntN(2) == 0, rng.IntN(2) == 0, rng.IntN(2) == 0, rng.IntN(2) == 0
	return c
}

// line renders the raw configuration (switches as sent, nothing applied) for
// the model: pcfg w isClient custOn custom pOn schedule ad g y svcs rlOn lists sbOn dang nr.
func (c cfgT) line(which string, custName string) string {
	cust := "-"
	if len(c.custom) > 0 {
		cust = custName
	}
	return fmt.Sprintf("pcfg %s %s %s %s %s %s %s %s %s %s %s %s %s %s %s", which, b01(c.isClient), b01(c.hasCust), cust,
		b01(c.parentalOn), c.pause.token(), b01(c.ad), b01(c.gss), b01(c.yss), idxCSV("s", c.svcs),
		b01(c.rlOn), idxCSV("l", c.lists), b01(c.sbOn), b01(c.sb), b01(c.nr))
}

// timeLines tell the model what the clock says and, if there is a schedule,
// what its zone looks like around that instant.
func (c cfgT) timeLines() []string {
	ls := []string{fmt.Sprintf("now %d", c.now.Unix())}
	if c.pause != nil {
		ls = append([]string{zoneLine(c.pause.zone, c.now)}, ls...)
	}
	return ls
}

func (u *universe) modelLines() []string {
	ls := []string{"reset"}
	for i, l := range u.lists {
		ls = append(ls, strings.TrimSpace(fmt.Sprintf("list l%d %s", i, toks(l))))
	}
	for i, l := range u.svcs {
		ls = append(ls, strings.TrimSpace(fmt.Sprintf("list s%d %s", i, toks(l))))
	}
	ls = append(ls, strings.TrimSpace("list g "+toks(u.gss)), strings.TrimSpace("list y "+toks(u.yss)))
	ls = append(ls, fmt.Sprintf("hp sb %s %s", u.sb.repl, orDash(u.sb.hosts)),
		fmt.Sprintf("hp ad %s %s", u.ad.repl, orDash(u.ad.hosts)),
		fmt.Sprintf("hp nr %s %s", u.nr.repl, orDash(u.nr.hosts)))
	for _, k := range hlib.SortedKeys(u.up) {
		a := u.up[k]
		parts := strings.Split(k, "/")
		var rrs []string
		for _, rr := range a.rrs {
			if rr.typ == 65 {
				h := rr.httpsRR(dns.RR_Header{Rrtype: 65})
				rrs = append(rrs, fmt.Sprintf("65/%s/%d/%s", rrVal(h), rr.ttl, semiOrDash(hintsOf(h))))
				continue
			}
			if rr.typ == 5 {
				rrs = append(rrs, fmt.Sprintf("5/%s/%d", rr.target(), rr.ttl))
				continue
			}
			rrs = append(rrs, fmt.Sprintf("%d/%s/%d", rr.typ, rr.val, rr.ttl))
		}
		ls = append(ls, fmt.Sprintf("up %s %s %d %s %d %d", parts[0], parts[1], a.rcode, orDash(rrs), a.ns, a.extra))
	}
	ls = append(ls, u.grp.timeLines()...)
	ls = append(ls, u.grp.line("g", "-"), u.gmode.srvLine())
	return ls
}

type errColl struct{ errs []error }

func (e *errColl) Collect(_ context.Context, err error) { e.errs = append(e.errs, err) }

func (u *universe) filterConfig(c cfgT, profID string) (p *filter.ConfigParental, rl *filter.ConfigRuleList, sbc *filter.ConfigSafeBrowsing, cust *filter.ConfigCustom) {
	p = &filter.ConfigParental{Enabled: c.parentalOn, PauseSchedule: c.schedule(), AdultBlockingEnabled: c.ad,
		SafeSearchGeneralEnabled: c.gss, SafeSearchYouTubeEnabled: c.yss}
	for _, s := range c.svcs {
		p.BlockedServices = append(p.BlockedServices, filter.BlockedServiceID("svc_"+strconv.Itoa(s)))
	}
	rl = &filter.ConfigRuleList{Enabled: c.rlOn}
	for _, l := range c.lists {
		rl.IDs = append(rl.IDs, filter.ID("list_"+strconv.Itoa(l)))
	}
	sbc = &filter.ConfigSafeBrowsing{Enabled: c.sbOn, DangerousDomainsEnabled: c.sb, NewlyRegisteredDomainsEnabled: c.nr}
	upd := c.updTime
	if upd.IsZero() {
		upd = time.Unix(1700000000, 0)
	}
	cust = &filter.ConfigCustom{ID: profID, UpdateTime: upd, Enabled: c.hasCust}
	for _, r := range c.custom {
		cust.Rules = append(cust.Rules, filter.RuleText(r.text()))
	}
	return p, rl, sbc, cust
}

func (u *universe) clientConfig(c cfgT, profID string) *filter.ConfigClient {
	p, rl, sbc, cust := u.filterConfig(c, profID)
	return &filter.ConfigClient{Custom: cust, Parental: p, RuleList: rl, SafeBrowsing: sbc}
}

func (u *universe) groupConfig(c cfgT) *filter.ConfigGroup {
	p, rl, sbc, _ := u.filterConfig(c, "")
	return &filter.ConfigGroup{Parental: p, RuleList: rl, SafeBrowsing: sbc}
}

var cloner = agdtest.NewCloner()

// build starts the HTTP server with the lists and creates the real storage and
// the middleware stack around it.
func (u *universe) build(rng *rand.Rand) {
	var err error
	u.dir, err = os.MkdirTemp("", "c02-*")
	hlib.Must(err)
	content := map[string]string{}
	mux := http.HandlerFunc(func(w http.ResponseWriter, req *http.Request) {
		body, ok := content[req.URL.Path]
		if !ok {
			http.NotFound(w, req)
			return
		}
		w.Header().Set("Server", "verif/1.0")
		_, _ = w.Write([]byte(body))
	})
	u.srv = httptest.NewServer(mux)
	base, err := url.Parse(u.srv.URL)
	hlib.Must(err)
	at := func(p string) *url.URL { v := *base; v.Path = p; return &v }

	var idx []map[string]any
	for i, l := range u.lists {
		p := fmt.Sprintf("/list/%d", i)
		content[p] = listText(rng, l)
		idx = append(idx, map[string]any{"filterKey": fmt.Sprintf("list_%d", i), "downloadUrl": at(p).String()})
	}
	b, _ := json.Marshal(map[string]any{"filters": idx})
	content["/index"] = string(b)
	var svcs []map[string]any
	for i, l := range u.svcs {
		rules := []string{}
		for _, r := range l {
			rules = append(rules, r.text())
		}
		svcs = append(svcs, map[string]any{"id": fmt.Sprintf("svc_%d", i), "name": "svc", "rules": rules})
	}
	b, _ = json.Marshal(map[string]any{"blocked_services": svcs})
	content["/services"] = string(b)
	content["/gss"] = listText(rng, u.gss)
	content["/yss"] = listText(rng, u.yss)
	setHP := func(name string, h hashSet) {
		content["/"+name] = strings.Join(h.hosts, "\n") + "\n"
		if len(h.hosts) == 0 {
			content["/"+name] = "never-queried.invalid\n"
		}
	}
	if u.w != nil {
		setHP("ad", u.ad)
		setHP("sb", u.sb)
		setHP("nr", u.nr)
		u.buildWired(at)
		return
	}
	hp := func(name string, id filter.ID, h hashSet) *hashprefix.Filter {
		setHP(name, h)
		strg, err := hashprefix.NewStorage("")
		hlib.Must(err)
		f, err := hashprefix.NewFilter(&hashprefix.FilterConfig{
			Logger: slogutil.NewDiscardLogger(), Cloner: cloner, CacheManager: agdcache.EmptyManager{}, Hashes: strg,
			URL: at("/" + name), ErrColl: &errColl{}, Metrics: filter.EmptyMetrics{}, ID: id,
			CachePath: filepath.Join(u.dir, name), ReplacementHost: h.repl, Staleness: time.Hour, CacheTTL: time.Hour,
			CacheCount: 100, MaxSize: 640 * datasize.KB, RefreshTimeout: 5 * time.Second,
		})
		hlib.Must(err)
		hlib.Must(f.RefreshInitial(context.Background()))
		return f
	}
	ss := func(name string, id filter.ID) *filterstorage.ConfigSafeSearch {
		return &filterstorage.ConfigSafeSearch{URL: at("/" + name), ID: id, MaxSize: 640 * datasize.KB, ResultCacheTTL: time.Hour,
			RefreshTimeout: 5 * time.Second, Staleness: time.Hour, ResultCacheCount: 100, Enabled: true}
	}
	ec := &errColl{}
	u.strg, err = filterstorage.New(&filterstorage.Config{
		BaseLogger: slogutil.NewDiscardLogger(), Logger: slogutil.NewDiscardLogger(),
		BlockedServices: &filterstorage.ConfigBlockedServices{IndexURL: at("/services"), IndexMaxSize: 640 * datasize.KB,
			IndexRefreshTimeout: 5 * time.Second, IndexStaleness: time.Hour, ResultCacheCount: 100, ResultCacheEnabled: true, Enabled: true},
		Custom: &filterstorage.ConfigCustom{CacheCount: 100},
		HashPrefix: &filterstorage.ConfigHashPrefix{Adult: hp("ad", filter.IDAdultBlocking, u.ad),
			Dangerous: hp("sb", filter.IDSafeBrowsing, u.sb), NewlyRegistered: hp("nr", filter.IDNewRegDomains, u.nr)},
		RuleLists: &filterstorage.ConfigRuleLists{IndexURL: at("/index"), IndexMaxSize: 640 * datasize.KB, MaxSize: 640 * datasize.KB,
			IndexRefreshTimeout: 5 * time.Second, IndexStaleness: time.Hour, RefreshTimeout: 5 * time.Second, Staleness: time.Hour,
			ResultCacheCount: 100, ResultCacheEnabled: true},
		SafeSearchGeneral: ss("gss", filter.IDGeneralSafeSearch), SafeSearchYouTube: ss("yss", filter.IDYoutubeSafeSearch),
		CacheManager: agdcache.EmptyManager{}, Clock: fixedClock{}, ErrColl: ec, Metrics: filter.EmptyMetrics{},
		CacheDir: u.dir,
	})
	hlib.Must(err)
	hlib.Must(u.strg.RefreshInitial(context.Background()))
	if len(ec.errs) > 0 {
		panic(fmt.Errorf("storage refresh reported: %v", ec.errs))
	}

	msgs, err := dnsmsg.NewConstructor(&dnsmsg.ConstructorConfig{Cloner: cloner, BlockingMode: u.gmode.build(),
		StructuredErrors: agdtest.NewSDEConfig(true), FilteredResponseTTL: u.gmode.dur(), EDEEnabled: true})
	hlib.Must(err)
	pdb := stack.NotFoundProfileDB()
	pdb.OnProfileByLinkedIP = func(_ context.Context, ip netip.Addr) (*agd.Profile, *agd.Device, error) {
		u.profMu.Lock()
		defer u.profMu.Unlock()
		if e, ok := u.profs[ip]; ok {
			return e.p, e.d, nil
		}
		return nil, nil, fmt.Errorf("verif: %w", errNotFound)
	}
	u.st = stack.New(&stack.Config{
		FilterStorage:     u.strg,
		ProfileDB:         pdb,
		Messages:          msgs,
		Cloner:            cloner,
		GroupFilterConfig: u.groupConfig(u.grp),
		Servers:           []*agd.Server{stack.NewServer("dns", agd.ProtoDNS, true)},
		Upstream: u.upstreamHandler(),
	})
}

// upstreamHandler is the scripted upstream; it fails on demand.
func (u *universe) upstreamHandler() dnsserver.Handler {
	return dnsserver.HandlerFunc(func(ctx context.Context, rw dnsserver.ResponseWriter, req *dns.Msg) error {
		if u.upFault {
			return errUpstream
		}
		resp := u.upstreamReply(req)
		u.lastUp = resp.Copy()
		u.upName = strings.ToLower(strings.TrimSuffix(req.Question[0].Name, "."))
		return rw.WriteMsg(ctx, req, resp)
	})
}

func slicesContains(xs []int, x int) bool {
	for _, y := range xs {
		if y == x {
			return true
		}
	}
	return false
}

var errUpstream = fmt.Errorf("verif: scripted upstream failure")

// serve sends one request through the handler stack: the single-group fixture,
// or the server sel of a wired universe.
func (u *universe) serve(ctx context.Context, sel srvSel, msg *dns.Msg, remote netip.Addr) stack.Outcome {
	if u.w != nil {
		var devID agd.DeviceID
		u.profMu.Lock()
		u.curEntry = nil
		if e, ok := u.profs[remote]; ok {
			devID, u.curEntry = e.d.ID, e
		}
		u.profMu.Unlock()
		return u.w.serve(ctx, sel, msg, remote, devID)
	}
	return u.st.Serve(ctx, &stack.Req{Server: u.st.Servers[0], Msg: msg,
		Remote: netip.AddrPortFrom(remote, 5353), Local: netip.MustParseAddrPort("192.0.2.2:53")})
}

var errNotFound = notFoundErr{}

type notFoundErr struct{}

func (notFoundErr) Error() string { return "device not found" }
func (notFoundErr) Is(target error) bool {
	return target != nil && strings.Contains(target.Error(), "not found")
}

func (u *universe) close() {
	u.srv.Close()
	_ = os.RemoveAll(u.dir)
}

func (u *universe) upstreamReply(req *dns.Msg) *dns.Msg {
	q := req.Question[0]
	resp := (&dns.Msg{}).SetReply(req)
	resp.RecursionAvailable = true
	a := u.up[upKey(strings.ToLower(strings.TrimSuffix(q.Name, ".")), q.Qtype)]
	resp.Rcode = a.rcode
	for _, rr := range a.rrs {
		h := dns.RR_Header{Name: q.Name, Rrtype: rr.typ, Class: dns.ClassINET, Ttl: rr.ttl}
		switch rr.typ {
		case 1:
			resp.Answer = append(resp.Answer, &dns.A{Hdr: h, A: net.ParseIP(rr.val).To4()})
		case 28:
			resp.Answer = append(resp.Answer, &dns.AAAA{Hdr: h, AAAA: net.ParseIP(rr.val)})
		case 5:
			resp.Answer = append(resp.Answer, &dns.CNAME{Hdr: h, Target: dns.Fqdn(rr.target())})
		case 16:
			resp.Answer = append(resp.Answer, &dns.TXT{Hdr: h, Txt: []string{rr.val}})
		case 65:
			resp.Answer = append(resp.Answer, rr.httpsRR(h))
		}
	}
	for i := 0; i < a.ns; i++ {
		resp.Ns = append(resp.Ns, &dns.SOA{Hdr: dns.RR_Header{Name: q.Name, Rrtype: dns.TypeSOA, Class: dns.ClassINET, Ttl: 7777},
			Ns: "ns.upstream.test.", Mbox: "m.upstream.test.", Serial: 1})
	}
	for i := 0; i < a.extra; i++ {
		h := dns.RR_Header{Name: "ns.upstream.test.", Rrtype: dns.TypeA, Class: dns.ClassINET, Ttl: 7777}
		if i == 0 {
			resp.Extra = append(resp.Extra, &dns.A{Hdr: h, A: net.ParseIP("198.18.0.53").To4()})
		} else {
			h.Rrtype = dns.TypeTXT
			resp.Extra = append(resp.Extra, &dns.TXT{Hdr: h, Txt: []string{"upstream-additional"}})
		}
	}
	return resp
}

// ---------------------------------------------------------------------------
// Canonical forms of what the real code returns

func shortID(id filter.ID, rule filter.RuleText) string {
	s := string(id)
	switch id {
	case filter.IDCustom:
		return "custom"
	case filter.IDBlockedService:
		return "s" + strings.TrimPrefix(string(rule), "svc_")
	case filter.IDSafeBrowsing:
		return "sb"
	case filter.IDAdultBlocking:
		return "adult"
	case filter.IDGeneralSafeSearch:
		return "gss"
	case filter.IDYoutubeSafeSearch:
		return "yss"
	case filter.IDNewRegDomains:
		return "nrd"
	}
	if strings.HasPrefix(s, "list_") {
		return "l" + strings.TrimPrefix(s, "list_")
	}
	return "?" + s
}

func rrVal(rr dns.RR) string {
	switch v := rr.(type) {
	case *dns.A:
		return netip.MustParseAddr(v.A.String()).String()
	case *dns.AAAA:
		a, _ := netip.AddrFromSlice(v.AAAA)
		return a.String()
	case *dns.CNAME:
		return strings.ToLower(strings.TrimSuffix(v.Target, "."))
	case *dns.TXT:
		return strings.Join(v.Txt, "")
	case *dns.MX:
		return fmt.Sprintf("%d_%s", v.Preference, strings.TrimSuffix(v.Mx, "."))
	case *dns.PTR:
		return strings.TrimSuffix(v.Ptr, ".")
	case *dns.SRV:
		return fmt.Sprintf("%d_%d_%d_%s", v.Priority, v.Weight, v.Port, strings.TrimSuffix(v.Target, "."))
	case *dns.HTTPS:
		return svcbVal(&v.SVCB)
	case *dns.SVCB:
		return svcbVal(v)
	}
	return "?"
}

// svcbVal renders an SVCB/HTTPS record as priority_target[_key=value...]; the
// addresses of a hint are joined with '+'.
func svcbVal(v *dns.SVCB) string {
	t := strings.TrimSuffix(v.Target, ".")
	if t == "" {
		t = "."
	}
	out := fmt.Sprintf("%d_%s", v.Priority, t)
	for _, kv := range v.Value {
		out += "_" + kv.Key().String() + "=" + strings.ReplaceAll(kv.String(), ",", "+")
	}
	return out
}

// hintsOf returns the ipv4hint/ipv6hint addresses of an HTTPS record in record
// order, as the response filter reads them.
func hintsOf(rr *dns.HTTPS) (hints []string) {
	for _, kv := range rr.Value {
		switch h := kv.(type) {
		case *dns.SVCBIPv4Hint:
			for _, ip := range h.Hint {
				hints = append(hints, ip.String())
			}
		case *dns.SVCBIPv6Hint:
			for _, ip := range h.Hint {
				hints = append(hints, ip.String())
			}
		}
	}
	return hints
}

func semiOrDash(xs []string) string {
	if len(xs) == 0 {
		return "-"
	}
	return strings.Join(xs, ";")
}

// ansTok renders one answer record for a model "resp" line.
func ansTok(rr dns.RR) string {
	switch v := rr.(type) {
	case *dns.A, *dns.AAAA:
		return fmt.Sprintf("%d/%s", rr.Header().Rrtype, rrVal(rr))
	case *dns.CNAME:
		// The target as it is spelled in the record.
		return "5/" + strings.TrimSuffix(v.Target, ".")
	case *dns.HTTPS:
		return "65/" + semiOrDash(hintsOf(v))
	}
	return "0/x"
}

func sortedCSV(xs []string) string {
	if len(xs) == 0 {
		return "-"
	}
	xs = append([]string{}, xs...)
	sort.Strings(xs)
	return strings.Join(xs, ",")
}

func verdictString(res filter.Result) string {
	switch v := res.(type) {
	case nil:
		return "none"
	case *filter.ResultAllowed:
		return "allow " + shortID(v.List, v.Rule)
	case *filter.ResultBlocked:
		return "block " + shortID(v.List, v.Rule)
	case *filter.ResultModifiedRequest:
		return "modreq " + shortID(v.List, v.Rule) + " " + strings.ToLower(strings.TrimSuffix(v.Msg.Question[0].Name, "."))
	case *filter.ResultModifiedResponse:
		switch v.List {
		case filter.IDSafeBrowsing, filter.IDAdultBlocking, filter.IDNewRegDomains:
			return "modmsg " + shortID(v.List, v.Rule) + " " + msgString(v.Msg, nil)
		}
		var vals []string
		for _, rr := range v.Msg.Answer {
			vals = append(vals, rrVal(rr))
		}
		return fmt.Sprintf("modresp %s %d %s", shortID(v.List, v.Rule), v.Msg.Rcode, sortedCSV(vals))
	}
	return fmt.Sprintf("unknown-%T", res)
}

// modelAlts splits a model answer into its alternatives: "ambig a || b" lists
// every answer the engine's unspecified match order admits.
func modelAlts(s string) []string {
	if strings.HasPrefix(s, "ambig ") {
		return strings.Split(strings.TrimPrefix(s, "ambig "), " || ")
	}
	return []string{s}
}

func normVerdict1(s string) string {
	f := strings.Fields(s)
	if len(f) == 4 && f[0] == "modresp" && f[3] != "-" {
		f[3] = sortedCSV(strings.Split(f[3], ","))
		s = strings.Join(f, " ")
	}
	return s
}

// normVerdict sorts the value list of every alternative of a model "modresp"
// line (the order of synthesised values is the engine's match order).
func normVerdict(s string) (alts []string) {
	for _, a := range modelAlts(s) {
		alts = append(alts, normVerdict1(a))
	}
	return alts
}

func oneOf(alts []string, v string) bool {
	for _, a := range alts {
		if a == v {
			return true
		}
	}
	return false
}

const fakeSOANs = "fake-for-negative-caching.adguard.com."

// msgString renders a response; RRs that were in the upstream reply of this
// exchange are marked "u".
func msgString(m *dns.Msg, up *dns.Msg) string {
	if m == nil {
		return "nil"
	}
	isUp := func(rr dns.RR) bool {
		if up == nil {
			return false
		}
		for _, sets := range [][]dns.RR{up.Answer, up.Ns, up.Extra} {
			for _, o := range sets {
				if o.Header().Rrtype == rr.Header().Rrtype && o.Header().Ttl == rr.Header().Ttl && rrVal(o) == rrVal(rr) &&
					o.Header().Rrtype != dns.TypeSOA {
					return true
				}
			}
		}
		return false
	}
	var ans []string
	for _, rr := range m.Answer {
		h := rr.Header()
		if isUp(rr) {
			ans = append(ans, fmt.Sprintf("%d:^:%s:%d:u", h.Rrtype, rrVal(rr), h.Ttl))
		} else {
			ans = append(ans, fmt.Sprintf("%d:%s:%s:%d:s", h.Rrtype, strings.ToLower(strings.TrimSuffix(h.Name, ".")), rrVal(rr), h.Ttl))
		}
	}
	soa, upNs := "-", 0
	for _, rr := range m.Ns {
		if s, ok := rr.(*dns.SOA); ok && s.Ns == fakeSOANs {
			soa = strconv.Itoa(int(s.Hdr.Ttl))
		} else {
			upNs++
		}
	}
	a := "-"
	if len(ans) > 0 {
		a = strings.Join(ans, ",")
	}
	// Records of the additional section other than the OPT pseudo-record: the
	// server synthesises none, so every one of them was obtained elsewhere.
	upExtra := 0
	for _, rr := range m.Extra {
		if rr.Header().Rrtype != dns.TypeOPT && !isDebugRR(rr) {
			upExtra++
		}
	}
	return fmt.Sprintf("%d %s %s %d %d", m.Rcode, a, soa, upNs, upExtra)
}

const debugDomain = ".adguard-dns.com."

// isDebugRR reports whether rr is one of the CHAOS-class TXT records the main
// middleware appends to the answer of a debug (CHAOS-class) query.
func isDebugRR(rr dns.RR) bool {
	h := rr.Header()
	return h.Rrtype == dns.TypeTXT && h.Class == dns.ClassCHAOS && strings.HasSuffix(h.Name, debugDomain)
}

// debugVerdict reads the verdict the middleware reports in the answer to a
// debug query: "<stage> <state> <list>", stage = req or resp (which verdict was
// reported), state = normal, allowed, blocked or modified.
func debugVerdict(m *dns.Msg) string {
	if m == nil {
		return "nil"
	}
	kv := map[string]string{}
	for _, rr := range m.Extra {
		if !isDebugRR(rr) {
			continue
		}
		kv[strings.TrimSuffix(rr.Header().Name, debugDomain)] = strings.Join(rr.(*dns.TXT).Txt, "")
	}
	for _, stage := range []string{"req", "resp"} {
		state, ok := kv[stage+".res-type"]
		if !ok {
			continue
		}
		if state == "normal" {
			return stage + " normal -"
		}
		return stage + " " + state + " " + shortID(filter.ID(kv[stage+".rule-list-id"]), filter.RuleText(kv[stage+".rule"]))
	}
	return "none"
}

// verdictState maps a verdict string of the composite filter to the state and
// list a debug answer reports for it.
func verdictState(v string) string {
	f := strings.Fields(v)
	switch f[0] {
	case "none":
		return "normal -"
	case "allow":
		return "allowed " + f[1]
	case "block":
		return "blocked " + f[1]
	}
	return "modified " + f[1]
}

func normMsg1(s string) string {
	f := strings.Fields(s)
	if len(f) == 5 && f[1] != "-" {
		// Synthesised values of a rewrite are unordered (engine match order).
		parts := strings.Split(f[1], ",")
		allSynthSameType := true
		for _, p := range parts {
			if !strings.HasSuffix(p, ":s") || strings.HasPrefix(p, "5:") {
				allSynthSameType = false
			}
		}
		if allSynthSameType {
			sort.Strings(parts)
			f[1] = strings.Join(parts, ",")
		}
		s = strings.Join(f, " ")
	}
	return s
}

func normMsg(s string) (alts []string) {
	for _, a := range modelAlts(s) {
		alts = append(alts, normMsg1(a))
	}
	return alts
}

// ---------------------------------------------------------------------------
// Independent oracle of the documented precedence

func domMatch(dom, host string) bool {
	return dom != "" && (host == dom || strings.HasSuffix(host, "."+dom))
}

func selOK(sel string, qt uint16) bool {
	switch {
	case strings.HasPrefix(sel, "="):
		return sel[1:] == strconv.Itoa(int(qt))
	case strings.HasPrefix(sel, "~"):
		return sel[1:] != strconv.Itoa(int(qt))
	}
	return true
}

type source struct {
	id    string
	rules []rule
}

func (u *universe) sources(c cfgT) (rw []source, all []source) {
	if c.hasCust {
		rw = append(rw, source{"custom", c.custom})
	}
	for _, l := range c.lists {
		rw = append(rw, source{"l" + strconv.Itoa(l), u.lists[l]})
	}
	all = append(all, rw...)
	for _, s := range c.svcs {
		all = append(all, source{"s" + strconv.Itoa(s), u.svcs[s]})
	}
	return rw, all
}

func isFilterable(qt uint16) bool { return qt == 1 || qt == 28 || qt == 65 }

// expectation describes what the documented order admits for one query.
type expectation struct {
	clause string
	// kinds admitted ("allow", "block", "modreq", "modresp", "none") and the
	// lists admitted; exact, when set, must equal the verdict; anyOf lists
	// several admissible verdicts (the documented semantics of several
	// CNAME/rcode rewrites of ONE list matching one name does not say which is
	// taken).
	kinds []string
	lists []string
	exact string
	anyOf []string
}

// rewriteOutcomes returns the verdicts which the documented $dnsrewrite
// semantics admit for the rules of one list: a CNAME rewrite or a non-NOERROR
// code takes priority over values (which of several is not specified), a CNAME
// of the name to itself is a no-op, otherwise the values of the queried type
// form the answer.  "" stands for "no verdict from this list".
func rewriteOutcomes(id string, rs []rule, host string, qt uint16) []string {
	var terms []rule
	var vals []string
	n := 0
	for _, r := range rs {
		if !strings.HasPrefix(r.kind, "r") || !domMatch(r.dom, host) {
			continue
		}
		n++
		switch r.kind {
		case "rc", "rr":
			terms = append(terms, r)
		case "r4":
			if qt == 1 {
				vals = append(vals, r.arg)
			}
		case "r6":
			if qt == 28 {
				vals = append(vals, r.arg)
			}
		case "ro":
			if r.typ != 0 && int(qt) == r.typ {
				vals = append(vals, r.arg)
			}
		}
	}
	if n == 0 {
		return []string{""}
	}
	if len(terms) == 0 {
		return []string{"modresp " + id + " 0 " + sortedCSV(vals)}
	}
	var out []string
	seen := map[string]bool{}
	for _, t := range terms {
		o := ""
		switch {
		case t.kind == "rr":
			o = "modresp " + id + " " + t.arg + " -"
		case t.arg != host:
			o = "modreq " + id + " " + t.arg
		}
		if !seen[o] {
			seen[o] = true
			out = append(out, o)
		}
	}
	return out
}

// chain combines stages that are consulted in order, each with a set of
// admissible outcomes: the first stage with a verdict decides.  The result is
// the set of admissible outcomes of the whole chain ("" = none has one).
func chain(stages [][]string) []string {
	seen := map[string]bool{}
	var out []string
	var walk func(i int)
	walk = func(i int) {
		if i == len(stages) {
			if !seen[""] {
				seen[""] = true
				out = append(out, "")
			}
			return
		}
		for _, o := range stages[i] {
			if o == "" {
				walk(i + 1)
			} else if !seen[o] {
				seen[o] = true
				out = append(out, o)
			}
		}
	}
	walk(0)
	return out
}

// reqFilterExpect returns the verdicts the safety filters may produce, in the
// documented order; "" = none of them has one.
func (u *universe) reqFilterExpect(c cfgT, mode modeT, host string, qt uint16) []string {
	if !isFilterable(qt) {
		return []string{""}
	}
	hash := func(on bool, h hashSet, id string) []string {
		if !on {
			return []string{""}
		}
		for _, d := range h.hosts {
			if domMatch(d, host) {
				if ip, err := netip.ParseAddr(h.repl); err == nil {
					return []string{"modmsg " + id + " " + expectBlockPage(mode, host, qt, ip)}
				}
				return []string{"modreq " + id + " " + h.repl}
			}
		}
		return []string{""}
	}
	ss := func(on bool, rs []rule, id string) []string {
		if !on {
			return []string{""}
		}
		return rewriteOutcomes(id, rs, host, qt)
	}
	return chain([][]string{hash(c.sb, u.sb, "sb"), hash(c.ad, u.ad, "adult"), ss(c.gss, u.gss, "gss"), ss(c.yss, u.yss, "yss"),
		hash(c.nr, u.nr, "nrd")})
}

func single(clause string, alts []string) expectation {
	if len(alts) == 1 {
		return expectation{clause: clause, exact: alts[0]}
	}
	return expectation{clause: clause + "-order-dependent", anyOf: alts}
}

// expectReq applies the property's clauses in their documented order.
func (u *universe) expectReq(c cfgT, mode modeT, host string, qt uint16) expectation {
	rw, all := u.sources(c)
	// Clause 1: a DNS-rewrite rule wins outright, custom first, then the shared
	// lists in configured order.
	var stages [][]string
	for _, s := range rw {
		stages = append(stages, rewriteOutcomes(s.id, s.rules, host, qt))
	}
	rwAlts := chain(stages)
	if len(rwAlts) > 1 || rwAlts[0] != "" {
		hasNone := false
		var alts []string
		for _, a := range rwAlts {
			if a == "" {
				hasNone = true
			} else {
				alts = append(alts, a)
			}
		}
		if !hasNone {
			return single("rewrite-wins", alts)
		}
		// A self-CNAME next to other early exits: either a rewrite or whatever
		// the remaining clauses say.
		rest := u.expectNoRewrite(c, all, mode, host, qt)
		if rest.exact == "" && len(rest.anyOf) == 0 {
			// The rest is a kinds/lists expectation: keep it simple and
			// admit either side.
			return expectation{clause: "rewrite-self-or-rest", anyOf: alts, kinds: rest.kinds, lists: rest.lists}
		}
		alts = append(alts, rest.anyOf...)
		if rest.exact != "" {
			alts = append(alts, rest.exact)
		}
		return expectation{clause: "rewrite-self-or-rest", anyOf: alts}
	}
	return u.expectNoRewrite(c, all, mode, host, qt)
}

// expectNoRewrite is clauses 2 and 3: allow over block, then the safety
// filters unless the deciding allow is the profile's own.
func (u *universe) expectNoRewrite(c cfgT, all []source, mode modeT, host string, qt uint16) expectation {
	// Clause 2: an allow rule from any source beats every block rule.
	type hit struct {
		src   string
		count int
	}
	var allows, blocks []hit
	for _, s := range all {
		for _, r := range s.rules {
			if (r.kind == "a" || r.kind == "b") && domMatch(r.dom, host) && selOK(r.sel, qt) {
				n := 0
				if r.sel != "*" {
					n = 1
				}
				if r.kind == "a" {
					allows = append(allows, hit{s.id, n})
				} else {
					blocks = append(blocks, hit{s.id, n})
				}
			}
			if (r.kind == "h4" || r.kind == "h6") && r.dom == host {
				blocks = append(blocks, hit{s.id, -1})
			}
		}
	}
	rf := u.reqFilterExpect(c, mode, host, qt)
	withFallback := func(fallback string) []string {
		var alts []string
		for _, a := range rf {
			if a == "" {
				a = fallback
			}
			alts = append(alts, a)
		}
		return alts
	}
	rfDecides := len(rf) > 1 || rf[0] != ""
	if len(allows) > 0 {
		// The deciding allow rule is the most specific one; ties go to the
		// earliest source (custom first).
		best := allows[0]
		for _, a := range allows[1:] {
			if a.count > best.count {
				best = a
			}
		}
		if best.src == "custom" {
			return expectation{clause: "custom-allow-stops", exact: "allow custom"}
		}
		if rfDecides {
			return single("allow-then-reqfilters", withFallback("allow "+best.src))
		}
		return expectation{clause: "allow-beats-block", exact: "allow " + best.src}
	}
	if len(blocks) > 0 {
		var ls []string
		for _, b := range blocks {
			ls = append(ls, b.src)
		}
		return expectation{clause: "block-blocks", kinds: []string{"block"}, lists: ls}
	}
	if rfDecides {
		return single("reqfilters", withFallback("none"))
	}
	return expectation{clause: "nothing", exact: "none"}
}

func (e expectation) want() string {
	switch {
	case e.exact != "":
		return e.exact
	case len(e.kinds) == 0:
		return "one of " + strings.Join(e.anyOf, " | ")
	case len(e.anyOf) > 0:
		return fmt.Sprintf("one of %s or %v from %v", strings.Join(e.anyOf, " | "), e.kinds, e.lists)
	}
	return fmt.Sprintf("%v from %v", e.kinds, e.lists)
}

func (e expectation) admits(v string) bool {
	if e.exact != "" {
		return v == e.exact
	}
	for _, a := range e.anyOf {
		if v == a {
			return true
		}
	}
	f := strings.Fields(v)
	okKind, okList := false, false
	for _, k := range e.kinds {
		okKind = okKind || f[0] == k
	}
	if len(f) > 1 {
		for _, l := range e.lists {
			okList = okList || f[1] == l
		}
	}
	return okKind && okList
}

// expectBlockedShape is the documented answer for a blocked query.
func expectBlockedShape(m modeT, host string, qt uint16) string {
	ip := func(typ int, vals []string) string {
		var b []string
		for _, v := range vals {
			b = append(b, fmt.Sprintf("%d:%s:%s:%d:s", typ, host, v, m.secs()))
		}
		return "0 " + strings.Join(b, ",") + " - 0 0"
	}
	nodata := fmt.Sprintf("0 - %d 0 0", m.secs())
	switch m.kind {
	case "null":
		if qt == 1 {
			return ip(1, []string{"0.0.0.0"})
		} else if qt == 28 {
			return ip(28, []string{"::"})
		}
		return nodata
	case "nx":
		return fmt.Sprintf("3 - %d 0 0", m.secs())
	case "ref":
		return fmt.Sprintf("5 - %d 0 0", m.secs())
	}
	if qt == 1 && len(m.v4) > 0 {
		return ip(1, m.v4)
	} else if qt == 28 && len(m.v6) > 0 {
		return ip(28, m.v6)
	}
	return nodata
}

// expectBlockPage is the documented answer of a safety filter that is
// configured with a block-page address: the address for a query of its family,
// the requester's blocked shape for HTTPS, NODATA otherwise; all with the
// requester's TTL.
func expectBlockPage(m modeT, host string, qt uint16, ip netip.Addr) string {
	nodata := fmt.Sprintf("0 - %d 0 0", m.secs())
	switch {
	case qt == 65:
		switch m.kind {
		case "nx":
			return fmt.Sprintf("3 - %d 0 0", m.secs())
		case "ref":
			return fmt.Sprintf("5 - %d 0 0", m.secs())
		}
		return nodata
	case qt == 1 && ip.Is4():
		return fmt.Sprintf("0 1:%s:%s:%d:s - 0 0", host, ip, m.secs())
	case qt == 28 && ip.Is6():
		return fmt.Sprintf("0 28:%s:%s:%d:s - 0 0", host, ip, m.secs())
	}
	return nodata
}

// expectResp applies the documented precedence to the answer records of a
// response, independently of the model: per record (address or CNAME target)
// an allow rule of any source beats every block rule, a block or hosts rule
// blocks; the first record with a verdict decides; rewrites never apply.
//
// Names are compared without regard to letter case (fold = true).  With fold =
// false the CNAME targets are taken in their wire spelling: what a
// case-sensitive implementation would do; used only to name that defect.
func (u *universe) expectResp(c cfgT, answers []dns.RR, fold bool) expectation {
	_, all := u.sources(c)
	// Every name or address the documented response filtering looks at, with
	// the record type it is matched under: addresses and CNAME targets under
	// their own type, the address hints of an HTTPS record under HTTPS.
	type item struct {
		val string
		t   uint16
	}
	var items []item
	for _, rr := range answers {
		switch v := rr.(type) {
		case *dns.A, *dns.AAAA:
			items = append(items, item{rrVal(rr), rr.Header().Rrtype})
		case *dns.CNAME:
			if fold {
				items = append(items, item{rrVal(rr), dns.TypeCNAME})
			} else {
				items = append(items, item{strings.TrimSuffix(v.Target, "."), dns.TypeCNAME})
			}
		case *dns.HTTPS:
			for _, h := range hintsOf(v) {
				items = append(items, item{h, 65})
			}
		}
	}
	for _, it := range items {
		val, t := it.val, it.t
		var allows, blocks []string
		for _, s := range all {
			for _, r := range s.rules {
				if (r.kind == "a" || r.kind == "b") && domMatch(r.dom, val) && selOK(r.sel, t) {
					if r.kind == "a" {
						allows = append(allows, s.id)
					} else {
						blocks = append(blocks, s.id)
					}
				}
				if (r.kind == "h4" || r.kind == "h6") && r.dom == val {
					blocks = append(blocks, s.id)
				}
			}
		}
		switch {
		case len(allows) > 0:
			return expectation{clause: "resp-allow-beats-block", kinds: []string{"allow"}, lists: allows}
		case len(blocks) > 0:
			return expectation{clause: "resp-block-blocks", kinds: []string{"block"}, lists: blocks}
		}
	}
	return expectation{clause: "resp-nothing", exact: "none"}
}

// ---------------------------------------------------------------------------
// Campaigns

type query struct {
	host string // normalised
	qt   uint16
	wire string // as spelled in the question (0x20-style mixed case)
	// edns: 0 = a plain request, 1 = with an OPT record, 2 = with the DO bit.
	edns int
	// debug: the question is asked once more in the CHAOS class, which makes
	// the main middleware append what it decided to the (same) answer.
	debug bool
}

func mixCase(rng *rand.Rand, s string) string {
	b := []byte(s)
	for i := range b {
		if b[i] >= 'a' && b[i] <= 'z' && rng.IntN(2) == 0 {
			b[i] -= 'a' - 'A'
		}
	}
	return string(b)
}

func genQueries(rng *rand.Rand, n int) []query {
	qs := make([]query, 0, n)
	seen := map[query]bool{}
	for len(qs) < n {
		q := query{host: pick(rng, hostPool), qt: pick(rng, qtypes)}
		q.wire = q.host
		if seen[q] {
			if rng.IntN(4) != 0 {
				continue
			}
		}
		seen[q] = true
		if rng.IntN(6) == 0 {
			q.wire = mixCase(rng, q.host)
		}
		if rng.IntN(3) == 0 {
			q.edns = 1 + rng.IntN(2)
		}
		q.debug = rng.IntN(4) == 0
		qs = append(qs, q)
	}
	return qs
}

func newReq(host string, qt uint16) *dns.Msg {
	m := &dns.Msg{}
	m.SetQuestion(dns.Fqdn(host), qt)
	m.Id = 4242
	return m
}

type replay struct {
	Universe []string `json:"universe_lines"`
	Config   []string `json:"config_lines"`
	Op       string   `json:"op"`
	Real     string   `json:"real"`
	Model    string   `json:"model,omitempty"`
	Expected string   `json:"expected,omitempty"`
	Lists    any      `json:"list_texts,omitempty"`
}

func (u *universe) listTexts(c cfgT) map[string][]string {
	out := map[string][]string{}
	add := func(name string, rs []rule) {
		for _, r := range rs {
			out[name] = append(out[name], r.text())
		}
	}
	if len(c.custom) > 0 {
		add("custom", c.custom)
	}
	for _, l := range c.lists {
		if l < len(u.lists) {
			add("l"+strconv.Itoa(l), u.lists[l])
		}
	}
	for _, s := range c.svcs {
		if s < len(u.svcs) {
			add("s"+strconv.Itoa(s), u.svcs[s])
		}
	}
	add("gss", u.gss)
	add("yss", u.yss)
	out["hashprefix"] = []string{"sb=" + orDash(u.sb.hosts), "adult=" + orDash(u.ad.hosts), "nrd=" + orDash(u.nr.hosts)}
	return out
}

var profSeq int

func runUniverse(o *hlib.Opts, r *hlib.Result, m *hlib.Model, rng *rand.Rand, nCfg, nQ int, wired bool) {
	u := genUniverse(rng)
	nGroupCfg := 1
	if wired {
		u.w = genWiring(rng, u)
		nGroupCfg = len(u.w.sgs)
		nCfg += nGroupCfg - 1
		r.Count("wired-universe")
	}
	// The anonymous requesters come first and once more after the profiles:
	// the request information is pooled per server.
	nCfg += nGroupCfg
	u.build(rng)
	defer u.close()
	u.grp.isPaused = u.grp.pause.oraclePaused(r, u.grp.now)
	ulines := u.modelLines()
	if wired {
		ulines = append(ulines, u.w.modelLines(u)...)
	}
	ctx := context.Background()

	profID, updTime := "", time.Unix(1700000000, 0)
	for ci := 0; ci < nCfg; ci++ {
		grpIdx := -1
		switch {
		case ci < nGroupCfg:
			grpIdx = ci
		case ci >= nCfg-nGroupCfg:
			grpIdx = ci - (nCfg - nGroupCfg)
			r.Count("anonymous-after-profiles")
		}
		isGroup := grpIdx >= 0
		var sel srvSel
		if wired {
			sel = u.w.pickServer(rng, grpIdx, isGroup)
			r.Count("wired-request-via-" + sel.srv.Protocol.String())
		}
		if profID != "" && !isGroup && rng.IntN(3) == 0 {
			// The same profile again with its settings changed: the custom
			// rules are cached by profile ID and must be rebuilt for a newer
			// update time.
			updTime = updTime.Add(time.Hour)
			r.Count("profile-updated-in-place")
		} else {
			profSeq++
			profID = fmt.Sprintf("prof%d", profSeq)
		}
		var c cfgT
		var mode modeT
		var flt filter.Interface
		which := "p"
		var clines []string
		sw := [3]bool{true, true, true}
		var pbProf *agd.Profile
		pbLineAt := -1
		// profMode is what the profile is configured with; mode is the
		// requester's own constructor as documented: the profile's, or the
		// server's for an anonymous requester and for a profile from which no
		// constructor can be made (negative TTL).
		var profMode modeT
		if isGroup && wired {
			// An anonymous requester on a server of this server group: the
			// filtering group the group names, as the builder converted it
			// from the configuration file.
			sg := u.w.sgs[grpIdx]
			c, mode, which = u.w.groups[sg.grp], u.gmode, "g"
			clockNow = c.now
			clines = append(clines, c.timeLines()...)
			clines = append(clines, "usegrp "+sg.name)
			flt = u.strg.ForConfig(ctx, u.w.built.Groups[agd.FilteringGroupID(fgName(sg.grp))].FilterConfig)
			sw[0] = false
			r.Count(fmt.Sprintf("wired-group-config-%d-of-%d", sg.grp, len(u.w.groups)))
		} else if isGroup {
			c, mode, which = u.grp, u.gmode, "g"
			clockNow = c.now
			clines = append(clines, c.timeLines()...)
			flt = u.strg.ForConfig(ctx, u.groupConfig(c))
			sw[0] = false
		} else {
			c = genCfg(rng, u, true)
			if wired {
				// The builder's storage reads the system clock.
				c.pause, c.now = nil, defaultNow
				if ci == nGroupCfg {
					// One profile that asks for everything the process can
					// offer: whatever the environment switches off must be
					// missing, whatever it leaves on must be there.
					c.parentalOn, c.sbOn, c.ad, c.sb, c.nr, c.gss, c.yss = true, true, true, true, true, true, true
					for i := range u.svcs {
						if !slicesContains(c.svcs, i) {
							c.svcs = append(c.svcs, i)
						}
					}
					r.Count("wired-all-on-profile")
				}
			}
			c.profID, c.updTime = profID, updTime
			c.isPaused = c.pause.oraclePaused(r, c.now)
			clockNow = c.now
			if c.pause != nil {
				r.Count("cfg-pause-schedule-" + c.pause.zone.name)
				if c.isPaused {
					r.Count("cfg-paused")
				}
			}
			profMode = genMode(rng, true)
			mode = profMode
			if profMode.ttl < 0 {
				mode = u.gmode
				r.Count("profile-negative-ttl")
			}
			if profMode.kind == "none" {
				mode = u.gmode
				r.Count("profile-nil-blocking-mode")
			}
			clines = append(clines, c.timeLines()...)
			clines = append(clines, strings.TrimSpace("list c0 "+toks(c.custom)), c.line("p", "c0"), profMode.line())
			flt = u.strg.ForConfig(ctx, u.clientConfig(c, profID))
			if rng.IntN(6) == 0 {
				sw[1+rng.IntN(2)] = false
			}
			// Round 5: three of four profiles that the backend protocol can
			// express arrive as a backend message and go through the
			// unchanged conversion of backendpb.
			if x, pbLine, ok := pbProfile(rng, c, profID, profMode, sw[1], "c0"); ok && rng.IntN(4) != 0 {
				want := u.clientConfig(c, profID)
				conv, collected, cerr := convertPB(ctx, x, want.Custom.UpdateTime)
				rp := replay{Universe: ulines, Config: append(append([]string{}, clines...), pbLine), Op: "convert " + x.String()}
				if cerr != nil || len(collected) > 0 {
					r.Violate("backend-profile-rejected", fmt.Sprintf("a well-formed profile message was not converted: %v %v", cerr, collected), rp)
				} else {
					r.Count("profile-via-backendpb")
					r.Count("profile-via-backendpb-mode-" + strings.Fields(pbLine)[17])
					oraclePB(r, x, conv, want, profMode, sw[1], rp)
					pbProf = conv
					clines = append(clines[:len(clines)-2], pbLine)
					pbLineAt = len(clines) - 1
					flt = u.strg.ForConfig(ctx, conv.FilterConfig)
				}
			}
		}
		eff := c.effective(u)
		if wired {
			eff = u.w.mask(eff)
		}
		if !c.parentalOn || c.paused() || !c.rlOn || !c.sbOn || (len(c.custom) > 0 && !c.hasCust) {
			r.Count("cfg-some-master-switch-off")
		}
		clines = append(clines, fmt.Sprintf("sw %s %s %s", b01(sw[0]), b01(sw[1]), b01(sw[2])))
		msgs, err := dnsmsg.NewConstructor(&dnsmsg.ConstructorConfig{Cloner: cloner, BlockingMode: mode.build(),
			StructuredErrors: agdtest.NewSDEConfig(true), FilteredResponseTTL: mode.dur(), EDEEnabled: true})
		hlib.Must(err)
		if isGroup && wired {
			// The constructor the builder made from filters.response_ttl.
			msgs = u.w.built.Messages
		}

		remote := netip.AddrFrom4([4]byte{10, 9, byte(ci >> 8), byte(ci)})
		if !isGroup {
			dev := &agd.Device{Auth: &agd.AuthSettings{PasswordHash: agdpasswd.AllowAuthenticator{}}, ID: agd.DeviceID("dev" + strconv.Itoa(profSeq)),
				LinkedIP: remote, FilteringEnabled: sw[2]}
			prof := &agd.Profile{FilterConfig: u.clientConfig(c, profID), Access: access.EmptyProfile{}, BlockingMode: profMode.build(), Ratelimiter: agd.GlobalRatelimiter{},
				ID: agd.ProfileID(profID), DeviceIDs: []agd.DeviceID{dev.ID}, FilteredResponseTTL: profMode.dur(),
				FilteringEnabled: sw[1], QueryLogEnabled: true}
			if pbProf != nil {
				// What a synchronisation would have stored.
				prof = pbProf
				prof.DeviceIDs = []agd.DeviceID{dev.ID}
			}
			u.profMu.Lock()
			u.profs[remote] = &profEntry{prof, dev}
			u.profMu.Unlock()
		}

		qs := genQueries(rng, nQ)
		if wired {
			qs = append(qs, u.w.probeQueries(u, qs)...)
		}
		var ops []string
		type obs struct {
			kind string // req resp mw
			real string
			q    query
			exp  expectation
			// for mw
			reqV, respV string
			upReply     *dns.Msg
			upName      string
			ansLine     string
			// for resp: what a case-sensitive reading of the CNAME targets
			// would give
			expCS expectation
			// for mwf: the injected fault and whether the stack returned an
			// error
			fault    string
			faultErr bool
		}
		var observed []obs
		for _, q := range qs {
			// (a) verdicts straight from the composite filter.
			res, ferr := flt.FilterRequest(ctx, &filter.Request{DNS: newReq(q.wire, q.qt), Messages: msgs, RemoteIP: remote,
				Host: q.host, QType: q.qt, QClass: dns.ClassINET})
			reqV := verdictString(res)
			if ferr != nil {
				reqV = "error " + ferr.Error()
			}
			ops = append(ops, fmt.Sprintf("req %s %s %d", which, q.wire, q.qt))
			observed = append(observed, obs{kind: "req", real: reqV, q: q, exp: u.expectReq(eff, mode, q.host, q.qt)})

			// Response filtering of what upstream says for this name.
			upMsg := u.upstreamReply(newReq(q.host, q.qt))
			var ansToks []string
			for _, rr := range upMsg.Answer {
				ansToks = append(ansToks, ansTok(rr))
			}
			pres, perr := flt.FilterResponse(ctx, &filter.Response{DNS: upMsg, RemoteIP: remote})
			respV := verdictString(pres)
			if perr != nil {
				respV = "error " + perr.Error()
			}
			ops = append(ops, fmt.Sprintf("resp %s %s", which, orDash(ansToks)))
			observed = append(observed, obs{kind: "resp", real: respV, q: q, ansLine: orDash(ansToks), exp: u.expectResp(eff, upMsg.Answer, true),
				expCS: u.expectResp(eff, upMsg.Answer, false)})

			// (b) the whole middleware stack.
			u.lastUp = nil
			mwReq := newReq(q.wire, q.qt)
			if q.edns > 0 {
				mwReq.SetEdns0(1232, q.edns == 2)
				r.Count("query-with-edns")
			}
			out := u.serve(ctx, sel, mwReq, remote)
			real := msgString(out.Resp, u.lastUp)
			if out.Err != nil {
				real = "error " + out.Err.Error()
			}
			ops = append(ops, fmt.Sprintf("mw %s %d", q.wire, q.qt))
			if q.wire != q.host {
				r.Count("query-mixed-case")
			}
			observed = append(observed, obs{kind: "mw", real: real, q: q, reqV: reqV, respV: respV, upReply: u.lastUp, upName: u.upName})

			// (c) the same question in the CHAOS class: the answer must be the
			// same, plus the report of the verdict.
			if q.debug {
				u.lastUp = nil
				dbgReq := newReq(q.wire, q.qt)
				dbgReq.Question[0].Qclass = dns.ClassCHAOS
				dout := u.serve(ctx, sel, dbgReq, remote)
				dreal := msgString(dout.Resp, u.lastUp) + " | " + debugVerdict(dout.Resp)
				if dout.Err != nil {
					dreal = "error " + dout.Err.Error()
				}
				ops = append(ops, fmt.Sprintf("dbg %s %d", q.wire, q.qt))
				observed = append(observed, obs{kind: "dbg", real: dreal, q: q, reqV: reqV, respV: respV, upReply: u.lastUp, upName: u.upName})
			}
		}

		// (c2) round 5: the special domains of the initial middleware, as a
		// variant of this profile.
		if !isGroup && rng.IntN(2) == 0 {
			u.profMu.Lock()
			base := u.profs[remote]
			u.profMu.Unlock()
			sops, sreals := u.runSpecial(ctx, r, rng, sel, remote, base, ulines)
			for i := range sops {
				ops = append(ops, sops[i])
				observed = append(observed, obs{kind: "special", real: sreals[i]})
			}
		}

		if isGroup && wired {
			sops, sreals := u.runSpecialGroup(ctx, r, rng, sel, remote, u.w.special[u.w.sgs[grpIdx].grp], ulines)
			for i := range sops {
				ops = append(ops, sops[i])
				observed = append(observed, obs{kind: "special", real: sreals[i]})
			}
		}

		// (d) faults: the upstream fails, or the context is dead by the time
		// the request has been filtered.
		for _, kind := range []string{"uperr", "cancel"} {
			if rng.IntN(2) == 0 {
				continue
			}
			q := qs[rng.IntN(len(qs))]
			res, _ := flt.FilterRequest(ctx, &filter.Request{DNS: newReq(q.wire, q.qt), Messages: msgs, RemoteIP: remote,
				Host: q.host, QType: q.qt, QClass: dns.ClassINET})
			real, fErr := u.serveFault(ctx, sel, kind, newReq(q.wire, q.qt), remote)
			ops = append(ops, fmt.Sprintf("mwf %s %s %d", kind, q.wire, q.qt))
			observed = append(observed, obs{kind: "mwf", real: real, q: q, reqV: verdictString(res), fault: kind, faultErr: fErr})
		}

		lines := append(append(append([]string{}, ulines...), clines...), ops...)
		answers := m.Batch(lines)
		if pbLineAt >= 0 {
			// The model's own reading of the backend message accepts it and
			// reads the same filtering switch.
			if got, want := answers[len(ulines)+pbLineAt], "ok "+b01(sw[1]); got != want {
				r.Disagree("backend-profile-model", fmt.Sprintf("%s: model %q, expected %q", clines[pbLineAt], got, want),
					replay{Universe: ulines, Config: clines, Op: clines[pbLineAt], Model: got, Expected: want})
			}
		}
		answers = answers[len(lines)-len(ops):]
		r.ModelOps += len(lines)

		nontrivial := false
		filteringOn := sw[0] == false || (sw[1] && sw[2])
		for i, ob := range observed {
			mk := func(real, model, exp string) replay {
				return replay{Universe: ulines, Config: clines, Op: ops[i], Real: real, Model: model, Expected: exp, Lists: u.listTexts(c)}
			}
			switch ob.kind {
			case "req":
				r.Count("req-" + strings.Fields(ob.real)[0])
				r.Count("clause-" + ob.exp.clause)
				if len(ob.exp.anyOf) > 0 {
					r.Count("oracle-order-dependent-alternatives")
				}
				if ob.real != "none" {
					nontrivial = true
				}
				if f := strings.Fields(ob.real); f[0] == "modresp" && ob.q.qt != 1 && ob.q.qt != 28 && f[3] != "-" {
					r.Count("rewrite-values-of-type-" + typeNames[int(ob.q.qt)])
				}
				// Property oracle first.
				if !ob.exp.admits(ob.real) {
					want := ob.exp.want()
					r.Violate("precedence-"+ob.exp.clause, fmt.Sprintf("query %s/%d: documented order requires %s, the real filter returned %q",
						ob.q.host, ob.q.qt, want, ob.real), mk(ob.real, "", want))
				}
				mv := normVerdict(answers[i])
				if len(mv) > 1 {
					r.Count("model-order-dependent-alternatives")
				}
				if !oneOf(mv, ob.real) {
					r.Disagree("req-verdict", fmt.Sprintf("%s: real %q model %q", ops[i], ob.real, answers[i]), mk(ob.real, answers[i], ""))
				}
			case "resp":
				r.Count("resp-" + strings.Fields(ob.real)[0])
				r.Count("clause-" + ob.exp.clause)
				if strings.Contains(ob.ansLine, "65/") {
					r.Count("resp-https-answer-" + strings.Fields(ob.real)[0])
				}
				if ob.ansLine != strings.ToLower(ob.ansLine) {
					r.Count("resp-cname-target-mixed-case-" + strings.Fields(ob.real)[0])
				}
				if strings.Contains(ob.ansLine, "28/") && ob.real != "none" {
					r.Count("resp-aaaa-answer-" + strings.Fields(ob.real)[0])
				}
				if strings.HasPrefix(ob.real, "mod") {
					r.Violate("response-rewritten", fmt.Sprintf("response filtering of %s returned a rewrite: %s", ob.ansLine, ob.real), mk(ob.real, "", "no rewrite"))
				} else if !ob.exp.admits(ob.real) && ob.expCS.admits(ob.real) {
					// Exactly what taking the CNAME targets in their wire
					// spelling gives: the defect repaired by the fix commit.
					want := ob.exp.want()
					r.Violate("response-cname-target-case", fmt.Sprintf("answers %s of %s/%d: the CNAME target is spelled with upper-case letters; "+
						"documented precedence (names are case-insensitive) requires %s, the real filter returned %q",
						ob.ansLine, ob.q.host, ob.q.qt, want, ob.real), mk(ob.real, "", want))
				} else if !ob.exp.admits(ob.real) {
					want := ob.exp.want()
					r.Violate("response-"+ob.exp.clause, fmt.Sprintf("answers %s of %s/%d: documented precedence requires %s, the real filter returned %q",
						ob.ansLine, ob.q.host, ob.q.qt, want, ob.real), mk(ob.real, "", want))
				}
				if mv := normVerdict(answers[i]); !oneOf(mv, ob.real) {
					r.Disagree("resp-verdict", fmt.Sprintf("%s: real %q model %q", ops[i], ob.real, answers[i]), mk(ob.real, answers[i], ""))
				}
			case "dbg":
				r.Count("mw-debug-query")
				body, reported, _ := strings.Cut(ob.real, " | ")
				// The body of a debug answer is held to everything an ordinary
				// answer is held to.
				u.oracleMW(r, ob.q, mode, filteringOn, ob.reqV, ob.respV, body, ob.upReply, ob.upName, mk)
				// What is reported: the request's verdict if there is one,
				// otherwise the response's; nothing when filtering is off.
				wantRep := "resp normal -"
				switch {
				case !filteringOn:
				case ob.reqV != "none":
					wantRep = "req " + verdictState(ob.reqV)
				default:
					wantRep = "resp " + verdictState(ob.respV)
				}
				r.Count("mw-debug-reported-" + strings.Join(strings.Fields(wantRep)[:2], "-"))
				if reported != wantRep {
					r.Violate("debug-reported-verdict", fmt.Sprintf("debug query %s/%d: request verdict %q, response verdict %q, the answer reports %q instead of %q",
						ob.q.host, ob.q.qt, ob.reqV, ob.respV, reported, wantRep), mk(ob.real, "", wantRep))
				}
				mv := modelAlts(answers[i])
				ok := false
				for _, a := range mv {
					mb, mr, _ := strings.Cut(a, " | ")
					if normMsg1(mb) == normMsg1(body) && mr == reported {
						ok = true
					}
				}
				if !ok {
					r.Disagree("mw-debug-response", fmt.Sprintf("%s: real %q model %q", ops[i], ob.real, answers[i]), mk(ob.real, answers[i], ""))
				}
			case "special":
				if mv, rv := normMsg(answers[i]), normMsg1(ob.real); !oneOf(mv, rv) {
					r.Disagree("special-domain-response", fmt.Sprintf("%s: real %q model %q", ops[i], rv, answers[i]), mk(rv, answers[i], ""))
				}
			case "mwf":
				u.oracleFault(r, ob.q, mode, filteringOn, ob.fault, ob.reqV, ob.real, ob.faultErr, mk)
				if answers[i] != ob.real {
					r.Disagree("mw-fault", fmt.Sprintf("%s: real %q model %q", ops[i], ob.real, answers[i]), mk(ob.real, answers[i], ""))
				}
			case "mw":
				u.oracleMW(r, ob.q, mode, filteringOn, ob.reqV, ob.respV, ob.real, ob.upReply, ob.upName, mk)
				mv := normMsg(answers[i])
				rv := normMsg1(ob.real)
				if !oneOf(mv, rv) {
					r.Disagree("mw-response", fmt.Sprintf("%s: real %q model %q", ops[i], rv, answers[i]), mk(rv, answers[i], ""))
				}
			}
		}
		canon := strings.Join(lines, "\n")
		r.Case(canon, nontrivial)
		r.Traces++
		r.Sample(map[string]any{"config": clines, "ops": ops[:min(6, len(ops))], "real": []string{observed[0].real, observed[1].real, observed[2].real}}, 5)
	}
}

// oracleMW checks the response-level clauses on one exchange of the real
// stack: blocked shape, no upstream data in a blocked answer, request over
// response, filtering off.
func (u *universe) oracleMW(r *hlib.Result, q query, mode modeT, filteringOn bool, reqV, respV, real string,
	up *dns.Msg, upName string, mk func(real, model, exp string) replay) {
	upStr := "-"
	if up != nil {
		upStr = msgString(up, up)
	}
	// Upstream data in any section: marked answer records, authority records
	// other than the synthesised SOA, additional records.
	hasUp := strings.Contains(real, ":u") || !strings.HasSuffix(real, " 0 0")
	if !filteringOn {
		r.Count("mw-filtering-off")
		if real != upStr {
			r.Violate("filtering-off-but-filtered", fmt.Sprintf("filtering disabled for profile/device, query %s/%d: upstream %q, client got %q",
				q.host, q.qt, upStr, real), mk(real, "", upStr))
		}
		return
	}
	rk := strings.Fields(reqV)[0]
	pk := strings.Fields(respV)[0]
	blocked := rk == "block" || (rk == "none" && pk == "block")
	switch {
	case blocked:
		r.Count("mw-blocked-" + mode.kind)
		if rk == "block" {
			r.Count("mw-blocked-by-request")
		} else {
			r.Count("mw-blocked-by-response")
		}
		if up != nil && len(up.Extra) > 0 {
			r.Count("mw-blocked-upstream-had-additional-records")
		}
		if mode.ttl%1000 != 0 {
			r.Count("mw-blocked-subsecond-ttl")
		}
		if hasUp {
			sig := "blocked-answer-has-upstream-records"
			if !mode.wf() {
				sig = "blocked-answer-has-upstream-records-illformed-custom-ip"
			}
			r.Violate(sig, fmt.Sprintf("query %s/%d blocked (%s / %s), mode %s: the answer %q carries upstream records",
				q.host, q.qt, reqV, respV, mode.line(), real), mk(real, "", "no upstream records"))
		}
		if mode.wf() {
			want := expectBlockedShape(mode, q.host, q.qt)
			if real != want {
				r.Violate("blocked-shape-"+mode.kind, fmt.Sprintf("query %s/%d blocked, %s: want %q got %q", q.host, q.qt, mode.line(), want, real),
					mk(real, "", want))
			}
		} else {
			r.Count("mw-blocked-illformed-mode")
		}
	case rk == "allow":
		r.Count("mw-allowed")
		if pk == "block" {
			r.Count("mw-request-allow-over-response-block")
		}
		if real != upStr {
			r.Violate("request-verdict-not-preferred", fmt.Sprintf("query %s/%d allowed on request (%s), response verdict %s: upstream %q, client got %q",
				q.host, q.qt, reqV, respV, upStr, real), mk(real, "", upStr))
		}
	case rk == "modresp":
		r.Count("mw-rewritten-response")
		if hasUp {
			r.Violate("rewrite-answer-has-upstream-records", fmt.Sprintf("query %s/%d rewritten (%s): answer %q carries upstream records", q.host, q.qt, reqV, real),
				mk(real, "", "synthesised only"))
		}
		for _, a := range strings.Split(strings.Fields(real)[1], ",") {
			if a != "-" && !strings.HasSuffix(a, fmt.Sprintf(":%d:s", mode.secs())) {
				r.Violate("rewrite-ttl", fmt.Sprintf("query %s/%d rewritten: record %s does not carry the profile TTL %d", q.host, q.qt, a, mode.secs()), mk(real, "", ""))
			}
		}
	case rk == "modmsg":
		r.Count("mw-safety-block-page")
		if q.qt == 65 {
			r.Count("mw-safety-https-" + mode.kind)
		}
		want := strings.Join(strings.Fields(reqV)[2:], " ")
		if real != want {
			r.Violate("safety-answer-not-delivered", fmt.Sprintf("query %s/%d answered by a safety filter (%s) but the client got %q", q.host, q.qt, reqV, real),
				mk(real, "", want))
		}
	case rk == "modreq":
		r.Count("mw-rewritten-request")
		target := strings.Fields(reqV)[2]
		if upName != target {
			r.Violate("cname-rewrite-not-resolved", fmt.Sprintf("query %s/%d rewritten to %s but upstream was asked %q", q.host, q.qt, target, upName), mk(real, "", ""))
		}
		wantFirst := fmt.Sprintf("5:%s:%s:%d:s", q.host, target, mode.secs())
		if !strings.HasPrefix(strings.Fields(real)[1], wantFirst) {
			r.Violate("cname-rewrite-shape", fmt.Sprintf("query %s/%d rewritten to %s: answer %q does not start with %s", q.host, q.qt, target, real, wantFirst), mk(real, "", wantFirst))
		}
	default:
		r.Count("mw-passed")
		if real != upStr {
			r.Violate("unfiltered-but-changed", fmt.Sprintf("query %s/%d: no verdict (%s / %s) but upstream %q became %q", q.host, q.qt, reqV, respV, upStr, real),
				mk(real, "", upStr))
		}
	}
}

// ---------------------------------------------------------------------------
// Exhaustive small scope: every combination of what each slot says about one
// name

// gridKinds is what one slot can say about a.test: nothing, block, allow, the
// more specific $dnstype forms, the three kinds of rewrite, a hosts line.
var gridKinds = [][]rule{
	{{kind: "b", dom: "unrelated.example", sel: "*"}},
	{{kind: "b", dom: "a.test", sel: "*"}},
	{{kind: "a", dom: "a.test", sel: "*"}},
	{{kind: "a", dom: "a.test", sel: "=1"}},
	{{kind: "b", dom: "a.test", sel: "=1"}},
	{{kind: "r4", dom: "a.test", arg: "203.0.113.1"}},
	{{kind: "rc", dom: "a.test", arg: "t1.test"}},
	{{kind: "rr", dom: "a.test", arg: "5"}},
	{{kind: "h4", dom: "a.test", arg: "0.0.0.0"}},
}

var gridSpellings = []string{"a.test", "A.Test", "A.TEST", "x.a.TEST"}
var nGridCfg int

// gridAnswers is the answer section the grid's response op filters.
func gridAnswers(target string) []dns.RR {
	return []dns.RR{
		&dns.CNAME{Hdr: dns.RR_Header{Name: "q.example.", Rrtype: dns.TypeCNAME, Class: dns.ClassINET, Ttl: 7777}, Target: dns.Fqdn(target)},
		&dns.A{Hdr: dns.RR_Header{Name: dns.Fqdn(target), Rrtype: dns.TypeA, Class: dns.ClassINET, Ttl: 7777}, A: net.ParseIP("192.0.2.1").To4()},
	}
}

// runGrid enumerates custom kind x first shared list x second shared list x
// service list x {dangerous domains on/off} x {safe search on/off}; with
// full=false the second shared list is left out.  Every configuration is asked
// about a.test/A, x.a.test/AAAA and a.test/TXT; the real composite filter, the
// model and the clause oracle must agree.
func runGrid(r *hlib.Result, m *hlib.Model, rng *rand.Rand, full bool) {
	n := len(gridKinds)
	u := &universe{up: map[string]upAns{}, profs: map[netip.Addr]*profEntry{}}
	for k := 0; k < n; k++ {
		u.lists = append(u.lists, gridKinds[k])
		u.svcs = append(u.svcs, gridKinds[k])
	}
	u.gss = []rule{{kind: "rc", dom: "a.test", arg: "t2.test", alt: true}}
	u.sb = hashSet{hosts: []string{"a.test"}, repl: "sb-repl.test"}
	u.ad, u.nr = hashSet{repl: "ad-repl.test"}, hashSet{repl: "t1.test"}
	u.grp = cfgT{parentalOn: true, rlOn: true, sbOn: true, now: defaultNow}
	u.gmode = modeT{kind: "null", ttl: 10000}
	clockNow = defaultNow
	u.build(rng)
	defer u.close()
	ulines := u.modelLines()
	ctx := context.Background()
	mode := modeT{kind: "nx", ttl: 30999}
	msgs, err := dnsmsg.NewConstructor(&dnsmsg.ConstructorConfig{Cloner: cloner, BlockingMode: mode.build(),
		StructuredErrors: agdtest.NewSDEConfig(true), FilteredResponseTTL: mode.dur(), EDEEnabled: true})
	hlib.Must(err)
	remote := netip.MustParseAddr("10.8.0.1")
	qs := []query{{host: "a.test", qt: 1, wire: "a.test"}, {host: "x.a.test", qt: 28, wire: "x.a.test"}, {host: "a.test", qt: 16, wire: "a.test"}}

	type pending struct {
		c        cfgT
		clines   []string
		ops      []string
		real     []string
		spelling string
	}
	var batch []pending
	flush := func() {
		if len(batch) == 0 {
			return
		}
		lines := append([]string{}, ulines...)
		for _, p := range batch {
			lines = append(lines, p.clines...)
			lines = append(lines, p.ops...)
		}
		m.ResetLog()
		answers := m.Batch(lines)
		r.ModelOps += len(lines)
		at := len(ulines)
		for _, p := range batch {
			at += len(p.clines)
			nontrivial := false
			for i, op := range p.ops {
				mk := func(real, model, exp string) replay {
					return replay{Universe: ulines, Config: p.clines, Op: op, Real: real, Model: model, Expected: exp, Lists: u.listTexts(p.c)}
				}
				if i >= len(qs) {
					// The response op: a CNAME to a.test in some spelling,
					// then an address.
					exp := u.expectResp(p.c.effective(u), gridAnswers(p.spelling), true)
					r.Count("grid-clause-" + exp.clause)
					if p.real[i] != "none" {
						nontrivial = true
					}
					if !exp.admits(p.real[i]) {
						sig := "response-" + exp.clause
						if u.expectResp(p.c.effective(u), gridAnswers(p.spelling), false).admits(p.real[i]) {
							sig = "response-cname-target-case"
						}
						r.Violate(sig, fmt.Sprintf("grid, %s: documented precedence requires %s, the real filter returned %q", op, exp.want(), p.real[i]),
							mk(p.real[i], "", exp.want()))
					}
					if mv := normVerdict(answers[at+i]); !oneOf(mv, p.real[i]) {
						r.Disagree("resp-verdict", fmt.Sprintf("grid %s: real %q model %q", op, p.real[i], answers[at+i]), mk(p.real[i], answers[at+i], ""))
					}
					continue
				}
				q := qs[i]
				exp := u.expectReq(p.c.effective(u), mode, q.host, q.qt)
				r.Count("grid-clause-" + exp.clause)
				if p.real[i] != "none" {
					nontrivial = true
				}
				if !exp.admits(p.real[i]) {
					want := exp.want()
					r.Violate("precedence-"+exp.clause, fmt.Sprintf("grid, query %s/%d: documented order requires %s, the real filter returned %q",
						q.host, q.qt, want, p.real[i]), mk(p.real[i], "", want))
				}
				if mv := normVerdict(answers[at+i]); !oneOf(mv, p.real[i]) {
					r.Disagree("req-verdict", fmt.Sprintf("grid %s: real %q model %q", op, p.real[i], answers[at+i]), mk(p.real[i], answers[at+i], ""))
				}
			}
			at += len(p.ops)
			r.Case(strings.Join(append(append([]string{"grid"}, p.clines...), p.ops...), "\n"), nontrivial)
			r.Traces++
		}
		batch = batch[:0]
	}

	k2s := []int{-1}
	if full {
		for k := 0; k < n; k++ {
			k2s = append(k2s, k)
		}
	}
	for kc := -1; kc < n; kc++ {
		for k1 := 0; k1 < n; k1++ {
			for _, k2 := range k2s {
				if k2 == k1 {
					continue
				}
				for k3 := 0; k3 < n; k3++ {
					for flags := 0; flags < 4; flags++ {
						c := cfgT{isClient: true, parentalOn: true, rlOn: true, sbOn: true, now: defaultNow, lists: []int{k1}, svcs: []int{k3},
							sb: flags&1 != 0, gss: flags&2 != 0}
						if k2 >= 0 {
							c.lists = append(c.lists, k2)
						}
						if kc >= 0 {
							c.custom, c.hasCust = gridKinds[kc], true
						}
						flt := u.strg.ForConfig(ctx, u.clientConfig(c, fmt.Sprintf("grid%d", kc)))
						p := pending{c: c, clines: []string{strings.TrimSpace("list c0 " + toks(c.custom)), c.line("p", "c0"), mode.line()}}
						for _, q := range qs {
							res, ferr := flt.FilterRequest(ctx, &filter.Request{DNS: newReq(q.wire, q.qt), Messages: msgs, RemoteIP: remote,
								Host: q.host, QType: q.qt, QClass: dns.ClassINET})
							v := verdictString(res)
							if ferr != nil {
								v = "error " + ferr.Error()
							}
							p.ops = append(p.ops, fmt.Sprintf("req p %s %d", q.wire, q.qt))
							p.real = append(p.real, v)
						}
						// Response filtering of "CNAME a.test, A 192.0.2.1" with
						// the target spelled in lower, mixed or upper case.
						p.spelling = gridSpellings[nGridCfg%len(gridSpellings)]
						nGridCfg++
						gans := gridAnswers(p.spelling)
						pres, perr := flt.FilterResponse(ctx, &filter.Response{DNS: &dns.Msg{Answer: gans}, RemoteIP: remote})
						pv := verdictString(pres)
						if perr != nil {
							pv = "error " + perr.Error()
						}
						p.ops = append(p.ops, "resp p "+ansTok(gans[0])+","+ansTok(gans[1]))
						p.real = append(p.real, pv)
						batch = append(batch, p)
						if len(batch) >= 400 {
							flush()
						}
					}
				}
			}
		}
	}
	flush()
}

// runSchedGrid compares the real ConfigSchedule.Contains with the model and
// with the calendar reading, exhaustively over zones x days (ordinary and
// transition days) x intervals x wall-clock readings on and next to every
// boundary and every half hour (every five minutes in the thorough tier).
func runSchedGrid(r *hlib.Result, m *hlib.Model, thoroughTier bool) {
	ivs := [][2]int{{700, 800}, {0, 720}, {720, 1440}, {0, 1440}, {0, 0}, {60, 180}, {120, 121}, {1439, 1440}, {0, 1}, {90, 150}}
	step := 30
	if thoroughTier {
		step = 5
	}
	type probe struct {
		sc   *schedT
		now  time.Time
		real bool
	}
	for _, z := range zonePool {
		for _, day := range dayPool {
			var lines []string
			var probes []probe
			midnight := time.Date(day[0], time.Month(day[1]), day[2], 0, 0, 0, 0, z.loc)
			wd := int(midnight.Weekday())
			lines = append(lines, "reset", zoneLine(z, midnight.Add(12*time.Hour)))
			for _, iv := range ivs {
				iv := iv
				sc := &schedT{zone: z}
				sc.week[wd] = &iv
				// The day before has an interval too, so that a wrong weekday
				// or a wrong day boundary shows.
				sc.week[(wd+6)%7] = &[2]int{600, 1440}
				real := sc.build()
				var mins []int
				for mm := -60; mm <= 1500; mm += step {
					mins = append(mins, mm)
				}
				for _, mm := range mins {
					for _, ds := range []int{-1, 0, 1} {
						now := time.Date(day[0], time.Month(day[1]), day[2], 0, mm, ds, 0, z.loc).UTC()
						probes = append(probes, probe{sc, now, real.Contains(now)})
						lines = append(lines, fmt.Sprintf("sched %s %d", sc.token(), now.Unix()))
					}
				}
				for _, b := range []int{iv[0], iv[1]} {
					for _, ds := range []int{-1, 0, 1} {
						now := time.Date(day[0], time.Month(day[1]), day[2], 0, b, ds, 0, z.loc).UTC()
						probes = append(probes, probe{sc, now, real.Contains(now)})
						lines = append(lines, fmt.Sprintf("sched %s %d", sc.token(), now.Unix()))
					}
				}
			}
			answers := m.Batch(lines)
			r.ModelOps += len(lines)
			answers = answers[2:]
			inPause := 0
			for i, pr := range probes {
				cal := pr.sc.calendarContains(pr.now)
				mk := replay{Universe: lines[:2], Op: lines[2+i], Real: b01(pr.real), Model: answers[i], Expected: b01(cal)}
				if pr.real {
					inPause++
				}
				switch {
				case pr.sc.transitionDay(pr.now) || pr.sc.transitionDay(pr.now.Add(-24*time.Hour)) || pr.sc.transitionDay(pr.now.Add(24*time.Hour)):
					r.Count("sched-grid-transition-day")
					if pr.real != cal {
						r.Count("sched-grid-transition-day-calendar-differs")
					}
				case pr.real != cal:
					r.Violate("pause-schedule-not-calendar", fmt.Sprintf("schedule %s at %s (%s in the zone): a wall clock says in-pause=%v, Contains says %v",
						pr.sc.token(), pr.now.Format(time.RFC3339), pr.now.In(pr.sc.zone.loc).Format("Mon 15:04:05"), cal, pr.real), mk)
				default:
					r.Count("sched-grid-ordinary-day")
				}
				if answers[i] != b01(pr.real) {
					r.Disagree("sched-contains", fmt.Sprintf("%s: real %v model %s", lines[2+i], pr.real, answers[i]), mk)
				}
			}
			r.Case(fmt.Sprintf("sched-grid %s %v", z.name, day), inPause > 0)
			r.Traces++
		}
	}
}

func main() {
	o := hlib.ParseFlags()
	r := hlib.NewResult("C02", o)
	r.Rule = "universe = generated rule lists (block/allow/$dnstype/$dnsrewrite IP,CNAME,rcode/hosts + noise lines) served over HTTP to the real " +
		"filterstorage, hash-prefix and safe-search filters, scripted upstream; per universe several profiles (random custom rules, ordered list " +
		"subsets, services, switches, blocking mode) and the group; per profile ~20 (host,qtype) queries, each asked of the real composite filter " +
		"(request and response) and of the full dnssvc handler stack; the same lines go to the Lean model; an independent Go oracle applies the " +
		"documented clauses; plus an exhaustive grid: every combination of nine rule kinds (nothing, block, allow, $dnstype allow/block, rewrite to IP/CNAME/rcode, hosts line) in the custom list x a shared list (x a second shared list in the thorough tier) x a service list x dangerous-domains on/off x safe search on/off; and a schedule grid: the real ConfigSchedule.Contains against the model and a wall-clock reading for 8 zones x 12 days (incl. zone-transition days) x 10 intervals x readings on/next to every boundary and every half hour. Non-trivial = at least one query got a verdict; distinct = distinct (universe, config, ops) texts"
	m := hlib.StartModel(o.Model, "C02")
	defer m.Close()

	rng := o.Rand("universes")
	nU, nCfg, nQ := 220, 8, 18
	if o.Thorough() {
		nU, nCfg, nQ = 4500, 10, 24
	}
	for i := 0; i < nU; i++ {
		runUniverse(o, r, m, rng, nCfg, nQ, false)
	}
	// Universes built by the production builder (environment + configuration
	// file) and served by several server groups with their own filtering
	// groups over several protocols.
	wrng := o.Rand("wired")
	nW := 60
	if o.Thorough() {
		nW = 300
	}
	for i := 0; i < nW; i++ {
		runUniverse(o, r, m, wrng, 5, nQ, true)
	}
	runBoundaries(r, o.Rand("boundaries"))
	runBackendGrid(r, m)
	runGrid(r, m, o.Rand("grid"), o.Thorough())
	runSchedGrid(r, m, o.Thorough())
	r.Finish()
}
