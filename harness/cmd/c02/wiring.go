package main

// Production wiring, faults and boundaries (round 4).
//
// A "wired" universe is not assembled by hand: the process environment
// (URLs, *_ENABLED switches, cache path) and a configuration file (filters,
// safe_browsing, adult_blocking, filtering_groups) are written down from the
// universe's intent and handed to the real builder of internal/cmd
// (VerifC02Build: parseEnvironment, initHashPrefixFilters, initFilterStorage,
// initFilteringGroups, initMsgConstructor).  What comes out is given to
// dnssvc.NewHandlers together with several server groups that name different
// filtering groups and have servers of several protocols.  The oracle and the
// model only see the intent.

import (
	"context"
	"fmt"
	"math/rand/v2"
	"net"
	"net/netip"
	"net/url"
	"os"
	"strconv"
	"strings"
	"sync/atomic"
	"time"

	"github.com/AdguardTeam/AdGuardDNS/internal/agd"
	"github.com/AdguardTeam/AdGuardDNS/internal/agdcache"
	"github.com/AdguardTeam/AdGuardDNS/internal/agdtest"
	"github.com/AdguardTeam/AdGuardDNS/internal/cmd"
	"github.com/AdguardTeam/AdGuardDNS/internal/dnsmsg"
	"github.com/AdguardTeam/AdGuardDNS/internal/dnsserver"
	"github.com/AdguardTeam/AdGuardDNS/internal/dnssvc"
	"github.com/AdguardTeam/AdGuardDNS/internal/filter"
	"github.com/AdguardTeam/AdGuardDNS/internal/geoip"
	"github.com/AdguardTeam/AdGuardDNS/internal/querylog"
	"github.com/AdguardTeam/AdGuardDNS/verifh/hlib"
	"github.com/AdguardTeam/AdGuardDNS/verifh/hlib/stack"
	"github.com/AdguardTeam/golibs/logutil/slogutil"
	"github.com/AdguardTeam/golibs/netutil"
	"github.com/miekg/dns"
	"github.com/prometheus/client_golang/prometheus"
)

type srvGrpT struct {
	name string
	// grp is the index of the filtering group this server group names.
	grp  int
	srvs []*agd.Server
	sg   *agd.ServerGroup
}

type srvSel struct {
	sg  *agd.ServerGroup
	srv *agd.Server
}

// Indexes into wiringT.env.
const (
	envAdult = iota
	envSB
	envNRD
	envSvc
	envGSS
	envYSS
)

type wiringT struct {
	env      [6]bool
	groups   []cfgT
	// special are the special-domain switches of the filtering groups in the
	// configuration file: private relay, firefox canary, chrome prefetch.
	special  map[int][3]bool
	sgs      []srvGrpT
	ede, sde bool
	yaml     string
	built    *cmd.VerifC02Wiring
	handlers dnssvc.Handlers
}

func fgName(i int) string { return "fg" + strconv.Itoa(i) }

var wiredSeq atomic.Int64

// genWiring decides what the environment and the configuration file say.
func genWiring(rng *rand.Rand, u *universe) *wiringT {
	w := &wiringT{}
	for i := range w.env {
		w.env[i] = rng.IntN(3) != 0
	}
	// Every hash-prefix filter holds something, so that its presence shows.
	for i, h := range []*hashSet{&u.sb, &u.ad, &u.nr} {
		if len(h.hosts) == 0 {
			h.hosts = []string{domPool[(i*2+rng.IntN(2))%7]}
		}
	}
	// The newly-registered-domains filter has no section of its own: it is
	// built with safe_browsing.block_host.
	u.nr.repl = u.sb.repl
	// The server's constructor: always null IP, filters.response_ttl.
	u.gmode = modeT{kind: "null", ttl: pick(rng, []int{10000, 1500, 999, 59999, 3600000, 1000, 2999})}
	w.ede = rng.IntN(3) != 0
	w.sde = w.ede && rng.IntN(2) == 0
	nG := 2 + rng.IntN(2)
	for i := 0; i < nG; i++ {
		c := genCfg(rng, u, false)
		c.pause, c.now, c.svcs = nil, defaultNow, nil
		var known []int
		for _, l := range c.lists {
			if l != unknownID {
				known = append(known, l)
			}
		}
		c.lists = known
		w.groups = append(w.groups, c)
	}
	u.grp = w.groups[0]
	nSG := nG + rng.IntN(2)
	perm := rng.Perm(nG)
	protos := []agd.Protocol{agd.ProtoDNS, agd.ProtoDoT, agd.ProtoDoQ}
	for j := 0; j < nSG; j++ {
		sg := srvGrpT{name: "sg" + strconv.Itoa(j)}
		if j < nG {
			sg.grp = perm[j]
		} else {
			sg.grp = rng.IntN(nG)
		}
		for k := 1 + rng.IntN(2); k > 0; k-- {
			p := pick(rng, protos)
			sg.srvs = append(sg.srvs, stack.NewServer(fmt.Sprintf("srv_%d_%d_%s", j, k, strings.ToLower(p.String())), p, true))
		}
		w.sgs = append(w.sgs, sg)
	}
	return w
}

func yb(b bool) string {
	if b {
		return "true"
	}
	return "false"
}

// confYAML writes the configuration file down from the intent, key by key as
// config.dist.yaml documents them.
func (w *wiringT) confYAML(u *universe) string {
	var b strings.Builder
	if w.special == nil {
		// Drawn from the universe's name so that the file is a function of the
		// universe; every combination occurs over the groups of a run.
		w.special = map[int][3]bool{}
		for i := range w.groups {
			k := (len(u.sb.repl) + 3*i + len(w.groups)) % 8
			w.special[i] = [3]bool{k&1 != 0, k&2 != 0, k&4 != 0}
		}
	}
	fmt.Fprintf(&b, "filters:\n  response_ttl: %dms\n  custom_filter_cache_size: 100\n  safe_search_cache_size: 100\n", u.gmode.ttl)
	b.WriteString("  refresh_interval: 1h\n  refresh_timeout: 5s\n  index_refresh_timeout: 5s\n  rule_list_refresh_timeout: 5s\n  max_size: 640KB\n")
	fmt.Fprintf(&b, "  ede_enabled: %s\n  sde_enabled: %s\n  rule_list_cache:\n    enabled: true\n    size: 100\n", yb(w.ede), yb(w.sde))
	for _, s := range []struct{ name, host string }{{"safe_browsing", u.sb.repl}, {"adult_blocking", u.ad.repl}} {
		fmt.Fprintf(&b, "%s:\n  block_host: '%s'\n  cache_size: 100\n  cache_ttl: 1h\n  refresh_interval: 1h\n  refresh_timeout: 5s\n", s.name, s.host)
	}
	b.WriteString("filtering_groups:\n")
	for i, c := range w.groups {
		var ids []string
		for _, l := range c.lists {
			ids = append(ids, "list_"+strconv.Itoa(l))
		}
		fmt.Fprintf(&b, "  - id: %s\n", fgName(i))
		fmt.Fprintf(&b, "    parental:\n      enabled: %s\n      block_adult: %s\n      general_safe_search: %s\n      youtube_safe_search: %s\n",
			yb(c.parentalOn), yb(c.ad), yb(c.gss), yb(c.yss))
		fmt.Fprintf(&b, "    rule_lists:\n      enabled: %s\n      ids: [%s]\n", yb(c.rlOn), strings.Join(ids, ", "))
		fmt.Fprintf(&b, "    safe_browsing:\n      enabled: %s\n      block_dangerous_domains: %s\n      block_newly_registered_domains: %s\n",
			yb(c.sbOn), yb(c.sb), yb(c.nr))
		sp := w.special[i]
		fmt.Fprintf(&b, "    block_private_relay: %s\n    block_firefox_canary: %s\n    block_chrome_prefetch: %s\n", yb(sp[0]), yb(sp[1]), yb(sp[2]))
	}
	return b.String()
}

// modelLines tell the model what the environment and the file say.
func (w *wiringT) modelLines(u *universe) []string {
	ls := []string{
		fmt.Sprintf("env %s %s %s %s %s %s", b01(w.env[envAdult]), b01(w.env[envSB]), b01(w.env[envNRD]), b01(w.env[envSvc]), b01(w.env[envGSS]), b01(w.env[envYSS])),
		fmt.Sprintf("bhost %s %s", u.sb.repl, u.ad.repl),
		fmt.Sprintf("rttl %d", u.gmode.ttl),
	}
	for i, c := range w.groups {
		ls = append(ls, fmt.Sprintf("ygrp %s %s %s %s %s %s %s %s %s %s", fgName(i), b01(c.rlOn), idxCSV("l", c.lists),
			b01(c.parentalOn), b01(c.ad), b01(c.gss), b01(c.yss), b01(c.sbOn), b01(c.sb), b01(c.nr)))
	}
	for _, sg := range w.sgs {
		ls = append(ls, fmt.Sprintf("sgrp %s %s", sg.name, fgName(sg.grp)))
	}
	return ls
}

// mask is the documented meaning of the environment switches for the oracle: a
// filter that is switched off for the whole process is in force for nobody.
func (w *wiringT) mask(e cfgT) cfgT {
	e.ad = e.ad && w.env[envAdult]
	e.sb = e.sb && w.env[envSB]
	e.nr = e.nr && w.env[envNRD]
	e.gss = e.gss && w.env[envGSS]
	e.yss = e.yss && w.env[envYSS]
	if !w.env[envSvc] {
		e.svcs = nil
	}
	return e
}

// probeQueries asks for the names the hash-prefix filters and the safe-search
// lists hold, so that a filter that is present or missing shows.
func (w *wiringT) probeQueries(u *universe, have []query) (qs []query) {
	seen := map[string]bool{}
	for _, q := range have {
		seen[upKey(q.host, q.qt)] = true
	}
	add := func(h string) {
		if !seen[upKey(h, 1)] && len(qs) < 8 {
			seen[upKey(h, 1)] = true
			qs = append(qs, query{host: h, wire: h, qt: 1})
		}
	}
	for _, hs := range [][]string{u.sb.hosts, u.ad.hosts, u.nr.hosts} {
		for _, h := range hs {
			add(h)
		}
	}
	for _, l := range [][]rule{u.gss, u.yss} {
		for _, rl := range l {
			add(rl.dom)
		}
	}
	return qs
}

func (w *wiringT) pickServer(rng *rand.Rand, ci int, isGroup bool) srvSel {
	sg := w.sgs[rng.IntN(len(w.sgs))]
	if isGroup {
		sg = w.sgs[ci]
	}
	return srvSel{sg: sg.sg, srv: pick(rng, sg.srvs)}
}

// buildWired sets the environment, runs the real builder and creates the
// handlers for all server groups.
func (u *universe) buildWired(at func(string) *url.URL) {
	w := u.w
	set := func(k, v string) { hlib.Must(os.Setenv(k, v)) }
	on := func(b bool) string {
		if b {
			return "1"
		}
		return "0"
	}
	set("FILTER_INDEX_URL", at("/index").String())
	set("BLOCKED_SERVICE_INDEX_URL", at("/services").String())
	set("GENERAL_SAFE_SEARCH_URL", at("/gss").String())
	set("YOUTUBE_SAFE_SEARCH_URL", at("/yss").String())
	set("SAFE_BROWSING_URL", at("/sb").String())
	set("ADULT_BLOCKING_URL", at("/ad").String())
	set("NEW_REG_DOMAINS_URL", at("/nr").String())
	set("FILTER_CACHE_PATH", u.dir)
	set("ADULT_BLOCKING_ENABLED", on(w.env[envAdult]))
	set("SAFE_BROWSING_ENABLED", on(w.env[envSB]))
	set("NEW_REG_DOMAINS_ENABLED", on(w.env[envNRD]))
	set("BLOCKED_SERVICE_ENABLED", on(w.env[envSvc]))
	set("GENERAL_SAFE_SEARCH_ENABLED", on(w.env[envGSS]))
	set("YOUTUBE_SAFE_SEARCH_ENABLED", on(w.env[envYSS]))
	w.yaml = w.confYAML(u)
	ec := &errColl{}
	ns := fmt.Sprintf("verifw%d", wiredSeq.Add(1))
	var err error
	w.built, err = cmd.VerifC02Build(context.Background(), []byte(w.yaml), slogutil.NewDiscardLogger(), ec, ns)
	if err != nil {
		panic(fmt.Errorf("builder rejected the generated configuration: %w\n%s", err, w.yaml))
	}
	if len(ec.errs) > 0 {
		panic(fmt.Errorf("builder reported: %v", ec.errs))
	}
	u.strg = w.built.Storage

	pdb := stack.NotFoundProfileDB()
	pdb.OnProfileByLinkedIP = func(_ context.Context, ip netip.Addr) (*agd.Profile, *agd.Device, error) {
		u.profMu.Lock()
		defer u.profMu.Unlock()
		if e, ok := u.profs[ip]; ok {
			return e.p, e.d, nil
		}
		return nil, nil, fmt.Errorf("verif: %w", errNotFound)
	}
	pdb.OnProfileByDeviceID = func(_ context.Context, id agd.DeviceID) (*agd.Profile, *agd.Device, error) {
		u.profMu.Lock()
		defer u.profMu.Unlock()
		// The device of the requester being served (device IDs are reused
		// when a profile is updated in place).
		if e := u.curEntry; e != nil && e.d.ID == id {
			return e.p, e.d, nil
		}
		return nil, nil, fmt.Errorf("verif: %w", errNotFound)
	}
	var sgs []*agd.ServerGroup
	for i := range w.sgs {
		sg := &w.sgs[i]
		sg.sg = &agd.ServerGroup{DDR: &agd.DDR{}, DeviceDomains: []string{stack.DeviceDomain}, Name: agd.ServerGroupName(sg.name),
			FilteringGroup: agd.FilteringGroupID(fgName(sg.grp)), Servers: sg.srvs, ProfilesEnabled: true}
		sgs = append(sgs, sg.sg)
	}
	geo := agdtest.NewGeoIP()
	loc := &geoip.Location{Country: geoip.CountryAD, Continent: geoip.ContinentEU, ASN: 42}
	geo.OnData = func(string, netip.Addr) (*geoip.Location, error) { return loc, nil }
	geo.OnSubnetByLocation = func(_ *geoip.Location, fam netutil.AddrFamily) (netip.Prefix, error) {
		if fam == netutil.AddrFamilyIPv6 {
			return netip.MustParsePrefix("2001:db8::/48"), nil
		}
		return netip.MustParsePrefix("198.51.100.0/24"), nil
	}
	hc := &dnssvc.HandlersConfig{
		BaseLogger:       slogutil.NewDiscardLogger(),
		Cache:            &dnssvc.CacheConfig{Type: dnssvc.CacheTypeNone},
		StructuredErrors: w.built.SDE,
		Cloner:           w.built.Cloner,
		HumanIDParser:    agd.NewHumanIDParser(),
		Messages:         w.built.Messages,
		AccessManager: &agdtest.AccessManager{
			OnIsBlockedHost: func(string, uint16) bool { return false },
			OnIsBlockedIP:   func(netip.Addr) bool { return false },
		},
		BillStat: &agdtest.BillStatRecorder{OnRecord: func(context.Context, agd.DeviceID, geoip.Country, geoip.ASN, time.Time, agd.Protocol) {}},
		CacheManager: agdcache.EmptyManager{},
		DNSCheck: &agdtest.DNSCheck{OnCheck: func(context.Context, *dns.Msg, *agd.RequestInfo) (*dns.Msg, error) {
			return nil, nil
		}},
		DNSDB:         &agdtest.DNSDB{OnRecord: func(context.Context, *dns.Msg, *agd.RequestInfo) {}},
		ErrColl:       &agdtest.ErrorCollector{OnCollect: func(context.Context, error) {}},
		FilterStorage: w.built.Storage,
		GeoIP:         geo,
		Handler:       u.upstreamHandler(),
		HashMatcher:   w.built.HashMatcher,
		ProfileDB:     pdb,
		PrometheusRegisterer: prometheus.NewRegistry(),
		QueryLog:      &agdtest.QueryLog{OnWrite: func(context.Context, *querylog.Entry) error { return nil }},
		RateLimit: &agdtest.RateLimit{
			OnIsRateLimited:  func(context.Context, *dns.Msg, netip.Addr) (bool, bool, error) { return false, false, nil },
			OnCountResponses: func(context.Context, *dns.Msg, netip.Addr) {},
		},
		RuleStat:         &agdtest.RuleStat{OnCollect: func(context.Context, filter.ID, filter.RuleText) {}},
		MetricsNamespace: ns,
		FilteringGroups:  w.built.Groups,
		ServerGroups:     sgs,
		EDEEnabled:       w.built.EDEEnabled,
	}
	w.handlers, err = dnssvc.NewHandlers(context.Background(), hc)
	hlib.Must(err)
}

func (w *wiringT) serve(ctx context.Context, sel srvSel, msg *dns.Msg, remote netip.Addr, devID agd.DeviceID) (o stack.Outcome) {
	h, ok := w.handlers[dnssvc.HandlerKey{Server: sel.srv, ServerGroup: sel.sg}]
	if !ok {
		panic("no handler for server")
	}
	local := netip.MustParseAddrPort("192.0.2.2:53")
	ctx = dnsserver.ContextWithServerInfo(ctx, &dnsserver.ServerInfo{Name: string(sel.srv.Name), Addr: local.String(), Proto: sel.srv.Protocol})
	sri := &dnsserver.RequestInfo{StartTime: time.Now()}
	if devID != "" && sel.srv.Protocol != agd.ProtoDNS {
		// Encrypted protocols recognise a device by the TLS server name; plain
		// DNS by the linked address.
		sri.TLSServerName = string(devID) + "." + stack.DeviceDomain
	}
	ctx = dnsserver.ContextWithRequestInfo(ctx, sri)
	rap := netip.AddrPortFrom(remote, 5353)
	var laddr, raddr net.Addr
	if sel.srv.Protocol == agd.ProtoDNS {
		laddr, raddr = net.UDPAddrFromAddrPort(local), net.UDPAddrFromAddrPort(rap)
	} else {
		laddr, raddr = net.TCPAddrFromAddrPort(local), net.TCPAddrFromAddrPort(rap)
	}
	rw := dnsserver.NewNonWriterResponseWriter(laddr, raddr)
	o.Err = h.ServeDNS(ctx, rw, msg)
	o.Resp = rw.Msg()
	return o
}

// ---------------------------------------------------------------------------
// Faults

// serveFault serves one request while the upstream fails ("uperr") or with a
// context that is already dead ("cancel").  real is "nothing" when no message
// was written, "panic …" when the stack panicked.
func (u *universe) serveFault(ctx context.Context, sel srvSel, kind string, msg *dns.Msg, remote netip.Addr) (real string, gotErr bool) {
	defer func() {
		u.upFault = false
		if p := recover(); p != nil {
			real = fmt.Sprintf("panic %v", p)
		}
	}()
	u.lastUp = nil
	if kind == "uperr" {
		u.upFault = true
	} else {
		c, cancel := context.WithCancel(ctx)
		cancel()
		ctx = c
	}
	out := u.serve(ctx, sel, msg, remote)
	if out.Resp == nil {
		return "nothing", out.Err != nil
	}
	return msgString(out.Resp, u.lastUp), out.Err != nil
}

// oracleFault: whatever goes wrong on the way, the client never gets an answer
// that looks like a normal one without being the filtered one.  With a failed
// upstream there is no upstream data, so an answer that is written can only be
// the blocked answer in the requester's mode (for a blocked query), a
// synthesised rewrite, or an answer without records; and if nothing is written
// the stack must return an error, so that the server answers SERVFAIL itself.
func (u *universe) oracleFault(r *hlib.Result, q query, mode modeT, filteringOn bool, kind, reqV, real string, gotErr bool,
	mk func(real, model, exp string) replay) {
	r.Count("fault-" + kind)
	rk := strings.Fields(reqV)[0]
	if !filteringOn {
		rk = "none"
	}
	switch {
	case strings.HasPrefix(real, "panic"):
		r.Violate("fault-panic", fmt.Sprintf("query %s/%d with fault %s: %s", q.host, q.qt, kind, real), mk(real, "", "no panic"))
	case real == "nothing":
		r.Count("fault-" + kind + "-nothing-written")
		if !gotErr {
			r.Violate("fault-silent", fmt.Sprintf("query %s/%d with fault %s: nothing written and no error returned, the client is left without an answer",
				q.host, q.qt, kind), mk(real, "", "an error"))
		}
		if rk == "block" {
			// Observation, not a violation: the blocked answer needs nothing
			// from the upstream, yet it is not given when the upstream fails.
			r.Count("fault-" + kind + "-blocked-query-unanswered")
		}
	default:
		r.Count("fault-" + kind + "-answer-written")
		// (A request served in spite of a dead context is not this
		// property's business: it is held to the blocked shape and reported
		// as a disagreement with the model only.)
		if kind == "uperr" && (strings.Contains(real, ":u") || !strings.HasSuffix(real, " 0 0")) {
			r.Violate("fault-answer-has-upstream-records", fmt.Sprintf("query %s/%d with fault %s: %q", q.host, q.qt, kind, real), mk(real, "", ""))
		}
		if rk == "block" && mode.wf() {
			if want := expectBlockedShape(mode, q.host, q.qt); real != want {
				r.Violate("blocked-shape-"+mode.kind, fmt.Sprintf("query %s/%d blocked, fault %s, %s: want %q got %q", q.host, q.qt, kind, mode.line(), want, real),
					mk(real, "", want))
			}
		}
	}
}

// ---------------------------------------------------------------------------
// Boundaries of the conversions on the path (real code only)

// runBoundaries runs the real message constructor at the numeric and textual
// edges: TTL durations next to whole seconds up to the largest DNS TTL, names
// of maximum length, names with bytes outside ASCII as they come off the wire.
func runBoundaries(r *hlib.Result, rng *rand.Rand) {
	const sec = int64(time.Second)
	// (1) TTL = whole seconds of the duration.  Exact below 2^24 s; from there
	// on Duration.Seconds() is a float64 sum that can round n s + 999999999 ns
	// up to n+1 (observation); 2^32 s and more have no DNS TTL.
	var ds []int64
	for _, n := range []int64{0, 1, 2, 59, 3600, 86400, 1<<16 - 1, 1 << 16, 1<<24 - 1, 1 << 24, 1<<24 + 1, 1 << 25, 1<<31 - 1, 1 << 31, 1<<32 - 1} {
		for _, frac := range []int64{0, 1, 499999999, 500000000, 999999999} {
			ds = append(ds, n*sec+frac)
		}
		if n > 0 {
			ds = append(ds, n*sec-1)
		}
	}
	for i := 0; i < 200; i++ {
		ds = append(ds, rng.Int64N(1<<24*sec))
	}
	req := newReq("a.test", dns.TypeA)
	for _, d := range ds {
		c, err := dnsmsg.NewConstructor(&dnsmsg.ConstructorConfig{Cloner: cloner, BlockingMode: &dnsmsg.BlockingModeNullIP{},
			StructuredErrors: agdtest.NewSDEConfig(true), FilteredResponseTTL: time.Duration(d), EDEEnabled: true})
		hlib.Must(err)
		resp, err := c.NewBlockedResp(req)
		hlib.Must(err)
		got := int64(resp.Answer[0].Header().Ttl)
		want := d / sec
		r.Evaluations++
		switch {
		case got == want:
			r.Count("boundary-ttl-exact")
		case d >= 1<<24*sec && got == want+1:
			r.Count("boundary-ttl-float-rounds-up-beyond-2^24s")
		case d >= (1<<32-1)*sec && got == 0:
			r.Count("boundary-ttl-float-rounds-up-to-2^32s-wraps")
		default:
			r.Violate("blocked-ttl-not-whole-seconds", fmt.Sprintf("FilteredResponseTTL %d ns: the blocked answer carries TTL %d, the whole seconds are %d", d, got, want),
				map[string]any{"duration_ns": d, "ttl": got})
		}
	}
	// (2) Off the wire a name is ASCII: miekg/dns escapes every byte outside
	// the printable range, so ASCII case folding is all NormalizeDomain ever
	// has to do.
	for _, raw := range [][]byte{{0xc3, 0x84}, {0xff}, {'A', 0x80, 'b'}, {0x00, 'x'}, {'a', '.', 'b'}, {'\\'}, {0xe4, 0xf6}} {
		wire := append([]byte{byte(len(raw))}, raw...)
		wire = append(wire, 4, 't', 'e', 's', 't', 0)
		name, _, err := dns.UnpackDomainName(wire, 0)
		hlib.Must(err)
		r.Evaluations++
		for i := 0; i < len(name); i++ {
			if name[i] >= 0x7f || name[i] < 0x20 {
				r.Disagree("wire-name-not-ascii", fmt.Sprintf("label % x unpacks to %q", raw, name), map[string]any{"label": fmt.Sprintf("% x", raw)})
			}
		}
		r.Count("boundary-wire-name-ascii")
	}
	// (3) A name of maximum length (253 characters, 63-byte labels) that a
	// rule blocks: every mode builds its answer.
	long := strings.Repeat("a", 63) + "." + strings.Repeat("b", 63) + "." + strings.Repeat("c", 63) + "." + strings.Repeat("d", 58) + ".tt"
	if len(long) != 253 {
		panic(len(long))
	}
	for _, m := range []modeT{{kind: "null", ttl: 10000}, {kind: "nx", ttl: 10000}, {kind: "ref", ttl: 10000}, {kind: "cip", ttl: 10000, v4: []string{"198.51.100.1"}}} {
		for _, qt := range []uint16{1, 28, 16, 65} {
			c, err := dnsmsg.NewConstructor(&dnsmsg.ConstructorConfig{Cloner: cloner, BlockingMode: m.build(),
				StructuredErrors: agdtest.NewSDEConfig(true), FilteredResponseTTL: m.dur(), EDEEnabled: true})
			hlib.Must(err)
			rq := newReq(long, qt)
			resp, err := c.NewBlockedResp(rq)
			r.Evaluations++
			if err != nil {
				r.Violate("blocked-shape-"+m.kind, fmt.Sprintf("maximum-length name, qtype %d: %v", qt, err), map[string]any{"name": long})
				continue
			}
			if _, err = resp.Pack(); err != nil {
				r.Violate("blocked-shape-"+m.kind, fmt.Sprintf("maximum-length name, qtype %d: the blocked answer cannot be packed: %v", qt, err), map[string]any{"name": long})
			}
			got, want := msgString(resp, nil), expectBlockedShape(m, long, qt)
			if got != want {
				r.Violate("blocked-shape-"+m.kind, fmt.Sprintf("maximum-length name, qtype %d: want %q got %q", qt, want, got), map[string]any{"name": long})
			}
			r.Count("boundary-max-length-name-" + m.kind)
		}
	}
}
