package main

// Round 5: the special domains of the initial middleware (Apple Private Relay,
// Chrome prefetch proxy, Firefox canary).  They are answered BEFORE the main
// middleware, from three switches of the profile; earlier rounds never asked
// for these names, so that glue was not driven.  With the switches off the
// names are ordinary names; with a switch on the answer is the documented
// rcode without any record — whatever the rules and the filtering switches say.

import (
	"context"
	"fmt"
	"math/rand/v2"
	"net/netip"
	"time"

	"github.com/AdguardTeam/AdGuardDNS/internal/agd"
	"github.com/AdguardTeam/AdGuardDNS/internal/filter"
	"github.com/AdguardTeam/AdGuardDNS/verifh/hlib"
	"github.com/miekg/dns"
)

var specialHosts = []struct {
	host  string
	kind  string
	rcode int
}{
	{"mask.icloud.com", "relay", dns.RcodeNameError}, {"mask-h2.icloud.com", "relay", dns.RcodeNameError},
	{"mask-canary.icloud.com", "relay", dns.RcodeNameError}, {"dns-tunnel-check.googlezip.net", "prefetch", dns.RcodeNameError},
	{"use-application-dns.net", "canary", dns.RcodeRefused}, {"sub.mask.icloud.com", "-", 0},
}

var specialSeq int

// runSpecial asks for the special names as a fresh profile of the universe
// with random switches, a custom rule about the name (none, allow, rewrite,
// block) and random filtering switches.
func (u *universe) runSpecial(ctx context.Context, r *hlib.Result, rng *rand.Rand, sel srvSel, remote netip.Addr, base *profEntry, ulines []string) (ops, reals []string) {
	sh := pick(rng, specialHosts)
	ruleKind := pick(rng, []string{"none", "allow", "rewrite", "block"})
	var rules []filter.RuleText
	switch ruleKind {
	case "allow":
		rules = []filter.RuleText{filter.RuleText("@@||" + sh.host + "^")}
	case "rewrite":
		rules = []filter.RuleText{filter.RuleText("||" + sh.host + "^$dnsrewrite=198.51.100.77")}
	case "block":
		rules = []filter.RuleText{filter.RuleText("||" + sh.host + "^")}
	}
	specialSeq++
	p := *base.p
	d := *base.d
	p.ID = agd.ProfileID(fmt.Sprintf("sp%d", specialSeq%100000))
	fc := *base.p.FilterConfig
	fc.Custom = &filter.ConfigCustom{ID: string(p.ID), UpdateTime: time.Unix(1700000000+int64(specialSeq), 0), Rules: rules, Enabled: len(rules) > 0}
	p.FilterConfig = &fc
	p.BlockPrivateRelay, p.BlockChromePrefetch, p.BlockFirefoxCanary = rng.IntN(2) == 0, rng.IntN(2) == 0, rng.IntN(2) == 0
	p.FilteringEnabled, d.FilteringEnabled = rng.IntN(3) != 0, rng.IntN(3) != 0
	filteringOn := p.FilteringEnabled && d.FilteringEnabled
	u.profMu.Lock()
	u.profs[remote] = &profEntry{&p, &d}
	u.profMu.Unlock()
	defer func() {
		u.profMu.Lock()
		u.profs[remote] = base
		u.profMu.Unlock()
	}()
	on := map[string]bool{"relay": p.BlockPrivateRelay, "prefetch": p.BlockChromePrefetch, "canary": p.BlockFirefoxCanary, "-": false}[sh.kind]
	for _, qt := range []uint16{dns.TypeA, dns.TypeAAAA, dns.TypeHTTPS, dns.TypeTXT} {
		u.lastUp = nil
		out := u.serve(ctx, sel, newReq(pick(rng, []string{sh.host, mixCase(rng, sh.host)}), qt), remote)
		real := "error"
		if out.Err == nil && out.Resp != nil {
			real = msgString(out.Resp, u.lastUp)
		}
		rp := map[string]any{"universe_lines": ulines, "host": sh.host, "qtype": qt, "custom_rule": ruleKind, "block_private_relay": p.BlockPrivateRelay,
			"block_chrome_prefetch": p.BlockChromePrefetch, "block_firefox_canary": p.BlockFirefoxCanary, "profile_filtering": p.FilteringEnabled,
			"device_filtering": d.FilteringEnabled, "real": real}
		special := on && (qt == dns.TypeA || qt == dns.TypeAAAA)
		r.Case(fmt.Sprintf("special %s %d %s %v %v", sh.host, qt, ruleKind, on, filteringOn), true)
		if special {
			r.Count("special-domain-" + sh.kind + "-switch-on")
			if out.Err != nil || out.Resp == nil || out.Resp.Rcode != sh.rcode || len(out.Resp.Answer) > 0 || u.lastUp != nil {
				r.Violate("special-domain-shape", fmt.Sprintf("%s/%d with its switch on: documented answer is rcode %d without records and without asking the upstream, got %q (upstream asked: %v)",
					sh.host, qt, sh.rcode, real, u.lastUp != nil), rp)
			}
			// Observations: this answer is given before and regardless of
			// filtering.
			if !filteringOn {
				r.Count("special-domain-answered-while-filtering-off")
			}
			if filteringOn && ruleKind == "allow" {
				r.Count("special-domain-beats-custom-allow")
			}
			if filteringOn && ruleKind == "rewrite" {
				r.Count("special-domain-beats-custom-rewrite")
			}
			// The model's initial middleware, with the constructor of the
			// profile in place.
			ops = append(ops, fmt.Sprintf("special %s %s %s %s %d", b01(p.BlockPrivateRelay), b01(p.BlockChromePrefetch), b01(p.BlockFirefoxCanary), sh.host, qt))
			reals = append(reals, real)
			continue
		}
		// An ordinary name: the switch is off, the type is not an address
		// type, or the name only looks similar.
		r.Count("special-domain-ordinary")
		wantUp := !filteringOn || ruleKind == "none" || ruleKind == "allow" || (ruleKind == "rewrite" && qt != dns.TypeA)
		switch {
		case out.Err != nil || out.Resp == nil:
			r.Violate("special-domain-ordinary", fmt.Sprintf("%s/%d with its switch off: no answer (%v)", sh.host, qt, out.Err), rp)
		case wantUp && (u.lastUp == nil || len(out.Resp.Answer) != len(u.lastUp.Answer) || out.Resp.Rcode != u.lastUp.Rcode):
			r.Violate("special-domain-ordinary", fmt.Sprintf("%s/%d with its switch off and no rule against it: the upstream answer is expected, got %q", sh.host, qt, real), rp)
		case !wantUp && ruleKind == "rewrite" && (len(out.Resp.Answer) != 1 || rrVal(out.Resp.Answer[0]) != "198.51.100.77"):
			r.Violate("special-domain-ordinary", fmt.Sprintf("%s/%d with its switch off and a custom rewrite: got %q", sh.host, qt, real), rp)
		}
	}
	return ops, reals
}

// runSpecialGroup asks for the special names as an anonymous requester of a
// server group whose filtering group carries the switches sp (private relay,
// firefox canary, chrome prefetch) in the configuration file.
func (u *universe) runSpecialGroup(ctx context.Context, r *hlib.Result, rng *rand.Rand, sel srvSel, remote netip.Addr, sp [3]bool, ulines []string) (ops, reals []string) {
	for _, sh := range specialHosts {
		on := map[string]bool{"relay": sp[0], "canary": sp[1], "prefetch": sp[2], "-": false}[sh.kind]
		qt := pick(rng, []uint16{dns.TypeA, dns.TypeAAAA})
		u.lastUp = nil
		out := u.serve(ctx, sel, newReq(sh.host, qt), remote)
		real := "error"
		if out.Err == nil && out.Resp != nil {
			real = msgString(out.Resp, u.lastUp)
		}
		rp := map[string]any{"universe_lines": ulines, "host": sh.host, "qtype": qt, "group_block_private_relay": sp[0],
			"group_block_firefox_canary": sp[1], "group_block_chrome_prefetch": sp[2], "real": real}
		r.Case(fmt.Sprintf("special-group %s %d %v", sh.host, qt, sp), true)
		if on {
			r.Count("special-domain-group-" + sh.kind + "-switch-on")
			if out.Err != nil || out.Resp == nil || out.Resp.Rcode != sh.rcode || len(out.Resp.Answer) > 0 || u.lastUp != nil {
				r.Violate("special-domain-shape", fmt.Sprintf("anonymous %s/%d, switch on in the filtering group of the configuration file: documented answer is rcode %d without records, got %q (upstream asked: %v)",
					sh.host, qt, sh.rcode, real, u.lastUp != nil), rp)
			}
			ops = append(ops, fmt.Sprintf("special %s %s %s %s %d", b01(sp[0]), b01(sp[2]), b01(sp[1]), sh.host, qt))
			reals = append(reals, real)
			continue
		}
		r.Count("special-domain-group-ordinary")
		if out.Err != nil || out.Resp == nil || (out.Resp.Rcode == sh.rcode && sh.rcode != 0 && u.lastUp == nil) {
			r.Violate("special-domain-ordinary", fmt.Sprintf("anonymous %s/%d, switch off in the filtering group: got the special answer %q", sh.host, qt, real), rp)
		}
	}
	return ops, reals
}
